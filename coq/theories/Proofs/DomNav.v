(** * Navigation agrees with the child lists (the clauses of C12) under the tree invariant

    [parent_node], [first_child], [last_child], [previous_sibling], [next_sibling] are the model
    functions of Model/Store.v that compute what crate [dom] computes (registry lookup of the
    parent id, search of the node in the parent's [child_nodes] by id).  Raw view. *)
From Coq Require Import List NArith Bool Lia.
From XmlRs Require Import Base.CPred Model.Store Proofs.DomBase Proofs.DomTree.
Import ListNotations.
Open Scope N_scope.

Definition child_list (s : store) (p : id) : list id := map vid (child_view s false p).

Lemma child_view_raw s p pit : get s p = Some pit -> container (ikind pit) = true ->
  child_view s false p = map Plain (ichildren pit).
Proof. intros H C. unfold child_view. rewrite H. destruct (ikind pit); try discriminate; reflexivity. Qed.

Lemma map_vid_plain l : map vid (map Plain l) = l.
Proof. induction l as [|x t IH]; cbn; [reflexivity | rewrite IH; reflexivity]. Qed.

Section Nav.
  Variable s : store.
  Hypothesis T : TreeInv s.

  Lemma leaf_no_children p pit : get s p = Some pit -> container (ikind pit) = false -> ichildren pit = [].
  Proof.
    intros Hp Hc. destruct (ichildren pit) as [|c t] eqn:E; [reflexivity|]. exfalso.
    destruct (lists_live_child s T p c) as [cit Hcit]; [exists pit; split; [exact Hp | left; rewrite E; left; reflexivity]|].
    pose proof (ti_child_kind s T p pit c cit Hp ltac:(rewrite E; left; reflexivity) Hcit) as Hok.
    apply child_ok_container in Hok. congruence.
  Qed.

  (** the list [child_nodes] shows is the stored child list *)
  Lemma child_list_spec p pit : get s p = Some pit -> child_list s p = ichildren pit.
  Proof.
    intros Hp. unfold child_list. destruct (container (ikind pit)) eqn:C.
    - rewrite (child_view_raw s p pit Hp C). apply map_vid_plain.
    - rewrite (leaf_no_children p pit Hp C). unfold child_view. rewrite Hp. destruct (ikind pit); try discriminate; reflexivity.
  Qed.

  Lemma child_list_dead p : get s p = None -> child_list s p = [].
  Proof. intros Hp. unfold child_list, child_view. rewrite Hp. reflexivity. Qed.

  Lemma in_child_list p c : In c (child_list s p) <-> exists pit, get s p = Some pit /\ In c (ichildren pit).
  Proof.
    destruct (get s p) as [pit|] eqn:Hp.
    - rewrite (child_list_spec p pit Hp). split; [intros H; exists pit; split; [reflexivity | exact H] | intros [x [E H]]; inversion E; subst; exact H].
    - rewrite (child_list_dead p Hp). split; [intros [] | intros [x [E _]]; discriminate].
  Qed.

  Lemma doc_decl_unique d : In d (child_list s (sroot s)) -> has_kind s KDt d = true -> doc_decl s = Some d.
  Proof.
    intros Hin Hk. destruct (ti_root s T) as [rit [Hr _]]. rewrite (child_list_spec _ rit Hr) in Hin.
    unfold doc_decl, children_of. rewrite Hr.
    destruct (find (has_kind s KDt) (ichildren rit)) as [d'|] eqn:F.
    - apply find_some in F. destruct F as [F1 F2]. f_equal. eapply (ti_one_dt s T rit); eauto.
    - pose proof (find_none _ _ F d Hin) as E. congruence.
  Qed.

  (** (1) every node listed in a parent's child_nodes reports that parent *)
  Theorem child_reports_parent p c : In c (child_list s p) -> parent_node s c = Some p.
  Proof.
    intros Hin. pose proof Hin as Hin'. apply in_child_list in Hin. destruct Hin as [pit [Hp Hc]].
    destruct (ti_lists_par s T p c) as [cit [Hcg Hcp]]; [exists pit; split; [exact Hp | left; exact Hc]|].
    pose proof (ti_child_kind s T p pit c cit Hp Hc Hcg) as Hok.
    unfold parent_node. rewrite Hcg.
    destruct (ikind cit) eqn:Kc; try (apply child_ok_not_at in Hok; tauto);
      try (rewrite Hcp, Hp; reflexivity).
    - (* CDATA: the parent must be an element *)
      rewrite Hcp. unfold has_kind. rewrite Hp. destruct (ikind pit); try discriminate. reflexivity.
    - (* doctype: the parent is the document and this is its declaration *)
      assert (Kp : ikind pit = KDoc) by (destruct (ikind pit); try discriminate; reflexivity).
      assert (Er : p = sroot s) by (eapply (ti_doc_root s T); eassumption). subst p.
      rewrite (doc_decl_unique c Hin'); [rewrite N.eqb_refl; reflexivity|].
      unfold has_kind. rewrite Hcg, Kc. reflexivity.
  Qed.

  (** (5) a node that reports a parent is in that parent's child_nodes: a node that has been
      removed (is in no child list) has no parent *)
  Theorem parent_lists_child c p : parent_node s c = Some p -> In c (child_list s p).
  Proof.
    unfold parent_node. destruct (get s c) as [cit|] eqn:Hc; [|discriminate].
    assert (Hgen : iparent cit = Some p -> ikind cit <> KAt -> In c (child_list s p)).
    { intros Hp Hk. destruct (ti_par_lists s T c p) as [pit [Hpg [Hin|Hin]]]; [exists cit; split; assumption| |].
      - apply in_child_list. exists pit. split; assumption.
      - destruct (ti_attr_kind s T p pit c cit Hpg Hin Hc) as [_ E]. contradiction. }
    destruct (ikind cit) eqn:K; try discriminate.
    - destruct (iparent cit) as [q|] eqn:Hp; [|discriminate]. destruct (get s q); [|discriminate]. intros E; inversion E; subst q. apply Hgen; [reflexivity | discriminate].
    - destruct (iparent cit) as [q|] eqn:Hp; [|discriminate]. destruct (get s q); [|discriminate]. intros E; inversion E; subst q. apply Hgen; [reflexivity | discriminate].
    - destruct (iparent cit) as [q|] eqn:Hp; [|discriminate]. destruct (has_kind s KEl q); [|discriminate]. intros E; inversion E; subst q. apply Hgen; [reflexivity | discriminate].
    - destruct (iparent cit) as [q|] eqn:Hp; [|discriminate]. destruct (get s q); [|discriminate]. intros E; inversion E; subst q. apply Hgen; [reflexivity | discriminate].
    - destruct (iparent cit) as [q|] eqn:Hp; [|discriminate]. destruct (get s q); [|discriminate]. intros E; inversion E; subst q. apply Hgen; [reflexivity | discriminate].
    - destruct (iparent cit) as [q|] eqn:Hp; [|discriminate]. destruct (get s q); [|discriminate]. intros E; inversion E; subst q. apply Hgen; [reflexivity | discriminate].
    - destruct (iparent cit) as [q|] eqn:Hp; [|discriminate]. destruct (get s q); [|discriminate]. intros E; inversion E; subst q. apply Hgen; [reflexivity | discriminate].
    - destruct (doc_decl s) as [d|] eqn:D; [|discriminate]. destruct (N.eqb_spec d c) as [->|]; [|discriminate].
      intros E; inversion E; subst p. unfold doc_decl in D. apply find_some in D. destruct D as [D _].
      unfold children_of in D. destruct (get s (sroot s)) as [rit|] eqn:Hr; [|contradiction].
      apply in_child_list. exists rit. split; [exact Hr | exact D].
  Qed.

  (** (3) no node occurs twice *)
  Theorem child_list_nodup p : NoDup (child_list s p).
  Proof.
    destruct (get s p) as [pit|] eqn:Hp.
    - rewrite (child_list_spec p pit Hp). eapply (ti_nodup_c s T); exact Hp.
    - rewrite (child_list_dead p Hp). constructor.
  Qed.

  Theorem one_parent p q c : In c (child_list s p) -> In c (child_list s q) -> p = q.
  Proof. intros H1 H2. apply child_reports_parent in H1. apply child_reports_parent in H2. congruence. Qed.

  (** (2) first_child / last_child are the ends of child_nodes -- by construction, as in dom *)
  Theorem first_child_spec p : option_map vid (first_child s false p) = hd_error (child_list s p).
  Proof. unfold first_child, child_list. destruct (child_view s false p); reflexivity. Qed.

  Theorem last_child_spec p : option_map vid (last_child s false p) = hd_error (rev (child_list s p)).
  Proof. unfold last_child, child_list. rewrite <- map_rev. destruct (rev (child_view s false p)); reflexivity. Qed.

  (** siblings *)
  Lemma skip_to_plain x l1 l2 : ~ In x l1 -> skip_to x (map Plain (l1 ++ x :: l2)) = map Plain (x :: l2).
  Proof.
    induction l1 as [|y t IH]; intros Hn; cbn [app map skip_to vid].
    - rewrite N.eqb_refl. reflexivity.
    - destruct (N.eqb_spec y x) as [->|Hne]; [exfalso; apply Hn; left; reflexivity|].
      apply IH. intros H. apply Hn. right. exact H.
  Qed.

  Lemma sibling_kind_child p pit c cit : get s p = Some pit -> In c (ichildren pit) -> get s c = Some cit -> sibling_kind (ikind cit) = true.
  Proof.
    intros Hp Hin Hc. pose proof (ti_child_kind s T p pit c cit Hp Hin Hc) as Hok.
    apply child_ok_not_at in Hok. destruct (ikind cit); try reflexivity; tauto.
  Qed.

  Lemma view_of_children p pit : get s p = Some pit -> child_view s false p = map Plain (ichildren pit).
  Proof.
    intros Hp. destruct (container (ikind pit)) eqn:C; [apply child_view_raw; assumption|].
    rewrite (leaf_no_children p pit Hp C). unfold child_view. rewrite Hp. destruct (ikind pit); try discriminate; reflexivity.
  Qed.

  (** (2) next_sibling / previous_sibling match the child list *)
  Theorem next_sibling_spec p l1 x l2 :
    child_list s p = l1 ++ x :: l2 -> option_map vid (next_sibling s false x) = hd_error l2.
  Proof.
    intros E. assert (Hin : In x (child_list s p)) by (rewrite E; apply in_elt).
    pose proof (child_reports_parent p x Hin) as Hpar.
    apply in_child_list in Hin. destruct Hin as [pit [Hp Hc]].
    destruct (lists_live_child s T p x) as [xit Hx]; [exists pit; split; [exact Hp | left; exact Hc]|].
    unfold next_sibling. rewrite Hx, (sibling_kind_child p pit x xit Hp Hc Hx), Hpar.
    rewrite (view_of_children p pit Hp). rewrite (child_list_spec p pit Hp) in E.
    pose proof (ti_nodup_c s T p pit Hp) as Hnd. rewrite E in Hnd |- *.
    unfold after. rewrite skip_to_plain by (apply NoDup_remove_2 in Hnd; intros H; apply Hnd; apply in_or_app; left; exact H).
    destruct l2; reflexivity.
  Qed.

  Theorem previous_sibling_spec p l1 x l2 :
    child_list s p = l1 ++ x :: l2 -> option_map vid (previous_sibling s false x) = hd_error (rev l1).
  Proof.
    intros E. assert (Hin : In x (child_list s p)) by (rewrite E; apply in_elt).
    pose proof (child_reports_parent p x Hin) as Hpar.
    apply in_child_list in Hin. destruct Hin as [pit [Hp Hc]].
    destruct (lists_live_child s T p x) as [xit Hx]; [exists pit; split; [exact Hp | left; exact Hc]|].
    unfold previous_sibling. rewrite Hx, (sibling_kind_child p pit x xit Hp Hc Hx), Hpar.
    rewrite (view_of_children p pit Hp). rewrite (child_list_spec p pit Hp) in E.
    pose proof (ti_nodup_c s T p pit Hp) as Hnd. rewrite E in Hnd |- *.
    rewrite <- map_rev, rev_app_distr. cbn [rev]. rewrite <- app_assoc. cbn [app].
    unfold after. rewrite skip_to_plain.
    - destruct (rev l1); reflexivity.
    - apply NoDup_remove_2 in Hnd. intros H. apply Hnd. apply in_or_app. right. apply in_rev. exact H.
  Qed.

  (** a node without a parent has no siblings *)
  Theorem orphan_no_siblings x : parent_node s x = None ->
    next_sibling s false x = None /\ previous_sibling s false x = None.
  Proof.
    intros H. unfold next_sibling, previous_sibling. rewrite H.
    destruct (get s x) as [xit|]; [destruct (sibling_kind (ikind xit))|]; split; reflexivity.
  Qed.

  (** (4) no node is beneath itself: define "beneath" from the child lists *)
  Inductive beneath : id -> id -> Prop :=
  | beneath_child p c : In c (child_list s p) -> beneath c p
  | beneath_step p c a : In c (child_list s p) -> beneath p a -> beneath c a.

  Lemma beneath_anc c a : beneath c a -> anc s c a.
  Proof.
    induction 1 as [p c H | p c a H _ IH].
    - apply anc1. apply in_child_list in H. destruct H as [pit [Hp Hc]]. apply (ti_lists_par s T). exists pit. split; [exact Hp | left; exact Hc].
    - eapply ancS; [|exact IH]. apply in_child_list in H. destruct H as [pit [Hp Hc]]. apply (ti_lists_par s T). exists pit. split; [exact Hp | left; exact Hc].
  Qed.

  Theorem not_beneath_itself x : ~ beneath x x.
  Proof. intros H. apply (ti_acyclic s T x). apply beneath_anc. exact H. Qed.

  (** (6) at most one document element and one document type *)
  Theorem one_document_element x y :
    In x (child_list s (sroot s)) -> In y (child_list s (sroot s)) ->
    has_kind s KEl x = true -> has_kind s KEl y = true -> x = y.
  Proof.
    intros Hx Hy. destruct (ti_root s T) as [rit [Hr _]]. rewrite (child_list_spec _ rit Hr) in Hx, Hy.
    eapply (ti_one_el s T rit); eassumption.
  Qed.

  Theorem one_document_type x y :
    In x (child_list s (sroot s)) -> In y (child_list s (sroot s)) ->
    has_kind s KDt x = true -> has_kind s KDt y = true -> x = y.
  Proof.
    intros Hx Hy. destruct (ti_root s T) as [rit [Hr _]]. rewrite (child_list_spec _ rit Hr) in Hx, Hy.
    eapply (ti_one_dt s T rit); eassumption.
  Qed.
End Nav.
