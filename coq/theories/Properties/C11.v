(** C11 -- attribute values are normalized and defaulted as XML 1.0 3.3.3 requires.
    This file only names the theorems; proofs live in Proofs/Attr*.v.

    Objects.  [piece] / [table] / [dtd_doc] (Spec/AttrNorm.v): attribute value literals as lists of
    text, character references and entity references; the internal general entities and the
    attribute-list declarations of the DTD in document order.  [spec_*] is the transcription of
    XML 1.0 3.3, 3.3.2, 3.3.3, 4.1, 4.5, 4.6; [model_*] (Model/AttrModel.v) is xml-info / xml-dom on branch
    agent-nsattr2 (main + the fixes D37, D38, D54, D55), tied to the crates by the [attr] correspondence.
    Hypotheses: [wf_table] = every reference of an entity literal is declared, no reference cycle, no
    '&' / '<' (literal or as character reference) in entity literals; [doc_wf] = the entities are
    declared before the attribute-list declarations, the table is [wf_table], every literal refers to
    declared entities -- i.e. the document is well-formed.  Ill-formed documents are refused by the
    model and the specification alike: [attribute_set_refines_all] proves that the two refusals coincide
    ([cycle_refused], [dtd_bad_refused] in Proofs/AttrExamples.v are instances).

    Findings that stay:
      D36  [#REQUIRED] attributes that are not written are materialised with an empty value
           (pinned by info::tests::test_attribute_specified_required)  -> [Known36]
      D56  an entity literal with [&#38;] (double escaping, e.g. the recommended declaration of lt) is
           not re-scanned  -> [KnownEsc] *)
From Coq Require Import List NArith Bool.
From XmlRs Require Import Base.CPred Spec.AttrNorm Model.AttrModel
  Proofs.AttrTokenProofs Proofs.AttrNormProofs Proofs.AttrSetProofs Proofs.AttrWfProofs Proofs.AttrExamples
  Proofs.AttrNsDefaults.
Open Scope N_scope.

(** *** normalized value: the model computes the XML 1.0 normalized value, for every entity table without
    reference cycle, every declared type (or none), every literal *)
Theorem normalized_value_refines : forall dtd ty lit,
  wf_table dtd -> model_value dtd ty lit = spec_value dtd ty lit.
Proof. exact normalized_value_refines_proof. Qed.

(** ... at every amount of fuel, whether or not all references are declared, as soon as no entity literal
    contains [&#38;] / [&#60;] and there is no reference cycle *)
Theorem normalized_value_refines_known : forall dtd fuel ty lit,
  KnownEsc dtd = false -> acyclic dtd -> model_value_f fuel dtd ty lit = spec_value_f fuel dtd ty lit.
Proof. exact normalized_value_refines_known_proof. Qed.

(** the fuel of the specification is enough, so [Recursion] is only answered on a reference cycle *)
Theorem fuel_suffices : forall dtd ty lit,
  wf_table dtd -> lit_declared dtd lit -> exists s, spec_value dtd ty lit = Ok s.
Proof. exact fuel_suffices_proof. Qed.

(** the real code has no bound: every larger fuel gives the same value, on both sides *)
Theorem fuel_irrelevant : forall dtd ty lit fuel,
  wf_table dtd -> lit_declared dtd lit -> (length dtd < fuel)%nat ->
  spec_value_f fuel dtd ty lit = spec_value dtd ty lit /\ model_value_f fuel dtd ty lit = model_value dtd ty lit.
Proof. exact fuel_irrelevant_proof. Qed.

(** the Rust [split(' ') / filter / join(" ")] is the normalization of non-CDATA types, and that
    normalization has the properties 3.3.3 states *)
Theorem tokenization_refines : forall s : str, split_filter_join s = tokenized s.
Proof. exact split_filter_join_tokenized. Qed.
Theorem tokenized_sound : forall s : str,
  starts_sp (tokenized s) = false /\ (forall x, x <> 32 -> last (tokenized s) x <> 32) /\
  no_double (tokenized s) = true /\ words (tokenized s) = words s /\ tokenized (tokenized s) = tokenized s.
Proof.
  intros s. repeat split.
  - apply tokenized_no_leading. - apply tokenized_no_trailing. - apply tokenized_no_double.
  - apply tokenized_words. - apply tokenized_idempotent.
Qed.

(** *** attribute set.  Full-strength statement (REFUTED by the model, finding D36):
      forall d el written, doc_wf d written ->
        model_attrs d el written = map_ares (map of_item) (spec_attrs d el written)
    What holds: the same outside [Known36].  The attribute-list declarations MAY define namespace declarations
    ([xmlns], [xmlns:p]; the former hypothesis [no_ns_defs] is gone with /repo commit bf629dc, D67): a namespace
    declaration, written or supplied by a default, is no member of [attributes] (XML Infoset 2.2) on either side
    ([namespace_declarations_excluded]; satisfiable: [nsdef_attrs] in Proofs/AttrNsDefaults.v). *)
Theorem attribute_set_refines : forall d el written,
  doc_wf d written -> Known36 d el written = false ->
  model_attrs d el written = map_ares (map of_item) (spec_attrs d el written).
Proof. exact attribute_set_refines_proof. Qed.

Theorem namespace_declarations_excluded : forall d el written,
  (forall l, spec_attrs d el written = Ok l -> Forall (fun i => is_nsdecl (ai_name i) = false) l) /\
  (forall l, model_attrs d el written = Ok l -> Forall (fun a => is_nsdecl (ma_name a) = false) l).
Proof. exact no_nsdecl_among_attributes. Qed.

Theorem attribute_set_refuted :
  exists d el written, doc_wf d written /\ no_ns_defs d el /\ Known36 d el written = true /\
    model_attrs d el written <> map_ares (map of_item) (spec_attrs d el written).
Proof. exact attribute_set_refuted_proof. Qed.

(** *** ... and for EVERY document whose entity literals are free of '&' / '<' and which does not redeclare a
    predefined entity -- well-formed or not: the checks made when the document is built ([check_entity_ref])
    accept exactly the literals the specification can expand, so both sides refuse the same documents, and
    on the accepted ones the attribute sets are equal (outside [Known36]) *)
Theorem build_checks_refine : forall T lit, simple_table T -> m_refs_found T lit = lit_expands T lit.
Proof. exact literal_checks_agree. Qed.

Theorem attribute_set_refines_all : forall d el written,
  simple_table (entities_of d) -> predefined_free (entities_of d) -> Known36 d el written = false ->
  model_attrs d el written = map_ares (map of_item) (spec_attrs d el written).
Proof. exact attribute_set_refines_all_proof. Qed.

(** a value is right as soon as the entities its literal reaches can be expanded ([good]), whatever else
    the table contains *)
Theorem normalized_value_refines_good : forall T ty lit,
  simple_table T -> (forall n, In n (refs_of lit) -> good T n) -> model_value T ty lit = spec_value T ty lit.
Proof. exact value_refines_good. Qed.

(** the fuel of the model is a proof device only: it never runs out, on any table (the Rust terminates) *)
Theorem model_never_out_of_fuel : forall T ty lit, model_value T ty lit <> Recursion.
Proof. exact model_value_total. Qed.

Theorem double_escape_refuted :
  exists dtd ty lit, KnownEsc dtd = true /\ model_value dtd ty lit <> spec_value dtd ty lit.
Proof. exact double_escape_refuted_proof. Qed.

(** xml-info's and xml-dom's [specified] agree on every reported attribute *)
Theorem specified_agree : forall d el written l,
  model_attrs d el written = Ok l -> Forall (fun a => ma_ispec a = ma_dspec a) l.
Proof. exact specified_flags_agree. Qed.

Print Assumptions normalized_value_refines.
Print Assumptions normalized_value_refines_known.
Print Assumptions fuel_suffices.
Print Assumptions fuel_irrelevant.
Print Assumptions tokenization_refines.
Print Assumptions tokenized_sound.
Print Assumptions attribute_set_refines.
Print Assumptions namespace_declarations_excluded.
Print Assumptions attribute_set_refuted.
Print Assumptions build_checks_refine.
Print Assumptions attribute_set_refines_all.
Print Assumptions normalized_value_refines_good.
Print Assumptions model_never_out_of_fuel.
Print Assumptions double_escape_refuted.
Print Assumptions specified_agree.
