(** * Basic facts about the store model: lookups after updates, list helpers *)
From Coq Require Import List NArith Bool Lia.
From XmlRs Require Import Base.CPred Model.Store.
Import ListNotations.
Open Scope N_scope.

(** ** get / put / upd *)
Lemma get_put s i it j : get (put s i it) j = if j =? i then Some it else get s j.
Proof. reflexivity. Qed.

Lemma get_put_same s i it : get (put s i it) i = Some it.
Proof. rewrite get_put, N.eqb_refl. reflexivity. Qed.

Lemma get_put_other s i it j : j <> i -> get (put s i it) j = get s j.
Proof. intros Hne. rewrite get_put. destruct (N.eqb_spec j i); [contradiction | reflexivity]. Qed.

Lemma get_upd s i f j :
  get (upd s i f) j = if j =? i then option_map f (get s i) else get s j.
Proof.
  unfold upd. destruct (get s i) as [it|] eqn:E.
  - rewrite get_put. destruct (N.eqb_spec j i); [reflexivity | reflexivity].
  - destruct (N.eqb_spec j i) as [->|]; [rewrite E; reflexivity | reflexivity].
Qed.

Lemma get_upd_same s i f : get (upd s i f) i = option_map f (get s i).
Proof. rewrite get_upd, N.eqb_refl. reflexivity. Qed.

Lemma get_upd_other s i f j : j <> i -> get (upd s i f) j = get s j.
Proof. intros Hne. rewrite get_upd. destruct (N.eqb_spec j i); [contradiction | reflexivity]. Qed.

Lemma next_put s i it : next (put s i it) = next s.
Proof. reflexivity. Qed.
Lemma next_upd s i f : next (upd s i f) = next s.
Proof. unfold upd. destruct (get s i); reflexivity. Qed.
Lemma sroot_put s i it : sroot (put s i it) = sroot s.
Proof. reflexivity. Qed.
Lemma sroot_upd s i f : sroot (upd s i f) = sroot s.
Proof. unfold upd. destruct (get s i); reflexivity. Qed.

Lemma get_invalidate s i : get (invalidate s) i = get s i.
Proof. reflexivity. Qed.
Lemma next_invalidate s : next (invalidate s) = next s.
Proof. reflexivity. Qed.
Lemma sroot_invalidate s : sroot (invalidate s) = sroot s.
Proof. reflexivity. Qed.

(** ** kinds *)
Lemma kind_eqb_spec a b : reflect (a = b) (kind_eqb a b).
Proof. destruct a, b; cbn; constructor; congruence. Qed.

Lemma kind_eqb_refl a : kind_eqb a a = true.
Proof. destruct a; reflexivity. Qed.

(** ** lists of ids *)
Lemma mem_spec x l : mem x l = true <-> In x l.
Proof.
  unfold mem. rewrite existsb_exists. split.
  - intros [y [Hy Heq]]. apply N.eqb_eq in Heq. subst. exact Hy.
  - intros H. exists x. split; [exact H | apply N.eqb_refl].
Qed.

Lemma mem_false x l : mem x l = false <-> ~ In x l.
Proof.
  rewrite <- mem_spec. destruct (mem x l); split; intros H; congruence.
Qed.

Lemma remove_first_in x y l : In y (remove_first x l) -> In y l.
Proof.
  induction l as [|z t IH]; cbn [remove_first]; [tauto|].
  destruct (N.eqb_spec z x).
  - intros H. right. exact H.
  - intros [H|H]; [left; exact H | right; apply IH; exact H].
Qed.

Lemma remove_first_in_ne x y l : In y l -> y <> x -> In y (remove_first x l).
Proof.
  induction l as [|z t IH]; cbn [remove_first]; [tauto|].
  intros [H|H] Hne.
  - subst z. destruct (N.eqb_spec y x); [contradiction | left; reflexivity].
  - destruct (N.eqb_spec z x); [exact H | right; apply IH; assumption].
Qed.

Lemma remove_first_nodup x l : NoDup l -> NoDup (remove_first x l).
Proof.
  induction 1 as [|z t Hz Hnd IH]; cbn [remove_first]; [constructor|].
  destruct (N.eqb_spec z x); [exact Hnd|].
  constructor; [|exact IH]. intros H. apply Hz. eapply remove_first_in; eassumption.
Qed.

Lemma remove_first_notin x l : NoDup l -> ~ In x (remove_first x l).
Proof.
  induction 1 as [|z t Hz Hnd IH]; cbn [remove_first]; [tauto|].
  destruct (N.eqb_spec z x) as [->|Hne]; [exact Hz|].
  intros [H|H]; [contradiction | apply IH; exact H].
Qed.

Lemma insert_at_in n x l y : In y (insert_at n x l) <-> y = x \/ In y l.
Proof.
  revert l. induction n as [|n IH]; intros l; cbn [insert_at].
  - cbn. intuition congruence.
  - destruct l as [|z t]; cbn.
    + intuition congruence.
    + rewrite IH. intuition congruence.
Qed.

Lemma insert_at_nodup n x l : NoDup l -> ~ In x l -> NoDup (insert_at n x l).
Proof.
  revert l. induction n as [|n IH]; intros l Hnd Hx; cbn [insert_at].
  - constructor; assumption.
  - destruct l as [|z t].
    + constructor; [tauto | constructor].
    + inversion Hnd; subst. constructor.
      * rewrite insert_at_in. intros [->|H]; [apply Hx; left; reflexivity | contradiction].
      * apply IH; [assumption | intros H; apply Hx; right; exact H].
Qed.

Lemma in_app_single (x y : id) l : In y (l ++ [x]) <-> y = x \/ In y l.
Proof. rewrite in_app_iff. cbn. intuition congruence. Qed.

Lemma nodup_app_single (x : id) l : NoDup l -> ~ In x l -> NoDup (l ++ [x]).
Proof.
  intros Hnd Hx. induction Hnd as [|z t Hz Hnd IH]; cbn.
  - constructor; [tauto | constructor].
  - constructor.
    + rewrite in_app_single. intros [->|H]; [apply Hx; left; reflexivity | contradiction].
    + apply IH. intros H. apply Hx. right. exact H.
Qed.

Lemma index_of_some x l n : index_of x l = Some n -> In x l.
Proof.
  revert n. induction l as [|z t IH]; cbn [index_of]; [discriminate|].
  intros n. destruct (N.eqb_spec z x) as [->|Hne]; [left; reflexivity|].
  destruct (index_of x t) eqn:E; cbn; [|discriminate]. intros _. right. eapply IH. reflexivity.
Qed.

Lemma str_eqb_refl a : str_eqb a a = true.
Proof. induction a as [|x a IH]; cbn; [reflexivity|]. rewrite N.eqb_refl, IH. reflexivity. Qed.

Lemma str_eqb_eq a b : str_eqb a b = true <-> a = b.
Proof.
  split; [|intros ->; apply str_eqb_refl].
  revert b. induction a as [|x a IH]; destruct b as [|y b]; cbn; try discriminate; [reflexivity|].
  intros H. apply andb_true_iff in H. destruct H as [H1 H2]. apply N.eqb_eq in H1. f_equal; [exact H1 | apply IH; exact H2].
Qed.
