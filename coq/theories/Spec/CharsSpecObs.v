(** Observation of the specification classes at their thresholds (see Model/CharsObs.v). *)
From Coq Require Import List NArith Bool.
From XmlRs Require Import Base.CPred Spec.XmlChars.
Import ListNotations.
Open Scope N_scope.

Definition scalarP : cpred := InR [(0,0xD7FF);(0xE000,0x10FFFF)].

Definition obs (p : cpred) : list (N * bool) :=
  let q := And p scalarP in map (fun t => (t, eval q t)) (0 :: bps q).

(** keyed by the name of the Rust function that implements the class *)
Definition spec_classes : list (list N * cpred) :=
  [ ([105;115;95;99;104;97;114], spec_Char);
    ([105;115;95;110;97;109;101;95;115;116;97;114;116;95;99;104;97;114], spec_NameStartChar);
    ([105;115;95;110;97;109;101;95;99;104;97;114], spec_NameChar);
    ([105;115;95;112;117;98;105;100;95;99;104;97;114], spec_PubidChar);
    ([105;115;95;101;110;99;95;110;97;109;101], spec_EncNameChar) ].

Definition spec_obs : list (list N * list (N * bool)) :=
  map (fun np => (fst np, obs (snd np))) spec_classes.
