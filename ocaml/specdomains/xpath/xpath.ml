(* xpath (spec side): Spec/XPath10.v on the same input as the model driver (see a_reader.ml).
   output: R <value> # R ...   values in the syntax of the harness; every dynamic error is `err` *)
let rec int64_of_pos (p : positive) : int64 = match p with
  | XH -> 1L
  | XO q -> Int64.mul 2L (int64_of_pos q)
  | XI q -> Int64.add (Int64.mul 2L (int64_of_pos q)) 1L
let int64_of_z (z : z) : int64 = match z with Z0 -> 0L | Zpos p -> int64_of_pos p | Zneg p -> Int64.neg (int64_of_pos p)

let show_snode (raw : (string * string * string) array) (doc : xdoc) (n : snode) : string =
  let row = (match n with Row i -> i | NsOf (_, i) -> i) in
  let k = int_of_n row in
  if k < Array.length raw && int_of_n (getd doc row).n_id <> 0 then string_of_int k
  else if k < Array.length raw then (let (kd, nm, d) = raw.(k) in "z" ^ kd ^ ":" ^ nm ^ ":" ^ d)
  else "invalid" ^ string_of_int k

let show_sval raw doc (v : sval) : string =
  match v with
  | SBool b -> if b then "b:1" else "b:0"
  | SNum x -> Printf.sprintf "n:%016Lx" (int64_of_z (f64_to_bits x))
  | SStr s -> "s:" ^ enc s
  | SNodes l -> "ns:" ^ String.concat "." (List.map (show_snode raw doc) l)

let split_sections (words : string list) : string list list =
  let rec go cur acc = function
    | [] -> List.rev (List.rev cur :: acc)
    | "#" :: r -> go [] (List.rev cur :: acc) r
    | w :: r -> go (w :: cur) acc r in
  go [] [] words

let () = register "xpath" (fun words ->
    try
      let secs = split_sections words in
      let ns = ref [] in
      let doc = ref [] in
      let raw = ref [||] in
      let out = ref [] in
      List.iter (fun sec ->
          match sec with
          | "B" :: nb :: rest ->
            let rec go k l = if k = 0 then () else
                (match l with
                 | p :: u :: r -> ns := !ns @ [((if p = "~" then None else Some (dec p)), dec u)]; go (k - 1) r
                 | _ -> raise (Bad "bindings")) in
            go (int_of_string nb) rest
          | "D" :: _ :: nodes ->
            let l = List.map parse_node nodes in
            doc := List.map fst l; raw := Array.of_list (List.map snd l)
          | ["A"; "X"] -> out := "R err:Syntax P0,0" :: !out
          | "A" :: ast ->
            toks := ast;
            let e = r_or () in
            if !toks <> [] then raise (Bad "trailing tokens");
            let s = (match spec_query !doc !ns N0 N0 e with
                | Some v -> show_sval !raw !doc v
                | None -> "err") in
            out := ("R " ^ s ^ " P0,0") :: !out
          | [] -> ()
          | w :: _ -> raise (Bad ("section " ^ w))) secs;
      String.concat " # " (List.rev !out)
    with Bad s -> "badast " ^ s | Failure s -> "badinput " ^ s)
