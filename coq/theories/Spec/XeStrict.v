(** * A stricter reading of "replace the children of the selected nodes" (C17).

    [replace_spec] (Spec/XeSpec.v) does not descend below a replaced node: a selected attribute
    that lies below a selected element (or below the selected document node) is never looked at,
    so a replacement that is no attribute value is accepted there.  The stricter reading: a
    replacement that cannot stand at SOME selected node makes the request unusable, wherever
    that node lies.  [replace_spec_strict] is [replace_spec] plus
      - every selected attribute anywhere in the document can hold the replacement, and
      - when the document node is selected, the replacement AS PARSED (before adjacent
        character data is merged and empty character data disappears) is what a document
        can hold: comments, processing instructions and exactly one element.
    It answers the same document as [replace_spec] whenever it answers
    ([Proofs/XeAny.v: strict_refines]).  Definitions only. *)
From Coq Require Import List NArith Bool Arith.
From XmlRs Require Import Base.CPred Spec.XeSpec.
Import ListNotations.
Local Open Scope nat_scope.

(** an attribute with a selected identifier, anywhere in the tree *)
Fixpoint attr_sel (sel : list nat) (n : xn) : bool :=
  match n with
  | E _ _ attrs ch => existsb (fun a => memb (fst (fst a)) sel) attrs || existsb (attr_sel sel) ch
  | _ => false
  end.

Definition replace_spec_strict (sel : list nat) (frag : list fnode) (d : xdoc) : option xdoc :=
  if existsb (attr_sel sel) (dchildren d) && match frag_text frag with None => true | Some _ => false end
  then None
  else if memb (did d) sel && negb (doc_children_ok (map conv frag))
  then None
  else replace_spec sel frag d.
