(** * The minimal-parentheses spelling of Spec/XPathSyntax.v is a spelling (C08).

    [paren a] inserts parentheses only where the precedence ladder or the lexical rules of
    XPath 1.0 section 3.7 demand them.  For every tree [a] whose leaves are lexically valid
    ([leaves_ok]): [paren a] is derivable from the grammar ([paren_wf]) and equivalent to [a]
    ([paren_equiv], in fact they have the same normal form).  Together with the round trip
    theorem this gives the general form of "operators bind and associate as the grammar
    prescribes": the unparenthesised spelling of ANY tree parses back to that tree. *)
From Coq Require Import List NArith Arith Lia Bool.
From XmlRs Require Import Base.CPred Spec.XmlChars Spec.XPathSyntax Proofs.XPathParseMain.
Import ListNotations.

Lemma xexpr_size_ind (Pr : xexpr -> Prop) :
  (forall a, (forall b, (size b < size a)%nat -> Pr b) -> Pr a) -> forall a, Pr a.
Proof.
  intros H a. assert (G : forall n b, (size b < n)%nat -> Pr b).
  { induction n as [|n IH]; intros b Hb; [lia|]. apply H. intros c Hc. apply IH. lia. }
  apply (G (S (size a))). lia.
Qed.

Lemma forallb_map_in {A B} (f : A -> B) (g : B -> bool) l :
  (forall x, In x l -> g (f x) = true) -> forallb g (map f l) = true.
Proof.
  induction l as [|x l IH]; intros H; [reflexivity|]. cbn [map forallb].
  rewrite (H x (or_introl eq_refl)). apply IH. intros y Hy. apply H. right. exact Hy.
Qed.

(** ** lexically valid leaves *)
Definition step_leaves (f : xexpr -> bool) (s : xstep) : bool :=
  match s with XStep _ t preds => wf_ntest t && forallb f preds | _ => true end.

Fixpoint leaves_ok (a : xexpr) : bool :=
  match a with
  | XBin _ a b => leaves_ok a && leaves_ok b
  | XNeg a => leaves_ok a
  | XLit s => wf_lit s
  | XNum s => is_number s
  | XVar q => wf_qname q
  | XCall f args => wf_fname f && forallb leaves_ok args
  | XParen a => leaves_ok a
  | XFilter p preds => leaves_ok p && nonempty preds && forallb leaves_ok preds
  | XRoot => true
  | XPath st first rest =>
      match st with SFrom f _ => leaves_ok f | _ => true end
      && step_leaves leaves_ok first
      && forallb (fun x : sep * xstep => let (_, s) := x in step_leaves leaves_ok s) rest
  end.

(** ** [paren] preserves the normal form *)
Lemma norm_wrap c a : norm (wrap_if c a) = norm a.
Proof. destruct c; reflexivity. Qed.

Definition pstep (s : xstep) : xstep :=
  match s with XStep a t preds => XStep a t (map paren preds) | XDot => XDot | XDotDot => XDotDot end.

Definition nstep (s : xstep) : xstep :=
  match s with
  | XStep a t preds => XStep (norm_axis a) t (map (fun q => norm_pred_top (norm q)) preds)
  | XDot => XStep (AFull XSelf) (TType KNode) []
  | XDotDot => XStep (AFull XParent) (TType KNode) []
  end.

Definition lead (s : sep) : list xstep := match s with SSlash => [] | SDSlash => [dos_step] end.

Lemma norm_path_eq st first rest :
  norm (XPath st first rest) =
  match (match st with SRel => [] | SAbs s => lead s | SFrom _ s => lead s end)
        ++ nstep first :: flat_map (fun x : sep * xstep => let (s, y) := x in lead s ++ [nstep y]) rest with
  | [] => XRoot
  | x :: r => XPath (match st with SRel => SRel | SAbs _ => SAbs SSlash | SFrom f _ => SFrom (norm f) SSlash end)
                    x (map (fun y => (SSlash, y)) r)
  end.
Proof. reflexivity. Qed.

Lemma paren_path_eq st first rest :
  paren (XPath st first rest) =
  XPath (match st with
         | SRel => SRel
         | SAbs s => SAbs s
         | SFrom f s => let f' := paren f in SFrom (wrap_if (negb (is_filter f')) f') s
         end)
        (pstep first) (map (fun x : sep * xstep => let (s, y) := x in (s, pstep y)) rest).
Proof. reflexivity. Qed.

Theorem norm_paren : forall a, norm (paren a) = norm a.
Proof.
  apply xexpr_size_ind. intros a IH.
  assert (Hl : forall l, (list_sum (map size l) < size a)%nat -> forall x, In x l -> norm (paren x) = norm x).
  { intros l Hsz x Hx. apply IH. pose proof (size_in x l Hx). lia. }
  assert (Hpreds : forall l, (list_sum (map size l) < size a)%nat ->
            map (fun q => norm_pred_top (norm q)) (map paren l) = map (fun q => norm_pred_top (norm q)) l).
  { intros l Hsz. rewrite map_map. apply map_ext_in. intros x Hx. now rewrite (Hl l Hsz x Hx). }
  assert (Hstep : forall s, (step_size size s < size a)%nat -> nstep (pstep s) = nstep s).
  { intros s Hsz. destruct s as [ax t preds| |]; [|reflexivity|reflexivity]. cbn [pstep nstep]. f_equal.
    apply Hpreds. cbn [step_size] in Hsz. lia. }
  destruct a as [o l r|a'|s|s|q|f args|a'|p preds| |st first rest]; try reflexivity.
  - cbn [paren norm size] in *. rewrite !norm_wrap, (IH l), (IH r) by lia. reflexivity.
  - cbn [paren norm size] in *. rewrite norm_wrap, (IH a') by lia. reflexivity.
  - cbn [paren norm size] in *. f_equal. rewrite map_map. apply map_ext_in. intros x Hx. apply (Hl args); [lia|exact Hx].
  - cbn [paren norm size] in *. apply IH. lia.
  - cbn [paren size] in *. cbn [norm]. rewrite norm_wrap, (IH p) by lia.
    destruct preds as [|x preds']; [reflexivity|]. cbn [map]. f_equal.
    change (norm_pred_top (norm (paren x)) :: map (fun q => norm_pred_top (norm q)) (map paren preds'))
      with (map (fun q => norm_pred_top (norm q)) (map paren (x :: preds'))).
    rewrite Hpreds by lia. reflexivity.
  - rewrite paren_path_eq, !norm_path_eq. cbn [size] in IH, Hl, Hpreds, Hstep.
    assert (Hfirst : nstep (pstep first) = nstep first) by (apply Hstep; lia).
    assert (Hrest : flat_map (fun x : sep * xstep => let (s, y) := x in lead s ++ [nstep y])
                      (map (fun x : sep * xstep => let (s, y) := x in (s, pstep y)) rest)
                    = flat_map (fun x : sep * xstep => let (s, y) := x in lead s ++ [nstep y]) rest).
    { assert (Hin : forall y, In y rest -> nstep (pstep (snd y)) = nstep (snd y)).
      { intros y Hy. apply Hstep. pose proof (size_in_rest y rest Hy). lia. }
      clear -Hin. induction rest as [|[sp y] rest IHr]; [reflexivity|]. cbn [map flat_map].
      pose proof (Hin (sp, y) (or_introl eq_refl)) as E. cbn [snd] in E. rewrite E. f_equal. apply IHr. intros z Hz. apply Hin. right. exact Hz. }
    rewrite Hfirst, Hrest.
    destruct st as [|sp|f sp]; try reflexivity.
    cbv beta iota zeta. rewrite norm_wrap, (IH f) by (cbn [size]; lia). reflexivity.
Qed.

Theorem paren_equiv : forall a, paren a ≈ a.
Proof. intros a. unfold xequiv. apply norm_paren. Qed.

(** ** [paren] yields a derivable tree *)
Lemma level_paren_le8 a : (level a <= 8)%nat.
Proof. destruct a as [o| | | | | | | | |]; cbn [level]; try lia. destruct o; cbn; lia. Qed.

Lemma lvl_le7 o : (lvl o <= 7)%nat.
Proof. destruct o; cbn; lia. Qed.

Lemma wfb_wrap c a : wfb (wrap_if c a) = wfb a.
Proof. destruct c; reflexivity. Qed.

Theorem paren_wf : forall a, leaves_ok a = true -> wfb (paren a) = true.
Proof.
  apply (xexpr_size_ind (fun a => leaves_ok a = true -> wfb (paren a) = true)). intros a IH Hl.
  assert (Hlist : forall l, (list_sum (map size l) < size a)%nat -> forallb leaves_ok l = true ->
            forallb wfb (map paren l) = true).
  { intros l Hsz Hok. apply forallb_map_in. intros x Hx. rewrite forallb_forall in Hok.
    apply IH; [pose proof (size_in x l Hx); lia|apply Hok, Hx]. }
  assert (Hstep : forall s, (step_size size s < size a)%nat -> step_leaves leaves_ok s = true ->
            match pstep s with XStep _ t preds => wf_ntest t && forallb wfb preds | _ => true end = true).
  { intros s Hsz Hok. destruct s as [ax t preds| |]; [|reflexivity|reflexivity]. cbn [pstep step_leaves] in *.
    apply andb_true_iff in Hok. destruct Hok as [Ht Hp]. rewrite Ht. cbn [andb]. apply Hlist; [cbn [step_size] in Hsz; lia|exact Hp]. }
  destruct a as [o l r|a'|s|s|q|f args|a'|p preds| |st first rest]; cbn [leaves_ok size] in *; try (cbn [paren wfb]; exact Hl); try reflexivity.
  - apply andb_true_iff in Hl. destruct Hl as [Hll Hlr].
    pose proof (IH l ltac:(lia) Hll) as Wl. pose proof (IH r ltac:(lia) Hlr) as Wr.
    cbn [paren]. set (l' := paren l) in *. set (r' := paren r) in *. cbn [wfb]. rewrite !wfb_wrap, Wl, Wr, !andb_true_r.
    pose proof (lvl_le7 o) as L7.
    assert (H1 : (lvl o <=? level (wrap_if ((level l' <? lvl o)%nat || bad_after_root o && ends_root l') l'))%nat = true).
    { destruct ((level l' <? lvl o)%nat) eqn:E; cbn [orb wrap_if level].
      - apply Nat.leb_le. lia.
      - destruct (bad_after_root o && ends_root l'); cbn [wrap_if level]; apply Nat.leb_le; [lia|apply Nat.ltb_ge in E; exact E]. }
    assert (H2 : (lvl o <? level (wrap_if (level r' <=? lvl o)%nat r'))%nat = true).
    { destruct ((level r' <=? lvl o)%nat) eqn:E; cbn [wrap_if level]; apply Nat.ltb_lt; [lia|apply Nat.leb_gt in E; exact E]. }
    assert (H3 : negb (bad_after_root o && ends_root (wrap_if ((level l' <? lvl o)%nat || bad_after_root o && ends_root l') l')) = true).
    { destruct (bad_after_root o) eqn:Eb; [|reflexivity]. cbn [andb].
      destruct (ends_root l') eqn:Er; [rewrite orb_true_r; reflexivity|].
      destruct ((level l' <? lvl o)%nat); cbn [orb wrap_if ends_root]; [reflexivity|now rewrite Er]. }
    now rewrite H1, H2, H3.
  - pose proof (IH a' ltac:(lia) Hl) as Wa. cbn [paren]. set (x := paren a') in *. cbn [wfb]. rewrite wfb_wrap, Wa, andb_true_r.
    destruct ((level x <? 6)%nat) eqn:E; cbn [wrap_if level]; [reflexivity|apply Nat.leb_le; apply Nat.ltb_ge in E; exact E].
  - apply andb_true_iff in Hl. destruct Hl as [Hf Hargs]. cbn [paren wfb]. rewrite Hf. cbn [andb]. apply Hlist; [lia|exact Hargs].
  - cbn [paren wfb]. apply IH; [lia|exact Hl].
  - rewrite !andb_true_iff in Hl. destruct Hl as [[Hp Hne] Hpreds].
    pose proof (IH p ltac:(lia) Hp) as Wp. cbn [paren]. set (p' := paren p) in *. cbn [wfb]. rewrite wfb_wrap, Wp.
    rewrite (Hlist preds ltac:(lia) Hpreds), !andb_true_r.
    apply andb_true_iff. split.
    + destruct (is_primary p') eqn:E; cbn [negb wrap_if]; [exact E|reflexivity].
    + destruct preds; [discriminate|reflexivity].
  - rewrite !andb_true_iff in Hl. destruct Hl as [[Hst Hfirst] Hrest].
    rewrite paren_path_eq. cbn [wfb].
    rewrite (Hstep first ltac:(lia) Hfirst), andb_true_r.
    apply andb_true_iff. split.
    + destruct st as [|sp|f sp]; [reflexivity|reflexivity|].
      pose proof (IH f ltac:(cbn [size]; lia) Hst) as Wf. cbn zeta. set (f' := paren f) in *. rewrite wfb_wrap, Wf, andb_true_r.
      destruct (is_filter f') eqn:E; cbn [negb wrap_if]; [exact E|reflexivity].
    + rewrite forallb_forall in Hrest. apply forallb_map_in. intros [sp y] Hy.
      pose proof (size_in_rest (sp, y) rest Hy) as Hsz. cbn [snd] in Hsz.
      apply (Hstep y); [lia|apply (Hrest (sp, y) Hy)].
Qed.

(** [paren] introduces no function name *)
Lemma nfc_wrap c a : no_fname_case (wrap_if c a) = no_fname_case a.
Proof. destruct c; reflexivity. Qed.

Theorem nfc_paren : forall a, no_fname_case (paren a) = no_fname_case a.
Proof.
  apply xexpr_size_ind. intros a IH.
  assert (Hlist : forall l, (list_sum (map size l) < size a)%nat ->
            forallb no_fname_case (map paren l) = forallb no_fname_case l).
  { intros l Hsz. induction l as [|x l IHl]; [reflexivity|].
    change (list_sum (map size (x :: l))) with (size x + list_sum (map size l))%nat in Hsz.
    cbn [map forallb]. rewrite (IH x) by lia. f_equal. apply IHl. lia. }
  assert (Hstep : forall s, (step_size size s < size a)%nat ->
            match pstep s with XStep _ _ preds => forallb no_fname_case preds | _ => true end
            = match s with XStep _ _ preds => forallb no_fname_case preds | _ => true end).
  { intros s Hsz. destruct s as [ax t preds| |]; [|reflexivity|reflexivity]. cbn [pstep]. apply Hlist. cbn [step_size] in Hsz. lia. }
  destruct a as [o l r|a'|s|s|q|f args|a'|p preds| |st first rest]; cbn [size] in *; try reflexivity.
  - cbn [paren no_fname_case]. rewrite !nfc_wrap, (IH l), (IH r) by lia. reflexivity.
  - cbn [paren no_fname_case]. rewrite nfc_wrap. apply IH. lia.
  - cbn [paren no_fname_case]. f_equal. apply Hlist. lia.
  - cbn [paren no_fname_case]. apply IH. lia.
  - cbn [paren no_fname_case]. rewrite nfc_wrap, (IH p), Hlist by lia. reflexivity.
  - rewrite paren_path_eq. cbn [no_fname_case].
    rewrite (Hstep first) by lia. f_equal; [f_equal|].
    + destruct st as [|sp|f sp]; [reflexivity|reflexivity|]. cbn zeta. rewrite nfc_wrap. apply IH. cbn [size]. lia.
    + assert (Hin : forall y, In y rest ->
               match pstep (snd y) with XStep _ _ preds => forallb no_fname_case preds | _ => true end
               = match snd y with XStep _ _ preds => forallb no_fname_case preds | _ => true end).
      { intros y Hy. apply Hstep. pose proof (size_in_rest y rest Hy). lia. }
      clear -Hin. induction rest as [|[sp y] rest IHr]; [reflexivity|]. cbn [map forallb].
      pose proof (Hin (sp, y) (or_introl eq_refl)) as E. cbn [snd] in E. rewrite E. f_equal. apply IHr.
      intros z Hz. apply Hin. right. exact Hz.
Qed.
