(** * C02, rung 3: general entities whose values contain references to other entities
    (WFC No Recursion, Entity Declared / Parsed Entity / No External Entity References through
    nested references).

    SIMPLE entities: the replacement text of every declared internal general entity consists of
    Chars other than `&` and `<` (written directly or as character references), of references
    `&n;` to general entities with n a Name, and does not contain `]]>`.  Markup and `&` produced
    by a character reference stay excluded: those are finding WF13.

    Route: (A) [cer_sound] -- the depth-first check of Model/Info.v [check_entity_ref], with its
    `seen` map, only answers Ok when the entity is GOOD at some height ([goodb h e]: a boolean
    function of the entity table, without any memory); by induction on the fuel.
    (B) [expand_good] / [av_good] -- a good entity is expanded / re-read by Spec/XmlWF.v without
    error: by induction on the height, with the invariant that no entity on the path ([visited])
    is good at the current height; the fuel of the specification suffices because the path is
    duplicate-free and made of declared names. *)
From Coq Require Import List NArith Arith Lia Bool.
From XmlRs Require Import Base.CPred Spec.XmlChars Model.Peg Gen.XmlcharGen Gen.GrammarXmlGen Model.ParseActions Model.Info Model.Display
     Proofs.XmlcharProofs Proofs.PegTermination Proofs.PegLemmas Proofs.PegInv Proofs.Expansion Proofs.PipelineTotal
     Proofs.DisplayLex Proofs.ActionLemmas Proofs.DisplayElem Proofs.DisplayDoc Proofs.DisplayDtd
     Proofs.ParseInv Proofs.ParseInvElem Proofs.ParseInvBuild Proofs.ParseInvDtd
     Proofs.XmlWFSyntaxLex Proofs.XmlWFSyntaxElem Proofs.XmlWFSyntaxDoc Proofs.XmlWFSyntaxCheck
     Proofs.XmlWFSyntaxDtd Proofs.XmlWFSyntaxDtdElem Proofs.XmlWFSyntaxDtdDoc Proofs.XmlWFSyntaxDtdCheck.
From XmlRs Require Spec.XmlWF.
Import ListNotations.
Local Open Scope N_scope.

(** ** simple entity values and how their replacement text is read back *)
Definition simple_piece (v : ent_value) : bool :=
  match v with
  | XvText s => forallb plain_char s
  | XvCharacter num r => plain_char (W.number (radix_n r) num)
  | XvEntity n => is_Name n
  | XvParameter _ => false
  end.
Definition simple_ent (e : Info.entity) : bool :=
  match en_values e with
  | Some vs => forallb simple_piece vs && match find_sub [93;93;62] (x_repl vs) with None => true | Some _ => false end
  | None => true
  end.

(** the replacement text as a list of tokens: a character, or a reference *)
Definition tok := (char + str)%type.
Definition toks_of (v : ent_value) : list tok :=
  match v with
  | XvText s => map inl s
  | XvCharacter num r => [inl (W.number (radix_n r) num)]
  | XvEntity n => [inr n]
  | XvParameter _ => []
  end.
Definition tok_text (t : tok) : str := match t with inl c => [c] | inr n => 38 :: n ++ [59] end.
Definition tok_item (t : tok) : W.xcontent := match t with inl c => W.XChar c | inr n => W.XEntRef n end.
Definition tok_piece (t : tok) : W.avpiece := match t with inl c => W.AvLit c | inr n => W.AvEnt n end.
Definition tok_ok (t : tok) : bool := match t with inl c => plain_char c | inr n => is_Name n end.
Definition toks (vs : list ent_value) : list tok := flat_map toks_of vs.

Lemma toks_text (vs : list ent_value) : forallb simple_piece vs = true -> flat_map tok_text (toks vs) = x_repl vs.
Proof.
  induction vs as [|v vs IH]; [reflexivity|]. cbn [forallb]. intros H. apply andb_prop in H. destruct H as [Hv Hvs].
  unfold toks, x_repl. cbn [flat_map]. rewrite flat_map_app. fold (toks vs) (x_repl vs). rewrite (IH Hvs). f_equal.
  destruct v as [num r|n|n|s]; cbn [toks_of x_replpiece flat_map tok_text app]; try reflexivity; try discriminate Hv.
  - rewrite app_nil_r. reflexivity.
  - clear. induction s as [|c s IHs]; [reflexivity|]. cbn [map flat_map tok_text app]. f_equal. exact IHs.
Qed.

Lemma toks_ok (vs : list ent_value) : forallb simple_piece vs = true -> forallb tok_ok (toks vs) = true.
Proof.
  induction vs as [|v vs IH]; [reflexivity|]. cbn [forallb]. intros H. apply andb_prop in H. destruct H as [Hv Hvs].
  unfold toks. cbn [flat_map]. rewrite forallb_app. fold (toks vs). rewrite (IH Hvs), andb_true_r.
  destruct v as [num r|n|n|s]; cbn [toks_of forallb tok_ok simple_piece] in *; try (rewrite Hv; reflexivity); try discriminate Hv.
  clear - Hv. induction s as [|c s IHs]; [reflexivity|]. cbn [map forallb tok_ok] in *. apply andb_prop in Hv. destruct Hv as [-> Hs]. exact (IHs Hs).
Qed.

Lemma find_sub_none_app pat (a b : str) : find_sub pat (a ++ b) = None -> find_sub pat b = None.
Proof. induction a as [|c a IH]; [auto|]. cbn [app]. intros H. apply IH. eapply find_sub_none_tail. exact H. Qed.

Lemma content_toks (l : list tok) : forallb tok_ok l = true -> find_sub [93;93;62] (flat_map tok_text l) = None ->
  forall fuel, (length (flat_map tok_text l) < fuel)%nat -> W.p_content fuel (flat_map tok_text l) = Some (map tok_item l, []).
Proof.
  induction l as [|t l IH]; intros Hok Hf fuel Hfu; (destruct fuel as [|f]; [cbn in Hfu; lia|]); [reflexivity|].
  cbn [forallb] in Hok. apply andb_prop in Hok. destruct Hok as [Ht Hl]. cbn [flat_map map] in *.
  destruct t as [c|n]; cbn [tok_text tok_item tok_ok app] in *.
  - destruct (plain_char_spec c Ht) as [Hch [H38 H60]].
    assert (W.starts W.s_cdata_close (c :: flat_map tok_text l) = false) as Hst.
    { unfold W.starts. rewrite Wstrip_same. change W.s_cdata_close with [93;93;62]. rewrite (find_sub_none_prefix _ _ Hf). reflexivity. }
    cbn [W.p_content]. unfold W.c_lt, W.c_amp. rewrite H60, H38, Hch, Hst. cbn [negb andb].
    cbn [length] in Hfu. rewrite (IH Hl (find_sub_none_tail _ _ _ Hf) f) by lia. reflexivity.
  - rewrite content_ref. rewrite <- app_assoc. cbn [app].
    assert (W.p_ref (n ++ 59 :: flat_map tok_text l) = Some (W.REnt n, flat_map tok_text l)) as Eref.
    { destruct n as [|c n']; [discriminate|]. pose proof Ht as Hc. cbn [is_Name] in Hc. apply andb_prop in Hc. destruct Hc as [Hc _].
      cbn [app]. unfold W.p_ref. rewrite (name_start_not_hash c Hc).
      change (c :: n' ++ 59 :: flat_map tok_text l) with ((c :: n') ++ 59 :: flat_map tok_text l).
      rewrite (p_Name_app (c :: n') (59 :: flat_map tok_text l) Ht) by reflexivity. reflexivity. }
    unfold str, char in *. rewrite Eref. cbn [W.bind].
    cbn [length] in Hfu. rewrite !app_length in Hfu. cbn [length] in Hfu.
    rewrite (IH Hl); [reflexivity| |lia].
    apply (find_sub_none_app _ (38 :: n ++ [59])). exact Hf.
Qed.

Lemma pieces_toks (l : list tok) : forallb tok_ok l = true ->
  forall fuel, (length (flat_map tok_text l) < fuel)%nat -> W.p_pieces fuel None W.c_lt (flat_map tok_text l) = Some (map tok_piece l, []).
Proof.
  induction l as [|t l IH]; intros Hok fuel Hfu; (destruct fuel as [|f]; [cbn in Hfu; lia|]); [reflexivity|].
  cbn [forallb] in Hok. apply andb_prop in Hok. destruct Hok as [Ht Hl]. cbn [flat_map map] in *.
  destruct t as [c|n]; cbn [tok_text tok_piece tok_ok app] in *.
  - destruct (plain_char_spec c Ht) as [Hch [H38 H60]].
    cbn [W.p_pieces]. unfold W.c_lt, W.c_amp in *. rewrite H60, H38, Hch. cbn [length] in Hfu. rewrite (IH Hl f) by lia. reflexivity.
  - cbn [W.p_pieces]. change (38 =? W.c_lt) with false. change (38 =? W.c_amp) with true. cbv iota. rewrite <- app_assoc. cbn [app].
    assert (W.p_ref (n ++ 59 :: flat_map tok_text l) = Some (W.REnt n, flat_map tok_text l)) as Eref.
    { destruct n as [|c n']; [discriminate|]. pose proof Ht as Hc. cbn [is_Name] in Hc. apply andb_prop in Hc. destruct Hc as [Hc _].
      cbn [app]. unfold W.p_ref. rewrite (name_start_not_hash c Hc).
      change (c :: n' ++ 59 :: flat_map tok_text l) with ((c :: n') ++ 59 :: flat_map tok_text l).
      rewrite (p_Name_app (c :: n') (59 :: flat_map tok_text l) Ht) by reflexivity. reflexivity. }
    unfold str, char in *. rewrite Eref. cbn [W.bind]. rewrite <- app_assoc in Hfu. cbn [app length] in Hfu. rewrite app_length in Hfu. cbn [length] in Hfu.
    rewrite (IH Hl f) by lia. reflexivity.
Qed.

(** ** (A) the model's depth-first check answers Ok only for GOOD entities *)
Section Good.
Variable ents : list Info.entity.
Variable ext : bool.
Variable attr : bool.

Definition lookup (n : str) : option Info.entity := find (fun e => str_eqb (en_name e) n) ents.

(** a piece of an entity value is good at height [k] *)
Definition piece_goodb (good : Info.entity -> bool) (v : ent_value) : bool :=
  match v with
  | XvEntity m => match lookup m with Some e' => good e' | None => is_some (Info.predefined m) || ext end
  | _ => true
  end.

Fixpoint goodb (h : nat) (e : Info.entity) : bool :=
  match h with
  | O => false
  | Datatypes.S k =>
    negb (is_some (en_notation e)) && negb (attr && is_some (en_system e)) && forallb (piece_goodb (goodb k)) (values_of e)
  end.

Lemma goodb_mono h : forall e, goodb h e = true -> goodb (Datatypes.S h) e = true.
Proof.
  induction h as [|h IH]; intros e H; [discriminate|]. cbn [goodb] in *.
  apply andb_prop in H. destruct H as [H1 H3]. rewrite H1. cbn [andb]. rewrite forallb_forall in *. intros v Hv. specialize (H3 v Hv).
  destruct v as [num r|m|m|s]; cbn [piece_goodb] in *; try reflexivity. destruct (lookup m) as [e'|]; [apply IH; exact H3|exact H3].
Qed.

Lemma goodb_le h h' e : (h <= h')%nat -> goodb h e = true -> goodb h' e = true.
Proof. induction 1 as [|h' _ IH]; [auto|]. intros H. apply goodb_mono. apply IH. exact H. Qed.

Definition seen_inv (seen : list (str * bool)) : Prop :=
  forall k e, seen_get seen k = Some true -> lookup k = Some e -> exists h, goodb h e = true.

Lemma lookup_name n e : lookup n = Some e -> en_name e = n /\ In e ents.
Proof. unfold lookup. intros F. apply find_some in F. destruct F as [Hin Heq]. apply str_eqb_eq in Heq. auto. Qed.

Lemma seen_get_cons k b seen n : seen_get ((k, b) :: seen) n = if str_eqb k n then Some b else seen_get seen n.
Proof. reflexivity. Qed.

(** the pieces of a value list, checked from left to right *)
Lemma cv_sound (rec : list (str * bool) -> Info.entity -> bool -> ires (list (str * bool))) name :
  (forall seen e seen', lookup (en_name e) = Some e -> seen_inv seen -> rec seen e true = IOk seen' -> seen_inv seen' /\ exists h, goodb h e = true) ->
  (forall seen e seen', rec seen e false = IOk seen' -> seen' = seen) ->
  forall vs seen seen', seen_inv seen -> check_values rec ents ext attr name vs seen = IOk seen' ->
  seen_inv seen' /\ exists h, forallb (piece_goodb (goodb h)) vs = true.
Proof.
  intros Hrec Hpre. induction vs as [|v vs IH]; intros seen seen' Hinv H; cbn [check_values] in H.
  - injection H as <-. split; [exact Hinv|]. exists 0%nat. reflexivity.
  - apply ibind_ok in H. destruct H as [[fl s1] [Hv H]]. cbn [fst snd] in H.
    destruct (attr && fl); [discriminate H|].
    assert (seen_inv s1 /\ exists h, piece_goodb (goodb h) v = true) as [Hinv1 [h1 Hg1]].
    { destruct v as [num r|m|m|s]; cbn [check_value] in Hv.
      - apply ibind_ok in Hv. destruct Hv as [c [_ Hv]]. injection Hv as _ <-. split; [exact Hinv|]. exists 0%nat. reflexivity.
      - unfold lookup_entity2 in Hv. cbn [piece_goodb]. fold (lookup m) in Hv. destruct (lookup m) as [e'|] eqn:F.
        + apply ibind_ok in Hv. destruct Hv as [s' [Hr Hv]]. injection Hv as _ <-.
          destruct (lookup_name _ _ F) as [En _]. rewrite <- En in F. destruct (Hrec _ _ _ F Hinv Hr) as [Hi [h Hh]]. split; [exact Hi|]. exists h. exact Hh.
        + destruct (Info.predefined m) as [e'|] eqn:P.
          * apply ibind_ok in Hv. destruct Hv as [s' [Hr Hv]]. injection Hv as _ <-. rewrite (Hpre _ _ _ Hr). split; [exact Hinv|]. exists 0%nat. reflexivity.
          * destruct ext; [|discriminate Hv]. injection Hv as _ <-. split; [exact Hinv|]. exists 0%nat. reflexivity.
      - injection Hv as _ <-. split; [exact Hinv|]. exists 0%nat. reflexivity.
      - injection Hv as _ <-. split; [exact Hinv|]. exists 0%nat. reflexivity. }
    destruct (IH _ _ Hinv1 H) as [Hinv2 [h2 Hg2]]. split; [exact Hinv2|]. exists (Nat.max h1 h2). cbn [forallb].
    apply andb_true_intro. split.
    + destruct v as [num r|m|m|s]; cbn [piece_goodb] in *; try reflexivity. destruct (lookup m) as [e'|]; [|exact Hg1].
      eapply goodb_le; [|exact Hg1]. apply Nat.le_max_l.
    + rewrite forallb_forall in *. intros v0 Hv0. specialize (Hg2 v0 Hv0).
      destruct v0 as [num r|m|m|s]; cbn [piece_goodb] in *; try reflexivity. destruct (lookup m) as [e'|]; [|exact Hg2].
      eapply goodb_le; [|exact Hg2]. apply Nat.le_max_r.
Qed.

Lemma cer_undeclared fuel seen e seen' : check_entity_ref fuel ents ext attr seen e false = IOk seen' -> seen' = seen.
Proof. destruct fuel as [|f]; [discriminate|]. cbn [check_entity_ref negb]. intros H. injection H as <-. reflexivity. Qed.

Theorem cer_sound : forall fuel seen e seen', lookup (en_name e) = Some e -> seen_inv seen ->
  check_entity_ref fuel ents ext attr seen e true = IOk seen' -> seen_inv seen' /\ exists h, goodb h e = true.
Proof.
  induction fuel as [|f IH]; intros seen e seen' Hl Hinv H; [discriminate|]. cbn [check_entity_ref negb] in H.
  destruct (is_some (en_notation e)) eqn:En; [discriminate H|].
  destruct (attr && is_some (en_system e)) eqn:Es; [discriminate H|].
  destruct (seen_get seen (en_name e)) as [[|]|] eqn:Eg.
  - injection H as <-. split; [exact Hinv|]. eapply Hinv; eassumption.
  - discriminate H.
  - apply ibind_ok in H. destruct H as [u [_ H]]. apply ibind_ok in H. destruct H as [seen2 [Hcv H]]. injection H as <-.
    assert (seen_inv ((en_name e, false) :: seen)) as Hinv1.
    { intros k e0 Hk. rewrite seen_get_cons in Hk. destruct (str_eqb (en_name e) k); [discriminate|]. apply Hinv. exact Hk. }
    destruct (cv_sound (check_entity_ref f ents ext attr) (en_name e) (fun s0 e0 s' => IH s0 e0 s') (cer_undeclared f) _ _ _ Hinv1 Hcv) as [Hinv2 [h Hh]].
    assert (goodb (Datatypes.S h) e = true) as Hg.
    { cbn [goodb]. rewrite En, Es. cbn [negb andb]. exact Hh. }
    split; [|exists (Datatypes.S h); exact Hg].
    intros k e0 Hk Hlk. rewrite seen_get_cons in Hk. destruct (str_eqb (en_name e) k) eqn:Ek.
    + apply str_eqb_eq in Ek. subst k. rewrite Hl in Hlk. injection Hlk as <-. exists (Datatypes.S h). exact Hg.
    + eapply Hinv2; eassumption.
Qed.
End Good.

(** ** (B) the specification expands / re-reads a good entity without error *)
Lemma predef_none m : Info.predefined m = None -> W.assoc m (W.with_predefined []) = None.
Proof.
  intros H. destruct (W.assoc m (W.with_predefined [])) as [x|] eqn:E; [|reflexivity]. exfalso.
  assert (is_predef m) as Hp.
  { unfold is_predef. cbn [W.with_predefined app map W.predefined W.assoc] in E.
    destruct (W.str_eqb m W.s_lt) eqn:E1; [apply Wstr_eqb_eq in E1; left; exact E1|].
    destruct (W.str_eqb m W.s_gt) eqn:E2; [apply Wstr_eqb_eq in E2; right; left; exact E2|].
    destruct (W.str_eqb m W.s_amp) eqn:E3; [apply Wstr_eqb_eq in E3; right; right; left; exact E3|].
    destruct (W.str_eqb m W.s_apos) eqn:E4; [apply Wstr_eqb_eq in E4; right; right; right; left; exact E4|].
    destruct (W.str_eqb m W.s_quot) eqn:E5; [apply Wstr_eqb_eq in E5; right; right; right; right; exact E5|].
    discriminate E. }
  destruct Hp as [->|[->|[->|[->| ->]]]]; discriminate H.
Qed.

Lemma mapM_each {A B} (g : A -> W.reason + B) (P : B -> Prop) (l : list A) :
  (forall x, In x l -> exists y, g x = inr y /\ P y) -> exists ys, W.mapM g l = inr ys /\ Forall P ys.
Proof.
  induction l as [|x l IH]; intros H.
  - exists []. split; [reflexivity|constructor].
  - destruct (H x (or_introl eq_refl)) as [y [Ey Py]]. destruct IH as [ys [Eys Pys]]; [intros x0 Hx0; apply H; right; exact Hx0|].
    exists (y :: ys). split; [cbn [W.mapM]; rewrite Ey, Eys; reflexivity|constructor; assumption].
Qed.

Lemma allc_forall {A} (g : A -> W.chk) (l : list A) : Forall (fun x => g x = None) l -> W.allc g l = None.
Proof. induction 1 as [|x l Hx _ IH]; [reflexivity|]. apply allc_cons; assumption. Qed.

Lemma in_toks_entity m vs : In (inr m) (toks vs) -> In (XvEntity m) vs.
Proof.
  unfold toks. intros H. apply in_flat_map in H. destruct H as [v [Hv Hin]].
  destruct v as [num r|n|n|s]; cbn [toks_of In] in Hin.
  - destruct Hin as [E|[]]; discriminate E.
  - destruct Hin as [E|[]]. injection E as ->. exact Hv.
  - destruct Hin.
  - apply in_map_iff in Hin. destruct Hin as [c [E _]]. discriminate E.
Qed.

Section Spec.
Variable ents : list Info.entity.
Variable ext : bool.
Variable en : W.env.
Hypothesis Hrel : env_rel en ents ext.
Hypothesis Hsimple : forallb simple_ent ents = true.
Hypothesis Hsys : forall e0, In e0 ents -> en_values e0 = None -> en_system e0 <> None.

Notation names := (map en_name ents).
Notation look := (lookup ents).

Lemma assoc_declared nm e : look nm = Some e -> W.assoc nm (W.e_ents en) = Some (x_entity e).
Proof. intros F. destruct Hrel as [Hl _]. rewrite Hl. unfold lookup_spec. unfold lookup in F. rewrite F. reflexivity. Qed.

Lemma assoc_undeclared nm : look nm = None -> W.assoc nm (W.e_ents en) = W.assoc nm (W.with_predefined []).
Proof. intros F. destruct Hrel as [Hl _]. rewrite Hl. unfold lookup_spec. unfold lookup in F. rewrite F. reflexivity. Qed.

Lemma name_declared v : In v names -> look v <> None.
Proof.
  intros Hin. apply in_map_iff in Hin. destruct Hin as [e [<- He]]. unfold lookup. intros F.
  apply (find_none _ _ F) in He. rewrite str_eqb_refl in He. discriminate.
Qed.

Lemma undeclared_not_visited m V : look m = None -> incl V names -> W.mem m V = false.
Proof. intros F Hincl. apply mem_false. intros x Hx ->. apply (name_declared m (Hincl m Hx)). exact F. Qed.

Lemma visited_bound V : NoDup V -> incl V names -> (length V <= length names)%nat.
Proof. intros H1 H2. apply NoDup_incl_length; assumption. Qed.

(** an undeclared name inside a good entity: predefined, or tolerated because of an external subset *)
Lemma expand_undeclared m V f : look m = None -> is_some (Info.predefined m) || ext = true -> incl V names ->
  exists x', W.expand (Datatypes.S f) en V (W.XEntRef m) = inr x' /\ forall f', W.tree_ok f' en x' = None.
Proof.
  intros F Hp Hincl. pose proof (undeclared_not_visited m V F Hincl) as Hmem.
  destruct (Info.predefined m) as [e1|] eqn:P.
  - destruct (predef_lookup m (predefined_cases m e1 P)) as [text [items [ps [E1 [E2 [E3 _]]]]]].
    exists (W.XExp m items). split.
    + cbn [W.expand]. rewrite Hmem, (assoc_undeclared m F), E1, E2. rewrite mapM_id; [reflexivity|].
      intros x Hx. apply leaf_expand. rewrite forallb_forall in E3. apply E3. exact Hx.
    + intros f'. cbn [W.tree_ok]. apply leafs_tree_ok. exact E3.
  - cbn [is_some orb] in Hp. exists (W.XEntRef m). split; [|reflexivity].
    cbn [W.expand]. rewrite Hmem, (assoc_undeclared m F), (predef_none m P). destruct Hrel as [_ Hm]. rewrite Hm, Hp. reflexivity.
Qed.

Theorem expand_good : forall h nm e V fuel, look nm = Some e -> goodb ents ext false h e = true ->
  (forall v ev, In v V -> look v = Some ev -> goodb ents ext false h ev = false) ->
  NoDup V -> incl V names -> (length names < fuel + length V)%nat ->
  exists x', W.expand fuel en V (W.XEntRef nm) = inr x' /\ forall f', W.tree_ok f' en x' = None.
Proof.
  induction h as [|k IH]; intros nm e V fuel Hl Hg Hinv Hnd Hincl Hfu; [discriminate Hg|].
  destruct (goodb ents ext false k e) eqn:Egk.
  - apply (IH nm e V fuel Hl Egk); try assumption.
    intros v ev Hv Hlv. specialize (Hinv v ev Hv Hlv). destruct (goodb ents ext false k ev) eqn:E; [|reflexivity].
    apply goodb_mono in E. congruence.
  - destruct (lookup_name _ _ _ Hl) as [En Hin].
    assert (~ In nm V) as Hnotin by (intros Hv; specialize (Hinv nm e Hv Hl); congruence).
    assert (W.mem nm V = false) as Hmem by (apply mem_false; intros x Hx ->; exact (Hnotin Hx)).
    pose proof (visited_bound V Hnd Hincl) as Hb. destruct fuel as [|f]; [lia|].
    cbn [goodb] in Hg. apply andb_prop in Hg. destruct Hg as [Hg Hpieces]. apply andb_prop in Hg. destruct Hg as [Hnot _].
    apply negb_true_iff in Hnot. pose proof (assoc_declared nm e Hl) as Ha. unfold x_entity in Ha.
    destruct (en_values e) as [vs|] eqn:Ev.
    + (* internal *)
      assert (simple_ent e = true) as Hs by (rewrite forallb_forall in Hsimple; apply Hsimple; exact Hin).
      unfold simple_ent in Hs. rewrite Ev in Hs. apply andb_prop in Hs. destruct Hs as [Hsp Hcd].
      destruct (find_sub [93;93;62] (x_repl vs)) eqn:Ecd; [discriminate Hcd|].
      pose proof (toks_text vs Hsp) as Et. pose proof (toks_ok vs Hsp) as Hto.
      assert (W.p_content (Datatypes.S (length (x_repl vs))) (x_repl vs) = Some (map tok_item (toks vs), [])) as Hpc.
      { rewrite <- Et. apply content_toks; [exact Hto|rewrite Et; exact Ecd|lia]. }
      unfold values_of in Hpieces. rewrite Ev in Hpieces.
      destruct (mapM_each (W.expand f en (nm :: V)) (fun y => forall f', W.tree_ok f' en y = None) (map tok_item (toks vs))) as [ys [Eys Pys]].
      { intros x Hx. apply in_map_iff in Hx. destruct Hx as [t [<- Ht]]. destruct t as [c|m]; cbn [tok_item].
        - exists (W.XChar c). split; [destruct f; reflexivity|reflexivity].
        - apply in_toks_entity in Ht. rewrite forallb_forall in Hpieces. specialize (Hpieces _ Ht). cbn [piece_goodb] in Hpieces. fold (look m) in Hpieces.
          assert (incl (nm :: V) names) as Hincl' by (intros x [<-|Hx]; [rewrite <- En; apply in_map; exact Hin|apply Hincl; exact Hx]).
          assert (NoDup (nm :: V)) as Hnd' by (constructor; assumption).
          destruct (look m) as [e'|] eqn:Fm.
          + apply (IH m e' (nm :: V) f Fm Hpieces); try assumption.
            * intros v ev [<-|Hv] Hlv; [rewrite Hl in Hlv; injection Hlv as <-; exact Egk|].
              specialize (Hinv v ev Hv Hlv). destruct (goodb ents ext false k ev) eqn:E; [|reflexivity]. apply goodb_mono in E. congruence.
            * cbn [length] in *. lia.
          + pose proof (visited_bound (nm :: V) Hnd' Hincl') as Hb'. cbn [length] in *. destruct f as [|f0]; [lia|].
            apply expand_undeclared; assumption. }
      exists (W.XExp nm ys). split.
      * cbn [W.expand]. rewrite Hmem, Ha, Hpc, Eys. reflexivity.
      * intros f'. cbn [W.tree_ok]. apply allc_forall. revert Pys. apply Forall_impl. intros y Hy. apply Hy.
    + (* external *)
      destruct (en_notation e); [discriminate Hnot|]. exists (W.XEntRef nm). split; [|reflexivity]. cbn [W.expand]. rewrite Hmem, Ha. reflexivity.
Qed.

(** attribute values *)
Lemma av_ok_each f V (ps : list W.avpiece) : (forall p, In p ps -> W.av_ok (Datatypes.S f) en V [p] = None) -> W.av_ok (Datatypes.S f) en V ps = None.
Proof.
  intros H. cbn [W.av_ok]. apply allc_forall. apply Forall_forall. intros p Hp. specialize (H p Hp).
  cbn [W.av_ok W.allc fold_right] in H. unfold W.andc in H.
  match type of H with match ?x with _ => _ end = _ => destruct x; [discriminate H|reflexivity] end.
Qed.

Lemma av_undeclared m V f : look m = None -> is_some (Info.predefined m) || ext = true -> incl V names ->
  W.av_ok (Datatypes.S (Datatypes.S f)) en V [W.AvEnt m] = None.
Proof.
  intros F Hp Hincl. pose proof (undeclared_not_visited m V F Hincl) as Hmem.
  cbn [W.av_ok W.allc fold_right]. rewrite Hmem, (assoc_undeclared m F).
  destruct (Info.predefined m) as [e1|] eqn:P.
  - destruct (predef_lookup m (predefined_cases m e1 P)) as [text [items [ps [E1 [_ [_ [E4 E5]]]]]]].
    rewrite E1, E4. change (W.andc (W.av_ok (Datatypes.S f) en (m :: V) ps) W.ok = None). rewrite (avleafs_ok f en (m :: V) ps E5). reflexivity.
  - cbn [is_some orb] in Hp. rewrite (predef_none m P). destruct Hrel as [_ Hm]. rewrite Hm, Hp. reflexivity.
Qed.

Theorem av_good : forall h nm e V fuel, look nm = Some e -> goodb ents ext true h e = true ->
  (forall v ev, In v V -> look v = Some ev -> goodb ents ext true h ev = false) ->
  NoDup V -> incl V names -> (Datatypes.S (length names) < fuel + length V)%nat ->
  W.av_ok fuel en V [W.AvEnt nm] = None.
Proof.
  induction h as [|k IH]; intros nm e V fuel Hl Hg Hinv Hnd Hincl Hfu; [discriminate Hg|].
  destruct (goodb ents ext true k e) eqn:Egk.
  - apply (IH nm e V fuel Hl Egk); try assumption.
    intros v ev Hv Hlv. specialize (Hinv v ev Hv Hlv). destruct (goodb ents ext true k ev) eqn:E; [|reflexivity].
    apply goodb_mono in E. congruence.
  - destruct (lookup_name _ _ _ Hl) as [En Hin].
    assert (~ In nm V) as Hnotin by (intros Hv; specialize (Hinv nm e Hv Hl); congruence).
    assert (W.mem nm V = false) as Hmem by (apply mem_false; intros x Hx ->; exact (Hnotin Hx)).
    pose proof (visited_bound V Hnd Hincl) as Hb. destruct fuel as [|[|f]]; [lia|lia|].
    cbn [goodb] in Hg. apply andb_prop in Hg. destruct Hg as [Hg Hpieces]. apply andb_prop in Hg. destruct Hg as [Hnot Hsysn].
    apply negb_true_iff in Hnot. cbn [andb] in Hsysn. apply negb_true_iff in Hsysn. pose proof (assoc_declared nm e Hl) as Ha. unfold x_entity in Ha.
    destruct (en_values e) as [vs|] eqn:Ev.
    + assert (simple_ent e = true) as Hs by (rewrite forallb_forall in Hsimple; apply Hsimple; exact Hin).
      unfold simple_ent in Hs. rewrite Ev in Hs. apply andb_prop in Hs. destruct Hs as [Hsp _].
      pose proof (toks_text vs Hsp) as Et. pose proof (toks_ok vs Hsp) as Hto.
      assert (W.p_pieces (Datatypes.S (length (x_repl vs))) None W.c_lt (x_repl vs) = Some (map tok_piece (toks vs), [])) as Hpc.
      { rewrite <- Et. apply pieces_toks; [exact Hto|lia]. }
      unfold values_of in Hpieces. rewrite Ev in Hpieces.
      cbn [W.av_ok W.allc fold_right]. rewrite Hmem, Ha, Hpc.
      change (W.andc (W.av_ok (Datatypes.S f) en (nm :: V) (map tok_piece (toks vs))) W.ok = None).
      rewrite av_ok_each; [reflexivity|].
      intros p Hp. apply in_map_iff in Hp. destruct Hp as [t [<- Ht]]. destruct t as [c|m]; cbn [tok_piece]; [reflexivity|].
      apply in_toks_entity in Ht. rewrite forallb_forall in Hpieces. specialize (Hpieces _ Ht). cbn [piece_goodb] in Hpieces. fold (look m) in Hpieces.
      assert (incl (nm :: V) names) as Hincl' by (intros x [<-|Hx]; [rewrite <- En; apply in_map; exact Hin|apply Hincl; exact Hx]).
      assert (NoDup (nm :: V)) as Hnd' by (constructor; assumption).
      destruct (look m) as [e'|] eqn:Fm.
      * apply (IH m e' (nm :: V) (Datatypes.S f) Fm Hpieces); try assumption.
        -- intros v ev [<-|Hv] Hlv; [rewrite Hl in Hlv; injection Hlv as <-; exact Egk|].
           specialize (Hinv v ev Hv Hlv). destruct (goodb ents ext true k ev) eqn:E; [|reflexivity]. apply goodb_mono in E. congruence.
        -- cbn [length] in *. lia.
      * pose proof (visited_bound (nm :: V) Hnd' Hincl') as Hb'. cbn [length] in *. destruct f as [|f0]; [lia|].
        apply av_undeclared; assumption.
    + exfalso. apply (Hsys e Hin Ev). destruct (en_system e); [discriminate Hsysn|reflexivity].
Qed.

(** ** a reference the model resolved, seen by the specification (simple entities) *)
Lemma resolve_good attr nm e : resolve_ref ents ext attr nm = IOk e ->
  (look nm = None /\ is_predef nm) \/ (look nm = Some e /\ exists h, goodb ents ext attr h e = true).
Proof.
  unfold resolve_ref. intros H. apply ibind_ok in H. destruct H as [[e0 d] [H1 H2]]. apply ibind_ok in H2. destruct H2 as [sn [H2 H3]].
  cbn [fst snd] in *. injection H3 as <-. unfold lookup_entity2 in H1. fold (look nm) in H1.
  destruct (look nm) as [e1|] eqn:F.
  - injection H1 as <- <-. right. split; [reflexivity|].
    destruct (lookup_name _ _ _ F) as [En _]. rewrite <- En in F.
    destruct (cer_sound ents ext attr (check_fuel ents) [] e1 sn F) as [_ Hg]; [intros k e0 Hk; discriminate Hk|exact H2|exact Hg].
  - left. split; [reflexivity|]. destruct (Info.predefined nm) as [e1|] eqn:P; [|discriminate]. eapply predefined_cases. exact P.
Qed.

Lemma ref_attr_ok_s f nm e : (length ents <= f)%nat -> resolve_ref ents ext true nm = IOk e ->
  W.av_ok (Datatypes.S (Datatypes.S f)) en [] [W.AvEnt nm] = None.
Proof.
  intros Hf H. destruct (resolve_good _ _ _ H) as [[F Hp]|[F [h Hg]]].
  - destruct (predef_lookup nm Hp) as [text [items [ps [E1 [_ [_ [E4 E5]]]]]]]. eapply av_ref_internal; [rewrite (assoc_undeclared nm F); exact E1|exact E4|exact E5].
  - apply (av_good h nm e [] _ F Hg); [intros v ev []|constructor|intros x []|]. rewrite map_length. cbn [length]. lia.
Qed.

Lemma ref_content_ok_s f nm e : (length ents <= f)%nat -> resolve_ref ents ext false nm = IOk e ->
  exists x', W.expand (Datatypes.S (Datatypes.S f)) en [] (W.XEntRef nm) = inr x' /\ forall f', W.tree_ok f' en x' = None.
Proof.
  intros Hf H. destruct (resolve_good _ _ _ H) as [[F Hp]|[F [h Hg]]].
  - destruct (predef_lookup nm Hp) as [text [items [ps [E1 [E2 [E3 _]]]]]].
    destruct (expand_ref_internal (Datatypes.S f) en nm text items) as [Ex Ot]; [rewrite (assoc_undeclared nm F); exact E1|exact E2|exact E3|]. eauto.
  - apply (expand_good h nm e [] _ F Hg); [intros v ev []|constructor|intros x []|]. rewrite map_length. cbn [length]. lia.
Qed.
End Spec.
