(** * Examples for the C14 bridge

    1. [xdoc_of_store] reproduces tables that were generated from the REAL code: the stores below
       are the documents of Proofs/XPathExamples.v (tools/xpath/dump2coq.py prints those tables from
       the harness dump of the real dom) written as item tables with the ids the parser hands out;
       the view of each equals the dumped table, row by row, field by field (kinds, ids, keys,
       parents, children, attributes, namespace nodes, names, data).
    2. A store after a non-trivial history (a moved subtree, a created and inserted element: ids
       are no longer in document order) and the store of a fresh parse of its serialisation: the
       hypotheses of the bridge theorems hold, the two tables are equal up to ids and keys. *)
From Coq Require Import List NArith Bool.
From XmlRs Require Import Base.CPred.
From XmlRs Require Import Model.XPathAst Model.XDoc Model.XDocCheck Model.XPathEval Spec.XPath10.
From XmlRs Require Import Proofs.XPathNav Proofs.XPathCanon Proofs.XPathRefine Proofs.XPathRefinePaths
  Proofs.XPathTreeOnly Proofs.XPathExamples.
From XmlRs Require Import Model.Store Model.StoreCheck Model.StoreView Model.DomOps
  Proofs.DomTree Proofs.DomOpsInv Proofs.DomOrder Proofs.DomOrderInv Proofs.DomCheck Proofs.DomExample Proofs.DomC14
  Proofs.StoreXDoc Proofs.StoreXDocShape Proofs.StoreXDocReach.
Import ListNotations.
Open Scope N_scope.

(** attribute values without references: the value of an attribute is the concatenation of its
    text items (no normalisation needed in these examples) *)
Definition facts_of (s : store) : sfacts :=
  mkFacts (fun a => flat_map (fun c => match get s c with Some it => idata it | None => [] end) (children_of s a))
          (fun _ => []).

Definition mk (k : Store.kind) (pfx : option str) (loc data : str) (par : option id) (ch at_ : list id) : item :=
  mkItem k pfx loc data false par ch at_ [].

(** ** 1. tables generated from the real code *)

(** <r xmlns:p="urn:p" a="1"><b p:x="2">t<p:e/></b><c><f/></c><d/></r> *)
Definition path_items : list (id * item) :=
  [ (1, mk KDoc None [] [] None [2] []);
    (2, mk KEl None [114] [] (Some 1) [7;12;14] [3;5]);
    (3, mk KAt (Some Store.s_xmlns) [112] [] (Some 2) [4] []);
    (4, mk KTx None [] [117;114;110;58;112] (Some 3) [] []);
    (5, mk KAt None [97] [] (Some 2) [6] []);
    (6, mk KTx None [] [49] (Some 5) [] []);
    (7, mk KEl None [98] [] (Some 2) [10;11] [8]);
    (8, mk KAt (Some [112]) [120] [] (Some 7) [9] []);
    (9, mk KTx None [] [50] (Some 8) [] []);
    (10, mk KTx None [] [116] (Some 7) [] []);
    (11, mk KEl (Some [112]) [101] [] (Some 7) [] []);
    (12, mk KEl None [99] [] (Some 2) [13] []);
    (13, mk KEl None [102] [] (Some 12) [] []);
    (14, mk KEl None [100] [] (Some 2) [] []) ].
Definition path_store : store := store_of_list path_items 15 [] 1.

Example view_is_real_dump_path : xdoc_of_store (facts_of path_store) true path_store = path_doc.
Proof. vm_compute. reflexivity. Qed.

(** <r><a/><?p x?><?q y?></r> *)
Definition pi_items : list (id * item) :=
  [ (1, mk KDoc None [] [] None [2] []);
    (2, mk KEl None [114] [] (Some 1) [3;4;5] []);
    (3, mk KEl None [97] [] (Some 2) [] []);
    (4, mkItem KPi None [112] [120] true (Some 2) [] [] []);
    (5, mkItem KPi None [113] [121] true (Some 2) [] [] []) ].
Definition pi_store : store := store_of_list pi_items 6 [] 1.

Example view_is_real_dump_pi : xdoc_of_store (facts_of pi_store) true pi_store = pi_doc.
Proof. vm_compute. reflexivity. Qed.

(** <r xmlns:p="u"><b/></r> *)
Definition ns_items : list (id * item) :=
  [ (1, mk KDoc None [] [] None [2] []);
    (2, mk KEl None [114] [] (Some 1) [5] [3]);
    (3, mk KAt (Some Store.s_xmlns) [112] [] (Some 2) [4] []);
    (4, mk KTx None [] [117] (Some 3) [] []);
    (5, mk KEl None [98] [] (Some 2) [] []) ].
Definition ns_store : store := store_of_list ns_items 6 [] 1.

Example view_is_real_dump_ns : xdoc_of_store (facts_of ns_store) true ns_store = ns_doc.
Proof. vm_compute. reflexivity. Qed.

(** <r a="1"><b>t<e/></b><c><f/></c><d/></r> *)
Definition ex_items' : list (id * item) :=
  [ (1, mk KDoc None [] [] None [2] []);
    (2, mk KEl None [114] [] (Some 1) [5;8;10] [3]);
    (3, mk KAt None [97] [] (Some 2) [4] []);
    (4, mk KTx None [] [49] (Some 3) [] []);
    (5, mk KEl None [98] [] (Some 2) [6;7] []);
    (6, mk KTx None [] [116] (Some 5) [] []);
    (7, mk KEl None [101] [] (Some 5) [] []);
    (8, mk KEl None [99] [] (Some 2) [9] []);
    (9, mk KEl None [102] [] (Some 8) [] []);
    (10, mk KEl None [100] [] (Some 2) [] []) ].
Definition ex_store' : store := store_of_list ex_items' 11 [] 1.

Example view_is_real_dump_ex : xdoc_of_store (facts_of ex_store') true ex_store' = ex_doc.
Proof. vm_compute. reflexivity. Qed.

(** ** 2. an edited document and the fresh parse of its serialisation *)

(** [ex_world] (Proofs/DomExample.v) holds <r><a x="1">t</a><b/></r> with ids 1 document, 2 r, 3 a,
    4 attribute x, 5 its value, 6 text t, 7 b. *)
Definition br_ops : list op :=
  [ AppendChild (0, 3) (0, 2);            (* a.append_child(r): refused *)
    AppendChild (0, 7) (0, 3);            (* b.append_child(a): moves the subtree of a *)
    CreateElement (0, 1) no_name;         (* e = create_element("e"), id 8 *)
    InsertBefore (0, 2) (0, 8) (0, 7) ].  (* r.insert_before(e, b) *)

Definition br_world : world := run ex_world br_ops.
Definition br_store : store := match doc_at br_world 0 with Some s => s | None => ex_store end.

(** the edited document is <r><e /><b><a x="1">t</a></b></r> *)
Example br_serialisation :
  show_doc br_store =
  [60;114;62; 60;101;32;47;62; 60;98;62; 60;97;32;120;61;34;49;34;62;116;60;47;97;62; 60;47;98;62; 60;47;114;62].
Proof. vm_compute. reflexivity. Qed.

(** ids along the walk are 1 2 8 7 3 4 5 6: not increasing; the keys are *)
Example br_walk_and_keys :
  (preorder br_store, map (Store.key br_store) (preorder br_store)) = ([1;2;8;7;3;4;5;6], [1;2;3;4;5;6;7;8]).
Proof. vm_compute. reflexivity. Qed.

(** the store a fresh parse of that text builds: ids in document order *)
Definition rp_items : list (id * item) :=
  [ (1, it KDoc [] [] None [2] []);
    (2, it KEl [114] [] (Some 1) [3; 4] []);
    (3, it KEl [101] [] (Some 2) [] []);
    (4, it KEl [98] [] (Some 2) [5] []);
    (5, it KEl [97] [] (Some 4) [8] [6]);
    (6, it KAt [120] [] (Some 5) [7] []);
    (7, it KTx [] [49] (Some 6) [] []);
    (8, it KTx [] [116] (Some 5) [] []) ].
Definition rp_store : store := store_of_list rp_items 9 [] 1.

Example rp_same_text : show_doc rp_store = show_doc br_store.
Proof. vm_compute. reflexivity. Qed.

Definition br_view : xdoc := xdoc_of_store (facts_of br_store) true br_store.
Definition rp_view : xdoc := xdoc_of_store (facts_of rp_store) true rp_store.

(** ids and keys of the rows of the two tables: r e b a @x t (and one xml namespace row per element) *)
Example br_view_ids_keys :
  (map n_id br_view, map n_key br_view) =
  ([1;2;0;8;0;7;0;3;0;4;6], [1;2;0;3;0;4;0;5;0;6;8]).
Proof. vm_compute. reflexivity. Qed.

Example rp_view_ids_keys :
  (map n_id rp_view, map n_key rp_view) =
  ([1;2;0;3;0;4;0;5;0;6;8], [1;2;0;3;0;4;0;5;0;6;8]).
Proof. vm_compute. reflexivity. Qed.

(** //a/@x , /r/b/a/text() and //text()/ancestor::* as complete expressions *)
Definition nm (l : str) : node_test := TestName (NameQName (QUnprefixed l)).
Definition p_attr : path_expr :=
  PAbs LpDescendantOrSelfNode
    (ERelPath (StepTest (AxisAbbreviated []) (nm [97]) ExprNil)
              (StepopCons LpCurrent (StepTest (AxisAbbreviated [64]) (nm [120]) ExprNil) StepopNil)).
Definition p_text : path_expr :=
  PAbs LpCurrent
    (ERelPath (StepTest (AxisAbbreviated []) (nm [114]) ExprNil)
       (StepopCons LpCurrent (StepTest (AxisAbbreviated []) (nm [98]) ExprNil)
          (StepopCons LpCurrent (StepTest (AxisAbbreviated []) (nm [97]) ExprNil)
             (StepopCons LpCurrent (StepTest (AxisAbbreviated []) (TestType NtText) ExprNil) StepopNil)))).
Definition p_anc : path_expr :=
  PAbs LpDescendantOrSelfNode
    (ERelPath (StepTest (AxisAbbreviated []) (TestType NtText) ExprNil)
              (StepopCons LpCurrent (StepTest (AxisName AxAncestor) (TestName NameAll) ExprNil) StepopNil)).

Example br_paths_simple : simple_path [] p_attr /\ simple_path [] p_text /\ simple_path [] p_anc.
Proof. cbn. tauto. Qed.

Example br_query_values :
  fst (query br_view (path_query p_attr) ctx_default) = XDoc.Ok (XNodes [9]) /\
  fst (query br_view (path_query p_text) ctx_default) = XDoc.Ok (XNodes [10]) /\
  fst (query br_view (path_query p_anc) ctx_default) = XDoc.Ok (XNodes [1; 5; 7]) /\
  fst (query rp_view (path_query p_attr) ctx_default) = XDoc.Ok (XNodes [9]) /\
  fst (query rp_view (path_query p_text) ctx_default) = XDoc.Ok (XNodes [10]) /\
  fst (query rp_view (path_query p_anc) ctx_default) = XDoc.Ok (XNodes [1; 5; 7]).
Proof. vm_compute. repeat split; reflexivity. Qed.

(** the hypotheses of the bridge theorems hold for the edited document and for the fresh parse *)
Example br_hypotheses :
  WGood ex_world /\ doc_at (run ex_world br_ops) 0 = Some br_store /\
  doc_element br_store <> None /\ doc_decl br_store = None /\
  TreeInv rp_store /\ OrderInv rp_store /\ doc_element rp_store <> None /\ doc_decl rp_store = None /\
  same_tree br_view rp_view.
Proof.
  split; [exact ex_good|]. split; [vm_compute; reflexivity|].
  split; [vm_compute; discriminate|]. split; [vm_compute; reflexivity|].
  assert (T : TreeInv rp_store) by (apply tree_inv_b_sound; vm_compute; reflexivity).
  split; [exact T|]. split; [apply order_inv; [exact T | apply store_of_list_order_ok]|].
  split; [vm_compute; discriminate|]. split; [vm_compute; reflexivity | vm_compute; reflexivity].
Qed.

(** so the tables of both satisfy the evaluator's invariants ... *)
Example br_invariants :
  DocInv br_view /\ SpecShape br_view /\ ParentsOk br_view /\ NamesOk br_view /\
  DocInv rp_view /\ SpecShape rp_view /\ ParentsOk rp_view.
Proof.
  destruct br_hypotheses as [Hg [Hd [He [Hdt [T [O [He2 [Hdt2 _]]]]]]]].
  destruct (bridge_reachable (facts_of br_store) true ex_world br_ops 0 br_store Hg Hd He) as [I [S [Nm P]]].
  split; [exact I|]. split; [exact S|]. split; [exact (P Hdt)|]. split; [exact Nm|].
  split; [apply bridge_docinv; assumption|]. split; [apply bridge_shape; assumption | apply bridge_parents; assumption].
Qed.

(** ... and every query of the fragment selects the same rows in the same order on both *)
Example br_same_rows (p : path_expr) : simple_path [] p ->
  exists l, query br_view (path_query p) ctx_default = (XDoc.Ok (XNodes l), ctx_default) /\
            query rp_view (path_query p) ctx_default = (XDoc.Ok (XNodes l), ctx_default) /\
            spec_query br_view [] 0 0 (path_query p) = Some (SNodes (map Row l)).
Proof.
  intros Hp. destruct br_hypotheses as [Hg [Hd [He [Hdt [T [O [He2 [Hdt2 Hs]]]]]]]].
  exact (query_depends_on_tree_only (facts_of br_store) (facts_of rp_store) true ex_world br_ops 0 br_store rp_store
           Hg Hd T O He Hdt He2 Hdt2 Hs [] eq_refl p ctx_default ctx_default eq_refl eq_refl Hp).
Qed.

(** ** 3. where the hypotheses fail (reachable states; both are known findings of C15 / C14) *)

(** the document element removed (finding C15-NOROOT): no table of that document satisfies [DocInv] *)
Definition nr_ops : list op := [ RemoveChild (0, 1) (0, 2) ].
Definition nr_store : store := match doc_at (run ex_world nr_ops) 0 with Some s => s | None => ex_store end.

Example nr_no_docinv : doc_element nr_store = None /\ ~ DocInv (xdoc_of_store (facts_of nr_store) true nr_store).
Proof.
  split; [vm_compute; reflexivity|]. intros H.
  assert (T : TreeInv nr_store).
  { assert (Hw : WInv (run ex_world nr_ops)).
    { apply run_inv. constructor; [|constructor]. apply tree_inv_b_sound. vm_compute. reflexivity. }
    apply (doc_at_P TreeInv _ 0 nr_store Hw). vm_compute. reflexivity. }
  apply (bridge_needs_document_element _ _ _ T H). vm_compute. reflexivity.
Qed.

(** a text node without characters (finding DD3): b.append_child(create_text_node("")); the
    serialisation is <r><a x="1">t</a><b></b></r>, its fresh parse has no such node, so the two
    tables do not show the same tree and //b/node() differs *)
Definition et_ops : list op :=
  [ CreateTextNode (0, 1) (mkData [] true true true None None);   (* id 8 *)
    AppendChild (0, 7) (0, 8) ].
Definition et_store : store := match doc_at (run ex_world et_ops) 0 with Some s => s | None => ex_store end.
Definition et_view : xdoc := xdoc_of_store (facts_of et_store) true et_store.
Definition et_reparsed_view : xdoc := xdoc_of_store (facts_of ex_store) true ex_store.
Definition p_bnode : path_expr :=
  PAbs LpDescendantOrSelfNode
    (ERelPath (StepTest (AxisAbbreviated []) (nm [98]) ExprNil)
              (StepopCons LpCurrent (StepTest (AxisAbbreviated []) (TestType NtNode) ExprNil) StepopNil)).

Example et_not_same_tree :
  show_doc et_store = [60;114;62; 60;97;32;120;61;34;49;34;62;116;60;47;97;62; 60;98;62;60;47;98;62; 60;47;114;62] /\
  ~ same_tree et_view et_reparsed_view /\
  fst (query et_view (path_query p_bnode) ctx_default) = XDoc.Ok (XNodes [9]) /\
  fst (query et_reparsed_view (path_query p_bnode) ctx_default) = XDoc.Ok (XNodes []).
Proof.
  split; [vm_compute; reflexivity|]. split; [|split; vm_compute; reflexivity].
  intros H. apply same_tree_length in H. vm_compute in H. discriminate.
Qed.
