(** * C02 -- ill-formed input is never reported as a completely parsed document.

    Full statement (DESIGN 5.2), over the model of the implementation:
      [accepted_is_wellformed : forall s d, from_raw_model s = Ok ([], d) -> wf s = true].
    What is proved here is listed per theorem; the part that needs the model of
    parse -> infoset (Model/ParseActions.v, Model/Info.v, another area) is stated in
    notes/wf_STATUS.md. *)
From Coq Require Import List NArith Bool.
From XmlRs Require Import Base.CPred Spec.XmlChars Spec.XmlWF.
Import ListNotations.

(** namespace-well-formed documents are XML 1.0 well-formed: the two levels of the verdict nest *)
Theorem wf_is_wf_xml10 : forall s, wf s = true -> wf_xml10 s = true.
Proof.
  intros s. unfold wf, wf_xml10, verdict_ns, verdict10.
  destruct (parse_document s) as [d|]; [|discriminate].
  destruct (unsupported d); [discriminate|].
  destruct (check_doc d) as [r|root]; [discriminate|]. reflexivity.
Qed.
Print Assumptions wf_is_wf_xml10.
