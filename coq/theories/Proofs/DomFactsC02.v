(** * the D04 exclusion of attribute values: C02's predicate implies the one of C13 / C15

    [XmlWFLexical.no_D04 v] (the side condition of C02's [att_value_language_except_D04]) excludes every
    ampersand that is followed by a run of name characters that is empty or starts badly, whatever
    comes after the run.  [DomFactsData.value_D04 v] only excludes such a run when it is closed by a
    semicolon, i.e. when the parser reads a reference there. *)
From Coq Require Import List NArith Bool.
From XmlRs Require Import Base.CPred Proofs.XmlWFLexical Proofs.DomFactsData Proofs.DomFactsAgree.
Import ListNotations.

Lemma ref_D04_same s : XmlWFLexical.ref_D04 s = ref_D04_c02 s.
Proof. reflexivity. Qed.

Lemma no_D04_same s : XmlWFLexical.no_D04 s = no_D04_c02 s.
Proof. induction s as [|c t IH]; [reflexivity|]. cbn [XmlWFLexical.no_D04 no_D04_c02]. rewrite IH, ref_D04_same. reflexivity. Qed.

Theorem no_D04_value s : XmlWFLexical.no_D04 s = true -> value_D04 s = false.
Proof. rewrite no_D04_same. apply no_D04_c02_value. Qed.
