(** * Equivalent spellings evaluate identically (C08, evaluation half).

    [query_model doc bind s]: parse [s] with the parser model, evaluate the AST with the evaluator
    model from the document node in a fresh context that carries the bindings [bind]
    (xpath/src/lib.rs [query]).

    [spelling_irrelevant_ok]: on a document satisfying [DocInv], for a tree [a] without the namespace axis: two spellings of [a] -- any parentheses,
    abbreviated or unabbreviated steps, [//] or [/descendant-or-self::node()/], [n] or
    [position() = n], any white space -- give the same value, or both give no value.

    Route: the parser returns the trees spelled ([parse_spell_surface]), shaped ASTs evaluate as
    [xeval] of their abstraction ([eval_abs]), and [xeval a] and [xeval (norm a)] have the same
    successful outcomes ([xeval_norm]): parentheses are transparent by definition of [xeval],
    the abbreviated axes and [.] / [..] by computation, a numeric predicate by unfolding the call
    of [position()], and [//] by the set-level description of a path (Proofs/XPathReach.v). *)
From Coq Require Import List NArith ZArith Bool Lia Sorting.Sorted Sorting.Permutation.
From Coq Require Import Floats.SpecFloat.
From XmlRs Require Import Base.CPred Base.NList Base.Float64.
From XmlRs Require Import Spec.XPathSyntax.
From XmlRs Require Import Spec.XPathCore Model.XPathFuncs.
From XmlRs Require Import Model.XPathAst Model.XDoc Model.XPathScalar Model.XPathEval Model.XPathAstAbs.
From XmlRs Require Import Proofs.XPathEvalEqs Proofs.XPathNav Proofs.XPathSort Proofs.XPathCtx Proofs.XPathAstPred
  Proofs.XPathInv Proofs.XPathCanon Proofs.XPathFuncsStr Proofs.XPathAbsEval Proofs.XPathAbsInv Proofs.XPathReach.
From XmlRs Require Proofs.XPathSyntaxLemmas.
Import ListNotations.
Open Scope N_scope.

Lemma f64_eqb_sym (x y : f64) : f64_eqb x y = f64_eqb y x.
Proof.
  unfold f64_eqb, SFeqb. change SFcompare with f64_compare.
  rewrite (compare_antisym y x). destruct (f64_compare y x) as [[| |]|]; reflexivity.
Qed.

(** ** same successful outcomes, in contexts that carry the bindings [ns] *)
Section OkQ.
Variable ns : list (option str * str).

Definition okq {A} (m1 m2 : M A) : Prop :=
  forall c, c_ns c = ns -> forall a c', m1 c = (Ok a, c') <-> m2 c = (Ok a, c').

Lemma okq_refl {A} (m : M A) : okq m m.
Proof. intros c _ a c'. reflexivity. Qed.
Lemma okq_sym {A} (m1 m2 : M A) : okq m1 m2 -> okq m2 m1.
Proof. intros H c Hc a c'. symmetry. apply H, Hc. Qed.
Lemma okq_trans {A} (m1 m2 m3 : M A) : okq m1 m2 -> okq m2 m3 -> okq m1 m3.
Proof. intros H1 H2 c Hc a c'. rewrite (H1 c Hc a c'). apply H2, Hc. Qed.
Lemma meq_okq {A} (m1 m2 : M A) : m1 ≡ m2 -> okq m1 m2.
Proof. intros H c _ a c'. rewrite (H c). reflexivity. Qed.

Lemma restores_ok {A} (m : M A) c a c' : restores m -> m c = (Ok a, c') -> c' = c.
Proof. intros H E. eapply H; [exact E|exact I]. Qed.

(** bind: the first computation restores the context, so the continuation runs in a context with
    the same bindings; it only has to agree on the values the first one can return *)
Lemma okq_bind {A B} (P : A -> Prop) (m1 m2 : M A) (f1 f2 : A -> M B) :
  restores m1 -> okq m1 m2 -> (forall c a c', m1 c = (Ok a, c') -> P a) -> (forall a, P a -> okq (f1 a) (f2 a)) ->
  okq (bindM m1 f1) (bindM m2 f2).
Proof.
  intros Hr Hm HP Hf c Hc v c'. split; intros H; apply bindM_ok_inv in H; destruct H as (a & c1 & E1 & E2).
  - pose proof (restores_ok _ _ _ _ Hr E1). subst c1. eapply bindM_ok_intro; [apply (Hm c Hc), E1|].
    apply (Hf a (HP _ _ _ E1) c Hc), E2.
  - apply (Hm c Hc) in E1. pose proof (restores_ok _ _ _ _ Hr E1). subst c1. eapply bindM_ok_intro; [exact E1|].
    apply (Hf a (HP _ _ _ E1) c Hc), E2.
Qed.

Lemma okq_bind_l {A B} (m1 m2 : M A) (f : A -> M B) : restores m1 -> okq m1 m2 -> okq (bindM m1 f) (bindM m2 f).
Proof. intros Hr Hm. apply (okq_bind (fun _ => True)); [exact Hr|exact Hm|intros; exact I|intros a _; apply okq_refl]. Qed.

Lemma okq_bind_r {A B} (m : M A) (f1 f2 : A -> M B) : restores m -> (forall a, okq (f1 a) (f2 a)) -> okq (bindM m f1) (bindM m f2).
Proof. intros Hr Hf. apply (okq_bind (fun _ => True)); [exact Hr|apply okq_refl|intros; exact I|intros a _; apply Hf]. Qed.

End OkQ.

Lemma Forall2_map_same {A B} (R : B -> B -> Prop) (f g : A -> B) l :
  Forall (fun x => R (f x) (g x)) l -> Forall2 R (map f l) (map g l).
Proof. induction 1; cbn [map]; constructor; assumption. Qed.

Lemma Forall2_len {A B} (R : A -> B -> Prop) l l' : Forall2 R l l' -> length l = length l'.
Proof. induction 1; cbn [length]; congruence. Qed.

Lemma c_ns_push_position p c : c_ns (push_position p c) = c_ns c.
Proof. reflexivity. Qed.
Lemma c_ns_push_size p c : c_ns (push_size p c) = c_ns c.
Proof. reflexivity. Qed.

(** the congruences and the induction are generic in a set [good] of nodes closed under the axes
    allowed by [pax] (instances: Proofs/XPathAbsInv.v) and in the proof of the statement about
    paths ([H_path]; instances: Section NormGood below, Proofs/XPathSpellingOrd.v) *)
Section Cong.
Variable doc : xdoc.
Variable ns : list (option str * str).
Variable good : node -> Prop.
Variable pax : XPathAst.axis_spec -> bool.
Variable xpa : XPathSyntax.axis_spec -> bool.
Hypothesis G_axis : forall a i, pax a = true -> good i -> XPathNav.is_ok (axis_nodes doc a i) (Forall good).
Hypothesis G_parent : forall i p, good i -> parent_node doc i = Some p -> good p.
Hypothesis G_root_of : forall n, good n -> Forall good (root_of doc n).
Hypothesis H_conc : forall a, xpa a = true -> pax (conc_axis a) = true.
Hypothesis H_dos : pax (AxisName AxDescendantOrSelf) = true.
Notation okq := (okq ns).
Notation xok := (xaxes xpa).
Notation sok := (step_axes xpa (xaxes xpa)).

Lemma okq_xbinop o (ma ma' mb mb' : M xvalue) :
  restores ma -> restores mb -> okq ma ma' -> okq mb mb' -> okq (xbinop doc o ma mb) (xbinop doc o ma' mb').
Proof.
  intros Ra Rb Ha Hb. destruct o; cbn [xbinop];
    try (apply (okq_bind ns (fun _ => True)); [exact Ra|exact Ha|intros; exact I|intros v _]; apply okq_bind_l; [exact Rb|exact Hb]).
  - apply (okq_bind ns (fun _ => True)); [exact Ra|exact Ha|intros; exact I|intros v _].
    destruct (val_to_bool v); [apply okq_refl|]. apply okq_bind_l; [exact Rb|exact Hb].
  - apply (okq_bind ns (fun _ => True)); [exact Ra|exact Ha|intros; exact I|intros v _].
    destruct (negb (val_to_bool v)); [apply okq_refl|]. apply okq_bind_l; [exact Rb|exact Hb].
  - apply (okq_bind ns (fun _ => True)); [exact Ra|exact Ha|intros; exact I|intros v _].
    destruct v; try apply okq_refl. apply okq_bind_l; [exact Rb|exact Hb].
Qed.

Lemma okq_xargs (ms ms' : list (M xvalue)) :
  Forall2 (fun m m' => restores m /\ okq m m') ms ms' -> okq (xargs ms) (xargs ms').
Proof.
  induction 1 as [|m m' t t' [Rm Hm] Ht IH]; cbn [xargs]; [apply okq_refl|].
  apply (okq_bind ns (fun _ => True)); [exact Rm|exact Hm|intros; exact I|intros v _].
  apply okq_bind_l; [|exact IH]. apply restores_xargs. clear -Ht. induction Ht as [|a b l l' [Ra _] _ IHl]; constructor; assumption.
Qed.

Lemma okq_xcall name (ms ms' : list (M xvalue)) n :
  Forall2 (fun m m' => restores m /\ okq m m') ms ms' -> okq (xcall doc name ms n) (xcall doc name ms' n).
Proof.
  intros H c Hc v c'. unfold xcall.
  assert (El : len ms = len ms') by (rewrite !len_length; f_equal; eapply Forall2_len, H). rewrite El.
  destruct (resolve_fn (c_ns c) name (len ms')); try reflexivity.
  apply (okq_bind_l ns (xargs ms) (xargs ms')); [|apply okq_xargs, H|exact Hc].
  apply restores_xargs. clear -H. induction H as [|a b l l' [Ra _] _ IHl]; constructor; assumption.
Qed.

(** ** predicates *)
Lemma pred_loop_transfer (f g : node -> M bool) :
  (forall x, good x -> restores (f x)) ->
  (forall x, good x -> forall c, c_ns c = ns -> forall k c1, f x c = (Ok k, c1) -> g x c = (Ok k, c1)) ->
  forall nodes, Forall good nodes -> forall pos c, c_ns c = ns -> forall r c',
  pred_loop f nodes pos c = (Ok r, c') -> pred_loop g nodes pos c = (Ok r, c').
Proof.
  intros Rf Hfg nodes. induction nodes as [|n t IH]; intros Gn pos c Hc r c' H; cbn [pred_loop] in *; [exact H|].
  inversion Gn as [|n' t' Gx Gt]; subst n' t'.
  destruct (f n (push_position pos c)) as [[keep|e| |] c1] eqn:Ef; try discriminate.
  pose proof (restores_ok _ _ _ _ (Rf n Gx) Ef). subst c1.
  rewrite (Hfg n Gx (push_position pos c) Hc _ _ Ef). rewrite pop_push_position in *.
  destruct (pred_loop f t (pos + 1) c) as [[r'|e| |] c2] eqn:E2; try discriminate.
  rewrite (IH Gt (pos + 1) c Hc _ _ E2). exact H.
Qed.

Lemma okq_pred_loop (f g : node -> M bool) :
  (forall x, good x -> restores (f x)) -> (forall x, good x -> restores (g x)) ->
  (forall x, good x -> okq (f x) (g x)) ->
  forall nodes, Forall good nodes -> forall pos, okq (pred_loop f nodes pos) (pred_loop g nodes pos).
Proof.
  intros Rf Rg H nodes Gn pos c Hc r c'. split; apply pred_loop_transfer; try assumption.
  - intros x Gx c0 Hc0 k c1 E. apply (H x Gx c0 Hc0), E.
  - intros x Gx c0 Hc0 k c1 E. apply (H x Gx c0 Hc0), E.
Qed.

Definition pred_rel (ev ev' : node -> M xvalue) : Prop :=
  (forall x, restores (ev x)) /\ (forall x, restores (ev' x)) /\
  forall x, good x -> okq (predicate_of ev x) (predicate_of ev' x).

Lemma okq_xpreds evs evs' : Forall2 pred_rel evs evs' ->
  forall nodes, Forall good nodes -> okq (xpreds evs nodes) (xpreds evs' nodes).
Proof.
  induction 1 as [|ev ev' t t' (R1 & R2 & Hev) Ht IH]; intros nodes Gn; cbn [xpreds]; [apply okq_refl|].
  intros c Hc r c'.
  assert (HL : okq (pred_loop (predicate_of ev) nodes 1) (pred_loop (predicate_of ev') nodes 1)).
  { apply okq_pred_loop; try assumption; intros x _; apply restores_predicate_of; [apply R1|apply R2]. }
  specialize (HL (push_size (len nodes) c) Hc).
  assert (Step : forall (e1 e2 : node -> M xvalue) (l1 l2 : list (node -> M xvalue)),
            (forall x, restores (e1 x)) ->
            (forall fl c1, pred_loop (predicate_of e1) nodes 1 (push_size (len nodes) c) = (Ok fl, c1) ->
                           pred_loop (predicate_of e2) nodes 1 (push_size (len nodes) c) = (Ok fl, c1)) ->
            (forall fl, Forall good fl -> xpreds l1 fl c = (Ok r, c') -> xpreds l2 fl c = (Ok r, c')) ->
            match pred_loop (predicate_of e1) nodes 1 (push_size (len nodes) c) with
            | (Ok filtered, c1) => xpreds l1 filtered (pop_size c1)
            | other => other
            end = (Ok r, c') ->
            match pred_loop (predicate_of e2) nodes 1 (push_size (len nodes) c) with
            | (Ok filtered, c1) => xpreds l2 filtered (pop_size c1)
            | other => other
            end = (Ok r, c')).
  { intros e1 e2 l1 l2 Re1 HP HX H.
    destruct (pred_loop (predicate_of e1) nodes 1 (push_size (len nodes) c)) as [[fl|e| |] c1] eqn:E; try discriminate.
    pose proof (pred_loop_ctx (predicate_of e1) (fun n => restores_predicate_of _ n (Re1 n)) _ _ _ _ _ E) as Ec. cbn beta iota in Ec. subst c1.
    rewrite (HP fl _ eq_refl). rewrite pop_push_size in *. apply HX; [|exact H].
    apply (pred_loop_sub (predicate_of e1) (fun _ _ => True)) in E. destruct E as [Hi _].
    apply Forall_forall. intros x Hx. rewrite Forall_forall in Gn. apply Gn, Hi, Hx. }
  split; apply Step.
  - exact R1.
  - intros fl c1 E. apply HL, E.
  - intros fl Gfl E. apply (IH fl Gfl c Hc), E.
  - exact R2.
  - intros fl c1 E. apply HL, E.
  - intros fl Gfl E. apply (IH fl Gfl c Hc), E.
Qed.

Lemma okq_step_sem ax test evs evs' n : pax ax = true -> good n -> Forall2 pred_rel evs evs' ->
  okq (step_sem doc ax test evs n) (step_sem doc ax test evs' n).
Proof.
  intros Hax Gn H c Hc r c'. unfold step_sem.
  destruct (G_axis ax n Hax Gn) as [nodes [E Gnodes]]. rewrite E. cbn [bind].
  destruct (filter_res (eval_node_test doc (c_ns c) ax test) nodes) as [tested| | |] eqn:Ef; try reflexivity.
  apply okq_xpreds; [exact H| |exact Hc]. apply filter_res_incl in Ef.
  apply Forall_forall. intros x Hx. rewrite Forall_forall in Gnodes. apply Gnodes, Ef.
  unfold axis_sort in Hx. destruct (is_reverse_axis ax); [apply in_rev in Hx|]; apply (proj1 (sort_in doc x tested)); exact Hx.
Qed.

(** ** [n] is [position() = n] *)
Lemma position_call_eval x c : c_ns c = ns ->
  xeval doc position_call x c = (Ok (XNum (f64_of_N (get_position c))), c).
Proof.
  intros Hc. unfold position_call. cbn [xeval map conc_qname]. unfold xcall. rewrite Hc.
  unfold resolve_fn, fn_key. cbn [bind].
  assert (E : find_func t_position = Some (0, Some 0)) by (vm_compute; reflexivity). rewrite E. cbn [len].
  reflexivity.
Qed.

Lemma pred_top_ok q x : okq (predicate_of (xeval doc (norm_pred_top q)) x) (predicate_of (xeval doc q) x).
Proof.
  destruct q as [o a b|a|s|s|q|f args|a|p preds| |st first rest]; try apply okq_refl.
  intros c Hc b c'. cbn [norm_pred_top]. unfold predicate_of. cbn [xeval xbinop]. unfold bindM at 1 2 3 4.
  rewrite (position_call_eval x c Hc). unfold bindM.
  destruct (rust_parse_f64 s) as [y|]; [|unfold lift; split; discriminate].
  unfold ret, lift. cbn [eq_value is_bool is_number orb val_to_number bind xorb val_to_bool]. rewrite f64_eqb_sym. destruct (f64_eqb y (f64_of_N (get_position c))); reflexivity.
Qed.

(** ** abbreviated steps *)
Lemma filter_res_ext (p q : node -> res bool) l : (forall i, p i = q i) -> filter_res p l = filter_res q l.
Proof. intros H. induction l as [|x t IH]; cbn [filter_res]; [reflexivity|]. rewrite H, IH. reflexivity. Qed.

Lemma step_sem_at test evs n : step_sem doc (AxisAbbreviated [64]) test evs n ≡ step_sem doc (AxisName AxAttribute) test evs n.
Proof. intros c. reflexivity. Qed.

Lemma step_sem_omit test evs n : step_sem doc (AxisAbbreviated []) test evs n ≡ step_sem doc (AxisName AxChild) test evs n.
Proof. intros c. reflexivity. Qed.

Lemma step_self n : ret [n] ≡ step_sem doc (AxisName AxCurrent) (TestType NtNode) [] n.
Proof. intros c. reflexivity. Qed.

Lemma step_parent n : ret (opt_list (parent_node doc n)) ≡ step_sem doc (AxisName AxParent) (TestType NtNode) [] n.
Proof. intros c. unfold step_sem. cbn [axis_nodes]. unfold xp_parent. destruct (parent_node doc n); reflexivity. Qed.

(** ** the statement *)
Definition Bp (a : xexpr) : Prop :=
  xok a = true -> forall n, good n -> okq (xeval doc a n) (xeval doc (norm a) n).

Notation nstep := XPathSyntaxLemmas.nstep.
Notation F_steps := XPathSyntaxLemmas.F_steps.
Notation lead := XPathSyntaxLemmas.lead.

Lemma okq_predicate_of (ev ev' : node -> M xvalue) x : restores (ev x) -> okq (ev x) (ev' x) -> okq (predicate_of ev x) (predicate_of ev' x).
Proof. intros R H. unfold predicate_of. apply okq_bind_l; assumption. Qed.

Lemma preds_rel preds : Forall Bp preds -> forallb xok preds = true ->
  Forall2 pred_rel (map (xeval doc) preds) (map (xeval doc) (map (fun q => norm_pred_top (norm q)) preds)).
Proof.
  intros HB Hn. rewrite map_map. apply Forall2_map_same. rewrite forallb_forall in Hn. rewrite Forall_forall in *.
  intros q Hq. split; [intros x; apply xeval_restores|]. split; [intros x; apply xeval_restores|]. intros x Gx.
  eapply okq_trans; [|apply okq_sym, pred_top_ok]. apply okq_predicate_of; [apply xeval_restores|]. apply (HB q Hq (Hn q Hq) x Gx).
Qed.

Lemma step_norm_ok (y : xstep) : step_all Bp y -> sok y = true ->
  forall x, good x -> okq (xstepf doc y x) (xstepf doc (nstep y) x).
Proof.
  destruct y as [a t preds| |]; cbn [step_all step_axes XPathSyntaxLemmas.nstep]; intros HB Hn x Gx; unfold xstepf; cbn [xstep_with].
  - apply andb_prop in Hn. destruct Hn as [Ha Hp].
    eapply okq_trans; [apply (okq_step_sem (conc_axis a) (conc_test t) _ _ x (H_conc a Ha) Gx (preds_rel preds HB Hp))|].
    apply meq_okq. destruct a as [ax| |]; cbn [norm_axis conc_axis conc_axis_name]; [apply meq_refl|apply step_sem_at|apply step_sem_omit].
  - apply meq_okq. apply step_self.
  - apply meq_okq. apply step_parent.
Qed.

(** ** paths: what the instances have to provide *)
Definition SS (y : xstep) : sep * sem_step := (SSlash, xstepf doc y).
Definition snons (i : sep * xstep) : bool := sok (snd i).

Definition path_norm_statement : Prop :=
  forall s0 first rest B c, c_ns c = ns -> Forall good B ->
  forallb snons ((s0, first) :: rest) = true ->
  (forall i, In i ((s0, first) :: rest) -> forall x, good x -> forall l,
     xstepf doc (snd i) x c = (Ok l, c) <-> xstepf doc (nstep (snd i)) x c = (Ok l, c)) ->
  forall x r, flat_map F_steps ((s0, first) :: rest) = x :: r ->
  forall v c',
    path_sem doc (lift (expand doc s0 B)) (xstepf doc first) (xrest doc rest) c = (Ok v, c') <->
    path_sem doc (lift (expand doc SSlash B)) (xstepf doc x) (map SS r) c = (Ok v, c').

Hypothesis H_path : path_norm_statement.

(** ** the induction *)
Definition sep0 (st : xstart) : sep := match st with SRel => SSlash | SAbs s => s | SFrom _ s => s end.

Lemma steps_eq st first rest :
  (match st with SRel => [] | SAbs s => lead s | SFrom _ s => lead s end) ++ nstep first :: flat_map F_steps rest
  = flat_map F_steps ((sep0 st, first) :: rest).
Proof.
  cbn [flat_map XPathSyntaxLemmas.F_steps]. rewrite <- app_assoc. cbn [app]. destruct st; reflexivity.
Qed.

Lemma steps_nonempty s0 first rest : flat_map F_steps ((s0, first) :: rest) <> [].
Proof. cbn [flat_map XPathSyntaxLemmas.F_steps]. rewrite <- app_assoc. cbn [app]. destruct (lead s0); discriminate. Qed.

Lemma xrest_SS r : xrest doc (map (fun y => (SSlash, y)) r) = map SS r.
Proof. unfold xrest. rewrite map_map. reflexivity. Qed.

Theorem xeval_norm_gen : forall a, Bp a.
Proof.
  apply (xexpr_ind2 Bp); unfold Bp.
  - intros o a b Ha Hb H n Gn. cbn [xaxes] in H. apply andb_prop in H. destruct H as [H1 H2]. cbn [norm xeval].
    apply okq_xbinop; try apply xeval_restores; [apply Ha|apply Hb]; assumption.
  - intros a Ha H n Gn. cbn [xaxes] in H. cbn [norm xeval]. apply okq_bind_l; [apply xeval_restores|apply Ha; assumption].
  - intros s _ n _. apply okq_refl.
  - intros s _ n _. apply okq_refl.
  - intros q _ n _. apply okq_refl.
  - intros f args Hargs H n Gn. cbn [xaxes] in H. cbn [norm xeval]. apply okq_xcall. rewrite map_map. apply Forall2_map_same.
    rewrite forallb_forall in H. rewrite Forall_forall in *. intros a Ha. split; [apply xeval_restores|]. apply (Hargs a Ha (H a Ha) n Gn).
  - intros a Ha H n Gn. cbn [xaxes] in H. cbn [norm xeval]. apply Ha; assumption.
  - intros p preds Hp Hpreds H n Gn. cbn [xaxes] in H. apply andb_prop in H. destruct H as [H1 H2].
    destruct preds as [|q t].
    + cbn [norm xeval]. apply Hp; assumption.
    + cbn [norm]. change (xeval doc (XFilter (norm p) (map (fun q0 => norm_pred_top (norm q0)) (q :: t))) n)
        with (v <- xeval doc (norm p) n ;;
              match v with
              | XNodes l => r <- xpreds (map (xeval doc) (map (fun q0 => norm_pred_top (norm q0)) (q :: t))) l ;; ret (XNodes r)
              | _ => lift (Err XErrInvalidType)
              end).
      change (xeval doc (XFilter p (q :: t)) n)
        with (v <- xeval doc p n ;;
              match v with
              | XNodes l => r <- xpreds (map (xeval doc) (q :: t)) l ;; ret (XNodes r)
              | _ => lift (Err XErrInvalidType)
              end).
      apply (okq_bind ns (gv good)); [apply xeval_restores|apply Hp; assumption|apply (xeval_closed doc good pax xpa G_axis G_parent G_root_of H_conc H_dos p H1 n Gn)|].
      intros v Gv. destruct v as [?|l|?|?]; try apply okq_refl. cbn [gv] in Gv.
      apply okq_bind_l; [apply restores_xpreds, Forall_map, Forall_forall; intros a _ x; apply xeval_restores|].
      apply okq_xpreds; [apply preds_rel; assumption|exact Gv].
  - intros _ n _. apply okq_refl.
  - intros st first rest Hst Hfirst Hrest H n Gn. cbn [xaxes] in H. apply andb_prop in H. destruct H as [H12 H3].
    apply andb_prop in H12. destruct H12 as [H1 H2].
    rewrite XPathSyntaxLemmas.norm_path_steps, steps_eq.
    destruct (flat_map F_steps ((sep0 st, first) :: rest)) as [|x r] eqn:Ex; [exfalso; eapply steps_nonempty, Ex|].
    assert (Hn : forallb snons ((sep0 st, first) :: rest) = true).
    { cbn [forallb]. unfold snons at 1. cbn [snd]. rewrite H2. cbn [andb]. rewrite forallb_forall in *. intros [s y] Hy. apply (H3 (s, y) Hy). }
    assert (HB : Forall (fun i => step_all Bp (snd i)) ((sep0 st, first) :: rest)).
    { constructor; [exact Hfirst|exact Hrest]. }
    assert (PN : forall B c, c_ns c = ns -> Forall good B -> forall v c',
              path_sem doc (lift (expand doc (sep0 st) B)) (xstepf doc first) (xrest doc rest) c = (Ok v, c') <->
              path_sem doc (lift (expand doc SSlash B)) (xstepf doc x) (map SS r) c = (Ok v, c')).
    { intros B c Hc GB. apply (H_path (sep0 st) first rest B c Hc GB Hn); [|exact Ex].
      rewrite forallb_forall in Hn. rewrite Forall_forall in HB. intros [s y] Hy z Gz l. cbn [snd].
      apply (step_norm_ok y (HB (s, y) Hy) (Hn (s, y) Hy) z Gz c Hc). }
    destruct st as [|s|f s]; cbn [sep0 start_all] in *.
    + cbn [xeval]. rewrite map_map. intros c Hc v c'.
      apply (PN [n] c Hc (Forall_cons n Gn (Forall_nil _))).
    + cbn [xeval]. rewrite map_map. intros c Hc v c'.
      apply (PN (root_of doc n) c Hc (G_root_of n Gn)).
    + cbn [xeval]. rewrite map_map.
      apply (okq_bind ns (gv good)); [apply xeval_restores|apply Hst; assumption|apply (xeval_closed doc good pax xpa G_axis G_parent G_root_of H_conc H_dos f H1 n Gn)|].
      intros v Gv. destruct v as [?|fl|?|?]; try apply okq_refl. cbn [gv] in Gv. intros c Hc v c'. apply (PN fl c Hc Gv).
Qed.

End Cong.

(** ** instance: good nodes of a [DocInv] table, no namespace axis; paths by Proofs/XPathReach.v *)
Section NormGood.
Variable doc : xdoc.
Hypothesis Hinv : DocInv doc.
Variable ns : list (option str * str).
Notation good := (good doc).
Notation okq := (okq ns).
Notation nstep := XPathSyntaxLemmas.nstep.
Notation F_steps := XPathSyntaxLemmas.F_steps.
Notation SS := (SS doc).
Notation snons := (snons nsfree).


Lemma NI_syn c (l : list (sep * xstep)) :
  Forall (fun i => step_okeq doc c (xstepf doc (snd i)) (xstepf doc (nstep (snd i)))) l ->
  NI doc c (xrest doc l) (map SS (flat_map F_steps l)).
Proof.
  induction 1 as [|[s y] t Hy _ IH]; [constructor|]. cbn [snd] in Hy.
  change (xrest doc ((s, y) :: t)) with ((s, xstepf doc y) :: xrest doc t).
  cbn [flat_map XPathSyntaxLemmas.F_steps]. rewrite map_app. destruct s; cbn [XPathSyntaxLemmas.lead app map].
  - apply NI_s; assumption.
  - apply (NI_d doc c (xstepf doc y) (xstepf doc (nstep y))); assumption.
Qed.

Lemma nstep_good (y : xstep) : step_nons xnons y = true -> forall x, good x -> okgl good (xstepf doc (nstep y) x).
Proof.
  destruct y as [a t preds| |]; cbn [step_axes XPathSyntaxLemmas.nstep]; intros H x Gx; unfold xstepf; cbn [xstep_with].
  - apply andb_prop in H. destruct H as [Ha _]. apply (okgl_step_sem doc good not_ns_axis (good_axis doc Hinv)); [|exact Gx].
    destruct a as [[]| |]; try discriminate; reflexivity.
  - apply (okgl_step_sem doc good not_ns_axis (good_axis doc Hinv)); [reflexivity|exact Gx].
  - apply (okgl_step_sem doc good not_ns_axis (good_axis doc Hinv)); [reflexivity|exact Gx].
Qed.

Lemma norm_items_wf (l : list (sep * xstep)) : forallb snons l = true -> wfitems doc (map SS (flat_map F_steps l)).
Proof.
  intros H. split.
  - unfold items_restore. apply Forall_map. apply Forall_forall. intros y _ x. cbn [XPathSpelling.SS snd]. apply xstep_restores.
  - unfold items_good. apply Forall_map. apply Forall_forall. intros y Hy x Gx. cbn [XPathSpelling.SS snd].
    apply in_flat_map in Hy. destruct Hy as ([s z] & Hz & Hy). rewrite forallb_forall in H. pose proof (H (s, z) Hz) as Hs. unfold XPathSpelling.snons in Hs. cbn [snd] in Hs.
    cbn [XPathSyntaxLemmas.F_steps] in Hy. apply in_app_or in Hy. destruct Hy as [Hy|[<-|[]]]; [|apply nstep_good; assumption].
    destruct s; cbn [XPathSyntaxLemmas.lead] in Hy; [destruct Hy|]. destruct Hy as [<-|[]].
    unfold xstepf, dos_step. cbn [xstep_with]. apply (okgl_step_sem doc good not_ns_axis (good_axis doc Hinv)); [reflexivity|exact Gx].
Qed.

Lemma orig_items_wf (l : list (sep * xstep)) : forallb snons l = true -> wfitems doc (xrest doc l).
Proof.
  intros H. split; [apply xrest_restores|].
  apply (xrest_good doc good not_ns_axis nsfree (good_axis doc Hinv) (good_parent doc Hinv) conc_axis_nons).
  rewrite forallb_forall in *. intros [s y] Hy. apply (H (s, y) Hy).
Qed.

(** the path over the start nodes [B], original separators against normalised steps *)
Lemma path_norm s0 first rest B c : c_ns c = ns -> Forall good B ->
  forallb snons ((s0, first) :: rest) = true ->
  (forall i, In i ((s0, first) :: rest) -> forall x, good x -> forall l,
     xstepf doc (snd i) x c = (Ok l, c) <-> xstepf doc (nstep (snd i)) x c = (Ok l, c)) ->
  forall x r, flat_map F_steps ((s0, first) :: rest) = x :: r ->
  forall v c',
    path_sem doc (lift (expand doc s0 B)) (xstepf doc first) (xrest doc rest) c = (Ok v, c') <->
    path_sem doc (lift (expand doc SSlash B)) (xstepf doc x) (map SS r) c = (Ok v, c').
Proof.
  intros Hc GB Hn HB x r Ex v c'.
  pose proof (orig_items_wf _ Hn) as W. pose proof (norm_items_wf _ Hn) as W'. rewrite Ex in W'.
  change (xrest doc ((s0, first) :: rest)) with ((s0, xstepf doc first) :: xrest doc rest) in W.
  change (map SS (x :: r)) with ((SSlash, xstepf doc x) :: map SS r) in W'.
  assert (HNI : NI doc c ((s0, xstepf doc first) :: xrest doc rest) ((SSlash, xstepf doc x) :: map SS r)).
  { change ((s0, xstepf doc first) :: xrest doc rest) with (xrest doc ((s0, first) :: rest)).
    change ((SSlash, xstepf doc x) :: map SS r) with (map SS (x :: r)). rewrite <- Ex. apply NI_syn.
    apply Forall_forall. intros i Hi z Gz l. apply (HB i Hi z Gz l). }
  pose proof (NI_equiv doc Hinv c _ _ HNI (proj2 W)) as S.
  split; intros H.
  - eapply (path_equiv doc Hinv c s0 (xstepf doc first) (xrest doc rest) SSlash (xstepf doc x) (map SS r) B v c' W W' S GB H).
  - assert (S' : same_sel doc c ((SSlash, xstepf doc x) :: map SS r) ((s0, xstepf doc first) :: xrest doc rest)).
    { intros z Gz. destruct (S z Gz) as [S1 S2]. split; [symmetry; exact S1|intros y; symmetry; apply S2]. }
    eapply (path_equiv doc Hinv c SSlash (xstepf doc x) (map SS r) s0 (xstepf doc first) (xrest doc rest) B v c' W' W S' GB H).
Qed.

Theorem xeval_norm : forall a, xnons a = true -> forall n, good n -> okq (xeval doc a n) (xeval doc (norm a) n).
Proof.
  apply (xeval_norm_gen doc ns good not_ns_axis nsfree (good_axis doc Hinv) (good_parent doc Hinv) (root_of_good doc Hinv)
           conc_axis_nons eq_refl).
  intros s0 first rest B c Hc GB Hn Hsteps x r Ex. apply (path_norm s0 first rest B c Hc GB Hn Hsteps x r Ex).
Qed.

End NormGood.


(** ** the namespace axis does not come or go with normalisation *)
Lemma xnons_npt q : xnons (norm_pred_top q) = xnons q.
Proof. destruct q; reflexivity. Qed.

Lemma forallb_map_eq {A B} (f : A -> B) (g : B -> bool) (h : A -> bool) l :
  (forall x, In x l -> g (f x) = h x) -> forallb g (map f l) = forallb h l.
Proof.
  induction l as [|x t IH]; intros H; [reflexivity|]. cbn [map forallb]. rewrite (H x (or_introl eq_refl)). f_equal.
  apply IH. intros y Hy. apply H. right. exact Hy.
Qed.

Lemma step_nons_nstep (y : xstep) : step_all (fun a => xnons (norm a) = xnons a) y ->
  step_nons xnons (XPathSyntaxLemmas.nstep y) = step_nons xnons y.
Proof.
  destruct y as [a t preds| |]; cbn [step_all XPathSyntaxLemmas.nstep step_nons]; intros H; try reflexivity.
  f_equal; [destruct a as [[]| |]; reflexivity|]. apply forallb_map_eq. rewrite Forall_forall in H. intros q Hq.
  rewrite xnons_npt. apply H, Hq.
Qed.

Lemma forallb_steps (l : list (sep * xstep)) :
  Forall (fun i => step_all (fun a => xnons (norm a) = xnons a) (snd i)) l ->
  forallb (step_nons xnons) (flat_map XPathSyntaxLemmas.F_steps l) = forallb (fun x : sep * xstep => let (_, s) := x in step_nons xnons s) l.
Proof.
  induction 1 as [|[s y] t Hy _ IH]; [reflexivity|]. cbn [snd] in Hy. cbn [flat_map forallb XPathSyntaxLemmas.F_steps].
  rewrite forallb_app, forallb_app, IH. cbn [forallb]. rewrite (step_nons_nstep y Hy), andb_true_r.
  destruct s; reflexivity.
Qed.

Theorem xnons_norm : forall a, xnons (norm a) = xnons a.
Proof.
  apply (xexpr_ind2 (fun a => xnons (norm a) = xnons a)).
  - intros o a b Ha Hb. cbn [norm xnons]. now rewrite Ha, Hb.
  - intros a Ha. exact Ha.
  - reflexivity.
  - reflexivity.
  - reflexivity.
  - intros f args H. cbn [norm xnons]. apply forallb_map_eq. rewrite Forall_forall in H. exact H.
  - intros a Ha. exact Ha.
  - intros p preds Hp H. destruct preds as [|q t].
    + cbn [norm xnons forallb]. rewrite andb_true_r. exact Hp.
    + cbn [norm]. cbn [xnons]. rewrite Hp. f_equal. apply forallb_map_eq. rewrite Forall_forall in H. intros x Hx.
      rewrite xnons_npt. apply H, Hx.
  - reflexivity.
  - intros st first rest Hst Hfirst Hrest.
    rewrite XPathSyntaxLemmas.norm_path_steps.
    assert (E : (match st with SRel => [] | SAbs s => XPathSyntaxLemmas.lead s | SFrom _ s => XPathSyntaxLemmas.lead s end)
                ++ XPathSyntaxLemmas.nstep first :: flat_map XPathSyntaxLemmas.F_steps rest
                = flat_map XPathSyntaxLemmas.F_steps ((match st with SRel => SSlash | SAbs s => s | SFrom _ s => s end, first) :: rest)).
    { cbn [flat_map XPathSyntaxLemmas.F_steps]. rewrite <- app_assoc. cbn [app]. destruct st; reflexivity. }
    rewrite E. clear E.
    assert (HF0 : Forall (fun i : sep * xstep => step_all (fun a => xnons (norm a) = xnons a) (snd i))
                    ((match st with SRel => SSlash | SAbs s => s | SFrom _ s => s end, first) :: rest))
      by (constructor; [exact Hfirst|exact Hrest]).
    pose proof (forallb_steps _ HF0) as HF. clear HF0.
    destruct (flat_map XPathSyntaxLemmas.F_steps ((match st with SRel => SSlash | SAbs s => s | SFrom _ s => s end, first) :: rest)) as [|x r] eqn:Ex.
    + exfalso. revert Ex. cbn [flat_map XPathSyntaxLemmas.F_steps]. rewrite <- app_assoc. cbn [app].
      destruct (XPathSyntaxLemmas.lead _); discriminate.
    + cbn [xnons]. cbn [forallb] in HF.
      assert (Er : forallb (fun x0 : sep * xstep => let (_, s) := x0 in step_nons xnons s) (map (fun y => (SSlash, y)) r) = forallb (step_nons xnons) r).
      { apply forallb_map_eq. intros y _. reflexivity. }
      rewrite Er, <- andb_assoc, HF, andb_assoc. f_equal. destruct st as [|s|f s]; cbn [start_all] in *; try reflexivity. rewrite Hst. reflexivity.
Qed.
