(** * Connection of Base/Float64.v to Flocq (IEEE 754 semantics over the real numbers).

    - [+ - * div] ([SFadd SFsub SFmul SFdiv] of the standard library) are Flocq's
      [Bplus Bminus Bmult Bdiv] at mode_NE, hence correctly rounded: the result is the double
      nearest to the exact real result (ties to even), or an infinity when that overflows;
    - [f64_of_ratio] / [f64_of_decimal] (decimal string -> double) are correctly rounded and
      always return an IEEE double ([valid_binary]);
    - consequently every number denoted by an XPath value is an IEEE double
      ([valid_numbers_ieee]), which discharges the hypothesis of [fn_refines_known].

    This file (and only this file of the C09 development) depends on the axioms of the
    standard library's real numbers that Flocq uses:
      ClassicalDedekindReals.sig_not_dec, ClassicalDedekindReals.sig_forall_dec,
      FunctionalExtensionality.functional_extensionality_dep, Classical_Prop.classic. *)
From Coq Require Import ZArith Reals Lia Psatz Bool List.
From Coq Require Import Floats.SpecFloat.
From Flocq Require Import Core.Core Calc.Bracket Calc.Div IEEE754.BinarySingleNaN.
From XmlRs Require Import Base.CPred Base.Float64 Spec.XPathCore Model.XPathFuncs
  Proofs.XPathFuncsNum Proofs.XPathFuncs.
Open Scope Z_scope.

Local Instance Hprec : FLX.Prec_gt_0 prec := eq_refl.
Local Instance Hmax : Prec_lt_emax prec emax := eq_refl.

Notation bfloat := (binary_float prec emax).
Definition valid (x : f64) : Prop := valid_binary prec emax x = true.
Definition R_of (x : f64) : R := SF2R radix2 x.
(** rounding to nearest, ties to even, into the binary64 format *)
Definition rnd (r : R) : R := round radix2 (SpecFloat.fexp prec emax) ZnearestE r.
Definition fits (r : R) : Prop := (Rabs (rnd r) < bpow radix2 emax)%R.

(** the standard library's operations are Flocq's at mode_NE (as in Flocq's PrimFloat.v) *)
Lemma round_nearest_even_equiv s m l :
  round_nearest_even m l = choice_mode mode_NE s m l.
Proof.
  case l; [reflexivity|intro c]. case c; [ | reflexivity..].
  now simpl; unfold Round.cond_incr; case Z.even.
Qed.

Lemma binary_round_aux_equiv sx mx ex lx :
  SpecFloat.binary_round_aux prec emax sx mx ex lx = binary_round_aux prec emax mode_NE sx mx ex lx.
Proof.
  unfold SpecFloat.binary_round_aux, binary_round_aux.
  set (mrse' := shr_fexp _ _ _ _ _). case mrse'; intros mrs' e'; simpl.
  now rewrite (round_nearest_even_equiv sx).
Qed.

Lemma binary_round_equiv s m e :
  SpecFloat.binary_round prec emax s m e = binary_round prec emax mode_NE s m e.
Proof.
  unfold SpecFloat.binary_round, binary_round, shl_align_fexp.
  set (mez := shl_align _ _ _); case mez as [mz ez]. apply binary_round_aux_equiv.
Qed.

Lemma binary_normalize_equiv m e szero :
  SpecFloat.binary_normalize prec emax m e szero
  = B2SF (binary_normalize prec emax Hprec Hmax mode_NE m e szero).
Proof.
  case m as [ | p | p].
  - now simpl.
  - simpl; rewrite B2SF_SF2B; apply binary_round_equiv.
  - simpl; rewrite B2SF_SF2B; apply binary_round_equiv.
Qed.

Lemma add_equiv (x y : bfloat) : f64_add (B2SF x) (B2SF y) = B2SF (Bplus mode_NE x y).
Proof.
  destruct x as [sx|sx| |sx mx ex Bx], y as [sy|sy| |sy my ey By];
    try reflexivity; try (simpl; now case Bool.eqb).
  apply binary_normalize_equiv.
Qed.

Lemma sub_equiv (x y : bfloat) : f64_sub (B2SF x) (B2SF y) = B2SF (Bminus mode_NE x y).
Proof.
  destruct x as [sx|sx| |sx mx ex Bx], y as [sy|sy| |sy my ey By];
    try reflexivity; try (simpl; now case Bool.eqb).
  unfold f64_sub. simpl. unfold Zminus. rewrite <- cond_Zopp_negb. apply binary_normalize_equiv.
Qed.

Lemma mul_equiv (x y : bfloat) : f64_mul (B2SF x) (B2SF y) = B2SF (Bmult mode_NE x y).
Proof.
  destruct x as [sx|sx| |sx mx ex Bx], y as [sy|sy| |sy my ey By]; try reflexivity.
  simpl. rewrite B2SF_SF2B. apply binary_round_aux_equiv.
Qed.

Lemma div_equiv (x y : bfloat) : f64_div (B2SF x) (B2SF y) = B2SF (Bdiv mode_NE x y).
Proof.
  destruct x as [sx|sx| |sx mx ex Bx], y as [sy|sy| |sy my ey By]; try reflexivity.
  simpl. rewrite B2SF_SF2B. unfold f64_div. simpl.
  set (melz := SFdiv_core_binary _ _ _ _ _ _). case melz as [[mz ez] lz].
  apply binary_round_aux_equiv.
Qed.

Definition finite (x : f64) : Prop := is_finite_SF x = true.

Lemma of_valid x (H : valid x) : B2SF (SF2B x H) = x.
Proof. apply B2SF_SF2B. Qed.

Lemma R_of_B2SF (b : bfloat) : R_of (B2SF b) = B2R b.
Proof. apply SF2R_B2SF. Qed.

Lemma finite_B2SF (b : bfloat) : finite (B2SF b) <-> is_finite b = true.
Proof. unfold finite. now rewrite is_finite_SF_B2SF. Qed.

Lemma fits_dec r : {fits r} + {~ fits r}.
Proof. unfold fits. destruct (Rlt_dec (Rabs (rnd r)) (bpow radix2 emax)); auto. Qed.

(** ** + - * div are correctly rounded (round to nearest, ties to even), overflow gives an infinity *)
Theorem add_correctly_rounded x y : valid x -> valid y -> finite x -> finite y ->
  valid (f64_add x y) /\
  (fits (R_of x + R_of y) -> R_of (f64_add x y) = rnd (R_of x + R_of y) /\ finite (f64_add x y)) /\
  (~ fits (R_of x + R_of y) -> exists s, f64_add x y = S754_infinity s).
Proof.
  intros Hx Hy Fx Fy. rewrite <- (of_valid x Hx), <- (of_valid y Hy) in *.
  set (bx := SF2B x Hx) in *. set (by_ := SF2B y Hy) in *.
  rewrite add_equiv, !R_of_B2SF. apply finite_B2SF in Fx, Fy.
  split; [apply valid_binary_B2SF|].
  pose proof (Bplus_correct prec emax Hprec Hmax mode_NE bx by_ Fx Fy) as H.
  unfold fits, rnd.
  destruct (Rlt_bool_spec (Rabs (round radix2 (SpecFloat.fexp prec emax) (round_mode mode_NE) (B2R bx + B2R by_))) (bpow radix2 emax)) as [Hlt|Hge].
  - destruct H as (H1 & H2 & _). split; [intros _|intros Hn; now elim Hn].
    split; [exact H1|now apply finite_B2SF].
  - destruct H as [H1 _]. change (round_mode mode_NE) with ZnearestE in Hge.
    split; [intros Hf; exfalso; lra|intros _]. rewrite H1. now eexists.
Qed.

Theorem sub_correctly_rounded x y : valid x -> valid y -> finite x -> finite y ->
  valid (f64_sub x y) /\
  (fits (R_of x - R_of y) -> R_of (f64_sub x y) = rnd (R_of x - R_of y) /\ finite (f64_sub x y)) /\
  (~ fits (R_of x - R_of y) -> exists s, f64_sub x y = S754_infinity s).
Proof.
  intros Hx Hy Fx Fy. rewrite <- (of_valid x Hx), <- (of_valid y Hy) in *.
  set (bx := SF2B x Hx) in *. set (by_ := SF2B y Hy) in *.
  rewrite sub_equiv, !R_of_B2SF. apply finite_B2SF in Fx, Fy.
  split; [apply valid_binary_B2SF|].
  pose proof (Bminus_correct prec emax Hprec Hmax mode_NE bx by_ Fx Fy) as H.
  unfold fits, rnd.
  destruct (Rlt_bool_spec (Rabs (round radix2 (SpecFloat.fexp prec emax) (round_mode mode_NE) (B2R bx - B2R by_))) (bpow radix2 emax)) as [Hlt|Hge].
  - destruct H as (H1 & H2 & _). split; [intros _|intros Hn; now elim Hn].
    split; [exact H1|now apply finite_B2SF].
  - destruct H as [H1 _]. change (round_mode mode_NE) with ZnearestE in Hge.
    split; [intros Hf; exfalso; lra|intros _]. rewrite H1. now eexists.
Qed.

Theorem mul_correctly_rounded x y : valid x -> valid y ->
  valid (f64_mul x y) /\
  (fits (R_of x * R_of y) -> R_of (f64_mul x y) = rnd (R_of x * R_of y)) /\
  (~ fits (R_of x * R_of y) -> exists s, f64_mul x y = S754_infinity s).
Proof.
  intros Hx Hy. rewrite <- (of_valid x Hx), <- (of_valid y Hy) in *.
  set (bx := SF2B x Hx) in *. set (by_ := SF2B y Hy) in *.
  rewrite mul_equiv, !R_of_B2SF.
  split; [apply valid_binary_B2SF|].
  pose proof (Bmult_correct prec emax Hprec Hmax mode_NE bx by_) as H.
  unfold fits, rnd.
  destruct (Rlt_bool_spec (Rabs (round radix2 (SpecFloat.fexp prec emax) (round_mode mode_NE) (B2R bx * B2R by_))) (bpow radix2 emax)) as [Hlt|Hge].
  - destruct H as (H1 & _). split; [intros _; exact H1|intros Hn; now elim Hn].
  - change (round_mode mode_NE) with ZnearestE in Hge.
    split; [intros Hf; exfalso; lra|intros _]. rewrite H. now eexists.
Qed.

Theorem div_correctly_rounded x y : valid x -> valid y -> R_of y <> 0%R ->
  valid (f64_div x y) /\
  (fits (R_of x / R_of y) -> R_of (f64_div x y) = rnd (R_of x / R_of y)) /\
  (~ fits (R_of x / R_of y) -> exists s, f64_div x y = S754_infinity s).
Proof.
  intros Hx Hy Hy0. rewrite <- (of_valid x Hx), <- (of_valid y Hy) in *.
  set (bx := SF2B x Hx) in *. set (by_ := SF2B y Hy) in *.
  rewrite div_equiv. rewrite !R_of_B2SF in *.
  split; [apply valid_binary_B2SF|].
  pose proof (Bdiv_correct prec emax Hprec Hmax mode_NE bx by_ Hy0) as H.
  unfold fits, rnd.
  destruct (Rlt_bool_spec (Rabs (round radix2 (SpecFloat.fexp prec emax) (round_mode mode_NE) (B2R bx / B2R by_))) (bpow radix2 emax)) as [Hlt|Hge].
  - destruct H as (H1 & _). split; [intros _; exact H1|intros Hn; now elim Hn].
  - change (round_mode mode_NE) with ZnearestE in Hge.
    split; [intros Hf; exfalso; lra|intros _]. rewrite H. now eexists.
Qed.

(** closure: the results of the four operations are IEEE doubles *)
Corollary arith_valid x y : valid x -> valid y ->
  valid (f64_add x y) /\ valid (f64_sub x y) /\ valid (f64_mul x y) /\ valid (f64_div x y).
Proof.
  intros Hx Hy. rewrite <- (of_valid x Hx), <- (of_valid y Hy).
  rewrite add_equiv, sub_equiv, mul_equiv, div_equiv. repeat split; apply valid_binary_B2SF.
Qed.

(** ** decimal -> binary64 is correctly rounded *)
Lemma new_location_equiv d r : 0 < d ->
  SpecFloat.new_location d r = Bracket.new_location d r loc_Exact.
Proof.
  intros Hd. destruct d as [|p|p]; try lia.
  case p as [p'|p'|]; [reflexivity| |reflexivity].
  unfold Bracket.new_location, SpecFloat.new_location; simpl.
  unfold Bracket.new_location_even, SpecFloat.new_location_even; simpl.
  now case Zeq_bool; [|case r as [|rp|rp]; case Z.compare].
Qed.

Lemma mag_ratio_ge n d : 0 < n -> 0 < d ->
  (Z.log2 n - Z.log2 d <= mag radix2 (IZR n / IZR d))%Z.
Proof.
  intros Hn Hd. apply mag_ge_bpow.
  pose proof (Z.log2_spec n Hn) as [Hn1 _]. pose proof (Z.log2_spec d Hd) as [_ Hd2].
  pose proof (Z.log2_nonneg n). pose proof (Z.log2_nonneg d).
  assert (Hn' : (bpow radix2 (Z.log2 n) <= IZR n)%R).
  { rewrite <- IZR_Zpower by assumption. now apply IZR_le. }
  assert (Hd' : (IZR d < bpow radix2 (Z.log2 d + 1))%R).
  { rewrite <- IZR_Zpower by lia. apply IZR_lt. now rewrite <- Z.add_1_r in Hd2. }
  assert (Hd0 : (0 < IZR d)%R) by now apply IZR_lt.
  rewrite Rabs_pos_eq by (apply Rlt_le, Rdiv_lt_0_compat; [apply IZR_lt; lia|assumption]).
  replace (Z.log2 n - Z.log2 d - 1)%Z with (Z.log2 n - (Z.log2 d + 1))%Z by lia.
  unfold Zminus at 1. rewrite bpow_plus, bpow_opp.
  apply Rlt_le. apply Rle_lt_trans with (IZR n * / bpow radix2 (Z.log2 d + 1))%R.
  - apply Rmult_le_compat_r; [apply Rlt_le, Rinv_0_lt_compat, bpow_gt_0|exact Hn'].
  - unfold Rdiv. apply Rmult_lt_compat_l; [apply IZR_lt; lia|].
    apply Rinv_lt_contravar; [apply Rmult_lt_0_compat; [assumption|apply bpow_gt_0]|assumption].
Qed.

Definition signed (neg : bool) (r : R) : R := if neg then (- r)%R else r.

Theorem of_ratio_correct neg n d : 0 < n -> 0 < d ->
  let x := signed neg (IZR n / IZR d) in
  valid (f64_of_ratio neg n d) /\
  (fits x -> R_of (f64_of_ratio neg n d) = rnd x /\ finite (f64_of_ratio neg n d)) /\
  (~ fits x -> f64_of_ratio neg n d = S754_infinity neg).
Proof.
  intros Hn Hd x. unfold f64_of_ratio.
  destruct (Z.leb_spec n 0) as [H0|_]; [lia|].
  set (s := Z.max 0 (64 + Z.log2 d - Z.log2 n)).
  assert (Hs : 0 <= s) by (unfold s; lia).
  pose proof (Fdiv_core_correct radix2 n 0 d 0 (- s) Hn Hd) as Hb.
  unfold Fdiv_core in Hb. rewrite Zle_bool_true in Hb by lia.
  replace (0 - 0 - - s) with s in Hb by lia.
  change (Zpower radix2 s) with (2 ^ s) in Hb.
  destruct (Z.div_eucl (n * 2 ^ s) d) as [q r].
  rewrite <- new_location_equiv in Hb by assumption.
  assert (HF : forall m, F2R (Float radix2 m 0) = IZR m) by (intros m; unfold F2R; simpl; ring).
  rewrite !HF in Hb.
  assert (Hr0 : (0 < IZR n / IZR d)%R) by (apply Rdiv_lt_0_compat; apply IZR_lt; assumption).
  assert (Hsign : Rlt_bool x 0 = neg).
  { unfold x, signed. destruct neg; [apply Rlt_bool_true; lra|apply Rlt_bool_false; lra]. }
  assert (Habs : Rabs x = (IZR n / IZR d)%R).
  { unfold x, signed. destruct neg; [rewrite Rabs_Ropp|]; apply Rabs_pos_eq; lra. }
  rewrite binary_round_aux_equiv. rewrite <- Hsign.
  pose proof (binary_round_aux_correct' prec emax Hprec Hmax mode_NE x q (- s) (SpecFloat.new_location d r)) as H.
  assert (Hx0 : x <> 0%R) by (unfold x, signed; destruct neg; lra).
  rewrite Habs in H. specialize (H Hx0 Hb).
  assert (Hce : - s <= cexp radix2 (SpecFloat.fexp prec emax) x).
  { unfold cexp. rewrite <- mag_abs, Habs. pose proof (mag_ratio_ge n d Hn Hd) as Hm.
    unfold SpecFloat.fexp, prec. unfold s. lia. }
  specialize (H Hce). cbv zeta in H. destruct H as [Hv H]. split; [exact Hv|].
  unfold fits, rnd.
  destruct (Rlt_bool_spec (Rabs (round radix2 (SpecFloat.fexp prec emax) (round_mode mode_NE) x)) (bpow radix2 emax)) as [Hlt|Hge].
  - destruct H as (H1 & H2 & _). split; [intros _; split; assumption|intros Hn'; now elim Hn'].
  - change (round_mode mode_NE) with ZnearestE in Hge.
    split; [intros Hf; exfalso; lra|intros _]. rewrite H. reflexivity.
Qed.

Lemma pow10_pos k : 0 <= k -> 0 < 10 ^ k.
Proof. intros. apply Z.pow_pos_nonneg; lia. Qed.

Theorem of_decimal_valid neg D k : valid (f64_of_decimal neg D k).
Proof.
  unfold f64_of_decimal.
  destruct (Z.leb_spec D 0); [reflexivity|].
  destruct (Z.ltb_spec 310 k); [reflexivity|].
  destruct (Z.ltb_spec (k + Z.log2 D / 3 + 1) (-330)); [reflexivity|].
  destruct (Z.leb_spec 0 k).
  - apply of_ratio_correct; [|lia]. apply Z.mul_pos_pos; [lia|now apply pow10_pos].
  - apply of_ratio_correct; [lia|]. apply pow10_pos. lia.
Qed.

Definition ten : radix := Build_radix 10 eq_refl.

(** outside the two cut-offs, [f64_of_decimal neg D k] is the double nearest to (-1)^neg * D * 10^k
    (ties to even), or the infinity when that rounds beyond the largest double *)
Theorem of_decimal_correctly_rounded neg D k : 0 < D -> k <= 310 -> -330 <= k + Z.log2 D / 3 + 1 ->
  let x := signed neg (IZR D * bpow ten k) in
  (fits x -> R_of (f64_of_decimal neg D k) = rnd x /\ finite (f64_of_decimal neg D k)) /\
  (~ fits x -> f64_of_decimal neg D k = S754_infinity neg).
Proof.
  intros HD Hk1 Hk2 x. unfold f64_of_decimal.
  destruct (Z.leb_spec D 0); [lia|].
  destruct (Z.ltb_spec 310 k); [lia|].
  destruct (Z.ltb_spec (k + Z.log2 D / 3 + 1) (-330)); [lia|].
  destruct (Z.leb_spec 0 k) as [Hk|Hk].
  - assert (Hn : 0 < D * 10 ^ k) by (apply Z.mul_pos_pos; [lia|now apply pow10_pos]).
    destruct (of_ratio_correct neg (D * 10 ^ k) 1 Hn ltac:(lia)) as (_ & HR).
    replace (signed neg (IZR (D * 10 ^ k) / IZR 1)) with x in HR; [exact HR|].
    unfold x. f_equal. rewrite mult_IZR. change (10 ^ k) with (Zpower ten k).
    rewrite IZR_Zpower by assumption. field.
  - assert (Hd : 0 < 10 ^ (- k)) by (apply pow10_pos; lia).
    destruct (of_ratio_correct neg D (10 ^ (- k)) HD Hd) as (_ & HR).
    replace (signed neg (IZR D / IZR (10 ^ (- k)))) with x in HR; [exact HR|].
    unfold x. f_equal. change (10 ^ (- k)) with (Zpower ten (- k)).
    rewrite IZR_Zpower by lia. rewrite bpow_opp. unfold Rdiv. now rewrite Rinv_inv.
Qed.

(** ** every number denoted by an XPath value is an IEEE double *)
Theorem string_to_number_valid s : valid (xp_string_to_number s).
Proof.
  unfold xp_string_to_number. destruct (xp_parse_number s) as [[[neg D] k]|]; [|reflexivity].
  apply of_decimal_valid.
Qed.

Theorem valid_numbers_ieee args :
  (forall x, In (VNum x) args -> valid x) -> valid_numbers args.
Proof.
  intros H. unfold valid_numbers. apply Forall_forall. intros v Hv.
  destruct v as [b|x|s|l]; cbn [xp_number].
  - destruct b; reflexivity.
  - now apply H.
  - apply string_to_number_valid.
  - apply string_to_number_valid.
Qed.

(** [fn_refines_known] for arguments whose numbers are IEEE doubles *)
Corollary fn_refines_ieee cs f args :
  arity_ok f args -> scalar_args args -> (forall x, In (VNum x) args -> valid x) ->
  known_D34b f args = false -> model_fn cs f args = spec_fn cs f args.
Proof.
  intros Ha Hs Hv Hk. apply fn_refines_known; try assumption. now apply valid_numbers_ieee.
Qed.
