(** * C13: the abstraction function from the stores of the model to the abstract DOM of
    Spec/DomL1.v, the translation of operations and of outcomes.  Definitions only. *)
From Coq Require Import List NArith Bool.
From XmlRs Require Import Base.CPred Model.Store Model.DomOps.
From XmlRs Require Spec.DomCharData Spec.DomL1.
Import ListNotations.
Open Scope N_scope.

Definition abs_type (k : kind) : DomL1.ntype :=
  match k with
  | KDoc => DomL1.TDocument | KEl => DomL1.TElement | KAt => DomL1.TAttr | KTx => DomL1.TText
  | KCd => DomL1.TCData | KCr => DomL1.TCharRef | KEr => DomL1.TEntityRef | KPi => DomL1.TPi
  | KCm => DomL1.TComment | KDt => DomL1.TDoctype | KFr => DomL1.TFragment
  end.

(** nodeName: the qualified name of an element / attribute, the target, the entity name *)
Definition abs_name (it : item) : str :=
  match ikind it with
  | KEl | KAt => qname it
  | KPi | KEr | KCr | KDt => ilocal it
  | _ => []
  end.

Definition abs_value (it : item) : str :=
  match ikind it with
  | KTx | KCd | KCm | KPi | KCr => idata it
  | _ => []
  end.

(** the entity table of a doctype item: [0 :: name] = declared but not usable in attribute values *)
Definition abs_ent (e : str) : str * bool :=
  match e with
  | 0 :: n => (n, false)
  | n => (n, true)
  end.

Definition abs_item (it : item) : DomL1.anode :=
  DomL1.mkNode (abs_type (ikind it)) (abs_name it) (abs_value it) (iparent it) (ichildren it) (iattrs it)
               (map abs_ent (ients it)).

(** one table entry per identifier handed out so far *)
Definition abs_store (s : store) : DomL1.adoc :=
  DomL1.mkDoc (map (fun i => option_map abs_item (get s (N.of_nat i))) (seq 0 (N.to_nat (next s)))) (sroot s).

Definition abs (w : world) : DomL1.adom := map abs_store (docs w).

(** operations: the facts are dropped, the strings stay *)
Definition abs_op (o : op) : option DomL1.aop :=
  match o with
  | AppendChild r n => Some (DomL1.AAppendChild r n)
  | InsertBefore r n f => Some (DomL1.AInsertBefore r n f)
  | ReplaceChild r n x => Some (DomL1.AReplaceChild r n x)
  | RemoveChild r x => Some (DomL1.ARemoveChild r x)
  | SetAttribute r n v => Some (DomL1.ASetAttribute r (n_str n) (d_str v))
  | SetAttributeNode r a => Some (DomL1.ASetAttributeNode r a)
  | RemoveAttribute r n => Some (DomL1.ARemoveAttribute r n)
  | RemoveAttributeNode r a => Some (DomL1.ARemoveAttributeNode r a)
  | SetNamedItem r a => Some (DomL1.ASetNamedItem r a)
  | RemoveNamedItem r n => Some (DomL1.ARemoveNamedItem r n)
  | CreateElement d n => Some (DomL1.ACreateElement d (n_str n))
  | CreateAttribute d n => Some (DomL1.ACreateAttribute d (n_str n))
  | CreateTextNode d v => Some (DomL1.ACreateTextNode d (d_str v))
  | CreateComment d v => Some (DomL1.ACreateComment d (d_str v))
  | CreateCDataSection d v => Some (DomL1.ACreateCDataSection d (d_str v))
  | CreateProcessingInstruction d t v => Some (DomL1.ACreateProcessingInstruction d (n_str t) (d_str v))
  | CreateEntityReference d n => Some (DomL1.ACreateEntityReference d (n_str n))
  | CreateDocumentFragment d => Some (DomL1.ACreateDocumentFragment d)
  | SetNodeValue r v => Some (DomL1.ASetNodeValue r (d_str v))
  | SetData r v => Some (DomL1.ASetData r (d_str v))
  | AppendData r v => Some (DomL1.AAppendData r (d_str v))
  | InsertData r off v => Some (DomL1.AInsertData r off (d_str v))
  | DeleteData r off cnt => Some (DomL1.ADeleteData r off cnt)
  | ReplaceData r off cnt v => Some (DomL1.AReplaceData r off cnt (d_str v))
  | SplitText r off => Some (DomL1.ASplitText r off)
  | PISetData r v => Some (DomL1.APISetData r (d_str v))
  | Query _ => None
  end.

Definition exc_class (e : exc) : DomL1.aexc :=
  match e with
  | IndexSizeErr => DomL1.Dom DomCharData.IndexSizeErr
  | HierarchyRequestErr => DomL1.Dom DomCharData.HierarchyRequestErr
  | WrongDocumentErr => DomL1.Dom DomCharData.WrongDocumentErr
  | InvalidCharacterErr => DomL1.Dom DomCharData.InvalidCharacterErr
  | NoDataAllowedErr => DomL1.Dom DomCharData.NoDataAllowedErr
  | NotFoundErr => DomL1.Dom DomCharData.NotFoundErr
  | InuseAttributeErr => DomL1.Dom DomCharData.InuseAttributeErr
  | InfoErr => DomL1.Refused
  end.

Definition outcome_class (o : outcome) : DomL1.aoutcome :=
  match o with
  | Ok RUnit => DomL1.ADone DomL1.AUnit
  | Ok RNone => DomL1.ADone DomL1.ANull
  | Ok (RNode n) => DomL1.ADone (DomL1.ANode n)
  | Failed e => DomL1.ARaised (exc_class e)
  | Panicked => DomL1.APanicked
  | NotApplicable => DomL1.ANotOffered
  end.

(** the statement of refinement for one call: the model conforms to the specification *)
Definition refines_on (w : world) (o : op) (ao : DomL1.aop) : Prop :=
  abs (fst (step w o)) = fst (DomL1.dom_step (abs w) ao)
  /\ outcome_class (snd (step w o)) = snd (DomL1.dom_step (abs w) ao).
