(** * C16: the model of the character-data code refines DOM Level 1.

    Everything here is universally quantified over strings, offsets, counts, arguments and
    histories; the only computations are the closed witnesses of the refutations of the
    pinned code and the satisfiability examples. *)
From Coq Require Import List NArith Lia Bool.
From XmlRs Require Import Base.CPred Base.NList Spec.XmlChars Spec.DomCharData Model.CharData.
Import ListNotations.
Open Scope N_scope.

(** ** the validity checks of the code are the storability predicates of XML 1.0 *)

Lemma is_xml_char_spec c : is_xml_char c = isChar c.
Proof.
  unfold is_xml_char, isChar, spec_Char. cbn [eval existsb]. unfold CPred.in_range. cbn [fst snd].
  rewrite orb_false_r. apply eq_iff_eq_true.
  rewrite !orb_true_iff, !andb_true_iff, !N.eqb_eq, !N.leb_le, !N.ltb_lt. lia.
Qed.

Lemma prefix_of_spec p : forall s, prefix_of p s = starts_with p s.
Proof. induction p as [|a p IH]; intros [|b s]; cbn [prefix_of starts_with]; try reflexivity; now rewrite IH. Qed.

Lemma has_sub_spec p s : has_sub p s = contains p s.
Proof. induction s as [|b s IH]; cbn [has_sub contains]; rewrite prefix_of_spec; [reflexivity|]. now rewrite IH. Qed.

Lemma forallb_ext_eq {A} (f g : A -> bool) l : (forall x, f x = g x) -> forallb f l = forallb g l.
Proof. intros H. induction l as [|x l IH]; cbn [forallb]; [reflexivity|]. now rewrite H, IH. Qed.

Lemma check_text_spec s : check_text s = storable_text s.
Proof.
  unfold check_text, storable_text, has_cdend, cdend. rewrite has_sub_spec. f_equal.
  apply forallb_ext_eq. intros c. now rewrite is_xml_char_spec.
Qed.

Lemma check_cdata_spec s : check_cdata s = storable_cdata s.
Proof.
  unfold check_cdata, storable_cdata, has_cdend, cdend. rewrite has_sub_spec. f_equal.
  apply forallb_ext_eq. intros c. now rewrite is_xml_char_spec.
Qed.

(** one step of the three ingredients of [check_comment] *)
Lemma dh_cons c s : has_double_hyphen (c :: s) =
  ((45 =? c) && match s with d :: _ => 45 =? d | [] => false end) || has_double_hyphen s.
Proof.
  unfold has_double_hyphen. cbn [has_sub prefix_of]. f_equal.
  destruct s as [|d s']; cbn [prefix_of]; [reflexivity|]. now rewrite andb_true_r.
Qed.

Lemma eh_cons c s : ends_with_hyphen (c :: s) = match s with [] => c =? 45 | _ => ends_with_hyphen s end.
Proof. destruct s; reflexivity. Qed.

Lemma eh_match s : match s with [] => false | _ :: _ => ends_with_hyphen s end = ends_with_hyphen s.
Proof. destruct s; reflexivity. Qed.

Lemma check_comment_spec_len : forall n s, (length s <= n)%nat -> check_comment s = storable_comment s.
Proof.
  induction n as [|n IH]; intros s Hlen.
  - destruct s; [reflexivity|cbn [length] in Hlen; lia].
  - destruct s as [|c s']; [reflexivity|]. cbn [length] in Hlen.
    unfold check_comment. cbn [forallb storable_comment]. rewrite dh_cons, eh_cons.
    destruct (N.eqb_spec c 45) as [->|Hc].
    + (* a hyphen must be followed by a character that is not a hyphen *)
      destruct s' as [|d s''].
      * cbn [negb]. now rewrite andb_false_r.
      * cbn [length] in Hlen. cbn [forallb]. rewrite dh_cons, eh_cons.
        rewrite <- (IH s'') by lia. unfold check_comment.
        rewrite (is_xml_char_spec d). rewrite (N.eqb_sym 45 d).
        replace (is_xml_char 45) with true by reflexivity.
        replace (45 =? 45) with true by reflexivity.
        destruct (N.eqb_spec d 45) as [->|Hd].
        -- cbn [andb orb negb]. now rewrite !andb_false_r.
        -- cbn [andb orb negb]. rewrite eh_match.
           destruct (isChar d), (forallb is_xml_char s''), (has_double_hyphen s''),
             (ends_with_hyphen s''); reflexivity.
    + rewrite <- (IH s') by lia. unfold check_comment. rewrite (is_xml_char_spec c).
      rewrite (N.eqb_sym 45 c). destruct (N.eqb_spec c 45) as [|_]; [contradiction|].
      cbn [andb orb]. rewrite eh_match. 
      destruct (isChar c), (forallb is_xml_char s'), (has_double_hyphen s'),
             (ends_with_hyphen s'); reflexivity.
Qed.

Lemma check_comment_spec s : check_comment s = storable_comment s.
Proof. apply (check_comment_spec_len (length s)). lia. Qed.

Theorem check_is_storable k s : check k s = storable k s.
Proof.
  destruct k; cbn [check storable];
    auto using check_text_spec, check_comment_spec, check_cdata_spec.
Qed.

(** ** the dom functions, one by one *)

Definition embed (o : outcome) : mres :=
  match o with
  | Done v st => MDone v st
  | Raised e st => MRaised e st
  | NotOffered st => MNotOffered st
  end.

Definition mlift (st : cdstate) (r : option str) : mres :=
  match r with
  | Some d => MDone VUnit (with_data st d)
  | None => MRaised IndexSizeErr st
  end.

Lemma embed_lift st r : embed (lift st r) = mlift st r.
Proof. destruct r; reflexivity. Qed.

Lemma sat_add_ge a b : a <= usize_max -> a <= saturating_add a b.
Proof. unfold saturating_add. lia. Qed.

(** [substring_data] *)
Lemma m_substring_data_spec k st off cnt :
  len (data st) <= usize_max -> off <= usize_max -> cnt <= usize_max ->
  m_substring_data Repaired Debug k st off cnt =
  match dom_substring (data st) off cnt with
  | Some r => MDone (VStr r) st
  | None => MRaised IndexSizeErr st
  end.
Proof.
  intros Hl Ho Hc. unfold m_substring_data, dom_substring, m_length, info_len.
  destruct (N.ltb_spec (len (data st)) off) as [H|H]; [reflexivity|].
  assert (Hd : len (drop off (data st)) = len (data st) - off) by apply len_drop.
  (* text, comment, CDATA: offset.saturating_add(count), then end - start;
     the merged view: skip / take without arithmetic *)
  destruct k; cbn [add_site]; unfold info_substring, usize_sub, saturating_add;
    destruct (N.leb_spec off (N.min (off + cnt) usize_max)) as [_|Hbad]; try lia;
    destruct (N.ltb_spec (len (data st)) (off + cnt)) as [H2|H2];
    [ f_equal; f_equal; apply take_all; lia
    | f_equal; f_equal; f_equal; lia
    | f_equal; f_equal; apply take_all; lia
    | f_equal; f_equal; f_equal; lia
    | f_equal; f_equal; apply take_all; lia
    | f_equal; f_equal; f_equal; lia
    | f_equal; f_equal; apply take_all; lia
    | reflexivity ].
Qed.

(** [insert_data] *)
Lemma m_insert_data_spec k st off arg :
  m_insert_data k st off arg =
  if len (data st) <? off then MRaised IndexSizeErr st
  else if check k arg then MDone VUnit (with_data st (take off (data st) ++ arg ++ drop off (data st)))
  else MInvalidArg st.
Proof.
  unfold m_insert_data, insert_char_at, m_length, info_len.
  destruct (N.ltb_spec (len (data st)) off) as [H|H]; [reflexivity|].
  destruct (check k arg); [|reflexivity].
  destruct (N.ltb_spec off (len (data st))) as [H2|H2]; [reflexivity|].
  assert (off = len (data st)) as -> by lia. reflexivity.
Qed.

Lemma m_insert_data_ok k st off arg :
  check k arg = true ->
  m_insert_data k st off arg = mlift st (dom_insert (data st) off arg).
Proof.
  intros Hc. rewrite m_insert_data_spec, Hc. unfold dom_insert.
  destruct (len (data st) <? off); reflexivity.
Qed.

(** [delete_data] (repaired): clips, never overflows *)
Lemma m_delete_data_spec st off cnt :
  len (data st) <= usize_max -> off <= usize_max -> cnt <= usize_max ->
  m_delete_data Repaired Debug st off cnt = mlift st (dom_delete (data st) off cnt).
Proof.
  intros Hl Ho Hc. unfold m_delete_data, dom_delete, m_length, info_len.
  destruct (N.ltb_spec (len (data st)) off) as [H|H]; [reflexivity|].
  unfold delete_char_range. cbn [add_site]. unfold saturating_add.
  set (n := len (data st)) in *.
  assert (Ha : (if off <? n then off else n) = off).
  { destruct (N.ltb_spec off n); lia. }
  rewrite Ha.
  destruct (N.ltb_spec n (off + cnt)) as [H2|H2].
  - (* the count runs past the end: everything from offset on goes *)
    destruct (N.ltb_spec (N.min (off + cnt) usize_max) n) as [H3|H3]; [lia|].
    destruct (N.ltb_spec n off) as [H4|H4]; [lia|].
    replace (n <? n) with false by (symmetry; apply N.ltb_irrefl). cbn [orb mlift].
    rewrite (drop_all n (data st)) by (subst n; lia). now rewrite app_nil_r.
  - assert (Hm : N.min (off + cnt) usize_max = off + cnt) by lia. rewrite Hm.
    destruct (N.ltb_spec (off + cnt) n) as [H3|H3].
    + destruct (N.ltb_spec (off + cnt) off) as [H4|H4]; [lia|].
      destruct (N.ltb_spec n (off + cnt)) as [H5|H5]; [lia|]. reflexivity.
    + assert (Hn : n = off + cnt) by lia.
      destruct (N.ltb_spec n off) as [H4|H4]; [lia|].
      replace (n <? n) with false by (symmetry; apply N.ltb_irrefl). cbn [orb mlift].
      now rewrite Hn.
Qed.

Lemma len_take_le (s : str) off : off <= len s -> len (take off s) = off.
Proof. intros H. rewrite len_take. lia. Qed.

(** [replace_data] = [delete_data] then [insert_data] *)
Lemma m_replace_data_ok k st off cnt arg :
  len (data st) <= usize_max -> off <= usize_max -> cnt <= usize_max -> check k arg = true ->
  m_replace_data Repaired Debug k st off cnt arg = mlift st (dom_replace (data st) off cnt arg).
Proof.
  intros Hl Ho Hc Hk. unfold m_replace_data. rewrite m_delete_data_spec by assumption.
  unfold dom_delete, dom_replace.
  destruct (N.ltb_spec (len (data st)) off) as [H|H]; [reflexivity|].
  assert (Ht : len (take off (data st)) = off) by (apply len_take_le; lia).
  destruct (N.ltb_spec (len (data st)) (off + cnt)) as [H2|H2]; cbn [mlift].
  - rewrite m_insert_data_ok by assumption. unfold dom_insert. cbn [with_data data following].
    rewrite Ht. rewrite N.ltb_irrefl. cbn [mlift with_data data following].
    rewrite (take_all off (take off (data st))) by lia.
    rewrite (drop_all off (take off (data st))) by lia. now rewrite app_nil_r.
  - rewrite m_insert_data_ok by assumption. unfold dom_insert. cbn [with_data data following].
    rewrite len_app, Ht.
    destruct (N.ltb_spec (off + len (drop (off + cnt) (data st))) off) as [H3|H3]; [lia|].
    cbn [mlift with_data data following].
    pose proof (take_app_exact (take off (data st)) (drop (off + cnt) (data st))) as E1.
    pose proof (drop_app_exact (take off (data st)) (drop (off + cnt) (data st))) as E2.
    rewrite Ht in E1, E2. now rewrite E1, E2.
Qed.

(** when the argument is refused, [replace_data] has already deleted (D39; not a C16 matter) *)
Lemma m_replace_data_any k st off cnt arg :
  len (data st) <= usize_max -> off <= usize_max -> cnt <= usize_max ->
  m_replace_data Repaired Debug k st off cnt arg <> MPanic.
Proof.
  intros Hl Ho Hc. unfold m_replace_data. rewrite m_delete_data_spec by assumption.
  destruct (dom_delete (data st) off cnt); cbn [mlift]; [|discriminate].
  rewrite m_insert_data_spec.
  destruct (_ <? off); [discriminate|]. destruct (check k arg); discriminate.
Qed.

Lemma dom_replace_all (s arg : str) : dom_replace s 0 (len s) arg = Some arg.
Proof.
  unfold dom_replace. destruct (N.ltb_spec (len s) 0) as [H|_]; [lia|].
  rewrite N.add_0_l, N.ltb_irrefl, take_0. rewrite drop_all by lia. now rewrite app_nil_r.
Qed.

Lemma dom_insert_end (s arg : str) : dom_insert s (len s) arg = Some (s ++ arg).
Proof.
  unfold dom_insert. rewrite N.ltb_irrefl. rewrite take_all by lia. rewrite drop_all by lia.
  now rewrite app_nil_r.
Qed.

(** ** one call *)

Definition usize_args (c : call) : Prop :=
  match c with
  | Substring o n | Delete o n | Replace o n _ => o <= usize_max /\ n <= usize_max
  | Insert o _ | Split o => o <= usize_max
  | _ => True
  end.

Lemma implemented_offered k c : implemented k c = offered k c.
Proof. destruct k, c; reflexivity. Qed.

Theorem call_refines k st c :
  len (data st) <= usize_max -> usize_args c -> call_storable k c = true ->
  model_call k st c = embed (dom_call k st c).
Proof.
  intros Hl Ha Hs. unfold model_call, model_call_v, dom_call. rewrite implemented_offered.
  destruct (offered k c); cbn [negb]; [|reflexivity].
  unfold call_storable in Hs. rewrite <- check_is_storable in Hs.
  destruct c as [|off cnt|arg|off arg|off cnt|off cnt arg|arg|off]; cbn [usize_args arg_of] in *.
  - reflexivity.
  - destruct Ha. rewrite m_substring_data_spec by assumption.
    destruct (dom_substring (data st) off cnt); reflexivity.
  - unfold m_append_data, m_length, info_len. rewrite m_insert_data_ok by assumption.
    rewrite dom_insert_end. reflexivity.
  - rewrite m_insert_data_ok by assumption. now rewrite embed_lift.
  - destruct Ha. rewrite m_delete_data_spec by assumption. now rewrite embed_lift.
  - destruct Ha. rewrite m_replace_data_ok by assumption. now rewrite embed_lift.
  - unfold m_set_data, m_length, info_len.
    rewrite m_replace_data_ok; [|assumption|unfold usize_max; lia|assumption|assumption].
    rewrite dom_replace_all. reflexivity.
  - unfold m_split_text, dom_split, info_split_at, m_length, info_len.
    destruct (N.ltb_spec (len (data st)) off) as [H|H]; [reflexivity|].
    destruct (N.ltb_spec off (len (data st))) as [H2|H2]; [reflexivity|].
    assert (off = len (data st)) as -> by lia. reflexivity.
Qed.

Theorem call_no_panic k st c :
  len (data st) <= usize_max -> usize_args c -> model_call k st c <> MPanic.
Proof.
  intros Hl Ha. unfold model_call, model_call_v.
  destruct (implemented k c); cbn [negb]; [|discriminate].
  destruct c as [|off cnt|arg|off arg|off cnt|off cnt arg|arg|off]; cbn [usize_args] in *.
  - discriminate.
  - destruct Ha. rewrite m_substring_data_spec by assumption.
    destruct (dom_substring (data st) off cnt); discriminate.
  - unfold m_append_data. rewrite m_insert_data_spec.
    destruct (_ <? _); [discriminate|]. destruct (check k arg); discriminate.
  - rewrite m_insert_data_spec.
    destruct (_ <? _); [discriminate|]. destruct (check k arg); discriminate.
  - destruct Ha. rewrite m_delete_data_spec by assumption.
    destruct (dom_delete (data st) off cnt); discriminate.
  - destruct Ha. now apply m_replace_data_any.
  - unfold m_set_data, m_length, info_len.
    apply m_replace_data_any; [assumption|unfold usize_max; lia|assumption].
  - unfold m_split_text. destruct (_ <? _); [discriminate|].
    destruct (info_split_at (data st) off). discriminate.
Qed.

(** ** [split_text] *)

Theorem split_concat k st off d adj st' :
  model_call k st (Split off) = MDone (VNode d adj) st' ->
  data st' ++ d = data st
  /\ len (data st') = N.min off (len (data st))
  /\ following st' = d :: following st
  /\ adj = true.
Proof.
  unfold model_call, model_call_v. destruct (implemented k (Split off)); cbn [negb]; [|discriminate].
  unfold m_split_text, info_split_at, m_length, info_len.
  destruct (N.ltb_spec (len (data st)) off) as [H|H]; [discriminate|].
  intros E. injection E as <- <- <-. cbn [data following].
  assert (Hat : (if off <? len (data st) then off else len (data st)) = off).
  { destruct (N.ltb_spec off (len (data st))); lia. }
  rewrite Hat. repeat split.
  - apply take_drop.
  - apply len_take.
Qed.

(** the characters of the node and of the siblings after it, in document order *)
Definition text_of (st : cdstate) : str := data st ++ concat (following st).

Theorem split_preserves_text k st off r st' :
  model_call k st (Split off) = r -> mstate_of r = Some st' -> text_of st' = text_of st.
Proof.
  intros <-. unfold model_call, model_call_v.
  destruct (implemented k (Split off)); cbn [negb].
  2:{ cbn [mstate_of]. now intros [= <-]. }
  unfold m_split_text, info_split_at.
  destruct (_ <? off).
  - cbn [mstate_of]. now intros [= <-].
  - cbn [mstate_of]. intros [= <-]. unfold text_of. cbn [data following concat].
    now rewrite app_assoc, take_drop.
Qed.

(** ** histories *)

Fixpoint args_len (cs : list call) : N :=
  match cs with [] => 0 | c :: cs' => len (arg_of c) + args_len cs' end.

(** no call makes the data longer than the old data plus its argument *)
Lemma dom_call_len k st c : len (data (state_of (dom_call k st c))) <= len (data st) + len (arg_of c).
Proof.
  unfold dom_call. destruct (offered k c); cbn [negb state_of]; [|lia].
  destruct c as [|off cnt|arg|off arg|off cnt|off cnt arg|arg|off]; cbn [arg_of state_of].
  - lia.
  - destruct (dom_substring _ _ _); cbn [state_of]; lia.
  - cbn [set_data_of data]. unfold dom_append. rewrite len_app. lia.
  - unfold dom_insert. destruct (_ <? off); cbn [lift state_of set_data_of data]; [lia|].
    rewrite !len_app, len_take, len_drop. lia.
  - unfold dom_delete. destruct (_ <? off); cbn [lift state_of]; [lia|].
    destruct (_ <? off + cnt); cbn [lift state_of set_data_of data];
      rewrite ?len_app, ?len_take, ?len_drop; lia.
  - unfold dom_replace. destruct (_ <? off); cbn [lift state_of]; [lia|].
    destruct (_ <? off + cnt); cbn [lift state_of set_data_of data];
      rewrite ?len_app, ?len_take, ?len_drop; lia.
  - cbn [set_data_of data]. lia.
  - unfold dom_split. destruct (_ <? off); cbn [state_of]; [lia|].
    cbn [data]. rewrite len_take. lia.
Qed.

Lemma embed_state o : mstate_of (embed o) = Some (state_of o).
Proof. destruct o; reflexivity. Qed.

Theorem run_refines k : forall cs st,
  len (data st) + args_len cs <= usize_max ->
  Forall (fun c => usize_args c /\ call_storable k c = true) cs ->
  model_run k st cs = map embed (dom_run k st cs).
Proof.
  induction cs as [|c cs IH]; intros st Hl Hall; [reflexivity|].
  inversion Hall as [|? ? [Ha Hs] Hrest]; subst.
  cbn [args_len] in Hl.
  unfold model_run. cbn [model_run_v dom_run map]. fold (model_call k st c).
  rewrite (call_refines k st c) by (try assumption; lia).
  rewrite embed_state. f_equal. apply IH; [|assumption].
  pose proof (dom_call_len k st c). lia.
Qed.

(** the same bound on the model side, without assuming that the arguments are storable
    (a refused [replace_data] leaves the data shorter: D39) *)
Lemma dom_delete_len (s d : str) off cnt : dom_delete s off cnt = Some d -> len d <= len s.
Proof.
  unfold dom_delete. destruct (_ <? off); [discriminate|].
  destruct (_ <? off + cnt); intros [= <-]; rewrite ?len_app, ?len_take, ?len_drop; lia.
Qed.

Lemma m_insert_data_len k st off arg st' :
  mstate_of (m_insert_data k st off arg) = Some st' -> len (data st') <= len (data st) + len arg.
Proof.
  rewrite m_insert_data_spec. destruct (_ <? off); cbn [mstate_of]; [intros [= <-]; lia|].
  destruct (check k arg); cbn [mstate_of]; intros [= <-]; [|lia].
  cbn [with_data data]. rewrite !len_app, len_take, len_drop. lia.
Qed.

Lemma m_replace_data_len k st off cnt arg st' :
  len (data st) <= usize_max -> off <= usize_max -> cnt <= usize_max ->
  mstate_of (m_replace_data Repaired Debug k st off cnt arg) = Some st' ->
  len (data st') <= len (data st) + len arg.
Proof.
  intros Hl Ho Hc. unfold m_replace_data. rewrite m_delete_data_spec by assumption.
  destruct (dom_delete (data st) off cnt) as [d|] eqn:E; cbn [mlift].
  - intros Hi. apply m_insert_data_len in Hi. cbn [with_data data] in Hi.
    apply dom_delete_len in E. lia.
  - cbn [mstate_of]. intros [= <-]. lia.
Qed.

Lemma model_call_len k st c st' :
  len (data st) <= usize_max -> usize_args c ->
  mstate_of (model_call k st c) = Some st' -> len (data st') <= len (data st) + len (arg_of c).
Proof.
  intros Hl Ha. unfold model_call, model_call_v.
  destruct (implemented k c); cbn [negb mstate_of]; [|intros [= <-]; lia].
  destruct c as [|off cnt|arg|off arg|off cnt|off cnt arg|arg|off]; cbn [usize_args arg_of] in *.
  - cbn [mstate_of]. intros [= <-]. lia.
  - destruct Ha. rewrite m_substring_data_spec by assumption.
    destruct (dom_substring _ _ _); cbn [mstate_of]; intros [= <-]; lia.
  - unfold m_append_data. apply m_insert_data_len.
  - apply m_insert_data_len.
  - destruct Ha. rewrite m_delete_data_spec by assumption.
    destruct (dom_delete (data st) off cnt) as [d|] eqn:E; cbn [mlift mstate_of]; intros [= <-].
    + cbn [with_data data]. apply dom_delete_len in E. lia.
    + lia.
  - destruct Ha. now apply m_replace_data_len.
  - unfold m_set_data, m_length, info_len.
    apply m_replace_data_len; [assumption|unfold usize_max; lia|assumption].
  - unfold m_split_text, info_split_at. destruct (_ <? off); cbn [mstate_of]; intros [= <-]; [lia|].
    cbn [data]. rewrite len_take. lia.
Qed.

Theorem run_no_panic k : forall cs st,
  len (data st) + args_len cs <= usize_max -> Forall usize_args cs ->
  ~ In MPanic (model_run k st cs).
Proof.
  induction cs as [|c cs IH]; intros st Hl Hall; [intros []|].
  inversion Hall as [|? ? Ha Hrest]; subst. cbn [args_len] in Hl.
  unfold model_run. cbn [model_run_v]. fold (model_call k st c). fold (model_run k).
  intros [Hp|Hin].
  - revert Hp. apply call_no_panic; [lia|assumption].
  - destruct (mstate_of (model_call k st c)) as [st'|] eqn:E; [|destruct Hin].
    apply model_call_len in E; [|lia|assumption].
    revert Hin. apply IH; [lia|assumption].
Qed.

(** ** the six-argument statement of the property *)

Definition usize_bounds (s : str) (off cnt : N) : Prop :=
  len s <= usize_max /\ off <= usize_max /\ cnt <= usize_max.

Lemma usize_args_mk op off cnt arg : off <= usize_max -> cnt <= usize_max -> usize_args (mk_call op off cnt arg).
Proof. destruct op; cbn [mk_call usize_args]; auto. Qed.

Theorem chardata_refines k s op off cnt arg :
  off < 2 ^ 64 -> cnt < 2 ^ 64 -> len s < 2 ^ 64 -> storable k arg = true ->
  model_cd k s op off cnt arg = embed (spec_cd k s op off cnt arg).
Proof.
  intros Ho Hc Hl Hs. unfold model_cd, spec_cd.
  assert (E : 2 ^ 64 = usize_max + 1) by reflexivity. rewrite E in *.
  apply call_refines; cbn [data].
  - lia.
  - apply usize_args_mk; lia.
  - unfold call_storable. destruct op; cbn [mk_call arg_of]; try assumption;
      destruct k; reflexivity.
Qed.

Theorem no_panic k s op off cnt arg :
  off < 2 ^ 64 -> cnt < 2 ^ 64 -> len s < 2 ^ 64 ->
  model_cd k s op off cnt arg <> MPanic.
Proof.
  intros Ho Hc Hl. unfold model_cd.
  assert (E : 2 ^ 64 = usize_max + 1) by reflexivity. rewrite E in *.
  apply call_no_panic; cbn [data]; [lia|apply usize_args_mk; lia].
Qed.

(** ** the pinned tree (before the `fix:` commit) violates the property: defect D47 *)

Definition abcd : str := [97; 98; 99; 100].

(** delete_data(1, 10) on "abcd": DOM deletes "bcd", the pinned code raises IndexSizeErr *)
Theorem pinned_refuted_clip :
  exists k s off cnt, usize_bounds s off cnt /\
    pinned_cd Debug k s ODelete off cnt [] <> embed (spec_cd k s ODelete off cnt []).
Proof.
  exists KText, abcd, 1, 10. split; [unfold usize_bounds, usize_max; cbn; lia|].
  vm_compute. discriminate.
Qed.

(** substring_data(1, usize::MAX) on "abcd": [offset + count] overflows, debug builds panic *)
Theorem pinned_refuted_panic :
  exists k s off cnt, usize_bounds s off cnt /\ pinned_cd Debug k s OSubstring off cnt [] = MPanic.
Proof.
  exists KText, abcd, 1, usize_max. split; [unfold usize_bounds, usize_max; cbn; lia|].
  vm_compute. reflexivity.
Qed.

(** release builds wrap instead: delete_data(1, usize::MAX) passes the length test with the
    wrapped sum 0 and then drains the range 1..0, which panics in every profile *)
Theorem pinned_release_refuted :
  exists k s off cnt, usize_bounds s off cnt /\ pinned_cd Release k s ODelete off cnt [] = MPanic.
Proof.
  exists KText, abcd, 1, usize_max. split; [unfold usize_bounds, usize_max; cbn; lia|].
  vm_compute. reflexivity.
Qed.

(** ** the hypotheses are satisfiable by non-trivial values *)

(** "a", HIRAGANA A (3 bytes), GRINNING FACE (4 bytes, astral), COMBINING ACUTE ACCENT *)
Definition sample : str := [97; 12354; 128512; 769].
Definition sample_arg : str := [233; 128512].

Example sample_in_scope :
  len sample < 2 ^ 64 /\ storable KText sample_arg = true /\ storable KComment sample_arg = true
  /\ storable KCData sample_arg = true.
Proof. vm_compute. repeat split; reflexivity. Qed.

(** replace_data(1, usize::MAX, arg): the count is clipped, the astral character survives *)
Example sample_replace :
  model_cd KCData sample OReplace 1 usize_max sample_arg
  = MDone VUnit (St [97; 233; 128512] []).
Proof. vm_compute. reflexivity. Qed.

Example sample_split :
  model_cd KText sample OSplit 2 0 [] = MDone (VNode [128512; 769] true) (St [97; 12354] [[128512; 769]]).
Proof. vm_compute. reflexivity. Qed.

Example sample_history_in_scope :
  let cs := [Split 2; Append sample_arg; Delete 1 usize_max; Substring 0 usize_max; Length] in
  len (data (St sample [])) + args_len cs <= usize_max
  /\ Forall (fun c => usize_args c /\ call_storable KText c = true) cs
  /\ model_run KText (St sample []) cs = map embed (dom_run KText (St sample []) cs).
Proof.
  cbn zeta. split; [vm_compute; discriminate|]. split.
  - repeat constructor; vm_compute; discriminate.
  - vm_compute. reflexivity.
Qed.
