(** * Model of the namespace machinery of xml-info / xml-dom / xml-xpath (property C10).

    What /repo does AFTER the fixes of branch agent-nsattr (D35, D58, D59), function by function:
      info  [XmlElement::{namespaces, in_scope_namespace, find_nameapce_uri}], [Element::namespace_name],
            [Attribute::namespace_name];
      dom   [AsExpandedName for XmlElement / XmlAttr], [XmlNamespace::node_name];
      xpath [eval_node_test] (name tests), [equal_qname], [Context::{add_ns, get_ns_uri, expanded_name}].
    The Rust walks from an element to its ancestors ([self.parent()]); the model therefore works on the
    ancestor chain of an element, itself first.  Prefixes are compared as strings after mapping
    "no prefix" to the pseudo-prefix ["xmlns"], exactly as the code does. *)
From Coq Require Import List NArith Bool.
From XmlRs Require Import Base.CPred Spec.AttrNorm Spec.Namespaces.
Import ListNotations.
Open Scope N_scope.

(** [prefix.unwrap_or("xmlns")], [XmlNamespace::node_name] *)
Definition key_of (p : prefix) : str := match p with Some s => s | None => p_xmlns end.

(** [XmlNamespace.prefix() == other.prefix()] on [Option<&str>] *)
Definition m_same_prefix (a b : nsdecl) : bool := prefix_eqb (fst a) (fst b).

(** [XmlElement::namespaces]: one namespace item per declaration attribute, in attribute order *)
Definition m_namespaces (x : elem) : list nsdecl := el_decls x.

(** the loop [for ns in parent.in_scope_namespace() { if !items.any(same prefix) { items.push(ns) } }] *)
Definition m_inherit (items : list nsdecl) (parent_scope : list nsdecl) : list nsdecl :=
  fold_left (fun acc ns => if existsb (fun v => m_same_prefix v ns) acc then acc else acc ++ [ns])
            parent_scope items.

(** [Element::in_scope_namespace]: own declarations, then the parent's in-scope namespaces whose prefix
    is not yet present (recursively), or -- when the parent is the document -- the implicit [xml];
    finally [items.retain(|v| !v.namespace_name().is_empty())] *)
Fixpoint m_in_scope (chain : list elem) : list nsdecl :=
  match chain with
  | [] => []
  | x :: up =>
      let items := m_namespaces x in
      let items' :=
        match up with
        | [] => if existsb (fun v => m_same_prefix v (Some p_xml, xml_ns)) items then items
                else items ++ [(Some p_xml, xml_ns)]
        | _ :: _ => m_inherit items (m_in_scope up)
        end in
      filter (fun v => match snd v with [] => false | _ => true end) items'
  end.

(** dom [namespaces.iter().find(|v| v.node_name() == prefix)] then [node_value] *)
Definition m_find_by_key (scope : list nsdecl) (key : str) : option uri :=
  option_map snd (find (fun v => str_eqb (key_of (fst v)) key) scope).

(** dom [AsExpandedName for XmlElement] *)
Definition m_elem_dom (chain : list elem) : option ename :=
  match chain with
  | [] => None
  | x :: _ => Some (qn_local (el_name x), m_find_by_key (m_in_scope chain) (key_of (qn_prefix (el_name x))))
  end.

(** dom [AsExpandedName for XmlAttr] of an attribute with an owner element (fix D35) *)
Definition m_attr_dom (chain : list elem) (q : qname) : ename :=
  match qn_prefix q with
  | None => (qn_local q, None)
  | Some p => (qn_local q, m_find_by_key (m_in_scope chain) p)
  end.

(** info [find_nameapce_uri]: the element's own declaration attributes by local name ([xmlns] for the
    default declaration; an empty value means no namespace, fix D58), then the in-scope namespaces by
    prefix with the default namespace under ["xmlns"] (fix D59) *)
Definition m_find_namespace_uri (chain : list elem) (key : str) : option uri :=
  match chain with
  | [] => None
  | x :: _ =>
      match find (fun d => str_eqb (key_of (fst d)) key) (el_decls x) with
      | Some d => match snd d with [] => None | u => Some u end
      | None => m_find_by_key (m_in_scope chain) key
      end
  end.

(** info [Element::namespace_name] *)
Definition m_elem_info (chain : list elem) : option ename :=
  match chain with
  | [] => None
  | x :: _ => Some (qn_local (el_name x), m_find_namespace_uri chain (key_of (qn_prefix (el_name x))))
  end.

(** info [Attribute::namespace_name] of an attribute that is not a namespace declaration *)
Definition m_attr_info (chain : list elem) (q : qname) : ename :=
  match qn_prefix q with
  | None => (qn_local q, None)
  | Some p => (qn_local q, m_find_namespace_uri chain p)
  end.

(** what the [ns] domain reports per element *)
Record m_obs := {
  mo_dom : option ename; mo_info : option ename; mo_scope : list nsdecl;
  mo_attrs : list (qname * ename * ename)        (* attribute, dom expanded name, info expanded name *)
}.

Definition model_obs (chain : list elem) : option m_obs :=
  match chain with
  | [] => None
  | x :: _ => Some {| mo_dom := m_elem_dom chain; mo_info := m_elem_info chain; mo_scope := m_in_scope chain;
                      mo_attrs := map (fun q => (q, m_attr_dom chain q, m_attr_info chain q)) (el_attrs x) |}
  end.

(** ancestor chains of all elements in document order *)
Fixpoint chains (up : list elem) (t : tree) : list (list elem) :=
  match t with Node x kids => (x :: up) :: flat_map (chains (x :: up)) kids end.

Definition model_doc (t : tree) : list (option m_obs) := map model_obs (chains [] t).

(** ** xpath: [Context] namespaces and name tests *)
Definition m_ctx := list (option str * uri).

(** [Context::add_ns] *)
Definition m_add_ns (c : m_ctx) (p : option str) (u : uri) : m_ctx :=
  filter (fun v => negb (prefix_eqb (fst v) p)) c ++ [(p, u)].

(** [Context::get_ns_uri] / the lookups of [Context::expanded_name] *)
Definition m_get_ns_uri (c : m_ctx) (p : option str) : option uri :=
  option_map snd (find (fun v => prefix_eqb (fst v) p) c).

(** [eval_node_test] on [NodeTest::Name]: [None] = [Err(NotFoundNamespace)] *)
Definition m_name_test (c : m_ctx) (t : nametest) (n : ename) : option bool :=
  match t with
  | NTAny => Some true
  | NTPrefixAny p => match m_get_ns_uri c (Some p) with
                     | Some ua => Some (ouri_eqb (Some ua) (snd n))
                     | None => None
                     end
  | NTName (Some p) l => match m_get_ns_uri c (Some p) with
                         | Some u => Some (str_eqb (fst n) l && ouri_eqb (snd n) (Some u))
                         | None => None
                         end
  | NTName None l =>      (* the caller's binding of the empty prefix, if any: an extension of XPath 1.0 *)
      Some (str_eqb (fst n) l && ouri_eqb (snd n) (m_get_ns_uri c None))
  end.

(** the context the harness builds: [add_ns(Some(p), u)] for each caller binding, in order *)
Definition m_ctx_of (b : bindings) : m_ctx :=
  fold_left (fun c pu => m_add_ns c (Some (fst pu)) (snd pu)) b [].

Definition m_matches (c : m_ctx) (t : nametest) (n : option ename) : bool :=
  match n with
  | Some n => match m_name_test c t n with Some true => true | _ => false end
  | None => false
  end.

(** [//T] and [//@T]: elements in document order; the evaluator stops with an error at the first node
    it tests when the prefix of the test has no binding, and answers the empty set when there is no
    node to test *)
Fixpoint m_select_from (c : m_ctx) (t : nametest) (attrs : bool) (rank : nat) (l : list (option m_obs)) : list noderef :=
  match l with
  | [] => []
  | None :: r => m_select_from c t attrs (S rank) r
  | Some o :: r =>
      (if attrs then map (fun qa => RAttr rank (fst (fst qa)))
                         (filter (fun qa => m_matches c t (Some (snd (fst qa)))) (mo_attrs o))
       else if m_matches c t (mo_dom o) then [RElem rank] else [])
      ++ m_select_from c t attrs (S rank) r
  end.

Definition m_test_ok (c : m_ctx) (t : nametest) : bool :=
  match t with
  | NTAny | NTName None _ => true
  | NTPrefixAny p | NTName (Some p) _ => match m_get_ns_uri c (Some p) with Some _ => true | None => false end
  end.

Definition m_has_nodes (attrs : bool) (l : list (option m_obs)) : bool :=
  if attrs then existsb (fun o => match o with Some o => negb (match mo_attrs o with [] => true | _ => false end) | None => false end) l
  else negb (match l with [] => true | _ => false end).

Definition model_select (b : bindings) (t : nametest) (attrs : bool) (d : tree) : option (list noderef) :=
  let c := m_ctx_of b in
  let l := model_doc d in
  if m_test_ok c t || negb (m_has_nodes attrs l) then Some (m_select_from c t attrs 0 l) else None.

(** ** attribute-list declarations (after /repo commit bf629dc, D67)

    info [XmlElement::declaration_att_defs]: the definitions of every attribute-list declaration whose
    name equals the element's raw qualified name ([equal_qname]), merged; a definition whose name is already
    present is dropped (first definition binding). *)
Definition m_att_defs (d : nsdtd) (x : elem) : list nsdef :=
  fold_left (fun defs a =>
               if qname_eqb (nd_elem a) (el_name x)
               then if existsb (fun v => attname_eqb (nd_name v) (nd_name a)) defs then defs else defs ++ [a]
               else defs) d [].

(** info [HasQName/Element::namespace_attributes]: the declaration attributes written on the element, then,
    for every definition that [is_namespace_declaration], whose default is a [Value(..)] (["v"] or
    [#FIXED "v"]) and whose name is not among the items, an attribute built from the declaration *)
Definition m_namespace_attributes (d : nsdtd) (x : elem) : list nsdecl :=
  fold_left (fun items a =>
               match nd_name a, default_of (nd_default a) with
               | ANDecl p, Some v => if existsb (fun it => prefix_eqb (fst it) p) items then items else items ++ [(p, v)]
               | _, _ => items
               end) (m_att_defs d x) (el_decls x).

(** info [Element::attributes]: the written attributes that are no declarations, then every definition that
    is not [#IMPLIED] (a [#REQUIRED] one included: listed finding D36 of C11), no namespace declaration and
    not among the items *)
Definition m_is_implied (k : nsdefault) : bool := match k with NDImplied => true | _ => false end.
Definition m_attributes (d : nsdtd) (x : elem) : list qname :=
  fold_left (fun items a =>
               match nd_name a with
               | ANAttr q => if m_is_implied (nd_default a) then items
                             else if existsb (qname_eqb q) items then items else items ++ [q]
               | ANDecl _ => items
               end) (m_att_defs d x) (el_attrs x).

(** the element as the accessors of xml-info present it: every function above this section reads the
    declarations through [namespace_attributes] and the attributes through [attributes] *)
Definition m_default_elem (d : nsdtd) (x : elem) : elem :=
  {| el_name := el_name x; el_decls := m_namespace_attributes d x; el_attrs := m_attributes d x |}.
Fixpoint m_default_tree (d : nsdtd) (t : tree) : tree :=
  match t with Node x kids => Node (m_default_elem d x) (map (m_default_tree d) kids) end.

Definition model_ddoc (d : nsdtd) (t : tree) : list (option m_obs) := model_doc (m_default_tree d t).
Definition model_dselect (b : bindings) (t : nametest) (attrs : bool) (d : nsdtd) (doc : tree) : option (list noderef) :=
  model_select b t attrs (m_default_tree d doc).
