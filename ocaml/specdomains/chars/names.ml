(* names: `<kind> <string>` -> 1 | 0 : does the whole string match the production of the recommendation? *)
let () = register "names" (fun words ->
  match words with
  | [kind; s] ->
    let s = dec s in
    let b = (match kind with
        | "name" | "entity_ref_name" -> is_Name s
        | "ncname" -> is_NCName s
        | "qname" -> is_QName s
        | "nmtoken" -> is_Nmtoken s
        | "pi_target" -> is_PITarget s
        | _ -> false) in
    if b then "1" else "0"
  | _ -> "badinput")
