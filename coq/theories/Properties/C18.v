(** C18 -- character classes and name syntax match XML 1.0 5th Ed. for every code point.
    This file only names the theorems; proofs live in Proofs/. *)
From Coq Require Import List NArith Bool.
From XmlRs Require Import Base.CPred Spec.XmlChars Gen.XmlcharGen Proofs.XmlcharProofs.
Open Scope N_scope.

Theorem C18_is_char : forall c : N, eval is_char c = eval spec_Char c.
Proof. exact is_char_equiv. Qed.
Theorem C18_is_name_start_char : forall c : N, eval is_name_start_char c = eval spec_NameStartChar c.
Proof. exact is_name_start_char_equiv. Qed.
Theorem C18_is_name_char : forall c : N, eval is_name_char c = eval spec_NameChar c.
Proof. exact is_name_char_equiv. Qed.
Theorem C18_is_pubid_char : forall c : N, eval is_pubid_char c = eval spec_PubidChar c.
Proof. exact is_pubid_char_equiv. Qed.
Theorem C18_is_enc_name : forall c : N, eval is_enc_name c = eval spec_EncNameChar c.
Proof. exact is_enc_name_equiv. Qed.

Print Assumptions C18_is_char.
Print Assumptions C18_is_name_start_char.
Print Assumptions C18_is_name_char.
Print Assumptions C18_is_pubid_char.
Print Assumptions C18_is_enc_name.

(** ** name syntax: the strings completely accepted by the name productions of the grammar
    regenerated from nom/src/lib.rs and parser/src/lib.rs *)
From XmlRs Require Import Model.Peg Gen.GrammarXmlGen Proofs.NameLanguage Proofs.QNameLanguage.

Theorem C18_ncname_language : forall s : str, accepts nt_ncname s <-> is_NCName s = true.
Proof. exact ncname_language. Qed.
Theorem C18_qname_language : forall s : str, accepts nt_qname s <-> is_QName s = true.
Proof. exact qname_language. Qed.
Theorem C18_nmtoken_language : forall s : str, accepts nt_nmtoken s <-> is_Nmtoken s = true.
Proof. exact nmtoken_language. Qed.

(** [name] (entity names, notation names, PI targets) is NameChar*: it does not check the first
    character.  Full statement, false on the current tree (known finding D04, pinned by the
    existing tests test_attribute_type_entities/entity/notation which declare an entity and a
    notation named "1"):
      forall s, accepts nt_name s <-> is_Name s = true
      forall s, accepts nt_pi_target s <-> is_PITarget s = true *)
Theorem C18_name_language_refuted : exists s : str, accepts nt_name s /\ is_Name s = false /\ KnownD04 s = true.
Proof. exact name_language_refuted. Qed.
Theorem C18_name_language_except_D04 : forall s : str, KnownD04 s = false -> (accepts nt_name s <-> is_Name s = true).
Proof. exact name_language_except_D04. Qed.
Theorem C18_pi_target_language_except_D04 : forall s : str, KnownD04 s = false -> (accepts nt_pi_target s <-> is_PITarget s = true).
Proof. exact pi_target_language_except_D04. Qed.
(** exact characterisation of what is accepted today *)
Theorem C18_name_language_exact : forall s : str, accepts nt_name s <-> forallb NC s = true.
Proof. exact name_language_exact. Qed.

Print Assumptions C18_ncname_language.
Print Assumptions C18_qname_language.
Print Assumptions C18_nmtoken_language.
Print Assumptions C18_name_language_except_D04.
Print Assumptions C18_pi_target_language_except_D04.
