(** * Corollaries of the operator round trip (C08): precedence, associativity, examples.
    The statements are re-exported, with their [Print Assumptions], by Properties/C08.v. *)
From Coq Require Import List NArith Arith Bool Lia.
From XmlRs Require Import Base.CPred Spec.XPathSyntax Model.Peg Model.XPathAst
  Model.ParseActionsXPath Model.XPathAstAbs Gen.GrammarXPathGen
  Proofs.PegTermination Proofs.XPathParseProds Proofs.XPathParseExpr Proofs.XPathParseSteps Proofs.XPathParseMain Proofs.XPathSyntaxLemmas.
Import ListNotations.

(** the parser of XPath expressions terminates on every input (parser half of C06) *)
Lemma xpath_parse_terminates_proof : forall s : str, run_expr s <> Oof.
Proof. intros s. exact (certified_grammar_terminates _ _ _ _ G_xpath_cert_c08 nt_expr s). Qed.

Lemma xpath_parse_never_oof_proof : forall s : str, parse_expr s <> POof.
Proof.
  intros s. unfold parse_expr. pose proof (xpath_parse_terminates_proof s) as H.
  destruct (run_expr s) as [[t r]| |]; [destruct (act t); discriminate|discriminate|contradiction].
Qed.

(** the surface round trip: what was spelled is what is parsed *)
Lemma parse_spell_surface_operators_proof : forall (a : xexpr) (w : wtree),
  wfb a = true -> rung1 a = true -> ws_ok w = true ->
  exists e, parse_expr (spell_surface a w) = POk e [] /\ abs_or e = a.
Proof. exact parse_spell_surface_rung1. Qed.

Lemma parse_spell_partial_operators_proof : forall (a : xexpr) (sp : spelling),
  ok_spelling a sp -> rung1 (surface sp) = true ->
  exists e, parse_expr (spell a sp) = POk e [] /\ abs_or e ≈ a.
Proof.
  intros a sp (Hwf & Heq & Hws) Hr.
  destruct (parse_spell_surface_rung1 (surface sp) (white sp) Hwf Hr Hws) as (e & Hp & Hab).
  exists e. split; [exact Hp|]. rewrite Hab. exact Heq.
Qed.

Lemma parse_spell_surface_proof : forall (a : xexpr) (w : wtree),
  wfb a = true -> no_fname_case a = true -> ws_ok w = true ->
  exists e, parse_expr (spell_surface a w) = POk e [] /\ abs_or e = a.
Proof. exact parse_spell_surface_all. Qed.

Lemma parse_spell_proof : forall (a : xexpr) (sp : spelling),
  ok_spelling a sp -> no_fname_case (surface sp) = true ->
  exists e, parse_expr (spell a sp) = POk e [] /\ abs_or e ≈ a.
Proof.
  intros a sp (Hwf & Heq & Hws) Hr.
  destruct (parse_spell_surface_all (surface sp) (white sp) Hwf Hr Hws) as (e & Hp & Hab).
  exists e. split; [exact Hp|]. rewrite Hab. exact Heq.
Qed.

(** every tree with lexically valid leaves has a spelling: the one with minimal parentheses *)
Lemma every_tree_has_a_spelling_proof : forall (a : xexpr) (w : wtree),
  leaves_ok a = true -> ws_ok w = true -> ok_spelling a {| surface := paren a; white := w |}.
Proof.
  intros a w Hl Hw. split; [apply paren_wf, Hl|]. split; [apply paren_equiv|exact Hw].
Qed.

(** the general form of "operators bind and associate as the grammar prescribes": the spelling of
    ANY tree with only the parentheses that the grammar demands parses back to that tree *)
Lemma parse_spell_minimal_proof : forall (a : xexpr) (w : wtree),
  leaves_ok a = true -> no_fname_case a = true -> ws_ok w = true ->
  exists e, parse_expr (spell_surface (paren a) w) = POk e [] /\ abs_or e ≈ a.
Proof.
  intros a w Hl Hn Hw.
  destruct (parse_spell_surface_all (paren a) w (paren_wf a Hl) (eq_trans (nfc_paren a) Hn) Hw) as (e & Hp & Hab).
  exists e. split; [exact Hp|]. rewrite Hab. apply paren_equiv.
Qed.

(** abbreviated and unabbreviated spellings: the spelling of a derivable tree with EVERY abbreviation
    that applies ([//], [.], [..], [@], omitted [child::], [n] for [position()=n]) parses to a
    tree equivalent to the unabbreviated one *)
Lemma parse_spell_abbreviated_proof : forall (a : xexpr) (w : wtree),
  wfb a = true -> no_fname_case a = true -> ws_ok w = true ->
  exists e, parse_expr (spell_surface (abbreviate a) w) = POk e [] /\ abs_or e ≈ a.
Proof.
  intros a w Hwf Hn Hw.
  destruct (parse_spell_surface_all (abbreviate a) w (abbreviate_wf a Hwf) (abbreviate_nfc a Hn) Hw) as (e & Hp & Hab).
  exists e. split; [exact Hp|]. rewrite Hab. apply abbreviate_equiv.
Qed.

(** two spellings of one tree parse to equivalent trees *)
Lemma spellings_agree_proof : forall a sp1 sp2,
  ok_spelling a sp1 -> ok_spelling a sp2 ->
  no_fname_case (surface sp1) = true -> no_fname_case (surface sp2) = true ->
  exists e1 e2, parse_expr (spell a sp1) = POk e1 [] /\ parse_expr (spell a sp2) = POk e2 [] /\ abs_or e1 ≈ abs_or e2.
Proof.
  intros a sp1 sp2 H1 H2 N1 N2.
  destruct (parse_spell_proof a sp1 H1 N1) as (e1 & P1 & E1).
  destruct (parse_spell_proof a sp2 H2 N2) as (e2 & P2 & E2).
  exists e1, e2. split; [exact P1|]. split; [exact P2|]. unfold xequiv in *. congruence.
Qed.

(** ** precedence and associativity *)

(** operands: any derivable tree of the rung that needs no parentheses as an operand *)
Definition operand (a : xexpr) : Prop := wfb a = true /\ rung1 a = true /\ level a = 8%nat.

Lemma operand_root a : operand a -> ends_root a = false.
Proof. intros (_ & Hr & Hl). destruct a as [o| | | | | | | | |]; cbn in *; try reflexivity; try discriminate. destruct o; discriminate. Qed.

(** [a o1 b o2 c] with [o2] binding tighter groups to the right *)
Lemma precedence_right_proof : forall o1 o2 a b c w,
  (lvl o1 < lvl o2)%nat -> operand a -> operand b -> operand c -> ws_ok w = true ->
  exists e, parse_expr (spell_surface (XBin o1 a (XBin o2 b c)) w) = POk e [] /\
            abs_or e = XBin o1 a (XBin o2 b c).
Proof.
  intros o1 o2 a b c w Hl Ha Hb Hc Hw. apply parse_spell_surface_rung1; [|cbn|exact Hw].
  - pose proof (operand_root a Ha) as Ra. pose proof (operand_root b Hb) as Rb.
    destruct Ha as (Wa & _ & La), Hb as (Wb & _ & Lb), Hc as (Wc & _ & Lc).
    cbn [wfb level]. rewrite La, Lb, Lc, Wa, Wb, Wc, Ra, Rb, !andb_false_r. cbn [negb andb].
    assert (H1 : (lvl o1 <=? 8)%nat = true) by (destruct o1; reflexivity).
    assert (H2 : (lvl o2 <=? 8)%nat = true) by (destruct o2; reflexivity).
    assert (H3 : (lvl o2 <? 8)%nat = true) by (destruct o2; reflexivity).
    apply Nat.ltb_lt in Hl. now rewrite H1, H2, H3, Hl.
  - destruct Ha as (_ & -> & _), Hb as (_ & -> & _), Hc as (_ & -> & _). reflexivity.
Qed.

(** [a o1 b o2 c] with [o1] binding at least as tight groups to the left: higher precedence
    on the left, and LEFT ASSOCIATIVITY when the levels are equal *)
Lemma precedence_left_proof : forall o1 o2 a b c w,
  (lvl o2 <= lvl o1)%nat -> operand a -> operand b -> operand c -> ws_ok w = true ->
  exists e, parse_expr (spell_surface (XBin o2 (XBin o1 a b) c) w) = POk e [] /\
            abs_or e = XBin o2 (XBin o1 a b) c.
Proof.
  intros o1 o2 a b c w Hl Ha Hb Hc Hw. apply parse_spell_surface_rung1; [|cbn|exact Hw].
  - pose proof (operand_root a Ha) as Ra. pose proof (operand_root b Hb) as Rb.
    destruct Ha as (Wa & _ & La), Hb as (Wb & _ & Lb), Hc as (Wc & _ & Lc).
    cbn [wfb level ends_root]. rewrite La, Lb, Lc, Wa, Wb, Wc, Ra, Rb, !andb_false_r. cbn [negb andb].
    assert (H1 : (lvl o1 <=? 8)%nat = true) by (destruct o1; reflexivity).
    assert (H2 : (lvl o1 <? 8)%nat = true) by (destruct o1; reflexivity).
    assert (H3 : (lvl o2 <? 8)%nat = true) by (destruct o2; reflexivity).
    apply Nat.leb_le in Hl. now rewrite H1, H2, H3, Hl.
  - destruct Ha as (_ & -> & _), Hb as (_ & -> & _), Hc as (_ & -> & _). reflexivity.
Qed.

Lemma left_assoc_proof : forall o a b c w,
  operand a -> operand b -> operand c -> ws_ok w = true ->
  exists e, parse_expr (spell_surface (XBin o (XBin o a b) c) w) = POk e [] /\
            abs_or e = XBin o (XBin o a b) c.
Proof. intros o a b c w. apply precedence_left_proof. apply Nat.le_refl. Qed.

(** the other grouping of the same operators is not what the unparenthesised string means:
    it is not derivable without parentheses *)
Lemma other_grouping_needs_parentheses_proof : forall o1 o2 a b c,
  ((lvl o1 < lvl o2)%nat -> wfb (XBin o2 (XBin o1 a b) c) = false) /\
  ((lvl o2 <= lvl o1)%nat -> wfb (XBin o1 a (XBin o2 b c)) = false).
Proof.
  intros o1 o2 a b c. split; intros H; cbn [wfb level].
  - apply Nat.leb_gt in H. now rewrite H.
  - apply Nat.ltb_ge in H. now rewrite H, !andb_false_r.
Qed.

(** unary minus binds tighter than every binary operator except union *)
Lemma unary_binds_tighter_proof : forall o a b w,
  (lvl o < 6)%nat -> operand a -> operand b -> ws_ok w = true ->
  exists e, parse_expr (spell_surface (XBin o (XNeg a) b) w) = POk e [] /\
            abs_or e = XBin o (XNeg a) b.
Proof.
  intros o a b w Hl Ha Hb Hw. apply parse_spell_surface_rung1; [|cbn|exact Hw].
  - pose proof (operand_root a Ha) as Ra.
    destruct Ha as (Wa & _ & La), Hb as (Wb & _ & Lb).
    cbn [wfb level ends_root]. rewrite La, Lb, Wa, Wb, Ra, !andb_false_r. cbn [negb andb Nat.leb].
    assert (H1 : (lvl o <=? 6)%nat = true) by (apply Nat.leb_le; lia).
    assert (H2 : (lvl o <? 8)%nat = true) by (apply Nat.ltb_lt; lia).
    now rewrite H1, H2.
  - destruct Ha as (_ & -> & _), Hb as (_ & -> & _). reflexivity.
Qed.

(** ... and looser than union: [-a|b] is [-(a|b)] *)
Lemma union_binds_tightest_proof : forall a b w,
  operand a -> operand b -> ws_ok w = true ->
  exists e, parse_expr (spell_surface (XNeg (XBin BUnion a b)) w) = POk e [] /\
            abs_or e = XNeg (XBin BUnion a b).
Proof.
  intros a b w Ha Hb Hw. apply parse_spell_surface_rung1; [|cbn|exact Hw].
  - pose proof (operand_root a Ha) as Ra.
    destruct Ha as (Wa & _ & La), Hb as (Wb & _ & Lb).
    cbn [wfb level lvl bad_after_root]. rewrite La, Lb, Wa, Wb. reflexivity.
  - destruct Ha as (_ & -> & _), Hb as (_ & -> & _). reflexivity.
Qed.

(** ** the hypotheses are satisfiable by non-trivial values *)
Definition ex_tree : xexpr :=
  XBin BOr (XBin BLt (XNum [49]) (XBin BAdd (XNum [50]) (XBin BMul (XNum [51]) (XNeg (XVar (QN None [120]))))))
           (XCall (QN None [110;111;116]) [XParen (XBin BEq (XLit [97]) (XLit [98]))]).

Definition ex_white : wtree :=
  W false [[32]; []] [W false [[]; [9]] [W false [] []; W false [[32;10]; []] []]; W false [[]; [32]; []] []].

Example ex_hypotheses : wfb ex_tree = true /\ rung1 ex_tree = true /\ ws_ok ex_white = true.
Proof. vm_compute. repeat split. Qed.

(** the string  1<TAB2 SP LF+3*-$x or not( ("a"="b"))  *)
Example ex_spelling :
  spell_surface ex_tree ex_white =
  [49;60;9;50;32;10;43;51;42;45;36;120;32;111;114;32;110;111;116;40;32;40;34;97;34;61;34;98;34;41;41].
Proof. vm_compute. reflexivity. Qed.

(** ** the known finding: function names that differ from a NodeType only in letter case *)
(** an example with location paths, abbreviations, predicates and a filter expression:
    the tree of   (//a/@id | b[position()=1]/..)[2]/child::text()  *)
Definition ex_path : xexpr :=
  XPath (SFrom (XFilter (XParen (XBin BUnion
            (XPath (SAbs SDSlash) (XStep AOmit (TName (QN None [97])) []) [(SSlash, XStep AAt (TName (QN None [105;100])) [])])
            (XPath SRel (XStep AOmit (TName (QN None [98])) [XBin BEq (XCall (QN None t_position) []) (XNum [49])]) [(SSlash, XDotDot)])))
          [XNum [50]]) SSlash)
        (XStep (AFull XChild) (TType KText) []) [].

Example ex_path_hypotheses : wfb ex_path = true /\ no_fname_case ex_path = true.
Proof. vm_compute. split; reflexivity. Qed.

Example ex_path_spelling :
  spell_surface ex_path (W false [] []) =
  [40;47;47;97;47;64;105;100;124;98;91;112;111;115;105;116;105;111;110;40;41;61;49;93;47;46;46;41;91;50;93;47;99;104;105;108;100;58;58;116;101;120;116;40;41].
Proof. vm_compute. reflexivity. Qed.

Example ex_path_parses : exists e, parse_expr (spell_surface ex_path (W false [] [])) = POk e [] /\ abs_or e = ex_path.
Proof. eexists. split; vm_compute; reflexivity. Qed.

Definition KnownFnameCase (f : xqname) : bool := wf_fname f && negb (fname_case_ok f).

Lemma fname_case_refuted_proof : exists f : xqname,
  KnownFnameCase f = true /\ wfb (XCall f []) = true /\
  forall e, parse_expr (spell_surface (XCall f []) (W false [] [])) <> POk e [].
Proof.
  exists (QN None [84;101;120;116]). split; [reflexivity|]. split; [reflexivity|].
  intros e H. vm_compute in H. discriminate.
Qed.
