(** C13 -- DOM mutators: DOM Level 1 effect, specified exceptions, atomic failure.

    "Each DOM Level 1 mutator (append_child, insert_before, replace_child, remove_child, attribute
    set/remove, set_named_item, the create_* factories, value and data setters) applied to any
    nodes either performs exactly the change DOM Level 1 specifies - including moving a node that
    is already in the tree - or fails with the specified exception class (hierarchy request, wrong
    document, not found, in-use attribute, index size, invalid character, no modification
    allowed).  It never panics, and a call that fails leaves the document observably unchanged."

    Spec: Spec/DomL1.v ([dom_step], readings R1-R6 in its header).  Model: Model/Store.v +
    Model/DomOps.v (the repaired code), tied to the crates by the [dom] correspondence; the
    implementation itself is compared with the extracted [dom_step] call by call (checks/C13.py).

    Full statements (DESIGN 5.13):
      step_refines   : forall w op, TreeInv w -> abs (fst (step w op)) = fst (dom_step (abs w) op)
                                              /\ outcome_class (snd (step w op)) = snd (dom_step (abs w) op)
      failure_atomic : forall w op e, snd (step w op) = Failed e -> observe (fst (step w op)) = observe w
      step_no_panic  : forall w op, TreeInv w -> snd (step w op) <> Panicked

    Status of each, see below. *)
From Coq Require Import List NArith Bool.
From XmlRs Require Import Base.CPred Model.Store Model.DomOps Proofs.DomTree Proofs.DomOpsInv
  Proofs.DomL1NoPanic Proofs.DomL1Atomic.
Import ListNotations.
Open Scope N_scope.

(** ** no panic.  The full statement is REFUTED by the faithful model (defect D42, a listed
    finding: the three factories whose signature has no [Result] unwrap the validation result);
    the conditional theorem holds for every other call -- every receiver, every argument, every
    string, with or without the tree invariant. *)
Theorem C13_step_no_panic_refuted : exists w o, snd (step w o) = Panicked.
Proof. exact step_no_panic_refuted. Qed.

Theorem C13_step_no_panic : forall w o, Known42 o = false -> snd (step w o) <> Panicked.
Proof. exact step_no_panic_but_D42. Qed.

Theorem C13_run_no_panic : forall ops w, forallb (fun o => negb (Known42 o)) ops = true ->
  forall pre o post, ops = pre ++ o :: post -> snd (step (run w pre) o) <> Panicked.
Proof. exact run_no_panic. Qed.

(** ** failure atomicity.  For every operation except [SetAttribute] the world after a failed call
    IS the world before: whatever is observed (tree, attributes, data, order ranks,
    serialisation ...) is unchanged.  A failed [set_attribute] leaves one unattached node behind
    ([Garbage]: the attribute it had already created) and nothing else. *)
Theorem C13_failure_atomic : forall w o e,
  WInv w -> is_set_attribute o = false -> snd (step w o) = Failed e -> fst (step w o) = w.
Proof. exact failure_atomic_strict. Qed.

Theorem C13_failure_atomic_observe : forall (A : Type) (observe : world -> A) w o e,
  WInv w -> is_set_attribute o = false -> snd (step w o) = Failed e -> observe (fst (step w o)) = observe w.
Proof. exact failure_atomic_observe. Qed.

Theorem C13_failure_atomic_set_attribute : forall w r name value e,
  WInv w -> snd (step w (SetAttribute r name value)) = Failed e -> Garbage w (fst (step w (SetAttribute r name value))).
Proof. exact failure_atomic_set_attribute. Qed.

(** along histories: the hypothesis [WInv] holds in every reachable world (C12) *)
Theorem C13_failure_atomic_reachable : forall init ops o e,
  WInv init -> is_set_attribute o = false -> snd (step (run init ops) o) = Failed e ->
  fst (step (run init ops) o) = run init ops.
Proof. intros init ops o e Hi. apply failure_atomic_strict. apply run_inv. exact Hi. Qed.

Print Assumptions C13_step_no_panic_refuted.
Print Assumptions C13_step_no_panic.
Print Assumptions C13_run_no_panic.
Print Assumptions C13_failure_atomic.
Print Assumptions C13_failure_atomic_observe.
Print Assumptions C13_failure_atomic_set_attribute.
Print Assumptions C13_failure_atomic_reachable.
