(** * C11: the model of [normalized_value] refines XML 1.0 3.3.3, and fuel [S (length dtd)] is enough
      on acyclic entity tables. *)
From Coq Require Import List NArith Bool Lia.
From XmlRs Require Import Base.CPred Spec.AttrNorm Model.AttrModel Proofs.AttrTokenProofs.
Import ListNotations.
Open Scope N_scope.

(** ** strings *)
Lemma str_eqb_refl (a : str) : str_eqb a a = true.
Proof. induction a as [|x a IH]; [reflexivity|]. cbn [str_eqb]. rewrite N.eqb_refl. exact IH. Qed.

Lemma str_eqb_eq (a b : str) : str_eqb a b = true -> a = b.
Proof.
  revert b. induction a as [|x a IH]; intros [|y b] H; cbn [str_eqb] in H; try discriminate; [reflexivity|].
  apply andb_prop in H as [H1 H2]. apply N.eqb_eq in H1. subst y. f_equal. apply IH. exact H2.
Qed.

Lemma str_eqb_neq (a b : str) : str_eqb a b = false -> a <> b.
Proof. intros H ->. rewrite str_eqb_refl in H. discriminate. Qed.

(** ** pointwise *)
Lemma normalize_ws_spec (s : str) : normalize_ws s = map ws_to_space s.
Proof.
  unfold normalize_ws. apply map_ext. intros c. unfold ws_to_space, is_ws.
  destruct (c =? 32), (c =? 13), (c =? 10), (c =? 9); reflexivity.
Qed.

(** ** results *)
Lemma bind_ok {A B} (x : ares A) (f : A -> ares B) b :
  bind x f = Ok b -> exists a, x = Ok a /\ f a = Ok b.
Proof. destruct x; cbn [bind]; intros H; try discriminate. eauto. Qed.

Lemma bind_assoc {A B C} (x : ares A) (f : A -> ares B) (g : B -> ares C) :
  bind (bind x f) g = bind x (fun a => bind (f a) g).
Proof. destruct x; reflexivity. Qed.

Lemma bind_ext {A B} (x : ares A) (f g : A -> ares B) : (forall a, f a = g a) -> bind x f = bind x g.
Proof. intros H. destruct x; cbn [bind]; auto. Qed.

(** ** the two loops are right folds *)
Definition simple_table (dtd : table) : Prop :=
  forall n lit, In (n, lit) dtd -> forallb simple_piece lit = true.

Definition simp (p : piece) : piece := match p with CharRef c => Text [c] | _ => p end.

Lemma replacement_simple (lit : list piece) :
  forallb simple_piece lit = true -> replacement_text lit = Some (map simp lit).
Proof.
  induction lit as [|p r IH]; intros H; [reflexivity|].
  cbn [forallb] in H. apply andb_prop in H as [Hp Hr]. specialize (IH Hr).
  destruct p as [s|c|n]; cbn [replacement_text map simp]; try (rewrite IH; reflexivity).
  cbn [simple_piece] in Hp. unfold markup_char in Hp. apply negb_true_iff, orb_false_iff in Hp as [H38 H60].
  rewrite H38, H60, IH. reflexivity.
Qed.

Lemma entity_loop_fold (rec : name -> ares str) (vals : list piece) : forall parsed,
  entity_loop rec parsed vals = bind (norm_pieces rec (map simp vals)) (fun t => Ok (parsed ++ t)).
Proof.
  induction vals as [|p r IH]; intros parsed.
  - cbn [entity_loop map norm_pieces bind]. rewrite app_nil_r. reflexivity.
  - destruct p as [s|c|n]; cbn [entity_loop map simp norm_pieces].
    + rewrite IH, bind_assoc. apply bind_ext. intros t. cbn [bind].
      rewrite normalize_ws_spec, app_assoc. reflexivity.
    + rewrite IH, bind_assoc. apply bind_ext. intros t. cbn [bind].
      rewrite normalize_ws_spec, <- app_assoc. reflexivity.
    + rewrite bind_assoc. apply bind_ext. intros v. rewrite IH, bind_assoc. apply bind_ext. intros t.
      cbn [bind]. rewrite app_assoc. reflexivity.
Qed.

Lemma value_loop_fold (rec : name -> ares str) (vals : list piece) : forall acc,
  value_loop rec acc vals = bind (norm_pieces rec vals) (fun t => Ok (acc ++ t)).
Proof.
  induction vals as [|p r IH]; intros acc.
  - cbn [value_loop norm_pieces bind]. rewrite app_nil_r. reflexivity.
  - destruct p as [s|c|n]; cbn [value_loop norm_pieces].
    + rewrite IH, bind_assoc. apply bind_ext. intros t. cbn [bind].
      rewrite normalize_ws_spec, app_assoc. reflexivity.
    + rewrite IH, bind_assoc. apply bind_ext. intros t. cbn [bind]. rewrite <- app_assoc. reflexivity.
    + rewrite bind_assoc. apply bind_ext. intros v. rewrite IH, bind_assoc. apply bind_ext. intros t.
      cbn [bind]. rewrite app_assoc. reflexivity.
Qed.

Lemma bind_ret {A} (x : ares A) : bind x (fun a => Ok a) = x.
Proof. destruct x; reflexivity. Qed.

Lemma norm_pieces_ext (e1 e2 : name -> ares str) (l : list piece) :
  (forall n, e1 n = e2 n) -> norm_pieces e1 l = norm_pieces e2 l.
Proof.
  intros H. induction l as [|p r IH]; [reflexivity|].
  destruct p; cbn [norm_pieces]; rewrite ?IH, ?H; reflexivity.
Qed.

(** ** entity lookup *)
Lemma find_entity_declared (dtd : table) n : m_find_entity dtd n = declared dtd n.
Proof. induction dtd as [|[m lit] r IH]; [reflexivity|]. cbn [m_find_entity declared]. rewrite IH. reflexivity. Qed.

Lemma declared_in (dtd : table) n lit : declared dtd n = Some lit -> In (n, lit) dtd.
Proof.
  induction dtd as [|[m l] r IH]; cbn [declared]; [discriminate|].
  destruct (str_eqb m n) eqn:E.
  - intros H. injection H as ->. apply str_eqb_eq in E. subst m. left. reflexivity.
  - intros H. right. auto.
Qed.

(** one entity: [Context::entity] + the loop = replacement text + step 3 *)
Lemma entity_step (dtd : table) (rec : name -> ares str) n :
  simple_table dtd ->
  bind (context_entity dtd n) (entity_loop rec []) = bind (entity_repl dtd n) (norm_pieces rec).
Proof.
  intros Hs. unfold context_entity, entity_repl. rewrite find_entity_declared.
  destruct (declared dtd n) as [lit|] eqn:E.
  - rewrite (replacement_simple lit (Hs n lit (declared_in _ _ _ E))). cbn [bind].
    rewrite entity_loop_fold. cbn [app]. apply bind_ret.
  - unfold m_predefined, predefined.
    destruct (str_eqb n n_lt); [cbn; destruct (rec n); reflexivity|].
    destruct (str_eqb n n_gt); [reflexivity|].
    destruct (str_eqb n n_amp); [reflexivity|].
    destruct (str_eqb n n_apos); [reflexivity|].
    destruct (str_eqb n n_quot); reflexivity.
Qed.

Lemma refs_of_simp (l : list piece) : refs_of (map simp l) = refs_of l.
Proof.
  induction l as [|p r IH]; [reflexivity|].
  destruct p; cbn [map simp refs_of flat_map app] in *; unfold refs_of in IH; rewrite IH; reflexivity.
Qed.

(** the references of what an entity name denotes are [refers]-successors of the name *)
Lemma entity_repl_refs (dtd : table) n body : simple_table dtd ->
  entity_repl dtd n = Ok body -> forall m, In m (refs_of body) -> refers dtd n m.
Proof.
  intros Hs H m Hm. unfold entity_repl in H. destruct (declared dtd n) as [lit|] eqn:E.
  - rewrite (replacement_simple lit (Hs n lit (declared_in _ _ _ E))) in H. injection H as <-.
    exists lit. split; [exact E|]. rewrite <- refs_of_simp. exact Hm.
  - exfalso. unfold predefined in H.
    destruct (str_eqb n n_lt); [injection H as <-; destruct Hm|].
    destruct (str_eqb n n_gt); [injection H as <-; destruct Hm|].
    destruct (str_eqb n n_amp); [injection H as <-; destruct Hm|].
    destruct (str_eqb n n_apos); [injection H as <-; destruct Hm|].
    destruct (str_eqb n n_quot); [injection H as <-; destruct Hm|discriminate].
Qed.

Lemma norm_pieces_ext_in (e1 e2 : name -> ares str) (l : list piece) :
  (forall n, In n (refs_of l) -> e1 n = e2 n) -> norm_pieces e1 l = norm_pieces e2 l.
Proof.
  induction l as [|p r IH]; intros H; [reflexivity|].
  destruct p as [s|c|n]; cbn [norm_pieces refs_of flat_map app] in *.
  - rewrite IH by exact H. reflexivity.
  - rewrite IH by exact H. reflexivity.
  - rewrite (H n) by (left; reflexivity). rewrite IH; [reflexivity|]. intros m Hm. apply H. right. exact Hm.
Qed.

Definition acyclic (dtd : table) : Prop := forall n, ~ reaches dtd n n.

Lemma reaches_snoc dtd p n m : reaches dtd p n -> refers dtd n m -> reaches dtd p m.
Proof.
  intros H Hr. induction H as [a b Hab|a b k Hab Hbk IH].
  - eapply reach_trans; [exact Hab|]. apply reach_step. exact Hr.
  - eapply reach_trans; [exact Hab|]. apply IH. exact Hr.
Qed.

Lemma existsb_str_in (n : name) l : existsb (str_eqb n) l = true -> In n l.
Proof.
  induction l as [|x r IH]; cbn [existsb]; [discriminate|]. intros H. apply orb_prop in H as [H|H].
  - left. symmetry. apply str_eqb_eq. exact H.
  - right. auto.
Qed.

(** the stack of names being expanded never contains the name asked for when the table has no cycle, so
    the recursion guard of [expand_entity] is silent and the expansion is the specification's *)
Theorem entity_value_refines (dtd : table) : simple_table dtd -> acyclic dtd ->
  forall fuel n parents, (forall p, In p parents -> reaches dtd p n) ->
  m_expand_entity fuel dtd parents n = expand_entity fuel dtd n.
Proof.
  intros Hs Hac. induction fuel as [|f IH]; intros n parents Hp; [reflexivity|].
  cbn [m_expand_entity expand_entity].
  destruct (existsb (str_eqb n) parents) eqn:Ex.
  { exfalso. apply existsb_str_in in Ex. exact (Hac n (Hp n Ex)). }
  rewrite entity_step by exact Hs.
  destruct (entity_repl dtd n) as [body| | |] eqn:Er; cbn [bind]; try reflexivity.
  apply norm_pieces_ext_in. intros m Hm. apply IH.
  pose proof (entity_repl_refs dtd n body Hs Er m Hm) as Hnm.
  intros p Hin. apply in_app_or in Hin as [Hin|[<-|[]]].
  - eapply reaches_snoc; [exact (Hp p Hin)|exact Hnm].
  - apply reach_step. exact Hnm.
Qed.

Lemma not_cdata_is_cdata ty : m_not_cdata ty = negb (is_cdata ty).
Proof. destruct ty as [[]|]; reflexivity. Qed.

(** *** refinement at every fuel *)
Theorem normalized_value_refines_f (dtd : table) : simple_table dtd -> acyclic dtd ->
  forall fuel ty lit, model_value_f fuel dtd ty lit = spec_value_f fuel dtd ty lit.
Proof.
  intros Hs Hac fuel ty lit. unfold model_value_f, normalized_value_f, spec_value_f, cdata_value_f, attr_value_from_name.
  rewrite value_loop_fold. cbn [app]. rewrite bind_ret.
  rewrite (norm_pieces_ext _ (expand_entity fuel dtd) lit)
    by (intros n; apply (entity_value_refines dtd Hs Hac); intros p []).
  apply bind_ext. intros v. rewrite not_cdata_is_cdata, split_filter_join_tokenized.
  destruct (is_cdata ty); reflexivity.
Qed.

Lemma wf_simple_table dtd : wf_table dtd -> simple_table dtd.
Proof. intros [_ _ H]. exact H. Qed.
Lemma wf_acyclic_table dtd : wf_table dtd -> acyclic dtd.
Proof. intros [_ H _]. exact H. Qed.

Theorem normalized_value_refines_proof : forall dtd ty lit,
  wf_table dtd -> model_value dtd ty lit = spec_value dtd ty lit.
Proof.
  intros dtd ty lit H. apply (normalized_value_refines_f dtd (wf_simple_table dtd H) (wf_acyclic_table dtd H)).
Qed.

(** ** fuel *)
Lemma norm_pieces_ok (ent : name -> ares str) (l : list piece) :
  (forall m, In m (refs_of l) -> exists s, ent m = Ok s) -> exists s, norm_pieces ent l = Ok s.
Proof.
  induction l as [|p r IH]; intros H; [eexists; reflexivity|].
  destruct p as [s|c|n]; cbn [norm_pieces].
  - destruct IH as [t ->]; [intros m Hm; apply H; exact Hm|]. eexists; reflexivity.
  - destruct IH as [t ->]; [intros m Hm; apply H; exact Hm|]. eexists; reflexivity.
  - destruct (H n) as [v ->]; [cbn [refs_of flat_map]; left; reflexivity|].
    destruct IH as [t ->]; [intros m Hm; apply H; cbn [refs_of flat_map app]; right; exact Hm|].
    eexists; reflexivity.
Qed.


Lemma predefined_no_refs n r : predefined n = Some r -> refs_of r = [].
Proof.
  unfold predefined. intros H.
  destruct (str_eqb n n_lt); [injection H as <-; reflexivity|].
  destruct (str_eqb n n_gt); [injection H as <-; reflexivity|].
  destruct (str_eqb n n_amp); [injection H as <-; reflexivity|].
  destruct (str_eqb n n_apos); [injection H as <-; reflexivity|].
  destruct (str_eqb n n_quot); [injection H as <-; reflexivity|discriminate].
Qed.

Lemma declared_name_in (dtd : table) n : declared dtd n <> None -> In n (map fst dtd).
Proof.
  induction dtd as [|[m l] r IH]; cbn [declared map fst]; [congruence|].
  destruct (str_eqb m n) eqn:E; [intros _; left; apply str_eqb_eq; exact E|]. intros H. right. auto.
Qed.

(** a chain of distinct declared names that all reach [n] can have at most [length dtd] members *)
Lemma expand_entity_ok (dtd : table) : wf_table dtd ->
  forall fuel n path,
    (declared dtd n <> None \/ predefined n <> None) ->
    NoDup path ->
    (forall p, In p path -> declared dtd p <> None /\ reaches dtd p n) ->
    (length path + fuel > length dtd)%nat ->
    exists s, expand_entity fuel dtd n = Ok s.
Proof.
  intros Hwf. induction fuel as [|f IH]; intros n path Hn Hnd Hpath Hlen.
  - exfalso. assert (Hincl : incl path (map fst dtd)).
    { intros p Hp. apply declared_name_in. apply (Hpath p Hp). }
    pose proof (NoDup_incl_length Hnd Hincl) as Hle. rewrite map_length in Hle. lia.
  - cbn [expand_entity]. unfold entity_repl.
    destruct (declared dtd n) as [lit|] eqn:E.
    + pose proof (declared_in _ _ _ E) as Hin.
      rewrite (replacement_simple lit (wf_simple dtd Hwf n lit Hin)). cbn [bind].
      apply norm_pieces_ok. intros m Hm. rewrite refs_of_simp in Hm.
      assert (Hnm : refers dtd n m) by (exists lit; auto).
      apply (IH m (n :: path)).
      * exact (wf_declared dtd Hwf n lit m Hin Hm).
      * constructor; [|exact Hnd]. intros Hp. destruct (Hpath n Hp) as [_ Hr].
        exact (wf_acyclic dtd Hwf n Hr).
      * intros p [<-|Hp].
        -- split; [congruence|apply reach_step; exact Hnm].
        -- destruct (Hpath p Hp) as [Hd Hr]. split; [exact Hd|]. eapply reaches_snoc; eauto.
      * cbn [length]. lia.
    + destruct Hn as [Hn|Hn]; [congruence|].
      destruct (predefined n) as [r|] eqn:Ep; [|congruence]. cbn [bind].
      apply norm_pieces_ok. intros m Hm. rewrite (predefined_no_refs n r Ep) in Hm. destruct Hm.
Qed.

(** *** with fuel [S (length dtd)] a well-formed table never runs out *)
Theorem fuel_suffices_proof : forall dtd ty lit,
  wf_table dtd -> lit_declared dtd lit -> exists s, spec_value dtd ty lit = Ok s.
Proof.
  intros dtd ty lit Hwf Hlit. unfold spec_value, spec_value_f, cdata_value_f.
  destruct (norm_pieces_ok (expand_entity (fuel_of dtd) dtd) lit) as [v Hv].
  - intros m Hm. apply (expand_entity_ok dtd Hwf (fuel_of dtd) m []).
    + exact (Hlit m Hm).
    + constructor.
    + intros p [].
    + unfold fuel_of. cbn [length]. lia.
  - rewrite Hv. cbn [bind]. eexists; reflexivity.
Qed.

(** *** more fuel never changes a defined result: the real code (unbounded) agrees *)
Lemma norm_pieces_mono (e1 e2 : name -> ares str) (l : list piece) :
  (forall n s, e1 n = Ok s -> e2 n = Ok s) -> forall s, norm_pieces e1 l = Ok s -> norm_pieces e2 l = Ok s.
Proof.
  intros H. induction l as [|p r IH]; intros s Hs; [exact Hs|].
  destruct p as [t|c|n]; cbn [norm_pieces] in *.
  - apply bind_ok in Hs as (a & Ha & Hf). rewrite (IH a Ha). exact Hf.
  - apply bind_ok in Hs as (a & Ha & Hf). rewrite (IH a Ha). exact Hf.
  - apply bind_ok in Hs as (v & Hv & Hs). apply bind_ok in Hs as (a & Ha & Hf).
    rewrite (H n v Hv). cbn [bind]. rewrite (IH a Ha). exact Hf.
Qed.

Lemma expand_entity_mono dtd : forall f n s, expand_entity f dtd n = Ok s ->
  forall f', (f <= f')%nat -> expand_entity f' dtd n = Ok s.
Proof.
  induction f as [|f IH]; intros n s H f' Hle; [discriminate|].
  destruct f' as [|f']; [lia|]. cbn [expand_entity] in *.
  apply bind_ok in H as (body & Hb & Hn). rewrite Hb. cbn [bind].
  apply (norm_pieces_mono (expand_entity f dtd)); [|exact Hn].
  intros m t Hm. apply (IH m t Hm). lia.
Qed.

Theorem fuel_irrelevant_proof : forall dtd ty lit fuel,
  wf_table dtd -> lit_declared dtd lit -> (length dtd < fuel)%nat ->
  spec_value_f fuel dtd ty lit = spec_value dtd ty lit /\
  model_value_f fuel dtd ty lit = model_value dtd ty lit.
Proof.
  intros dtd ty lit fuel Hwf Hlit Hf.
  assert (G : spec_value_f fuel dtd ty lit = spec_value dtd ty lit).
  { destruct (fuel_suffices_proof dtd ty lit Hwf Hlit) as [s Hs]. rewrite Hs.
    unfold spec_value, spec_value_f, cdata_value_f in *.
    apply bind_ok in Hs as (v & Hv & Hs).
    rewrite (norm_pieces_mono (expand_entity (fuel_of dtd) dtd) (expand_entity fuel dtd) lit) with (s := v).
    - exact Hs.
    - intros n t Hn. apply (expand_entity_mono dtd _ n t Hn). unfold fuel_of. lia.
    - exact Hv. }
  split; [exact G|].
  rewrite (normalized_value_refines_f dtd (wf_simple_table dtd Hwf) (wf_acyclic_table dtd Hwf)), G.
  symmetry. apply normalized_value_refines_proof. exact Hwf.
Qed.
