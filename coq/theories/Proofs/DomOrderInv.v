(** * The order vector stays usable along every history

    [Good s]: tree invariant, and the order vector is either marked stale or equal to the pre-order
    walk.  Operations that change the shape of the tree mark it stale; all others (data edits,
    creation of detached nodes, refused calls) leave both the vector and the walk unchanged. *)
From Coq Require Import List NArith Bool Lia.
From XmlRs Require Import Base.CPred Model.Store Model.DomOps Proofs.DomBase Proofs.DomTree Proofs.DomAnc
  Proofs.DomOpsInv Proofs.DomOrder.
Import ListNotations.
Open Scope N_scope.

Definition Good (s : store) : Prop := TreeInv s /\ OrderOK s.

Lemma good_invalidate s : TreeInv s -> Good (invalidate s).
Proof. intros T. split; [apply invalidate_inv; exact T | left; reflexivity]. Qed.

(** kind, lists and names of an item *)
Definition struct_eq (a b : item) : Prop :=
  shape_eq a b /\ iprefix a = iprefix b /\ ilocal a = ilocal b.

Lemma order_upd s n f : order (upd s n f) = order s.
Proof. unfold upd. destruct (get s n); reflexivity. Qed.
Lemma dirty_upd s n f : dirty (upd s n f) = dirty s.
Proof. unfold upd. destruct (get s n); reflexivity. Qed.

Lemma attr_is_ns_upd s n f a : (forall it, struct_eq it (f it)) -> attr_is_ns (upd s n f) a = attr_is_ns s a.
Proof.
  intros Hf. unfold attr_is_ns. rewrite get_upd. destruct (N.eqb_spec a n) as [->|]; [|reflexivity].
  destruct (get s n) as [it|]; cbn; [|reflexivity]. destruct (Hf it) as [_ [Hp Hl]]. unfold is_ns. rewrite <- Hp, <- Hl. reflexivity.
Qed.

Lemma listed_seq_upd s n f m : (forall it, struct_eq it (f it)) -> listed_seq (upd s n f) m = listed_seq s m.
Proof.
  intros Hf. unfold listed_seq. rewrite get_upd. destruct (N.eqb_spec m n) as [->|].
  - destruct (get s n) as [it|]; cbn [option_map]; [|reflexivity].
    destruct (Hf it) as [[Hk [_ [Hc Ha]]] _]. rewrite <- Hk, <- Hc, <- Ha.
    destruct (ikind it); try reflexivity.
    f_equal. f_equal; apply filter_ext; intros a; [|f_equal]; apply attr_is_ns_upd; exact Hf.
  - destruct (get s m) as [it|]; [|reflexivity]. destruct (ikind it); try reflexivity.
    f_equal. f_equal; apply filter_ext; intros a; [|f_equal]; apply attr_is_ns_upd; exact Hf.
Qed.

Lemma good_upd s n f : (forall it, struct_eq it (f it)) -> Good s -> Good (upd s n f).
Proof.
  intros Hf [T O].
  assert (T' : TreeInv (upd s n f)) by (apply upd_data_inv; [intros it; apply Hf | exact T]).
  split; [exact T'|]. destruct O as [O|O]; [left; rewrite dirty_upd; exact O|].
  right. rewrite order_upd, O. symmetry. apply preorder_stable; [exact T | exact T' | apply sroot_upd|].
  intros m it _. apply listed_seq_upd. exact Hf.
Qed.

Lemma good_set_str s n d : Good s -> Good (set_str s n d).
Proof. apply good_upd. intros it. repeat split. Qed.

Lemma good_create s it :
  Good s -> iparent it = None -> ichildren it = [] -> iattrs it = [] -> ikind it <> KDoc -> Good (snd (create s it)).
Proof.
  intros [T O] H1 H2 H3 H4.
  pose proof (create_tree_inv s it T H1 H2 H3 H4) as T'.
  destruct (create_spec s it) as [_ [_ [Hr [_ Ho]]]].
  split; [exact T'|]. destruct O as [O|O]; [left; exact O|]. right.
  change (order (snd (create s it))) with (order s). rewrite O. symmetry.
  apply preorder_stable; [exact T | exact T' | exact Hr|].
  intros m mit Hm.
  assert (Hmn : m <> next s) by (intros ->; rewrite (fresh_none s T) in Hm; discriminate).
  unfold listed_seq. rewrite (Ho m Hmn), Hm.
  assert (Hns : forall a, In a (iattrs mit) -> attr_is_ns (snd (create s it)) a = attr_is_ns s a).
  { intros a Ha. unfold attr_is_ns. rewrite Ho; [reflexivity|]. intros ->.
    destruct (lists_live_child s T m (next s)) as [z Hz]; [exists mit; split; [exact Hm | right; exact Ha]|].
    rewrite (fresh_none s T) in Hz. discriminate. }
  destruct (ikind mit); try reflexivity.
  f_equal. f_equal; apply filter_ext_in; intros a Ha; [|f_equal]; apply Hns; exact Ha.
Qed.

(** ** store-level functions *)
Lemma good_info_append s r x : Good s -> Good (fst (info_append s r x)).
Proof.
  intros [T O]. pose proof (info_append_inv s r x T) as T'. unfold info_append in *.
  destruct (check_insert s r x); cbn [fst] in *; [split; assumption|]. split; [exact T' | left; reflexivity].
Qed.

Lemma good_info_insert_before s r x f : Good s -> Good (fst (info_insert_before s r x f)).
Proof.
  intros [T O]. pose proof (info_insert_before_inv s r x f T) as T'. unfold info_insert_before in *.
  destruct (mem f (children_of s r)); [|split; assumption].
  destruct (check_insert s r x); cbn [fst] in *; [split; assumption|].
  destruct (x =? f); cbn [fst] in *; [split; assumption|]. split; [exact T' | left; reflexivity].
Qed.

Lemma good_info_insert_after s r x f : Good s -> Good (fst (info_insert_after s r x f)).
Proof.
  intros G. unfold info_insert_after. destruct (index_of f (children_of s r)); [|exact G].
  destruct (nth_error (children_of s r) (S n)); [apply good_info_insert_before | apply good_info_append]; exact G.
Qed.

Lemma good_info_delete s r x : Good s -> Good (fst (info_delete s r x)).
Proof.
  intros [T O]. pose proof (info_delete_inv s r x T) as T'. unfold info_delete in *.
  destruct (mem x (children_of s r)); cbn [fst] in *; [split; [exact T' | left; reflexivity] | split; assumption].
Qed.

Lemma good_remove_attrs s e sel : Good s -> Good (fst (remove_attrs s e sel)).
Proof. intros [T _]. split; [apply remove_attrs_inv; exact T | left; reflexivity]. Qed.

Lemma good_remove_attribute s e name : Good s -> Good (fst (remove_attribute s e name)).
Proof. apply good_remove_attrs. Qed.

Lemma good_dom_set_attribute_node w k s e a : Good s -> Good (fst (dom_set_attribute_node w k s e a)).
Proof.
  intros [T O]. pose proof (dom_set_attribute_node_inv w k s e a T) as T'. unfold dom_set_attribute_node in *.
  destruct (negb (fst a =? k)); [split; assumption|].
  destruct (parent_of s (snd a)); [split; assumption|].
  destruct (get s (snd a)) as [ait|]; [|split; assumption].
  destruct (kind_eqb (ikind ait) KAt && has_kind s KEl e); [|split; assumption].
  destruct (remove_attribute_q s e (iprefix ait) (ilocal ait)) as [s1 old]. cbn [fst] in *.
  split; [exact T' | left; reflexivity].
Qed.

Lemma good_set_values s a d : Good s -> has_kind s KAt a = true -> Good (fst (set_values s a d)).
Proof.
  intros [T O] Hk. pose proof (set_values_inv s a d T Hk) as T'. unfold set_values in *.
  destruct (d_attr d) as [l|]; [|split; assumption].
  destruct (add_values (detach_values s a) a l); cbn [fst] in *; [split; [exact T' | left; reflexivity] | split; assumption].
Qed.

Lemma good_edit_data s n k off cnt x : Good s -> Good (fst (edit_data s n k off cnt x)).
Proof.
  intros G. unfold edit_data. destruct (len (data_of s n) <? off); [exact G|].
  destruct (valid_str k _); cbn [fst]; [apply good_set_str; exact G | exact G].
Qed.

Lemma good_insert_data s n k off d : Good s -> Good (fst (insert_data s n k off d)).
Proof. apply good_edit_data. Qed.

Lemma good_delete_data s n off cnt : Good s -> Good (fst (delete_data s n off cnt)).
Proof. intros G. unfold delete_data. destruct (kind_of s n); [apply good_edit_data; exact G | exact G]. Qed.

Lemma good_replace_data s n k off cnt d : Good s -> Good (fst (replace_data s n k off cnt d)).
Proof. apply good_edit_data. Qed.

Lemma good_pi_set s n d : Good s -> Good (fst (pi_set s n d)).
Proof.
  intros G. unfold pi_set. destruct (d_pi d) as [[c|]|]; cbn [fst]; try exact G;
    apply good_upd; try exact G; intros it; repeat split.
Qed.

Lemma good_split_text k s n kd off : Good s -> Good (fst (split_text k s n kd off)).
Proof.
  intros G. unfold split_text. destruct (len (data_of s n) <? off); [exact G|].
  destruct (parent_of s n) as [p|]; [|exact G].
  destruct (kind_of s p) as [kp|]; [|exact G].
  match goal with |- Good (fst (if ?c then _ else _)) => destruct c eqn:Hok end; [|exact G].
  assert (Hkd : kd <> KDoc) by (intros ->; destruct kp; discriminate).
  set (s1 := set_str s n (firstn (N.to_nat (N.min off (len (data_of s n)))) (data_of s n))).
  assert (G1 : Good s1) by (apply good_set_str; exact G).
  pose proof (good_create s1 (new_item kd None [] (skipn (N.to_nat (N.min off (len (data_of s n)))) (data_of s n)) false None)
                          G1 eq_refl eq_refl eq_refl Hkd) as G2.
  destruct (create s1 (new_item kd None [] (skipn (N.to_nat (N.min off (len (data_of s n)))) (data_of s n)) false None)) as [i s2].
  cbn [snd] in G2.
  pose proof (good_info_insert_after s2 p i n G2) as G3.
  destruct (info_insert_after s2 p i n) as [s3 [e|]]; cbn [fst] in G3.
  - destruct e; cbn [fst]; try exact G3.
    pose proof (good_info_append s3 p i G3) as G4.
    destruct (info_append s3 p i) as [s4 [e4|]]; exact G4.
  - exact G3.
Qed.

(** * Tree and order invariants hold after every history *)
Definition WGood (w : world) : Prop := WP Good w.

Theorem step_good w o : WGood w -> WGood (fst (step w o)).
Proof.
  apply (step_P Good); intros.
  - apply good_info_insert_before; assumption.
  - apply good_info_append; assumption.
  - apply good_info_delete; assumption.
  - apply good_remove_attrs; assumption.
  - apply good_dom_set_attribute_node; assumption.
  - apply good_set_values; assumption.
  - apply good_create; assumption.
  - apply good_replace_data; assumption.
  - apply good_insert_data; assumption.
  - apply good_delete_data; assumption.
  - apply good_pi_set; assumption.
  - apply good_split_text; assumption.
Qed.

Theorem run_good ops w : WGood w -> WGood (run w ops).
Proof.
  apply (run_P Good); intros.
  - apply good_info_insert_before; assumption.
  - apply good_info_append; assumption.
  - apply good_info_delete; assumption.
  - apply good_remove_attrs; assumption.
  - apply good_dom_set_attribute_node; assumption.
  - apply good_set_values; assumption.
  - apply good_create; assumption.
  - apply good_replace_data; assumption.
  - apply good_insert_data; assumption.
  - apply good_delete_data; assumption.
  - apply good_pi_set; assumption.
  - apply good_split_text; assumption.
Qed.
