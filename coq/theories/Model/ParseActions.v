(** * The typed parse model of xml-parser (parser/src/model.rs, nom/src/model.rs) and the
    interpretation of the generic parse [tree] of [Peg.denote G_xml] into it.

    INTERFACE (small on purpose; builder-wf states C01/C02 against it):
    - the typed model: [qname reference att_value att_name attribute ppi element contents
      external_id entity_value entity_def pe_def decl_entity notation_id decl_notation
      att_type att_default decl_att_name att_def decl_att content_item decl_content
      decl_element markup int_subset decl_doc decl_xml misc prolog pdoc]  -- one type per
      struct/enum of model.rs, same constructor order, fields in declaration order;
    - [parse_document : str -> pres (pdoc * str)]  = xml_parser::document: the typed document
      and the unconsumed rest, [PFail] when nom returns an error.  [PBadTree] ("the tree
      produced by the grammar is not of the shape the map functions expect") and [POof] are
      model artefacts: the first is excluded by the `parse` correspondence on every run,
      the second by [Proofs.GrammarTermination.xml_grammar_terminates].
    - [parse_element], [parse_attribute], [parse_content], [parse_pi], [parse_comment],
      [parse_cdsect]: the other public entry points of xml-parser, same convention.

    HOW: [Peg.tree] is untyped; every function given to nom's [map] appears in it as
    [TMap label t].  [eval_tree] evaluates a tree bottom-up into the universe [val];
    [apply_label] is the table "label -> Rust function" (the overloaded [From] impls are
    resolved by the dynamic type of the argument, exactly as rustc resolves them by the
    static type).  The labels are referred to BY NAME from [Gen.GrammarXmlGen]; the name of
    a closure label contains a hash of the closure text, so an edited closure, a renamed or a
    new constructor function breaks the compilation of this file (tie broken, as intended). *)
From Coq Require Import List NArith Bool.
From XmlRs Require Import Base.CPred Model.Peg Gen.GrammarXmlGen.
Import ListNotations.
Local Open Scope N_scope.

(** ** nom/src/model.rs *)
Inductive qname :=
| Prefixed (prefix local_part : str)      (* QName::Prefixed(PrefixedName { prefix, local_part }) *)
| Unprefixed (name : str).

(** ** parser/src/model.rs *)
Inductive radix := Dec | Hex.             (* the [u32] of Reference::Character: only 10 (Reference::digit)
                                             and 16 (Reference::hex) are ever constructed *)
Inductive reference :=
| RefChar (num : str) (r : radix)         (* Reference::Character(&str, u32) *)
| RefEntity (name : str).

Inductive att_value := AvReference (r : reference) | AvText (s : str).

Inductive att_name :=
| AnDefaultNamespace                      (* xmlns *)
| AnNamespace (s : str)                   (* xmlns:s *)
| AnQName (q : qname).

Record attribute := Attribute { at_name : att_name; at_value : list att_value }.

Record ppi := PI { pi_target : str; pi_value : option str }.

Inductive contents_of (E : Type) :=
| CsElement (e : E)
| CsReference (r : reference)
| CsCData (s : str)                       (* CData { value } *)
| CsPI (p : ppi)
| CsComment (s : str).                    (* Comment { value } *)
Arguments CsElement {E} e.
Arguments CsReference {E} r.
Arguments CsCData {E} s.
Arguments CsPI {E} p.
Arguments CsComment {E} s.

(** Element { name, attributes, content : Option<Content> },
    Content { head : Option<&str>, children : Vec<ContentCell> },
    ContentCell { child : Contents, tail : Option<&str> } *)
Inductive element :=
| Element (e_name : qname) (e_attributes : list attribute)
          (e_content : option (option str * list (contents_of element * option str))).
Definition contents := contents_of element.
Definition cell := (contents * option str)%type.
Definition content := (option str * list cell)%type.

Definition e_name (e : element) := let 'Element n _ _ := e in n.
Definition e_attributes (e : element) := let 'Element _ a _ := e in a.
Definition e_content (e : element) : option content := let 'Element _ _ c := e in c.

Inductive external_id := ExSystem (s : str) | ExPublic (p s : str).

Inductive entity_value := EvText (s : str) | EvPeReference (s : str) | EvReference (r : reference).

Inductive entity_def := EdValue (l : list entity_value) | EdExternal (id : external_id) (ndata : option str).
Inductive pe_def := PdValue (l : list entity_value) | PdExternal (id : external_id).

Inductive decl_entity :=
| DeGeneral (name : str) (def : entity_def)       (* DeclarationGeneralEntity { name, def } *)
| DeParameter (name : str) (def : pe_def).        (* DeclarationParameterEntity { name, def } *)

Inductive notation_id := NiExternal (id : external_id) | NiPublic (s : str).
Record decl_notation := DeclNotation { dn_name : str; dn_id : notation_id }.

Inductive att_type :=
| AtCdata | AtEntities | AtEntity | AtId | AtIdRef | AtIdRefs | AtNmToken | AtNmTokens
| AtNotation (l : list str) | AtEnumeration (l : list str).

Inductive att_default := AdRequired | AdImplied | AdValue (fixed : option str) (v : list att_value).

Inductive decl_att_name := DanAttr (q : qname) | DanNamespace (a : att_name).

Record att_def := AttDef { ad_name : decl_att_name; ad_ty : att_type; ad_value : att_default }.
Record decl_att := DeclAtt { da_name : qname; da_defs : list att_def }.

Inductive content_item :=
| CiName (q : qname) (quant : option str)
| CiChoice (l : list content_item) (quant : option str)
| CiSeq (l : list content_item) (quant : option str).

Inductive decl_content := DcEmpty | DcAny | DcMixed (l : option (list qname)) | DcChildren (c : content_item).
Record decl_element := DeclElement { del_name : qname; del_content : decl_content }.

Inductive markup :=
| MkElement (d : decl_element) | MkAttributes (d : decl_att) | MkEntity (d : decl_entity)
| MkNotation (d : decl_notation) | MkPI (p : ppi) | MkComment (s : str).

Inductive int_subset := IsMarkup (m : markup) | IsPeReference (s : str) | IsWhitespace (s : str).

Record decl_doc := DeclDoc { dd_name : qname; dd_external_id : option external_id; dd_internal_subset : list int_subset }.
Record decl_xml := DeclXml { dx_version : str; dx_encoding : option str; dx_standalone : option bool }.

Inductive misc := MiComment (s : str) | MiPI (p : ppi) | MiWhitespace (s : str).

Record prolog := Prolog { pr_declaration_xml : option decl_xml; pr_heads : list misc;
                          pr_declaration_doc : option decl_doc; pr_tails : list misc }.
Record pdoc := Document { d_prolog : prolog; d_element : element; d_miscs : list misc }.

(** ** the universe of values the map functions consume and produce *)
Inductive val :=
| VStr (s : str) | VPair (a b : val) | VList (l : list val) | VNone | VSome (v : val)
| VUnit | VBool (b : bool)
| VPrefixedName (p l : str) | VQName (q : qname)
| VReference (r : reference) | VAttValue (a : att_value) | VAttName (a : att_name) | VAttribute (a : attribute)
| VEntityValue (e : entity_value) | VComment (s : str) | VCData (s : str) | VPI (p : ppi)
| VElement (e : element) | VContent (c : content) | VContents (c : contents)
| VExternalId (x : external_id) | VEntityDef (d : entity_def) | VPeDef (d : pe_def)
| VGeneralEntity (name : str) (d : entity_def) | VParameterEntity (name : str) (d : pe_def)
| VDeclEntity (d : decl_entity)
| VNotationId (i : notation_id) | VDeclNotation (d : decl_notation)
| VAttType (t : att_type) | VAttDefault (d : att_default) | VDeclAttName (n : decl_att_name)
| VAttDef (d : att_def) | VDeclAtt (d : decl_att)
| VContentItem (c : content_item) | VDeclContent (c : decl_content) | VDeclElement (d : decl_element)
| VMarkup (m : markup) | VIntSubset (i : int_subset)
| VDeclDoc (d : decl_doc) | VDeclXml (d : decl_xml) | VMisc (m : misc) | VProlog (p : prolog)
| VDocument (d : pdoc)
| VBad.                                   (* ill-typed application: never produced by [denote G_xml] *)

(** typed views *)
Definition as_str (v : val) : option str := match v with VStr s => Some s | _ => None end.
Definition as_opt {A} (f : val -> option A) (v : val) : option (option A) :=
  match v with
  | VNone => Some None
  | VSome x => match f x with Some a => Some (Some a) | None => None end
  | _ => None
  end.
Fixpoint all_some {A} (l : list (option A)) : option (list A) :=
  match l with
  | [] => Some []
  | Some a :: l' => match all_some l' with Some r => Some (a :: r) | None => None end
  | None :: _ => None
  end.
Definition as_list {A} (f : val -> option A) (v : val) : option (list A) :=
  match v with VList l => all_some (map f l) | _ => None end.
Definition as_attvalue v := match v with VAttValue a => Some a | _ => None end.
Definition as_attribute v := match v with VAttribute a => Some a | _ => None end.
Definition as_misc v := match v with VMisc m => Some m | _ => None end.
Definition as_qname v := match v with VQName q => Some q | _ => None end.
Definition as_entity_value v := match v with VEntityValue e => Some e | _ => None end.
Definition as_content_item v := match v with VContentItem c => Some c | _ => None end.
Definition as_att_def v := match v with VAttDef d => Some d | _ => None end.
Definition as_int_subset v := match v with VIntSubset i => Some i | _ => None end.
Definition as_external_id v := match v with VExternalId x => Some x | _ => None end.
Definition as_bool v := match v with VBool b => Some b | _ => None end.
Definition as_decl_xml v := match v with VDeclXml d => Some d | _ => None end.
Definition as_cell (v : val) : option cell :=
  match v with
  | VPair (VContents c) t => match as_opt as_str t with Some t' => Some (c, t') | None => None end
  | _ => None
  end.
Definition as_doc_tail (v : val) : option (decl_doc * list misc) :=
  match v with
  | VPair (VDeclDoc d) ms => match as_list as_misc ms with Some l => Some (d, l) | None => None end
  | _ => None
  end.

Definition ret {A} (f : A -> val) (o : option A) : val := match o with Some a => f a | None => VBad end.

(** [str_eqb] is Peg.str_eqb (element-wise N.eqb) *)
Definition s_yes : str := [121;101;115].

(** Element::set_content *)
Definition set_content (e : element) (c : content) : element :=
  let 'Element n a _ := e in Element n a (Some c).

(** ** label -> function.  One line per function given to [map] in parser/src/lib.rs and
    nom/src/lib.rs; the Rust text of each label is in Gen/GrammarXmlGen.json. *)
Definition apply_label (l : N) (v : val) : val :=
  (* nom/src/lib.rs *)
  if N.eqb l L_model_QName_from then
    match v with VPrefixedName p q => VQName (Prefixed p q) | VStr s => VQName (Unprefixed s) | _ => VBad end
  else if N.eqb l L_model_PrefixedName_from then
    match v with VPair (VStr p) (VStr q) => VPrefixedName p q | _ => VBad end
  (* document *)
  else if N.eqb l L_model_Document_from then
    match v with
    | VPair (VProlog p) (VPair (VElement e) ms) => ret (fun m => VDocument (Document p e m)) (as_list as_misc ms)
    | _ => VBad
    end
  (* entity_value *)
  else if N.eqb l L_model_EntityValue_text then ret (fun s => VEntityValue (EvText s)) (as_str v)
  else if N.eqb l L_model_EntityValue_pe_reference then ret (fun s => VEntityValue (EvPeReference s)) (as_str v)
  else if N.eqb l L_model_EntityValue_reference then
    match v with VReference r => VEntityValue (EvReference r) | _ => VBad end
  (* att_value *)
  else if N.eqb l L_model_AttributeValue_from then
    match v with VStr s => VAttValue (AvText s) | VReference r => VAttValue (AvReference r) | _ => VBad end
  else if N.eqb l L_model_Comment_from then ret VComment (as_str v)
  else if N.eqb l L_model_PI_from then
    match v with
    | VPair (VStr t) d => ret (fun d' => VPI (PI t d')) (as_opt as_str d)
    | _ => VBad
    end
  else if N.eqb l L_model_CData_from then ret VCData (as_str v)
  (* prolog: (Option<DeclarationXml>, Vec<Misc>, Option<(DeclarationDoc, Vec<Misc>)>) *)
  else if N.eqb l L_model_Prolog_from then
    match v with
    | VPair x (VPair hs t) =>
      match as_opt as_decl_xml x, as_list as_misc hs, as_opt as_doc_tail t with
      | Some x', Some hs', Some t' =>
        VProlog (Prolog x' hs' (match t' with Some (d, _) => Some d | None => None end)
                        (match t' with Some (_, ms) => ms | None => [] end))
      | _, _, _ => VBad
      end
    | _ => VBad
    end
  else if N.eqb l L_model_DeclarationXml_from then
    match v with
    | VPair (VStr ver) (VPair e s) =>
      match as_opt as_str e, as_opt as_bool s with
      | Some e', Some s' => VDeclXml (DeclXml ver e' s')
      | _, _ => VBad
      end
    | _ => VBad
    end
  else if N.eqb l L_model_Misc_from then
    match v with
    | VComment s => VMisc (MiComment s) | VPI p => VMisc (MiPI p) | VStr s => VMisc (MiWhitespace s)
    | _ => VBad
    end
  (* doctype_decl: (QName, Option<ExternalId>, Option<Vec<InternalSubset>>); unwrap_or_default *)
  else if N.eqb l L_model_DeclarationDoc_from then
    match v with
    | VPair (VQName n) (VPair x s) =>
      match as_opt as_external_id x, as_opt (as_list as_int_subset) s with
      | Some x', Some s' => VDeclDoc (DeclDoc n x' (match s' with Some i => i | None => [] end))
      | _, _ => VBad
      end
    | _ => VBad
    end
  else if N.eqb l L_model_InternalSubset_from then
    match v with
    | VMarkup m => VIntSubset (IsMarkup m) | VStr s => VIntSubset (IsPeReference s)
    | _ => VBad
    end
  else if N.eqb l L_model_InternalSubset_Whitespace then ret (fun s => VIntSubset (IsWhitespace s)) (as_str v)
  else if N.eqb l L_model_DeclarationMarkup_element then
    match v with VDeclElement d => VMarkup (MkElement d) | _ => VBad end
  else if N.eqb l L_model_DeclarationMarkup_attributes then
    match v with VDeclAtt d => VMarkup (MkAttributes d) | _ => VBad end
  else if N.eqb l L_model_DeclarationMarkup_from then
    match v with
    | VDeclEntity d => VMarkup (MkEntity d) | VDeclNotation d => VMarkup (MkNotation d)
    | VPI p => VMarkup (MkPI p) | VComment s => VMarkup (MkComment s)
    | _ => VBad
    end
  (* sd_decl: |v| v == "yes" *)
  else if N.eqb l L_closure_e66119a0 then ret (fun s => VBool (str_eqb s s_yes)) (as_str v)
  (* element: |(s, c, _)| s.set_content(c); since 8357055 the third component is the QName of the
     end tag (compared with the start tag by nom's verify = Peg.VerifyEq) *)
  else if N.eqb l L_closure_f7047233 then
    match v with VPair (VElement s) (VPair (VContent c) _) => VElement (set_content s c) | _ => VBad end
  else if N.eqb l L_model_Element_from then
    match v with
    | VPair (VQName n) a => ret (fun a' => VElement (Element n a' None)) (as_list as_attribute a)
    | _ => VBad
    end
  else if N.eqb l L_model_Attribute_from then
    match v with
    | VPair (VAttName n) a => ret (fun a' => VAttribute (Attribute n a')) (as_list as_attvalue a)
    | _ => VBad
    end
  else if N.eqb l L_model_AttributeName_from then
    match v with VStr s => VAttName (AnNamespace s) | VQName q => VAttName (AnQName q) | _ => VBad end
  (* content: |(head, children)| Content::from((head, children.into_iter().map(ContentCell::from).collect())) *)
  else if N.eqb l L_closure_11e3fda0 then
    match v with
    | VPair h c =>
      match as_opt as_str h, as_list as_cell c with
      | Some h', Some c' => VContent (h', c')
      | _, _ => VBad
      end
    | _ => VBad
    end
  else if N.eqb l L_model_Contents_from then
    match v with
    | VElement e => VContents (CsElement e) | VReference r => VContents (CsReference r)
    | VCData s => VContents (CsCData s) | VPI p => VContents (CsPI p) | VComment s => VContents (CsComment s)
    | _ => VBad
    end
  (* DTD: element declarations *)
  else if N.eqb l L_model_DeclarationElement_from then
    match v with VPair (VQName n) (VDeclContent c) => VDeclElement (DeclElement n c) | _ => VBad end
  else if N.eqb l L_closure_96065bcb then VDeclContent DcEmpty
  else if N.eqb l L_closure_eea513b6 then VDeclContent DcAny
  else if N.eqb l L_model_DeclarationContent_Mixed then
    ret (fun m => VDeclContent (DcMixed m)) (as_opt (as_list as_qname) v)
  else if N.eqb l L_model_DeclarationContent_Children then
    match v with VContentItem c => VDeclContent (DcChildren c) | _ => VBad end
  else if N.eqb l L_closure_6f80cde5 then
    match v with
    | VPair x q => match as_list as_content_item x, as_opt as_str q with
                   | Some x', Some q' => VContentItem (CiSeq x' q') | _, _ => VBad end
    | _ => VBad
    end
  else if N.eqb l L_closure_d89bea1a then
    match v with
    | VPair x q => match as_list as_content_item x, as_opt as_str q with
                   | Some x', Some q' => VContentItem (CiChoice x' q') | _, _ => VBad end
    | _ => VBad
    end
  else if N.eqb l L_closure_82e89c41 then
    match v with
    | VPair (VQName n) q => ret (fun q' => VContentItem (CiName n q')) (as_opt as_str q)
    | _ => VBad
    end
  (* |(f, mut r)| { r.insert(0, f); r } *)
  else if N.eqb l L_closure_441e6bc9 then
    match v with VPair f (VList r) => VList (f :: r) | _ => VBad end
  else if N.eqb l L_Some then VSome v
  else if N.eqb l L_closure_b4173c6c then VNone
  (* DTD: attribute-list declarations *)
  else if N.eqb l L_model_DeclarationAtt_from then
    match v with
    | VPair (VQName n) d => ret (fun d' => VDeclAtt (DeclAtt n d')) (as_list as_att_def d)
    | _ => VBad
    end
  else if N.eqb l L_model_DeclarationAttDef_from then
    match v with
    | VPair (VDeclAttName n) (VPair (VAttType t) (VAttDefault d)) => VAttDef (AttDef n t d)
    | _ => VBad
    end
  else if N.eqb l L_model_DeclarationAttName_Attr then
    match v with VQName q => VDeclAttName (DanAttr q) | _ => VBad end
  else if N.eqb l L_model_DeclarationAttName_Namsspace then
    match v with VAttName a => VDeclAttName (DanNamespace a) | _ => VBad end
  else if N.eqb l L_closure_aad7a7dd then VAttType AtCdata
  else if N.eqb l L_closure_13274102 then VAttType AtIdRefs
  else if N.eqb l L_closure_37dcd20d then VAttType AtIdRef
  else if N.eqb l L_closure_965707e8 then VAttType AtId
  else if N.eqb l L_closure_cb1d4c33 then VAttType AtEntities
  else if N.eqb l L_closure_f8f5585b then VAttType AtEntity
  else if N.eqb l L_closure_cf16e71f then VAttType AtNmTokens
  else if N.eqb l L_closure_1e7e0608 then VAttType AtNmToken
  else if N.eqb l L_model_DeclarationAttType_Notation then ret (fun x => VAttType (AtNotation x)) (as_list as_str v)
  else if N.eqb l L_model_DeclarationAttType_Enumeration then ret (fun x => VAttType (AtEnumeration x)) (as_list as_str v)
  else if N.eqb l L_closure_813e2abc then VAttDefault AdRequired
  else if N.eqb l L_closure_9e9af08f then VAttDefault AdImplied
  else if N.eqb l L_closure_891fe81b then
    match v with
    | VPair f a => match as_opt as_str f, as_list as_attvalue a with
                   | Some f', Some a' => VAttDefault (AdValue f' a') | _, _ => VBad end
    | _ => VBad
    end
  (* references *)
  else if N.eqb l L_model_Reference_digit then ret (fun s => VReference (RefChar s Dec)) (as_str v)
  else if N.eqb l L_model_Reference_hex then ret (fun s => VReference (RefChar s Hex)) (as_str v)
  else if N.eqb l L_model_Reference_entity then ret (fun s => VReference (RefEntity s)) (as_str v)
  (* DTD: entity and notation declarations *)
  else if N.eqb l L_model_DeclarationEntity_from then
    match v with
    | VGeneralEntity n d => VDeclEntity (DeGeneral n d) | VParameterEntity n d => VDeclEntity (DeParameter n d)
    | _ => VBad
    end
  else if N.eqb l L_model_DeclarationGeneralEntity_from then
    match v with VPair (VStr n) (VEntityDef d) => VGeneralEntity n d | _ => VBad end
  else if N.eqb l L_model_DeclarationParameterEntity_from then
    match v with VPair (VStr n) (VPeDef d) => VParameterEntity n d | _ => VBad end
  else if N.eqb l L_model_DeclarationEntityDef_from then
    match v with
    | VList _ => ret (fun x => VEntityDef (EdValue x)) (as_list as_entity_value v)
    | VPair (VExternalId x) n => ret (fun n' => VEntityDef (EdExternal x n')) (as_opt as_str n)
    | _ => VBad
    end
  else if N.eqb l L_model_DeclarationPeDef_from then
    match v with
    | VList _ => ret (fun x => VPeDef (PdValue x)) (as_list as_entity_value v)
    | VExternalId x => VPeDef (PdExternal x)
    | _ => VBad
    end
  else if N.eqb l L_model_ExternalId_from then
    match v with
    | VStr s => VExternalId (ExSystem s) | VPair (VStr p) (VStr s) => VExternalId (ExPublic p s)
    | _ => VBad
    end
  else if N.eqb l L_model_DeclarationNotation_from then
    match v with VPair (VStr n) (VNotationId i) => VDeclNotation (DeclNotation n i) | _ => VBad end
  else if N.eqb l L_model_DeclarationNotationId_from then
    match v with VExternalId x => VNotationId (NiExternal x) | VStr s => VNotationId (NiPublic s) | _ => VBad end
  (* ns_att_name: |_| AttributeName::default() *)
  else if N.eqb l L_closure_e50bdeb9 then VAttName AnDefaultNamespace
  else VBad.

Fixpoint eval_tree (t : tree) : val :=
  match t with
  | TStr s => VStr s
  | TPair a b => VPair (eval_tree a) (eval_tree b)
  | TList l => VList (map eval_tree l)
  | TNone => VNone
  | TSome x => VSome (eval_tree x)
  | TMap l x => apply_label l (eval_tree x)
  end.

(** ** entry points *)
Inductive pres (A : Type) := POk (a : A) | PFail | PBadTree | POof.
Arguments POk {A} a.
Arguments PFail {A}.
Arguments PBadTree {A}.
Arguments POof {A}.

Definition parse_with {A} (nt : nat) (view : val -> option A) (s : str) : pres (A * str) :=
  match run G_xml G_xml_R nt s with
  | Ok (t, rest) => match view (eval_tree t) with Some a => POk (a, rest) | None => PBadTree end
  | Fail => PFail
  | Oof => POof
  end.

Definition parse_document : str -> pres (pdoc * str) :=
  parse_with nt_document (fun v => match v with VDocument d => Some d | _ => None end).
Definition parse_element : str -> pres (element * str) :=
  parse_with nt_element (fun v => match v with VElement e => Some e | _ => None end).
Definition parse_attribute : str -> pres (attribute * str) := parse_with nt_attribute as_attribute.
Definition parse_content : str -> pres (content * str) :=
  parse_with nt_content (fun v => match v with VContent c => Some c | _ => None end).
Definition parse_pi : str -> pres (ppi * str) :=
  parse_with nt_pi (fun v => match v with VPI p => Some p | _ => None end).
Definition parse_comment : str -> pres (str * str) :=
  parse_with nt_comment (fun v => match v with VComment c => Some c | _ => None end).
Definition parse_cdsect : str -> pres (str * str) :=
  parse_with nt_cdsect (fun v => match v with VCData c => Some c | _ => None end).
