(** C15 -- Edits that succeed keep the document serializable and faithful.

    'No sequence of DOM calls that each report success can leave a document whose serialization
    the parser rejects or that denotes content different from what the DOM reports.  Character
    data, comments, CDATA sections, PI targets and data, element and attribute names and attribute
    values supplied through the API are either stored so that they survive a print/parse round
    trip or refused with an error - also when the offending sequence (']]>', '--', '?>', a quote,
    '<', '&') only arises from combining several individually harmless edits.'

    Full statement (DESIGN 5.15):
      printable_reachable : forall d ops, Printable (fold_left step ops (parse d))
      edited_roundtrip    : forall st, TreeInv st -> Printable st ->
                            exists d', from_raw_model (display st) = Ok ([], d') /\ merged d' = merged st

    What is proved here, for the model of the repaired code (Model/DomOps.v after the fixes D39,
    D46): [C15_printable_reachable] -- after EVERY history (calls that fail, are refused or panic
    included) every stored string satisfies the lexical invariant of its node kind
    ([Printable], Proofs/DomPrintable.v): a Text holds characters other than '<' and '&', a
    Comment no '--' and no trailing '-', a CDATASection no ']]>', a PI a name and data without
    '?>', elements / attributes / entity references hold names.  The character-data clauses need
    no hypothesis: the model validates the RESULTING string of every data edit with the checks of
    Model/CharData.v (= the storability predicates of XML 1.0, Proofs/CharDataProofs.v), which is
    exactly what the repair of D46 made the code do -- 'combining several individually harmless
    edits' is covered because the invariant is re-established on the combined string.  Names, PI
    data and attribute value pieces enter the model as facts computed by the implementation's
    parser; the theorem assumes those facts are lexically sound ([op_facts_ok]).
    [C15_printable_reachable_model_facts] (last section; Model/DomFacts.v, Proofs/DomFacts*.v)
    discharges that hypothesis for facts computed by the MODEL of the parser ([facts_of_name],
    [facts_of_data]: [Peg.run] on the regenerated grammar, read through Model/ParseActions.v, on the
    markup the code builds around the argument): for every string the computed facts are lexically
    sound ([C15_name_facts_ok_model], [C15_data_facts_ok_model], [C15_facts_ok15_model]), outside
    the decidable exclusions [KnownFacts] (Properties/C13.v: finding D04 seen through
    create_processing_instruction, create_entity_reference and references inside attribute values).
    Likewise [C15_lex15_reachable_model_facts],
    [C15_edited_roundtrip_model_facts], [C15_edited_roundtrip_merged_model_facts]: the theorems
    below without [op_facts_ok] / [op_facts_ok15].  [C15_char_data_checks_model]: the validity checks
    that the model applies to the resulting string of every character-data edit ([valid_str]:
    Model/CharData.v [check_text] / [check_comment] / [check_cdata]) ARE what the model of the parser
    answers on the markup XmlText::check / XmlComment::check / XmlCData::check build
    (content(s) complete and without child, comment / cdsect on the delimited text complete), for
    every string.  What remains assumed is that the implementation's parser computes what its model
    computes (the [prod] / [parse] / [dom] correspondences, checked on every run).

    [edited_roundtrip] (second half of this file; Model/StoreDoc.v, Proofs/StoreDoc*.v).
    [doc_of_store s : Info.document] is the infoset document a store denotes: the children of the
    Document item, every element with its attributes (value pieces) and children, walked exactly
    as the printer walks them; the XML declaration and the document type declaration, which the
    store keeps as text, denote what the parser reads from that text.  Proved:

      C15_display_is_show        display (doc_of_store s) = show_doc s
                                 (the printer of the infoset model on the denoted document writes
                                 the text the store model prints, [show_doc] being tied to the real
                                 to_string() by the dom correspondence)
      C15_store_doc_printable    TreeInv s -> Lex15 s -> UniqQ s -> Known15 s = false ->
                                 printable (doc_of_store s)         ([printable]: C04's invariant)
      C15_edited_roundtrip_partial    ... -> exists d', pipeline_parse (display (doc_of_store s)) = OOk ([], d')
                                 /\ doc_eq d' (doc_of_store s)   (with C04's print_parse_partial_printable)
      C15_edited_roundtrip_reachable  the same for every document of every world reachable from a
                                 world with the invariants, stated on [show_doc s].

    [Lex15] = [Printable] and four clauses that are facts of the implementation's parser (a PI
    target is not xml, PI data do not start with white space, the name of a character reference is
    # digits or #x hex digits of the stored character, the header texts are prints); it is kept by
    every call ([C15_lex15_reachable], facts hypotheses [op_facts_ok], [op_facts_ok15]) and
    decidable on the driver's tables ([C15_lex15_checkable]).  [UniqQ] is C13's invariant.

    PARTIAL: the statement is restricted by [Known15 s = false], a decidable predicate with one
    clause per listed finding (position / neighbour dependent, so no per-node invariant covers
    them): K_noroot (C15-NOROOT), K_el_before_dt (C15-ELEMENT-BEFORE-DOCTYPE), K_adjacent_text
    (C15-ADJACENT-TEXT, here: any two neighbouring Text items, because the conclusion is equality
    of the UNMERGED documents), K_empty_text (DD3), K_text_cdend (C15-ATTR-TEXT-MOVED),
    K_both_quotes (D59: the repaired printer writes the reference quot, so the value pieces
    differ although the value does not), K_unresolved (C15-DOCTYPE-REMOVED, generalised: an
    entity reference that does not resolve AT ITS POSITION).  Each clause has a refutation
    witness, a reachable store computed from a history ([C15_known15_refuted]).  The last clause
    also covers a defect that is NOT among the listed findings ([C15_entref_unchecked_refuted]):
    with the document type in place, create_entity_reference accepts any declared entity (an
    unparsed one, a recursive one, one whose replacement text is not content) and the reference
    can be appended to an element or an attribute; the parser refuses the print.  The [merged]
    view of the full statement is not used: the conclusion here is the stronger equality of
    item lists, which is why adjacent and empty Text items are excluded.

    Merged form (Model/StoreDocMerged.v, Proofs/StoreDocMerged*.v) -- the closest to the full
    statement.  [norm_doc d] writes every maximal run of neighbouring Text items (and of
    neighbouring text pieces of an attribute value) as one item: the parser cannot return anything
    else.  [C15_edited_roundtrip_merged_reachable]: for every document [s] of every reachable
    world, [Known15m s = false -> pipeline_parse (show_doc s) = OOk ([], norm_doc (doc_of_store s))].
    [Known15m] has the clauses K_noroot, K_el_before_dt, K_empty_text, K_both_quotes, K_unresolved
    of [Known15] and, instead of K_adjacent_text and K_text_cdend, the single clause K_run_cdend:
    the characters of a maximal run of Text children of an element contain the CDATA end mark --
    exactly C15-ADJACENT-TEXT and C15-ATTR-TEXT-MOVED.  Neighbouring Text items as such are inside
    the theorem ([C15_adjacent_text_merged_example]).  Witnesses: [C15_known15m_refuted].

    Connection to C14 (last section; Proofs/StoreIso.v, StoreIsoSim.v, StoreIsoDoc.v, StoreIsoQuery.v,
    StoreDocPiFlag.v).  The second sentence of C14 ([C14_query_depends_on_tree_only]) had one
    hypothesis left: [same_tree] of the table of the edited document and the table of the
    re-parse.  Here:
      C15_iso_same_tree        an injective renaming of ids that keeps kinds, the names and data
                               the view reads, child / attribute lists and the string facts
                               gives [same_tree] (every field of every row, both views)
      C15_same_doc_same_tree   two stores with TreeInv, Lex15, PiFlagOk that denote the same
                               document ([doc_of_store s1 = doc_of_store s2]) are related by such
                               a renaming, hence [same_tree] -- for string facts that are
                               functions of the denoted attribute / value piece ([FactsBy])
      C14_query_on_reparse     (stated in Properties/C14.v) for an edited document [s1] of a reachable world outside [Known15],
                               the document [d'] the parser returns for its print and ANY store
                               [s2] with the invariants that denotes [d']: every supported
                               expression has the same value on both tables, the value XPath 1.0
                               prescribes.
    There is no Coq function from a parsed document to a store (the drivers build initial stores
    from the implementation's dump); the store of the re-parse is therefore characterised by
    [doc_of_store s2 = d'], which is decided by computation for a concrete table
    ([C14_query_on_reparse_example]).  [PiFlagOk] (a PI without content holds no data) is a new
    invariant of every history ([C15_piflag_reachable], no facts hypothesis): the table reads the
    data of a PI, the printer and the infoset only when the flag is set. *)
From Coq Require Import List NArith Bool.
From XmlRs Require Import Base.CPred.
From XmlRs Require Import Model.XPathAst Model.XDoc Model.XPathEval Spec.XPath10 Proofs.XPathRefineSupp Proofs.XPathRefineEval Proofs.XPathTreeOnly.
From XmlRs Require Import Spec.XmlChars Spec.DomCharData.
From XmlRs Require Import Model.Info Model.Display Proofs.DisplayEq Proofs.DisplayFull.
From XmlRs Require Import Model.Store Model.StoreCheck Model.PrintableCheck Model.DomOps Model.StoreDoc
  Proofs.DomTree Proofs.DomOpsInv Proofs.CharDataProofs Proofs.DomPrintable Proofs.DomL1RefineInv
  Proofs.DomOrder Proofs.DomOrderInv Model.StoreView
  Proofs.StoreDocInv Proofs.StoreDocShow Proofs.StoreDocWf Proofs.StoreDocReach
  Model.StoreDocMerged Proofs.StoreDocMerged Proofs.StoreDocMergedReach
  Proofs.StoreDocPiFlag Proofs.StoreIso Proofs.StoreIsoSim Proofs.StoreIsoDoc Proofs.StoreIsoQuery
  Model.DomFacts Proofs.DomFactsAgree Proofs.DomFactsRefine Proofs.DomFactsLex15 Proofs.DomFactsChecks.
From XmlRs Require Model.CharData Proofs.NameLanguage Proofs.DomFactsData.
Import ListNotations.
Open Scope N_scope.

Theorem C15_step_printable : forall w o, WPrintable w -> op_facts_ok o -> WPrintable (fst (step w o)).
Proof. exact step_printable. Qed.

Theorem C15_printable_reachable_partial : forall ops w,
  WPrintable w -> Forall op_facts_ok ops -> WPrintable (run w ops).
Proof. exact printable_reachable. Qed.

(** the character-data calls carry no fact at all: for histories of data edits, tree edits and the
    text / comment / CDATA factories the theorem is unconditional *)
Definition data_only (o : op) : bool :=
  match o with
  | AppendChild _ _ | InsertBefore _ _ _ | ReplaceChild _ _ _ | RemoveChild _ _
  | SetAttributeNode _ _ | RemoveAttribute _ _ | RemoveAttributeNode _ _ | SetNamedItem _ _ | RemoveNamedItem _ _
  | CreateTextNode _ _ | CreateComment _ _ | CreateCDataSection _ _ | CreateDocumentFragment _
  | SetData _ _ | AppendData _ _ | InsertData _ _ _ | DeleteData _ _ _ | ReplaceData _ _ _ _ | SplitText _ _ | Query _ => true
  | _ => false
  end.

Theorem C15_printable_reachable_data : forall ops w,
  WPrintable w -> forallb data_only ops = true -> WPrintable (run w ops).
Proof.
  intros ops w Hw H. apply printable_reachable; [exact Hw|].
  apply Forall_forall. intros o Ho. rewrite forallb_forall in H. specialize (H o Ho).
  destruct o; try discriminate; exact I.
Qed.

(** what the invariant gives for each node, in the vocabulary of XML 1.0 (via C16's lemmas) *)
Theorem C15_stored_strings_storable : forall s i it, Printable s -> get s i = Some it ->
  match ikind it with
  | KCm => storable KComment (idata it) = true
  | KCd => storable KCData (idata it) = true
  | KTx => forallb (fun c => isChar c && negb (c =? 60) && negb (c =? 38)) (idata it) = true
  | _ => True
  end.
Proof.
  intros s i it P H. pose proof (P i it H) as Ho. unfold item_ok in Ho. destruct (ikind it); try exact I.
  - unfold text_lex in Ho. erewrite forallb_ext_eq; [exact Ho|]. intros c. cbn. now rewrite is_xml_char_spec.
  - cbn [storable]. rewrite <- check_cdata_spec. exact Ho.
  - cbn [storable]. rewrite <- check_comment_spec. exact Ho.
Qed.

Theorem C15_printable_items : forall s i it, Printable s -> get s i = Some it ->
  match ikind it with
  | KTx => forallb (fun c => negb (c =? 60) && negb (c =? 38)) (idata it) = true
  | KCm => CharData.has_double_hyphen (idata it) = false /\ CharData.ends_with_hyphen (idata it) = false
  | KCd => CharData.has_cdend (idata it) = false
  | KPi => CharData.has_sub [63; 62] (idata it) = false
  | _ => True
  end.
Proof. exact printable_items. Qed.

(** the hypotheses are satisfiable by a non-trivial world and history: 'a' -> append ']]' (stored),
    append '>' (refused: the result would hold ']]>'), the comment 'a-x-b' -> delete 'x' (refused) *)
Definition ex_store : store :=
  mkStore (fun i => if i =? 1 then Some (mkItem KDoc None [] [] false None [2] [] [])
                    else if i =? 2 then Some (mkItem KEl None [114] [] false (Some 1) [3; 4] [] [])
                    else if i =? 3 then Some (mkItem KTx None [] [97] false (Some 2) [] [] [])
                    else if i =? 4 then Some (mkItem KCm None [] [97; 45; 120; 45; 98] false (Some 2) [] [] [])
                    else None) 5 [] 1 [] true.
Definition ex_world : world := mkWorld [ex_store].
Definition dinfo (s : str) : data_info := mkData s false false false None None.
Definition ex_ops : list op :=
  [AppendData (0, 3) (dinfo [93; 93]); AppendData (0, 3) (dinfo [62]); DeleteData (0, 4) 2 1;
   ReplaceData (0, 4) 2 1 (dinfo [121])].

Example ex_world_printable : WPrintable ex_world.
Proof.
  constructor; [|constructor]. intros i it H. unfold ex_store, get in H. cbn [items] in H.
  repeat match type of H with
         | (if ?c then _ else _) = _ => destruct c; [inversion H; subst; reflexivity|]
         end.
  discriminate.
Qed.

Example ex_history :
  forallb data_only ex_ops = true
  /\ map (fun k => snd (step (run ex_world (firstn k ex_ops)) (nth k ex_ops (Query (0, 0))))) [0; 1; 2; 3]%nat
     = [Ok RUnit; Failed InfoErr; Failed InfoErr; Ok RUnit]
  /\ option_map (fun s => (data_of s 3, data_of s 4)) (doc_at (run ex_world ex_ops) 0)
     = Some ([97; 93; 93], [97; 45; 121; 45; 98]).
Proof. vm_compute. repeat split. Qed.

(** the hypothesis [WPrintable init] is decidable on the finite tables the model driver builds from
    the implementation's dump of the parsed documents, and is evaluated there for every case *)
Theorem C15_printable_checkable : forall l nx decl root, printable_b l = true -> Printable (store_of_list l nx decl root).
Proof. exact printable_b_sound. Qed.

Print Assumptions C15_printable_checkable.
Print Assumptions C15_step_printable.
Print Assumptions C15_printable_reachable_partial.
Print Assumptions C15_printable_reachable_data.
Print Assumptions C15_stored_strings_storable.
Print Assumptions C15_printable_items.

(** ** the round trip of edited documents *)

(** the strengthened lexical invariant along histories, and its executable form *)
Theorem C15_lex15_reachable : forall ops w,
  WLex15 w -> Forall op_facts_ok ops -> Forall op_facts_ok15 ops -> WLex15 (run w ops).
Proof. exact lex15_reachable. Qed.

Theorem C15_lex15_checkable : forall l nx decl root,
  lex15_b decl l = true -> decl_ok (store_of_list l nx decl root) = true -> Lex15 (store_of_list l nx decl root).
Proof. exact lex15_b_sound. Qed.

(** [doc_of_store] is faithful to the printer *)
Theorem C15_display_is_show : forall s, TreeInv s -> Lex15 s -> display (doc_of_store s) = show_doc s.
Proof. intros s T L. apply display_show_doc; [exact T | exact L | apply lex15_hdr_ok; exact L]. Qed.

Theorem C15_store_doc_printable : forall s,
  TreeInv s -> Lex15 s -> UniqQ s -> Known15 s = false -> printable (doc_of_store s).
Proof. intros s T L U K. apply store_doc_printable; try assumption. apply lex15_hdr_ok. exact L. Qed.

Theorem C15_edited_roundtrip_partial : forall s,
  TreeInv s -> Lex15 s -> UniqQ s -> Known15 s = false ->
  exists d', pipeline_parse (display (doc_of_store s)) = OOk ([], d') /\ doc_eq d' (doc_of_store s)
             /\ display (doc_of_store s) = show_doc s.
Proof.
  intros s T L U K. destruct (edited_roundtrip s T L U K) as [E1 [_ E3]]. exists (doc_of_store s).
  split; [unfold pipeline_parse; rewrite E1; exact E3|]. split; [reflexivity | exact E1].
Qed.

Theorem C15_edited_roundtrip_reachable : forall init ops k s,
  WInv2 init -> WLex15 init -> Forall op_facts_ok ops -> Forall op_facts_ok15 ops ->
  doc_at (run init ops) k = Some s -> Known15 s = false ->
  exists d', pipeline_parse (show_doc s) = OOk ([], d') /\ doc_eq d' (doc_of_store s).
Proof.
  intros init ops k s I2 L F1 F2 D K. destruct (edited_roundtrip_reachable init ops k s I2 L F1 F2 D K) as [_ E].
  exists (doc_of_store s). split; [exact E | reflexivity].
Qed.

(** every clause of [Known15] is needed: a reachable store with the invariants on which exactly
    that clause holds and the statement is false (clauses in the order of [known15_vector]) *)
Theorem C15_known15_refuted :
  refuted 0 /\ refuted 1 /\ refuted 2 /\ refuted 3 /\ refuted 4 /\ refuted 5 /\ refuted 6.
Proof.
  split; [exact noroot_refuted|]. split; [exact el_before_dt_refuted|]. split; [exact adjacent_text_refuted|].
  split; [exact empty_text_refuted|]. split; [exact text_cdend_refuted|]. split; [exact both_quotes_refuted | exact unresolved_refuted].
Qed.

(** NOT a listed finding: the document type is in place, the entity is declared (unparsed) *)
Theorem C15_entref_unchecked_refuted :
  exists s, final w7_items 4 [] w7_ops = Some s /\ doc_decl s = Some 2 /\ ~ roundtrip_holds s.
Proof.
  destruct (final w7_items 4 [] w7_ops) as [s|] eqn:D; [|vm_compute in D; discriminate]. exists s.
  split; [reflexivity|]. vm_compute in D. inversion D; subst s. split; [vm_compute; reflexivity|].
  intros [d' [E _]]. vm_compute in E. discriminate.
Qed.

(** a non-trivial edited store (document type with an entity, namespace declaration, prefixed
    names, character and entity references in content and in an attribute value, a split text
    with a CDATA section in between, comment and PI around the document element) satisfies every
    hypothesis; its print is [rt_printed] *)
Example C15_roundtrip_example :
  TreeInv rt_store /\ Lex15 rt_store /\ UniqQ rt_store /\ Known15 rt_store = false
  /\ pipeline_parse (show_doc rt_store) = OOk ([], doc_of_store rt_store).
Proof. exact rt_roundtrip. Qed.

(** ** the merged form: neighbouring Text items are one item of the parsed document *)
Theorem C15_norm_doc_same_print : forall d, display (norm_doc d) = display d.
Proof. exact norm_doc_print. Qed.

Theorem C15_edited_roundtrip_merged_partial : forall s,
  TreeInv s -> Lex15 s -> UniqQ s -> Known15m s = false ->
  pipeline_parse (show_doc s) = OOk ([], norm_doc (doc_of_store s)).
Proof. exact edited_roundtrip_m. Qed.

Theorem C15_edited_roundtrip_merged_reachable : forall init ops k s,
  WInv2 init -> WLex15 init -> Forall op_facts_ok ops -> Forall op_facts_ok15 ops ->
  doc_at (run init ops) k = Some s -> Known15m s = false ->
  pipeline_parse (show_doc s) = OOk ([], norm_doc (doc_of_store s)).
Proof. exact edited_roundtrip_m_reachable. Qed.

(** every clause of [Known15m] is needed (order of [known15m_vector]; clause 3 = K_run_cdend has
    the two listed histories as witnesses) *)
Theorem C15_known15m_refuted :
  refuted_m 0 /\ refuted_m 1 /\ refuted_m 2 /\ refuted_m 3 /\ refuted_m 4 /\ refuted_m 5.
Proof.
  split; [exact noroot_refuted_m|]. split; [exact el_before_dt_refuted_m|]. split; [exact empty_text_refuted_m|].
  split; [exact run_cdend_refuted_m|]. split; [exact both_quotes_refuted_m | exact unresolved_refuted_m].
Qed.

(** <r>a</r> : create_text_node('b'), append -- excluded by [Known15], inside [Known15m]: the
    parser returns one text item *)
Example C15_adjacent_text_merged_example :
  Known15 adj_store = true /\ Known15m adj_store = false
  /\ pipeline_parse (show_doc adj_store) = OOk ([], norm_doc (doc_of_store adj_store))
  /\ doc_children (doc_of_store adj_store) = [ItElement [114] None [] [ItText [97]; ItText [98]]]
  /\ doc_children (norm_doc (doc_of_store adj_store)) = [ItElement [114] None [] [ItText [97;98]]].
Proof. exact adjacent_text_merged. Qed.

(** ** C14 with C15: the edited document and the re-parse of its print show the same tree to the
    evaluator; every supported query has the same value on both

    [PiFlagOk]: a PI without content holds no data (an invariant of every history, no hypothesis
    on facts).  [FactsBy fa fr F s]: the string facts the table takes from the implementation --
    normalised attribute values, replacement texts of entity references -- are functions of the
    attribute / value piece the node denotes.  The store of the re-parse is characterised by what
    it denotes ([doc_of_store s2 = d'], decided by computation for a concrete table). *)
Theorem C15_piflag_reachable : forall ops w, WPiFlag w -> WPiFlag (run w ops).
Proof. exact piflag_reachable. Qed.

Theorem C15_piflag_checkable : forall l nx decl root, pi_flag_b l = true -> PiFlagOk (store_of_list l nx decl root).
Proof. exact pi_flag_b_sound. Qed.

(** a renaming of ids that preserves what the view reads gives the same tree (store-level
    sufficient condition for the last hypothesis of C14_query_depends_on_tree_only) *)
Theorem C15_iso_same_tree : forall (F1 F2 : sfacts) (merged : bool) (s1 s2 : store) (r : id -> id),
  TreeInv s1 -> TreeInv s2 -> r (sroot s1) = sroot s2 ->
  (forall n it1, att s1 n -> get s1 n = Some it1 -> exists it2, get s2 (r n) = Some it2 /\ item_sim r it1 it2) ->
  (forall a b, r a = r b -> a = b) ->
  (forall a, att s1 a -> sf_attr F2 (r a) = sf_attr F1 a) ->
  (forall c, att s1 c -> sf_ref F2 (r c) = sf_ref F1 c) ->
  same_tree (xdoc_of_store F1 merged s1) (xdoc_of_store F2 merged s2).
Proof. exact iso_same_tree. Qed.

(** two stores that denote the same document show the same tree *)
Theorem C15_same_doc_same_tree : forall (F1 F2 : sfacts) (merged : bool) (s1 s2 : store) fa fr,
  TreeInv s1 -> TreeInv s2 -> Lex15 s1 -> Lex15 s2 -> PiFlagOk s1 -> PiFlagOk s2 ->
  doc_of_store s1 = doc_of_store s2 -> FactsBy fa fr F1 s1 -> FactsBy fa fr F2 s2 ->
  same_tree (xdoc_of_store F1 merged s1) (xdoc_of_store F2 merged s2).
Proof. exact same_doc_same_tree. Qed.

(** [C14_query_on_reparse] (Properties/C14.v, last section) composes this with
    [C15_edited_roundtrip_reachable] and the second sentence of C14 *)

(** the hypotheses are satisfiable: the edited store [rt_store] and a table [rp_store] of the fresh
    parse of its print, with other ids *)
Example C14_query_on_reparse_example : forall fa fr merged (c1 c2 : ctx) (e : expr),
  c_ns c1 = c_ns c2 -> get_position c1 = get_position c2 -> get_size c1 = get_size c2 ->
  ns_lookup (c_ns c1) None = None -> supported (c_ns c1) e ->
  pipeline_parse (show_doc rt_store) = OOk ([], doc_of_store rp_store)
  /\ value_abs (fst (query (xdoc_of_store (facts_by fa fr rt_store) merged rt_store) e c1)) =
     value_abs (fst (query (xdoc_of_store (facts_by fa fr rp_store) merged rp_store) e c2)).
Proof. exact query_on_reparse_example. Qed.

Print Assumptions C15_lex15_reachable.
Print Assumptions C15_lex15_checkable.
Print Assumptions C15_display_is_show.
Print Assumptions C15_store_doc_printable.
Print Assumptions C15_edited_roundtrip_partial.
Print Assumptions C15_edited_roundtrip_reachable.
Print Assumptions C15_known15_refuted.
Print Assumptions C15_entref_unchecked_refuted.
Print Assumptions C15_piflag_reachable.
Print Assumptions C15_piflag_checkable.
Print Assumptions C15_iso_same_tree.
Print Assumptions C15_same_doc_same_tree.
Print Assumptions C15_norm_doc_same_print.
Print Assumptions C15_edited_roundtrip_merged_partial.
Print Assumptions C15_edited_roundtrip_merged_reachable.
Print Assumptions C15_known15m_refuted.

(** ** histories whose string facts are computed by the model of the parser (see the header and the
    last section of Properties/C13.v: [model_facts], [KnownFacts], [with_model_facts]) *)
Theorem C15_name_facts_ok_model : forall s,
  NameLanguage.KnownD04 s = false -> name_facts_ok (facts_of_name s).
Proof. exact name_facts_ok_model. Qed.

Theorem C15_data_facts_ok_model : forall s, DomFactsData.value_D04 s = false -> data_facts_ok (facts_of_data s).
Proof. exact data_facts_ok_model. Qed.

Theorem C15_facts_ok15_model : forall s, name_facts_ok15 (facts_of_name s) /\ data_facts_ok15 (facts_of_data s).
Proof. intros s. split; [apply name_facts_ok15_model | apply data_facts_ok15_model]. Qed.

(** per operation, with the fields the call does not read blanked ([relevant], which does not
    change [step]) *)
Theorem C15_model_facts_ok : forall o, model_facts o ->
  (KnownFacts o = false -> op_facts_ok (relevant o)) /\ op_facts_ok15 (relevant o) /\ (forall w, step w (relevant o) = step w o).
Proof.
  intros o M. split; [intros K; apply model_facts_ok; assumption|]. split; [apply model_facts_ok15; exact M|].
  intros w. apply step_relevant.
Qed.

Theorem C15_printable_reachable_model_facts : forall ops w,
  WPrintable w -> Forall model_facts ops -> forallb (fun o => negb (KnownFacts o)) ops = true -> WPrintable (run w ops).
Proof. exact printable_reachable_model_facts. Qed.

Theorem C15_lex15_reachable_model_facts : forall ops w,
  WLex15 w -> Forall model_facts ops -> forallb (fun o => negb (KnownFacts o)) ops = true -> WLex15 (run w ops).
Proof. exact lex15_reachable_model_facts. Qed.

Theorem C15_edited_roundtrip_model_facts : forall init ops k s,
  WInv2 init -> WLex15 init -> Forall model_facts ops -> forallb (fun o => negb (KnownFacts o)) ops = true ->
  doc_at (run init ops) k = Some s -> Known15 s = false ->
  exists d', pipeline_parse (show_doc s) = OOk ([], d') /\ doc_eq d' (doc_of_store s).
Proof.
  intros init ops k s I2 L M K D Kn. destruct (edited_roundtrip_reachable_model_facts init ops k s I2 L M K D Kn) as [_ E].
  exists (doc_of_store s). split; [exact E | reflexivity].
Qed.

Theorem C15_edited_roundtrip_merged_model_facts : forall init ops k s,
  WInv2 init -> WLex15 init -> Forall model_facts ops -> forallb (fun o => negb (KnownFacts o)) ops = true ->
  doc_at (run init ops) k = Some s -> Known15m s = false ->
  pipeline_parse (show_doc s) = OOk ([], norm_doc (doc_of_store s)).
Proof. exact edited_roundtrip_m_reachable_model_facts. Qed.

(** the same for histories given by their strings ([map with_model_facts ops]: the facts of every call
    are recomputed by the model of the parser): no hypothesis about facts at all *)
Theorem C15_printable_reachable_strings : forall ops w,
  WPrintable w -> forallb (fun o => negb (KnownFacts o)) ops = true -> WPrintable (run w (map with_model_facts ops)).
Proof. exact printable_reachable_strings. Qed.

Theorem C15_edited_roundtrip_strings : forall init ops k s,
  WInv2 init -> WLex15 init -> forallb (fun o => negb (KnownFacts o)) ops = true ->
  doc_at (run init (map with_model_facts ops)) k = Some s -> Known15m s = false ->
  pipeline_parse (show_doc s) = OOk ([], norm_doc (doc_of_store s)).
Proof.
  intros init ops k s I2 L K. apply C15_edited_roundtrip_merged_model_facts; try assumption; [apply map_model_facts | rewrite known_map; exact K].
Qed.

(** the history of [C15_roundtrip_example] given by strings only: the comment "c", the PI
    ("q", "z"), the element "n", set_attribute(n, "k", "v&#x41;&e;"), the CDATA section "<&" --
    the facts are computed by the model of the parser, the final store is the same [rt_store] *)
Definition rt_mf_ops : list op := map with_model_facts
  [ CreateComment (0, 1) (sdata [99]);
    InsertBefore (0, 1) (0, 21) (0, 20);
    CreateProcessingInstruction (0, 1) (sname [113]) (sdata [122]);
    AppendChild (0, 1) (0, 22);
    CreateElement (0, 1) (sname [110]);
    SetAttribute (0, 23) (sname [107]) (sdata [118; 38; 35; 120; 52; 49; 59; 38; 101; 59]);
    AppendChild (0, 2) (0, 23);
    SplitText (0, 10) 1;
    CreateCDataSection (0, 1) (sdata [60; 38]);
    InsertBefore (0, 7) (0, 29) (0, 28);
    RemoveAttribute (0, 2) [97] ].

Lemma rt_mf_final : doc_at (run (mkWorld [store_of_list rt_items 21 decl10 1]) rt_mf_ops) 0 = Some rt_store.
Proof. vm_compute. reflexivity. Qed.

Example C15_roundtrip_model_facts_example :
  Forall model_facts rt_mf_ops /\ forallb (fun o => negb (KnownFacts o)) rt_mf_ops = true
  /\ Known15 rt_store = false
  /\ exists d', pipeline_parse (show_doc rt_store) = OOk ([], d') /\ doc_eq d' (doc_of_store rt_store).
Proof.
  assert (I : init_ok rt_items 21 decl10 = true) by (vm_compute; reflexivity).
  destruct (init_ok_sound _ _ _ I) as [I2 IL].
  assert (M : Forall model_facts rt_mf_ops) by apply map_model_facts.
  assert (K : forallb (fun o => negb (KnownFacts o)) rt_mf_ops = true) by (vm_compute; reflexivity).
  assert (Kn : Known15 rt_store = false) by (vm_compute; reflexivity).
  split; [exact M|]. split; [exact K|]. split; [exact Kn|].
  exact (C15_edited_roundtrip_model_facts _ rt_mf_ops 0 rt_store I2 IL M K rt_mf_final Kn).
Qed.

(** the character-data checks of the model are the answers of the model of the parser *)
Theorem C15_char_data_checks_model : forall s,
  text_fact s = CharData.check_text s /\ comment_fact s = CharData.check_comment s /\ cdata_fact s = CharData.check_cdata s.
Proof. intros s. split; [apply text_fact_spec|]. split; [apply comment_fact_spec | apply cdata_fact_spec]. Qed.

Theorem C15_valid_for_model : forall k s, valid_for k (facts_of_data s) = valid_str k s.
Proof. exact valid_for_model. Qed.

Print Assumptions C15_char_data_checks_model.
Print Assumptions C15_valid_for_model.
Print Assumptions C15_name_facts_ok_model.
Print Assumptions C15_data_facts_ok_model.
Print Assumptions C15_facts_ok15_model.
Print Assumptions C15_model_facts_ok.
Print Assumptions C15_printable_reachable_model_facts.
Print Assumptions C15_lex15_reachable_model_facts.
Print Assumptions C15_edited_roundtrip_model_facts.
Print Assumptions C15_edited_roundtrip_merged_model_facts.
Print Assumptions C15_printable_reachable_strings.
Print Assumptions C15_edited_roundtrip_strings.

(** ** histories that contain [Element::normalize] calls (Model/DomNormalize.v; see Properties/C12.v, C13.v)

    [normalize] is a history of [append_data] / [remove_child] calls; these carry no string fact
    ([op_facts_ok], [op_facts_ok15] are [True] for them) and [append_data] validates the RESULT, so the lexical
    invariants and the round trip hold along histories with [normalize] calls under the same hypotheses about the
    OTHER calls ([plain_ops nops]).  Note: a pair of Text nodes that [normalize] leaves apart ("]]" in front of
    ">") is exactly the listed finding C15-ADJACENT-TEXT ([Known15] / [Known15m]). *)
From XmlRs Require Import Model.DomNormalize Proofs.DomNormalizeHist Proofs.DomNormalizeC15.

Theorem C15_printable_reachable_with_normalize : forall nops w,
  WPrintable w -> Forall op_facts_ok (plain_ops nops) -> WPrintable (run_n w nops).
Proof. exact printable_reachable_with_normalize. Qed.

Theorem C15_printable_normalize : forall merged w r, WPrintable w -> WPrintable (fst (normalize merged w r)).
Proof. exact printable_normalize. Qed.

Theorem C15_lex15_reachable_with_normalize : forall nops w,
  WLex15 w -> Forall op_facts_ok (plain_ops nops) -> Forall op_facts_ok15 (plain_ops nops) -> WLex15 (run_n w nops).
Proof. exact lex15_reachable_with_normalize. Qed.

Theorem C15_piflag_reachable_with_normalize : forall nops w, WPiFlag w -> WPiFlag (run_n w nops).
Proof. exact piflag_reachable_with_normalize. Qed.

Theorem C15_edited_roundtrip_reachable_with_normalize : forall init nops k s,
  WInv2 init -> WLex15 init -> Forall op_facts_ok (plain_ops nops) -> Forall op_facts_ok15 (plain_ops nops) ->
  doc_at (run_n init nops) k = Some s -> Known15 s = false ->
  display (doc_of_store s) = show_doc s /\ pipeline_parse (show_doc s) = OOk ([], doc_of_store s).
Proof. exact edited_roundtrip_reachable_with_normalize. Qed.

Theorem C15_edited_roundtrip_merged_reachable_with_normalize : forall init nops k s,
  WInv2 init -> WLex15 init -> Forall op_facts_ok (plain_ops nops) -> Forall op_facts_ok15 (plain_ops nops) ->
  doc_at (run_n init nops) k = Some s -> Known15m s = false ->
  pipeline_parse (show_doc s) = OOk ([], norm_doc (doc_of_store s)).
Proof. exact edited_roundtrip_m_reachable_with_normalize. Qed.

(** non-trivial instance: the example world of this file, a history with a split, a fresh Text node and [normalize] *)
Example C15_normalize_example :
  WPrintable (run_n ex_world [Op (SplitText (0, 3) 0); Op (CreateTextNode (0, 1) (dinfo [93; 93])); Normalize false (0, 2); Normalize true (0, 2)]).
Proof. apply C15_printable_reachable_with_normalize; [exact ex_world_printable | repeat constructor]. Qed.

Print Assumptions C15_printable_reachable_with_normalize.
Print Assumptions C15_printable_normalize.
Print Assumptions C15_lex15_reachable_with_normalize.
Print Assumptions C15_piflag_reachable_with_normalize.
Print Assumptions C15_edited_roundtrip_reachable_with_normalize.
Print Assumptions C15_edited_roundtrip_merged_reachable_with_normalize.
Print Assumptions C15_normalize_example.

(** ** [normalize] does not change what the document says (builder-normalize2; see Properties/C13.v, section
    "functional specification of [normalize]")

    The serialisation ([Store.show] = [Display] of the node) of every node that is no Text node -- in particular of
    the document -- is the same before and after [normalize], in every world with the tree invariant, both views.
    (A Text node that took the data of its followers prints more than before; the followers are no longer in
    the tree.) *)
From XmlRs Require Import Proofs.DomOpsInv Proofs.DomNormalizeC12 Proofs.DomNormalizeSpec.

Theorem C15_normalize_show_unchanged : forall merged w r s s', WInv w -> doc_at w (fst r) = Some s ->
  doc_at (fst (normalize merged w r)) (fst r) = Some s' ->
  (forall n, has_kind s KTx n = false -> show s' n = show s n) /\ show_doc s' = show_doc s.
Proof. exact normalize_show. Qed.

(** non-trivial instance: see [C13_normalize_spec_example] (a nested element with three Text nodes merged into one and a
    refused pair); here: the serialisation of that document is the same before and after *)
Example C15_normalize_show_example :
  show_doc (store0 (fst (normalize false nz_before (0, 2)))) = show_doc (store0 nz_before)
  /\ children_of (store0 (fst (normalize false nz_before (0, 2)))) 3 <> children_of (store0 nz_before) 3.
Proof. exact nz_show_example. Qed.

Print Assumptions C15_normalize_show_unchanged.
Print Assumptions C15_normalize_show_example.

(** ** histories that contain calls on the read-only maps of a document type (Model/DomReadOnly.v; see Properties/C13.v):
    such a call changes nothing and stores no string; the lexical invariants and the round trip hold along the
    extended histories [xop] under the same hypotheses about the OTHER calls ([plain_ops (nops_of xs)]) *)
From XmlRs Require Import Model.DomReadOnly Proofs.DomReadOnly Proofs.DomReadOnlyC15.

Theorem C15_printable_reachable_with_readonly : forall xs w,
  WPrintable w -> Forall op_facts_ok (plain_ops (nops_of xs)) -> WPrintable (run_x w xs).
Proof. exact printable_reachable_with_readonly. Qed.

Theorem C15_lex15_reachable_with_readonly : forall xs w,
  WLex15 w -> Forall op_facts_ok (plain_ops (nops_of xs)) -> Forall op_facts_ok15 (plain_ops (nops_of xs)) -> WLex15 (run_x w xs).
Proof. exact lex15_reachable_with_readonly. Qed.

Theorem C15_piflag_reachable_with_readonly : forall xs w, WPiFlag w -> WPiFlag (run_x w xs).
Proof. exact piflag_reachable_with_readonly. Qed.

Theorem C15_edited_roundtrip_reachable_with_readonly : forall init xs k s,
  WInv2 init -> WLex15 init -> Forall op_facts_ok (plain_ops (nops_of xs)) -> Forall op_facts_ok15 (plain_ops (nops_of xs)) ->
  doc_at (run_x init xs) k = Some s -> Known15 s = false ->
  display (doc_of_store s) = show_doc s /\ from_raw (show_doc s) = OOk ([], doc_of_store s).
Proof. exact edited_roundtrip_reachable_with_readonly. Qed.

Theorem C15_edited_roundtrip_merged_reachable_with_readonly : forall init xs k s,
  WInv2 init -> WLex15 init -> Forall op_facts_ok (plain_ops (nops_of xs)) -> Forall op_facts_ok15 (plain_ops (nops_of xs)) ->
  doc_at (run_x init xs) k = Some s -> Known15m s = false ->
  from_raw (show_doc s) = OOk ([], norm_doc (doc_of_store s)).
Proof. exact edited_roundtrip_m_reachable_with_readonly. Qed.

Example C15_readonly_example : WPrintable ro_world /\ WPrintable (run_x ro_world ro_ops).
Proof. split; [exact ro_world_printable | exact ro_example15]. Qed.

Print Assumptions C15_printable_reachable_with_readonly.
Print Assumptions C15_lex15_reachable_with_readonly.
Print Assumptions C15_piflag_reachable_with_readonly.
Print Assumptions C15_edited_roundtrip_reachable_with_readonly.
Print Assumptions C15_edited_roundtrip_merged_reachable_with_readonly.
Print Assumptions C15_readonly_example.
