(** * C02, rung 3: general entities whose values contain MARKUP (elements, comments, PIs, CDATA
    sections) as well as references to other entities.

    The model of XmlDocument::new re-reads the replacement text of an entity referenced in content
    against the production `content` ([content_full]); by rung 2 ([syn_content]) the specification then
    reads the same text with [p_content], and the tree it builds is the translation of the model's.
    What the implementation does NOT do is check the constraints inside that markup, and it looks for
    references in the entity LITERAL, not in the replacement text: this is finding WF13.  The
    exclusion [markup_ent] keeps clear of it: in the replacement text read as content -- names at the
    D04 positions are Names, the attributes of an element have distinct names and values without
    entity references, every entity reference is a reference of the literal, every character
    reference is a legal character; and re-read as an attribute value (when it holds no `<`) it is
    read to its end, its entity references are references of the literal and its character
    references are legal.  A `&` that comes from a character reference is allowed as long as these hold
    (the usual <!ENTITY lt "&#38;#60;"> is covered).

    Same route as Proofs/XmlWFSyntaxEntRec.v: (A) the model's depth-first check answers Ok only for
    entities GOOD at some height ([goodb2]: now including "the replacement text is content" in content
    context, "no `<`" in attribute context); (B) good entities are expanded / re-read by the
    specification without error. *)
From Coq Require Import List NArith Arith Lia Bool.
From XmlRs Require Import Base.CPred Spec.XmlChars Model.Peg Gen.XmlcharGen Gen.GrammarXmlGen Model.ParseActions Model.Info Model.Display
     Proofs.XmlcharProofs Proofs.PegTermination Proofs.PegLemmas Proofs.PegInv Proofs.Expansion Proofs.PipelineTotal
     Proofs.DisplayLex Proofs.ActionLemmas Proofs.DisplayElem Proofs.DisplayDoc Proofs.DisplayDtd
     Proofs.ParseInv Proofs.ParseInvElem Proofs.ParseInvBuild Proofs.ParseInvDtd
     Proofs.XmlWFSyntaxLex Proofs.XmlWFSyntaxElem Proofs.XmlWFSyntaxDoc Proofs.XmlWFSyntaxCheck
     Proofs.XmlWFSyntaxDtd Proofs.XmlWFSyntaxDtdElem Proofs.XmlWFSyntaxDtdDoc Proofs.XmlWFSyntaxDtdCheck Proofs.XmlWFSyntaxEntRec.
From XmlRs Require Spec.XmlWF.
Import ListNotations.
Local Open Scope N_scope.

(** ** the replacement text read as content by the model's own parser *)
Definition ent_content (vs : list ent_value) : option content :=
  match run G_xml G_xml_R nt_content (x_repl vs) with
  | Ok (t, []) => match eval_tree t with VContent c => Some c | _ => None end
  | _ => None
  end.

(** markup whose attributes have distinct names and values without entity references, entity references
    in content among [M], legal character references *)
Definition plainav (v : att_value) : bool :=
  match v with
  | AvText _ => true
  | AvReference (RefChar num r) => W.isChar (W.number (radix_n r) num)
  | AvReference (RefEntity _) => false
  end.
Definition plain_attrs (attrs : list attribute) : bool :=
  W.nodup_names (map att_nm attrs) && forallb (fun a => forallb plainav (at_value a)) attrs.

Section MK.
Variable M : list str.
Variable rec : element -> bool.
Definition mk_contents (c : contents) : bool :=
  match c with
  | CsElement e => rec e
  | CsReference (RefChar num r) => W.isChar (W.number (radix_n r) num)
  | CsReference (RefEntity n) => W.mem n M
  | _ => true
  end.
Fixpoint mk_cells (l : list cell) : bool :=
  match l with [] => true | (c, _) :: l' => mk_contents c && mk_cells l' end.
End MK.
Fixpoint mk_elem (M : list str) (e : element) : bool :=
  match e with
  | Element _ attrs c =>
    plain_attrs attrs
    && match c with None => true | Some (_, cells) => mk_cells M (mk_elem M) cells end
  end.

Definition piece_names (vs : list ent_value) : list str :=
  flat_map (fun v => match v with XvEntity n => [n] | _ => [] end) vs.

Definition markup_piece (v : ent_value) : bool :=
  match v with
  | XvText _ => true
  | XvCharacter _ _ => true
  | XvEntity n => is_Name n
  | XvParameter _ => false
  end.
(** the replacement text re-read as an attribute value (when it holds no `<`: otherwise the
    implementation refuses the reference in an attribute value, as it must) *)
Definition attr_piece (M : list str) (p : W.avpiece) : bool :=
  match p with W.AvLit _ => true | W.AvChar c => W.isChar c | W.AvEnt n => W.mem n M end.
Definition attr_okb (vs : list ent_value) : bool :=
  if existsb (N.eqb 60) (x_repl vs) then true
  else match W.p_pieces (Datatypes.S (length (x_repl vs))) None W.c_lt (x_repl vs) with
       | Some (ps, []) => forallb (attr_piece (piece_names vs)) ps
       | _ => false
       end.
Definition markup_ent (e : Info.entity) : bool :=
  match en_values e with
  | Some vs =>
    forallb markup_piece vs
    && match ent_content vs with
       | Some c => d04_cells d04_elem (snd c) && mk_cells (piece_names vs) (mk_elem (piece_names vs)) (snd c)
       | None => true
       end
    && attr_okb vs
  | None => true
  end.

(** what parsing and XmlDocument::new guarantee about the pieces of an entity value *)
Definition piece_wf (v : ent_value) : Prop :=
  match v with
  | XvText s => forallb (fun c => W.isChar c && negb (c =? 38)) s = true
  | XvCharacter num r => reference_ok (RefChar num r) /\ W.isChar (W.number (radix_n r) num) = true
  | _ => True
  end.

Lemma replacement_text_repl (vs : list ent_value) : Forall piece_wf vs -> forall t, replacement_text vs = IOk t -> t = x_repl vs.
Proof.
  induction 1 as [|v vs Hv _ IH]; intros t H; cbn [replacement_text] in H; [injection H as <-; reflexivity|].
  destruct v as [num r|n|n|s]; cbn [x_repl flat_map x_replpiece]; fold (x_repl vs).
  - apply ibind_ok in H. destruct H as [c [Hc H]]. apply ibind_ok in H. destruct H as [t' [Ht H]]. injection H as <-.
    cbn [piece_wf] in Hv. destruct Hv as [Hrf _]. destruct (char_from_spec _ _ _ Hrf Hc) as [E _]. rewrite (IH t' Ht).
    cbn [app]. f_equal. destruct r; cbn [radix_n] in *; symmetry; exact E.
  - apply ibind_ok in H. destruct H as [t' [Ht H]]. injection H as <-. rewrite (IH t' Ht). reflexivity.
  - apply ibind_ok in H. destruct H as [t' [Ht H]]. injection H as <-. rewrite (IH t' Ht). reflexivity.
  - apply ibind_ok in H. destruct H as [t' [Ht H]]. injection H as <-. rewrite (IH t' Ht). reflexivity.
Qed.

(** rung 2 on a whole replacement text *)
Lemma content_read (t : str) tr : run G_xml G_xml_R nt_content t = Ok (tr, []) ->
  exists c : content, eval_tree tr = VContent c /\
    (d04_cells d04_elem (snd c) = true -> forall fuel, (length t < fuel)%nat -> W.p_content fuel t = Some (x_content c, [])).
Proof.
  intros H. apply run_succ in H. exact (syn_content (length t) (syn_element (length t)) t tr [] (le_n _) H (or_introl eq_refl)).
Qed.

Lemma content_full_ent (vs : list ent_value) : content_full (x_repl vs) = true -> exists c, ent_content vs = Some c.
Proof.
  unfold content_full, ent_content. destruct (run G_xml G_xml_R nt_content (x_repl vs)) as [[tr [|c0 r0]]| |] eqn:E; try discriminate.
  intros _. destruct (content_read _ _ E) as [c [Ec _]]. rewrite Ec. eauto.
Qed.

Lemma ent_content_spec (vs : list ent_value) c : ent_content vs = Some c -> d04_cells d04_elem (snd c) = true ->
  forall fuel, (length (x_repl vs) < fuel)%nat -> W.p_content fuel (x_repl vs) = Some (x_content c, []).
Proof.
  unfold ent_content. destruct (run G_xml G_xml_R nt_content (x_repl vs)) as [[tr [|c0 r0]]| |] eqn:E; try discriminate.
  destruct (content_read _ _ E) as [c' [Ec Hc]]. rewrite Ec. intros H. injection H as <-. exact Hc.
Qed.

(** ** the specification expands such content, given that it expands the references among [M] *)
Lemma Wmem_In (k : str) (l : list str) : W.mem k l = true -> In k l.
Proof.
  unfold W.mem. intros H. apply existsb_exists in H. destruct H as [x [Hin E]]. apply Wstr_eqb_eq in E. subst x. exact Hin.
Qed.

Lemma plain_av_ok en f' (l : list att_value) : forallb plainav l = true -> W.av_ok (Datatypes.S f') en [] (x_av l) = None.
Proof.
  induction l as [|v l IH]; intros H; [reflexivity|]. cbn [forallb] in H. apply andb_prop in H. destruct H as [Hv Hl].
  change (x_av (v :: l)) with (x_avpiece v ++ x_av l). cbn [W.av_ok]. apply allc_app; [|exact (IH Hl)].
  destruct v as [[num r|n]|s]; cbn [plainav x_avpiece] in *; try discriminate Hv.
  - destruct r; cbn [x_ref W.piece_of_ref radix_n] in *; cbn [W.allc fold_right]; rewrite Hv; reflexivity.
  - apply allc_map_ok. reflexivity.
Qed.

Lemma plain_attrs_ok en f' (a : list attribute) : plain_attrs a = true ->
  W.nodup_names (map fst (map x_att a)) = true /\ W.allc (fun x : str * list W.avpiece => W.av_ok (Datatypes.S f') en [] (snd x)) (map x_att a) = None.
Proof.
  unfold plain_attrs. intros H. apply andb_prop in H. destruct H as [Hn Hv]. split.
  - rewrite map_map. exact Hn.
  - clear Hn. induction a as [|x a IH]; [reflexivity|]. cbn [forallb] in Hv. apply andb_prop in Hv. destruct Hv as [Hx Ha].
    cbn [map]. apply allc_cons; [|exact (IH Ha)]. cbn [x_att snd]. apply plain_av_ok. exact Hx.
Qed.

Lemma cells_all_intro (P : element -> Prop) (cells : list cell) : (forall e, P e) -> cells_all P cells.
Proof. intros H. induction cells as [|[ch t] l IH]; constructor; [|exact IH]. cbn [fst]. destruct ch; try exact I. apply H. Qed.

Section CE.
Variable en : W.env.
Variable f : nat.
Variable V M : list str.
Notation F := (Datatypes.S f).
Definition fine (y : W.xcontent) : Prop := forall f', W.tree_ok (Datatypes.S f') en y = None.
Hypothesis HM : forall m, In m M -> exists x', W.expand F en V (W.XEntRef m) = inr x' /\ fine x'.

Lemma m_expand_elem nm atts et kids : W.expand F en V (W.XElem nm atts et kids) =
  match W.mapM (W.expand F en V) kids with inl r => inl r | inr kids' => inr (W.XElem nm atts et kids') end.
Proof. reflexivity. Qed.

Lemma m_text (o : option str) : W.mapM (W.expand F en V) (x_text o) = inr (x_text o) /\ Forall fine (x_text o).
Proof.
  destruct o as [t|]; [|split; [reflexivity|constructor]]. cbn [x_text]. split.
  - apply mapM_id. intros x Hx. apply in_map_iff in Hx. destruct Hx as [c [<- _]]. reflexivity.
  - apply Forall_forall. intros x Hx. apply in_map_iff in Hx. destruct Hx as [c [<- _]]. intros f'. reflexivity.
Qed.

Definition elem_exp (e : element) : Prop :=
  mk_elem M e = true -> exists x', W.expand F en V (x_elem e) = inr x' /\ fine x'.

Lemma fine_all f' (l : list W.xcontent) : Forall fine l -> W.allc (W.tree_ok (Datatypes.S f') en) l = None.
Proof. intros H. apply allc_forall. revert H. apply Forall_impl. intros y Hy. apply Hy. Qed.

Lemma cells_exp (cells : list cell) : cells_all elem_exp cells -> mk_cells M (mk_elem M) cells = true ->
  exists ys, W.mapM (W.expand F en V) (x_cells x_elem cells) = inr ys /\ Forall fine ys.
Proof.
  induction 1 as [|[c tl] l Hc _ IH]; intros Hok; [exists []; split; [reflexivity|constructor]|].
  cbn [mk_cells] in Hok. apply andb_prop in Hok. destruct Hok as [Hcok Hl]. destruct (IH Hl) as [kl [Ekl Fkl]]. destruct (m_text tl) as [Et Ft].
  assert (exists x', W.expand F en V (x_contents x_elem c) = inr x' /\ fine x') as [x' [Ex Fx]].
  { cbn [fst] in Hc. destruct c as [e'|[num rd|n]|s|p|s]; cbn [mk_contents x_contents] in *.
    - exact (Hc Hcok).
    - unfold x_refitem. destruct rd; cbn [x_ref radix_n] in *; eexists; (split; [reflexivity|]); intros f'; cbn [W.tree_ok]; rewrite Hcok; reflexivity.
    - unfold x_refitem. cbn [x_ref]. apply HM. apply Wmem_In. exact Hcok.
    - eexists. split; [reflexivity|intros f'; reflexivity].
    - eexists. split; [reflexivity|intros f'; reflexivity].
    - eexists. split; [reflexivity|intros f'; reflexivity]. }
  cbn [x_cells]. exists (x' :: x_text tl ++ kl). split.
  - cbn [W.mapM]. rewrite Ex. rewrite (mapM_app _ _ _ _ _ Et Ekl). reflexivity.
  - constructor; [exact Fx|]. apply Forall_app. split; assumption.
Qed.

Theorem elem_exp_all : forall e, elem_exp e.
Proof.
  apply element_ind2.
  - intros n a Hok. cbn [mk_elem] in Hok. rewrite andb_true_r in Hok.
    cbn [x_elem]. rewrite m_expand_elem. cbn [W.mapM]. eexists. split; [reflexivity|]. intros f'.
    destruct (plain_attrs_ok en f' a Hok) as [Hnd Hav]. cbn [W.tree_ok]. rewrite Hnd, Hav. reflexivity.
  - intros n a h cells Hcells Hok. cbn [mk_elem] in Hok. apply andb_prop in Hok. destruct Hok as [Hat Hok].
    destruct (cells_exp cells Hcells Hok) as [kl [Ekl Fkl]]. destruct (m_text h) as [Et Ft].
    cbn [x_elem]. rewrite m_expand_elem. rewrite (mapM_app _ _ _ _ _ Et Ekl). eexists. split; [reflexivity|].
    intros f'. destruct (plain_attrs_ok en f' a Hat) as [Hnd Hav]. cbn [W.tree_ok]. rewrite Wstr_eqb_refl, Hnd, Hav. cbn [W.guard W.andc].
    apply fine_all. apply Forall_app. split; assumption.
Qed.

Lemma content_exp (c : content) : mk_cells M (mk_elem M) (snd c) = true ->
  exists ys, W.mapM (W.expand F en V) (x_content c) = inr ys /\ Forall fine ys.
Proof.
  intros Hok. destruct c as [h cells]. cbn [snd] in Hok. unfold x_content. cbn [fst snd].
  destruct (cells_exp cells (cells_all_intro _ _ elem_exp_all) Hok) as [kl [Ekl Fkl]].
  destruct (m_text h) as [Et Ft]. exists (x_text h ++ kl). split; [apply (mapM_app _ _ _ _ _ Et Ekl)|apply Forall_app; split; assumption].
Qed.
End CE.

(** ** (A) the model's depth-first check answers Ok only for GOOD entities *)
Definition nolt_piece (v : ent_value) : bool :=
  match v with
  | XvText t => negb (existsb (N.eqb 60) t)
  | XvCharacter num r => negb (W.number (radix_n r) num =? 60)
  | _ => true
  end.
Definition content_okb (e : Info.entity) : bool :=
  match en_values e with Some vs => is_some (ent_content vs) | None => true end.

Section Good2.
Variable ents : list Info.entity.
Variable ext : bool.
Variable attr : bool.
Hypothesis Hwf : forall e, In e ents -> Forall piece_wf (values_of e).

Notation look := (lookup ents).
Notation pgood := (piece_goodb ents ext).

Fixpoint goodb2 (h : nat) (e : Info.entity) : bool :=
  match h with
  | O => false
  | Datatypes.S k =>
    negb (is_some (en_notation e)) && negb (attr && is_some (en_system e))
    && (if attr then forallb nolt_piece (values_of e) else content_okb e)
    && forallb (pgood (goodb2 k)) (values_of e)
  end.

Lemma goodb2_mono h : forall e, goodb2 h e = true -> goodb2 (Datatypes.S h) e = true.
Proof.
  induction h as [|h IH]; intros e H; [discriminate|]. cbn [goodb2] in *.
  apply andb_prop in H. destruct H as [H1 H3]. rewrite H1. cbn [andb]. rewrite forallb_forall in *. intros v Hv. specialize (H3 v Hv).
  destruct v as [num r|m|m|s]; cbn [piece_goodb] in *; try reflexivity. destruct (look m) as [e'|]; [apply IH; exact H3|exact H3].
Qed.

Lemma goodb2_le h h' e : (h <= h')%nat -> goodb2 h e = true -> goodb2 h' e = true.
Proof. induction 1 as [|h' _ IH]; [auto|]. intros H. apply goodb2_mono. apply IH. exact H. Qed.

Definition seen_inv2 (seen : list (str * bool)) : Prop :=
  forall k e, seen_get seen k = Some true -> look k = Some e -> exists h, goodb2 h e = true.

Lemma cv_sound2 (rec : list (str * bool) -> Info.entity -> bool -> ires (list (str * bool))) name :
  (forall seen e seen', look (en_name e) = Some e -> seen_inv2 seen -> rec seen e true = IOk seen' -> seen_inv2 seen' /\ exists h, goodb2 h e = true) ->
  (forall seen e seen', rec seen e false = IOk seen' -> seen' = seen) ->
  forall vs seen seen', Forall piece_wf vs -> seen_inv2 seen -> check_values rec ents ext attr name vs seen = IOk seen' ->
  seen_inv2 seen' /\ (exists h, forallb (pgood (goodb2 h)) vs = true) /\ (attr = true -> forallb nolt_piece vs = true).
Proof.
  intros Hrec Hpre. induction vs as [|v vs IH]; intros seen seen' Hw Hinv H; cbn [check_values] in H.
  - injection H as <-. split; [exact Hinv|]. split; [exists 0%nat; reflexivity|reflexivity].
  - inversion Hw as [|? ? Hwv Hwvs]. subst.
    apply ibind_ok in H. destruct H as [[fl s1] [Hv H]]. cbn [fst snd] in H.
    destruct (attr && fl) eqn:Efl; [discriminate H|].
    assert (seen_inv2 s1 /\ (exists h, pgood (goodb2 h) v = true) /\ (attr = true -> nolt_piece v = true)) as [Hinv1 [[h1 Hg1] Hn1]].
    { destruct v as [num r|m|m|s]; cbn [check_value] in Hv.
      - apply ibind_ok in Hv. destruct Hv as [c [Hc Hv]]. injection Hv as <- <-. split; [exact Hinv|]. split; [exists 0%nat; reflexivity|].
        intros ->. cbn [andb] in Efl. cbn [piece_wf] in Hwv. destruct Hwv as [Hrf _]. destruct (char_from_spec _ _ _ Hrf Hc) as [E _].
        cbn [nolt_piece]. assert (W.number (radix_n r) num = c) as -> by (destruct r; exact E). rewrite Efl. reflexivity.
      - unfold lookup_entity2 in Hv. cbn [piece_goodb]. fold (look m) in Hv. destruct (look m) as [e'|] eqn:Fm.
        + apply ibind_ok in Hv. destruct Hv as [s' [Hr Hv]]. injection Hv as _ <-.
          destruct (lookup_name _ _ _ Fm) as [En _]. rewrite <- En in Fm. destruct (Hrec _ _ _ Fm Hinv Hr) as [Hi [h Hh]].
          split; [exact Hi|]. split; [exists h; exact Hh|reflexivity].
        + destruct (Info.predefined m) as [e'|] eqn:P.
          * apply ibind_ok in Hv. destruct Hv as [s' [Hr Hv]]. injection Hv as _ <-. rewrite (Hpre _ _ _ Hr).
            split; [exact Hinv|]. split; [exists 0%nat; reflexivity|reflexivity].
          * destruct ext; [|discriminate Hv]. injection Hv as _ <-. split; [exact Hinv|]. split; [exists 0%nat; reflexivity|reflexivity].
      - injection Hv as _ <-. split; [exact Hinv|]. split; [exists 0%nat; reflexivity|reflexivity].
      - injection Hv as <- <-. split; [exact Hinv|]. split; [exists 0%nat; reflexivity|]. intros ->. cbn [andb] in Efl. cbn [nolt_piece]. rewrite Efl. reflexivity. }
    destruct (IH _ _ Hwvs Hinv1 H) as [Hinv2 [[h2 Hg2] Hn2]]. split; [exact Hinv2|]. split.
    + exists (Nat.max h1 h2). cbn [forallb]. apply andb_true_intro. split.
      * destruct v as [num r|m|m|s]; cbn [piece_goodb] in *; try reflexivity. destruct (look m) as [e'|]; [|exact Hg1].
        eapply goodb2_le; [|exact Hg1]. apply Nat.le_max_l.
      * rewrite forallb_forall in *. intros v0 Hv0. specialize (Hg2 v0 Hv0).
        destruct v0 as [num r|m|m|s]; cbn [piece_goodb] in *; try reflexivity. destruct (look m) as [e'|]; [|exact Hg2].
        eapply goodb2_le; [|exact Hg2]. apply Nat.le_max_r.
    + intros Ha. cbn [forallb]. rewrite (Hn1 Ha), (Hn2 Ha). reflexivity.
Qed.

Theorem cer_sound2 : forall fuel seen e seen', look (en_name e) = Some e -> seen_inv2 seen ->
  check_entity_ref fuel ents ext attr seen e true = IOk seen' -> seen_inv2 seen' /\ exists h, goodb2 h e = true.
Proof.
  induction fuel as [|f IH]; intros seen e seen' Hl Hinv H; [discriminate|]. cbn [check_entity_ref negb] in H.
  destruct (is_some (en_notation e)) eqn:En; [discriminate H|].
  destruct (attr && is_some (en_system e)) eqn:Es; [discriminate H|].
  destruct (seen_get seen (en_name e)) as [[|]|] eqn:Eg.
  - injection H as <-. split; [exact Hinv|]. eapply Hinv; eassumption.
  - discriminate H.
  - destruct (lookup_name _ _ _ Hl) as [_ Hin]. pose proof (Hwf e Hin) as Hw. unfold values_of in Hw.
    apply ibind_ok in H. destruct H as [u [Hu H]]. apply ibind_ok in H. destruct H as [seen2 [Hcv H]]. injection H as <-.
    assert (seen_inv2 ((en_name e, false) :: seen)) as Hinv1.
    { intros k e0 Hk. rewrite seen_get_cons in Hk. destruct (str_eqb (en_name e) k); [discriminate|]. apply Hinv. exact Hk. }
    destruct (cv_sound2 (check_entity_ref f ents ext attr) (en_name e) (fun s0 e0 s' => IH s0 e0 s') (cer_undeclared ents ext attr f) _ _ _ Hw Hinv1 Hcv) as [Hinv2 [[h Hh] Hn]].
    assert (goodb2 (Datatypes.S h) e = true) as Hg.
    { cbn [goodb2]. rewrite En, Es. cbn [negb andb]. unfold values_of. rewrite Hh, andb_true_r.
      destruct attr; [exact (Hn eq_refl)|]. unfold content_okb. destruct (en_values e) as [vs|] eqn:Ev; [|reflexivity].
      apply ibind_ok in Hu. destruct Hu as [t [Ht Hu]]. destruct (content_full t) eqn:Ecf; [|discriminate Hu].
      rewrite (replacement_text_repl vs Hw t Ht) in Ecf. destruct (content_full_ent vs Ecf) as [c ->]. reflexivity. }
    split; [|exists (Datatypes.S h); exact Hg].
    intros k e0 Hk Hlk. rewrite seen_get_cons in Hk. destruct (str_eqb (en_name e) k) eqn:Ek.
    + apply str_eqb_eq in Ek. subst k. rewrite Hl in Hlk. injection Hlk as <-. exists (Datatypes.S h). exact Hg.
    + eapply Hinv2; eassumption.
Qed.
End Good2.

(** ** (B) the specification expands / re-reads a good entity without error *)
Lemma in_piece_names m vs : In m (piece_names vs) -> In (XvEntity m) vs.
Proof.
  unfold piece_names. intros H. apply in_flat_map in H. destruct H as [v [Hv Hin]].
  destruct v as [num r|n|n|s]; cbn [In] in Hin; try contradiction. destruct Hin as [<-|[]]. exact Hv.
Qed.

Lemma name_no_lt (n : str) : forallb (eval spec_NameChar) n = true -> existsb (N.eqb 60) n = false.
Proof.
  induction n as [|c n IH]; [reflexivity|]. cbn [forallb existsb]. intros H. apply andb_prop in H. destruct H as [Hc Hn].
  rewrite (IH Hn), orb_false_r. destruct (N.eqb_spec 60 c) as [<-|]; [vm_compute in Hc; discriminate|reflexivity].
Qed.

Lemma nolt_text (vs : list ent_value) : forallb markup_piece vs = true -> forallb nolt_piece vs = true ->
  existsb (N.eqb 60) (x_repl vs) = false.
Proof.
  induction vs as [|v vs IH]; intros Hm Hn; [reflexivity|]. cbn [forallb] in *.
  apply andb_prop in Hm. destruct Hm as [Hmv Hm]. apply andb_prop in Hn. destruct Hn as [Hnv Hn].
  change (x_repl (v :: vs)) with (x_replpiece v ++ x_repl vs). pose proof (IH Hm Hn) as IH'. unfold str, char in *. rewrite existsb_app, IH', orb_false_r.
  destruct v as [num r|n|n|s]; cbn [markup_piece nolt_piece x_replpiece] in *.
  - cbn [existsb]. rewrite orb_false_r. apply negb_true_iff in Hnv. rewrite N.eqb_sym. exact Hnv.
  - cbn [existsb]. rewrite existsb_app. cbn [existsb]. rewrite !orb_false_r. change (60 =? 38) with false. cbn [orb].
    destruct n as [|c n]; [discriminate|]. cbn [is_Name] in Hmv. apply andb_prop in Hmv. destruct Hmv as [Hc Hn'].
    apply (name_no_lt (c :: n)). cbn [forallb]. rewrite Hn', andb_true_r.
    revert Hc. apply (sub_sound spec_NameStartChar spec_NameChar). vm_compute. reflexivity.
  - discriminate Hmv.
  - apply negb_true_iff in Hnv. exact Hnv.
Qed.

Lemma expand_entref_eq f en V nm : W.expand (Datatypes.S f) en V (W.XEntRef nm) =
  if W.mem nm V then W.fail W.RRecursion
  else match W.assoc nm (W.e_ents en) with
       | None => if W.e_must_declare en then W.fail W.RUndeclared else inr (W.XEntRef nm)
       | Some W.EUnparsed => W.fail W.RUnparsedRef
       | Some W.EExternal => inr (W.XEntRef nm)
       | Some (W.EInternal text) =>
         match W.p_content (Datatypes.S (length text)) text with
         | Some (items, []) =>
           match W.mapM (W.expand f en (nm :: V)) items with
           | inl r => inl r
           | inr items' => inr (W.XExp nm items')
           end
         | _ => W.fail W.REntityContent
         end
       end.
Proof. reflexivity. Qed.

Section Spec2.
Variable ents : list Info.entity.
Variable ext : bool.
Variable en : W.env.
Hypothesis Hrel : env_rel en ents ext.
Hypothesis Hmk : forallb markup_ent ents = true.
Hypothesis Hsys : forall e0, In e0 ents -> en_values e0 = None -> en_system e0 <> None.
Hypothesis Hwf : forall e, In e ents -> Forall piece_wf (values_of e).

Notation names := (map en_name ents).
Notation look := (lookup ents).

Theorem expand_good2 : forall h nm e V fuel, look nm = Some e -> goodb2 ents ext false h e = true ->
  (forall v ev, In v V -> look v = Some ev -> goodb2 ents ext false h ev = false) ->
  NoDup V -> incl V names -> (length names < fuel + length V)%nat ->
  exists x', W.expand fuel en V (W.XEntRef nm) = inr x' /\ forall f', W.tree_ok (Datatypes.S f') en x' = None.
Proof.
  induction h as [|k IH]; intros nm e V fuel Hl Hg Hinv Hnd Hincl Hfu; [discriminate Hg|].
  destruct (goodb2 ents ext false k e) eqn:Egk.
  - apply (IH nm e V fuel Hl Egk); try assumption.
    intros v ev Hv Hlv. specialize (Hinv v ev Hv Hlv). destruct (goodb2 ents ext false k ev) eqn:E; [|reflexivity].
    apply goodb2_mono in E. congruence.
  - destruct (lookup_name _ _ _ Hl) as [En Hin].
    assert (~ In nm V) as Hnotin by (intros Hv; specialize (Hinv nm e Hv Hl); congruence).
    assert (W.mem nm V = false) as Hmem by (apply mem_false; intros x Hx ->; exact (Hnotin Hx)).
    assert (incl (nm :: V) names) as Hincl' by (intros x [<-|Hx]; [rewrite <- En; apply in_map; exact Hin|apply Hincl; exact Hx]).
    assert (NoDup (nm :: V)) as Hnd' by (constructor; assumption).
    pose proof (visited_bound ents (nm :: V) Hnd' Hincl') as Hb'. cbn [length] in Hb'.
    destruct fuel as [|[|f0]]; [lia|lia|].
    cbn [goodb2] in Hg. apply andb_prop in Hg. destruct Hg as [Hg Hpieces]. apply andb_prop in Hg. destruct Hg as [Hg Hcont].
    apply andb_prop in Hg. destruct Hg as [Hnot _].
    apply negb_true_iff in Hnot. pose proof (assoc_declared ents ext en Hrel nm e Hl) as Ha. unfold x_entity in Ha.
    destruct (en_values e) as [vs|] eqn:Ev.
    + (* internal *)
      assert (markup_ent e = true) as Hs by (rewrite forallb_forall in Hmk; apply Hmk; exact Hin).
      unfold markup_ent in Hs. rewrite Ev in Hs. apply andb_prop in Hs. destruct Hs as [Hs _]. apply andb_prop in Hs. destruct Hs as [Hsp Hc].
      unfold content_okb in Hcont. rewrite Ev in Hcont. destruct (ent_content vs) as [c|] eqn:Ec; [|discriminate Hcont].
      apply andb_prop in Hc. destruct Hc as [Hd04 Hmkc].
      pose proof (ent_content_spec vs c Ec Hd04 (Datatypes.S (length (x_repl vs))) ltac:(lia)) as Hpc.
      unfold values_of in Hpieces. rewrite Ev in Hpieces.
      destruct (content_exp en f0 (nm :: V) (piece_names vs)) with (c := c) as [ys [Eys Pys]]; [|exact Hmkc|].
      { intros m Hm. apply in_piece_names in Hm. rewrite forallb_forall in Hpieces. specialize (Hpieces _ Hm). cbn [piece_goodb] in Hpieces. fold (look m) in Hpieces.
        destruct (look m) as [e'|] eqn:Fm.
        - apply (IH m e' (nm :: V) (Datatypes.S f0) Fm Hpieces); try assumption.
          + intros v ev [<-|Hv] Hlv; [rewrite Hl in Hlv; injection Hlv as <-; exact Egk|].
            specialize (Hinv v ev Hv Hlv). destruct (goodb2 ents ext false k ev) eqn:E; [|reflexivity]. apply goodb2_mono in E. congruence.
          + cbn [length] in *. lia.
        - destruct (expand_undeclared ents ext en Hrel m (nm :: V) f0) as [x0 [E0 T0]]; try assumption. exists x0. split; [exact E0|]. intros f'. apply T0. }
      exists (W.XExp nm ys). split.
      * rewrite expand_entref_eq. rewrite Hmem, Ha, Hpc, Eys. reflexivity.
      * intros f'. cbn [W.tree_ok]. apply fine_all. exact Pys.
    + (* external *)
      destruct (en_notation e); [discriminate Hnot|]. exists (W.XEntRef nm). split; [|reflexivity]. cbn [W.expand]. rewrite Hmem, Ha. reflexivity.
Qed.

Theorem av_good2 : forall h nm e V fuel, look nm = Some e -> goodb2 ents ext true h e = true ->
  (forall v ev, In v V -> look v = Some ev -> goodb2 ents ext true h ev = false) ->
  NoDup V -> incl V names -> (Datatypes.S (length names) < fuel + length V)%nat ->
  W.av_ok fuel en V [W.AvEnt nm] = None.
Proof.
  induction h as [|k IH]; intros nm e V fuel Hl Hg Hinv Hnd Hincl Hfu; [discriminate Hg|].
  destruct (goodb2 ents ext true k e) eqn:Egk.
  - apply (IH nm e V fuel Hl Egk); try assumption.
    intros v ev Hv Hlv. specialize (Hinv v ev Hv Hlv). destruct (goodb2 ents ext true k ev) eqn:E; [|reflexivity].
    apply goodb2_mono in E. congruence.
  - destruct (lookup_name _ _ _ Hl) as [En Hin].
    assert (~ In nm V) as Hnotin by (intros Hv; specialize (Hinv nm e Hv Hl); congruence).
    assert (W.mem nm V = false) as Hmem by (apply mem_false; intros x Hx ->; exact (Hnotin Hx)).
    pose proof (visited_bound ents V Hnd Hincl) as Hb. destruct fuel as [|[|f]]; [lia|lia|].
    cbn [goodb2] in Hg. apply andb_prop in Hg. destruct Hg as [Hg Hpieces]. apply andb_prop in Hg. destruct Hg as [Hg Hnolt].
    apply andb_prop in Hg. destruct Hg as [Hnot Hsysn].
    apply negb_true_iff in Hnot. cbn [andb] in Hsysn. apply negb_true_iff in Hsysn.
    pose proof (assoc_declared ents ext en Hrel nm e Hl) as Ha. unfold x_entity in Ha.
    destruct (en_values e) as [vs|] eqn:Ev.
    + assert (markup_ent e = true) as Hs by (rewrite forallb_forall in Hmk; apply Hmk; exact Hin).
      unfold markup_ent in Hs. rewrite Ev in Hs. apply andb_prop in Hs. destruct Hs as [Hs Hat]. apply andb_prop in Hs. destruct Hs as [Hmp _].
      unfold values_of in Hnolt, Hpieces. rewrite Ev in Hnolt, Hpieces.
      unfold attr_okb in Hat. rewrite (nolt_text vs Hmp Hnolt) in Hat.
      destruct (W.p_pieces (Datatypes.S (length (x_repl vs))) None W.c_lt (x_repl vs)) as [[ps [|c0 r0]]|] eqn:Hpc; try discriminate Hat.
      cbn [W.av_ok W.allc fold_right]. rewrite Hmem, Ha, Hpc.
      change (W.andc (W.av_ok (Datatypes.S f) en (nm :: V) ps) W.ok = None).
      rewrite av_ok_each; [reflexivity|].
      intros p Hp. rewrite forallb_forall in Hat. specialize (Hat p Hp). destruct p as [c|c|m]; cbn [attr_piece] in Hat.
      * reflexivity.
      * cbn [W.av_ok W.allc fold_right]. rewrite Hat. reflexivity.
      * apply Wmem_In in Hat. apply in_piece_names in Hat. rewrite forallb_forall in Hpieces. specialize (Hpieces _ Hat). cbn [piece_goodb] in Hpieces. fold (look m) in Hpieces.
        assert (incl (nm :: V) names) as Hincl' by (intros x [<-|Hx]; [rewrite <- En; apply in_map; exact Hin|apply Hincl; exact Hx]).
        assert (NoDup (nm :: V)) as Hnd' by (constructor; assumption).
        destruct (look m) as [e'|] eqn:Fm.
        -- apply (IH m e' (nm :: V) (Datatypes.S f) Fm Hpieces); try assumption.
           ++ intros v ev [<-|Hv] Hlv; [rewrite Hl in Hlv; injection Hlv as <-; exact Egk|].
              specialize (Hinv v ev Hv Hlv). destruct (goodb2 ents ext true k ev) eqn:E; [|reflexivity]. apply goodb2_mono in E. congruence.
           ++ cbn [length] in *. lia.
        -- pose proof (visited_bound ents (nm :: V) Hnd' Hincl') as Hb'. cbn [length] in *. destruct f as [|f0]; [lia|].
           apply (av_undeclared ents ext en Hrel); assumption.
    + exfalso. apply (Hsys e Hin Ev). destruct (en_system e); [discriminate Hsysn|reflexivity].
Qed.

Lemma resolve_good2 attr nm e : resolve_ref ents ext attr nm = IOk e ->
  (look nm = None /\ is_predef nm) \/ (look nm = Some e /\ exists h, goodb2 ents ext attr h e = true).
Proof.
  unfold resolve_ref. intros H. apply ibind_ok in H. destruct H as [[e0 d] [H1 H2]]. apply ibind_ok in H2. destruct H2 as [sn [H2 H3]].
  cbn [fst snd] in *. injection H3 as <-. unfold lookup_entity2 in H1. fold (look nm) in H1.
  destruct (look nm) as [e1|] eqn:Fl.
  - injection H1 as <- <-. right. split; [reflexivity|].
    destruct (lookup_name _ _ _ Fl) as [En _]. rewrite <- En in Fl.
    destruct (cer_sound2 ents ext attr Hwf (check_fuel ents) [] e1 sn Fl) as [_ Hg]; [intros k e0 Hk; discriminate Hk|exact H2|exact Hg].
  - left. split; [reflexivity|]. destruct (Info.predefined nm) as [e1|] eqn:P; [|discriminate]. eapply predefined_cases. exact P.
Qed.

Lemma ref_attr_ok_m f nm e : (length ents <= f)%nat -> resolve_ref ents ext true nm = IOk e ->
  W.av_ok (Datatypes.S (Datatypes.S f)) en [] [W.AvEnt nm] = None.
Proof.
  intros Hf H. destruct (resolve_good2 _ _ _ H) as [[Fl Hp]|[Fl [h Hg]]].
  - destruct (predef_lookup nm Hp) as [text [items [ps [E1 [_ [_ [E4 E5]]]]]]]. eapply av_ref_internal; [rewrite (assoc_undeclared ents ext en Hrel nm Fl); exact E1|exact E4|exact E5].
  - apply (av_good2 h nm e [] _ Fl Hg); [intros v ev []|constructor|intros x []|]. rewrite map_length. cbn [length]. lia.
Qed.

Lemma ref_content_ok_m f nm e : (length ents <= f)%nat -> resolve_ref ents ext false nm = IOk e ->
  exists x', W.expand (Datatypes.S (Datatypes.S f)) en [] (W.XEntRef nm) = inr x' /\ W.tree_ok (Datatypes.S (Datatypes.S f)) en x' = None.
Proof.
  intros Hf H. destruct (resolve_good2 _ _ _ H) as [[Fl Hp]|[Fl [h Hg]]].
  - destruct (predef_lookup nm Hp) as [text [items [ps [E1 [E2 [E3 _]]]]]].
    destruct (expand_ref_internal (Datatypes.S f) en nm text items) as [Ex Ot]; [rewrite (assoc_undeclared ents ext en Hrel nm Fl); exact E1|exact E2|exact E3|]. eauto.
  - destruct (expand_good2 h nm e [] (Datatypes.S (Datatypes.S f)) Fl Hg) as [x' [Ex Tx]]; [intros v ev []|constructor|intros x []| |eauto]. rewrite map_length. cbn [length]. lia.
Qed.
End Spec2.
