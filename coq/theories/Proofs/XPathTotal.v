(** * The evaluator never panics and never runs out of fuel on a well-formed table (C06,
    evaluation half): instance [G := valid], [Total := True] of Proofs/XPathInv.v. *)
From Coq Require Import List NArith Bool Lia.
From XmlRs Require Import Base.CPred Base.NList Base.Float64.
From XmlRs Require Import Spec.XPathCore Model.XPathFuncs.
From XmlRs Require Import Model.XPathAst Model.XDoc Model.XPathScalar Model.XPathEval.
From XmlRs Require Import Proofs.XPathEvalEqs Proofs.XPathNav Proofs.XPathSort Proofs.XPathAstPred
  Proofs.XPathInv Proofs.XPathCtx.
Import ListNotations.
Open Scope N_scope.

(** the scalar functions do not panic when called with at least the minimum number of arguments
    of the function table, and never ask for the node *)
Lemma scalar_fn_no_panic sv local sargs mn mx :
  find_func local = Some (mn, mx) -> mn <= len sargs -> scalar_fn sv local sargs <> RPanic.
Proof.
  intros Hfind Harity. unfold scalar_fn.
  repeat match goal with
  | |- (if str_eqb local ?name then _ else _) <> RPanic =>
      let E := fresh "E" in
      destruct (str_eqb local name) eqn:E;
      [ apply str_eqb_eq in E; subst local; vm_compute in Hfind; inversion Hfind; subst mn mx;
        unfold m_string, m_concat, m_starts_with, m_contains, m_substring_before, m_substring_after,
          m_substring, m_string_length, m_normalize_space, m_translate, m_boolean, m_not, m_ftrue,
          m_ffalse, m_number, m_floor, m_ceiling, m_round;
        try discriminate;
        repeat (match goal with
                | |- match ?l with _ => _ end <> RPanic =>
                    destruct l; [cbn [len] in Harity; lia|]
                end); try discriminate
      | ]
  end.
  discriminate.
Qed.

Lemma scalar_fn_no_node sv local sargs : scalar_fn sv local sargs <> RNeedsNode.
Proof.
  unfold scalar_fn.
  repeat match goal with
  | |- (if ?b then _ else _) <> RNeedsNode => destruct b
  end;
  unfold m_string, m_concat, m_starts_with, m_contains, m_substring_before, m_substring_after,
    m_substring, m_string_length, m_normalize_space, m_translate, m_boolean, m_not, m_ftrue,
    m_ffalse, m_number, m_floor, m_ceiling, m_round;
  try discriminate;
  repeat (match goal with
          | |- match ?l with _ => _ end <> RNeedsNode => destruct l
          end); discriminate.
Qed.

Section Total.
Variable doc : xdoc.
Hypothesis Hwf : DocWf doc.

Lemma valid_children i c : valid doc i -> In c (child_nodes doc i) -> valid doc c.
Proof. intros Vi Hc. apply (wf_children doc Hwf i c Vi Hc). Qed.

Lemma valid_parent i p : valid doc i -> parent_node doc i = Some p -> valid doc p.
Proof. intros Vi Hp. apply (wf_parent doc Hwf i p Vi Hp). Qed.

Lemma valid_axis a i : any_axis a = true -> valid doc i ->
  is_ok (axis_nodes doc a i) (Forall (valid doc)).
Proof.
  intros _ Vi.
  assert (Hns : a = AxisName AxNamespace \/ a <> AxisName AxNamespace).
  { destruct a as [[]|]; try (right; discriminate). left. reflexivity. }
  destruct Hns as [->|Hns].
  - cbn [axis_nodes]. unfold namespace_axis.
    destruct (wf_nss doc Hwf i Vi) as [l [El Hl]]. rewrite El.
    destruct (kind doc i); (eexists; split; [reflexivity|]); try constructor. exact Hl.
  - apply (axis_nodes_ok doc Hwf (valid doc));
      first [ exact Hns | exact Vi | exact (fun i H => H) | exact valid_children
            | exact (wf_attrs doc Hwf) | exact valid_parent | exact (wf_root doc Hwf) ].
Qed.

Theorem eval_total_lemma (e : expr) (n : node) (c : ctx) :
  expr_total e = true -> valid doc n ->
  fst (eval_expr doc e n c) <> Panic /\ fst (eval_expr doc e n c) <> OutOfFuel.
Proof.
  intros Hok Vn.
  pose proof (eval_inv_all doc Hwf (valid doc) (fun i H => H) valid_children
                valid_parent (wf_root doc Hwf) any_axis parses any_str True valid_axis) as H.
  destruct H as [Hor _].
  - intros _ s Hs. unfold parses in Hs. destruct (rust_parse_f64 s); [discriminate|discriminate].
  - intros _ sv local sargs mn mx _. apply scalar_fn_no_panic.
  - intros _. apply scalar_fn_no_node.
  - specialize (Hor e Hok n Vn c). unfold eval_expr.
    destruct (fst (eval_or_expr doc e n c)); cbn [rinv] in Hor; split; try discriminate;
      exfalso; apply Hor; exact I.
Qed.

(** with no panic possible, the context is restored unconditionally *)
Theorem eval_restores_total (e : expr) (n : node) (c : ctx) :
  expr_total e = true -> valid doc n -> snd (eval_expr doc e n c) = c.
Proof.
  intros Hok Vn. destruct (eval_total_lemma e n c Hok Vn) as [H1 H2].
  destruct (eval_expr doc e n c) as [r c'] eqn:E. cbn [fst snd] in *.
  eapply (eval_restores_context_lemma doc c e n r c' E).
  destruct r; cbn; auto.
Qed.

End Total.
