(** floor, ceiling, round and the integer casts compute the mathematical functions: integer
    characterisations of the results of Base/Float64.v (exact arithmetic, no axioms).
    A finite double [S754_finite s m e] with e < 0 has the value num / 2^k,
    num = (-1)^s * m, k = -e. *)
From Coq Require Import ZArith NArith List Bool Lia.
From Coq Require Import Floats.SpecFloat.
From XmlRs Require Import Base.CPred Base.Float64 Proofs.XPathFuncsRound.
Open Scope Z_scope.

(** floor: the largest integer n with n <= num / 2^k *)
Lemma rnd_floor_spec num k : 0 <= k ->
  rnd_floor num k * 2 ^ k <= num < (rnd_floor num k + 1) * 2 ^ k.
Proof.
  intros Hk. unfold rnd_floor. pose proof (Z.pow_pos_nonneg 2 k ltac:(lia) Hk) as HP.
  pose proof (Z.div_mod num (2 ^ k) ltac:(lia)) as E.
  pose proof (Z.mod_pos_bound num (2 ^ k) HP) as B. nia.
Qed.

(** ceiling: the smallest integer n with num / 2^k <= n *)
Lemma rnd_ceil_spec num k : 0 <= k ->
  (rnd_ceil num k - 1) * 2 ^ k < num <= rnd_ceil num k * 2 ^ k.
Proof.
  intros Hk. unfold rnd_ceil. pose proof (Z.pow_pos_nonneg 2 k ltac:(lia) Hk) as HP.
  pose proof (Z.div_mod (- num) (2 ^ k) ltac:(lia)) as E.
  pose proof (Z.mod_pos_bound (- num) (2 ^ k) HP) as B. nia.
Qed.

(** XPath round: the integer n with n - 1/2 <= num / 2^k < n + 1/2 (nearest, ties upwards) *)
Lemma rnd_half_up_spec num k : 0 <= k ->
  2 * rnd_half_up num k * 2 ^ k - 2 ^ k <= 2 * num < 2 * rnd_half_up num k * 2 ^ k + 2 ^ k.
Proof.
  intros Hk. unfold rnd_half_up. pose proof (Z.pow_pos_nonneg 2 k ltac:(lia) Hk) as HP.
  replace (2 ^ (k + 1)) with (2 * 2 ^ k) by (rewrite Z.pow_add_r by lia; lia).
  pose proof (Z.div_mod (2 * num + 2 ^ k) (2 * 2 ^ k) ltac:(lia)) as E.
  pose proof (Z.mod_pos_bound (2 * num + 2 ^ k) (2 * 2 ^ k) ltac:(lia)) as B. nia.
Qed.

(** truncation: towards zero *)
Lemma rnd_trunc_spec num k : 0 <= k ->
  Z.abs (rnd_trunc num k) * 2 ^ k <= Z.abs num < (Z.abs (rnd_trunc num k) + 1) * 2 ^ k /\
  0 <= rnd_trunc num k * num.
Proof.
  intros Hk. unfold rnd_trunc. pose proof (Z.pow_pos_nonneg 2 k ltac:(lia) Hk) as HP.
  pose proof (Z.quot_rem' num (2 ^ k)) as E.
  pose proof (Z.rem_bound_abs num (2 ^ k) ltac:(lia)) as B.
  pose proof (Z.rem_sign_mul num (2 ^ k) ltac:(lia)) as S.
  pose proof (Z.quot_abs num (2 ^ k) ltac:(lia)) as Q.
  rewrite (Z.abs_eq (2 ^ k)) in * by lia.
  assert (Hq : 0 <= Z.quot num (2 ^ k) * num).
  { destruct (Z.le_gt_cases 0 num).
    - pose proof (Z.quot_pos num (2 ^ k) ltac:(lia) HP). nia.
    - assert (Z.quot num (2 ^ k) <= 0).
      { rewrite <- (Z.opp_involutive num) at 1. rewrite Z.quot_opp_l by lia.
        pose proof (Z.quot_pos (- num) (2 ^ k) ltac:(lia) HP). lia. }
      nia. }
  split; [|exact Hq].
  rewrite <- Q. pose proof (Z.div_mod (Z.abs num) (2 ^ k) ltac:(lia)) as E'.
  pose proof (Z.mod_pos_bound (Z.abs num) (2 ^ k) HP) as B'.
  rewrite Z.quot_div_nonneg by lia. nia.
Qed.

(** an integer of fewer than 54 bits is represented exactly *)
Lemma of_int_exact (sz : bool) n : n <> 0 -> Z.abs n < 2 ^ 53 ->
  exists m e, binary_normalize prec emax n 0 sz = S754_finite (n <? 0) m e /\ e <= 0 /\
              Zpos m = Z.abs n * 2 ^ (- e).
Proof.
  intros Hn Hb.
  assert (Hp : forall s p, Zpos p < 2 ^ 53 ->
            exists m e, binary_round prec emax s p 0 = S754_finite s m e /\ e <= 0 /\ Zpos m = Zpos p * 2 ^ (- e)).
  { intros s p Hp. pose proof (digits_bounds p) as [B1 B2]. set (dp := Zpos (digits2_pos p)) in *.
    assert (dp <= 53).
    { destruct (Z.le_gt_cases dp 53) as [H|H]; [exact H|exfalso].
      assert (2 ^ 53 <= 2 ^ (dp - 1)) by (apply Z.pow_le_mono_r; lia). lia. }
    assert (1 <= dp) by (unfold dp; lia).
    assert (Hfe : fexp prec emax (dp + 0) = Z.max (dp + 0 - 53) (-1074)) by reflexivity.
    rewrite binary_round_exact; fold dp; rewrite Hfe; try (unfold emax, prec; lia).
    eexists _, _. split; [reflexivity|]. split; [lia|].
    rewrite Z2Pos.id; [f_equal; f_equal; lia|]. apply Z.mul_pos_pos; [lia|apply Z.pow_pos_nonneg; lia]. }
  destruct n as [|p|p]; [now elim Hn| |]; cbn [binary_normalize Z.abs Z.ltb Z.compare] in *.
  - exact (Hp false p Hb).
  - exact (Hp true p Hb).
Qed.

(** the result of a rounding to an integer is that integer, exactly *)
Definition is_int (x : f64) (sz : bool) (n : Z) : Prop :=
  (n = 0 /\ x = S754_zero sz) \/
  (n <> 0 /\ exists m e, x = S754_finite (n <? 0) m e /\ e <= 0 /\ Zpos m = Z.abs n * 2 ^ (- e)).

Lemma int_round_exact mode s m e : e < 0 ->
  Z.abs (mode (cond_Zopp s (Zpos m)) (- e)) < 2 ^ 53 ->
  is_int (f64_int_round mode (S754_finite s m e)) s (mode (cond_Zopp s (Zpos m)) (- e)).
Proof.
  intros He Hb. unfold f64_int_round. destruct (Z.leb_spec 0 e); [lia|].
  set (n := mode _ _) in *. destruct (Z.eq_dec n 0) as [E|E].
  - left. rewrite E. split; reflexivity.
  - right. split; [exact E|]. now apply of_int_exact.
Qed.

Section Value.
Variables (s : bool) (m : positive) (e : Z).
Hypothesis Hb : bounded prec emax m e = true.
Hypothesis He : e < 0.
Let num := cond_Zopp s (Zpos m).
Let k := - e.

Lemma num_bound : Z.abs num < 2 ^ 53 /\ 2 <= 2 ^ k.
Proof.
  destruct (canonical_facts m e Hb) as [Hd _]. pose proof (digits_bounds m) as [_ B2].
  assert (2 ^ Zpos (digits2_pos m) <= 2 ^ 53) by (apply Z.pow_le_mono_r; lia).
  split.
  - unfold num. destruct s; cbn [cond_Zopp Z.abs Z.opp]; lia.
  - change 2 with (2 ^ 1) at 1. apply Z.pow_le_mono_r; unfold k; lia.
Qed.

(** floor(x) is the largest integer not greater than x *)
Theorem floor_is_floor :
  let n := rnd_floor num k in
  n * 2 ^ k <= num < (n + 1) * 2 ^ k /\ is_int (f64_floor (S754_finite s m e)) s n.
Proof.
  cbv zeta. pose proof (rnd_floor_spec num k ltac:(unfold k; lia)) as H. split; [exact H|].
  apply int_round_exact; [exact He|]. fold num k. destruct num_bound as [B1 B2]. nia.
Qed.

(** ceiling(x) is the smallest integer not less than x *)
Theorem ceiling_is_ceiling :
  let n := rnd_ceil num k in
  (n - 1) * 2 ^ k < num <= n * 2 ^ k /\ is_int (f64_ceil (S754_finite s m e)) s n.
Proof.
  cbv zeta. pose proof (rnd_ceil_spec num k ltac:(unfold k; lia)) as H. split; [exact H|].
  apply int_round_exact; [exact He|]. fold num k. destruct num_bound as [B1 B2]. nia.
Qed.

(** round(x) is the integer closest to x, the larger one of two *)
Theorem round_is_nearest_ties_up :
  let n := rnd_half_up num k in
  2 * n * 2 ^ k - 2 ^ k <= 2 * num < 2 * n * 2 ^ k + 2 ^ k /\
  is_int (f64_xround (S754_finite s m e)) s n.
Proof.
  cbv zeta. pose proof (rnd_half_up_spec num k ltac:(unfold k; lia)) as H. split; [exact H|].
  apply int_round_exact; [exact He|]. fold num k. destruct num_bound as [B1 B2]. nia.
Qed.
End Value.

(** ** number -> string: the digits printed for a double read back as exactly that double *)
Lemma eqb_finite_eq x m e : f64_eqb x (S754_finite false m e) = true -> x = S754_finite false m e.
Proof.
  unfold f64_eqb, SFeqb, SFcompare.
  destruct x as [s|s| |s m' e']; try discriminate; try (destruct s; discriminate).
  destruct s; [discriminate|].
  destruct (Z.compare_spec e' e) as [->|H|H]; try discriminate.
  change (Pos.compare_cont Eq m' m) with (Pos.compare m' m).
  destruct (Pos.compare_spec m' m) as [->|H|H]; try discriminate. reflexivity.
Qed.

Lemma digits_candidate_sound x N Dn E n d k :
  digits_candidate x N Dn E n = Some (d, k) -> f64_eqb (f64_of_decimal false d k) x = true.
Proof.
  unfold digits_candidate. set (k0 := E - n + 1).
  destruct (if 0 <=? k0 then (N, Dn * 10 ^ k0) else (N * 10 ^ (- k0), Dn)) as [num den].
  set (lo := num / den).
  destruct (f64_eqb (f64_of_decimal false lo k0) x) eqn:Hlo;
    destruct (f64_eqb (f64_of_decimal false (lo + 1) k0) x) eqn:Hhi; try discriminate.
  - destruct (2 * (num mod den) <? den); intros [= <- <-]; assumption.
  - intros [= <- <-]; assumption.
  - intros [= <- <-]; assumption.
Qed.

Lemma shortest_search_sound fuel : forall x N Dn E n d k,
  shortest_search fuel x N Dn E n = Some (d, k) -> f64_eqb (f64_of_decimal false d k) x = true.
Proof.
  induction fuel as [|fuel IH]; intros x N Dn E n d k; cbn [shortest_search]; [discriminate|].
  destruct (digits_candidate x N Dn E n) as [[d' k']|] eqn:Hc.
  - intros [= <- <-]. exact (digits_candidate_sound _ _ _ _ _ _ _ Hc).
  - apply IH.
Qed.

Theorem shortest_round_trips s m e d k :
  f64_shortest (S754_finite s m e) = Some (d, k) ->
  f64_of_decimal false d k = S754_finite false m e.
Proof.
  unfold f64_shortest. destruct (f64_ratio_of m e) as [N Dn]. intros H.
  apply eqb_finite_eq. exact (shortest_search_sound _ _ _ _ _ _ _ _ H).
Qed.
