(** * C13 for [normalize] (Model/DomNormalize.v): no panic, no failure, atomicity of the failed calls of a
    history that contains [normalize] calls, the strengthened invariant [Inv2] *)
From Coq Require Import List NArith Bool.
From XmlRs Require Import Base.CPred Model.Store Model.DomOps Model.DomNormalize
  Proofs.DomTree Proofs.DomOpsInv Proofs.DomL1NoPanic Proofs.DomL1Atomic Proofs.DomL1RefineInv
  Proofs.DomNormalizeHist Proofs.DomNormalizeC12.
Import ListNotations.
Open Scope N_scope.

Lemma norm_op_no_42 ops : Forall norm_op ops -> forallb (fun o => negb (Known42 o)) ops = true.
Proof.
  intros F. apply forallb_forall. intros o Ho. rewrite Forall_forall in F. specialize (F o Ho).
  destruct o; try contradiction; reflexivity.
Qed.

(** [normalize] does not panic: its own outcome is [Ok] or [NotApplicable], and none of the calls it is made
    of ([append_data], [remove_child]) panics, whatever the world (no invariant needed) *)
Theorem normalize_no_panic : forall merged w r,
  snd (normalize merged w r) <> Panicked
  /\ exists ops, fst (normalize merged w r) = run w ops
       /\ forall pre o post, ops = pre ++ o :: post -> snd (step (run w pre) o) <> Panicked.
Proof.
  intros merged w r. split.
  - destruct (normalize_outcome merged w r) as [E|E]; rewrite E; discriminate.
  - destruct (normalize_history merged w r) as [ops [E F]]. exists ops. split; [exact E|].
    apply run_no_panic. apply norm_op_no_42. exact F.
Qed.

(** [normalize] has no failure *)
Theorem normalize_never_fails : forall merged w r e, snd (normalize merged w r) <> Failed e.
Proof. intros merged w r e. destruct (normalize_outcome merged w r) as [E|E]; rewrite E; discriminate. Qed.

Lemma run_n_app a b w : run_n w (a ++ b) = run_n (run_n w a) b.
Proof. unfold run_n. apply fold_left_app. Qed.

(** along histories with [normalize] calls: no call panics outside D42 *)
Theorem run_n_no_panic : forall nops w, forallb (fun o => negb (Known42 o)) (plain_ops nops) = true ->
  forall pre o post, nops = pre ++ o :: post -> snd (step_n (run_n w pre) o) <> Panicked.
Proof.
  intros nops w H pre o post E. subst nops. destruct o as [o|m r]; cbn [step_n].
  - apply step_no_panic_but_D42. rewrite forallb_forall in H. apply negb_true_iff. apply H.
    apply in_plain_ops. apply in_or_app. right. left. reflexivity.
  - apply normalize_no_panic.
Qed.

(** a failed call of a history with [normalize] calls leaves the world as it was *)
Theorem failure_atomic_reachable_with_normalize : forall init nops o e,
  WInv init -> match o with Op p => is_set_attribute p = false | Normalize _ _ => True end ->
  snd (step_n (run_n init nops) o) = Failed e -> fst (step_n (run_n init nops) o) = run_n init nops.
Proof.
  intros init nops o e Hi Hs Hf. destruct o as [p|m r]; cbn [step_n] in *.
  - apply (failure_atomic_strict _ p e); [apply tree_inv_reachable_with_normalize; exact Hi | exact Hs | exact Hf].
  - exfalso. exact (normalize_never_fails m _ r e Hf).
Qed.

(** inside [normalize]: a refused [append_data] (the concatenation is no character data) changes nothing *)
Theorem normalize_refused_append_atomic : forall w p d e,
  WInv w -> snd (step w (AppendData p d)) = Failed e -> fst (step w (AppendData p d)) = w.
Proof. intros w p d e Hw. apply failure_atomic_strict; [exact Hw | reflexivity]. Qed.

Theorem inv2_reachable_with_normalize : forall init nops, WInv2 init -> WInv2 (run_n init nops).
Proof. intros init nops. apply (run_n_invariant WInv2). intros ops w. apply run_inv2. Qed.

(** the example history of Proofs/DomNormalizeC12.v *)
From XmlRs Require Import Proofs.DomExample Proofs.DomNormalizeFrame.

Example nz_example13 :
  snd (step_n nz_before (Normalize false (0, 2))) = DomOps.Ok RUnit
  /\ snd (step_n nz_before (Normalize false (0, 6))) = NotApplicable
  /\ valid_str KTx (data_of (store0 nz_final) 6 ++ data_of (store0 nz_final) 10) = false.
Proof. split; [vm_compute; reflexivity|]. split; vm_compute; reflexivity. Qed.
