(** * C13: refinement rung "insertion" -- append_child and insert_before

    The model's [link] (unlink, set the parent, splice into the child list) is DOM Level 1's
    "if the newChild is already in the tree, it is first removed", then inserted; the model's
    checks ([wrong_doc], membership of the reference child, [check_insert]) raise the exception
    the specification prescribes, in the order of reading R2.  Outside the finding class
    C13-DOC-MOVE ([KnownDocMove]: the receiver is the Document and the new child is its own
    element / document type) the two agree on every receiver and argument -- self, ancestors,
    descendants, detached subtrees, nodes of other documents, attributes, the reference child itself
    (where Level 1 is silent and the model leaves the tree as it is). *)
From Coq Require Import List NArith Bool Lia PeanoNat.
From XmlRs Require Import Base.CPred Base.NList Model.Store Model.DomOps Proofs.DomBase Proofs.DomTree Proofs.DomAnc
  Proofs.DomOpsInv Proofs.DomL1Abs Proofs.DomL1Atomic Proofs.DomL1NoPanic Proofs.DomL1Refine.
From XmlRs Require Spec.DomCharData Spec.DomL1.
Import ListNotations.
Open Scope N_scope.

(** ** the two ancestor walks are the same function *)
Lemma up_to_anc_fuel s x : TreeInv s ->
  forall fuel start, (forall p, start = Some p -> exists pit, get s p = Some pit) ->
  DomL1.up_to fuel (abs_store s) start x = anc_fuel fuel s start x.
Proof.
  intros T. induction fuel as [|f IH]; intros start Hs; [reflexivity|].
  cbn [DomL1.up_to anc_fuel]. destruct start as [p|]; [|reflexivity].
  destruct (Hs p eq_refl) as [pit Hp]. rewrite Hp, (node_abs s p T), Hp. cbn [option_map abs_item DomL1.n_parent].
  destruct (p =? x); [reflexivity|]. apply IH. intros q Hq.
  assert (par s p q) as Hpar by (exists pit; split; assumption).
  apply (ti_par_lists s T) in Hpar. destruct Hpar as [qit [Hqg _]]. exists qit. exact Hqg.
Qed.

Lemma abs_store_length s : length (DomL1.d_nodes (abs_store s)) = N.to_nat (next s).
Proof. unfold abs_store. cbn [DomL1.d_nodes]. rewrite map_length, seq_length. reflexivity. Qed.

Lemma self_or_ancestor_abs s r x rit : TreeInv s -> get s r = Some rit ->
  DomL1.self_or_ancestor (abs_store s) r x = (x =? r) || ancestor s r x.
Proof.
  intros T Hr. unfold DomL1.self_or_ancestor, ancestor. rewrite abs_store_length.
  cbn [DomL1.up_to]. rewrite (node_abs s r T), Hr. cbn [option_map abs_item DomL1.n_parent].
  rewrite (N.eqb_sym r x). destruct (x =? r); [reflexivity|]. cbn [orb].
  unfold parent_of. rewrite Hr. apply up_to_anc_fuel; [exact T|]. intros q Hq.
  assert (par s r q) as Hpar by (exists rit; split; assumption).
  apply (ti_par_lists s T) in Hpar. destruct Hpar as [qit [Hqg _]]. exists qit. exact Hqg.
Qed.

(** ** kinds and cardinality *)
Lemma has_type_el s c : TreeInv s -> DomL1.has_type (abs_store s) DomL1.TElement c = has_kind s KEl c.
Proof.
  intros T. unfold DomL1.has_type, has_kind. rewrite (node_abs s c T).
  destruct (get s c) as [it|]; cbn [option_map]; [|reflexivity]. cbn [abs_item DomL1.n_type]. destruct (ikind it); reflexivity.
Qed.

Lemma has_type_dt s c : TreeInv s -> DomL1.has_type (abs_store s) DomL1.TDoctype c = has_kind s KDt c.
Proof.
  intros T. unfold DomL1.has_type, has_kind. rewrite (node_abs s c T).
  destruct (get s c) as [it|]; cbn [option_map]; [|reflexivity]. cbn [abs_item DomL1.n_type]. destruct (ikind it); reflexivity.
Qed.

Lemma existsb_find_none {A} (f : A -> bool) l : existsb f l = false <-> find f l = None.
Proof.
  induction l as [|a l IH]; cbn [existsb find]; [tauto|]. destruct (f a); cbn [orb]; [split; discriminate | exact IH].
Qed.

Lemma others_el s r x rit : TreeInv s -> get s r = Some rit -> ~ In x (ichildren rit) ->
  DomL1.others_of_type (abs_store s) r DomL1.TElement (@cons N x (@nil N)) = match find (has_kind s KEl) (ichildren rit) with Some _ => true | None => false end.
Proof.
  intros T Hr Hx. unfold DomL1.others_of_type, DomL1.children. rewrite (node_abs s r T), Hr. cbn [option_map abs_item DomL1.n_children].
  assert (E : forall l, (forall c, In c l -> c <> x) ->
          existsb (fun c => DomL1.has_type (abs_store s) DomL1.TElement c && negb (DomL1.memN c (@cons N x (@nil N)))) l = existsb (has_kind s KEl) l).
  { induction l as [|c l IH]; intros H; cbn [existsb]; [reflexivity|]. rewrite IH by (intros; apply H; right; assumption).
    rewrite (has_type_el s c T). unfold DomL1.memN. cbn [existsb]. rewrite orb_false_r.
    destruct (N.eqb_spec c x) as [->|]; [exfalso; apply (H x); [left; reflexivity | reflexivity]|]. cbn [negb]. rewrite andb_true_r. reflexivity. }
  rewrite E by (intros c Hc ->; contradiction).
  destruct (find (has_kind s KEl) (ichildren rit)) eqn:F.
  - destruct (existsb (has_kind s KEl) (ichildren rit)) eqn:Ex; [reflexivity|]. apply existsb_find_none in Ex. congruence.
  - apply existsb_find_none. exact F.
Qed.

Lemma others_dt s r x rit : TreeInv s -> get s r = Some rit -> ~ In x (ichildren rit) ->
  DomL1.others_of_type (abs_store s) r DomL1.TDoctype (@cons N x (@nil N)) = match find (has_kind s KDt) (ichildren rit) with Some _ => true | None => false end.
Proof.
  intros T Hr Hx. unfold DomL1.others_of_type, DomL1.children. rewrite (node_abs s r T), Hr. cbn [option_map abs_item DomL1.n_children].
  assert (E : forall l, (forall c, In c l -> c <> x) ->
          existsb (fun c => DomL1.has_type (abs_store s) DomL1.TDoctype c && negb (DomL1.memN c (@cons N x (@nil N)))) l = existsb (has_kind s KDt) l).
  { induction l as [|c l IH]; intros H; cbn [existsb]; [reflexivity|]. rewrite IH by (intros; apply H; right; assumption).
    rewrite (has_type_dt s c T). unfold DomL1.memN. cbn [existsb]. rewrite orb_false_r.
    destruct (N.eqb_spec c x) as [->|]; [exfalso; apply (H x); [left; reflexivity | reflexivity]|]. cbn [negb]. rewrite andb_true_r. reflexivity. }
  rewrite E by (intros c Hc ->; contradiction).
  destruct (find (has_kind s KDt) (ichildren rit)) eqn:F.
  - destruct (existsb (has_kind s KDt) (ichildren rit)) eqn:Ex; [reflexivity|]. apply existsb_find_none in Ex. congruence.
  - apply existsb_find_none. exact F.
Qed.

(** the document node has no parent: its ancestor walk finds nothing *)
Lemma ancestor_of_root s x : TreeInv s -> ancestor s (sroot s) x = false.
Proof.
  intros T. unfold ancestor, parent_of. destruct (ti_root s T) as [rit [Hr _]]. rewrite Hr.
  destruct (iparent rit) as [p|] eqn:Hp.
  - exfalso. eapply (root_no_parent s T p). exists rit. split; assumption.
  - destruct (N.to_nat (next s)); reflexivity.
Qed.

(** [hierarchy_ok] of the specification is [check_insert] of the model, outside C13-DOC-MOVE *)
Lemma hierarchy_ok_abs s r x rit xit :
  TreeInv s -> get s r = Some rit -> get s x = Some xit -> ikind xit <> KDoc ->
  (ikind rit = KDoc -> ikind xit = KEl \/ ikind xit = KDt -> ~ In x (ichildren rit)) ->
  DomL1.hierarchy_ok (abs_store s) r x (abs_type (ikind rit)) (abs_type (ikind xit)) (@cons N x (@nil N))
  = match check_insert s r x with None => true | Some _ => false end.
Proof.
  intros T Hr Hx Hxd Hnc. unfold DomL1.hierarchy_ok, check_insert, kind_of. rewrite Hr, Hx. cbn [option_map].
  rewrite (self_or_ancestor_abs s r x rit T Hr).
  destruct (ikind rit) eqn:Kr.
  - (* Document *)
    assert (Hroot : r = sroot s) by (eapply (ti_doc_root s T); eassumption).
    assert (Hne : (x =? r) = false).
    { apply N.eqb_neq. intros ->. rewrite Hr in Hx. inversion Hx; subst. congruence. }
    rewrite Hne. subst r. rewrite (ancestor_of_root s x T). cbn [orb negb andb].
    specialize (Hnc eq_refl).
    unfold DomL1.cardinality_ok, doc_element, doc_decl, children_of. rewrite Hr.
    destruct (ikind xit) eqn:Kx; cbn [abs_type DomL1.child_allowed andb]; try reflexivity; try congruence.
    + specialize (Hnc (or_introl eq_refl)).
      rewrite (others_el s (sroot s) x rit T Hr Hnc). destruct (find (has_kind s KEl) (ichildren rit)); reflexivity.
    + specialize (Hnc (or_intror eq_refl)).
      rewrite (others_dt s (sroot s) x rit T Hr Hnc), (others_el s (sroot s) x rit T Hr Hnc).
      destruct (find (has_kind s KDt) (ichildren rit)), (find (has_kind s KEl) (ichildren rit)); reflexivity.
  - destruct ((x =? r) || ancestor s r x); cbn [negb andb]; [reflexivity|].
    destruct (ikind xit); reflexivity.
  - destruct ((x =? r) || ancestor s r x); cbn [negb andb]; [reflexivity|].
    destruct (ikind xit); reflexivity.
  - destruct ((x =? r) || ancestor s r x), (ikind xit); reflexivity.
  - destruct ((x =? r) || ancestor s r x), (ikind xit); reflexivity.
  - destruct ((x =? r) || ancestor s r x), (ikind xit); reflexivity.
  - destruct ((x =? r) || ancestor s r x), (ikind xit); reflexivity.
  - destruct ((x =? r) || ancestor s r x), (ikind xit); reflexivity.
  - destruct ((x =? r) || ancestor s r x), (ikind xit); reflexivity.
  - destruct ((x =? r) || ancestor s r x), (ikind xit); reflexivity.
  - destruct ((x =? r) || ancestor s r x), (ikind xit); reflexivity.
Qed.

(** ** the state: [unlink] is [detach], [link] is [detach] then [attach] *)
Lemma abs_unlink s x xit : TreeInv s -> get s x = Some xit -> ikind xit <> KAt ->
  abs_store (unlink s x) = DomL1.detach (abs_store s) x.
Proof.
  intros T Hx Hk. unfold unlink, parent_of. rewrite Hx.
  destruct (iparent xit) as [p|] eqn:Hp.
  - assert (Hl : lists s p x) by (apply (ti_par_lists s T); exists xit; split; assumption).
    destruct Hl as [pit [Hpg [Hin|Hin]]].
    + rewrite Hpg.
      assert (Hx' := Hx). destruct (ti_child_kind s T p pit x xit Hpg Hin Hx) .
      assert (Hc : container (ikind pit) = true).
      { eapply child_ok_container. eapply (ti_child_kind s T p pit x xit); eassumption. }
      rewrite Hc. apply (abs_delete_by_id s p x pit T Hpg Hin).
    + exfalso. destruct (ti_attr_kind s T p pit x xit Hpg Hin Hx) as [_ E]. contradiction.
  - unfold DomL1.detach, DomL1.parent. rewrite (node_abs s x T), Hx. cbn [option_map abs_item DomL1.n_parent]. rewrite Hp. reflexivity.
Qed.

Lemma insert_before_id_spec x f : forall l,
  DomL1.insert_before_id x f l = match index_of f l with Some n => insert_at n x l | None => l ++ [x] end.
Proof.
  induction l as [|y t IH]; cbn [DomL1.insert_before_id index_of]; [reflexivity|].
  destruct (y =? f); [reflexivity|]. rewrite IH. destruct (index_of f t); reflexivity.
Qed.

Lemma abs_link s r x ref rit xit :
  TreeInv s -> get s r = Some rit -> get s x = Some xit -> ikind xit <> KAt ->
  abs_store (link s r x ref) = DomL1.attach (DomL1.detach (abs_store s) x) r x ref.
Proof.
  intros T Hr Hx Hk. unfold link, DomL1.attach.
  destruct (unlink_spec s x xit T Hx Hk) as [T1 _]. cbn zeta in T1.
  rewrite <- (abs_unlink s x xit T Hx Hk).
  pose proof (bounded_of_inv _ T1) as B1.
  rewrite (abs_store_upd _ r _ (fun rn => DomL1.set_children
             (match ref with Some f => DomL1.insert_before_id x f (DomL1.n_children rn) | None => DomL1.n_children rn ++ [x] end) rn)).
  - f_equal. apply abs_store_upd; [exact B1 | intros; reflexivity].
  - apply bounded_upd. exact B1.
  - intros it _. unfold abs_item, DomL1.set_children. cbn. f_equal.
    destruct ref as [f|]; [rewrite insert_before_id_spec|]; reflexivity.
Qed.

(** ** the two calls *)
Definition conf (before : DomL1.adom) (a : DomL1.adom * DomL1.aoutcome) (after : DomL1.adom) (got : DomL1.aoutcome) : Prop :=
  match snd a with
  | DomL1.AUnspecified => got <> DomL1.APanicked /\ (after = before \/ after = fst a)
  | want => after = fst a /\ got = want
  end.

Lemma conforms_conf before o after got : DomL1.conforms before o after got = conf before (DomL1.dom_step before o) after got.
Proof. reflexivity. Qed.

Lemma conf_exact before a after got :
  snd a <> DomL1.AUnspecified -> after = fst a -> got = snd a -> conf before a after got.
Proof. intros H1 H2 H3. unfold conf. destruct (snd a); try (split; assumption). contradiction. Qed.

(** the finding class C13-DOC-MOVE: the receiver is the Document and the new child is an Element or
    a DocumentType that is already among its children *)
Definition KnownDocMove (w : world) (r n : nref) : bool :=
  match doc_at w (fst r) with
  | Some s =>
    match get s (snd r), get s (snd n) with
    | Some rit, Some nit =>
      kind_eqb (ikind rit) KDoc && (fst n =? fst r) && mem (snd n) (ichildren rit)
      && (kind_eqb (ikind nit) KEl || kind_eqb (ikind nit) KDt)
    | _, _ => false
    end
  | None => false
  end.

Lemma check_insert_kind s r x xit : get s x = Some xit -> check_insert s r x = None -> ikind xit <> KAt /\ ikind xit <> KDoc.
Proof.
  intros Hx H. unfold check_insert, kind_of in H. rewrite Hx in H. cbn [option_map] in H.
  destruct (get s r) as [rit|]; cbn [option_map] in H; [|discriminate].
  destruct (ikind rit); try discriminate.
  - destruct (ikind xit); try discriminate; split; discriminate.
  - destruct ((x =? r) || ancestor s r x); [discriminate|]. destruct (ikind xit); try discriminate; split; discriminate.
  - destruct ((x =? r) || ancestor s r x); [discriminate|]. destruct (ikind xit); try discriminate; split; discriminate.
Qed.

Lemma check_insert_not_oof s r x : check_insert s r x <> Some OufOfIndex.
Proof.
  unfold check_insert. destruct (kind_of s r) as [kr|]; [|discriminate].
  destruct (kind_of s x) as [kx|]; [|destruct kr; discriminate].
  destruct kr; try discriminate.
  - destruct kx; try discriminate.
    + destruct (doc_element s); discriminate.
    + destruct (doc_decl s), (doc_element s); discriminate.
  - destruct ((x =? r) || ancestor s r x); [discriminate|]. destruct kx; discriminate.
  - destruct ((x =? r) || ancestor s r x); [discriminate|]. destruct kx; discriminate.
Qed.

Lemma insert_refines w (r n : nref) (ref : option nref) s rit :
  WInv w -> KnownDocMove w r n = false ->
  doc_at w (fst r) = Some s -> get s (snd r) = Some rit -> node_mut (ikind rit) = true ->
  exists_in w n = true -> (forall f, ref = Some f -> exists_in w f = true) ->
  conf (abs w) (DomL1.insert_before (abs w) r n ref)
       (abs (fst (dom_insert_before w r n ref))) (outcome_class (snd (dom_insert_before w r n ref))).
Proof.
  intros Hw Hkm D Hr Hnm En Eref.
  pose proof (doc_at_P TreeInv w _ s Hw D) as T.
  destruct (exists_in_true_aget w n Hw En) as [sn [nit [Dn [Gn An]]]].
  unfold DomL1.insert_before, dom_insert_before, kind_in. rewrite doc_of_abs. change (@fst N N r) with (@fst N id r).
  rewrite D. cbn [option_map]. rewrite (aget_abs w r s Hw D), Hr, An. cbn [option_map]. unfold kind_of. rewrite Hr. cbn [option_map].
  change (DomL1.n_type (abs_item rit)) with (abs_type (ikind rit)).
  change (DomL1.n_type (abs_item nit)) with (abs_type (ikind nit)).
  rewrite node_mut_abs, Hnm, container_abs. cbn [negb].
  destruct (container (ikind rit)) eqn:Hc; cbn [negb].
  2:{ apply conf_exact; [discriminate | reflexivity | reflexivity]. }
  rewrite (wrong_doc_abs w r n Hw En).
  destruct (wrong_doc w r n) eqn:Wn.
  { apply conf_exact; [discriminate | reflexivity | reflexivity]. }
  (* same document: the argument lives in [s] and is not a Document node *)
  assert (Hfst : fst n = fst r /\ ikind nit <> KDoc).
  { unfold wrong_doc, kind_in in Wn. rewrite Dn in Wn. unfold kind_of in Wn. rewrite Gn in Wn. cbn [option_map] in Wn.
    destruct (ikind nit); try discriminate; (split; [apply negb_false_iff in Wn; apply N.eqb_eq in Wn; exact Wn | discriminate]). }
  destruct Hfst as [Hfst Hnd]. rewrite Hfst in Dn. rewrite D in Dn. inversion Dn; subst sn. clear Dn.
  (* hierarchy = check_insert *)
  assert (Hnc : ikind rit = KDoc -> ikind nit = KEl \/ ikind nit = KDt -> ~ In (snd n) (ichildren rit)).
  { intros K1 K2 Hin. unfold KnownDocMove in Hkm. rewrite D, Hr, Gn in Hkm.
    rewrite K1, Hfst, N.eqb_refl in Hkm. cbn [kind_eqb andb] in Hkm.
    assert (M : mem (snd n) (ichildren rit) = true) by (apply mem_spec; exact Hin). rewrite M in Hkm. cbn [andb] in Hkm.
    destruct K2 as [K2|K2]; rewrite K2 in Hkm; discriminate. }
  pose proof (hierarchy_ok_abs s (snd r) (snd n) rit nit T Hr Gn Hnd Hnc) as HH.
  change (@snd N N r) with (@snd N id r). change (@snd N N n) with (@snd N id n). change (@fst N N r) with (@fst N id r).
  destruct ref as [f|].
  - (* insert_before *)
    pose proof (Eref f eq_refl) as Ef.
    rewrite (wrong_doc_abs w r f Hw Ef).
    destruct (wrong_doc w r f) eqn:Wf.
    { apply conf_exact; [discriminate | reflexivity | reflexivity]. }
    cbn [abs_item DomL1.n_children]. rewrite memN_mem. unfold info_insert_before, children_of. rewrite Hr.
    change (@snd N N f) with (@snd N id f).
    destruct (mem (snd f) (ichildren rit)) eqn:M; cbn [negb].
    2:{ apply conf_exact; [discriminate | reflexivity | reflexivity]. }
    change (@snd N N r) with (@snd N id r). change (@snd N N n) with (@snd N id n). change (@snd N N f) with (@snd N id f).
    rewrite HH. destruct (check_insert s (snd r) (snd n)) as [er|] eqn:CI; cbn [negb].
    { destruct er; [exfalso; exact (check_insert_not_oof _ _ _ CI) | |]; apply conf_exact; try discriminate; reflexivity. }
    rewrite (N.eqb_sym (snd f) (snd n)).
    destruct (snd n =? snd f) eqn:E.
    + (* insertBefore(x, x): Level 1 is silent, the model leaves the tree as it is *)
      unfold conf. cbn [fst snd]. split; [discriminate|]. left. rewrite (set_doc_same w (fst r) s D). reflexivity.
    + destruct (check_insert_kind s (snd r) (snd n) nit Gn CI) as [Hka _].
      apply conf_exact; [discriminate | | reflexivity]. cbn [fst].
      rewrite abs_set_doc. f_equal. rewrite abs_store_invalidate.
      apply (abs_link s (snd r) (snd n) (Some (snd f)) rit nit T Hr Gn Hka).
  - (* append_child *)
    unfold info_append. change (@snd N N r) with (@snd N id r). change (@snd N N n) with (@snd N id n).
    rewrite HH. destruct (check_insert s (snd r) (snd n)) as [er|] eqn:CI; cbn [negb].
    { apply conf_exact; [discriminate | reflexivity | reflexivity]. }
    destruct (check_insert_kind s (snd r) (snd n) nit Gn CI) as [Hka _].
    apply conf_exact; [discriminate | | reflexivity]. cbn [fst].
    rewrite abs_set_doc. f_equal. rewrite abs_store_invalidate.
    apply (abs_link s (snd r) (snd n) None rit nit T Hr Gn Hka).
Qed.

Lemma exists_node_abs w (n : nref) : WInv w -> DomL1.exists_node (abs w) n = exists_in w n.
Proof.
  intros Hw. unfold DomL1.exists_node. destruct (exists_in w n) eqn:E.
  - destruct (exists_in_true_aget w n Hw E) as [s [it [_ [_ A]]]]. rewrite A. reflexivity.
  - rewrite (exists_in_false_aget w n Hw E). reflexivity.
Qed.

(** what the specification answers when the receiver does not exist or offers no NodeMut *)
Lemma insert_before_not_offered w (r n : nref) ref :
  WInv w ->
  (match kind_in w r with Some k => node_mut k = false | None => True end \/ exists_in w n = false) ->
  DomL1.insert_before (abs w) r n ref = (abs w, DomL1.ANotOffered).
Proof.
  intros Hw H. unfold DomL1.insert_before. rewrite doc_of_abs. change (@fst N N r) with (@fst N id r).
  unfold kind_in in H. destruct (doc_at w (fst r)) as [s|] eqn:D; cbn [option_map]; [|reflexivity].
  rewrite (aget_abs w r s Hw D). unfold kind_of in H.
  destruct (get s (snd r)) as [rit|] eqn:Hr; cbn [option_map] in *; [|reflexivity].
  destruct (DomL1.aget (abs w) n) as [nn|] eqn:An; [|reflexivity].
  change (DomL1.n_type (abs_item rit)) with (abs_type (ikind rit)). rewrite node_mut_abs.
  destruct H as [H|H].
  - rewrite H. reflexivity.
  - rewrite (exists_in_false_aget w n Hw H) in An. discriminate.
Qed.

Theorem step_refines_partial_append : forall w r n,
  WInv w -> KnownDocMove w r n = false ->
  DomL1.conforms (abs w) (DomL1.AAppendChild r n) (abs (fst (step w (AppendChild r n)))) (outcome_class (snd (step w (AppendChild r n)))).
Proof.
  intros w r n Hw Hk. rewrite conforms_conf. cbn [step DomL1.dom_step].
  destruct (kind_in w r) as [k|] eqn:K.
  - destruct (node_mut k) eqn:Hnm.
    + destruct (exists_in w n) eqn:En.
      * unfold kind_in in K. destruct (doc_at w (fst r)) as [s|] eqn:D; [|discriminate].
        unfold kind_of in K. destruct (get s (snd r)) as [rit|] eqn:Hr; [|discriminate]. cbn in K. inversion K; subst k.
        apply (insert_refines w r n None s rit Hw Hk D Hr Hnm En). intros f Hf. discriminate.
      * rewrite (insert_before_not_offered w r n None Hw (or_intror En)). apply conf_exact; [discriminate | reflexivity | reflexivity].
    + rewrite (insert_before_not_offered w r n None Hw); [apply conf_exact; [discriminate | reflexivity | reflexivity]|].
      left. rewrite K. exact Hnm.
  - rewrite (insert_before_not_offered w r n None Hw); [apply conf_exact; [discriminate | reflexivity | reflexivity]|].
    left. rewrite K. exact I.
Qed.

Theorem step_refines_partial_insert : forall w r n f,
  WInv w -> KnownDocMove w r n = false ->
  DomL1.conforms (abs w) (DomL1.AInsertBefore r n f) (abs (fst (step w (InsertBefore r n f))))
                 (outcome_class (snd (step w (InsertBefore r n f)))).
Proof.
  intros w r n f Hw Hk. rewrite conforms_conf. cbn [step DomL1.dom_step]. rewrite (exists_node_abs w f Hw).
  destruct (kind_in w r) as [k|] eqn:K.
  - destruct (node_mut k) eqn:Hnm.
    + destruct (exists_in w f) eqn:Ef.
      * destruct (exists_in w n) eqn:En; cbn [andb].
        -- unfold kind_in in K. destruct (doc_at w (fst r)) as [s|] eqn:D; [|discriminate].
           unfold kind_of in K. destruct (get s (snd r)) as [rit|] eqn:Hr; [|discriminate]. cbn in K. inversion K; subst k.
           apply (insert_refines w r n (Some f) s rit Hw Hk D Hr Hnm En). intros f0 Hf. inversion Hf; subst. exact Ef.
        -- rewrite (insert_before_not_offered w r n (Some f) Hw (or_intror En)). apply conf_exact; [discriminate | reflexivity | reflexivity].
      * rewrite andb_false_r. apply conf_exact; [discriminate | reflexivity | reflexivity].
    + destruct (exists_in w f).
      * rewrite (insert_before_not_offered w r n (Some f) Hw); [apply conf_exact; [discriminate | reflexivity | reflexivity]|].
        left. rewrite K. exact Hnm.
      * apply conf_exact; [discriminate | reflexivity | reflexivity].
  - destruct (exists_in w f).
    + rewrite (insert_before_not_offered w r n (Some f) Hw); [apply conf_exact; [discriminate | reflexivity | reflexivity]|].
      left. rewrite K. exact I.
    + apply conf_exact; [discriminate | reflexivity | reflexivity].
Qed.

(** ** replace_child on an Element, an Attr or a leaf (the Document's cardinality rule is the
    finding C13-DOC-MOVE; Document receivers are compared on the implementation only) *)
Lemma set_nth_twice {A} (x y : A) : forall n l, DomL1.set_nth n x (DomL1.set_nth n y l) = DomL1.set_nth n x l.
Proof. induction n as [|n IH]; intros [|a l]; cbn; try reflexivity. f_equal. apply IH. Qed.

Lemma aset_doc_twice a k x y : DomL1.set_doc (DomL1.set_doc a k y) k x = DomL1.set_doc a k x.
Proof. unfold DomL1.set_doc. apply set_nth_twice. Qed.

Lemma hierarchy_ok_leaving d r x rt xt l1 l2 : rt <> DomL1.TDocument ->
  DomL1.hierarchy_ok d r x rt xt l1 = DomL1.hierarchy_ok d r x rt xt l2.
Proof. intros H. unfold DomL1.hierarchy_ok, DomL1.cardinality_ok. destruct rt; try reflexivity. contradiction. Qed.

Definition receiver_is_document (w : world) (r : nref) : bool :=
  match kind_in w r with Some KDoc => true | _ => false end.

Theorem step_refines_partial_replace : forall w (r n o : nref),
  WInv w -> receiver_is_document w r = false ->
  DomL1.conforms (abs w) (DomL1.AReplaceChild r n o) (abs (fst (step w (ReplaceChild r n o))))
                 (outcome_class (snd (step w (ReplaceChild r n o)))).
Proof.
  intros w r n o Hw Hrd. rewrite conforms_conf. cbn [step DomL1.dom_step]. unfold DomL1.replace_child.
  unfold receiver_is_document, kind_in in *. rewrite doc_of_abs. change (@fst N N r) with (@fst N id r).
  destruct (doc_at w (fst r)) as [s|] eqn:D; cbn [option_map]; [|apply conf_exact; [discriminate | reflexivity | reflexivity]].
  pose proof (doc_at_P TreeInv w _ s Hw D) as T.
  rewrite (aget_abs w r s Hw D). unfold kind_of in *.
  destruct (get s (snd r)) as [rit|] eqn:Hr; cbn [option_map] in *; [|apply conf_exact; [discriminate | reflexivity | reflexivity]].
  change (DomL1.n_type (abs_item rit)) with (abs_type (ikind rit)). rewrite node_mut_abs, container_abs.
  destruct (node_mut (ikind rit)) eqn:Hnm; cbn [negb].
  2:{ destruct (DomL1.aget (abs w) n), (DomL1.aget (abs w) o); apply conf_exact; try discriminate; reflexivity. }
  destruct (exists_in w n) eqn:En; cbn [andb].
  2:{ rewrite (exists_in_false_aget w n Hw En). apply conf_exact; [discriminate | reflexivity | reflexivity]. }
  destruct (exists_in_true_aget w n Hw En) as [sn [nit [Dn [Gn An]]]]. rewrite An.
  destruct (exists_in w o) eqn:Eo.
  2:{ rewrite (exists_in_false_aget w o Hw Eo). apply conf_exact; [discriminate | reflexivity | reflexivity]. }
  destruct (exists_in_true_aget w o Hw Eo) as [so [oit [Do [Go Ao]]]]. rewrite Ao.
  change (DomL1.n_type (abs_item nit)) with (abs_type (ikind nit)).
  unfold dom_insert_before, kind_in. rewrite D. unfold kind_of. rewrite Hr. cbn [option_map].
  destruct (container (ikind rit)) eqn:Hc; cbn [negb].
  2:{ apply conf_exact; [discriminate | reflexivity | reflexivity]. }
  rewrite (wrong_doc_abs w r n Hw En). destruct (wrong_doc w r n) eqn:Wn.
  { apply conf_exact; [discriminate | reflexivity | reflexivity]. }
  rewrite (wrong_doc_abs w r o Hw Eo). destruct (wrong_doc w r o) eqn:Wo.
  { apply conf_exact; [discriminate | reflexivity | reflexivity]. }
  assert (Hn : fst n = fst r /\ ikind nit <> KDoc).
  { unfold wrong_doc, kind_in in Wn. rewrite Dn in Wn. unfold kind_of in Wn. rewrite Gn in Wn. cbn [option_map] in Wn.
    destruct (ikind nit); try discriminate; (split; [apply negb_false_iff in Wn; apply N.eqb_eq in Wn; exact Wn | discriminate]). }
  assert (Ho : fst o = fst r /\ ikind oit <> KDoc).
  { unfold wrong_doc, kind_in in Wo. rewrite Do in Wo. unfold kind_of in Wo. rewrite Go in Wo. cbn [option_map] in Wo.
    destruct (ikind oit); try discriminate; (split; [apply negb_false_iff in Wo; apply N.eqb_eq in Wo; exact Wo | discriminate]). }
  destruct Hn as [Hfn Hnd]. destruct Ho as [Hfo Hod].
  rewrite Hfn in Dn. rewrite D in Dn. inversion Dn; subst sn. clear Dn.
  rewrite Hfo in Do. rewrite D in Do. inversion Do; subst so. clear Do.
  cbn [abs_item DomL1.n_children]. rewrite memN_mem. unfold info_insert_before, children_of. rewrite Hr.
  change (@snd N N r) with (@snd N id r). change (@snd N N n) with (@snd N id n). change (@snd N N o) with (@snd N id o).
  change (@fst N N r) with (@fst N id r).
  destruct (mem (snd o) (ichildren rit)) eqn:M; cbn [negb].
  2:{ apply conf_exact; [discriminate | reflexivity | reflexivity]. }
  assert (Hrk : abs_type (ikind rit) <> DomL1.TDocument) by (destruct (ikind rit); discriminate).
  rewrite (hierarchy_ok_leaving _ _ _ _ _ [snd n; snd o] (@cons N (snd n) (@nil N)) Hrk).
  assert (Hnc : ikind rit = KDoc -> ikind nit = KEl \/ ikind nit = KDt -> ~ In (snd n) (ichildren rit))
    by (intros K; rewrite K in Hrd; discriminate).
  rewrite (hierarchy_ok_abs s (snd r) (snd n) rit nit T Hr Gn Hnd Hnc).
  destruct (check_insert s (snd r) (snd n)) as [er|] eqn:CI; cbn [negb].
  { destruct er; [exfalso; exact (check_insert_not_oof _ _ _ CI) | |]; apply conf_exact; try discriminate; reflexivity. }
  apply mem_spec in M.
  destruct (snd n =? snd o) eqn:E.
  - (* replaceChild(x, x): the model removes x; that is the state the specification offers *)
    cbn [fst snd]. unfold dom_remove_child, kind_in. rewrite (set_doc_same w (fst r) s D), D. unfold kind_of. rewrite Hr. cbn [option_map].
    rewrite Hc, Wo. unfold info_delete, children_of. rewrite Hr.
    assert (M1 : mem (snd o) (ichildren rit) = true) by (apply mem_spec; exact M). rewrite M1.
    unfold conf. cbn [fst snd]. split; [discriminate|]. right.
    rewrite abs_set_doc. f_equal. rewrite abs_store_invalidate. apply (abs_delete_by_id s (snd r) (snd o) rit T Hr M).
  - (* the general case *)
    cbn [fst snd].
    destruct (check_insert_kind s (snd r) (snd n) nit Gn CI) as [Hka _].
    set (s1 := invalidate (link s (snd r) (snd n) (Some (snd o)))).
    assert (T1 : TreeInv s1) by (apply invalidate_inv; apply link_checked_inv; assumption).
    assert (Hne : snd o <> snd n) by (apply N.eqb_neq in E; congruence).
    assert (Hrn : snd r <> snd n) by (intros Er; apply (check_insert_ne _ _ _ CI); symmetry; exact Er).
    assert (Hin1 : In (snd o) (children_of s1 (snd r))).
    { change (children_of s1 (snd r)) with (children_of (link s (snd r) (snd n) (Some (snd o))) (snd r)).
      apply children_of_link_keeps; [unfold children_of; rewrite Hr; exact M | exact Hne | exact Hrn]. }
    assert (Hk1 : forall y, kind_of s1 y = kind_of s y).
    { intros y. change (kind_of s1 y) with (kind_of (link s (snd r) (snd n) (Some (snd o))) y). apply kind_of_link. }
    unfold dom_remove_child, kind_in. rewrite (doc_at_set_doc _ _ _ _ D).
    pose proof (Hk1 (snd r)) as Kr. unfold kind_of in Kr. rewrite Hr in Kr.
    destruct (get s1 (snd r)) as [rit1|] eqn:Hr1; [|discriminate]. cbn [option_map] in Kr. inversion Kr as [Kr1].
    unfold kind_of. rewrite Hr1. cbn [option_map]. rewrite Kr1, Hc.
    assert (W1 : wrong_doc (set_doc w (fst r) s1) r o = false).
    { unfold wrong_doc, kind_in in *. rewrite Hfo in *. rewrite (doc_at_set_doc _ _ _ _ D). rewrite D in Wo. rewrite Hk1. exact Wo. }
    rewrite W1. unfold info_delete.
    assert (M1 : mem (snd o) (children_of s1 (snd r)) = true) by (apply mem_spec; exact Hin1). rewrite M1.
    apply conf_exact; [discriminate | | reflexivity]. cbn [fst].
    rewrite !abs_set_doc, aset_doc_twice. f_equal. rewrite abs_store_invalidate.
    unfold children_of in Hin1. rewrite Hr1 in Hin1.
    rewrite (abs_delete_by_id s1 (snd r) (snd o) rit1 T1 Hr1 Hin1). f_equal.
    unfold s1. rewrite abs_store_invalidate. apply (abs_link s (snd r) (snd n) (Some (snd o)) rit nit T Hr Gn Hka).
Qed.
