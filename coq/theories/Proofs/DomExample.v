(** * A concrete store and history (shows that the hypotheses of C12 / C14 are satisfiable and
    that the conclusions say something): the document [<r><a x="1">t</a><b/></r>]. *)
From Coq Require Import List NArith Bool.
From XmlRs Require Import Base.CPred Model.Store Model.StoreCheck Model.DomOps.
Import ListNotations.
Open Scope N_scope.

Definition it (k : kind) (loc data : str) (par : option id) (ch at_ : list id) : item :=
  mkItem k None loc data false par ch at_ [].

(** ids: 1 document, 2 r, 3 a, 4 attribute x, 5 its value "1", 6 text "t", 7 b *)
Definition ex_items : list (id * item) :=
  [ (1, it KDoc [] [] None [2] []);
    (2, it KEl [114] [] (Some 1) [3; 7] []);
    (3, it KEl [97] [] (Some 2) [6] [4]);
    (4, it KAt [120] [] (Some 3) [5] []);
    (5, it KTx [] [49] (Some 4) [] []);
    (6, it KTx [] [116] (Some 3) [] []);
    (7, it KEl [98] [] (Some 2) [] []) ].

Definition ex_store : store := store_of_list ex_items 8 [] 1.
Definition ex_world : world := mkWorld [ex_store].

Definition no_name : name_info := mkName [101] (Some (None, [101])) (Some (None, [101])) (Some [101]) true.

(** a history with a refused call (an ancestor appended to its descendant), a move, a removal,
    a creation, and an attribute edit *)
Definition ex_ops : list op :=
  [ AppendChild (0, 3) (0, 2);            (* a.append_child(r): refused *)
    AppendChild (0, 7) (0, 3);            (* b.append_child(a): moves the subtree *)
    RemoveChild (0, 3) (0, 6);            (* a.remove_child(t) *)
    CreateElement (0, 1) no_name;         (* e = create_element("e"), id 8 *)
    InsertBefore (0, 2) (0, 8) (0, 7);    (* r.insert_before(e, b) *)
    AppendChild (0, 8) (0, 8);            (* e.append_child(e): refused *)
    RemoveAttribute (0, 3) [120] ].       (* a.remove_attribute("x") *)

Definition ex_final : world := run ex_world ex_ops.
Definition ex_final_store : store := match doc_at ex_final 0 with Some s => s | None => ex_store end.
