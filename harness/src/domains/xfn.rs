//! C09: XPath core functions and operators on scalar arguments, evaluated by the real crate.
//!
//! One case per line, words separated by blanks:
//!   fn   <name> <v>...   call the function-table entry DIRECTLY with `Value`s:
//!                        `xml_xpath::eval::func::table()` is public and so is `Entry::exec`, so the
//!                        arguments are the exact strings / doubles of the case (no expression
//!                        syntax in between); the arity test of `eval_func_expr` is replayed with
//!                        the public `min_args()` / `max_args()`.
//!   qfn  <name> <v>...   the same call, but spelled as an XPath expression and run through
//!                        `xml_xpath::query` (covers literal parsing, `eval_func_expr`, the arity test)
//!   op   <o> <v> <v>     o in eq ne lt le gt ge add sub mul div mod, through `query`
//!   op   neg <v>         unary minus, through `query` (neg2 / neg3: two / three minus signs)
//!   lit  <s:...>         a number literal (the characters given), through `query`
//!   arity <name> <n>     `name(1,...,1)` with n arguments through `query`: `ok` unless the answer
//!                        is InvalidArgumentCount / NotFoundFunction
//! Values: `s:<code points>` (decimal, comma separated, `-` = empty), `n:<16 hex digits>` (IEEE
//! bits), `b:0|1`.  Observation: a value in the same syntax (NaN canonical), `nodes:<n>`,
//! `err:<kind>`, `panic` (from main.rs).  The context node is the document node of `DOC`, whose
//! string-value is `CTX`.
use crate::util::{dec, enc};
use xml_dom::AsNode;
use xml_xpath::eval::{error::Error as EvalError, func, model::Context, model::Value};

pub const DOC: &str = "<r> 12 \u{20AC}x </r>";

enum V {
    S(String),
    N(f64),
    B(bool),
}

fn parse_value(w: &str) -> Option<V> {
    let (t, rest) = w.split_once(':')?;
    match t {
        "s" => Some(V::S(dec(rest)?)),
        "n" => Some(V::N(f64::from_bits(u64::from_str_radix(rest, 16).ok()?))),
        "b" => Some(V::B(rest == "1")),
        _ => None,
    }
}

fn to_value(v: &V) -> Value {
    match v {
        V::S(s) => Value::Text(s.clone()),
        V::N(x) => Value::Number(*x),
        V::B(b) => Value::Boolean(*b),
    }
}

/// XPath has no escapes: a string with both kinds of quote is a concat() of pieces
fn string_expr(s: &str) -> String {
    if !s.contains('\'') {
        return format!("'{}'", s);
    }
    if !s.contains('"') {
        return format!("\"{}\"", s);
    }
    let mut parts: Vec<String> = vec![];
    for (i, seg) in s.split('\'').enumerate() {
        if i > 0 {
            parts.push("\"'\"".to_string());
        }
        if !seg.is_empty() {
            parts.push(format!("'{}'", seg));
        }
    }
    format!("concat({})", parts.join(","))
}

fn number_expr(x: f64) -> String {
    if x.is_nan() {
        "(0 div 0)".to_string()
    } else if x == f64::INFINITY {
        "(1 div 0)".to_string()
    } else if x == f64::NEG_INFINITY {
        "(-1 div 0)".to_string()
    } else if x == 0.0 {
        if x.is_sign_negative() {
            "(0 * -1)".to_string()
        } else {
            "0".to_string()
        }
    } else if x < 0.0 {
        format!("(-{})", -x)
    } else {
        format!("{}", x)
    }
}

fn value_expr(v: &V) -> String {
    match v {
        V::S(s) => string_expr(s),
        V::N(x) => number_expr(*x),
        V::B(true) => "true()".to_string(),
        V::B(false) => "false()".to_string(),
    }
}

fn show(v: &Value) -> String {
    match v {
        Value::Boolean(b) => format!("b:{}", if *b { 1 } else { 0 }),
        Value::Number(x) => {
            let bits = if x.is_nan() { 0x7ff8000000000000u64 } else { x.to_bits() };
            format!("n:{:016x}", bits)
        }
        Value::Text(s) => format!("s:{}", enc(s)),
        Value::Node(n) => format!("nodes:{}", n.len()),
    }
}

fn show_eval_err(e: &EvalError) -> String {
    match e {
        EvalError::Dom(_) => "err:Dom".to_string(),
        EvalError::InvalidType => "err:InvalidType".to_string(),
        EvalError::InvalidArgumentCount(_) => "err:InvalidArgumentCount".to_string(),
        EvalError::NotFoundFunction(_) => "err:NotFoundFunction".to_string(),
        EvalError::NotFoundNamespace(_) => "err:NotFoundNamespace".to_string(),
        // variants added later (e.g. NotFoundVariable) cannot arise from the calls made here
        #[allow(unreachable_patterns)]
        _ => "err:Other".to_string(),
    }
}

fn run_query(expr: &str) -> String {
    let (_, doc) = match xml_dom::XmlDocument::from_raw(DOC) {
        Ok(v) => v,
        Err(_) => return "err:doc".to_string(),
    };
    let mut ctx = Context::default();
    let r = xml_xpath::query(doc, expr, &mut ctx);
    match r {
        Ok(v) => show(&v),
        Err(xml_xpath::error::Error::Eval(e)) => show_eval_err(&e),
        Err(xml_xpath::error::Error::ExprSyntax(_)) => "err:ExprSyntax".to_string(),
        Err(xml_xpath::error::Error::ExprRemain(_)) => "err:ExprRemain".to_string(),
    }
}

fn call_direct(name: &str, args: &[V]) -> String {
    let (_, doc) = match xml_dom::XmlDocument::from_raw(DOC) {
        Ok(v) => v,
        Err(_) => return "err:doc".to_string(),
    };
    let table = func::table();
    let entry = match table
        .iter()
        .find(|e| e.local_part() == name && e.namespace_uri().is_none())
    {
        Some(e) => e,
        None => return "err:NotFoundFunction".to_string(),
    };
    // the arity test of eval_func_expr
    if args.len() < entry.min_args() || entry.max_args() < args.len() {
        return "err:InvalidArgumentCount".to_string();
    }
    let mut ctx = Context::default();
    let vals: Vec<Value> = args.iter().map(to_value).collect();
    match entry.exec(vals, doc.as_node(), &mut ctx) {
        Ok(v) => show(&v),
        Err(e) => show_eval_err(&e),
    }
}

fn op_symbol(o: &str) -> Option<&'static str> {
    Some(match o {
        "eq" => "=",
        "ne" => "!=",
        "lt" => "<",
        "le" => "<=",
        "gt" => ">",
        "ge" => ">=",
        "add" => "+",
        "sub" => "-",
        "mul" => "*",
        "div" => "div",
        "mod" => "mod",
        _ => return None,
    })
}

pub fn case(line: &str) -> String {
    let words: Vec<&str> = line.split(' ').filter(|w| !w.is_empty()).collect();
    if words.len() < 2 {
        return "err:case".to_string();
    }
    let kind = words[0];
    let name = words[1];
    match kind {
        "fn" | "qfn" => {
            let mut args = vec![];
            for w in &words[2..] {
                match parse_value(w) {
                    Some(v) => args.push(v),
                    None => return "err:case".to_string(),
                }
            }
            if kind == "fn" {
                call_direct(name, &args)
            } else {
                let a: Vec<String> = args.iter().map(value_expr).collect();
                run_query(&format!("{}({})", name, a.join(",")))
            }
        }
        "op" => {
            if name == "neg" || name == "neg2" || name == "neg3" {
                let signs = match name {
                    "neg" => "-",
                    "neg2" => "- -",
                    _ => "---",
                };
                match words.get(2).and_then(|w| parse_value(w)) {
                    Some(v) => run_query(&format!("{}{}", signs, value_expr(&v))),
                    None => "err:case".to_string(),
                }
            } else {
                let sym = match op_symbol(name) {
                    Some(s) => s,
                    None => return "err:case".to_string(),
                };
                let a = words.get(2).and_then(|w| parse_value(w));
                let b = words.get(3).and_then(|w| parse_value(w));
                match (a, b) {
                    (Some(a), Some(b)) => {
                        run_query(&format!("{} {} {}", value_expr(&a), sym, value_expr(&b)))
                    }
                    _ => "err:case".to_string(),
                }
            }
        }
        "lit" => match parse_value(name) {
            Some(V::S(s)) => run_query(&s),
            _ => "err:case".to_string(),
        },
        "arity" => {
            let n: usize = match words.get(2).and_then(|w| w.parse().ok()) {
                Some(n) => n,
                None => return "err:case".to_string(),
            };
            let args = vec!["1"; n].join(",");
            let expr = format!("{}({})", name, args);
            let r = std::panic::catch_unwind(|| run_query(&expr));
            match r {
                Ok(s) if s == "err:InvalidArgumentCount" || s == "err:NotFoundFunction" => s,
                _ => "ok".to_string(),
            }
        }
        _ => "err:case".to_string(),
    }
}
