(** * C15: the strengthened lexical invariant [Lex15] is kept by every call

    [Lex15 s] = [Printable s] (Proofs/DomPrintable.v) and [Extra s]: the clauses of [extra15]
    (Model/StoreDoc.v) for every item -- a PI target is not xml in any letter case, PI data do not
    start with white space, the name of a character reference is #digits / #xhex and denotes the
    stored character, the text of a document type item is the print of a document type the parser
    reads from it -- and the XML declaration text of the store is a print ([decl_ok]).

    As for [Printable], names, PI data and attribute value pieces reach the model as facts
    computed by the implementation's parser; the theorem assumes the facts are what the grammar
    says ([op_facts_ok15]: the parser never returns xml as a PI target, it strips the white space
    before PI data, the character of a character reference is the one its digits denote). *)
From Coq Require Import List NArith Bool Lia.
From XmlRs Require Import Base.CPred Spec.XmlChars Model.Peg Model.ParseActions Model.Info Model.Display.
From XmlRs Require Import Model.Store Model.StoreCheck Model.PrintableCheck Model.DomOps Model.StoreDoc.
From XmlRs Require Import Proofs.DomBase Proofs.DomOpsInv Proofs.DomCheck Proofs.DomPrintable.
From XmlRs Require Model.CharData.
Import ListNotations.
Open Scope N_scope.

(** ** the declaration text is never touched *)
Lemma sd_upd s i f : sdecl (upd s i f) = sdecl s.
Proof. unfold upd. destruct (get s i); reflexivity. Qed.
Lemma sd_invalidate s : sdecl (invalidate s) = sdecl s.
Proof. reflexivity. Qed.
Lemma sd_create s it : sdecl (snd (create s it)) = sdecl s.
Proof. reflexivity. Qed.
Global Hint Rewrite sd_upd sd_invalidate sd_create : sd.

Ltac sd_step :=
  match goal with
  | |- context [match ?x with _ => _ end] => destruct x
  end.
Ltac sd := repeat (autorewrite with sd; cbn [fst snd]; try reflexivity; sd_step); autorewrite with sd; cbn [fst snd]; autorewrite with sd; try reflexivity.

Lemma sd_delete_by_id s p x : sdecl (delete_by_id s p x) = sdecl s.
Proof. unfold delete_by_id. sd. Qed.
Global Hint Rewrite sd_delete_by_id : sd.
Lemma sd_unlink s x : sdecl (unlink s x) = sdecl s.
Proof. unfold unlink. sd. Qed.
Global Hint Rewrite sd_unlink : sd.
Lemma sd_link s r x ref : sdecl (link s r x ref) = sdecl s.
Proof. unfold link. sd. Qed.
Global Hint Rewrite sd_link : sd.
Lemma sd_info_append s r x : sdecl (fst (info_append s r x)) = sdecl s.
Proof. unfold info_append. sd. Qed.
Global Hint Rewrite sd_info_append : sd.
Lemma sd_info_insert_before s r x f : sdecl (fst (info_insert_before s r x f)) = sdecl s.
Proof. unfold info_insert_before. sd. Qed.
Global Hint Rewrite sd_info_insert_before : sd.
Lemma sd_info_insert_after s r x f : sdecl (fst (info_insert_after s r x f)) = sdecl s.
Proof. unfold info_insert_after. sd. Qed.
Global Hint Rewrite sd_info_insert_after : sd.
Lemma sd_info_delete s r x : sdecl (fst (info_delete s r x)) = sdecl s.
Proof. unfold info_delete. sd. Qed.
Global Hint Rewrite sd_info_delete : sd.
Lemma sd_fold_unparent l : forall s, sdecl (fold_left (fun acc a => upd acc a (with_parent None)) l s) = sdecl s.
Proof. induction l as [|a t IH]; intros s; cbn [fold_left]; [reflexivity|]. rewrite IH. apply sd_upd. Qed.
Global Hint Rewrite sd_fold_unparent : sd.
Lemma sd_remove_attrs s e sel : sdecl (fst (remove_attrs s e sel)) = sdecl s.
Proof. unfold remove_attrs. cbn [fst]. sd. Qed.
Global Hint Rewrite sd_remove_attrs : sd.
Lemma sd_append_attribute s e a : sdecl (append_attribute s e a) = sdecl s.
Proof. unfold append_attribute. sd. Qed.
Global Hint Rewrite sd_append_attribute : sd.
Lemma sd_dom_set_attribute_node w k s e a : sdecl (fst (dom_set_attribute_node w k s e a)) = sdecl s.
Proof.
  unfold dom_set_attribute_node. destruct (negb (fst a =? k)); [reflexivity|].
  destruct (parent_of s (snd a)); [reflexivity|]. destruct (get s (snd a)) as [ait|]; [|reflexivity].
  destruct (kind_eqb (ikind ait) KAt && has_kind s KEl e); [|reflexivity].
  pose proof (sd_remove_attrs s e (qname_is s (iprefix ait) (ilocal ait))) as F.
  fold (remove_attribute_q s e (iprefix ait) (ilocal ait)) in F.
  destruct (remove_attribute_q s e (iprefix ait) (ilocal ait)) as [s1 old]. cbn [fst] in *.
  rewrite sd_append_attribute. exact F.
Qed.
Lemma sd_detach_values s a : sdecl (detach_values s a) = sdecl s.
Proof. unfold detach_values. sd. Qed.
Global Hint Rewrite sd_detach_values : sd.
Lemma sd_add_values l : forall s a s', add_values s a l = Some s' -> sdecl s' = sdecl s.
Proof.
  induction l as [|v t IH]; intros s a s' H; cbn [add_values] in H; [inversion H; reflexivity|].
  destruct v as [tx|name ch|name].
  - destruct tx as [|c tx]; [eapply IH; exact H|].
    unfold create, alloc in H. cbn [fst snd] in H. apply IH in H. rewrite H. sd.
  - destruct ch as [ch|]; [|discriminate]. unfold create, alloc in H. cbn [fst snd] in H. apply IH in H. rewrite H. sd.
  - destruct (entity_known s name); [|discriminate]. unfold create, alloc in H. cbn [fst snd] in H. apply IH in H. rewrite H. sd.
Qed.
Lemma sd_set_values s a d : sdecl (fst (set_values s a d)) = sdecl s.
Proof.
  unfold set_values. destruct (d_attr d) as [l|]; [|reflexivity].
  destruct (add_values (detach_values s a) a l) as [s1|] eqn:A; cbn [fst]; [|reflexivity].
  apply sd_add_values in A. rewrite sd_invalidate, A. apply sd_detach_values.
Qed.
Lemma sd_edit_data s n k off cnt x : sdecl (fst (edit_data s n k off cnt x)) = sdecl s.
Proof. unfold edit_data, set_str. sd. Qed.
Lemma sd_delete_data s n off cnt : sdecl (fst (delete_data s n off cnt)) = sdecl s.
Proof. unfold delete_data. destruct (kind_of s n); [apply sd_edit_data | reflexivity]. Qed.
Lemma sd_pi_set s n d : sdecl (fst (pi_set s n d)) = sdecl s.
Proof. unfold pi_set. sd. Qed.
Lemma sd_split_text k s n kd off : sdecl (fst (split_text k s n kd off)) = sdecl s.
Proof.
  unfold split_text. destruct (len (data_of s n) <? off); [reflexivity|].
  destruct (parent_of s n) as [p|]; [|reflexivity]. destruct (kind_of s p) as [kp|]; [|reflexivity].
  match goal with |- sdecl (fst (if ?c then _ else _)) = _ => destruct c end; [|reflexivity].
  unfold create, alloc. cbn [fst snd].
  match goal with |- context [info_insert_after ?a ?b ?c ?d] =>
    pose proof (sd_info_insert_after a b c d) as E; destruct (info_insert_after a b c d) as [s3 [e|]] end; cbn [fst] in *.
  - destruct e; cbn [fst]; try (rewrite E; unfold set_str; sd).
    match goal with |- context [info_append ?a ?b ?c] =>
      pose proof (sd_info_append a b c) as E4; destruct (info_append a b c) as [s4 [e4|]] end; cbn [fst] in *;
      rewrite E4, E; unfold set_str; sd.
  - rewrite E. unfold set_str. sd.
Qed.
Lemma sd_factory k s it : sdecl (fst (factory k s it)) = sdecl s.
Proof. reflexivity. Qed.

(** ** the extra clauses *)
Definition Extra (s : store) : Prop :=
  decl_ok s = true /\ forall i it, get s i = Some it -> extra15 (sdecl s) it = true.
Definition Lex15 (s : store) : Prop := Printable s /\ Extra s.
Definition WExtra (w : world) : Prop := WP Extra w.
Definition WLex15 (w : world) : Prop := WP Lex15 w.

Lemma lex15_item s i it : Lex15 s -> get s i = Some it -> item_ok15 (sdecl s) it = true.
Proof. intros [P [_ E]] H. unfold item_ok15. rewrite (P i it H), (E i it H). reflexivity. Qed.

Lemma extra15_txt d a b : txt_eq a b -> extra15 d a = extra15 d b.
Proof. intros [H1 [H2 [H3 H4]]]. unfold extra15, dt_item_ok. rewrite H1, H3, H4. reflexivity. Qed.

Lemma decl_ok_sd s s' : sdecl s' = sdecl s -> decl_ok s = true -> decl_ok s' = true.
Proof. unfold decl_ok. intros ->. auto. Qed.

Lemma xframe_extra s s' : sdecl s' = sdecl s -> tframe s s' -> Extra s -> Extra s'.
Proof.
  intros D F [H0 H]. split; [eapply decl_ok_sd; eassumption|]. intros i it' G. rewrite D.
  destruct (F i it' G) as [it [Hg E]]. rewrite (extra15_txt _ _ _ E). exact (H i it Hg).
Qed.

Lemma extra_create s it : Extra s -> extra15 (sdecl s) it = true -> Extra (snd (create s it)).
Proof.
  intros [H0 P] Hit. split; [exact H0|]. intros i x H. rewrite sd_create. unfold create, alloc in H. cbn in H. unfold get in H. cbn in H.
  destruct (N.eqb_spec i (next s)); [inversion H; subst; exact Hit | exact (P i x H)].
Qed.

Lemma extra_create_link s a it ref :
  Extra s -> extra15 (sdecl s) it = true -> Extra (link (snd (create s it)) a (fst (create s it)) ref).
Proof.
  intros P Hit. pose proof (extra_create s it P Hit) as P1.
  eapply xframe_extra; [apply sd_link | apply tframe_link | exact P1].
Qed.

(** ** the facts of a call *)
Definition no_lead_ws (c : str) : bool := match c with x :: _ => negb (is_ws x) | [] => true end.

Definition vitem_ok15 (v : vitem) : bool :=
  match v with
  | VChar name (Some ch) => charref_ok name ch
  | _ => true
  end.

Definition data_facts_ok15 (d : data_info) : Prop :=
  (forall l, d_attr d = Some l -> forallb vitem_ok15 l = true)
  /\ (forall c, d_pi d = Some (Some c) -> no_lead_ws c = true).

Definition name_facts_ok15 (n : name_info) : Prop := forall t, n_pi n = Some t -> is_xml_ci t = false.

Definition op_facts_ok15 (o : op) : Prop :=
  match o with
  | SetAttribute _ _ v => data_facts_ok15 v
  | CreateProcessingInstruction _ n v => name_facts_ok15 n /\ data_facts_ok15 v
  | SetNodeValue _ v | PISetData _ v => data_facts_ok15 v
  | _ => True
  end.

Lemma extra_add_values l : forall s a s',
  Extra s -> forallb vitem_ok15 l = true -> add_values s a l = Some s' -> Extra s'.
Proof.
  induction l as [|v t IH]; intros s a s' P Hl H; cbn [add_values] in H.
  - inversion H; subst. exact P.
  - cbn [forallb] in Hl. apply andb_true_iff in Hl. destruct Hl as [Hv Ht].
    destruct v as [tx|name ch|name].
    + destruct tx as [|c tx]; [eapply IH; eassumption|].
      pose proof (extra_create_link s a (new_item KTx None [] (c :: tx) false None) None P eq_refl) as P1.
      destruct (create s (new_item KTx None [] (c :: tx) false None)) as [i s1]. eapply IH; eassumption.
    + destruct ch as [ch|]; [|discriminate].
      pose proof (extra_create_link s a (new_item KCr None name ch false None) None P Hv) as P1.
      destruct (create s (new_item KCr None name ch false None)) as [i s1]. eapply IH; eassumption.
    + destruct (entity_known s name); [|discriminate].
      pose proof (extra_create_link s a (new_item KEr None name [] false None) None P eq_refl) as P1.
      destruct (create s (new_item KEr None name [] false None)) as [i s1]. eapply IH; eassumption.
Qed.

Lemma extra_set_values s a d : Extra s -> data_facts_ok15 d -> Extra (fst (set_values s a d)).
Proof.
  intros P [Hd _]. unfold set_values. destruct (d_attr d) as [l|] eqn:E; [|exact P].
  destruct (add_values (detach_values s a) a l) as [s1|] eqn:A; cbn [fst]; [|exact P].
  eapply xframe_extra; [apply sd_invalidate | apply tframe_invalidate|].
  eapply extra_add_values; [|apply Hd; reflexivity | exact A].
  eapply xframe_extra; [apply sd_detach_values | apply tframe_detach_values | exact P].
Qed.

Lemma extra_upd_item s n f :
  Extra s -> (forall it, get s n = Some it -> extra15 (sdecl s) (f it) = true) -> Extra (upd s n f).
Proof.
  intros [H0 P] Hf. split; [eapply decl_ok_sd; [apply sd_upd | exact H0]|]. intros i x H. rewrite sd_upd.
  rewrite get_upd in H. destruct (N.eqb_spec i n) as [->|]; [|exact (P i x H)].
  destruct (get s n) as [it|] eqn:E; [|discriminate]. cbn in H. inversion H; subst. apply Hf. reflexivity.
Qed.

Lemma extra_edit_data s n k off cnt x :
  Extra s -> kind_of s n = Some k -> chardata k = true -> Extra (fst (edit_data s n k off cnt x)).
Proof.
  intros P K C. unfold edit_data. destruct (len (data_of s n) <? off); [exact P|].
  destruct (valid_str k _) eqn:V; cbn [fst]; [|exact P].
  unfold set_str. apply extra_upd_item; [exact P|]. intros it Hit.
  unfold kind_of in K. rewrite Hit in K. cbn in K. inversion K as [Hk].
  unfold extra15. cbn [ikind with_data]. rewrite Hk. destruct k; try discriminate; reflexivity.
Qed.

Lemma extra_delete_data s n off cnt :
  Extra s -> (forall k, kind_of s n = Some k -> chardata k = true) -> Extra (fst (delete_data s n off cnt)).
Proof.
  intros P C. unfold delete_data. destruct (kind_of s n) as [k|] eqn:K; [|exact P].
  apply extra_edit_data; [exact P | exact K | apply C; reflexivity].
Qed.

Lemma extra_pi_set s n d :
  Extra s -> data_facts_ok15 d -> kind_of s n = Some KPi -> Extra (fst (pi_set s n d)).
Proof.
  intros P [_ Hd] K. unfold pi_set. destruct (d_pi d) as [[c|]|] eqn:E; cbn [fst]; try exact P.
  - apply extra_upd_item; [exact P|]. intros it Hit. destruct P as [_ P]. pose proof (P n it Hit) as Ho.
    unfold kind_of in K. rewrite Hit in K. cbn in K. inversion K as [Hk].
    unfold extra15 in *. cbn [ikind idata ilocal with_data]. rewrite Hk in *.
    apply andb_true_iff in Ho. destruct Ho as [Hn _]. rewrite Hn. cbn [andb]. apply (Hd c). reflexivity.
  - apply extra_upd_item; [exact P|]. intros it Hit. destruct P as [_ P]. pose proof (P n it Hit) as Ho.
    unfold kind_of in K. rewrite Hit in K. cbn in K. inversion K as [Hk].
    unfold extra15 in *. cbn [ikind idata ilocal with_data]. rewrite Hk in *.
    apply andb_true_iff in Ho. destruct Ho as [Hn _]. rewrite Hn. reflexivity.
Qed.

Lemma extra_split_text k s n kd off :
  Extra s -> kind_of s n = Some kd -> Extra (fst (split_text k s n kd off)).
Proof.
  intros P K. unfold split_text. destruct (len (data_of s n) <? off); [exact P|].
  destruct (parent_of s n) as [p|]; [|exact P].
  destruct (kind_of s p) as [kp|]; [|exact P].
  match goal with |- Extra (fst (if ?c then _ else _)) => destruct c eqn:Hok end; [|exact P].
  assert (Hkd : kd = KTx \/ kd = KCd) by (destruct kd; try discriminate; tauto).
  set (m := N.to_nat (N.min off (len (data_of s n)))).
  assert (P1 : Extra (set_str s n (firstn m (data_of s n)))).
  { unfold set_str. apply extra_upd_item; [exact P|]. intros it Hit.
    unfold kind_of in K. rewrite Hit in K. cbn in K. inversion K as [Hk].
    unfold extra15. cbn [ikind with_data]. rewrite Hk. destruct Hkd as [-> | ->]; reflexivity. }
  assert (O2 : extra15 (sdecl (set_str s n (firstn m (data_of s n)))) (new_item kd None [] (skipn m (data_of s n)) false None) = true).
  { unfold extra15. cbn [ikind new_item]. destruct Hkd as [-> | ->]; reflexivity. }
  pose proof (extra_create _ _ P1 O2) as P2.
  destruct (create (set_str s n (firstn m (data_of s n))) (new_item kd None [] (skipn m (data_of s n)) false None)) as [i s2].
  cbn [snd] in P2.
  pose proof (xframe_extra _ _ (sd_info_insert_after s2 p i n) (tframe_info_insert_after s2 p i n) P2) as P3.
  destruct (info_insert_after s2 p i n) as [s3 [e|]]; cbn [fst] in P3.
  - destruct e; cbn [fst]; try exact P3.
    pose proof (xframe_extra _ _ (sd_info_append s3 p i) (tframe_info_append s3 p i) P3) as P4.
    destruct (info_append s3 p i) as [s4 [e4|]]; exact P4.
  - exact P3.
Qed.

Lemma extra_factory k s it : Extra s -> extra15 (sdecl s) it = true -> Extra (fst (factory k s it)).
Proof.
  intros P H. unfold factory. pose proof (extra_create s it P H) as P1. destruct (create s it). exact P1.
Qed.

Theorem step_extra w o : WExtra w -> op_facts_ok15 o -> WExtra (fst (step w o)).
Proof.
  intros Hw F.
  assert (IB : forall s r x f, Extra s -> Extra (fst (info_insert_before s r x f)))
    by (intros; eapply xframe_extra; [apply sd_info_insert_before | apply tframe_info_insert_before | assumption]).
  assert (AP : forall s r x, Extra s -> Extra (fst (info_append s r x)))
    by (intros; eapply xframe_extra; [apply sd_info_append | apply tframe_info_append | assumption]).
  assert (DL : forall s r x, Extra s -> Extra (fst (info_delete s r x)))
    by (intros; eapply xframe_extra; [apply sd_info_delete | apply tframe_info_delete | assumption]).
  assert (SAN : forall w k s e a, Extra s -> Extra (fst (dom_set_attribute_node w k s e a)))
    by (intros; eapply xframe_extra; [apply sd_dom_set_attribute_node | apply tframe_dom_set_attribute_node | assumption]).
  assert (RA : forall s e sel, Extra s -> Extra (fst (remove_attrs s e sel)))
    by (intros; eapply xframe_extra; [apply sd_remove_attrs | apply tframe_remove_attrs | assumption]).
  destruct o; cbn [step]; cbn [op_facts_ok15] in F.
  - destruct (kind_in w r) as [k|]; [|exact Hw]. destruct (node_mut k); [|exact Hw].
    destruct (exists_in w n); [apply dom_insert_before_P; assumption | exact Hw].
  - destruct (kind_in w r) as [k|]; [|exact Hw]. destruct (node_mut k); [|exact Hw].
    destruct (exists_in w n && exists_in w f); [apply dom_insert_before_P; assumption | exact Hw].
  - destruct (kind_in w r) as [k|]; [|exact Hw]. destruct (node_mut k); [|exact Hw].
    destruct (exists_in w n && exists_in w o); [|exact Hw].
    pose proof (dom_insert_before_P Extra IB AP w r n (Some o) Hw) as H1.
    destruct (dom_insert_before w r n (Some o)) as [w1 oc]. cbn [fst] in H1.
    destruct oc; try exact H1. apply dom_remove_child_P; assumption.
  - destruct (kind_in w r) as [k|]; [|exact Hw]. destruct (node_mut k); [|exact Hw].
    destruct (exists_in w o); [apply dom_remove_child_P; assumption | exact Hw].
  - (* SetAttribute *)
    apply on_element_P; [exact Hw|]. intros s T _.
    destruct (n_attr name) as [[p l]|] eqn:En; [|exact T].
    pose proof (extra_create s (new_item KAt p l [] false None) T eq_refl) as T1.
    destruct (create s (new_item KAt p l [] false None)) as [a s1]. cbn [snd] in T1.
    destruct (attribute_q s1 (snd r) p l) as [present|].
    + pose proof (extra_set_values s1 present value T1 F) as T2.
      destruct (set_values s1 present value) as [s2 [|]]; exact T2.
    + pose proof (extra_set_values s1 a value T1 F) as T2.
      destruct (set_values s1 a value) as [s2 [|]]; cbn [fst] in *; [|exact T2].
      pose proof (SAN w (fst r) s2 (snd r) (fst r, a) T2) as T3.
      destruct (dom_set_attribute_node w (fst r) s2 (snd r) (fst r, a)) as [s3 oc]. cbn [fst] in T3.
      destruct oc; exact T3.
  - destruct (attr_local w a) as [nm|]; [|exact Hw]. apply on_element_P; [exact Hw|]. intros s T _. apply SAN. exact T.
  - apply on_element_P; [exact Hw|]. intros s T _. cbn [fst]. apply RA. exact T.
  - destruct (attr_q w a) as [[p l]|]; [|exact Hw]. apply on_element_P; [exact Hw|]. intros s T _.
    destruct (attribute_q s (snd r) p l) as [f|]; [|exact T].
    destruct ((f =? snd a) && (fst a =? fst r)); cbn [fst]; [apply RA; exact T | exact T].
  - destruct (attr_local w a) as [nm|]; [|exact Hw]. apply on_element_P; [exact Hw|]. intros s T _. apply SAN. exact T.
  - apply on_element_P; [exact Hw|]. intros s T _.
    destruct (get_attribute_node s (snd r) name); cbn [fst]; [apply RA; exact T | exact T].
  - (* CreateElement *)
    apply on_document_P; [exact Hw|]. intros s T.
    destruct (n_elem name) as [[p l]|] eqn:E; [|exact T]. apply extra_factory; [exact T | reflexivity].
  - apply on_document_P; [exact Hw|]. intros s T.
    destruct (n_attr name) as [[p l]|] eqn:E; [|exact T]. apply extra_factory; [exact T | reflexivity].
  - apply on_document_P; [exact Hw|]. intros s T. destruct (valid_str KTx (d_str data)) eqn:V; [|exact T].
    apply extra_factory; [exact T | reflexivity].
  - apply on_document_P; [exact Hw|]. intros s T. destruct (valid_str KCm (d_str data)) eqn:V; [|exact T].
    apply extra_factory; [exact T | reflexivity].
  - apply on_document_P; [exact Hw|]. intros s T. destruct (valid_str KCd (d_str data)) eqn:V; [|exact T].
    apply extra_factory; [exact T | reflexivity].
  - (* CreateProcessingInstruction *)
    destruct F as [Fp [_ Fd]]. apply on_document_P; [exact Hw|]. intros s T.
    destruct (n_pi target) as [t|] eqn:Et; [|exact T]. destruct (d_pi data) as [[c|]|] eqn:Ed; try exact T.
    + apply extra_factory; [exact T|]. unfold extra15. cbn [ikind ilocal idata new_item]. rewrite (Fp t Et). cbn [negb andb].
      apply (Fd c). reflexivity.
    + apply extra_factory; [exact T|]. unfold extra15. cbn [ikind ilocal idata new_item]. rewrite (Fp t Et). reflexivity.
  - apply on_document_P; [exact Hw|]. intros s T.
    destruct (n_ref name) eqn:Er; [|exact T]. destruct (entity_declared s (n_str name)); [|exact T].
    apply extra_factory; [exact T | reflexivity].
  - apply on_document_P; [exact Hw|]. intros s T. apply extra_factory; [exact T | reflexivity].
  - (* SetNodeValue *)
    apply on_node_P; [exact Hw|]. intros s k T K. destruct k; try exact T.
    + pose proof (extra_set_values s (snd r) v T F) as H. destruct (set_values s (snd r) v) as [s1 [|]]; exact H.
    + apply extra_edit_data; [assumption | assumption | reflexivity].
    + apply extra_edit_data; [assumption | assumption | reflexivity].
    + apply extra_pi_set; assumption.
    + apply extra_edit_data; [assumption | assumption | reflexivity].
  - apply on_node_P; [exact Hw|]. intros s k T K. destruct (chardata k) eqn:C; [apply extra_edit_data; assumption | exact T].
  - apply on_node_P; [exact Hw|]. intros s k T K. destruct (chardata k) eqn:C; [apply extra_edit_data; assumption | exact T].
  - apply on_node_P; [exact Hw|]. intros s k T K. destruct (chardata k) eqn:C; [apply extra_edit_data; assumption | exact T].
  - apply on_node_P; [exact Hw|]. intros s k T K. destruct (chardata k) eqn:C; [|exact T].
    apply extra_delete_data; [assumption|]. intros k' K'. congruence.
  - apply on_node_P; [exact Hw|]. intros s k T K. destruct (chardata k) eqn:C; [apply extra_edit_data; assumption | exact T].
  - apply on_node_P; [exact Hw|]. intros s k T K. destruct k; try exact T; apply extra_split_text; assumption.
  - apply on_node_P; [exact Hw|]. intros s k T K. destruct k; try exact T. apply extra_pi_set; assumption.
  - exact Hw.
Qed.

Theorem extra_reachable : forall ops w, WExtra w -> Forall op_facts_ok15 ops -> WExtra (run w ops).
Proof.
  induction ops as [|o t IH]; intros w Hw F; cbn; [exact Hw|].
  inversion F; subst. apply IH; [apply step_extra; assumption | assumption].
Qed.

Lemma wlex15_split w : WLex15 w <-> WPrintable w /\ WExtra w.
Proof.
  unfold WLex15, WPrintable, WExtra, WP. rewrite !Forall_forall. split.
  - intros H. split; intros s Hs; apply (H s Hs).
  - intros [H1 H2] s Hs. split; [apply H1 | apply H2]; exact Hs.
Qed.

Theorem lex15_reachable : forall ops w,
  WLex15 w -> Forall op_facts_ok ops -> Forall op_facts_ok15 ops -> WLex15 (run w ops).
Proof.
  intros ops w H F1 F2. apply wlex15_split in H. destruct H as [H1 H2]. apply wlex15_split. split.
  - apply printable_reachable; assumption.
  - apply extra_reachable; assumption.
Qed.

(** ** the executable check is sound (what a driver can evaluate on the initial stores) *)
Theorem lex15_b_sound : forall l nx decl root,
  lex15_b decl l = true -> decl_ok (store_of_list l nx decl root) = true -> Lex15 (store_of_list l nx decl root).
Proof.
  intros l nx decl root H D. split; [|split; [exact D|]].
  - intros i it G. unfold store_of_list, get in G. cbn [items] in G.
    destruct (lookup_in l i it G) as [j [_ [Hin _]]]. unfold lex15_b in H. rewrite forallb_forall in H.
    pose proof (H (j, it) Hin) as X. unfold item_ok15 in X. apply andb_prop in X. apply X.
  - intros i it G. unfold store_of_list, get in G. cbn [items] in G.
    destruct (lookup_in l i it G) as [j [_ [Hin _]]]. unfold lex15_b in H. rewrite forallb_forall in H.
    pose proof (H (j, it) Hin) as X. unfold item_ok15 in X. apply andb_prop in X. apply X.
Qed.
