(* domfacts: the string facts of the DOM operations computed by the extracted model of the parser
   (Model/DomFacts.v facts_of_name / facts_of_data), printed in the format of the `digest` of
   harness/src/domains/dom.rs:
     e<element name>/a<attribute name>/p<pi target>/r<reference?>/t<text ok>/c<comment ok>/d<cdata ok>/P<pi content>/A<attribute value items>
   Input line: one encoded string.  checks/dom13.py (facts_tie) compares the line with the O word the
   harness prints for the same string. *)
let qn = function
  | None -> "~"
  | Some (p, l) -> (match p with None -> "~" | Some x -> enc x) ^ "_" ^ enc l
let bit b = if b then "1" else "0"
let item = function
  | VText x -> "t" ^ enc x
  | VChar (n, ch) -> "c" ^ enc n ^ "_" ^ (match ch with Some c -> enc c | None -> "~")
  | VEnt n -> "e" ^ enc n
let digest (s : n list) : string =
  let nm = facts_of_name s and dt = facts_of_data s in
  let p = match n_pi nm with None -> "~" | Some t -> enc t in
  let pc = match d_pi dt with None -> "~" | Some None -> "n" | Some (Some v) -> "s" ^ enc v in
  let av = match d_attr dt with
    | None -> "~"
    | Some [] -> "."
    | Some l -> String.concat "^" (List.map item l) in
  Printf.sprintf "e%s/a%s/p%s/r%s/t%s/c%s/d%s/P%s/A%s"
    (qn (n_elem nm)) (qn (n_attr nm)) p (bit (n_ref nm)) (bit (d_text dt)) (bit (d_comment dt)) (bit (d_cdata dt)) pc av
let () = register "domfacts" (fun words -> match words with [s] -> digest (dec s) | _ -> "usage")
