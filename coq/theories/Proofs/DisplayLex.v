(** * C04, rung 1: the lexical productions of [G_xml] re-parse what the printer writes.

    For each production P and every value x that satisfies the invariant [..._ok x] (what the
    printer needs to know about x: "all characters are name characters", "no -- inside", ...) and
    every continuation [r] that satisfies the follow condition of P:

        yields P (print_P x ++ r) (value of x) r

    i.e. for all sufficiently large fuel, [denote G_xml fuel (NT P)] consumes exactly the printed
    text and returns a tree whose interpretation ([ParseActions.eval_tree]) is x.  Everything is
    universally quantified over the strings; nothing is computed on samples. *)
From Coq Require Import List NArith Arith Lia Bool.
From XmlRs Require Import Base.CPred Model.Peg Gen.XmlcharGen Gen.GrammarXmlGen Model.ParseActions
     Proofs.PegTermination Proofs.PegLemmas.
Import ListNotations.
Local Open Scope N_scope.

Notation P := (parses G_xml).
Notation F := (fails G_xml).

(** [e] on [s] consumes up to [r] and its tree means [v] *)
Definition yields (e : pexpr) (s : str) (v : val) (r : str) : Prop :=
  exists t, P e s t r /\ eval_tree t = v.

Lemma yields_nt n s v r : yields (body G_xml n) s v r -> yields (NT n) s v r.
Proof. intros [t [H E]]. exists t. split; [apply parses_nt; exact H|exact E]. Qed.

Lemma yields_alt_l a b s v r : yields a s v r -> yields (Alt a b) s v r.
Proof. intros [t [H E]]. exists t. split; [apply parses_alt_l; exact H|exact E]. Qed.

Lemma yields_alt_r a b s v r : F a s -> yields b s v r -> yields (Alt a b) s v r.
Proof. intros Hf [t [H E]]. exists t. split; [apply parses_alt_r; assumption|exact E]. Qed.

Lemma yields_map l e s v r : yields e s v r -> yields (Map l e) s (apply_label l v) r.
Proof. intros [t [H E]]. exists (TMap l t). split; [apply parses_map; exact H|cbn [eval_tree]; rewrite E; reflexivity]. Qed.

(** [v] is given explicitly so that the label can be computed first *)
Lemma yields_map' v l e s w r : apply_label l v = w -> yields e s v r -> yields (Map l e) s w r.
Proof. intros <- H. apply yields_map. exact H. Qed.

Lemma yields_seq a b s va r1 vb r2 : yields a s va r1 -> yields b r1 vb r2 -> yields (Seq a b) s (VPair va vb) r2.
Proof.
  intros [ta [Ha Ea]] [tb [Hb Eb]]. exists (TPair ta tb). split; [eapply parses_seq; eassumption|].
  cbn [eval_tree]. rewrite Ea, Eb. reflexivity.
Qed.

Lemma yields_seql a b s va r1 tb r2 : yields a s va r1 -> P b r1 tb r2 -> yields (SeqL a b) s va r2.
Proof. intros [ta [Ha Ea]] Hb. exists ta. split; [eapply parses_seql; eassumption|exact Ea]. Qed.

Lemma yields_seqr a b s ta r1 vb r2 : P a s ta r1 -> yields b r1 vb r2 -> yields (SeqR a b) s vb r2.
Proof. intros Ha [tb [Hb Eb]]. exists tb. split; [eapply parses_seqr; eassumption|exact Eb]. Qed.

Lemma yields_opt_some e s v r : yields e s v r -> yields (Opt e) s (VSome v) r.
Proof. intros [t [H E]]. exists (TSome t). split; [apply parses_opt_some; exact H|cbn [eval_tree]; rewrite E; reflexivity]. Qed.

Lemma yields_opt_none e s : F e s -> yields (Opt e) s VNone s.
Proof. intros H. exists TNone. split; [apply parses_opt_none; exact H|reflexivity]. Qed.

Lemma yields_str e s a r : P e s (TStr a) r -> yields e s (VStr a) r.
Proof. intros H. exists (TStr a). split; [exact H|reflexivity]. Qed.

(** repetition: the list of values *)
Inductive many_yields (e : pexpr) : str -> list val -> str -> Prop :=
| my_stop s : F e s -> many_yields e s [] s
| my_step s v r1 vs r : yields e s v r1 -> (length r1 < length s)%nat -> many_yields e r1 vs r ->
                        many_yields e s (v :: vs) r.

Lemma yields_many0 e s vs r : many_yields e s vs r -> yields (Many0 e) s (VList vs) r.
Proof.
  intros H. assert (exists ts, many_parses G_xml e s ts r /\ map eval_tree ts = vs) as [ts [Hp Hm]].
  { induction H as [s Hf|s v r1 vs r [t [Ht Et]] Hlt _ [ts [Hp Hm]]].
    - exists []. split; [constructor; exact Hf|reflexivity].
    - exists (t :: ts). split; [econstructor; eassumption|cbn [map]; rewrite Et, Hm; reflexivity]. }
  exists (TList ts). split; [apply parses_many0; exact Hp|cbn [eval_tree]; rewrite Hm; reflexivity].
Qed.

(** ** span, once more: every string splits into its maximal [f]-prefix and the rest *)
Lemma span_split (f : char -> bool) (s : str) :
  exists a b : str, s = a ++ b /\ forallb f a = true /\ stops f b.
Proof.
  induction s as [|c s [a [b [-> [Ha Hb]]]]].
  - exists [], []. repeat split.
  - destruct (f c) eqn:E.
    + exists (c :: a), b. repeat split; [cbn [forallb]; rewrite E, Ha; reflexivity|exact Hb].
    + exists [], (c :: a ++ b). repeat split. exact E.
Qed.

Lemma forallb_app_r {A} (f : A -> bool) a b : forallb f (a ++ b) = true -> forallb f b = true.
Proof. rewrite forallb_app. intros H. apply andb_prop in H. tauto. Qed.
Lemma forallb_app_l {A} (f : A -> bool) a b : forallb f (a ++ b) = true -> forallb f a = true.
Proof. rewrite forallb_app. intros H. apply andb_prop in H. tauto. Qed.

Lemma stops_weaken (f g : char -> bool) (r : str) : (forall c, f c = true -> g c = true) -> stops g r -> stops f r.
Proof.
  intros H. destruct r as [|c r]; cbn [stops]; [auto|]. intros Hg.
  destruct (f c) eqn:E; [|reflexivity]. rewrite (H c E) in Hg. discriminate.
Qed.

Lemma stops_app (f : char -> bool) (a r : str) : stops f r -> (a <> [] -> stops f a) -> stops f (a ++ r).
Proof. destruct a as [|c a]; cbn; intros H1 H2; [exact H1|apply H2; discriminate]. Qed.

(** ** character classes *)
Definition ws : cpred := InR [(32,32);(9,9);(13,13);(10,10)].

Lemma name_start_is_name c : eval is_name_start_char c = true -> eval is_name_char c = true.
Proof. intros H. unfold is_name_char. cbn [eval]. rewrite H. reflexivity. Qed.

Lemma except_sub (p : cpred) ex c : eval (And p (NotIn ex)) c = true -> eval p c = true.
Proof. cbn [eval]. intros H. apply andb_prop in H. tauto. Qed.

Lemma name_char_except_colon c : eval (is_name_char_except [58]) c = true -> eval is_name_char c = true.
Proof. apply except_sub. Qed.

Lemma name_start_except_colon c : eval (is_name_start_char_except [58]) c = true -> eval (is_name_char_except [58]) c = true.
Proof.
  unfold is_name_start_char_except, is_name_char_except. cbn [eval]. intros H. apply andb_prop in H.
  destruct H as [H1 H2]. rewrite (name_start_is_name c H1), H2. reflexivity.
Qed.

Lemma not_name_char_not_colon (r : str) : stops (eval is_name_char) r -> prefix [58] r = None.
Proof.
  destruct r as [|c r]; cbn [stops prefix]; [reflexivity|]. intros H.
  destruct (N.eqb_spec 58 c) as [<-|]; [|reflexivity]. vm_compute in H. discriminate.
Qed.

(** ** Name *)
Lemma body_name : body G_xml nt_name = Recognize (Seq (NT nt_multinamestartchar0) (NT nt_multinamechar0)).
Proof. reflexivity. Qed.
Lemma body_mnsc0 : body G_xml nt_multinamestartchar0 = Chars0 is_name_start_char.
Proof. reflexivity. Qed.
Lemma body_mnc0 : body G_xml nt_multinamechar0 = Chars0 is_name_char.
Proof. reflexivity. Qed.

Definition name_ok (n : str) : Prop := forallb (eval is_name_char) n = true.

Theorem parses_name (n r : str) : name_ok n -> stops (eval is_name_char) r -> P (NT nt_name) (n ++ r) (TStr n) r.
Proof.
  intros Hn Hr. apply parses_nt. rewrite body_name.
  destruct (span_split (eval is_name_start_char) n) as [n1 [n2 [-> [H1 H2]]]].
  apply parses_recognize with (t := TPair (TStr n1) (TStr n2)). rewrite <- app_assoc.
  eapply parses_seq.
  - apply parses_nt. rewrite body_mnsc0. apply parses_chars0; [exact H1|].
    apply stops_app; [|intros _; exact H2].
    eapply stops_weaken; [apply name_start_is_name|exact Hr].
  - apply parses_nt. rewrite body_mnc0. apply parses_chars0; [|exact Hr].
    eapply forallb_app_r. exact Hn.
Qed.

(** ** NCName, QName *)
Lemma body_ncname : body G_xml nt_ncname =
  Recognize (Seq (Chars1 (is_name_start_char_except [58])) (Chars0 (is_name_char_except [58]))).
Proof. reflexivity. Qed.

Definition ncname_ok (n : str) : Prop :=
  match n with
  | c :: n' => eval (is_name_start_char_except [58]) c = true /\ forallb (eval (is_name_char_except [58])) n' = true
  | [] => False
  end.

Theorem parses_ncname (n r : str) : ncname_ok n -> stops (eval (is_name_char_except [58])) r ->
  P (NT nt_ncname) (n ++ r) (TStr n) r.
Proof.
  destruct n as [|c n]; [intros []|]. intros [Hc Hn] Hr. apply parses_nt. rewrite body_ncname.
  destruct (span_split (eval (is_name_start_char_except [58])) n) as [n1 [n2 [-> [H1 H2]]]].
  apply parses_recognize with (t := TPair (TStr (c :: n1)) (TStr n2)).
  replace ((c :: n1 ++ n2) ++ r) with ((c :: n1) ++ n2 ++ r) by (cbn [app]; rewrite app_assoc; reflexivity).
  eapply parses_seq.
  - apply parses_chars1; [discriminate|apply andb_true_intro; split; [exact Hc|exact H1]|].
    apply stops_app; [|intros _; exact H2].
    eapply stops_weaken; [apply name_start_except_colon|exact Hr].
  - apply parses_chars0; [|exact Hr]. eapply forallb_app_r. exact Hn.
Qed.

Lemma body_qname : body G_xml nt_qname =
  Alt (Map L_model_QName_from (NT nt_prefixed_name)) (Map L_model_QName_from (NT nt_ncname)).
Proof. reflexivity. Qed.
Lemma body_prefixed_name : body G_xml nt_prefixed_name =
  Map L_model_PrefixedName_from (Seq (NT nt_ncname) (SeqR (Tag [58]) (NT nt_ncname))).
Proof. reflexivity. Qed.

Definition qname_ok (q : qname) : Prop :=
  match q with Prefixed p l => ncname_ok p /\ ncname_ok l | Unprefixed n => ncname_ok n end.

Definition d_qname (q : qname) : str :=
  match q with Prefixed p l => p ++ 58 :: l | Unprefixed n => n end.

(** the tree of a QName is determined by the name (needed by [VerifyEq]: start tag = end tag) *)
Definition tree_qname (q : qname) : tree :=
  match q with
  | Prefixed p l => TMap L_model_QName_from (TMap L_model_PrefixedName_from (TPair (TStr p) (TStr l)))
  | Unprefixed n => TMap L_model_QName_from (TStr n)
  end.

Lemma eval_tree_qname q : eval_tree (tree_qname q) = VQName q.
Proof. destruct q; reflexivity. Qed.

Lemma stops_colon_except (r : str) : stops (eval (is_name_char_except [58])) (58 :: r).
Proof. reflexivity. Qed.

Theorem parses_qname (q : qname) (r : str) : qname_ok q -> stops (eval is_name_char) r ->
  P (NT nt_qname) (d_qname q ++ r) (tree_qname q) r.
Proof.
  intros Hq Hr.
  assert (stops (eval (is_name_char_except [58])) r) as Hr' by (eapply stops_weaken; [apply name_char_except_colon|exact Hr]).
  apply parses_nt. rewrite body_qname. destruct q as [p l|n]; cbn [d_qname tree_qname qname_ok] in *.
  - destruct Hq as [Hp Hl]. apply parses_alt_l. apply parses_map. apply parses_nt. rewrite body_prefixed_name.
    apply parses_map. rewrite <- app_assoc. cbn [app]. eapply parses_seq.
    + apply parses_ncname; [exact Hp|apply stops_colon_except].
    + eapply parses_seqr; [apply parses_tag_lit; reflexivity|].
      apply parses_ncname; assumption.
  - apply parses_alt_r.
    + apply fails_map. apply fails_nt. rewrite body_prefixed_name. apply fails_map.
      eapply fails_seq_r; [apply parses_ncname; eassumption|].
      apply fails_seqr_l. apply fails_tag. apply not_name_char_not_colon. exact Hr.
    + apply parses_map. apply parses_ncname; assumption.
Qed.

(** ** white space and Eq *)
Lemma body_eq : body G_xml nt_eq = SeqR (Chars0 ws) (SeqL (Tag [61]) (Chars0 ws)).
Proof. reflexivity. Qed.

(** the printer writes a bare `=` *)
Theorem parses_eq (r : str) : stops (eval ws) r -> P (NT nt_eq) (61 :: r) (TStr [61]) r.
Proof.
  intros Hr. apply parses_nt. rewrite body_eq.
  eapply parses_seqr; [apply parses_chars0_nil; reflexivity|].
  change (61 :: r) with ([61] ++ r). eapply parses_seql; [apply parses_tag|apply parses_chars0_nil; exact Hr].
Qed.

(** one space, as the printer writes between a tag name and an attribute *)
Lemma parses_space1 (r : str) : stops (eval ws) r -> P (Chars1 ws) (32 :: r) (TStr [32]) r.
Proof. intros Hr. change (32 :: r) with ([32] ++ r). apply parses_chars1; [discriminate|reflexivity|exact Hr]. Qed.

Lemma parses_ws0_nil (r : str) : stops (eval ws) r -> P (Chars0 ws) r (TStr []) r.
Proof. apply parses_chars0_nil. Qed.

Lemma parses_ws0_space (r : str) : stops (eval ws) r -> P (Chars0 ws) (32 :: r) (TStr [32]) r.
Proof. intros Hr. change (32 :: r) with ([32] ++ r). apply parses_chars0; [reflexivity|exact Hr]. Qed.

(** ** references *)
Lemma body_reference : body G_xml nt_reference = Alt (NT nt_entity_ref) (NT nt_char_ref).
Proof. reflexivity. Qed.
Lemma body_entity_ref : body G_xml nt_entity_ref =
  Map L_model_Reference_entity (SeqR (Tag [38]) (SeqL (NT nt_name) (Tag [59]))).
Proof. reflexivity. Qed.
Lemma body_char_ref : body G_xml nt_char_ref =
  Alt (Map L_model_Reference_digit (SeqR (Tag [38;35]) (SeqL (Chars1 (InR [(48,57)])) (Tag [59]))))
      (Map L_model_Reference_hex (SeqR (Tag [38;35;120]) (SeqL (Chars1 (InR [(48,57);(65,70);(97,102)])) (Tag [59])))).
Proof. reflexivity. Qed.

Definition dec_digits : cpred := InR [(48,57)].
Definition hex_digits : cpred := InR [(48,57);(65,70);(97,102)].

Definition reference_ok (x : reference) : Prop :=
  match x with
  | RefEntity n => name_ok n
  | RefChar num Dec => num <> [] /\ forallb (eval dec_digits) num = true
  | RefChar num Hex => num <> [] /\ forallb (eval hex_digits) num = true
  end.

Definition d_reference (x : reference) : str :=
  match x with
  | RefEntity n => 38 :: n ++ [59]
  | RefChar num Dec => 38 :: 35 :: num ++ [59]
  | RefChar num Hex => 38 :: 35 :: 120 :: num ++ [59]
  end.

Lemma stops_semicolon p (r : str) : eval p 59 = false -> stops (eval p) (59 :: r).
Proof. intros H. exact H. Qed.

Ltac tag := apply parses_tag_lit; reflexivity.
(** right-associate and push conses out of appends *)
Ltac norm_app := repeat (progress (rewrite <- ?app_assoc; cbn [app])).

Theorem yields_reference (x : reference) (r : str) : reference_ok x ->
  yields (NT nt_reference) (d_reference x ++ r) (VReference x) r.
Proof.
  intros Hx. apply yields_nt. rewrite body_reference. destruct x as [num [|]|n]; cbn [reference_ok d_reference app] in *.
  - (* decimal *) destruct Hx as [Hne Hd]. rewrite <- app_assoc. apply yields_alt_r.
    + apply fails_nt. rewrite body_entity_ref. apply fails_map.
      eapply fails_seqr_r; [tag|]. eapply fails_seql_r; [apply (parses_name [] (35 :: num ++ [59] ++ r)); reflexivity|].
      apply fails_tag. reflexivity.
    + apply yields_nt. rewrite body_char_ref. apply yields_alt_l.
      apply (yields_map' (VStr num)); [reflexivity|].
      eapply yields_seqr; [tag|].
      eapply yields_seql; [apply yields_str; apply parses_chars1; [exact Hne|exact Hd|reflexivity]|tag].
  - (* hexadecimal *) destruct Hx as [Hne Hd]. rewrite <- app_assoc. apply yields_alt_r.
    + apply fails_nt. rewrite body_entity_ref. apply fails_map.
      eapply fails_seqr_r; [tag|]. eapply fails_seql_r; [apply (parses_name [] (35 :: 120 :: num ++ [59] ++ r)); reflexivity|].
      apply fails_tag. reflexivity.
    + apply yields_nt. rewrite body_char_ref. apply yields_alt_r.
      * apply fails_map. eapply fails_seqr_r; [tag|]. apply fails_seql_l. apply fails_chars1. reflexivity.
      * apply (yields_map' (VStr num)); [reflexivity|].
        eapply yields_seqr; [tag|].
        eapply yields_seql; [apply yields_str; apply parses_chars1; [exact Hne|exact Hd|reflexivity]|tag].
  - (* entity *) rewrite <- app_assoc. apply yields_alt_l. apply yields_nt. rewrite body_entity_ref.
    apply (yields_map' (VStr n)); [reflexivity|].
    eapply yields_seqr; [tag|].
    eapply yields_seql; [apply yields_str; apply parses_name; [exact Hx|reflexivity]|tag].
Qed.

(** ** AttValue *)
Definition av_piece (q : N) : pexpr :=
  Alt (Map L_model_AttributeValue_from (xc_char_except1 [60;38;q])) (Map L_model_AttributeValue_from (NT nt_reference)).

Lemma body_att_value : body G_xml nt_att_value =
  Alt (SeqR (Tag [34]) (SeqL (Many0 (av_piece 34)) (Tag [34])))
      (SeqR (Tag [39]) (SeqL (Many0 (av_piece 39)) (Tag [39]))).
Proof. reflexivity. Qed.

(** [after_text]: the previous piece was literal text (two adjacent text pieces would re-parse as one) *)
Fixpoint av_ok (q : N) (after_text : bool) (l : list att_value) : Prop :=
  match l with
  | [] => True
  | AvText s :: l' => after_text = false /\ s <> [] /\ forallb (eval (is_char_except [60;38;q])) s = true /\ av_ok q true l'
  | AvReference x :: l' => reference_ok x /\ av_ok q false l'
  end.

Definition d_av_piece (v : att_value) : str :=
  match v with AvText s => s | AvReference x => d_reference x end.
Definition d_av (l : list att_value) : str := flat_map d_av_piece l.

Lemma d_reference_head x : exists t, d_reference x = 38 :: t.
Proof. destruct x as [num [|]|n]; cbn [d_reference]; eauto. Qed.

Lemma d_reference_length x : (0 < length (d_reference x))%nat.
Proof. destruct (d_reference_head x) as [t ->]. cbn. lia. Qed.

Lemma fails_reference_quote (q : N) (r : str) : q = 34 \/ q = 39 -> F (NT nt_reference) (q :: r).
Proof.
  intros Hq. apply fails_nt. rewrite body_reference. apply fails_alt.
  - apply fails_nt. rewrite body_entity_ref. apply fails_map. apply fails_seqr_l. apply fails_tag.
    destruct Hq as [->| ->]; reflexivity.
  - apply fails_nt. rewrite body_char_ref. apply fails_alt; apply fails_map; apply fails_seqr_l; apply fails_tag;
      destruct Hq as [->| ->]; reflexivity.
Qed.

Lemma stops_av_next (q : N) (l : list att_value) (r : str) : q = 34 \/ q = 39 -> av_ok q true l ->
  stops (eval (is_char_except [60;38;q])) (d_av l ++ q :: r).
Proof.
  intros Hq. destruct l as [|[x|s] l]; cbn [av_ok d_av flat_map d_av_piece app].
  - intros _. destruct Hq as [->| ->]; reflexivity.
  - intros _. destruct (d_reference_head x) as [t ->]. cbn [app]. destruct Hq as [->| ->]; reflexivity.
  - intros [H _]. discriminate.
Qed.

Lemma many_av (q : N) (r : str) : q = 34 \/ q = 39 -> forall l b, av_ok q b l ->
  many_yields (av_piece q) (d_av l ++ q :: r) (map VAttValue l) (q :: r).
Proof.
  intros Hq. induction l as [|v l IH]; intros b Hl.
  - cbn [d_av flat_map app map]. apply my_stop. apply fails_alt.
    + apply fails_map. apply fails_chars1. destruct Hq as [->| ->]; reflexivity.
    + apply fails_map. apply fails_reference_quote. exact Hq.
  - destruct v as [x|s]; cbn [av_ok] in Hl; cbn [d_av flat_map d_av_piece map]; rewrite <- app_assoc;
      fold (d_av l).
    + destruct Hl as [Hx Hl]. eapply my_step; [| |apply (IH false Hl)].
      * apply yields_alt_r.
        -- apply fails_map. apply fails_chars1. destruct (d_reference_head x) as [t ->]. cbn [app].
           destruct Hq as [->| ->]; reflexivity.
        -- apply (yields_map' (VReference x)); [reflexivity|]. apply yields_reference. exact Hx.
      * rewrite (app_length (d_reference x)). pose proof (d_reference_length x). lia.
    + destruct Hl as [_ [Hne [Hs Hl]]]. eapply my_step; [| |apply (IH true Hl)].
      * apply yields_alt_l. apply (yields_map' (VStr s)); [reflexivity|]. apply yields_str.
        apply parses_chars1; [exact Hne|exact Hs|apply stops_av_next; assumption].
      * rewrite (app_length s). destruct s; [contradiction|cbn [length]; lia].
Qed.

(** the value of an attribute-value literal: the list of its pieces *)
Theorem yields_att_value (q : N) (l : list att_value) (r : str) : q = 34 \/ q = 39 -> av_ok q false l ->
  yields (NT nt_att_value) (q :: d_av l ++ q :: r) (VList (map VAttValue l)) r.
Proof.
  intros Hq Hl. apply yields_nt. rewrite body_att_value.
  pose proof (yields_many0 _ _ _ _ (many_av q r Hq l false Hl)) as Hm.
  destruct Hq as [->| ->].
  - apply yields_alt_l. eapply yields_seqr; [tag|]. eapply yields_seql; [exact Hm|tag].
  - apply yields_alt_r.
    + apply fails_seqr_l. apply fails_tag. reflexivity.
    + eapply yields_seqr; [tag|]. eapply yields_seql; [exact Hm|tag].
Qed.

(** ** CharData *)
Lemma body_char_data : body G_xml nt_char_data = TakeUntil (xc_char_except0 [60;38]) [93;93;62].
Proof. reflexivity. Qed.

Definition text_ok (t : str) : Prop :=
  forallb (eval (is_char_except [60;38])) t = true /\ find_sub [93;93;62] t = None.

Theorem parses_char_data (t r : str) : text_ok t -> stops (eval (is_char_except [60;38])) r ->
  P (NT nt_char_data) (t ++ r) (TStr t) r.
Proof.
  intros [Ht Hn] Hr. apply parses_nt. rewrite body_char_data.
  apply parses_take_until_none with (t := TStr t); [|exact Hn].
  apply parses_chars0; assumption.
Qed.

(** ** first occurrence of the closing delimiter *)
Lemma find_sub_none_prefix pat (v : str) : find_sub pat v = None -> prefix pat v = None.
Proof. destruct v; cbn [find_sub]; destruct (prefix pat _); congruence. Qed.

Lemma find_sub_none_tail pat c (v : str) : find_sub pat (c :: v) = None -> find_sub pat v = None.
Proof. cbn [find_sub]. destruct (prefix pat (c :: v)); [discriminate|]. destruct (find_sub pat v); congruence. Qed.

Lemma find_sub_cons_none pat c (v : str) i : prefix pat (c :: v) = None -> find_sub pat v = Some i ->
  find_sub pat (c :: v) = Some (S i).
Proof. intros H1 H2. cbn [find_sub]. rewrite H1, H2. reflexivity. Qed.

(** "?>" *)
Lemma find_qgt (d z : str) : find_sub [63;62] d = None -> find_sub [63;62] (d ++ 63 :: 62 :: z) = Some (length d).
Proof.
  induction d as [|x d IH]; intros H.
  - reflexivity.
  - cbn [app length]. apply find_sub_cons_none; [|apply IH; eapply find_sub_none_tail; exact H].
    apply find_sub_none_prefix in H. cbn [prefix] in *.
    destruct (63 =? x); [|reflexivity]. destruct d as [|y d]; [reflexivity|]. cbn [app].
    destruct (62 =? y); [discriminate H|reflexivity].
Qed.

(** "]]>" *)
Lemma find_cdend (d z : str) : find_sub [93;93;62] d = None -> find_sub [93;93;62] (d ++ 93 :: 93 :: 62 :: z) = Some (length d).
Proof.
  induction d as [|x d IH]; intros H.
  - reflexivity.
  - cbn [app length]. apply find_sub_cons_none; [|apply IH; eapply find_sub_none_tail; exact H].
    apply find_sub_none_prefix in H. cbn [prefix] in *.
    destruct (93 =? x); [|reflexivity]. destruct d as [|y d]; [reflexivity|]. cbn [app].
    destruct (93 =? y); [|reflexivity]. destruct d as [|w d]; [reflexivity|]. cbn [app].
    destruct (62 =? w); [discriminate H|reflexivity].
Qed.

Lemma body_multichar0 : body G_xml nt_multichar0 = Chars0 is_char.
Proof. reflexivity. Qed.

(** [multichar0] runs to the first character that is not a Char (or to the end of the input) *)
Lemma parses_multichar0_split (s : str) : exists a b : str, s = a ++ b /\ P (NT nt_multichar0) (a ++ b) (TStr a) b.
Proof.
  destruct (span_split (eval is_char) s) as [a [b [-> [Ha Hb]]]]. exists a, b. split; [reflexivity|].
  apply parses_nt. rewrite body_multichar0. apply parses_chars0; assumption.
Qed.

(** the generic shape: data, then a delimiter made of Chars, cut by take_until *)
Lemma parses_until (pat d r : str) : forallb (eval is_char) d = true -> forallb (eval is_char) pat = true ->
  (forall z, find_sub pat (d ++ pat ++ z) = Some (length d)) ->
  P (TakeUntil (NT nt_multichar0) pat) (d ++ pat ++ r) (TStr d) (pat ++ r).
Proof.
  intros Hd Hp Hf. destruct (span_split (eval is_char) r) as [r1 [r2 [-> [H1 H2]]]].
  replace (pat ++ r1 ++ r2) with ((pat ++ r1) ++ r2) by (rewrite app_assoc; reflexivity).
  apply parses_take_until_cut with (t := TStr (d ++ pat ++ r1)).
  - apply parses_nt. rewrite body_multichar0.
    replace (d ++ (pat ++ r1) ++ r2) with ((d ++ pat ++ r1) ++ r2) by (rewrite <- !app_assoc; reflexivity).
    apply parses_chars0; [|exact H2]. apply forallb_forall. intros c Hc.
    rewrite forallb_forall in Hd, Hp, H1. apply in_app_or in Hc. destruct Hc as [Hc|Hc]; [auto|].
    apply in_app_or in Hc. destruct Hc; auto.
  - apply Hf.
Qed.

(** ** CDSect *)
Lemma body_cdsect : body G_xml nt_cdsect =
  Map L_model_CData_from (SeqR (Tag [60;33;91;67;68;65;84;65;91]) (SeqL (TakeUntil (NT nt_multichar0) [93;93;62]) (Tag [93;93;62]))).
Proof. reflexivity. Qed.

Definition cdata_ok (d : str) : Prop := forallb (eval is_char) d = true /\ find_sub [93;93;62] d = None.

Theorem yields_cdsect (d r : str) : cdata_ok d ->
  yields (NT nt_cdsect) ([60;33;91;67;68;65;84;65;91] ++ d ++ [93;93;62] ++ r) (VCData d) r.
Proof.
  intros [Hd Hn]. apply yields_nt. rewrite body_cdsect. apply (yields_map' (VStr d)); [reflexivity|].
  eapply yields_seqr; [apply parses_tag|]. eapply yields_seql; [|apply (parses_tag G_xml [93;93;62] r)].
  apply yields_str. apply parses_until; [exact Hd|reflexivity|]. intros z. apply find_cdend. exact Hn.
Qed.

(** ** PI *)
Lemma body_pi : body G_xml nt_pi =
  Map L_model_PI_from (SeqR (Tag [60;63]) (SeqL (Seq (NT nt_pi_target)
      (Opt (SeqR (Chars1 ws) (TakeUntil (NT nt_multichar0) [63;62])))) (Tag [63;62]))).
Proof. reflexivity. Qed.
Lemma body_pi_target : body G_xml nt_pi_target = TakeExcept (NT nt_name) [120;109;108].
Proof. reflexivity. Qed.

Definition pi_target_ok (t : str) : Prop := name_ok t /\ ci_reject [120;109;108] t = false.
Definition pi_data_ok (d : str) : Prop :=
  forallb (eval is_char) d = true /\ find_sub [63;62] d = None /\ stops (eval ws) d.
Definition pi_ok (p : ppi) : Prop :=
  pi_target_ok (pi_target p) /\ match pi_value p with Some d => pi_data_ok d | None => True end.

Definition d_ppi (p : ppi) : str :=
  [60;63] ++ pi_target p ++ match pi_value p with Some d => 32 :: d ++ [63;62] | None => [63;62] end.

Theorem yields_pi (p : ppi) (r : str) : pi_ok p -> yields (NT nt_pi) (d_ppi p ++ r) (VPI p) r.
Proof.
  destruct p as [t v]. unfold pi_ok, d_ppi. cbn [pi_target pi_value]. intros [[Ht Hx] Hv].
  apply yields_nt. rewrite body_pi. rewrite <- !app_assoc.
  assert (forall r', stops (eval is_name_char) r' -> P (NT nt_pi_target) (t ++ r') (TStr t) r') as Htarget.
  { intros r' Hr'. apply parses_nt. rewrite body_pi_target. apply parses_take_except with (t := TStr t); [|exact Hx].
    apply parses_name; assumption. }
  destruct v as [d|].
  - destruct Hv as [Hd [Hn Hw]].
    apply (yields_map' (VPair (VStr t) (VSome (VStr d)))); [reflexivity|].
    eapply yields_seqr; [apply parses_tag|]. cbn [app]. rewrite <- app_assoc.
    eapply yields_seql; [|apply (parses_tag G_xml [63;62] r)].
    eapply yields_seq; [apply yields_str; apply Htarget; reflexivity|].
    apply yields_opt_some. eapply yields_seqr.
    + apply (parses_chars1 G_xml ws [32]); [discriminate|reflexivity|].
      apply stops_app; [reflexivity|intros _; exact Hw].
    + apply yields_str. apply parses_until; [exact Hd|reflexivity|]. intros z. apply find_qgt. exact Hn.
  - apply (yields_map' (VPair (VStr t) VNone)); [reflexivity|].
    eapply yields_seqr; [apply parses_tag|].
    eapply yields_seql; [|apply (parses_tag G_xml [63;62] r)].
    eapply yields_seq; [apply yields_str; apply Htarget; reflexivity|].
    apply yields_opt_none. apply fails_seqr_l. apply fails_chars1. reflexivity.
Qed.

(** ** Comment *)
Definition nondash : cpred := is_char_except [45].
Definition cm_item : pexpr := Seq (Opt (Tag [45])) (xc_char_except1 [45]).

Lemma body_comment : body G_xml nt_comment =
  Map L_model_Comment_from (SeqR (Tag [60;33;45;45]) (SeqL (Recognize (Many0 cm_item)) (Tag [45;45;62]))).
Proof. reflexivity. Qed.

(** every character is a Char, and every '-' is followed by a character that is not '-'
    (so: no "--" inside, and the comment does not end with '-') *)
Fixpoint comment_okb (c : str) : bool :=
  match c with
  | [] => true
  | x :: c' => (if x =? 45 then match c' with y :: _ => eval nondash y | [] => false end else eval nondash x)
               && comment_okb c'
  end.
Definition comment_ok (c : str) : Prop := comment_okb c = true.

Lemma comment_okb_drop (a b : str) : comment_okb (a ++ b) = true -> comment_okb b = true.
Proof.
  induction a as [|x a IH]; cbn [app comment_okb]; [auto|]. intros H. apply andb_prop in H. apply IH. tauto.
Qed.

Definition cm_tail (r : str) : str := 45 :: 45 :: 62 :: r.

(** a maximal run of non-dash characters at the head of [c1] *)
Lemma cm_run (c1 r : str) y c2 : c1 = y :: c2 -> eval nondash y = true -> comment_okb c1 = true ->
  exists a b : str, c1 = a ++ b /\ a <> [] /\ (length b < length c1)%nat /\ comment_okb b = true /\
                    P (xc_char_except1 [45]) (c1 ++ cm_tail r) (TStr a) (b ++ cm_tail r).
Proof.
  intros -> Hy Hok. destruct (span_split (eval nondash) (y :: c2)) as [a [b [E [Ha Hb]]]].
  assert (a <> []) as Hne.
  { intros ->. cbn [app] in E. subst b. cbn [stops] in Hb. congruence. }
  exists a, b. rewrite E in *. repeat split; try assumption.
  - rewrite app_length. destruct a; [contradiction|cbn [length]; lia].
  - eapply comment_okb_drop. exact Hok.
  - rewrite <- app_assoc. apply parses_chars1; [exact Hne|exact Ha|].
    apply stops_app; [reflexivity|intros _; exact Hb].
Qed.

Lemma many_comment (r : str) : forall n (c : str), (length c <= n)%nat -> comment_okb c = true ->
  exists ts, many_parses G_xml cm_item (c ++ cm_tail r) ts (cm_tail r).
Proof.
  induction n as [|n IH]; intros c Hlen Hok.
  - destruct c; [|cbn in Hlen; lia]. exists []. apply mp_stop.
    eapply fails_seq_r; [apply parses_opt_some; apply parses_tag_lit; reflexivity|].
    apply fails_chars1. reflexivity.
  - destruct c as [|x c'].
    + exists []. apply mp_stop.
      eapply fails_seq_r; [apply parses_opt_some; apply parses_tag_lit; reflexivity|].
      apply fails_chars1. reflexivity.
    + cbn [comment_okb] in Hok. apply andb_prop in Hok. destruct Hok as [Hx Hok'].
      destruct (N.eqb_spec x 45) as [->|Hne].
      * (* '-' then a run *)
        destruct c' as [|y c'']; [discriminate|].
        destruct (cm_run (y :: c'') r y c'' eq_refl Hx Hok') as [a [b [E [Ha [Hl [Hb Hp]]]]]].
        destruct (IH b) as [ts Hts]; [cbn [length] in *; lia|exact Hb|].
        exists (TPair (TSome (TStr [45])) (TStr a) :: ts).
        eapply mp_step; [| |exact Hts].
        -- cbn [app]. eapply parses_seq; [apply parses_opt_some; apply parses_tag_lit; reflexivity|exact Hp].
        -- rewrite !app_length. cbn [length] in *. lia.
      * (* a run *)
        assert (comment_okb (x :: c') = true) as Hall.
        { cbn [comment_okb]. destruct (N.eqb_spec x 45); [contradiction|]. rewrite Hx, Hok'. reflexivity. }
        pose proof Hx as Hx'.
        destruct (cm_run (x :: c') r x c' eq_refl Hx' Hall) as [a [b [E [Ha [Hl [Hb Hp]]]]]].
        destruct (IH b) as [ts Hts]; [cbn [length] in *; lia|exact Hb|].
        exists (TPair TNone (TStr a) :: ts).
        eapply mp_step; [| |exact Hts].
        -- eapply parses_seq; [|exact Hp]. apply parses_opt_none. apply fails_tag. cbn [app prefix].
           destruct (N.eqb_spec 45 x); [congruence|reflexivity].
        -- rewrite !app_length. cbn [length] in *. lia.
Qed.

Theorem yields_comment (c r : str) : comment_ok c ->
  yields (NT nt_comment) ([60;33;45;45] ++ c ++ [45;45;62] ++ r) (VComment c) r.
Proof.
  intros Hc. apply yields_nt. rewrite body_comment. apply (yields_map' (VStr c)); [reflexivity|].
  eapply yields_seqr; [apply parses_tag|].
  destruct (many_comment r (length c) c (le_n _) Hc) as [ts Hts].
  eapply yields_seql; [|apply (parses_tag G_xml [45;45;62] r)].
  apply yields_str. apply parses_recognize with (t := TList ts). apply parses_many0. exact Hts.
Qed.
