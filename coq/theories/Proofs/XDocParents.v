(** * [ParentsOk] from the tree structure of a table (used by the C14 bridge)

    [ParentsOk doc] (Proofs/XPathRefinePaths.v) says that the dom's parent observation of a row is
    the parent the specification finds by searching the tree ([s_parent]: the first row of the
    specification's own pre-order walk that lists the node among its children or attributes).
    It holds for every well-formed table without document-type rows in which parent observations
    and child / attribute lists describe the same tree. *)
From Coq Require Import List NArith Bool Lia.
From XmlRs Require Import Base.CPred Model.XPathAst Model.XDoc Spec.XPath10.
From XmlRs Require Import Proofs.XPathNav Proofs.XPathCanon Proofs.XPathRefine Proofs.XPathRefinePaths.
Import ListNotations.
Open Scope N_scope.

Section Parents.
Variable doc : xdoc.
Hypothesis Hwf : DocWf doc.

(** children and attributes report the row that lists them *)
Hypothesis child_parent : forall j c, valid doc j -> In c (child_nodes doc j) -> parent_node doc c = Some j.
Hypothesis attr_parent : forall j a, valid doc j -> kind doc j = KElement -> In a (attributes doc j) ->
                         parent_node doc a = Some j.
(** a reported parent lists the row *)
Hypothesis parent_lists : forall i p, valid doc i -> kind doc i <> KNamespace -> parent_node doc i = Some p ->
  (In i (child_nodes doc p) /\ (kind doc p = KDocument \/ kind doc p = KElement)) \/
  (kind doc p = KElement /\ In i (attributes doc p)).
(** every row but the first reports a parent *)
Hypothesis has_parent : forall i, valid doc i -> kind doc i <> KNamespace -> i <> doc_root ->
  exists p, parent_node doc i = Some p.
Hypothesis attr_kind : forall j a, valid doc j -> kind doc j = KElement -> In a (attributes doc j) ->
                       kind doc a = KAttribute.
Hypothesis no_doctype : forall j c, valid doc j -> In c (child_nodes doc j) -> kind doc c <> KDocumentType.

Lemma rows_of_app a b : rows_of (a ++ b) = rows_of a ++ rows_of b.
Proof. unfold rows_of. apply flat_map_app. Qed.

Lemma rows_of_ns e l : rows_of (map (NsOf e) l) = [].
Proof. induction l as [|x t IH]; [reflexivity | exact IH]. Qed.

Lemma rows_of_rows l : rows_of (map Row l) = l.
Proof. induction l as [|x t IH]; [reflexivity|]. cbn [map rows_of flat_map app] in *. f_equal. exact IH. Qed.

Lemma rows_of_flat_map {A} (g : A -> list snode) l : rows_of (flat_map g l) = flat_map (fun x => rows_of (g x)) l.
Proof. induction l as [|x t IH]; [reflexivity|]. cbn [flat_map]. rewrite rows_of_app, IH. reflexivity. Qed.

Definition extra (i : N) : list snode :=
  match kind doc i with
  | KElement => map (NsOf i) (nss_of doc i) ++ map Row (attributes doc i)
  | _ => []
  end.

Lemma walk_fuel_S f i :
  walk_fuel doc (S f) i = Row i :: extra i ++ flat_map (walk_fuel doc f) (xchildren doc i).
Proof. reflexivity. Qed.

Lemma rows_walk_S f i :
  rows_of (walk_fuel doc (S f) i) =
  i :: (match kind doc i with KElement => attributes doc i | _ => [] end)
    ++ flat_map (fun c => rows_of (walk_fuel doc f c)) (xchildren doc i).
Proof.
  rewrite walk_fuel_S. change (rows_of (Row i :: ?l)) with (i :: rows_of l).
  rewrite rows_of_app, rows_of_flat_map. unfold extra.
  destruct (kind doc i); try reflexivity. rewrite rows_of_app, rows_of_ns, rows_of_rows. reflexivity.
Qed.

Lemma xchildren_in i c : In c (xchildren doc i) -> In c (child_nodes doc i).
Proof.
  unfold xchildren. destruct (kind doc i); try (intros []); intros H; apply filter_In in H; apply H.
Qed.

Lemma walk_rows_valid : forall f r, valid doc r -> forall j, In j (rows_of (walk_fuel doc f r)) -> valid doc j.
Proof.
  induction f as [|f IH]; intros r Vr j Hj; [destruct Hj|].
  rewrite rows_walk_S in Hj. destruct Hj as [<-|Hj]; [exact Vr|].
  apply in_app_or in Hj. destruct Hj as [Hj|Hj].
  - destruct (kind doc r); try destruct Hj. apply (wf_attrs doc Hwf r j Vr Hj).
  - apply in_flat_map in Hj. destruct Hj as [c [Hc Hj]].
    apply (IH c); [|exact Hj]. apply (wf_children doc Hwf r c Vr). apply xchildren_in. exact Hc.
Qed.

(** [p] is reached from [r] by [d] child steps of the specification *)
Inductive RC : N -> N -> nat -> Prop :=
| rc_self r : RC r r 0
| rc_child r c p d : In c (xchildren doc r) -> RC c p d -> RC r p (S d).

Lemma rc_snoc r p d c : RC r p d -> In c (xchildren doc p) -> RC r c (S d).
Proof.
  induction 1 as [r | r c' p d Hc _ IH]; intros H.
  - eapply rc_child; [exact H | constructor].
  - eapply rc_child; [exact Hc | apply IH; exact H].
Qed.

Lemma rc_walk r p d : RC r p d -> forall g, incl (rows_of (walk_fuel doc g p)) (rows_of (walk_fuel doc (d + g) r)).
Proof.
  induction 1 as [r | r c p d Hc _ IH]; intros g j Hj; [exact Hj|].
  cbn [Nat.add]. rewrite rows_walk_S. right. apply in_or_app. right.
  apply in_flat_map. exists c. split; [exact Hc | apply IH; exact Hj].
Qed.

Lemma in_xchildren i p : valid doc p -> In i (child_nodes doc p) ->
  kind doc p = KDocument \/ kind doc p = KElement -> In i (xchildren doc p).
Proof.
  intros Vp Hi Hk. unfold xchildren.
  assert (Hf : In i (filter (fun c => negb (nkind_eqb (kind doc c) KDocumentType)) (child_nodes doc p))).
  { apply filter_In. split; [exact Hi|]. pose proof (no_doctype p i Vp Hi) as Hn.
    destruct (kind doc i); try reflexivity. contradiction. }
  destruct Hk as [-> | ->]; exact Hf.
Qed.

(** every row that is not a namespace node is reached, or is an attribute of a reached element *)
Lemma reached : forall n i, (N.to_nat i < n)%nat -> valid doc i -> kind doc i <> KNamespace ->
  (exists d, RC doc_root i d /\ (d <= N.to_nat i)%nat) \/
  (exists p d, RC doc_root p d /\ (d < N.to_nat i)%nat /\ valid doc p /\ kind doc p = KElement /\ In i (attributes doc p)).
Proof.
  induction n as [|n IH]; intros i Hlt Vi Ki; [lia|].
  destruct (N.eq_dec i doc_root) as [->|Hne].
  - left. exists 0%nat. split; [constructor | lia].
  - destruct (has_parent i Vi Ki Hne) as [p Hp].
    destruct (wf_parent doc Hwf i p Vi Hp) as [Vp Hpi].
    destruct (parent_lists i p Vi Ki Hp) as [[Hc Hk]|[Hk Ha]].
    + assert (Kp : kind doc p <> KNamespace) by (destruct Hk as [-> | ->]; discriminate).
      destruct (IH p ltac:(lia) Vp Kp) as [[d [Hr Hd]]|[q [d [_ [_ [Vq [Kq Hq]]]]]]].
      * left. exists (S d). split; [|lia]. eapply rc_snoc; [exact Hr|]. apply in_xchildren; assumption.
      * exfalso. pose proof (attr_kind q p Vq Kq Hq) as Ka. destruct Hk as [Hk|Hk]; congruence.
    + assert (Kp : kind doc p <> KNamespace) by (rewrite Hk; discriminate).
      destruct (IH p ltac:(lia) Vp Kp) as [[d [Hr Hd]]|[q [d [_ [_ [Vq [Kq Hq]]]]]]].
      * right. exists p, d. split; [exact Hr|]. split; [lia|]. split; [exact Vp|]. split; [exact Hk | exact Ha].
      * exfalso. pose proof (attr_kind q p Vq Kq Hq) as Ka. congruence.
Qed.

Lemma in_all_nodes i : valid doc i -> kind doc i <> KNamespace -> In i (rows_of (all_nodes doc)).
Proof.
  intros Vi Ki. unfold all_nodes, fuel0. unfold valid in Vi.
  destruct (reached (S (N.to_nat i)) i ltac:(lia) Vi Ki) as [[d [Hr Hd]]|[p [d [Hr [Hd [Vp [Kp Ha]]]]]]].
  - replace (S (length doc)) with (d + (S (length doc) - d))%nat by lia.
    apply (rc_walk _ _ _ Hr). destruct (S (length doc) - d)%nat as [|g] eqn:E; [lia|].
    rewrite rows_walk_S. left. reflexivity.
  - replace (S (length doc)) with (d + (S (length doc) - d))%nat by lia.
    apply (rc_walk _ _ _ Hr). destruct (S (length doc) - d)%nat as [|g] eqn:E; [lia|].
    rewrite rows_walk_S, Kp. right. apply in_or_app. left. exact Ha.
Qed.

Lemma all_nodes_valid j : In j (rows_of (all_nodes doc)) -> valid doc j.
Proof. apply walk_rows_valid. apply (wf_root doc Hwf). Qed.

Theorem parents_ok_of_tree : ParentsOk doc.
Proof.
  intros i Vi Ki. unfold s_parent.
  set (P := fun j => existsb (N.eqb i) (xchildren doc j) ||
                     (nkind_eqb (kind doc j) KElement && existsb (N.eqb i) (attributes doc j))).
  assert (Psound : forall j, valid doc j -> P j = true -> parent_node doc i = Some j).
  { intros j Vj Hj. unfold P in Hj. apply orb_prop in Hj. destruct Hj as [Hj|Hj].
    - apply existsb_exists in Hj. destruct Hj as [x [Hx Ex]]. apply N.eqb_eq in Ex. subst x.
      apply child_parent; [exact Vj | apply xchildren_in; exact Hx].
    - apply andb_prop in Hj. destruct Hj as [Hk Hj]. apply nkind_eqb_true in Hk.
      apply existsb_exists in Hj. destruct Hj as [x [Hx Ex]]. apply N.eqb_eq in Ex. subst x.
      apply attr_parent; assumption. }
  destruct (parent_node doc i) as [p|] eqn:Hp; cbn [option_map].
  - destruct (wf_parent doc Hwf i p Vi Hp) as [Vp _].
    assert (Pp : P p = true).
    { unfold P. destruct (parent_lists i p Vi Ki Hp) as [[Hc Hk]|[Hk Ha]].
      - apply orb_true_intro. left. apply existsb_exists. exists i. split; [|apply N.eqb_refl].
        apply in_xchildren; assumption.
      - apply orb_true_intro. right. rewrite Hk. cbn [nkind_eqb andb].
        apply existsb_exists. exists i. split; [exact Ha | apply N.eqb_refl]. }
    assert (Kp : kind doc p <> KNamespace).
    { destruct (parent_lists i p Vi Ki Hp) as [[_ [Hk|Hk]]|[Hk _]]; rewrite Hk; discriminate. }
    destruct (find P (rows_of (all_nodes doc))) as [j|] eqn:Ef.
    + apply find_some in Ef. destruct Ef as [Hj Pj].
      pose proof (Psound j (all_nodes_valid j Hj) Pj) as E. inversion E. reflexivity.
    + pose proof (find_none _ _ Ef p (in_all_nodes p Vp Kp)) as E. congruence.
  - destruct (find P (rows_of (all_nodes doc))) as [j|] eqn:Ef; [|reflexivity].
    apply find_some in Ef. destruct Ef as [Hj Pj].
    pose proof (Psound j (all_nodes_valid j Hj) Pj) as E. discriminate.
Qed.

End Parents.
