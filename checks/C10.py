"""C10 -- namespaces resolve per Namespaces in XML; name tests match expanded names.

An abstract document is a tree of {'name': (prefix|None, local), 'decls': [(prefix|None, uri)],
'attrs': [(prefix|None, local)], 'kids': [...]} -- the `tree` of Spec/Namespaces.v.  It is rendered to XML
text for the real crates (harness domain `ns`) and to the word form read by the extracted model and
specification (ocaml/{domains,specdomains}/nsattr/ns.ml).  A query case adds a name test, the axis
(elements `//T` or attributes `//@T`) and the caller's prefix bindings."""
import itertools, json, os
from . import lib

XML_NS = 'http://www.w3.org/XML/1998/namespace'

# ------------------------------------------------------------------ rendering
def qn(q):
    return (q[0] + ':' if q[0] else '') + q[1]

def render_xml(t):
    atts = ''.join(' xmlns%s="%s"' % (':' + p if p else '', u) for p, u in t['decls'])
    atts += ''.join(' %s="v"' % qn(a) for a in t['attrs'])
    kids = ''.join(render_xml(k) for k in t['kids'])
    return '<%s%s>%s</%s>' % (qn(t['name']), atts, kids, qn(t['name'])) if kids else '<%s%s/>' % (qn(t['name']), atts)

def cps(s):
    return '.'.join(str(ord(c)) for c in s)

def w_qn(q):
    return '%s:%s' % (cps(q[0] or ''), cps(q[1]))

def render_words(t, depth=0):
    w = ['n%d/%s/%s/%s' % (depth, w_qn(t['name']), ','.join('%s=%s' % (cps(p or ''), cps(u)) for p, u in t['decls']),
                           ','.join(w_qn(a) for a in t['attrs']))]
    for k in t['kids']:
        w += render_words(k, depth + 1)
    return w

def test_xpath(test, attrs):
    k, p, l = test
    s = '*' if k == 'any' else (p + ':*' if k == 'pany' else (p + ':' if p else '') + l)
    return ('//@' if attrs else '//') + s

def test_word(test):
    k, p, l = test
    return 't*' if k == 'any' else ('tp' + cps(p) if k == 'pany' else 'tn%s:%s' % (cps(p or ''), cps(l)))

def case_lines(c):
    """(line for the harness, line for model / spec)"""
    if c['kind'] == 'doc':
        return 'doc ' + lib.enc(render_xml(c['doc'])), 'doc ' + ' '.join(render_words(c['doc']))
    b = c['bindings']
    h = 'q %s %s %s' % (lib.enc(render_xml(c['doc'])), lib.enc(test_xpath(c['test'], c['attrs'])),
                        ' '.join('%s=%s' % (lib.enc(p), lib.enc(u)) for p, u in b))
    m = 'q %s a%d %s %s' % (test_word(c['test']), 1 if c['attrs'] else 0,
                            ' '.join('b%s=%s' % (cps(p), cps(u)) for p, u in b), ' '.join(render_words(c['doc'])))
    return h.strip(), ' '.join(m.split())

def canon(line):
    return 'err' if line.startswith('err') else line

# ------------------------------------------------------------------ abstract semantics used by the generators only
def bound(env, p):
    for q, u in env:
        if q == p:
            return u or None
    return None

def elements(t, env=None, out=None):
    """pre-order list of (element, environment)"""
    env = [('xml', XML_NS)] if env is None else env
    out = [] if out is None else out
    e = list(t['decls']) + env
    out.append((t, e))
    for k in t['kids']:
        elements(k, e, out)
    return out

def nswf(t):
    for x, env in elements(t):
        if x['name'][0] and not bound(env, x['name'][0]): return False
        if any(a[0] and not bound(env, a[0]) for a in x['attrs']): return False
    return True

def prefixes_of(t):
    ps = set()
    for x, _ in elements(t):
        ps.update(p for p in [x['name'][0]] + [d[0] for d in x['decls']] + [a[0] for a in x['attrs']] if p)
    return ps

def rename_doc(t, f):
    r = lambda p: f.get(p, p) if p else p
    return {'name': (r(t['name'][0]), t['name'][1]), 'decls': [(r(p), u) for p, u in t['decls']],
            'attrs': [(r(a[0]), a[1]) for a in t['attrs']], 'kids': [rename_doc(k, f) for k in t['kids']]}

def nontrivial(c):
    return any(x['decls'] for x, _ in elements(c['doc']))

# ------------------------------------------------------------------ generators
URIS = ['u1', 'u2']
LOCALS = ['a', 'b', 'c']

def layout_decls(dflt, p):
    d = []
    if dflt is not None: d.append((None, dflt))
    if p is not None: d.append(('p', p))
    return d

def small_universe(rng):
    """DESIGN 5.10: a chain of three elements; at every level the default namespace is absent / u1 / u2 /
    undeclared and the prefix p absent / u1 / u2; a third prefix q optionally declared at the root: all
    layouts; element and attribute prefixes drawn among the bound ones"""
    opts = [(d, p) for d in (None, 'u1', 'u2', '') for p in (None, 'u1', 'u2')]
    docs = []
    for l0, l1, l2 in itertools.product(opts, repeat=3):
        for qdecl in (False, True):
            levels = []
            env = [('xml', XML_NS)]
            for i, (d, p) in enumerate((l0, l1, l2)):
                decls = layout_decls(d, p) + ([('q', 'u2')] if qdecl and i == 0 else [])
                env = decls + env
                cands = [None] + [x for x in ('p', 'q') if bound(env, x)]
                name = (rng.choice(cands), LOCALS[i])
                attrs = [(None, 'y')]
                if bound(env, 'p'): attrs.append(('p', 'z'))
                if i == 2: attrs.append(('xml', 'k'))
                if bound(env, 'q') and i == 1: attrs.append(('q', 'xmlns'))   # an ordinary attribute (D60)
                levels.append({'name': name, 'decls': decls, 'attrs': attrs, 'kids': []})
            levels[0]['kids'] = [levels[1]]; levels[1]['kids'] = [levels[2]]
            docs.append(levels[0])
    return docs

ALL_TESTS = [('any', None, None)] + [('pany', p, None) for p in ('r', 's')] + \
            [('name', p, l) for p in (None, 'r', 's') for l in ('a', 'b', 'c', 'y', 'z', 'k', 'xmlns')]
BINDINGS = [[('r', 'u1'), ('s', 'u2')], [('r', 'u2'), ('s', XML_NS)], [('s', 'u1'), ('r', 'u1')]]

def random_doc(rng, depth=0, env=None):
    env = [('xml', XML_NS)] if env is None else env
    decls = []
    if rng.random() < 0.45:
        decls.append((None, rng.choice(URIS + ['', 'u3'])))
    for p in ('p', 'q', 'pp'):
        if rng.random() < 0.3:
            decls.append((p, rng.choice(URIS + ['u3'])))
    if rng.random() < 0.05:
        decls.append(('xml', XML_NS))
    rng.shuffle(decls)
    e = decls + env
    cands = [None, None] + [x for x in ('p', 'q', 'pp', 'xml') if bound(e, x)]
    name = (rng.choice(cands), rng.choice(LOCALS + ['xmlns']))
    attrs, used = [], set()
    for _ in range(rng.randint(0, 3)):
        a = (rng.choice(cands), rng.choice(['y', 'z', 'a', 'xmlns']))
        if a[0] is None and a[1] == 'xmlns':
            continue                     # that is a declaration, not an attribute
        if a[1] in used: continue        # keeps expanded names distinct as well
        used.add(a[1]); attrs.append(a)
    kids = []
    if depth < 3:
        for _ in range(rng.choice([0, 1, 1, 2, 3]) if depth < 2 else rng.choice([0, 0, 1])):
            kids.append(random_doc(rng, depth + 1, e))
    return {'name': name, 'decls': decls, 'attrs': attrs, 'kids': kids}

def random_query(rng, doc):
    if rng.random() < 0.6:
        # aim at a node of the document: bind a prefix to its namespace and ask for its name
        x, env = rng.choice(elements(doc))
        attrs = bool(x['attrs']) and rng.random() < 0.5
        if attrs:
            a = rng.choice(x['attrs']); local, uri = a[1], (bound(env, a[0]) if a[0] else None)
        else:
            local, uri = x['name'][1], bound(env, x['name'][0])
        b = [(p, rng.choice(URIS + ['u3'])) for p in rng.sample(['s', 'p'], rng.randint(0, 2))]
        if uri: b.insert(rng.randint(0, len(b)), ('r', uri))
        test = ('pany', 'r', None) if uri and rng.random() < 0.3 else ('name', 'r' if uri else None, local)
        return {'kind': 'q', 'doc': doc, 'test': test, 'attrs': attrs, 'bindings': b}
    uris = URIS + ['u3', XML_NS]
    ps = rng.sample(['r', 's', 'p', 'q'], rng.randint(0, 3))
    b = [(p, rng.choice(uris)) for p in ps]
    k = rng.random()
    if k < 0.15: test = ('any', None, None)
    elif k < 0.4 and ps: test = ('pany', rng.choice(ps), None)
    else: test = ('name', rng.choice([None] + ps), rng.choice(LOCALS + ['y', 'z', 'xmlns']))
    return {'kind': 'q', 'doc': doc, 'test': test, 'attrs': rng.random() < 0.5, 'bindings': b}

def corpus_cases():
    """minimised reproductions of every defect found so far (corpus/C10_regressions.json); they run first"""
    try:
        raw = json.load(open(os.path.join(lib.VERIF, 'corpus', 'C10_regressions.json')))
    except OSError:
        return []
    def t(x):
        return {'name': tuple(x['name']), 'decls': [tuple(y) for y in x['decls']], 'attrs': [tuple(y) for y in x['attrs']],
                'kids': [t(k) for k in x['kids']]}
    out = []
    for c in raw:
        c = dict(c, doc=t(c['doc']))
        if c['kind'] == 'q':
            c['test'] = tuple(c['test']); c['bindings'] = [tuple(b) for b in c['bindings']]
        out.append(c)
    return out

def unbound_query(rng, doc):
    """a prefix without binding is an error (only asked where some node is tested)"""
    has_attrs = any(x['attrs'] for x, _ in elements(doc))
    return {'kind': 'q', 'doc': doc, 'test': rng.choice([('pany', 'zz', None), ('name', 'zz', 'a')]),
            'attrs': has_attrs and rng.random() < 0.5, 'bindings': [('r', 'u1')]}

def rename_ref(line, f):
    """apply the document renaming to the attribute names of a `nodes ...` line"""
    out = []
    for w in line.split(' '):
        if w.startswith('a') and '.' in w:
            k, name = w.split('.', 1)
            s = lib.dec(name)
            if ':' in s:
                p, l = s.split(':', 1)
                s = f.get(p, p) + ':' + l
            w = k + '.' + lib.enc(s)
        out.append(w)
    return ' '.join(out)

# ------------------------------------------------------------------ running
def run_three(cases, okr, okm, oks):
    lines = [case_lines(c) for c in cases]
    r = m = s = None
    if okr:
        rc, r = lib.run_bin(lib.rust_bin(), ['ns'], [h for h, _ in lines], timeout=1200, shards=lib.NPROC)
        r = [canon(x) for x in r]
    if okm:
        rc, m = lib.run_bin(lib.model_bin('nsattr'), ['ns'], [w for _, w in lines], timeout=1200, shards=lib.NPROC)
    if oks:
        rc, s = lib.run_bin(lib.spec_bin('nsattr'), ['ns'], [w for _, w in lines], timeout=1200, shards=lib.NPROC)
    return r, m, s

def shrink(case, still_fails):
    """drop a subtree, a declaration, an attribute, a binding -- as long as the document stays
    namespace-well-formed and the case keeps failing"""
    def doc_variants(t):
        for i in range(len(t['kids'])):
            yield dict(t, kids=t['kids'][:i] + t['kids'][i + 1:])
            yield dict(t, kids=t['kids'][:i] + t['kids'][i]['kids'] + t['kids'][i + 1:])     # splice the grandchildren in
        for i in range(len(t['decls'])):
            yield dict(t, decls=t['decls'][:i] + t['decls'][i + 1:])
        for i in range(len(t['attrs'])):
            yield dict(t, attrs=t['attrs'][:i] + t['attrs'][i + 1:])
        if t['name'][0]:
            yield dict(t, name=(None, t['name'][1]))
        for i, k in enumerate(t['kids']):
            for v in doc_variants(k):
                yield dict(t, kids=t['kids'][:i] + [v] + t['kids'][i + 1:])
    def candidates(c):
        for d in doc_variants(c['doc']):
            if nswf(d): yield dict(c, doc=d)
        for k in c['doc']['kids']:
            if nswf(k): yield dict(c, doc=k)                                          # a child as the new root
        if c['kind'] == 'q':
            for i in range(len(c['bindings'])):
                if c['bindings'][i][0] != c['test'][1]:           # keep the binding the test needs
                    yield dict(c, bindings=c['bindings'][:i] + c['bindings'][i + 1:])
    cur = case
    for _ in range(60):
        cands = list(candidates(cur))
        if not cands: break
        flags = still_fails(cands)
        nxt = next((c for c, f in zip(cands, flags) if f), None)
        if nxt is None: break
        cur = nxt
    return cur

def describe(c):
    if c['kind'] == 'doc':
        return render_xml(c['doc'])
    return '%s on %s with bindings %s' % (test_xpath(c['test'], c['attrs']), render_xml(c['doc']),
                                          ', '.join('%s=%s' % b for b in c['bindings']) or '(none)')

def check(run):
    run.trusted = ['Coq 8.16.1 kernel + VM', 'Spec/Namespaces.v: transcription of Namespaces in XML 1.0 (3, 5, 6) and XPath 1.0 2.3 (readings N1-N3 stated there)',
                   'Model/NsModel.v: hand-written model of info::{in_scope_namespace, find_nameapce_uri, namespace_name}, dom::as_expanded_name, xpath::{eval_node_test, Context::add_ns/get_ns_uri/expanded_name}, tied by the ns correspondence below',
                   'document order of //T and //@T (the traversal itself belongs to property C05)',
                   'renderer of abstract documents (checks/C10.py), xml-parser and the XPath parser for the concrete syntax',
                   'harness/src/domains/ns.rs, extraction (ExtrOcamlBasic only) + ocaml glue']
    lib.proof_step(run, 'C10', [])
    okr, mok, sok = lib.build_binaries(run, model_areas=['nsattr'], spec_areas=['nsattr'])
    okm, oks = mok.get('nsattr', False), sok.get('nsattr', False)
    rng = run.rng
    uni = small_universe(rng)
    run.extra['small_universe_documents'] = len(uni)
    rnd = [random_doc(rng) for _ in range(600 if run.tier == 'quick' else 12000)]
    rnd = [d for d in rnd if nswf(d)]
    cases = corpus_cases()
    run.extra['corpus_cases'] = len(cases)
    if run.tier == 'quick':
        uni_docs = rng.sample(uni, 500)
        for d in uni_docs:
            cases.append({'kind': 'doc', 'doc': d})
            for test in rng.sample(ALL_TESTS, 4):
                cases.append({'kind': 'q', 'doc': d, 'test': test, 'attrs': rng.random() < 0.5, 'bindings': rng.choice(BINDINGS)})
    else:
        run.extra['exhaustive'] = 'every declaration layout of the 3-level chain (%d documents) x %d name tests x 2 axes x %d binding sets' % (len(uni), len(ALL_TESTS), len(BINDINGS))
        for d in uni:
            cases.append({'kind': 'doc', 'doc': d})
            b = BINDINGS[len(cases) % len(BINDINGS)]
            for test in ALL_TESTS:
                for attrs in (False, True):
                    cases.append({'kind': 'q', 'doc': d, 'test': test, 'attrs': attrs, 'bindings': b})
    for d in rnd:
        cases.append({'kind': 'doc', 'doc': d})
        for _ in range(3):
            cases.append(random_query(rng, d))
        if rng.random() < 0.15:
            cases.append(unbound_query(rng, d))
    # metamorphic pairs: the same query after a consistent renaming of the document's prefixes, and after a
    # consistent renaming of the expression's prefixes together with the bindings
    pairs = []
    fresh = ['m1', 'm2', 'm3', 'm4']
    for d in rnd[:(300 if run.tier == 'quick' else 4000)]:
        ps = sorted(prefixes_of(d) - {'xml'})
        if not ps: continue
        tgt = rng.sample(ps + fresh, len(ps))           # injective, may permute the existing prefixes
        f = dict(zip(ps, tgt))
        q = random_query(rng, d)
        q['bindings'] = [b for b in q['bindings']]
        c1, c2 = q, dict(q, doc=rename_doc(d, f))
        pairs.append(('doc', f, len(cases), len(cases) + 1)); cases += [c1, c2]
        bp = sorted({p for p, _ in q['bindings']} | ({q['test'][1]} if q['test'][1] else set()))
        if bp:
            g = dict(zip(bp, rng.sample(bp + fresh, len(bp))))
            r = lambda p: g.get(p, p) if p else p
            c3 = dict(q, test=(q['test'][0], r(q['test'][1]), q['test'][2]), bindings=[(r(p), u) for p, u in q['bindings']])
            pairs.append(('expr', g, len(cases) - 2, len(cases))); cases.append(c3)
    r, m, s = run_three(cases, okr, okm, oks)
    ties, fails = 0, []
    if r is not None:
        for i, c in enumerate(cases):
            run.evaluations += 1
            if nontrivial(c):
                run.nontrivial.add(case_lines(c)[1])
            run.count('kind:' + c['kind'])
            run.count('result:' + r[i].split(' ')[0])
            if c['kind'] == 'q':
                run.count('test:' + c['test'][0] + ('/attr' if c['attrs'] else '/elem'))
                run.count('selected:%d' % min(5, max(0, len(r[i].split(' ')) - 1)))
            else:
                els = elements(c['doc'])
                run.count('elements:%d' % min(12, len(els)))
                run.count('declarations:%d' % min(8, sum(len(x['decls']) for x, _ in els)))
                if any(p is None and u == '' for x, _ in els for p, u in x['decls']): run.count('feature:undeclaration')
                if any(x['attrs'] and bound(e, None) for x, e in els): run.count('feature:attributes-under-default-namespace')
            if i % 1201 == 0:
                run.sample({'case': describe(c), 'implementation': r[i], 'model': m[i] if m else None, 'spec': s[i] if s else None})
            if m is not None and m[i] != r[i]:
                ties += 1
                if ties <= 5:
                    run.tie_breaks.append('model and implementation differ on %s: model `%s`, implementation `%s`' % (describe(c), m[i], r[i]))
            if s is not None and s[i] != r[i]:
                fails.append(i)
        if ties > 5:
            run.tie_breaks.append('... and %d more model / implementation differences' % (ties - 5))
        # metamorphic: implementation against itself
        for kind, f, i, j in pairs:
            run.count('metamorphic:' + kind)
            want = rename_ref(r[i], f) if kind == 'doc' else r[i]
            if r[j] != want:
                run.failing_inputs.append({
                    'property': 'C10', 'class': 'renaming-' + kind,
                    'what': 'result changes under a consistent renaming of the %s prefixes %s: %s gives `%s`, %s gives `%s`'
                            % ('document' if kind == 'doc' else 'expression', f, describe(cases[i]), r[i], describe(cases[j]), r[j]),
                    'case': cases[i], 'renamed': cases[j], 'implementation': r[i], 'implementation_renamed': r[j],
                    'replay': 'bin/check C10 --replay <this file>'})
    # metamorphic: binding a prefix to another URI first and to the intended one afterwards must give what
    # binding it once gives (the last binding of a prefix is the caller's binding); implementation only
    if r is not None:
        base = [i for i, c in enumerate(cases) if c['kind'] == 'q' and c['bindings']]
        rng.shuffle(base)
        base = base[:(300 if run.tier == 'quick' else 3000)]
        rb = [dict(cases[i], bindings=[(p, 'urn:rebound-first') for p, _ in cases[i]['bindings']] + list(cases[i]['bindings'])) for i in base]
        rr, _, _ = run_three(rb, okr, False, False)
        if rr is not None:
            for i, c2, got in zip(base, rb, rr):
                run.count('metamorphic:rebind'); run.evaluations += 1
                if got != r[i]:
                    run.failing_inputs.append({
                        'property': 'C10', 'class': 'rebinding',
                        'what': 'binding each prefix twice (first to another URI, then to the intended one) changes the result: %s gives `%s`, with the rebinding `%s`'
                                % (describe(cases[i]), r[i], got),
                        'case': cases[i], 'rebound': c2, 'implementation': r[i], 'implementation_rebound': got})
                    if sum(1 for f in run.failing_inputs if f.get('class') == 'rebinding') >= 3:
                        break
    def still_fails(cands):
        rr, _, ss = run_three(cands, okr, False, oks)
        return [a != b for a, b in zip(rr, ss)]
    reported = set()
    for i in fails[:12]:
        small = shrink(cases[i], still_fails)
        key = case_lines(small)[1]
        if key in reported or len(reported) >= 6: continue
        reported.add(key)
        rr, mm, ss = run_three([small], okr, okm, oks)
        run.failing_inputs.append({
            'property': 'C10', 'class': 'namespaces-' + small['kind'],
            'what': '%s: implementation `%s`, Namespaces in XML / XPath 1.0 `%s`' % (describe(small), rr[0], ss[0]),
            'case': small, 'xml': render_xml(small['doc']), 'implementation': rr[0], 'model': mm[0] if mm else None, 'spec': ss[0],
            'original': describe(cases[i]), 'replay': 'bin/check C10 --replay <this file>'})
    if fails:
        run.notes.append('%d failing inputs in all, %d distinct after shrinking the first 12' % (len(fails), len(reported)))
    # namespace scopes on EDITED documents (shared dom campaign): namespace-sensitive queries on the edited
    # tree against a re-parse of its serialisation
    try:
        from . import domlib as D
        for g in D.query_findings(run, ('query',), only_queries=D.NS_QUERIES):
            run.failing_inputs.append({'property': 'C10', 'class': 'namespaces-after-edit', 'what': g['what'], 'docs': g['docs'], 'ops': g['ops'], 'view': g['view'], 'clause': g['clause']})
    except Exception as ex:
        run.notes.append('edited-document stream not run: %r' % (ex,))

    return run.finish(level='proof',
        rule='one case = an abstract document (dump of every element) or a document + name test + axis + caller bindings; distinct by the abstract case; non-trivial = the document has at least one namespace declaration',
        assumptions=['documents are namespace-well-formed: no duplicate declarations in a start-tag, the prefix xmlns is not used, every prefix used is bound; no DTD (namespace declarations supplied by attribute defaults are not looked at by xml-rs)',
                     'caller bindings bind each prefix once and never the empty prefix (Context::add_ns(None, ..) is an extension outside XPath 1.0)',
                     'the traversal order of //T and //@T is document order (property C05); documents contain elements and attributes only, so the principal-node-type defect D14 cannot interfere'])

def replay(path):
    d = json.load(open(path))
    print(json.dumps(d, indent=1, ensure_ascii=False))
    def fix(c):
        def t(x):
            return {'name': tuple(x['name']), 'decls': [tuple(y) for y in x['decls']], 'attrs': [tuple(y) for y in x['attrs']],
                    'kids': [t(k) for k in x['kids']]}
        c = dict(c, doc=t(c['doc']))
        if c['kind'] == 'q':
            c['test'] = tuple(c['test']); c['bindings'] = [tuple(b) for b in c['bindings']]
        return c
    for key in ('case', 'renamed'):
        if d.get(key):
            c = fix(d[key])
            print('%-14s: %s' % (key, describe(c)))
            h, w = case_lines(c)
            for name, b, line in (('implementation', lib.rust_bin(), h), ('model', lib.model_bin('nsattr'), w),
                                  ('specification', lib.spec_bin('nsattr'), w)):
                if os.path.exists(b):
                    rc, out = lib.run_bin(b, ['ns'], [line], timeout=60)
                    print('  %-14s: %s' % (name, out[0] if out else '(no answer)'))
    return 0
