(* wfr (spec side, classifier only).  Case line:
     v <document>  -> `x10=<verdict> ns=<verdict>` of Spec.XmlWFRelaxed (the recogniser of Spec.XmlWF
                      with NameChar* at the Name positions of known finding D04) *)
let show_verdict v = match v with
  | WF -> "wf"
  | NotWF r -> "notwf:" ^ string_of_int (int_of_n (reason_code r))
  | Unsupported -> "unsupported"

let () = register "wfr" (fun words ->
  match words with
  | ["v"; doc] ->
    let s = dec doc in
    Printf.sprintf "x10=%s ns=%s" (show_verdict (verdict10 s)) (show_verdict (verdict_ns s))
  | _ -> "badinput")
