(** * Scalar side of the XPath evaluator: the one place where [Model/XPathEval.v] meets the
    model of the scalar function library, [Model/XPathFuncs.v] (xpath/src/eval/func.rs and the
    conversions of eval/model.rs, as repaired for D30-D34; property C09), and the function table
    regenerated from func.rs by translator T3 ([Gen/FuncTableGen.v]).

    Node-sets reach the scalar functions abstracted to the list of the string-values of their
    nodes ([VNodes]), which is all such a function can see of them.  No proofs here. *)
From Coq Require Import List NArith ZArith Bool.
From Coq Require Import Floats.SpecFloat.
From XmlRs Require Import Base.CPred Base.Float64.
From XmlRs Require Import Spec.XPathCore Gen.FuncTableGen Model.XPathFuncs.
Import ListNotations.
Open Scope N_scope.

Definition ostr_eqb (a b : option str) : bool :=
  match a, b with
  | None, None => true
  | Some x, Some y => str_eqb x y
  | _, _ => false
  end.

(** [f64::try_from(&Value::Text(s))] *)
Definition str_to_number (s : str) : f64 := m_string_to_number s.

(** names of the functions that do not look at the document, as code points *)
Definition fn_string : str := [115;116;114;105;110;103].
Definition fn_concat : str := [99;111;110;99;97;116].
Definition fn_starts_with : str := [115;116;97;114;116;115;45;119;105;116;104].
Definition fn_contains : str := [99;111;110;116;97;105;110;115].
Definition fn_substring_before : str := [115;117;98;115;116;114;105;110;103;45;98;101;102;111;114;101].
Definition fn_substring_after : str := [115;117;98;115;116;114;105;110;103;45;97;102;116;101;114].
Definition fn_substring : str := [115;117;98;115;116;114;105;110;103].
Definition fn_string_length : str := [115;116;114;105;110;103;45;108;101;110;103;116;104].
Definition fn_normalize_space : str := [110;111;114;109;97;108;105;122;101;45;115;112;97;99;101].
Definition fn_translate : str := [116;114;97;110;115;108;97;116;101].
Definition fn_boolean : str := [98;111;111;108;101;97;110].
Definition fn_not : str := [110;111;116].
Definition fn_true : str := [116;114;117;101].
Definition fn_false : str := [102;97;108;115;101].
Definition fn_number : str := [110;117;109;98;101;114].
Definition fn_floor : str := [102;108;111;111;114].
Definition fn_ceiling : str := [99;101;105;108;105;110;103].
Definition fn_round : str := [114;111;117;110;100].

(** the scalar functions by name ([ctx_sv] = string-value of the context node, used by the
    zero-argument forms); the arity has been checked by the caller ([eval_func_expr]) *)
Definition scalar_fn (ctx_sv : str) (name : str) (args : list value) : fres :=
  if str_eqb name fn_string then m_string ctx_sv args
  else if str_eqb name fn_concat then m_concat ctx_sv args
  else if str_eqb name fn_starts_with then m_starts_with ctx_sv args
  else if str_eqb name fn_contains then m_contains ctx_sv args
  else if str_eqb name fn_substring_before then m_substring_before ctx_sv args
  else if str_eqb name fn_substring_after then m_substring_after ctx_sv args
  else if str_eqb name fn_substring then m_substring ctx_sv args
  else if str_eqb name fn_string_length then m_string_length ctx_sv args
  else if str_eqb name fn_normalize_space then m_normalize_space ctx_sv args
  else if str_eqb name fn_translate then m_translate ctx_sv args
  else if str_eqb name fn_boolean then m_boolean ctx_sv args
  else if str_eqb name fn_not then m_not ctx_sv args
  else if str_eqb name fn_true then m_ftrue ctx_sv args
  else if str_eqb name fn_false then m_ffalse ctx_sv args
  else if str_eqb name fn_number then m_number ctx_sv args
  else if str_eqb name fn_floor then m_floor ctx_sv args
  else if str_eqb name fn_ceiling then m_ceiling ctx_sv args
  else if str_eqb name fn_round then m_round ctx_sv args
  else RErr ENotFoundFunction.

(** func::table() as regenerated from the source: (name, min, max), bounds inclusive *)
Definition func_table : list (str * N * option N) := FuncTableGen.table.
