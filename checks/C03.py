"""C03 -- parsing and printing are total: no panic, abort, hang or blow-up on any input.

Proof: Properties/C03.v -- parser_terminates (generic PEG termination on the regenerated grammar),
pipeline_no_panic (model of XmlDocument::new + Display + pretty + re-parse never panics),
expansion_terminates (entity expansion, every table), panic_sites_classified (T4 inventory =
hand-classified table); the cost and stack bounds of the design are refuted: cost_refuted (2^(k+1)
non-terminal calls on a well-formed document of 4k+37 characters, finding D10), depth_unbounded (D08).
Tie: T2 + T4 regenerated; `parse` correspondence (model line = implementation line).
Search: garbage, token mutations of valid documents, grammar sentences, and hostile shapes (each
in its own process, 10 s / 64 MB stack): an output line `panic`, an abort, a hang or a run outside
the calibrated linear time envelope is a failing input."""
import json, os, time
from . import lib, pipecorr
import docgen

STACK_KB = 65536
TIME_LIMIT = 10
# polynomial envelope calibrated on this image (debug harness, opt-level 1, the whole pipeline of the
# `parse` domain = four parse+build runs, two printers): the linear families need < 8 microseconds per
# character; the unique-attribute test of XmlElement::node is quadratic in the number of attributes of ONE
# tag (10^5 attributes = 1.5 M characters: 80 s).  Nested choice groups of depth 20 need 1.4 s for 113
# characters and double with every level: far outside.
def envelope(nchars):
    return 1.0 + 2e-5 * nchars + 1e-10 * nchars * nchars

def time_limit(nchars):
    return max(TIME_LIMIT, 1.5 * envelope(nchars))

# texts of the listed findings come from known_findings.json; the classifiers are implemented below
FINDINGS = {e['id']: e['what'] for e in lib.known_findings('C03')}

def classify(text, cls):
    """narrow classifiers of the known findings; cls in {'abort', 'hang', 'slow', 'panic'}"""
    if cls == 'abort' and pipecorr.nesting_depth(text) >= 20000:
        return 'D08'
    if cls in ('slow', 'hang') and pipecorr.choice_group_depth(text) >= 16:
        return 'D10'
    return None

def hostile_cases(run):
    thorough = run.tier == 'thorough'
    out = []
    for n in ([100, 1000, 10000, 100000] if thorough else [100, 1000, 10000, 100000]):
        out.append(('nesting-%d' % n, docgen.nesting(n), 'dn'))
    for d in ([4, 8, 12, 14, 16, 18, 20, 22, 24] if thorough else [4, 8, 12, 16, 20]):
        out.append(('choice-groups-%d' % d, docgen.nested_groups(d, '|'), 'd'))
        if thorough or d in (8, 16):
            out.append(('seq-groups-%d' % d, docgen.nested_groups(d, ','), 'd'))
    # sequence groups and singleton groups nested in first position are parsed once per level on this tree
    # (milliseconds at depth 40): they are NOT part of finding D10 and must stay inside the envelope
    for d in ([24, 32, 40, 60] if thorough else [24, 40]):
        out.append(('seq-groups-%d' % d, docgen.nested_groups(d, ','), 'd'))
        out.append(('singleton-groups-%d' % d, '<!DOCTYPE a [<!ELEMENT a ' + '(' * d + 'a' + ')' * d + '>]><a/>', 'd'))
    for k in (1, 2, 5, 50):
        out.append(('entity-cycle-attr-%d' % k, docgen.entity_cycle(k, 'attr'), 'x'))
        out.append(('entity-cycle-content-%d' % k, docgen.entity_cycle(k, 'content'), 'x'))
    for d in (4, 8, 12, 16):
        out.append(('entity-fanout-%d' % d, docgen.entity_fanout(d), 'x'))
    # the same DAG, deep, WITHOUT reading the value: building, printing and re-parsing the document must
    # stay polynomial in the size of the DTD (every entity is checked once, not once per path)
    for d in (24, 40, 60):
        out.append(('entity-dag-build-%d' % d, docgen.entity_fanout(d), 'q'))
        out.append(('entity-dag-build-content-%d' % d, docgen.entity_fanout(d).replace('<a x="&e%d;"/>' % d, '<a>&e%d;</a>' % d), 'q'))
    for n in ([1000, 10000] if not thorough else [1000, 10000, 100000]):
        out.append(('attributes-%d' % n, docgen.many_attributes(n), 'd'))
    for n in ([1000, 30000] if not thorough else [1000, 10000, 100000]):
        out.append(('children-%d' % n, docgen.many_children(n), 'd'))
        out.append(('comments-%d' % n, docgen.many_comments(n), 'd'))
    out.append(('text-1000000', docgen.long_text(10 ** 6), 'd') if thorough else ('text-300000', docgen.long_text(3 * 10 ** 5), 'd'))
    out.append(('declarations-5000', docgen.many_decls(5000), 'd'))
    out.append(('unclosed-10000', docgen.unclosed(10000), 'd'))
    out.append(('parameter-entity-declaration', '<!DOCTYPE a [<!ENTITY % p "x">]><a/>', 'd'))
    out.append(('parameter-entity-reference', '<!DOCTYPE a [%p;]><a/>', 'd'))
    out.append(('parameter-entity-in-value', '<!DOCTYPE a [<!ENTITY e "%p;">]><a x="&e;"/>', 'x'))
    return out

def run_hostile(run):
    binary = lib.rust_bin()
    for name, text, flags in hostile_cases(run):
        line = '%s %s' % (flags, lib.enc(text))
        t0 = time.time()
        cls, out = lib.run_isolated(binary, ['parse'], line, timeout=time_limit(len(text)), stack_kb=STACK_KB)
        dt = time.time() - t0
        run.evaluations += 1
        run.nontrivial.add(('hostile', name))
        family = name.rsplit('-', 1)[0]
        run.count('hostile:' + family)
        bad = None
        if cls == 'hang':
            bad = 'hang'
        elif cls == 'abort':
            bad = 'abort'
        elif out == 'panic':
            bad = 'panic'
        elif dt > envelope(len(text)):
            bad = 'slow'
        run.extra.setdefault('hostile_timings', {})[name] = {'chars': len(text), 'seconds': round(dt, 3), 'class': cls if not bad else bad,
                                                             'result': pipecorr.outcome(out) if cls == 'ok' else cls}
        if bad:
            fid = classify(text, bad)
            what = '%s on %s (%d characters, %.2f s)' % (bad, name, len(text), dt)
            if fid in FINDINGS:
                run.known_hits[fid] = (FINDINGS[fid], run.known_hits.get(fid, (None, 0))[1] + 1)
            else:
                run.failing_inputs.append({'property': 'C03', 'class': bad + ':' + family, 'what': what, 'family': name, 'flags': flags,
                                           'document': text if len(text) < 4000 else text[:2000] + '...' + text[-500:],
                                           'generator': 'tools/gen/docgen.py ' + name, 'code_points': pipecorr.cps(text) if len(text) < 4000 else None})

def gen_cases(run):
    thorough = run.tier == 'thorough'
    rng = run.rng
    cases = [(pipecorr.cps(t), 'corpus', []) for t in pipecorr.CORPUS]
    cases += list(pipecorr.stream_garbage(rng, 20000 if thorough else 2000))
    cases += list(pipecorr.stream_mutations(rng, 60000 if thorough else 5000))
    cases += list(pipecorr.stream_grammar(rng, 30000 if thorough else 2500, mutate_every=2))
    cases += list(pipecorr.stream_structured(rng, 20000 if thorough else 1500))
    return cases

def check(run):
    run.trusted = ['Coq 8.16.1 kernel + VM', 'translators T2 (grammar, validated by the prod correspondence) and T4 (panic sites: token scan)',
                   'Model/PanicSites.v: the one-line reachability arguments of the sites classified Unreachable are read from the Rust code, not proved',
                   'Model/Peg.v, ParseActions.v, Info.v, Display.v: tied by the `parse` correspondence',
                   'native stack size and wall clock are outside the model: observed on the real code only']
    proved, _ = lib.proof_step(run, 'C03', ['T1', 'T2', 'T4'])
    okr, mok, sok = lib.build_binaries(run, model_areas=['pipeline', 'peg'])
    if okr:
        cases = gen_cases(run)
        if mok.get('pipeline'):
            out = pipecorr.correspond(run, cases)
        else:
            impl = pipecorr.run_lines(lib.rust_bin(), [c[0] for c in cases])
            out = [(c, k, f, impl[i] if i < len(impl) else 'missing', '') for i, (c, k, f) in enumerate(cases)]
        t_batch = 0
        for c, kind, feats, impl, model in out:
            run.evaluations += 1
            o = pipecorr.outcome(impl)
            run.count('kind:' + kind)
            run.count('outcome:' + o.split(':')[0])
            if c:
                run.nontrivial.add(tuple(c))
            if o in ('panic', 'crash', 'missing', 'unreadable'):
                text = pipecorr.text_of(c)
                if o in ('crash', 'missing'):
                    # the batch process died: find out on which case by running it alone
                    cls, line = lib.run_isolated(lib.rust_bin(), ['parse'], 'd ' + pipecorr.enc(c), timeout=TIME_LIMIT, stack_kb=STACK_KB)
                    if cls == 'ok' and line != 'panic':
                        continue
                    o = 'panic' if line == 'panic' else cls
                fid = classify(text, o)
                if fid in FINDINGS:
                    run.known_hits[fid] = (FINDINGS[fid], run.known_hits.get(fid, (None, 0))[1] + 1)
                else:
                    run.failing_inputs.append({'property': 'C03', 'class': o, 'what': '%s on a %s document' % (o, kind),
                                               'document': text, 'code_points': c, 'kind': kind})
            if len(run.samples) < 10 and kind in ('mutated', 'garbage', 'sentence-mutated') and len(c) < 120:
                run.sample({'document': pipecorr.text_of(c), 'kind': kind, 'outcome': o})
        run_hostile(run)
    return run.finish(level='proof',
        rule='one case = one input string; distinct non-trivial = distinct non-empty strings plus the hostile families (one process each, 10 s, 64 MB stack)',
        assumptions=['no-panic is proved about the model; the panic sites classified Unreachable rest on reading arguments (Model/PanicSites.v)',
                     'wall-clock time and native stack are observed on the real code only (findings D08, D10); cost_refuted counts non-terminal calls of the model interpreter'])

def replay(path):
    d = json.load(open(path))
    print(json.dumps({k: v for k, v in d.items() if k not in ('code_points',)}, indent=1, ensure_ascii=False)[:3000])
    if d.get('code_points'):
        return pipecorr.replay_doc(d, flags=d.get('flags', 'd'))
    if d.get('family'):
        import re
        for name, text, flags in hostile_cases(lib.Run('C03', 'thorough', 0)):
            if name == d['family']:
                t0 = time.time()
                cls, out = lib.run_isolated(lib.rust_bin(), ['parse'], '%s %s' % (flags, lib.enc(text)), timeout=TIME_LIMIT, stack_kb=STACK_KB)
                print('implementation [%s, %.2f s]: %s' % (cls, time.time() - t0, out[:300]))
    return 0
