(** * The table of a store has the shape of the XPath data model (C14 bridge)

    [SpecShape] (Proofs/XPathRefine.v), [ParentsOk] and the kind-independent part of [NamesOk]
    (Proofs/XPathRefinePaths.v) for [xdoc_of_store F merged s] under the tree invariant of the
    store: the remaining hypotheses of the C05 theorems.  [sh_order] -- the rows the
    specification's own pre-order walk visits are in increasing table position -- says that the
    table IS in the document order of its tree: every subtree is a contiguous block of rows. *)
From Coq Require Import List NArith Bool Lia Sorting.Sorted.
From XmlRs Require Import Base.CPred.
From XmlRs Require Import Model.XPathAst Model.XDoc Model.XPathEval Spec.XPath10
  Proofs.XPathNav Proofs.XPathCanon Proofs.XPathRefine Proofs.XPathRefinePaths Proofs.XDocParents.
From XmlRs Require Import Model.Store Model.StoreView
  Proofs.DomBase Proofs.DomTree Proofs.DomAnc Proofs.DomNav Proofs.DomOrder
  Proofs.StoreViewBase Proofs.StoreViewWalk Proofs.StoreXDoc.
Import ListNotations.
Open Scope N_scope.

Lemma sorted_app (a b : list N) : StronglySorted N.lt a -> StronglySorted N.lt b ->
  (forall x y, In x a -> In y b -> x < y) -> StronglySorted N.lt (a ++ b).
Proof.
  induction a as [|x t IH]; intros Ha Hb H; cbn [app]; [exact Hb|].
  inversion Ha as [|x' t' Ht Hx]; subst. constructor.
  - apply IH; [exact Ht | exact Hb|]. intros u v Hu Hv. apply H; [right; exact Hu | exact Hv].
  - apply Forall_app. split; [exact Hx|]. apply Forall_forall. intros y Hy. apply H; [left; reflexivity | exact Hy].
Qed.

Lemma filter_one {A} (p : A -> bool) (l : list A) (e : A) :
  NoDup l -> In e l -> p e = true -> (forall x, In x l -> p x = true -> x = e) -> filter p l = [e].
Proof.
  induction l as [|x t IH]; intros Hnd Hin He Hu; [destruct Hin|].
  inversion Hnd as [|x' t' Hx Hnd']; subst. cbn [filter].
  destruct Hin as [->|Hin].
  - rewrite He. f_equal.
    assert (Hnone : forall y, In y t -> p y = false).
    { intros y Hy. destruct (p y) eqn:Py; [|reflexivity]. exfalso. apply Hx. rewrite <- (Hu y (or_intror Hy) Py). exact Hy. }
    clear -Hnone. induction t as [|y u IHu]; [reflexivity|]. cbn [filter].
    rewrite (Hnone y (or_introl eq_refl)). apply IHu. intros z Hz. apply Hnone. right. exact Hz.
  - destruct (p x) eqn:Px.
    + exfalso. apply Hx. rewrite (Hu x (or_introl eq_refl) Px). exact Hin.
    + apply IH; [exact Hnd' | exact Hin | exact He|]. intros y Hy Py. apply Hu; [right; exact Hy | exact Py].
Qed.

Lemma filter_map_agree {A B} (g : A -> B) (p : B -> bool) (q : A -> bool) (l : list A) :
  (forall x, In x l -> p (g x) = q x) -> filter p (map g l) = map g (filter q l).
Proof.
  induction l as [|x t IH]; intros H; [reflexivity|]. cbn [map filter].
  rewrite (H x (or_introl eq_refl)), IH by (intros y Hy; apply H; right; exact Hy).
  destruct (q x); reflexivity.
Qed.

Section Facts.
Variable F : sfacts.
Variable merged : bool.
Variable s : store.
Hypothesis T : TreeInv s.

Notation L := (vrows F merged s).
Notation ixk := (ix F merged s).
Notation row := (row_of F merged s).
Notation doc := (xdoc_of_store F merged s).

(** ** parents *)
Lemma attr_dom_parent n it b : get s n = Some it -> In b (plain_attrs s n) ->
  dom_parent s (Plain b) = Some n /\ exists bit, get s b = Some bit /\ ikind bit = KAt.
Proof.
  intros Hn Hb. unfold plain_attrs, attrs_of in Hb. rewrite Hn in Hb. apply filter_In in Hb. destruct Hb as [Hb _].
  destruct (ti_lists_par s T n b) as [bit [Hg Hp]]; [exists it; split; [exact Hn | right; exact Hb]|].
  destruct (ti_attr_kind s T n it b bit Hn Hb Hg) as [Kn Kb].
  split; [|exists bit; split; assumption].
  cbn [dom_parent]. rewrite Hg, Kb. unfold owner_element, parent_of, has_kind. rewrite Hg, Hp, Hn, Kn. reflexivity.
Qed.

Lemma listed_dom_parent q v : In v (vlisted merged s (Plain q)) -> dom_parent s v = Some q.
Proof.
  cbn [vlisted]. destruct (get s q) as [qit|] eqn:Hq; [|intros []].
  destruct (ikind qit) eqn:K; try (intros []).
  - intros H. eapply child_dom_parent; eassumption.
  - intros H. apply in_app_or in H. destruct H as [H|H]; [|eapply child_dom_parent; eassumption].
    apply in_map_iff in H. destruct H as [b [<- Hb]]. apply (attr_dom_parent q qit b Hq Hb).
Qed.

Lemma view_child_parent j c : valid doc j -> In c (child_nodes doc j) -> XDoc.parent_node doc c = Some j.
Proof.
  intros V Hc. destruct (child_row F merged s T j c V Hc) as [pre [n [it [post [w [E [Ei [Hn [Hw [Hpost Ec]]]]]]]]]].
  destruct (node_row_at F merged s (KNode w) (in_rows F merged s pre _ post E _ Hpost)) as [_ G].
  unfold XDoc.parent_node. rewrite Ec, G, row_parent, (child_dom_parent merged s T n it w Hn Hw).
  cbn [node_ix]. rewrite (node_pos F merged s T pre _ post E), Ei. reflexivity.
Qed.

Lemma view_attr_parent j a : valid doc j -> In a (attributes doc j) ->
  XDoc.parent_node doc a = Some j /\ XDoc.kind doc a = KAttribute.
Proof.
  intros V Ha. destruct (attr_row F merged s T j a V Ha) as [pre [n [it [post [b [E [Ei [Hn [K [Hb [Hpost Ea]]]]]]]]]]].
  destruct (node_row_at F merged s _ (in_rows F merged s pre _ post E _ Hpost)) as [_ G].
  destruct (attr_dom_parent n it b Hn Hb) as [Hd [bit [Hg Kb]]]. split.
  - unfold XDoc.parent_node. rewrite Ea, G, row_parent, Hd.
    cbn [node_ix]. rewrite (node_pos F merged s T pre _ post E), Ei. reflexivity.
  - unfold XDoc.kind. rewrite Ea, G. cbn [row_of]. rewrite Hg. cbn [n_kind]. rewrite Kb. reflexivity.
Qed.

Lemma view_parent_lists i p : valid doc i -> XDoc.kind doc i <> KNamespace -> XDoc.parent_node doc i = Some p ->
  (In i (child_nodes doc p) /\ (XDoc.kind doc p = KDocument \/ XDoc.kind doc p = KElement)) \/
  (XDoc.kind doc p = KElement /\ In i (attributes doc p)).
Proof.
  intros V Hk Hp. destruct (row_at F merged s i V) as [pre [k [post [E [Hl Hr]]]]].
  unfold XDoc.kind in Hk. rewrite Hr in Hk. destruct (row_kind_ns F merged s k Hk) as [v ->].
  unfold XDoc.parent_node in Hp. rewrite Hr, row_parent in Hp.
  destruct (dom_parent s v) as [q|] eqn:Eq; [|discriminate]. cbn [node_ix] in Hp. inversion Hp as [Ep]. clear Hp.
  destruct (lister_row F merged s T pre v post q E (dom_parent_par s T v q Eq)) as [pre1 [post1 [Epre Hv]]].
  assert (E1 : L = pre1 ++ KNode (Plain q) :: (post1 ++ KNode v :: post)).
  { rewrite E, Epre, <- app_assoc. reflexivity. }
  destruct (row_at_split F merged s pre1 _ _ E1) as [_ G].
  rewrite (node_pos F merged s T pre1 _ _ E1) in *.
  assert (Ei : i = ixk (KNode v)) by (rewrite (node_pos F merged s T pre v post E); apply pos_eq; exact Hl).
  unfold XDoc.kind, child_nodes, attributes. rewrite G. cbn [row_of].
  cbn [vlisted] in Hv. destruct (get s q) as [qit|] eqn:Hq; [|destruct Hv].
  cbn [n_kind n_children n_attrs].
  destruct (ikind qit) eqn:K; try destruct Hv; cbn [xkind].
  - left. split; [|left; reflexivity]. rewrite Ei. apply (in_map (fun w => ixk (KNode w))). exact Hv.
  - apply in_app_or in Hv. destruct Hv as [Hv|Hv].
    + right. split; [reflexivity|]. apply in_map_iff in Hv. destruct Hv as [b [<- Hb]].
      rewrite Ei. apply (in_map (fun a => ixk (KNode (Plain a)))). exact Hb.
    + left. split; [|right; reflexivity]. rewrite Ei. apply (in_map (fun w => ixk (KNode w))). exact Hv.
Qed.

Lemma view_has_parent i : valid doc i -> XDoc.kind doc i <> KNamespace -> i <> doc_root ->
  exists p, XDoc.parent_node doc i = Some p.
Proof.
  intros V Hk Hne. destruct (row_at F merged s i V) as [pre [k [post [E [Hl Hr]]]]].
  unfold XDoc.kind in Hk. rewrite Hr in Hk. destruct (row_kind_ns F merged s k Hk) as [v ->].
  destruct (row_lister F merged s T pre v post E) as [[-> _]|[u [Hu Hv]]].
  - exfalso. apply Hne. cbn [length] in Hl. unfold doc_root. lia.
  - destruct u as [q|q]; [|destruct Hv].
    unfold XDoc.parent_node. rewrite Hr, row_parent, (listed_dom_parent q v Hv). cbn [node_ix]. eexists. reflexivity.
Qed.


(** ** the specification's walk visits the rows in table order *)
Definition in_range (lo len : nat) (j : N) : Prop := (lo <= N.to_nat j < lo + len)%nat.

Definition walk_ok (f : nat) : Prop :=
  forall v lv pre rest, VW F merged s v lv -> L = pre ++ lv ++ rest ->
    StronglySorted N.lt (rows_of (walk_fuel doc f (N.of_nat (length pre)))) /\
    Forall (in_range (length pre) (length lv)) (rows_of (walk_fuel doc f (N.of_nat (length pre)))).

Lemma seg_head w lw pre0 more : VW F merged s w lw -> L = pre0 ++ lw ++ more ->
  ixk (KNode w) = N.of_nat (length pre0) /\ (1 <= length lw)%nat.
Proof.
  intros W E. destruct (VW_head F merged s w lw W) as [t Et]. subst lw. split; [|cbn [length]; lia].
  eapply (row_ix F merged s T pre0 w (t ++ more)). rewrite E. reflexivity.
Qed.

Lemma seg_positions cs ls : Forall2 (VW F merged s) cs ls -> forall pre0 rest0, L = pre0 ++ concat ls ++ rest0 ->
  StronglySorted N.lt (map (fun w => ixk (KNode w)) cs) /\
  Forall (in_range (length pre0) (length (concat ls))) (map (fun w => ixk (KNode w)) cs).
Proof.
  induction 1 as [|w lw cs ls Hw Hrest IH]; intros pre0 rest0 E; cbn [map concat]; [split; constructor|].
  cbn [concat] in E. rewrite <- app_assoc in E.
  destruct (seg_head w lw pre0 _ Hw E) as [Ei Hlen].
  assert (E2 : L = (pre0 ++ lw) ++ concat ls ++ rest0) by (rewrite E, <- app_assoc; reflexivity).
  destruct (IH _ _ E2) as [Hs Hr]. rewrite app_length in Hr. split.
  - constructor; [exact Hs|]. eapply Forall_impl; [|exact Hr]. cbn beta. unfold in_range. intros y Hy. rewrite Ei. lia.
  - constructor.
    + unfold in_range. rewrite Ei, Nat2N.id, app_length. lia.
    + eapply Forall_impl; [|exact Hr]. cbn beta. unfold in_range. rewrite app_length. intros y Hy. lia.
Qed.

Lemma seg_sorted f (IHf : walk_ok f) cs ls : Forall2 (VW F merged s) cs ls ->
  forall pre0 rest0, L = pre0 ++ concat ls ++ rest0 -> forall keep : N -> bool,
  StronglySorted N.lt (flat_map (fun c => rows_of (walk_fuel doc f c)) (filter keep (map (fun w => ixk (KNode w)) cs))) /\
  Forall (in_range (length pre0) (length (concat ls)))
         (flat_map (fun c => rows_of (walk_fuel doc f c)) (filter keep (map (fun w => ixk (KNode w)) cs))).
Proof.
  induction 1 as [|w lw cs ls Hw Hrest IH]; intros pre0 rest0 E keep; cbn [map concat filter flat_map]; [split; constructor|].
  cbn [concat] in E. rewrite <- app_assoc in E.
  destruct (seg_head w lw pre0 _ Hw E) as [Ei Hlen].
  assert (E2 : L = (pre0 ++ lw) ++ concat ls ++ rest0) by (rewrite E, <- app_assoc; reflexivity).
  destruct (IH _ _ E2 keep) as [Hs Hr]. rewrite app_length in Hr.
  destruct (IHf w lw pre0 _ Hw E) as [Hs1 Hr1]. rewrite <- Ei in Hs1, Hr1.
  assert (Hwide : Forall (in_range (length pre0) (length (lw ++ concat ls)))
            (flat_map (fun c => rows_of (walk_fuel doc f c)) (filter keep (map (fun w0 => ixk (KNode w0)) cs)))).
  { eapply Forall_impl; [|exact Hr]. cbn beta. unfold in_range. rewrite app_length. intros y Hy. lia. }
  destruct (keep (ixk (KNode w))); [|split; assumption].
  cbn [flat_map]. split.
  - apply sorted_app; [exact Hs1 | exact Hs|]. intros x y Hx Hy.
    rewrite Forall_forall in Hr1, Hr. specialize (Hr1 x Hx). specialize (Hr y Hy). unfold in_range in *. lia.
  - apply Forall_app. split; [|exact Hwide].
    eapply Forall_impl; [|exact Hr1]. cbn beta. unfold in_range. rewrite app_length. intros y Hy. lia.
Qed.

(** what the specification reads off a node row *)
Lemma row_spec_lists v it o : get s (vid v) = Some it -> getd doc o = row (KNode v) ->
  exists av cv, vlisted merged s v = av ++ cv /\
    (match XDoc.kind doc o with KElement => attributes doc o | _ => [] end) = map (fun w => ixk (KNode w)) av /\
    xchildren doc o = filter (fun c => negb (nkind_eqb (XDoc.kind doc c) KDocumentType)) (map (fun w => ixk (KNode w)) cv).
Proof.
  intros Hg G. unfold xchildren, XDoc.kind, attributes, child_nodes. rewrite G.
  destruct v as [n|n]; cbn [vid] in Hg; cbn [row_of vlisted].
  - rewrite Hg. cbn [n_kind n_attrs n_children].
    destruct (ikind it) eqn:K; cbn [xkind]; try (exists [], []; repeat split; reflexivity).
    + exists [], (child_view s merged n). repeat split; reflexivity.
    + exists (map Plain (plain_attrs s n)), (child_view s merged n). split; [reflexivity|]. split; [|reflexivity].
      rewrite map_map. reflexivity.
  - exists [], []. repeat split; reflexivity.
Qed.

Lemma spec_walk_sorted : forall f, walk_ok f.
Proof.
  induction f as [|f IHf]; intros v lv pre rest W E; [split; constructor|].
  destruct W as [v it ls Hg Hls].
  assert (E0 : L = pre ++ KNode v :: (vextra F s v ++ concat ls) ++ rest) by (rewrite E; reflexivity).
  destruct (row_at_split F merged s pre _ _ E0) as [_ G].
  destruct (row_spec_lists v it _ Hg G) as [av [cv [Hl [Ha Hx]]]].
  rewrite Hl in Hls. apply Forall2_app_inv_l in Hls. destruct Hls as [lsa [lsc [Hlsa [Hlsc ->]]]].
  rewrite rows_walk_S, Ha, Hx. clear Ha Hx.
  rewrite concat_app in E0.
  assert (Ea : L = (pre ++ KNode v :: vextra F s v) ++ concat lsa ++ (concat lsc ++ rest)).
  { rewrite E0. rewrite <- ?app_assoc. cbn [app]. rewrite <- ?app_assoc. reflexivity. }
  assert (Ec : L = ((pre ++ KNode v :: vextra F s v) ++ concat lsa) ++ concat lsc ++ rest).
  { rewrite Ea. rewrite <- ?app_assoc. reflexivity. }
  destruct (seg_positions av lsa Hlsa _ _ Ea) as [Sa Ra].
  destruct (seg_sorted f IHf cv lsc Hlsc _ _ Ec (fun c => negb (nkind_eqb (XDoc.kind doc c) KDocumentType))) as [Sc Rc].
  rewrite !app_length in Ra, Rc. cbn [length] in Ra, Rc.
  rewrite Forall_forall in Ra, Rc.
  cbn [length]. rewrite !app_length, concat_app, app_length. split.
  - constructor.
    + apply sorted_app; [exact Sa | exact Sc|]. intros x y Hx Hy.
      specialize (Ra x Hx). specialize (Rc y Hy). unfold in_range in *. rewrite ?app_length in *. cbn [length] in *. lia.
    + apply Forall_forall. intros y Hy. apply in_app_or in Hy.
      destruct Hy as [Hy|Hy]; [specialize (Ra y Hy) | specialize (Rc y Hy)]; unfold in_range in *; rewrite ?app_length in *; cbn [length] in *; lia.
  - constructor; [unfold in_range; rewrite Nat2N.id; lia|].
    apply Forall_forall. intros y Hy. apply in_app_or in Hy.
    destruct Hy as [Hy|Hy]; [specialize (Ra y Hy) | specialize (Rc y Hy)]; unfold in_range in *; rewrite ?app_length in *; cbn [length] in *; lia.
Qed.

Theorem view_order : StronglySorted N.lt (rows_of (all_nodes doc)).
Proof.
  pose proof (rows_VW F merged s T) as W.
  destruct (spec_walk_sorted (fuel0 doc) _ _ [] [] W) as [H _]; [rewrite app_nil_r; reflexivity|].
  exact H.
Qed.


(** ** shape *)
Lemma child_row_kind n it w : get s n = Some it -> In w (child_view s merged n) -> In (KNode w) L ->
  n_kind (row (KNode w)) <> KAttribute /\ n_kind (row (KNode w)) <> KDocument.
Proof.
  intros Hn Hw Hin. destruct w as [c|c]; cbn [row_of]; [|split; discriminate].
  pose proof (child_view_in merged s n it _ Hn Hw) as Hc. cbn [vid] in Hc.
  destruct (lists_live_child s T n c) as [cit Hcit]; [exists it; split; [exact Hn | left; exact Hc]|].
  rewrite Hcit. cbn [n_kind].
  pose proof (ti_child_kind s T n it c cit Hn Hc Hcit) as Hok. apply child_ok_not_at in Hok.
  destruct Hok as [H1 [H2 H3]]. destruct (ikind cit); try contradiction; split; discriminate.
Qed.


Lemma root_row : exists rit t, get s (sroot s) = Some rit /\ ikind rit = KDoc /\
  L = KNode (Plain (sroot s)) :: t /\ getd doc doc_root = row (KNode (Plain (sroot s))).
Proof.
  destruct (ti_root s T) as [rit [Hr Kr]]. destruct (rows_head F merged s T) as [t E].
  destruct (row_at_split F merged s [] _ t E) as [_ G]. exists rit, t. repeat split; assumption.
Qed.

Lemma root_children : exists rit, get s (sroot s) = Some rit /\ ikind rit = KDoc /\
  child_nodes doc doc_root = map (fun x => ixk (KNode (Plain x))) (ichildren rit) /\
  (forall x, In x (ichildren rit) -> In (KNode (Plain x)) L).
Proof.
  destruct root_row as [rit [t [Hr [Kr [E G]]]]]. exists rit. split; [exact Hr|]. split; [exact Kr|].
  assert (Hcv : child_view s merged (sroot s) = map Plain (ichildren rit)).
  { unfold child_view. rewrite Hr, Kr. reflexivity. }
  split.
  - unfold child_nodes. rewrite G. cbn [row_of]. rewrite Hr. cbn [n_children]. rewrite Kr, Hcv, map_map. reflexivity.
  - intros x Hx. rewrite E. right. eapply (row_listed_after F merged s T [] _ t); [exact E|].
    cbn [vlisted]. rewrite Hr, Kr, Hcv. apply in_map. exact Hx.
Qed.

Hypothesis HasEl : doc_element s <> None.

Theorem view_shape : SpecShape doc.
Proof.
  constructor.
  - intros i c V Hc. destruct (child_row F merged s T i c V Hc) as [pre [n [it [post [w [E [Ei [Hn [Hw [Hpost Ec]]]]]]]]]].
    pose proof (in_rows F merged s pre _ post E _ Hpost) as Hin.
    destruct (node_row_at F merged s (KNode w) Hin) as [_ G].
    unfold XDoc.kind. rewrite Ec, G. exact (child_row_kind n it w Hn Hw Hin).
  - intros i V Hk. destruct (row_at F merged s i V) as [pre [k [post [E [Hl Hr]]]]].
    unfold XDoc.kind in Hk. rewrite Hr in Hk |- *.
    destruct k as [[n|n]|a|e]; cbn [row_of n_kind] in Hk |- *; try discriminate.
    destruct (get s n) as [it|]; [|discriminate]. cbn [n_kind n_data] in Hk |- *. unfold xdata_of.
    destruct (ikind it); try discriminate; reflexivity.
  - intros i V Hk. destruct (row_at F merged s i V) as [pre [k [post [E [Hl Hr]]]]].
    unfold XDoc.kind in Hk. unfold attributes. rewrite Hr in Hk |- *.
    destruct k as [[n|n]|a|e]; cbn [row_of n_kind n_attrs] in Hk |- *; try reflexivity.
    destruct (get s n) as [it|]; [|reflexivity]. cbn [n_kind n_attrs] in Hk |- *.
    destruct (ikind it); try reflexivity. exfalso. apply Hk. reflexivity.
  - intros i V H1 H2 H3. destruct (row_at F merged s i V) as [pre [k [post [E [Hl Hr]]]]].
    unfold XDoc.kind in H1, H2, H3. unfold child_nodes. rewrite Hr in H1, H2, H3 |- *.
    destruct k as [[n|n]|a|e]; cbn [row_of n_kind n_children] in H1, H2, H3 |- *; try reflexivity.
    destruct (get s n) as [it|]; [|reflexivity]. cbn [n_kind n_children] in H1, H2, H3 |- *.
    destruct (ikind it); try reflexivity; exfalso; [apply H1 | apply H2]; reflexivity.
  - exact view_order.
  - intros i a V Ha. apply (view_attr_parent i a V Ha).
  - intros i a V Ha. apply (view_attr_parent i a V Ha).
  - exact view_child_parent.
  - intros i c V Hc. destruct (child_row F merged s T i c V Hc) as [pre [n [it [post [w [E [Ei [Hn [Hw [Hpost Ec]]]]]]]]]].
    pose proof (in_rows F merged s pre _ post E _ Hpost) as Hin.
    destruct (node_row_at F merged s (KNode w) Hin) as [_ G].
    unfold XDoc.kind. rewrite Ec, G. destruct w as [x|x]; cbn [row_of]; [|reflexivity].
    pose proof (child_view_in merged s n it _ Hn Hw) as Hx. cbn [vid] in Hx.
    destruct (lists_live_child s T n x) as [xit Hg]; [exists it; split; [exact Hn | left; exact Hx]|].
    rewrite Hg. cbn [n_kind].
    pose proof (ti_child_kind s T n it x xit Hn Hx Hg) as Hok. apply child_ok_not_at in Hok.
    destruct Hok as [H1 [H2 H3]]. destruct (ikind xit); try contradiction; reflexivity.
  - destruct root_row as [rit [t [Hr [Kr [E G]]]]]. unfold XDoc.kind. rewrite G. cbn [row_of]. rewrite Hr. cbn [n_kind]. rewrite Kr. reflexivity.
  - destruct root_children as [rit [Hr [Kr [Hc Hin]]]]. intros c Hcc. rewrite Hc in Hcc.
    apply in_map_iff in Hcc. destruct Hcc as [x [<- Hx]].
    destruct (node_row_at F merged s _ (Hin x Hx)) as [_ G]. unfold XDoc.kind. rewrite G. cbn [row_of].
    destruct (lists_live_child s T (sroot s) x) as [xit Hg]; [exists rit; split; [exact Hr | left; exact Hx]|].
    rewrite Hg. cbn [n_kind].
    pose proof (ti_child_kind s T _ rit x xit Hr Hx Hg) as Hok. rewrite Kr in Hok.
    destruct (ikind xit); try discriminate; reflexivity.
  - destruct root_children as [rit [Hr [Kr [Hc Hin]]]].
    destruct (doc_element s) as [e|] eqn:De; [|contradiction].
    unfold doc_element, children_of in De. rewrite Hr in De. apply find_some in De. destruct De as [He Hke].
    exists (ixk (KNode (Plain e))). rewrite Hc.
    assert (Hk : forall x, In x (ichildren rit) ->
              nkind_eqb (XDoc.kind doc (ixk (KNode (Plain x)))) KElement = has_kind s KEl x).
    { intros x Hx. destruct (node_row_at F merged s _ (Hin x Hx)) as [_ G]. unfold XDoc.kind. rewrite G. cbn [row_of].
      destruct (lists_live_child s T (sroot s) x) as [xit Hg]; [exists rit; split; [exact Hr | left; exact Hx]|].
      unfold has_kind. rewrite Hg. cbn [n_kind]. destruct (ikind xit); reflexivity. }
    assert (Hf : filter (fun c => nkind_eqb (XDoc.kind doc c) KElement) (map (fun x => ixk (KNode (Plain x))) (ichildren rit))
                 = map (fun x => ixk (KNode (Plain x))) (filter (has_kind s KEl) (ichildren rit))).
    { apply filter_map_agree. exact Hk. }
    rewrite Hf.
    rewrite (filter_one (has_kind s KEl) (ichildren rit) e (ti_nodup_c s T _ rit Hr) He Hke); [reflexivity|].
    intros x Hx Hkx. eapply (ti_one_el s T rit); eassumption.
Qed.

End Facts.

(** ** the dom's parents are the parents in the tree, when there is no document type *)
Section ParentsSec.
Variable F : sfacts.
Variable merged : bool.
Variable s : store.
Hypothesis T : TreeInv s.
Hypothesis HasEl : doc_element s <> None.
Hypothesis NoDt : doc_decl s = None.

Notation L := (vrows F merged s).
Notation ixk := (ix F merged s).
Notation row := (row_of F merged s).
Notation doc := (xdoc_of_store F merged s).

Lemma view_no_doctype j c : valid doc j -> In c (child_nodes doc j) -> XDoc.kind doc c <> KDocumentType.
Proof.
  intros V Hc. destruct (child_row F merged s T j c V Hc) as [pre [n [it [post [w [E [Ei [Hn [Hw [Hpost Ec]]]]]]]]]].
  destruct (node_row_at F merged s (KNode w) (in_rows F merged s pre _ post E _ Hpost)) as [_ G].
  unfold XDoc.kind. rewrite Ec, G. destruct w as [x|x]; cbn [row_of]; [|discriminate].
  pose proof (child_view_in merged s n it _ Hn Hw) as Hx. cbn [vid] in Hx.
  destruct (lists_live_child s T n x) as [xit Hg]; [exists it; split; [exact Hn | left; exact Hx]|].
  rewrite Hg. cbn [n_kind]. intros Hk.
  assert (Kx : ikind xit = KDt) by (destruct (ikind xit); try discriminate; reflexivity).
  pose proof (ti_child_kind s T n it x xit Hn Hx Hg) as Hok. rewrite Kx in Hok.
  assert (Kn : ikind it = KDoc) by (destruct (ikind it); try discriminate; reflexivity).
  pose proof (ti_doc_root s T n it Hn Kn) as En. subst n.
  assert (Hd : doc_decl s = Some x).
  { apply (doc_decl_unique s T); [apply (in_child_list s T); exists it; split; assumption|].
    unfold has_kind. rewrite Hg, Kx. reflexivity. }
  congruence.
Qed.


Theorem view_parents : ParentsOk doc.
Proof.
  apply parents_ok_of_tree.
  - apply view_wf; assumption.
  - apply view_child_parent. exact T.
  - intros j a V _ Ha. apply (view_attr_parent F merged s T j a V Ha).
  - apply view_parent_lists. exact T.
  - apply view_has_parent. exact T.
  - intros j a V _ Ha. apply (view_attr_parent F merged s T j a V Ha).
  - exact view_no_doctype.
Qed.

End ParentsSec.

(** ** names: everything but the namespace URIs of elements and attributes *)
Section Names.
Variable F : sfacts.
Variable merged : bool.
Variable s : store.

Notation doc := (xdoc_of_store F merged s).

(** [NamesOk] (C10) reduces to its first clause: the expanded names of element and attribute rows
    are those the specification computes from the namespace nodes *)
Definition ElemNamesOk (d : xdoc) : Prop :=
  forall i, valid d i -> XDoc.kind d i = KElement \/ XDoc.kind d i = KAttribute ->
    match name_of d i with
    | XName l p u => s_name d (Row i) = Some (l, norm_prefix p, u)
    | _ => False
    end.

Theorem view_names : ElemNamesOk doc -> NamesOk doc.
Proof.
  intros H i V. split; [exact (H i V)|].
  destruct (row_at F merged s i V) as [pre [k [post [E [Hl Hr]]]]].
  unfold XDoc.kind, name_of. rewrite Hr.
  destruct k as [[n|n]|a|e]; cbn [row_of].
  - destruct (get s n) as [it|]; [|split; [discriminate | intros; reflexivity]].
    cbn [n_kind n_name]. unfold xname_of.
    destruct (ikind it); cbn [xkind]; split; try discriminate; try (intros; reflexivity); try (intros; contradiction).
    intros _. split; reflexivity.
  - cbn [n_kind n_name]. split; [discriminate | intros; reflexivity].
  - cbn [n_kind n_name]. split; [discriminate | intros; contradiction].
  - cbn [n_kind n_name]. split; [discriminate | intros; contradiction].
Qed.

End Names.
