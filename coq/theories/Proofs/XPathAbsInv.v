(** * Two invariants of the evaluator on abstract trees ([xeval], Proofs/XPathAbsEval.v) (C08).

    - [xeval_restores]: whenever [xeval doc a n] ends with a value or an error the context is the
      one it was started with (the analogue of C19, for every tree [a], no hypothesis);
    - [xeval_good]: on a document satisfying [DocInv], for a tree without the namespace axis
      ([xnons a]) and a good context node (a row of the table that is not a namespace node),
      every node of a node-set value is a good node -- good nodes have non-zero, pairwise distinct
      order keys, which is what makes de-duplication by key harmless.
    Both by the induction principle [xexpr_ind2] (sub-expressions inside lists, steps and path
    heads). *)
From Coq Require Import List NArith Bool Lia Sorting.Sorted Sorting.Permutation.
From XmlRs Require Import Base.CPred Base.NList Base.Float64.
From XmlRs Require Import Spec.XPathSyntax.
From XmlRs Require Import Spec.XPathCore Model.XPathFuncs.
From XmlRs Require Import Model.XPathAst Model.XDoc Model.XPathScalar Model.XPathEval Model.XPathAstAbs.
From XmlRs Require Import Proofs.XPathEvalEqs Proofs.XPathNav Proofs.XPathSort Proofs.XPathCtx Proofs.XPathAstPred
  Proofs.XPathInv Proofs.XPathTotal Proofs.XPathCanon Proofs.XPathAbsEval.
From XmlRs Require Proofs.XPathParseMain Proofs.XPathSyntaxLemmas.
Import ListNotations.
Open Scope N_scope.

(** ** induction on abstract trees *)
Definition step_all (P : xexpr -> Prop) (s : xstep) : Prop :=
  match s with XStep _ _ preds => Forall P preds | _ => True end.
Definition start_all (P : xexpr -> Prop) (st : xstart) : Prop :=
  match st with SFrom f _ => P f | _ => True end.

Lemma xexpr_ind2 (P : xexpr -> Prop) :
  (forall o a b, P a -> P b -> P (XBin o a b)) ->
  (forall a, P a -> P (XNeg a)) ->
  (forall s, P (XLit s)) ->
  (forall s, P (XPathSyntax.XNum s)) ->
  (forall q, P (XVar q)) ->
  (forall f args, Forall P args -> P (XCall f args)) ->
  (forall a, P a -> P (XParen a)) ->
  (forall p preds, P p -> Forall P preds -> P (XFilter p preds)) ->
  P XRoot ->
  (forall st first rest, start_all P st -> step_all P first -> Forall (fun x => step_all P (snd x)) rest ->
     P (XPath st first rest)) ->
  forall a, P a.
Proof.
  intros HBin HNeg HLit HNum HVar HCall HParen HFilter HRoot HPath.
  apply XPathSyntaxLemmas.xexpr_size_ind. intros a IH.
  assert (Hl : forall l, (list_sum (map XPathParseMain.size l) < XPathParseMain.size a)%nat -> Forall P l).
  { intros l Hsz. apply Forall_forall. intros x Hx. apply IH. pose proof (XPathParseMain.size_in x l Hx). lia. }
  assert (Hstep : forall s, (XPathParseMain.step_size XPathParseMain.size s < XPathParseMain.size a)%nat -> step_all P s).
  { intros s Hsz. destruct s as [ax t preds| |]; cbn [step_all]; [|exact I|exact I]. apply Hl.
    cbn [XPathParseMain.step_size] in Hsz. lia. }
  destruct a as [o l r|a'|s|s|q|f args|a'|p preds| |st first rest]; cbn [XPathParseMain.size] in *.
  - apply HBin; apply IH; lia.
  - apply HNeg. apply IH. lia.
  - apply HLit.
  - apply HNum.
  - apply HVar.
  - apply HCall. apply Hl. lia.
  - apply HParen. apply IH. lia.
  - apply HFilter; [apply IH; lia|apply Hl; lia].
  - apply HRoot.
  - apply HPath.
    + destruct st as [|sp|f sp]; cbn [start_all]; try exact I. apply IH. lia.
    + apply Hstep. lia.
    + apply Forall_forall. intros y Hy. apply Hstep. pose proof (XPathParseMain.size_in_rest y rest Hy). lia.
Qed.

Section Inv.
Variable doc : xdoc.

(** ** the context is restored *)
Lemma restores_xbinop o (ma mb : M xvalue) : restores ma -> restores mb -> restores (xbinop doc o ma mb).
Proof.
  intros Ha Hb. destruct o; cbn [xbinop];
    try (apply restores_bind; [exact Ha|intros v]; apply restores_bind; [exact Hb|intros w];
         apply restores_bind; [apply restores_lift|intros r; apply restores_ret]).
  - apply restores_bind; [exact Ha|intros v]. apply restores_if; [apply restores_ret|].
    apply restores_bind; [exact Hb|intros w; apply restores_ret].
  - apply restores_bind; [exact Ha|intros v]. apply restores_if; [apply restores_ret|].
    apply restores_bind; [exact Hb|intros w; apply restores_ret].
  - apply restores_bind; [exact Ha|intros v]. apply restores_match_nodes; [|apply restores_lift]. intros la.
    apply restores_bind; [exact Hb|intros w]. apply restores_match_nodes; [intros; apply restores_ret|apply restores_lift].
Qed.

Lemma restores_xargs (ms : list (M xvalue)) : Forall restores ms -> restores (xargs ms).
Proof.
  induction 1 as [|m t Hm _ IH]; cbn [xargs]; [apply restores_ret|].
  apply restores_bind; [exact Hm|intros v]. apply restores_bind; [exact IH|intros vs; apply restores_ret].
Qed.

Lemma restores_xpreds (evs : list (node -> M xvalue)) :
  Forall (fun ev => forall n, restores (ev n)) evs -> forall nodes, restores (xpreds evs nodes).
Proof.
  induction 1 as [|ev t Hev _ IH]; intros nodes; cbn [xpreds]; [apply restores_ret|].
  intros c r c' H Hs.
  destruct (pred_loop (predicate_of ev) nodes 1 (push_size (len nodes) c)) as [rl c1] eqn:E.
  pose proof (pred_loop_ctx (predicate_of ev) (fun n => restores_predicate_of _ n (Hev n)) _ _ _ _ _ E) as Hc.
  destruct rl as [filtered|er| |].
  - subst c1. rewrite pop_push_size in H. eapply IH; eauto.
  - inversion H; subst. apply pop_push_size.
  - inversion H; subst. destruct Hs.
  - inversion H; subst. destruct Hs.
Qed.

Lemma restores_step_sem ax test evs n :
  Forall (fun ev => forall n, restores (ev n)) evs -> restores (step_sem doc ax test evs n).
Proof.
  intros Hev c r c' H Hs. unfold step_sem in H.
  destruct (bind (axis_nodes doc ax n) (filter_res (eval_node_test doc (c_ns c) ax test))) as [tested|e| |].
  - eapply restores_xpreds; eauto.
  - inversion H; reflexivity.
  - inversion H; reflexivity.
  - inversion H; reflexivity.
Qed.

Definition items_restore (items : list (sep * sem_step)) : Prop :=
  Forall (fun i => forall x, restores (snd i x)) items.

Lemma restores_xstepops items : items_restore items -> forall nodes, restores (xstepops doc items nodes).
Proof.
  induction 1 as [|[s f] t Hf _ IH]; intros nodes; cbn [xstepops]; [apply restores_ret|].
  apply restores_bind; [apply restores_lift|intros from].
  apply restores_bind; [apply restores_flat_map_m; exact Hf|intros coll; apply IH].
Qed.

Lemma restores_path_sem start first rest :
  restores start -> (forall x, restores (first x)) -> items_restore rest -> restores (path_sem doc start first rest).
Proof.
  intros Hs Hf Hr. unfold path_sem. apply restores_bind; [exact Hs|intros nodes].
  apply restores_bind; [|intros coll; apply restores_ret].
  apply restores_flat_map_m. intros x. apply restores_bind; [apply Hf|intros ns; apply restores_xstepops, Hr].
Qed.

Lemma restores_xcall name (ms : list (M xvalue)) n : Forall restores ms -> restores (xcall doc name ms n).
Proof.
  intros Hms c r c' H Hs. unfold xcall in H. destruct (resolve_fn (c_ns c) name (len ms)) as [local|e| |].
  - revert H Hs. apply (restores_bind (xargs ms) (fun vs => exec_fn doc local vs n)); [apply restores_xargs, Hms|].
    intros vs. apply restores_exec_fn.
  - inversion H; reflexivity.
  - inversion H; reflexivity.
  - inversion H; reflexivity.
Qed.

Lemma restores_xvar q : restores (xvar q).
Proof.
  intros c r c' H _. unfold xvar in H. destruct (expanded_name (c_ns c) q) as [[[? ?] ?]| | |]; inversion H; reflexivity.
Qed.

Lemma restores_xstep_with (s : xstep) :
  step_all (fun a => forall n, restores (xeval doc a n)) s -> forall n, restores (xstepf doc s n).
Proof.
  destruct s as [ax t preds| |]; cbn [step_all]; intros H n; unfold xstepf; cbn [xstep_with].
  - apply restores_step_sem. apply Forall_map. exact H.
  - apply restores_ret.
  - apply restores_ret.
Qed.

Theorem xeval_restores : forall a n, restores (xeval doc a n).
Proof.
  apply (xexpr_ind2 (fun a => forall n, restores (xeval doc a n))).
  - intros o a b Ha Hb n. cbn [xeval]. apply restores_xbinop; [apply Ha|apply Hb].
  - intros a Ha n. cbn [xeval]. apply restores_bind; [apply Ha|intros v; apply restores_lift].
  - intros s n. apply restores_ret.
  - intros s n. cbn [xeval]. destruct (rust_parse_f64 s); [apply restores_ret|apply restores_lift].
  - intros q n. apply restores_xvar.
  - intros f args Hargs n. cbn [xeval]. apply restores_xcall. apply Forall_map. eapply Forall_impl; [|exact Hargs].
    intros a Ha. apply Ha.
  - intros a Ha n. cbn [xeval]. apply Ha.
  - intros p preds Hp Hpreds n. cbn [xeval]. destruct preds as [|q t]; [apply Hp|].
    apply restores_bind; [apply Hp|intros v]. apply restores_match_nodes; [|apply restores_lift]. intros l.
    apply restores_bind; [|intros r; apply restores_ret]. apply restores_xpreds. apply Forall_map. exact Hpreds.
  - intros n. apply restores_ret.
  - intros st first rest Hst Hfirst Hrest n. cbn [xeval].
    assert (Hr : items_restore (xrest doc rest)).
    { unfold items_restore, xrest. apply Forall_map. eapply Forall_impl; [|exact Hrest]. intros [s y] Hy x. cbn [snd] in *.
      apply (restores_xstep_with y Hy). }
    pose proof (restores_xstep_with first Hfirst) as Hf.
    destruct st as [|s|f s]; cbn [start_all] in Hst.
    + apply (restores_path_sem _ (xstepf doc first) (xrest doc rest)); [apply restores_ret|exact Hf|exact Hr].
    + apply (restores_path_sem _ (xstepf doc first) (xrest doc rest)); [apply restores_lift|exact Hf|exact Hr].
    + apply restores_bind; [apply Hst|intros v]. apply restores_match_nodes; [|apply restores_lift]. intros fl.
      apply (restores_path_sem _ (xstepf doc first) (xrest doc rest)); [apply restores_lift|exact Hf|exact Hr].
Qed.

Lemma xstep_restores (s : xstep) n : restores (xstepf doc s n).
Proof.
  apply restores_xstep_with. destruct s as [ax t preds| |]; cbn [step_all]; try exact I.
  apply Forall_forall. intros a _. apply xeval_restores.
Qed.

Lemma xrest_restores rest : items_restore (xrest doc rest).
Proof.
  unfold items_restore, xrest. apply Forall_map. apply Forall_forall. intros [s y] _ x. cbn [snd]. apply xstep_restores.
Qed.

End Inv.

(** ** trees whose axes satisfy a condition; in particular: trees without the namespace axis *)
Definition step_axes (pa : XPathSyntax.axis_spec -> bool) (f : xexpr -> bool) (s : xstep) : bool :=
  match s with
  | XStep a _ preds => pa a && forallb f preds
  | _ => true
  end.

Fixpoint xaxes (pa : XPathSyntax.axis_spec -> bool) (a : xexpr) : bool :=
  match a with
  | XBin _ a b => xaxes pa a && xaxes pa b
  | XNeg a => xaxes pa a
  | XLit _ | XPathSyntax.XNum _ | XVar _ | XRoot => true
  | XCall _ args => forallb (xaxes pa) args
  | XParen a => xaxes pa a
  | XFilter p preds => xaxes pa p && forallb (xaxes pa) preds
  | XPath st first rest =>
      match st with SFrom f _ => xaxes pa f | _ => true end
      && step_axes pa (xaxes pa) first
      && forallb (fun x : sep * xstep => let (_, s) := x in step_axes pa (xaxes pa) s) rest
  end.

Definition nsfree (a : XPathSyntax.axis_spec) : bool := match a with AFull XNamespace => false | _ => true end.
Definition anyax (a : XPathSyntax.axis_spec) : bool := true.

Notation xnons := (xaxes nsfree).
Notation step_nons := (step_axes nsfree).

Lemma xaxes_any : forall a, xaxes anyax a = true.
Proof.
  apply (xexpr_ind2 (fun a => xaxes anyax a = true)); try reflexivity.
  - intros o a b Ha Hb. cbn [xaxes]. now rewrite Ha, Hb.
  - intros a Ha. exact Ha.
  - intros f args H. cbn [xaxes]. apply forallb_forall. rewrite Forall_forall in H. exact H.
  - intros a Ha. exact Ha.
  - intros p preds Hp H. cbn [xaxes]. rewrite Hp. apply forallb_forall. rewrite Forall_forall in H. exact H.
  - intros st first rest Hst Hfirst Hrest. cbn [xaxes].
    assert (Hs : forall s : xstep, step_all (fun a => xaxes anyax a = true) s -> step_axes anyax (xaxes anyax) s = true).
    { intros s. destruct s as [ax t preds| |]; cbn [step_all step_axes]; try reflexivity. intros H.
      apply forallb_forall. rewrite Forall_forall in H. exact H. }
    rewrite (Hs first Hfirst). replace (match st with SFrom f _ => xaxes anyax f | _ => true end) with true
      by (destruct st; cbn [start_all] in Hst; [reflexivity|reflexivity|symmetry; exact Hst]).
    apply forallb_forall. rewrite Forall_forall in Hrest. intros [s y] Hy. apply Hs. apply (Hrest (s, y) Hy).
Qed.

Ltac inv_bind H := let a := fresh "a" in let c1 := fresh "c" in let E := fresh "E" in
  apply bindM_ok_inv in H; destruct H as (a & c1 & E & H).

Lemma flat_map_m_ok_in (f : node -> M (list node)) : forall l c r c',
  flat_map_m f l c = (Ok r, c') ->
  forall y, In y r -> exists x c1 lx c2, In x l /\ f x c1 = (Ok lx, c2) /\ In y lx.
Proof.
  induction l as [|x t IH]; intros c r c' H y Hy; cbn [flat_map_m] in H.
  - apply ret_ok_inv in H. destruct H as [-> _]. destruct Hy.
  - inv_bind H. inv_bind H. apply ret_ok_inv in H. destruct H as [-> _]. apply in_app_or in Hy. destruct Hy as [Hy|Hy].
    + exists x, c, a, c0. split; [left; reflexivity|split; assumption].
    + destruct (IH _ _ _ E0 y Hy) as (x' & d1 & lx & d2 & Hx & Hf & Hin). exists x', d1, lx, d2. split; [right; exact Hx|split; assumption].
Qed.

(** ** a set [G] of nodes closed under the axes allowed by [pax]: values consist of [G] nodes *)
Section Closed.
Variable doc : xdoc.
Variable G : node -> Prop.
Variable pax : XPathAst.axis_spec -> bool.
Variable xpa : XPathSyntax.axis_spec -> bool.
Hypothesis G_axis : forall a i, pax a = true -> G i -> XPathNav.is_ok (axis_nodes doc a i) (Forall G).
Hypothesis G_parent : forall i p, G i -> parent_node doc i = Some p -> G p.
Hypothesis G_root_of : forall n, G n -> Forall G (root_of doc n).
Hypothesis H_conc : forall a, xpa a = true -> pax (conc_axis a) = true.
Hypothesis H_dos : pax (AxisName AxDescendantOrSelf) = true.

Definition gv (v : xvalue) : Prop := match v with XNodes l => Forall G l | _ => True end.
Definition okg (m : M xvalue) : Prop := forall c v c', m c = (Ok v, c') -> gv v.
Definition okgl (m : M (list node)) : Prop := forall c l c', m c = (Ok l, c') -> Forall G l.

Lemma arith_num f a b v : arith doc f a b = Ok v -> exists x, v = XNum x.
Proof.
  unfold arith. destruct (unwrap_num (val_to_number doc a)); cbn [bind]; try discriminate.
  destruct (unwrap_num (val_to_number doc b)); cbn [bind]; try discriminate. intros H. inversion H. eauto.
Qed.

Lemma neg_value_num a v : neg_value doc a = Ok v -> exists x, v = XNum x.
Proof. unfold neg_value. destruct (unwrap_num (val_to_number doc a)); cbn [bind]; try discriminate. intros H. inversion H. eauto. Qed.

Lemma okg_xbinop o (ma mb : M xvalue) : okg ma -> okg mb -> okg (xbinop doc o ma mb).
Proof.
  intros Ha Hb c v c' H. destruct o; cbn [xbinop] in H; inv_bind H;
    try (inv_bind H; inv_bind H; apply ret_ok_inv in H; destruct H as [-> _];
         first [exact I | apply lift_ok_inv in E1; destruct E1 as [E1 _]; apply arith_num in E1; destruct E1 as [x ->]; exact I]).
  - destruct (val_to_bool a); [apply ret_ok_inv in H; destruct H as [-> _]; exact I|].
    inv_bind H. apply ret_ok_inv in H. destruct H as [-> _]. exact I.
  - destruct (negb (val_to_bool a)); [apply ret_ok_inv in H; destruct H as [-> _]; exact I|].
    inv_bind H. apply ret_ok_inv in H. destruct H as [-> _]. exact I.
  - destruct a as [?|la|?|?]; try (apply lift_ok_inv in H; destruct H; discriminate).
    inv_bind H. destruct a as [?|lb|?|?]; try (apply lift_ok_inv in H; destruct H; discriminate).
    apply ret_ok_inv in H. destruct H as [-> _]. cbn [gv]. apply Forall_forall. intros x Hx.
    apply union_finish_incl in Hx. apply in_app_or in Hx. pose proof (Ha _ _ _ E) as Ga. pose proof (Hb _ _ _ E0) as Gb.
    cbn [gv] in Ga, Gb. rewrite Forall_forall in Ga, Gb. destruct Hx; auto.
Qed.

Lemma okg_xcall name (ms : list (M xvalue)) n : okg (xcall doc name ms n).
Proof.
  intros c v c' H. unfold xcall in H. destruct (resolve_fn (c_ns c) name (len ms)); try discriminate.
  inv_bind H. apply exec_fn_no_nodes in H. destruct v; try exact I. cbn [no_nodes] in H. subst. constructor.
Qed.

Lemma okgl_xpreds evs nodes : Forall G nodes -> okgl (xpreds evs nodes).
Proof.
  intros Hn c l c' H. apply (xpreds_sub (fun _ _ => True)) in H. destruct H as [Hi _].
  apply Forall_forall. intros x Hx. rewrite Forall_forall in Hn. apply Hn, Hi, Hx.
Qed.

Lemma okgl_step_sem ax test evs n : pax ax = true -> G n -> okgl (step_sem doc ax test evs n).
Proof.
  intros Hax Gn c l c' H. unfold step_sem in H.
  destruct (G_axis ax n Hax Gn) as [nodes [E Gnodes]]. rewrite E in H. cbn [bind] in H.
  destruct (filter_res (eval_node_test doc (c_ns c) ax test) nodes) as [tested| | |] eqn:Ef; try discriminate.
  apply filter_res_incl in Ef. eapply okgl_xpreds; [|exact H].
  apply Forall_forall. intros x Hx. rewrite Forall_forall in Gnodes. apply Gnodes, Ef.
  unfold axis_sort in Hx. destruct (is_reverse_axis ax); [apply in_rev in Hx|]; apply (proj1 (sort_in doc x tested)); exact Hx.
Qed.

Lemma expand_good s nodes : Forall G nodes -> exists from, expand doc s nodes = Ok from /\ Forall G from.
Proof.
  intros H. destruct s; cbn [expand]; [eauto|].
  apply XPathNav.flat_map_res_ok. intros x Hx. rewrite Forall_forall in H.
  apply (G_axis (AxisName AxDescendantOrSelf) x H_dos (H x Hx)).
Qed.

Definition items_good (items : list (sep * sem_step)) : Prop :=
  Forall (fun i => forall x, G x -> okgl (snd i x)) items.

Lemma okgl_flat_map_m (f : node -> M (list node)) l : (forall x, G x -> okgl (f x)) -> Forall G l -> okgl (flat_map_m f l).
Proof.
  intros Hf Hl c r c' H. apply Forall_forall. intros y Hy.
  destruct (flat_map_m_ok_in f l c r c' H y Hy) as (x & c1 & lx & c2 & Hx & Ef & Hin).
  rewrite Forall_forall in Hl. pose proof (Hf x (Hl x Hx) _ _ _ Ef) as Gl. rewrite Forall_forall in Gl. apply Gl, Hin.
Qed.

Lemma step_dedup_good l : Forall G l -> Forall G (step_dedup doc l).
Proof. intros H. apply Forall_forall. intros x Hx. rewrite Forall_forall in H. apply H. apply (step_dedup_incl doc l [] x Hx). Qed.

Lemma okgl_xstepops items : items_good items -> forall nodes, Forall G nodes -> okgl (xstepops doc items nodes).
Proof.
  induction 1 as [|[s f] t Hf _ IH]; intros nodes Hn c l c' H; cbn [xstepops] in H.
  - apply ret_ok_inv in H. destruct H as [-> _]. exact Hn.
  - inv_bind H. apply lift_ok_inv in E. destruct E as [E _]. destruct (expand_good s nodes Hn) as [from [E' Gf]].
    rewrite E' in E. injection E as <-. inv_bind H. cbn [snd] in Hf.
    pose proof (okgl_flat_map_m f from Hf Gf _ _ _ E) as Ga. eapply IH; [|exact H]. apply step_dedup_good, Ga.
Qed.

Lemma okg_path_sem start first rest :
  okgl start -> (forall x, G x -> okgl (first x)) -> items_good rest -> okg (path_sem doc start first rest).
Proof.
  intros Hs Hf Hr c v c' H. unfold path_sem in H. inv_bind H. inv_bind H. apply ret_ok_inv in H. destruct H as [-> _].
  cbn [gv]. apply Forall_forall. intros y Hy. apply union_finish_incl in Hy. apply (proj1 (sort_in doc y _)) in Hy.
  assert (Gl : Forall G a0).
  { eapply (okgl_flat_map_m (fun x => ns <- first x ;; xstepops doc rest ns) a); [|eapply Hs; exact E|exact E0].
    intros x Gx c2 l c2' H2. inv_bind H2. eapply okgl_xstepops; [exact Hr| |exact H2]. eapply Hf; [exact Gx|exact E1]. }
  rewrite Forall_forall in Gl. apply Gl, Hy.
Qed.

Lemma okgl_xstep (s : xstep) : step_axes xpa (xaxes xpa) s = true -> forall n, G n -> okgl (xstepf doc s n).
Proof.
  destruct s as [ax t preds| |]; cbn [step_axes]; intros H n Gn; unfold xstepf; cbn [xstep_with].
  - apply andb_prop in H. destruct H as [H1 _]. apply okgl_step_sem; [apply H_conc, H1|exact Gn].
  - intros c l c' E. apply ret_ok_inv in E. destruct E as [-> _]. constructor; [exact Gn|constructor].
  - intros c l c' E. apply ret_ok_inv in E. destruct E as [-> _]. destruct (parent_node doc n) as [p|] eqn:Ep; cbn [opt_list]; [|constructor].
    constructor; [|constructor]. apply (G_parent n p Gn Ep).
Qed.

Lemma xrest_good rest : forallb (fun x : sep * xstep => let (_, s) := x in step_axes xpa (xaxes xpa) s) rest = true -> items_good (xrest doc rest).
Proof.
  intros H. unfold items_good, xrest. apply Forall_map. apply Forall_forall. intros [s y] Hy x Gx. cbn [snd].
  rewrite forallb_forall in H. apply (okgl_xstep y (H (s, y) Hy) x Gx).
Qed.

Theorem xeval_closed : forall a, xaxes xpa a = true -> forall n, G n -> okg (xeval doc a n).
Proof.
  apply (xexpr_ind2 (fun a => xaxes xpa a = true -> forall n, G n -> okg (xeval doc a n))).
  - intros o a b Ha Hb H n Gn. cbn [xaxes] in H. apply andb_prop in H. destruct H as [H1 H2]. cbn [xeval].
    apply okg_xbinop; [apply Ha|apply Hb]; assumption.
  - intros a Ha H n Gn c v c' E. cbn [xeval] in E. inv_bind E. apply lift_ok_inv in E. destruct E as [E _].
    apply neg_value_num in E. destruct E as [x ->]. exact I.
  - intros s _ n _ c v c' E. apply ret_ok_inv in E. destruct E as [-> _]. exact I.
  - intros s _ n _ c v c' E. cbn [xeval] in E. destruct (rust_parse_f64 s); [|discriminate]. apply ret_ok_inv in E. destruct E as [-> _]. exact I.
  - intros q _ n _ c v c' E. cbn [xeval] in E. unfold xvar in E. destruct (expanded_name (c_ns c) (conc_qname q)) as [[[? ?] ?]| | |]; discriminate.
  - intros f args _ _ n _. cbn [xeval]. apply okg_xcall.
  - intros a Ha H n Gn. cbn [xeval]. apply Ha; assumption.
  - intros p preds Hp _ H n Gn. cbn [xaxes] in H. apply andb_prop in H. destruct H as [H1 H2]. cbn [xeval].
    destruct preds as [|q t]; [apply Hp; assumption|]. intros c v c' E. inv_bind E.
    destruct a as [?|l|?|?]; try (apply lift_ok_inv in E; destruct E; discriminate).
    inv_bind E. apply ret_ok_inv in E. destruct E as [-> _]. cbn [gv]. eapply okgl_xpreds; [|exact E1].
    apply (Hp H1 n Gn _ _ _ E0).
  - intros _ n Gn c v c' E. apply ret_ok_inv in E. destruct E as [-> _]. cbn [gv]. apply G_root_of, Gn.
  - intros st first rest Hst _ _ H n Gn. cbn [xaxes] in H. apply andb_prop in H. destruct H as [H12 H3].
    apply andb_prop in H12. destruct H12 as [H1 H2]. cbn [xeval].
    pose proof (okgl_xstep first H2) as Gf. pose proof (xrest_good rest H3) as Gr.
    destruct st as [|s|f s]; cbn [start_all] in Hst.
    + apply (okg_path_sem _ (xstepf doc first) (xrest doc rest)); [|exact Gf|exact Gr].
      intros c l c' E. apply ret_ok_inv in E. destruct E as [-> _]. constructor; [exact Gn|constructor].
    + apply (okg_path_sem _ (xstepf doc first) (xrest doc rest)); [|exact Gf|exact Gr].
      intros c l c' E. apply lift_ok_inv in E. destruct E as [E _].
      destruct (expand_good s (root_of doc n) (G_root_of n Gn)) as [from [E' Gl]]. rewrite E' in E. injection E as <-. exact Gl.
    + intros c v c' E. inv_bind E. destruct a as [?|fl|?|?]; try (apply lift_ok_inv in E; destruct E; discriminate).
      pose proof (Hst H1 n Gn _ _ _ E0) as Gfl. cbn [gv] in Gfl.
      revert E. apply (okg_path_sem _ (xstepf doc first) (xrest doc rest)); [|exact Gf|exact Gr].
      intros c2 l c2' E. apply lift_ok_inv in E. destruct E as [E _].
      destruct (expand_good s fl Gfl) as [from [E' Gl]]. rewrite E' in E. injection E as <-. exact Gl.
Qed.

End Closed.

(** ** instance 1: good nodes (rows that are not namespace nodes) of a [DocInv] table, no namespace axis *)
Section Good.
Variable doc : xdoc.
Hypothesis Hinv : DocInv doc.

Lemma conc_axis_nons a : nsfree a = true -> not_ns_axis (conc_axis a) = true.
Proof. destruct a as [[]| |]; intros H; try discriminate; reflexivity. Qed.

Lemma root_of_good n : good doc n -> Forall (good doc) (root_of doc n).
Proof.
  intros Gn. unfold root_of. destruct (kind doc n); try (constructor; [exact Gn|constructor]);
    unfold owner_document; destruct (kind doc n); cbn [opt_list]; try constructor; try constructor; apply (good_root doc Hinv).
Qed.

Theorem xeval_good : forall a, xnons a = true -> forall n, good doc n -> okg (good doc) (xeval doc a n).
Proof.
  apply (xeval_closed doc (good doc) not_ns_axis nsfree (good_axis doc Hinv) (good_parent doc Hinv) root_of_good conc_axis_nons eq_refl).
Qed.

End Good.

(** ** instance 2: all rows of a well-formed table, every axis *)
Section Valid.
Variable doc : xdoc.
Hypothesis Hwf : XPathNav.DocWf doc.

Lemma root_of_valid n : XPathNav.valid doc n -> Forall (XPathNav.valid doc) (root_of doc n).
Proof.
  intros Vn. unfold root_of. destruct (kind doc n); try (constructor; [exact Vn|constructor]);
    unfold owner_document; destruct (kind doc n); cbn [opt_list]; try constructor; try constructor; apply (XPathNav.wf_root doc Hwf).
Qed.

Theorem xeval_valid : forall a n, XPathNav.valid doc n -> okg (XPathNav.valid doc) (xeval doc a n).
Proof.
  intros a. apply (xeval_closed doc (XPathNav.valid doc) any_axis anyax (XPathTotal.valid_axis doc Hwf) (XPathTotal.valid_parent doc Hwf)
                     root_of_valid (fun _ _ => eq_refl) eq_refl a (xaxes_any a)).
Qed.

End Valid.
