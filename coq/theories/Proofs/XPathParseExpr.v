(** * Round trip through the XPath expression grammar: operators and primaries (C08, rung 1).

    For every derivable tree [a] built from binary operators, unary minus_p, literals, numbers,
    variable references, function calls and parentheses, every white-space choice [w] and every
    continuation [k] that cannot continue the expression: the production of level [n <= level a]
    of the REGENERATED grammar parses [spell_surface a w ++ k] up to [k], and the tree it returns
    is interpreted by [ParseActionsXPath.act] as a value whose abstraction is [a] itself.
    Precedence and left associativity of the eight operator levels are corollaries. *)
From Coq Require Import List NArith Arith Lia Bool.
From XmlRs Require Import Base.CPred Spec.XmlChars Spec.XPathSyntax Model.Peg Model.XPathAst
  Model.ParseActionsXPath Model.XPathAstAbs Gen.GrammarXPathGen
  Proofs.XPathParseBase Proofs.XPathParseProds Proofs.XPathParseLex Proofs.XPathParseAct
  Proofs.XPathParseFollow Proofs.XPathParseChains.
Import ListNotations.
Local Open Scope N_scope.

(** ** the nine levels *)
Definition Top0 := TopG nt_or_expr VOr abs_or 0.
Definition Top1 := TopG nt_and_expr VAnd abs_and 1.
Definition Top2 := TopG nt_equality_expr VEq abs_eq 2.
Definition Top3 := TopG nt_relation_expr VRel abs_rel 3.
Definition Top4 := TopG nt_additive_expr VAdd abs_add 4.
Definition Top5 := TopG nt_multiplicative_expr VMul abs_mul 5.
Definition Top6 := TopG nt_unary_expr VUnary abs_unary 6.
Definition Top7 := TopG nt_union_expr VUnion abs_union 7.
Definition Top8 := TopG nt_path_expr VPath abs_path 8.

Definition alts_eq : pexpr := Alt (Tag [61]) (Tag [33;61]).
Definition alts_rel : pexpr := Alt (Tag [60;61]) (Alt (Tag [62;61]) (Alt (Tag [60]) (Tag [62]))).
Definition alts_add : pexpr := Alt (Tag [43]) (Tag [45]).
Definition alts_mul : pexpr := Alt (Tag [42]) (Alt (Tag [100;105;118]) (Tag [109;111;100])).

Definition Chain0 := ChainB 0 nt_and_expr BOr and_expr and_list VAnd abs_and to_ands abs_ands.
Definition Chain1 := ChainB 1 nt_equality_expr BAnd eq_expr eq_list VEq abs_eq to_eqs abs_eqs.
Definition Chain2 := ChainA 2 nt_relation_expr L_model_EqualityOperator_from alts_eq rel_expr eqop_list VRel abs_rel to_eqops abs_eqops.
Definition Chain3 := ChainA 3 nt_additive_expr L_model_RelationalOperator_from alts_rel add_expr relop_list VAdd abs_add to_relops abs_relops.
Definition Chain4 := ChainA 4 nt_multiplicative_expr L_model_AdditiveOperator_from alts_add mul_expr addop_list VMul abs_mul to_addops abs_addops.
Definition Chain5 := ChainA 5 nt_unary_expr L_model_MultiplicativeOperator_from alts_mul unary_expr mulop_list VUnary abs_unary to_mulops abs_mulops.
Definition Chain7 := ChainB 7 nt_path_expr BUnion path_expr path_list VPath abs_path to_paths abs_paths.

Ltac alts_tac :=
  repeat first [ apply parses_tag_app
               | apply parses_alt_l; apply parses_tag_app
               | apply parses_alt_r; [apply fails_tag; reflexivity|] ].

Lemma level5 a : wfb a = true ->
  (forall o l r, a = XBin o l r -> lvl o = 5%nat -> Chain5 l /\ Top6 r /\ (forall w, first_ok r (spell_surface r w))) ->
  ((6 <= level a)%nat -> Top6 a) -> (5 <= level a)%nat -> Chain5 a /\ Top5 a.
Proof.
  apply (levelA 5 nt_multiplicative_expr nt_unary_expr L_model_MultiplicativeExpr_from
           L_model_MultiplicativeOperator_from alts_mul prod_multiplicative_expr
           unary_expr mulop_list mul_expr mul_op VUnary VMul VMulOp abs_unary abs_mul abs_mul_op
           to_mulops abs_mulops MulopNil snoc_mulop EMul).
  - reflexivity.
  - intros o Ho. destruct o; try discriminate; eexists; split; reflexivity.
  - reflexivity.
  - reflexivity.
  - apply to_mulops_snoc.
  - apply abs_mulops_snoc.
  - reflexivity.
  - reflexivity.
  - reflexivity.
  - intros o rest Ho _. destruct o; try discriminate; unfold alts_mul; cbn [binop_text]; alts_tac.
  - intros k Hk. unfold alts_mul. repeat apply fails_alt; apply fails_tag.
    + apply (Hk BMul). cbn. lia.
    + apply (Hk BDiv). cbn. lia.
    + apply (Hk BMod). cbn. lia.
  - lia.
Qed.

Lemma level4 a : wfb a = true ->
  (forall o l r, a = XBin o l r -> lvl o = 4%nat -> Chain4 l /\ Top5 r /\ (forall w, first_ok r (spell_surface r w))) ->
  ((5 <= level a)%nat -> Top5 a) -> (4 <= level a)%nat -> Chain4 a /\ Top4 a.
Proof.
  apply (levelA 4 nt_additive_expr nt_multiplicative_expr L_model_AdditiveExpr_from
           L_model_AdditiveOperator_from alts_add prod_additive_expr
           mul_expr addop_list add_expr add_op VMul VAdd VAddOp abs_mul abs_add abs_add_op
           to_addops abs_addops AddopNil snoc_addop EAdd).
  - reflexivity.
  - intros o Ho. destruct o; try discriminate; eexists; split; reflexivity.
  - reflexivity.
  - reflexivity.
  - apply to_addops_snoc.
  - apply abs_addops_snoc.
  - reflexivity.
  - reflexivity.
  - reflexivity.
  - intros o rest Ho _. destruct o; try discriminate; unfold alts_add; cbn [binop_text]; alts_tac.
  - intros k Hk. unfold alts_add. repeat apply fails_alt; apply fails_tag.
    + apply (Hk BAdd). cbn. lia.
    + apply (Hk BSub). cbn. lia.
  - lia.
Qed.

Lemma prefix_61_cons c (rest : str) : prefix [61] rest = None -> prefix [c; 61] (c :: rest) = None.
Proof. intros H. cbn [prefix]. rewrite N.eqb_refl. exact H. Qed.

Lemma level3 a : wfb a = true ->
  (forall o l r, a = XBin o l r -> lvl o = 3%nat -> Chain3 l /\ Top4 r /\ (forall w, first_ok r (spell_surface r w))) ->
  ((4 <= level a)%nat -> Top4 a) -> (3 <= level a)%nat -> Chain3 a /\ Top3 a.
Proof.
  apply (levelA 3 nt_relation_expr nt_additive_expr L_model_RelationalExpr_from
           L_model_RelationalOperator_from alts_rel prod_relation_expr
           add_expr relop_list rel_expr rel_op VAdd VRel VRelOp abs_add abs_rel abs_rel_op
           to_relops abs_relops RelopNil snoc_relop ERel).
  - reflexivity.
  - intros o Ho. destruct o; try discriminate; eexists; split; reflexivity.
  - reflexivity.
  - reflexivity.
  - apply to_relops_snoc.
  - apply abs_relops_snoc.
  - reflexivity.
  - reflexivity.
  - reflexivity.
  - intros o rest Ho He. destruct o; try discriminate; unfold alts_rel; cbn [binop_text].
    + (* < *) apply parses_alt_r; [apply fails_tag, (prefix_61_cons 60), He|].
      apply parses_alt_r; [apply fails_tag; reflexivity|]. apply parses_alt_l, parses_tag_app.
    + (* > *) apply parses_alt_r; [apply fails_tag; reflexivity|].
      apply parses_alt_r; [apply fails_tag, (prefix_61_cons 62), He|].
      apply parses_alt_r; [apply fails_tag; reflexivity|]. apply parses_tag_app.
    + (* <= *) apply parses_alt_l, parses_tag_app.
    + (* >= *) apply parses_alt_r; [apply fails_tag; reflexivity|]. apply parses_alt_l, parses_tag_app.
  - intros k Hk. unfold alts_rel. repeat apply fails_alt; apply fails_tag.
    + apply (Hk BLe). cbn. lia.
    + apply (Hk BGe). cbn. lia.
    + apply (Hk BLt). cbn. lia.
    + apply (Hk BGt). cbn. lia.
  - lia.
Qed.

Lemma level2 a : wfb a = true ->
  (forall o l r, a = XBin o l r -> lvl o = 2%nat -> Chain2 l /\ Top3 r /\ (forall w, first_ok r (spell_surface r w))) ->
  ((3 <= level a)%nat -> Top3 a) -> (2 <= level a)%nat -> Chain2 a /\ Top2 a.
Proof.
  apply (levelA 2 nt_equality_expr nt_relation_expr L_model_EqualityExpr_from
           L_model_EqualityOperator_from alts_eq prod_equality_expr
           rel_expr eqop_list eq_expr eq_op VRel VEq VEqOp abs_rel abs_eq abs_eq_op
           to_eqops abs_eqops EqopNil snoc_eqop EEq).
  - reflexivity.
  - intros o Ho. destruct o; try discriminate; eexists; split; reflexivity.
  - reflexivity.
  - reflexivity.
  - apply to_eqops_snoc.
  - apply abs_eqops_snoc.
  - reflexivity.
  - reflexivity.
  - reflexivity.
  - intros o rest Ho _. destruct o; try discriminate; unfold alts_eq; cbn [binop_text]; alts_tac.
  - intros k Hk. unfold alts_eq. repeat apply fails_alt; apply fails_tag.
    + apply (Hk BEq). cbn. lia.
    + apply (Hk BNe). cbn. lia.
  - lia.
Qed.

Lemma level1 a : wfb a = true ->
  (forall o l r, a = XBin o l r -> lvl o = 1%nat -> Chain1 l /\ Top2 r /\ (forall w, first_ok r (spell_surface r w))) ->
  ((2 <= level a)%nat -> Top2 a) -> (1 <= level a)%nat -> Chain1 a /\ Top1 a.
Proof.
  apply (levelB 1 nt_and_expr nt_equality_expr L_model_AndExpr_from BAnd eq_refl
           ltac:(intros o; destruct o; cbn; intros; try reflexivity; discriminate)
           prod_and_expr eq_expr eq_list and_expr VEq VAnd abs_eq abs_and to_eqs abs_eqs EqNil snoc_eq EAnd).
  - reflexivity.
  - reflexivity.
  - reflexivity.
  - apply to_eqs_snoc.
  - apply abs_eqs_snoc.
  - reflexivity.
  - reflexivity.
  - lia.
Qed.

Lemma level0 a : wfb a = true ->
  (forall o l r, a = XBin o l r -> lvl o = 0%nat -> Chain0 l /\ Top1 r /\ (forall w, first_ok r (spell_surface r w))) ->
  ((1 <= level a)%nat -> Top1 a) -> (0 <= level a)%nat -> Chain0 a /\ Top0 a.
Proof.
  apply (levelB 0 nt_or_expr nt_and_expr L_model_OrExpr_from BOr eq_refl
           ltac:(intros o; destruct o; cbn; intros; try reflexivity; discriminate)
           prod_or_expr and_expr and_list or_expr VAnd VOr abs_and abs_or to_ands abs_ands AndNil snoc_and EOr).
  - reflexivity.
  - reflexivity.
  - reflexivity.
  - apply to_ands_snoc.
  - apply abs_ands_snoc.
  - reflexivity.
  - reflexivity.
  - lia.
Qed.

Lemma level7 a : wfb a = true ->
  (forall o l r, a = XBin o l r -> lvl o = 7%nat -> Chain7 l /\ Top8 r /\ (forall w, first_ok r (spell_surface r w))) ->
  ((8 <= level a)%nat -> Top8 a) -> (7 <= level a)%nat -> Chain7 a /\ Top7 a.
Proof.
  apply (levelB 7 nt_union_expr nt_path_expr L_model_UnionExpr_from BUnion eq_refl
           ltac:(intros o; destruct o; cbn; intros; try reflexivity; discriminate)
           prod_union_expr path_expr path_list union_expr VPath VUnion abs_path abs_union to_paths abs_paths PathNil snoc_path
           (fun e0 l => EUnion (PathCons e0 l))).
  - intros e0 vs. cbn. destruct (to_paths vs); reflexivity.
  - reflexivity.
  - reflexivity.
  - apply to_paths_snoc.
  - apply abs_paths_snoc.
  - reflexivity.
  - reflexivity.
  - lia.
Qed.

(** ** the unary level: many0(terminated(tag("-"), multispace0)) then a union expression *)
Definition minus_p : pexpr := SeqL (Tag [45]) WS.

Definition NegChain (a : xexpr) : Prop :=
  forall w k, ws_ok w = true -> follow 7 k -> lex_follow a k ->
  exists items k0 t7 u,
    steps G_xpath minus_p (spell_surface a w ++ k) items k0 /\ F minus_p k0 /\
    P (NT nt_union_expr) k0 t7 k /\ Forall (fun t => exists s, t = TStr s) items /\
    act t7 = VUnion u /\ N.iter (N.of_nat (length items)) XNeg (abs_union u) = a.

Lemma F_minus (s : str) : prefix [45] s = None -> F minus_p s.
Proof. intros H. apply fails_seq_1, fails_tag, H. Qed.

Lemma first_ok_not_minus a (s k : str) : (7 <= level a)%nat -> first_ok a s -> prefix [45] (s ++ k) = None.
Proof.
  intros Hl Hf. destruct s as [|c s]; [destruct Hf|]. destruct Hf as (_ & _ & H). specialize (H Hl).
  cbn [app prefix]. destruct (N.eqb_spec 45 c) as [<-|]; [contradiction|reflexivity].
Qed.

Lemma first_ok_stops_ws a (s k : str) : first_ok a s -> stops is_ws (s ++ k).
Proof. destruct s as [|c s]; [intros []|]. intros (H & _). exact H. Qed.

Lemma negchain_base a : (7 <= level a)%nat -> (forall w, first_ok a (spell_surface a w)) -> Top7 a -> NegChain a.
Proof.
  intros Hl Hf HT w k Hw Hk Hlex. destruct (HT w k Hw Hk Hlex) as (t & u & HP & Ha & Hab).
  exists [], (spell_surface a w ++ k), t, u. repeat split; try assumption.
  - constructor.
  - apply F_minus. eapply first_ok_not_minus; [exact Hl|apply Hf].
  - constructor.
Qed.

Lemma negchain_step a : (forall w, first_ok a (spell_surface a w)) -> NegChain a -> NegChain (XNeg a).
Proof.
  intros Hf HC w k Hw Hk Hlex. cbn [spell_surface].
  destruct (HC (kid w 0) k (ws_ok_kid _ _ Hw) Hk Hlex) as (items & k0 & t7 & u & Hst & HF & HP & Hall & Ha & Hab).
  exists (TStr [45] :: items), k0, t7, u. repeat split; try assumption.
  - rewrite <- !app_assoc. eapply (steps_cons G_xpath minus_p _ (TStr [45]) (spell_surface a (kid w 0) ++ k)); [|cbn [app length]; rewrite !app_length; lia|exact Hst].
    eapply parses_seql; [apply (parses_tag_app G_xpath [45])|].
    apply P_ws; [apply ws_ok_gap, Hw|]. eapply first_ok_stops_ws, Hf.
  - constructor; [eexists; reflexivity|exact Hall].
  - cbn [length]. rewrite Nat2N.inj_succ, N.iter_succ. now rewrite Hab.
Qed.

Lemma act_strs items : Forall (fun t => exists s, t = TStr s) items ->
  exists vs, act (TList items) = VList vs /\ length vs = length items.
Proof.
  induction 1 as [|t l [s ->] Hl (vs & Hv & Hlen)].
  - exists []. split; reflexivity.
  - exists (VStr s :: vs). split; [|cbn [length]; now rewrite Hlen].
    apply act_list_cons; [reflexivity|reflexivity|exact Hv].
Qed.

Lemma top6_of_negchain a : NegChain a -> Top6 a.
Proof.
  intros HC w k Hw Hk Hlex.
  destruct (HC w k Hw (follow_mono _ _ _ (Nat.le_succ_diag_r 6) Hk) Hlex) as (items & k0 & t7 & u & Hst & HF & HP & Hall & Ha & Hab).
  destruct (act_strs items Hall) as (vs & Hvs & Hlen).
  exists (TMap L_model_UnaryExpr_from (TPair (TList items) t7)), (EUnary (N.of_nat (length items)) u).
  split; [|split].
  - apply parses_nt. rewrite prod_unary_expr. apply parses_map. eapply parses_seq; [|exact HP].
    apply parses_many0; assumption.
  - change (act (TMap L_model_UnaryExpr_from (TPair (TList items) t7)))
      with (apply_label L_model_UnaryExpr_from (act (TPair (TList items) t7))).
    rewrite (act_pair _ _ _ _ Hvs eq_refl Ha eq_refl). cbn. now rewrite Hlen.
  - exact Hab.
Qed.

(** ** the trees covered by this rung, and the residue of the D28 repair *)

(** [helper::take_except] compares case-insensitively: a function name that equals a NodeType up
    to ASCII case (and is not that NodeType: [wf_fname]) is rejected by the repaired parser
    (known finding C08-fname-case) *)
Definition fname_case_ok (f : xqname) : bool :=
  match f with
  | QN None l =>
      negb (ci_reject t_comment l) && negb (ci_reject t_text l)
      && negb (ci_reject t_processing_instruction l) && negb (ci_reject t_node l)
  | _ => true
  end.

(** ** how the spellings of this rung start *)
Lemma digit_facts c : XPathSyntax.is_digit c = true -> is_ws c = false /\ c <> 61 /\ c <> 45 /\ c <> 36 /\ c <> 40 /\ c <> 34 /\ c <> 39.
Proof.
  unfold XPathSyntax.is_digit. intros H. apply andb_true_iff in H. destruct H as [H1 H2].
  apply N.leb_le in H1. apply N.leb_le in H2.
  repeat split; try lia.
  destruct (is_ws c) eqn:E; [|reflexivity]. apply ws_cases in E. lia.
Qed.

Lemma number_hd s : is_number s = true ->
  exists c r, s = c :: r /\ (XPathSyntax.is_digit c = true \/ c = 46).
Proof.
  unfold is_number. rewrite take_while_span.
  pose proof (span_eq XPathSyntax.is_digit s) as Es. pose proof (span_fst_all XPathSyntax.is_digit s) as Hip.
  destruct (span XPathSyntax.is_digit s) as [ip r]. cbn [fst snd] in *.
  destruct ip as [|x ip].
  - destruct r as [|c fp]; [discriminate|]. intros H. apply andb_true_iff in H. destruct H as [H _].
    apply andb_true_iff in H. destruct H as [H _]. apply N.eqb_eq in H. subst c. cbn [app] in Es.
    exists 46, fp. auto.
  - intros _. cbn [forallb] in Hip. apply andb_true_iff in Hip. destruct Hip as [Hx _].
    exists x, (ip ++ r). cbn [app] in Es. auto.
Qed.

Lemma p1_facts c : P1 c = true ->
  is_ws c = false /\ c <> 61 /\ c <> 45 /\ c <> 36 /\ c <> 40 /\ c <> 34 /\ c <> 39 /\ c <> 46 /\ XPathSyntax.is_digit c = false.
Proof.
  intros H. pose proof (p1_not_ws c H) as Hw. pose proof (p1_not_digit_dot c H) as (Hd & H46 & H45).
  pose proof (P1_nc c H) as Hn. unfold ncname_char in Hn. apply andb_true_iff in Hn. destruct Hn as [Hn _].
  repeat split; try assumption; intros ->; vm_compute in Hn; discriminate.
Qed.

Lemma qname_hd q : wf_qname q = true -> exists c r, qname_text q = c :: r /\ P1 c = true.
Proof.
  destruct q as [[p|] l]; cbn [wf_qname qname_text]; intros H.
  - apply andb_true_iff in H. destruct H as [Hp _]. destruct (ncname_split p Hp) as (x & t & -> & Hx & _).
    exists x, (t ++ [58] ++ l). auto.
  - destruct (ncname_split l H) as (x & t & -> & Hx & _). exists x, t. auto.
Qed.

(** ** nothing of the grammar starts with a closing parenthesis *)
Lemma prefix_cons_none a (b s : str) : prefix [a] s = None -> prefix (a :: b) s = None.
Proof.
  destruct s as [|c s]; [reflexivity|]. cbn [prefix]. destruct (N.eqb a c); [|reflexivity].
  intros H; discriminate.
Qed.

Lemma F_function_name (k : str) : stops P1 k -> F (NT nt_function_name) k.
Proof.
  intros Hk. apply fails_nt. rewrite prod_function_name. apply fails_alt.
  - apply fails_map, fails_map, fails_seq_1, F_ncname, Hk.
  - apply fails_map. repeat apply fails_take_except. apply F_ncname, Hk.
Qed.

Lemma F_primary_no_start (k : str) :
  stops P1 k -> stops XPathSyntax.is_digit k -> (forall r, k = 46 :: r -> stops XPathSyntax.is_digit r) ->
  prefix [36] k = None -> prefix [40] k = None -> prefix [34] k = None -> prefix [39] k = None ->
  F (NT nt_primary_expr) k.
Proof.
  intros Hn Hd Hdot H36 H40 H34 H39. apply fails_nt. rewrite prod_primary_expr.
  repeat apply fails_alt.
  - apply fails_map, F_variable, H36.
  - apply fails_map, fails_seq_1, fails_seq_1, fails_tag, H40.
  - apply fails_map, F_literal; assumption.
  - apply fails_map, F_number; assumption.
  - apply fails_map, fails_nt. rewrite prod_function_call. apply fails_map, fails_seq_1, F_function_name, Hn.
Qed.

(** a continuation on which no expression can start: every production from [expr] down fails *)
Definition no_start (k : str) : Prop :=
  stops is_ws k /\ stops P1 k /\ stops XPathSyntax.is_digit k /\
  Forall (fun c => prefix [c] k = None) [36; 40; 34; 39; 45; 46; 47; 42; 64].

Lemma no_start_closer c (k : str) : In c [41; 93; 44] -> no_start (c :: k).
Proof.
  cbn [In]. intros [<-|[<-|[<-|[]]]]; (split; [reflexivity|split; [reflexivity|split; [reflexivity|repeat constructor]]]).
Qed.

Lemma F_axis_name (k : str) : stops P1 k -> F (NT nt_axis_name) k.
Proof.
  intros Hk. apply fails_nt. rewrite prod_axis_name. apply fails_map.
  destruct k as [|c k]; [repeat apply fails_alt; apply fails_tag; reflexivity|].
  cbn [stops] in Hk.
  assert (Hc : forall x r, P1 x = true -> prefix (x :: r) (c :: k) = None).
  { intros x r Hx. cbn [prefix]. destruct (N.eqb_spec x c) as [->|]; [congruence|reflexivity]. }
  repeat apply fails_alt; apply fails_tag; apply Hc; reflexivity.
Qed.

Lemma F_node_type (k : str) : stops P1 k -> F (NT nt_node_type) k.
Proof.
  intros Hk. apply fails_nt. rewrite prod_node_type. apply fails_map.
  destruct k as [|c k]; [repeat apply fails_alt; apply fails_tag; reflexivity|].
  cbn [stops] in Hk.
  assert (Hc : forall x r, P1 x = true -> prefix (x :: r) (c :: k) = None).
  { intros x r Hx. cbn [prefix]. destruct (N.eqb_spec x c) as [->|]; [congruence|reflexivity]. }
  repeat apply fails_alt; apply fails_tag; apply Hc; reflexivity.
Qed.

Lemma F_step_no_start (k : str) : no_start k -> F (NT nt_step) k.
Proof.
  intros (Hws & Hn & Hd & Hall). apply fails_nt. rewrite prod_step.
  inversion Hall as [|? ? H36 Hall1]; subst. inversion Hall1 as [|? ? H40 Hall2]; subst.
  inversion Hall2 as [|? ? H34 Hall3]; subst. inversion Hall3 as [|? ? H39 Hall4]; subst.
  inversion Hall4 as [|? ? H45 Hall5]; subst. inversion Hall5 as [|? ? H46 Hall6]; subst.
  inversion Hall6 as [|? ? H47 Hall7]; subst. inversion Hall7 as [|? ? H42 Hall8]; subst.
  inversion Hall8 as [|? ? H64 _]; subst.
  apply fails_alt; [apply fails_map, fails_tag, prefix_cons_none, H46|].
  apply fails_alt; [apply fails_map, fails_tag, H46|].
  apply fails_map. eapply fails_seq_2.
  - (* axis_specifier answers the abbreviated (empty) axis *)
    apply parses_nt. rewrite prod_axis_specifier. apply parses_alt_r.
    + apply fails_map, fails_seq_1, F_axis_name, Hn.
    + apply parses_map, parses_opt_none, fails_tag, H64.
  - apply fails_seq_1. eapply fails_seq_2; [apply P_ws_nil, Hws|].
    apply fails_nt. rewrite prod_node_test. repeat apply fails_alt.
    + apply fails_map, fails_seq_1, fails_seq_1, fails_tag.
      destruct k as [|c k]; [reflexivity|]. cbn [stops] in Hn. cbn [prefix].
      destruct (N.eqb_spec 112 c) as [<-|]; [discriminate|reflexivity].
    + apply fails_map, fails_seq_1, F_node_type, Hn.
    + apply fails_map, fails_nt. rewrite prod_name_test. repeat apply fails_alt.
      * apply fails_map, fails_tag, H42.
      * apply fails_map, fails_seq_1, F_ncname, Hn.
      * apply fails_map, F_qname, Hn.
Qed.

Lemma F_path_no_start (k : str) : no_start k -> F (NT nt_path_expr) k.
Proof.
  intros Hns. pose proof Hns as (Hws & Hn & Hd & Hall). apply fails_nt. rewrite prod_path_expr.
  inversion Hall as [|? ? H36 Hall1]; subst. inversion Hall1 as [|? ? H40 Hall2]; subst.
  inversion Hall2 as [|? ? H34 Hall3]; subst. inversion Hall3 as [|? ? H39 Hall4]; subst.
  inversion Hall4 as [|? ? H45 Hall5]; subst. inversion Hall5 as [|? ? H46 Hall6]; subst.
  inversion Hall6 as [|? ? H47 _]; subst.
  repeat apply fails_alt.
  - apply fails_map, fails_seq_1, fails_nt. rewrite prod_filter_expr. apply fails_map, fails_seq_1.
    apply F_primary_no_start; try assumption.
    intros r ->. discriminate.
  - apply fails_map, fails_seq_1, fails_seq_1, fails_map, fails_alt; apply fails_tag; [apply prefix_cons_none|]; exact H47.
  - apply fails_map, fails_nt. rewrite prod_relative_location_path. apply fails_map, fails_seq_1, F_step_no_start, Hns.
  - apply fails_map, fails_tag, H47.
Qed.

Lemma F_expr_no_start (k : str) : no_start k -> F (NT nt_expr) k.
Proof.
  intros Hns. pose proof Hns as (Hws & Hn & Hd & Hall).
  assert (H45 : prefix [45] k = None).
  { do 4 (inversion Hall as [|? ? _ Hall']; subst; clear Hall; rename Hall' into Hall). inversion Hall; assumption. }
  apply fails_nt. rewrite prod_expr.
  apply fails_nt. rewrite prod_or_expr. apply fails_map, fails_sepby1.
  apply fails_nt. rewrite prod_and_expr. apply fails_map, fails_sepby1.
  apply fails_nt. rewrite prod_equality_expr. apply fails_map, fails_seq_1.
  apply fails_nt. rewrite prod_relation_expr. apply fails_map, fails_seq_1.
  apply fails_nt. rewrite prod_additive_expr. apply fails_map, fails_seq_1.
  apply fails_nt. rewrite prod_multiplicative_expr. apply fails_map, fails_seq_1.
  apply fails_nt. rewrite prod_unary_expr. apply fails_map.
  eapply fails_seq_2.
  - apply parses_many0; [constructor|]. apply fails_seq_1, fails_tag, H45.
  - apply fails_nt. rewrite prod_union_expr. apply fails_map, fails_sepby1, F_path_no_start, Hns.
Qed.

(** ** primaries *)
Definition PrimOK (a : xexpr) : Prop :=
  forall w k, ws_ok w = true -> lex_follow a k ->
  exists tp p, P (NT nt_primary_expr) (spell_surface a w ++ k) tp k /\ act tp = VPrimary p /\ abs_primary p = a.

Lemma top8_of_primary a : PrimOK a -> Top8 a.
Proof.
  intros H w k Hw Hk Hlex. destruct (H w k Hw Hlex) as (tp & p & HP & Ha & Hab).
  destruct Hk as [_ [H47 H91]].
  exists (TMap L_closure_dae0d720 (TPair (TMap L_model_FilterExpr_from (TPair tp (TList []))) TNone)),
         (PFilter (EFilter p ExprNil)).
  split; [|split].
  - apply parses_nt. rewrite prod_path_expr. apply parses_alt_l, parses_map. eapply parses_seq.
    + apply parses_nt. rewrite prod_filter_expr. apply parses_map. eapply parses_seq; [exact HP|].
      apply parses_many0; [constructor|]. eapply fails_seq_2; [apply P_ws_any|].
      apply fails_nt. rewrite prod_predicate. apply fails_seq_1, fails_seq_1, fails_tag, H91.
    + apply parses_opt_none, fails_seq_1. eapply fails_seq_2; [apply P_ws_any|].
      apply fails_seq_1, fails_map, fails_alt; apply fails_tag; [apply prefix_cons_none|]; exact H47.
  - cbn [act]. rewrite Ha. reflexivity.
  - exact Hab.
Qed.

Lemma prim_var q : wf_qname q = true -> PrimOK (XVar q).
Proof.
  intros Hq w k Hw Hlex. cbn [spell_surface]. destruct Hlex as (Hn & _). destruct (Hn eq_refl) as (Hns & _).
  exists (TMap L_model_PrimaryExpr_from (qname_tree q)), (PrimVariable (mq q)). split; [|split].
  - apply parses_nt. rewrite prod_primary_expr. apply parses_alt_l, parses_map.
    rewrite <- app_assoc. apply P_variable; assumption.
  - cbn [act]. rewrite act_qname_tree. reflexivity.
  - cbn. now rewrite abs_mq.
Qed.

Lemma prim_lit s : wf_lit s = true -> PrimOK (XLit s).
Proof.
  intros Hs w k Hw Hlex. cbn [spell_surface].
  exists (TMap L_model_PrimaryExpr_from (TStr s)), (PrimLiteral s). split; [|split]; [|reflexivity|reflexivity].
  apply parses_nt. rewrite prod_primary_expr.
  destruct (quote_of_cases (wflag w) s Hs) as [Hq _].
  apply parses_alt_r; [apply fails_map, F_variable; unfold spell_lit; destruct Hq as [-> | ->]; reflexivity|].
  apply parses_alt_r; [apply fails_map, fails_seq_1, fails_seq_1, fails_tag; unfold spell_lit; destruct Hq as [-> | ->]; reflexivity|].
  apply parses_alt_l, parses_map, P_literal, Hs.
Qed.

Lemma prim_num s : is_number s = true -> PrimOK (XNum s).
Proof.
  intros Hs w k Hw Hlex. cbn [spell_surface]. destruct Hlex as (_ & Hnum & _). specialize (Hnum s eq_refl).
  exists (TMap L_model_PrimaryExpr_number (TStr s)), (PrimNumber s). split; [|split]; [|reflexivity|reflexivity].
  apply parses_nt. rewrite prod_primary_expr.
  destruct (number_hd s Hs) as (c & r & E & Hc).
  assert (Hfacts : c <> 36 /\ c <> 40 /\ c <> 34 /\ c <> 39).
  { destruct Hc as [Hc| ->]; [destruct (digit_facts c Hc) as (_ & _ & _ & ? & ? & ? & ?); auto|repeat split; discriminate]. }
  destruct Hfacts as (H36 & H40 & H34 & H39).
  assert (Hp : forall x, c <> x -> prefix [x] (s ++ k) = None).
  { intros x Hx. rewrite E. cbn [app prefix]. destruct (N.eqb_spec x c) as [->|]; [contradiction|reflexivity]. }
  apply parses_alt_r; [apply fails_map, F_variable, Hp, H36|].
  apply parses_alt_r; [apply fails_map, fails_seq_1, fails_seq_1, fails_tag, Hp, H40|].
  apply parses_alt_r; [apply fails_map, F_literal; apply Hp; assumption|].
  apply parses_alt_l, parses_map, P_number; assumption.
Qed.

Lemma prim_paren a : (forall w, first_ok a (spell_surface a w)) -> Top0 a -> PrimOK (XParen a).
Proof.
  intros Hf HT w k Hw Hlex. cbn [spell_surface]. rewrite <- !app_assoc.
  assert (Hg0 : forallb is_ws (gap w 0) = true) by (apply ws_ok_gap, Hw).
  assert (Hg1 : forallb is_ws (gap w 1) = true) by (apply ws_ok_gap, Hw).
  destruct (HT (kid w 0) (gap w 1 ++ [41] ++ k)) as (t & e & HP & Ha & Hab).
  { apply ws_ok_kid, Hw. }
  { apply follow_closer; [exact Hg1|cbn; auto]. }
  { apply lex_follow_closer; [exact Hg1|cbn; auto]. }
  exists (TMap L_model_PrimaryExpr_from t), (PrimExpr e). split; [|split].
  - apply parses_nt. rewrite prod_primary_expr.
    apply parses_alt_r; [apply fails_map, F_variable; reflexivity|].
    apply parses_alt_l, parses_map.
    eapply parses_seqr.
    + eapply parses_seq; [apply (parses_tag_app G_xpath [40])|]. apply P_ws; [exact Hg0|].
      eapply first_ok_stops_ws, Hf.
    + eapply parses_seql.
      * apply parses_nt. rewrite prod_expr. exact HP.
      * eapply parses_seq; [apply P_ws; [exact Hg1|reflexivity]|]. apply (parses_tag_app G_xpath [41]).
  - cbn [act]. rewrite Ha. reflexivity.
  - cbn. now rewrite Hab.
Qed.

(** arguments of a function call: separated_list0(tuple((ws, ',', ws)), argument) *)
Lemma P_args_tail (args : list xexpr) :
  (forall x, In x args -> Top0 x /\ (forall w, first_ok x (spell_surface x w))) ->
  forall ws (g2 k : str), forallb ws_ok ws = true -> forallb is_ws g2 = true ->
  exists items es,
    ssteps G_xpath (sepB [44]) (NT nt_argument)
      (spell_args_with spell_surface false args ws ++ g2 ++ [41] ++ k) items (g2 ++ [41] ++ k) /\
    act (TList items) = VList (map VOr es) /\ map abs_or es = args.
Proof.
  induction args as [|x args IH]; intros Hall ws g2 k Hws Hg2.
  - exists [], []. cbn [spell_args_with app]. repeat split. constructor.
  - cbn [spell_args_with]. set (wx := hd wdef ws).
    assert (Hwx : ws_ok wx = true) by (apply ws_ok_hd, Hws).
    destruct (Hall x (or_introl eq_refl)) as (HTx & Hfx).
    destruct (IH (fun y Hy => Hall y (or_intror Hy)) (tl ws) g2 k (ws_ok_tl _ Hws) Hg2) as (items & es & Hst & Hact & Hmap).
    set (rest := spell_args_with spell_surface false args (tl ws) ++ g2 ++ [41] ++ k) in *.
    assert (Hrest : exists (g : str) c (r : str), rest = g ++ c :: r /\ forallb is_ws g = true /\ In c [41; 93; 44]).
    { unfold rest. destruct args as [|y args'].
      - cbn [spell_args_with app]. exists g2, 41, k. cbn; auto.
      - cbn [spell_args_with]. rewrite <- !app_assoc. eexists (gap (hd wdef (tl ws)) 0), 44, _.
        split; [reflexivity|]. split; [apply ws_ok_gap, ws_ok_hd, ws_ok_tl, Hws|cbn; auto]. }
    destruct Hrest as (g & c & r & Erest & Hg & Hc).
    destruct (HTx (kid wx 0) rest) as (t & e & HP & Ha & Hab).
    { apply ws_ok_kid, Hwx. }
    { rewrite Erest. apply follow_closer; assumption. }
    { rewrite Erest. apply lex_follow_closer; [assumption|cbn [In] in *; tauto]. }
    exists (t :: items), (e :: es). rewrite <- !app_assoc. fold rest. split; [|split].
    + econstructor; [| |apply parses_nt; rewrite prod_argument; apply parses_nt; rewrite prod_expr; exact HP|exact Hst].
      * apply P_sepB; [apply ws_ok_gap, Hwx|apply ws_ok_gap, Hwx|reflexivity|].
        eapply first_ok_stops_ws, Hfx.
      * rewrite !app_length. cbn [length]. lia.
    + cbn [map]. apply act_list_cons; [exact Ha|reflexivity|exact Hact].
    + cbn [map]. now rewrite Hab, Hmap.
Qed.

Definition fname_tree (f : xqname) : tree :=
  match f with
  | QN None l => TMap L_QName_from (TStr l)
  | QN (Some p) l => TMap L_QName_from (TMap L_PrefixedName_from (TPair (TStr p) (TStr l)))
  end.

Lemma act_fname_tree f : act (fname_tree f) = VQName (mq f).
Proof. destruct f as [[p|] l]; reflexivity. Qed.

Lemma P_function_name (f : xqname) (k : str) :
  wf_fname f = true -> fname_case_ok f = true -> name_stop k ->
  P (NT nt_function_name) (qname_text f ++ k) (fname_tree f) k.
Proof.
  intros Hf Hc Hk. unfold wf_fname in Hf. apply andb_true_iff in Hf. destruct Hf as [Hq _].
  apply parses_nt. rewrite prod_function_name.
  destruct f as [[p|] l]; cbn [wf_qname qname_text fname_tree fname_case_ok] in *.
  - apply andb_true_iff in Hq. destruct Hq as [Hp Hl].
    apply parses_alt_l, parses_map, parses_map. rewrite <- !app_assoc. eapply parses_seq.
    + apply P_ncname; [exact Hp|]. apply colon_stops_nc.
    + eapply parses_seqr; [apply (parses_tag_app G_xpath [58])|].
      apply P_ncname; [exact Hl|]. apply name_stop_nc, Hk.
  - rewrite !andb_true_iff, !negb_true_iff in Hc. destruct Hc as [[[C1 C2] C3] C4].
    apply parses_alt_r.
    + apply fails_map, fails_map. eapply fails_seq_2.
      * apply P_ncname; [exact Hq|]. apply name_stop_nc, Hk.
      * apply fails_seq_1, fails_tag, name_stop_colon, Hk.
    + apply parses_map.
      pose proof (P_ncname l k Hq (name_stop_nc _ Hk)) as H0.
      pose proof (parses_take_except G_xpath _ [99;111;109;109;101;110;116] _ _ _ H0) as H1.
      rewrite consumed_app in H1. specialize (H1 C1).
      pose proof (parses_take_except G_xpath _ [116;101;120;116] _ _ _ H1) as H2.
      rewrite consumed_app in H2. specialize (H2 C2).
      pose proof (parses_take_except G_xpath _ [112;114;111;99;101;115;115;105;110;103;45;105;110;115;116;114;117;99;116;105;111;110] _ _ _ H2) as H3.
      rewrite consumed_app in H3. specialize (H3 C3).
      pose proof (parses_take_except G_xpath _ [110;111;100;101] _ _ _ H3) as H4.
      rewrite consumed_app in H4. exact (H4 C4).
Qed.

Lemma prim_call f args :
  wf_fname f = true -> fname_case_ok f = true ->
  (forall x, In x args -> Top0 x /\ (forall w, first_ok x (spell_surface x w))) ->
  PrimOK (XCall f args).
Proof.
  intros Hf Hc Hall w k Hw Hlex. cbn [spell_surface]. rewrite <- !app_assoc.
  assert (Hg0 : forallb is_ws (gap w 0) = true) by (apply ws_ok_gap, Hw).
  assert (Hg1 : forallb is_ws (gap w 1) = true) by (apply ws_ok_gap, Hw).
  assert (Hg2 : forallb is_ws (gap w 2) = true) by (apply ws_ok_gap, Hw).
  assert (Hws : forallb ws_ok (kids_from w 0) = true) by (apply ws_ok_kids_from, Hw).
  pose proof Hf as Hf'. unfold wf_fname in Hf'. apply andb_true_iff in Hf'. destruct Hf' as [Hq _].
  destruct (qname_hd f Hq) as (c & r & Ec & Hc1). destruct (p1_facts c Hc1) as (_ & _ & _ & H36 & H40 & H34 & H39 & H46 & Hdig).
  assert (Hp : forall x (y : str), c <> x -> prefix [x] (qname_text f ++ y) = None).
  { intros x y Hx. rewrite Ec. cbn [app prefix]. destruct (N.eqb_spec x c) as [->|]; [contradiction|reflexivity]. }
  destruct args as [|x args].
  - (* f() *)
    exists (TMap L_model_PrimaryExpr_from (TMap L_model_FunctionCall_from (TPair (fname_tree f) (TList [])))),
           (PrimFunction (mq f) ExprNil).
    split; [|split].
    + apply parses_nt. rewrite prod_primary_expr.
      apply parses_alt_r; [apply fails_map, F_variable, Hp, H36|].
      apply parses_alt_r; [apply fails_map, fails_seq_1, fails_seq_1, fails_tag, Hp, H40|].
      apply parses_alt_r; [apply fails_map, F_literal; apply Hp; assumption|].
      apply parses_alt_r.
      { apply fails_map, F_number.
        - rewrite Ec. cbn [app stops]. exact Hdig.
        - intros r' E. rewrite Ec in E. cbn [app] in E. injection E as E _. contradiction. }
      apply parses_map, parses_nt. rewrite prod_function_call. apply parses_map.
      eapply parses_seq.
      * apply P_function_name; [exact Hf|exact Hc|]. apply punct_name_stop.
        destruct (gap w 0) as [|y g]; [cbn; tauto|apply ws_hd_punct; [discriminate|exact Hg0]].
      * cbn [spell_args_with app].
        eapply parses_seqr.
        -- eapply parses_seq; [apply P_ws; [exact Hg0|reflexivity]|].
           eapply parses_seq; [apply (parses_tag_app G_xpath [40])|].
           rewrite app_assoc. apply P_ws; [rewrite forallb_app; apply andb_true_iff; split; assumption|reflexivity].
        -- eapply parses_seql.
           ++ apply parses_sepby0_nil. apply fails_nt. rewrite prod_argument. apply F_expr_no_start, no_start_closer. cbn; auto.
           ++ eapply parses_seq; [apply P_ws_nil; reflexivity|]. apply (parses_tag_app G_xpath [41]).
    + cbn [act]. rewrite act_fname_tree. reflexivity.
    + cbn. now rewrite abs_mq.
  - (* f(x, ...) *)
    cbn [spell_args_with]. set (wx := hd wdef (kids_from w 0)).
    assert (Hwx : ws_ok wx = true) by (apply ws_ok_hd, Hws).
    destruct (Hall x (or_introl eq_refl)) as (HTx & Hfx).
    destruct (P_args_tail args (fun y Hy => Hall y (or_intror Hy)) (tl (kids_from w 0)) (gap w 2) k (ws_ok_tl _ Hws) Hg2) as (items & es & Hst & Hact & Hmap).
    set (rest := spell_args_with spell_surface false args (tl (kids_from w 0)) ++ gap w 2 ++ [41] ++ k) in *.
    assert (Hrest : exists (g : str) c' (r' : str), rest = g ++ c' :: r' /\ forallb is_ws g = true /\ In c' [41; 93; 44]).
    { unfold rest. destruct args as [|y args'].
      - cbn [spell_args_with app]. exists (gap w 2), 41, k. cbn; auto.
      - cbn [spell_args_with]. rewrite <- !app_assoc. eexists (gap (hd wdef (tl (kids_from w 0))) 0), 44, _.
        split; [reflexivity|]. split; [apply ws_ok_gap, ws_ok_hd, ws_ok_tl, Hws|cbn; auto]. }
    destruct Hrest as (g & c' & r' & Erest & Hg & Hc').
    destruct (HTx (kid wx 0) rest) as (t & e & HP & Ha & Hab).
    { apply ws_ok_kid, Hwx. }
    { rewrite Erest. apply follow_closer; assumption. }
    { rewrite Erest. apply lex_follow_closer; [assumption|cbn [In] in *; tauto]. }
    exists (TMap L_model_PrimaryExpr_from (TMap L_model_FunctionCall_from (TPair (fname_tree f) (TList (t :: items))))),
           (PrimFunction (mq f) (exprs_of (e :: es))).
    split; [|split].
    + apply parses_nt. rewrite prod_primary_expr.
      apply parses_alt_r; [apply fails_map, F_variable, Hp, H36|].
      apply parses_alt_r; [apply fails_map, fails_seq_1, fails_seq_1, fails_tag, Hp, H40|].
      apply parses_alt_r; [apply fails_map, F_literal; apply Hp; assumption|].
      apply parses_alt_r.
      { apply fails_map, F_number.
        - rewrite Ec. cbn [app stops]. exact Hdig.
        - intros r'' E. rewrite Ec in E. cbn [app] in E. injection E as E _. contradiction. }
      apply parses_map, parses_nt. rewrite prod_function_call. apply parses_map.
      eapply parses_seq.
      * apply P_function_name; [exact Hf|exact Hc|]. apply punct_name_stop.
        destruct (gap w 0) as [|y g']; [cbn; tauto|apply ws_hd_punct; [discriminate|exact Hg0]].
      * cbn [app]. rewrite <- !app_assoc. fold rest.
        eapply parses_seqr.
        -- eapply parses_seq; [apply P_ws; [exact Hg0|reflexivity]|].
           eapply parses_seq; [apply (parses_tag_app G_xpath [40])|].
           apply P_ws; [exact Hg1|]. eapply first_ok_stops_ws, Hfx.
        -- eapply parses_seql.
           ++ eapply parses_sepby0_cons.
              ** apply parses_nt. rewrite prod_argument. apply parses_nt. rewrite prod_expr. exact HP.
              ** exact Hst.
              ** left. apply F_sepB. rewrite (drop_ws_app _ _ Hg2). reflexivity.
           ++ eapply parses_seq; [apply P_ws; [exact Hg2|reflexivity]|]. apply (parses_tag_app G_xpath [41]).
    + assert (Hl : act (TList (t :: items)) = VList (map VOr (e :: es))).
      { cbn [map]. apply act_list_cons; [exact Ha|reflexivity|exact Hact]. }
      change (act (TMap L_model_PrimaryExpr_from (TMap L_model_FunctionCall_from (TPair (fname_tree f) (TList (t :: items))))))
        with (apply_label L_model_PrimaryExpr_from (apply_label L_model_FunctionCall_from (act (TPair (fname_tree f) (TList (t :: items)))))).
      rewrite (act_pair _ _ _ _ (act_fname_tree f) eq_refl Hl eq_refl).
      cbn -[to_exprs map exprs_of]. rewrite (to_exprs_map (e :: es)). reflexivity.
    + cbn [abs_primary]. rewrite abs_mq, abs_exprs_of. cbn [map]. now rewrite Hab, Hmap.
Qed.

