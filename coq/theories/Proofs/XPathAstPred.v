(** * Syntactic conditions on expressions: [ast_ok pa pn pf e] holds when every axis specifier
    of [e] satisfies [pa], every number literal [pn], every called function name (local part)
    [pf].  Used as hypotheses of the evaluator theorems:
    - [no_ns_axis e]       no step of [e] uses the namespace axis (C07: namespace nodes have no
                           usable order key, defect D19);
    - [numbers_ok e]       every number literal is accepted by Rust's [f64] parser -- guaranteed by
                           the expression grammar (Digits ('.' Digits?)? | '.' Digits), and
                           [unwrap()]ped by the evaluator;
    ([pf] is kept for conditions on function names; [substring()] needed one while its panics,
    defect D30 of the scalar library, were unrepaired.) *)
From Coq Require Import List NArith Bool.
From XmlRs Require Import Base.CPred.
From XmlRs Require Import Spec.XPathCore Model.XPathFuncs Model.XPathAst Model.XPathScalar.
Import ListNotations.

Definition qname_local (q : qname) : str :=
  match q with QPrefixed _ l => l | QUnprefixed l => l end.

Section Pred.
Variable pa : axis_spec -> bool.
Variable pn : str -> bool.
Variable pf : str -> bool.

Fixpoint ok_or (e : or_expr) : bool :=
  match e with EOr f r => ok_and f && ok_and_list r end
with ok_and_list (l : and_list) : bool :=
  match l with AndNil => true | AndCons a t => ok_and a && ok_and_list t end
with ok_and (e : and_expr) : bool :=
  match e with EAnd f r => ok_eq f && ok_eq_list r end
with ok_eq_list (l : eq_list) : bool :=
  match l with EqNil => true | EqCons a t => ok_eq a && ok_eq_list t end
with ok_eq (e : eq_expr) : bool :=
  match e with EEq o ops => ok_rel o && ok_eqop_list ops end
with ok_eqop_list (l : eqop_list) : bool :=
  match l with EqopNil => true | EqopCons _ e t => ok_rel e && ok_eqop_list t end
with ok_rel (e : rel_expr) : bool :=
  match e with ERel o ops => ok_add o && ok_relop_list ops end
with ok_relop_list (l : relop_list) : bool :=
  match l with RelopNil => true | RelopCons _ e t => ok_add e && ok_relop_list t end
with ok_add (e : add_expr) : bool :=
  match e with EAdd o ops => ok_mul o && ok_addop_list ops end
with ok_addop_list (l : addop_list) : bool :=
  match l with AddopNil => true | AddopCons _ e t => ok_mul e && ok_addop_list t end
with ok_mul (e : mul_expr) : bool :=
  match e with EMul o ops => ok_unary o && ok_mulop_list ops end
with ok_mulop_list (l : mulop_list) : bool :=
  match l with MulopNil => true | MulopCons _ e t => ok_unary e && ok_mulop_list t end
with ok_unary (e : unary_expr) : bool :=
  match e with EUnary _ u => ok_union u end
with ok_union (e : union_expr) : bool :=
  match e with EUnion l => ok_path_list l end
with ok_path_list (l : path_list) : bool :=
  match l with PathNil => true | PathCons p t => ok_path p && ok_path_list t end
with ok_path (e : path_expr) : bool :=
  match e with
  | PRoot => true
  | PFilter f => ok_filter f
  | PRel l => ok_rel_path l
  | PAbs _ l => ok_rel_path l
  | PFilterPath f _ l => ok_filter f && ok_rel_path l
  end
with ok_filter (e : filter_expr) : bool :=
  match e with EFilter p preds => ok_primary p && ok_expr_list preds end
with ok_primary (e : primary_expr) : bool :=
  match e with
  | PrimVariable _ => true
  | PrimExpr x => ok_or x
  | PrimLiteral _ => true
  | PrimNumber s => pn s
  | PrimFunction name args => pf (qname_local name) && ok_expr_list args
  end
with ok_expr_list (l : expr_list) : bool :=
  match l with ExprNil => true | ExprCons e t => ok_or e && ok_expr_list t end
with ok_rel_path (e : rel_path) : bool :=
  match e with ERelPath s ops => ok_step s && ok_stepop_list ops end
with ok_stepop_list (l : stepop_list) : bool :=
  match l with StepopNil => true | StepopCons _ s t => ok_step s && ok_stepop_list t end
with ok_step (s : step) : bool :=
  match s with
  | StepTest a _ preds => pa a && ok_expr_list preds
  | StepCurrent => true
  | StepParent => true
  end.

End Pred.

Definition any_axis (a : axis_spec) : bool := true.
Definition not_ns_axis (a : axis_spec) : bool :=
  match a with AxisName AxNamespace => false | _ => true end.
Definition any_str (s : str) : bool := true.
Definition parses (s : str) : bool :=
  match rust_parse_f64 s with Some _ => true | None => false end.

(** no step uses the namespace axis *)
Definition no_ns_axis (e : expr) : bool := ok_or not_ns_axis any_str any_str e.
(** what the no-panic theorem asks of an expression *)
Definition expr_total (e : expr) : bool := ok_or any_axis parses any_str e.
