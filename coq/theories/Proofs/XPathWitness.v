(** * Witnesses: the hypotheses of the evaluator theorems are satisfiable by non-trivial values, and
    the statements without those hypotheses are false on the faithful model (each witness is a
    dump of the real code, see Proofs/XPathExamples.v; the checks replay them on the implementation). *)
From Coq Require Import List NArith Bool Lia Sorting.Sorted.
From XmlRs Require Import Base.CPred Base.NList Base.Float64.
From XmlRs Require Import Model.XPathAst Model.XDoc Model.XDocCheck Model.XPathScalar Model.XPathEval.
From XmlRs Require Import Proofs.XPathNav Proofs.XPathSort Proofs.XPathAstPred Proofs.XPathCanon
  Proofs.XPathDocCheck Proofs.XPathExamples Proofs.XPathUnion.
Import ListNotations.
Open Scope N_scope.

(** ** satisfiable hypotheses *)
Lemma ex_doc_inv : DocInv ex_doc.
Proof. apply doc_inv_b_sound. vm_compute. reflexivity. Qed.

Lemma ns_doc_inv : DocInv ns_doc.
Proof. apply doc_inv_b_sound. vm_compute. reflexivity. Qed.

Lemma ex_good_root : good ex_doc doc_root.
Proof. split; [unfold valid; cbn; lia|vm_compute; discriminate]. Qed.

(** //e/following::* on <r a="1"><b>t<e/></b><c><f/></c><d/></r> selects c, f, d *)
Lemma ex_following : expr_total ex_doc_e0 = true /\ no_ns_axis ex_doc_e0 = true /\
  fst (query ex_doc ex_doc_e0 ctx_default) = Ok (XNodes [10; 12; 14]).
Proof. vm_compute. auto. Qed.

(** (//star)[2] counts in document order: the second element of the document is b *)
Lemma ex_filter_second : fst (query ex_doc ex_doc_e1 ctx_default) = Ok (XNodes [5]).
Proof. vm_compute. reflexivity. Qed.

(** //c | //b and //b | //c both give b, c *)
Lemma ex_union_both_orders :
  fst (query ex_doc ex_doc_e2 ctx_default) = Ok (XNodes [5; 10]) /\
  fst (query ex_doc ex_doc_e3 ctx_default) = Ok (XNodes [5; 10]).
Proof. vm_compute. auto. Qed.

(** //b[nosuch()] fails and leaves the context as it was *)
Lemma ex_error_restores :
  query ex_doc ex_doc_e4 ctx_default = (Err (ENotFoundFunction [110; 111; 115; 117; 99; 104]), ctx_default).
Proof. vm_compute. reflexivity. Qed.

(** ** the namespace axis (D19): namespace nodes have key 0 or the key of an inherited declaration *)
Lemma ns_axis_not_canonical :
  fst (query ns_doc ns_doc_e0 ctx_default) = Ok (XNodes [3; 2]) /\
  ~ StronglySorted (doc_lt ns_doc) [3; 2] /\ no_ns_axis ns_doc_e0 = false.
Proof.
  split; [vm_compute; reflexivity|]. split; [|vm_compute; reflexivity].
  intros H. inversion H as [|a l Hl Ha]; subst. inversion Ha as [|b l' Hb _]; subst. unfold doc_lt in Hb. lia.
Qed.

Lemma ns_axis_union_not_commutative :
  fst (query ns_doc ns_doc_e1 ctx_default) = Ok (XNodes [3; 2]) /\
  fst (query ns_doc ns_doc_e2 ctx_default) = Ok (XNodes [5; 2]).
Proof. vm_compute. auto. Qed.

(** ** processing instructions (D18, D21): key 0, equal keys among siblings *)
Lemma pi_doc_not_wf : doc_wf_b pi_doc = false.
Proof. vm_compute. reflexivity. Qed.

(** /r/node() on <r><a/><?p x?><?q y?></r>: the two PIs collapse and sort before a *)
Lemma pi_not_canonical :
  fst (query pi_doc pi_doc_e0 ctx_default) = Ok (XNodes [5; 3]) /\ ~ StronglySorted (doc_lt pi_doc) [5; 3].
Proof.
  split; [vm_compute; reflexivity|].
  intros H. inversion H as [|a l Hl Ha]; subst. inversion Ha as [|b l' Hb _]; subst. unfold doc_lt in Hb. lia.
Qed.

(** //a/following-sibling::node() does not terminate: next_sibling cycles between the PIs *)
Lemma pi_sibling_loop_diverges : fst (query pi_doc pi_doc_hang ctx_default) = OutOfFuel.
Proof. vm_compute. reflexivity. Qed.

(** ** substring("ab", 0) panics (D30, scalar library) whatever the document *)
Lemma substring_panics : fst (query ex_doc pi_doc_e3 ctx_default) = Panic /\ expr_total pi_doc_e3 = false.
Proof. vm_compute. auto. Qed.
