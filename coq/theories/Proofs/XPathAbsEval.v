(** * The evaluator read on the abstract syntax of the recommendation (C08, evaluation half).

    [xeval doc a n] evaluates a tree [a : xexpr] of Spec/XPathSyntax.v with the SAME semantic
    building blocks as Model/XPathEval.v (the comparison families, [arith], [pred_loop],
    [predicate_of], [axis_nodes], [eval_node_test], [exec_fn], [union_finish], [step_dedup]...),
    composed along the abstract tree instead of along the layered Rust AST:
    - a binary operator is the operation on the values of its two operands (the flat chains of
      the Rust types are left folds of it: [eval_abs_all]);
    - the abbreviated forms keep the evaluation the Rust code gives them ([Step::Current],
      [Step::Parent], [AxisSpecifier::Abbreviated], [LocationPathOperator::DescendantOrSelfNode]);
    - parentheses vanish: a parenthesised expression evaluates its inner expression, and the
      [union_finish] that the single-operand branch of [eval_union_expr] applies to it is the
      identity on the (already strictly key-sorted) value of an expression.

    Main result [eval_abs]: for every AST [e] as the parser produces them ([sh_or e]: no union
    without operand), [eval_or_expr doc e n] and [xeval doc (abs_or e) n] are the same
    computation (same result AND same context, for every context, including errors and
    panics).  No hypothesis on the document. *)
From Coq Require Import List NArith Bool Lia Sorting.Sorted Sorting.Permutation.
From XmlRs Require Import Base.CPred Base.NList Base.Float64.
From XmlRs Require Import Spec.XPathSyntax.
From XmlRs Require Import Spec.XPathCore Model.XPathFuncs.
From XmlRs Require Import Model.XPathAst Model.XDoc Model.XPathScalar Model.XPathEval Model.XPathAstAbs.
From XmlRs Require Import Proofs.XPathEvalEqs Proofs.XPathSort Proofs.XPathCtx Proofs.XPathCanon Proofs.XPathAstShaped.
Import ListNotations.
Open Scope N_scope.

(** ** from the abstract names back to the Rust types *)
Definition conc_qname (q : xqname) : qname :=
  match q with QN (Some p) l => QPrefixed p l | QN None l => QUnprefixed l end.

Definition conc_axis_name (a : XPathSyntax.axis) : axis_name :=
  match a with
  | XAncestor => AxAncestor | XAncestorOrSelf => AxAncestorOrSelf | XAttribute => AxAttribute
  | XChild => AxChild | XDescendant => AxDescendant | XDescendantOrSelf => AxDescendantOrSelf
  | XFollowing => AxFollowing | XFollowingSibling => AxFollowingSibling | XNamespace => AxNamespace
  | XParent => AxParent | XPreceding => AxPreceding | XPrecedingSibling => AxPrecedingSibling
  | XSelf => AxCurrent
  end.

Definition conc_axis (a : XPathSyntax.axis_spec) : XPathAst.axis_spec :=
  match a with
  | AFull x => AxisName (conc_axis_name x)
  | AAt => AxisAbbreviated [64]
  | AOmit => AxisAbbreviated []
  end.

Definition conc_test (t : ntest) : node_test :=
  match t with
  | TAny => TestName NameAll
  | TNs p => TestName (NameNamespace p)
  | TName q => TestName (NameQName (conc_qname q))
  | TType XPathSyntax.KComment => TestType NtComment
  | TType XPathSyntax.KText => TestType NtText
  | TType KPi => TestType NtPI
  | TType KNode => TestType NtNode
  | TPi s => TestPI s
  end.

Lemma conc_abs_qname q : conc_qname (abs_qname q) = q.
Proof. destruct q; reflexivity. Qed.

Lemma conc_abs_axis_name a : conc_axis_name (abs_axis_name a) = a.
Proof. destruct a; reflexivity. Qed.

Lemma conc_abs_test t : conc_test (abs_test t) = t.
Proof.
  destruct t as [[| |q]|[]|]; try reflexivity. cbn [abs_test conc_test]. now rewrite conc_abs_qname.
Qed.

(** ** computations are compared pointwise *)
Definition meq {A} (m1 m2 : M A) : Prop := forall c, m1 c = m2 c.
Infix "≡" := meq (at level 70).

Lemma meq_refl {A} (m : M A) : m ≡ m.
Proof. intros c. reflexivity. Qed.
Lemma meq_sym {A} (m1 m2 : M A) : m1 ≡ m2 -> m2 ≡ m1.
Proof. intros H c. symmetry. apply H. Qed.
Lemma meq_trans {A} (m1 m2 m3 : M A) : m1 ≡ m2 -> m2 ≡ m3 -> m1 ≡ m3.
Proof. intros H1 H2 c. rewrite H1. apply H2. Qed.

Lemma bind_cong {A B} (m1 m2 : M A) (f1 f2 : A -> M B) :
  m1 ≡ m2 -> (forall a, f1 a ≡ f2 a) -> bindM m1 f1 ≡ bindM m2 f2.
Proof.
  intros Hm Hf c. unfold bindM. rewrite Hm. destruct (m2 c) as [[a|e| |] c1]; try reflexivity. apply Hf.
Qed.

Lemma bind_cong_r {A B} (m : M A) (f1 f2 : A -> M B) :
  (forall a, f1 a ≡ f2 a) -> bindM m f1 ≡ bindM m f2.
Proof. intros Hf. apply bind_cong; [apply meq_refl|exact Hf]. Qed.

Lemma bind_cong_l {A B} (m1 m2 : M A) (f : A -> M B) : m1 ≡ m2 -> bindM m1 f ≡ bindM m2 f.
Proof. intros Hm. apply bind_cong; [exact Hm|intros a; apply meq_refl]. Qed.

Lemma bind_assoc {A B C} (m : M A) (f : A -> M B) (g : B -> M C) :
  bindM (bindM m f) g ≡ bindM m (fun a => bindM (f a) g).
Proof. intros c. unfold bindM. destruct (m c) as [[a|e| |] c1]; reflexivity. Qed.

Lemma bind_ret_l {A B} (a : A) (f : A -> M B) : bindM (ret a) f ≡ f a.
Proof. intros c. reflexivity. Qed.

Lemma bind_ret_r {A} (m : M A) : bindM m ret ≡ m.
Proof. intros c. unfold bindM, ret. destruct (m c) as [[a|e| |] c1]; reflexivity. Qed.

Lemma bind_lift {A B} (r : res A) (f : A -> M B) :
  bindM (lift r) f ≡ match r with Ok a => f a | Err e => lift (Err e) | Panic => lift Panic | OutOfFuel => lift OutOfFuel end.
Proof. intros c. unfold bindM, lift. destruct r; reflexivity. Qed.

Section AbsEval.
Variable doc : xdoc.

(** ** the semantic building blocks, on lists of sub-computations *)
Definition xbinop (o : XPathSyntax.binop) (ma mb : M xvalue) : M xvalue :=
  match o with
  | BOr => v <- ma ;; if val_to_bool v then ret (XBool true) else w <- mb ;; ret (XBool (val_to_bool w))
  | BAnd => v <- ma ;; if negb (val_to_bool v) then ret (XBool false) else w <- mb ;; ret (XBool (val_to_bool w))
  | BEq => v <- ma ;; w <- mb ;; r <- lift (eq_value doc false v w) ;; ret (XBool r)
  | BNe => v <- ma ;; w <- mb ;; r <- lift (eq_value doc true v w) ;; ret (XBool r)
  | BLt => v <- ma ;; w <- mb ;; r <- lift (rel_value doc OpLessThan v w) ;; ret (XBool r)
  | BGt => v <- ma ;; w <- mb ;; r <- lift (rel_value doc OpGreaterThan v w) ;; ret (XBool r)
  | BLe => v <- ma ;; w <- mb ;; r <- lift (rel_value doc OpLessEqual v w) ;; ret (XBool r)
  | BGe => v <- ma ;; w <- mb ;; r <- lift (rel_value doc OpGreaterEqual v w) ;; ret (XBool r)
  | BAdd => v <- ma ;; w <- mb ;; r <- lift (arith doc f64_add v w) ;; ret r
  | BSub => v <- ma ;; w <- mb ;; r <- lift (arith doc f64_sub v w) ;; ret r
  | BMul => v <- ma ;; w <- mb ;; r <- lift (arith doc f64_mul v w) ;; ret r
  | BDiv => v <- ma ;; w <- mb ;; r <- lift (arith doc f64_div v w) ;; ret r
  | BMod => v <- ma ;; w <- mb ;; r <- lift (arith doc f64_rem v w) ;; ret r
  | BUnion =>
      v <- ma ;;
      match v with
      | XNodes la =>
          w <- mb ;;
          match w with
          | XNodes lb => ret (XNodes (union_finish doc (la ++ lb)))
          | _ => lift (Err XErrInvalidType)
          end
      | _ => lift (Err XErrInvalidType)
      end
  end.

Fixpoint xargs (ms : list (M xvalue)) : M (list xvalue) :=
  match ms with
  | [] => ret []
  | m :: t => v <- m ;; vs <- xargs t ;; ret (v :: vs)
  end.

Fixpoint xpreds (evs : list (node -> M xvalue)) (nodes : list node) : M (list node) :=
  match evs with
  | [] => ret nodes
  | ev :: t =>
      fun c =>
        match pred_loop (predicate_of ev) nodes 1 (push_size (len nodes) c) with
        | (Ok filtered, c1) => xpreds t filtered (pop_size c1)
        | other => other
        end
  end.

(** what a separator does to the context nodes of the step that follows it *)
Definition expand (s : sep) (nodes : list node) : res (list node) :=
  match s with
  | SSlash => Ok nodes
  | SDSlash => flat_map_res (descendant_and_self doc) nodes
  end.

Definition sem_step := node -> M (list node).

Fixpoint xstepops (items : list (sep * sem_step)) (nodes : list node) : M (list node) :=
  match items with
  | [] => ret nodes
  | (s, f) :: t =>
      from <- lift (expand s nodes) ;;
      collected <- flat_map_m f from ;;
      xstepops t (step_dedup doc collected)
  end.

Definition step_sem (ax : XPathAst.axis_spec) (test : node_test) (evs : list (node -> M xvalue)) : sem_step :=
  fun n c =>
    match bind (axis_nodes doc ax n) (filter_res (eval_node_test doc (c_ns c) ax test)) with
    | Ok tested => xpreds evs (axis_sort doc ax tested) c
    | Err e => (Err e, c)
    | Panic => (Panic, c)
    | OutOfFuel => (OutOfFuel, c)
    end.

Definition xstep_with (ev : xexpr -> node -> M xvalue) (s : xstep) : sem_step :=
  match s with
  | XStep a t preds => step_sem (conc_axis a) (conc_test t) (map ev preds)
  | XDot => fun n => ret [n]
  | XDotDot => fun n => ret (opt_list (parent_node doc n))
  end.

Definition xcall (name : qname) (ms : list (M xvalue)) (n : node) : M xvalue :=
  fun c =>
    match resolve_fn (c_ns c) name (len ms) with
    | Ok local => (vs <- xargs ms ;; exec_fn doc local vs n) c
    | Err e => (Err e, c)
    | Panic => (Panic, c)
    | OutOfFuel => (OutOfFuel, c)
    end.

Definition xvar (q : qname) : M xvalue :=
  fun c =>
    match expanded_name (c_ns c) q with
    | Ok (local, _, _) => (Err (XErrNotFoundVariable local), c)
    | Err e => (Err e, c)
    | Panic => (Panic, c)
    | OutOfFuel => (OutOfFuel, c)
    end.

(** a location path: the relative path is run from every start node, the nodes collected are
    sorted (eval_filtered_loc_expr), and the union level above de-duplicates *)
Definition path_sem (start : M (list node)) (first : sem_step) (rest : list (sep * sem_step)) : M xvalue :=
  nodes <- start ;;
  collected <- flat_map_m (fun x => ns <- first x ;; xstepops rest ns) nodes ;;
  ret (XNodes (union_finish doc (sort_by_key doc collected))).

Fixpoint xeval (a : xexpr) : node -> M xvalue :=
  match a with
  | XBin o a b => fun n => xbinop o (xeval a n) (xeval b n)
  | XNeg a => fun n => v <- xeval a n ;; lift (neg_value doc v)
  | XLit s => fun n => ret (XText s)
  | XPathSyntax.XNum s => fun n =>
      match rust_parse_f64 s with
      | Some x => ret (XNum x)
      | None => lift Panic
      end
  | XVar q => fun n => xvar (conc_qname q)
  | XCall f args => fun n => xcall (conc_qname f) (map (fun a => xeval a n) args) n
  | XParen a => xeval a
  | XFilter p preds => fun n =>
      match preds with
      | [] => xeval p n
      | _ =>
          v <- xeval p n ;;
          match v with
          | XNodes l => r <- xpreds (map xeval preds) l ;; ret (XNodes r)
          | _ => lift (Err XErrInvalidType)
          end
      end
  | XRoot => fun n => ret (XNodes (root_of doc n))
  | XPath st first rest => fun n =>
      let rest' := map (fun x : sep * xstep => let (s, y) := x in (s, xstep_with xeval y)) rest in
      match st with
      | SRel => path_sem (ret [n]) (xstep_with xeval first) rest'
      | SAbs s => path_sem (lift (expand s (root_of doc n))) (xstep_with xeval first) rest'
      | SFrom f s =>
          v <- xeval f n ;;
          match v with
          | XNodes fl => path_sem (lift (expand s fl)) (xstep_with xeval first) rest'
          | _ => lift (Err XErrInvalidType)
          end
      end
  end.

Definition xstepf : xstep -> sem_step := xstep_with xeval.
Definition xrest (rest : list (sep * XPathSyntax.xstep)) : list (sep * sem_step) :=
  map (fun x : sep * XPathSyntax.xstep => let (s, y) := x in (s, xstepf y)) rest.

End AbsEval.

(** ** [union_finish] on already finished parts *)
Section Finish.
Variable doc : xdoc.
Notation uf := (union_finish doc).
Notation dk := (dedup_keys doc).

Lemma dedup_nodup_id (l : list node) : forall s,
  NoDup (map (key doc) l) -> (forall x, In x l -> ~ In (key doc x) s) -> dk s l = l.
Proof.
  induction l as [|x t IH]; intros s Hnd Hs; cbn [dedup_keys]; [reflexivity|].
  cbn [map] in Hnd. inversion Hnd as [|k ks Hk Hks]; subst.
  destruct (existsb (N.eqb (key doc x)) s) eqn:E.
  - exfalso. apply existsb_eqb_In in E. apply (Hs x (or_introl eq_refl)). exact E.
  - f_equal. apply IH; [exact Hks|]. intros y Hy [Hin|Hin].
    + apply Hk. rewrite Hin. apply in_map. exact Hy.
    + apply (Hs y (or_intror Hy)). exact Hin.
Qed.

Lemma sorted_nodup_keys (l : list node) : StronglySorted (key_lt doc) l -> NoDup (map (key doc) l).
Proof.
  induction 1 as [|x t Ht IH Hx]; cbn [map]; constructor; [|exact IH].
  intros Hin. apply in_map_iff in Hin. destruct Hin as [y [Ey Hy]]. rewrite Forall_forall in Hx.
  specialize (Hx y Hy). unfold key_lt in Hx. lia.
Qed.

(** the sort of a list with pairwise distinct keys depends on its elements only *)
Lemma sort_same_elements (l1 l2 : list node) :
  NoDup (map (key doc) l1) -> NoDup (map (key doc) l2) -> (forall x, In x l1 <-> In x l2) ->
  sort_by_key doc l1 = sort_by_key doc l2.
Proof.
  intros H1 H2 H. apply (sorted_unique doc).
  - apply (sorted_strict doc); [apply (sort_sorted doc)|]. eapply Permutation_NoDup; [apply Permutation_map, (sort_perm doc)|exact H1].
  - apply (sorted_strict doc); [apply (sort_sorted doc)|]. eapply Permutation_NoDup; [apply Permutation_map, (sort_perm doc)|exact H2].
  - intros x. rewrite !sort_in. apply H.
Qed.

Lemma uf_app_l (a b : list node) : uf (uf a ++ b) = uf (a ++ b).
Proof.
  unfold union_finish at 1 3. rewrite !dedup_app.
  assert (Ea : dk [] (uf a) = uf a).
  { apply dedup_nodup_id; [apply sorted_nodup_keys, union_finish_sorted|intros x _ []]. }
  rewrite Ea.
  assert (Eb : dk (map (key doc) (uf a) ++ []) b = dk (map (key doc) (dk [] a) ++ []) b).
  { apply dedup_seen_ext. intros k. rewrite !app_nil_r. unfold union_finish. rewrite !in_map_iff.
    split; intros [x [E Hx]]; exists x; (split; [exact E|]); [apply (proj1 (sort_in doc x _)), Hx|apply sort_in, Hx]. }
  rewrite Eb. set (D := dk (map (key doc) (dk [] a) ++ []) b).
  assert (Hnd : NoDup (map (key doc) (dk [] a ++ D))).
  { unfold D. rewrite <- dedup_app. apply dedup_nodup_keys. }
  apply sort_same_elements.
  - eapply Permutation_NoDup; [|exact Hnd]. apply Permutation_map, Permutation_app_tail. unfold union_finish. apply sort_perm.
  - exact Hnd.
  - intros x. rewrite !in_app_iff. unfold union_finish. rewrite sort_in. reflexivity.
Qed.

Lemma dedup_seen_sub (l : list node) : forall s1 s2 x, (forall k, In k s1 -> In k s2) ->
  (In x (dk s2 l) <-> In x (dk s1 l) /\ ~ In (key doc x) s2).
Proof.
  induction l as [|y t IH]; intros s1 s2 x Hsub; cbn [dedup_keys]; [cbn [In]; tauto|].
  destruct (existsb (N.eqb (key doc y)) s1) eqn:E1.
  - apply existsb_eqb_In in E1. assert (E2 : existsb (N.eqb (key doc y)) s2 = true) by (apply existsb_eqb_In, Hsub, E1).
    rewrite E2. apply IH, Hsub.
  - destruct (existsb (N.eqb (key doc y)) s2) eqn:E2.
    + apply existsb_eqb_In in E2. rewrite (IH (key doc y :: s1) s2 x).
      * cbn [In]. split; [intros [H1 H2]; split; [right; exact H1|exact H2]|].
        intros [[->|H1] H2]; [contradiction|split; assumption].
      * intros k [<-|Hk]; [exact E2|apply Hsub, Hk].
    + cbn [In]. rewrite (IH (key doc y :: s1) (key doc y :: s2) x).
      * assert (Hy : ~ In (key doc y) s2) by (intros Hin; apply existsb_eqb_In in Hin; congruence).
        split.
        -- intros [->|[H1 H2]]; [split; [left; reflexivity|exact Hy]|].
           split; [right; exact H1|]. intros Hin. apply H2. right. exact Hin.
        -- intros [[->|H1] H2]; [left; reflexivity|right]. split; [exact H1|].
           intros [Hin|Hin]; [|contradiction]. destruct (dedup_incl doc _ _ _ H1) as [_ Hn]. apply Hn. left. exact Hin.
      * intros k [<-|Hk]; [left; reflexivity|right; apply Hsub, Hk].
Qed.

Lemma uf_app_r (a b : list node) : uf (a ++ uf b) = uf (a ++ b).
Proof.
  unfold union_finish at 1 3. rewrite !dedup_app.
  set (S := map (key doc) (dk [] a) ++ []).
  assert (Hnd2 : NoDup (map (key doc) (dk [] a ++ dk S b))).
  { unfold S. rewrite <- dedup_app. apply dedup_nodup_keys. }
  assert (Hnd1 : NoDup (map (key doc) (dk [] a ++ dk S (uf b)))).
  { unfold S. rewrite <- dedup_app. apply dedup_nodup_keys. }
  apply sort_same_elements; [exact Hnd1|exact Hnd2|].
  intros x. rewrite !in_app_iff.
  assert (Hx : In x (dk S (uf b)) <-> In x (dk S b)).
  { rewrite (dedup_seen_sub (uf b) [] S x) by (intros k []).
    rewrite (dedup_seen_sub b [] S x) by (intros k []).
    rewrite (dedup_nodup_id (uf b) []) by (first [apply sorted_nodup_keys, union_finish_sorted|intros y _ []]).
    unfold union_finish. rewrite sort_in. reflexivity. }
  rewrite Hx. reflexivity.
Qed.

Lemma uf_small (l : list node) : (length l <= 1)%nat -> uf l = l.
Proof.
  intros H. apply union_finish_fixed. destruct l as [|x [|y t]]; [constructor|constructor; constructor|cbn [length] in H; lia].
Qed.

End Finish.

(** ** the bridge: the evaluator of the Rust AST is [xeval] of its abstraction *)
Section Bridge.
Variable doc : xdoc.
Notation uf := (union_finish doc).

Definition fin (v : xvalue) : xvalue := match v with XNodes l => XNodes (uf l) | _ => v end.

Lemma fin_canon v : canon doc v -> fin v = v.
Proof. destruct v; cbn [fin canon]; try reflexivity. intros H. f_equal. apply union_finish_fixed, H. Qed.

Definition kan (m : M xvalue) : Prop := forall c v c', m c = (Ok v, c') -> canon doc v.

Lemma kan_meq (m1 m2 : M xvalue) : m1 ≡ m2 -> kan m1 -> kan m2.
Proof. intros H K c v c' E. rewrite <- H in E. eapply K, E. Qed.

Lemma bind_fin (m : M xvalue) : kan m -> (v <- m ;; ret (fin v)) ≡ m.
Proof.
  intros H c. unfold bindM. destruct (m c) as [[v|e| |] c1] eqn:E; try reflexivity.
  unfold ret. rewrite fin_canon; [reflexivity|eapply H; exact E].
Qed.

Lemma flat_map_m_cong (f g : node -> M (list node)) l : (forall x, f x ≡ g x) -> flat_map_m f l ≡ flat_map_m g l.
Proof.
  intros H. induction l as [|x t IH]; cbn [flat_map_m]; [apply meq_refl|].
  apply bind_cong; [apply H|]. intros a. apply bind_cong_l, IH.
Qed.

(** the predicate loops keep a sub-list *)
Lemma pred_loop_sub (f : node -> M bool) (R : node -> node -> Prop) : forall nodes pos c r c',
  pred_loop f nodes pos c = (Ok r, c') -> incl r nodes /\ (StronglySorted R nodes -> StronglySorted R r).
Proof.
  induction nodes as [|n t IH]; intros pos c r c' H; cbn [pred_loop] in H.
  - inversion H; subst. split; [apply incl_refl|trivial].
  - destruct (f n (push_position pos c)) as [[keep|e| |] c1]; try discriminate.
    destruct (pred_loop f t (pos + 1) (pop_position c1)) as [[r'|e| |] c2] eqn:E2; try discriminate.
    destruct (IH _ _ _ _ E2) as [Hi Hs]. inversion H; subst. split.
    + destruct keep; [intros x [->|Hx]; [left; reflexivity|right; apply Hi, Hx]|intros x Hx; right; apply Hi, Hx].
    + intros HS. inversion HS as [|n' t' Ht Hn]; subst. specialize (Hs Ht). destruct keep; [|exact Hs].
      constructor; [exact Hs|]. rewrite Forall_forall in *. intros y Hy. apply Hn, Hi, Hy.
Qed.

Lemma xpreds_sub (R : node -> node -> Prop) evs : forall nodes c r c',
  xpreds evs nodes c = (Ok r, c') -> incl r nodes /\ (StronglySorted R nodes -> StronglySorted R r).
Proof.
  induction evs as [|ev t IH]; intros nodes c r c' H; cbn [xpreds] in H.
  - inversion H; subst. split; [apply incl_refl|trivial].
  - destruct (pred_loop (predicate_of ev) nodes 1 (push_size (len nodes) c)) as [[fl|e| |] c1] eqn:E; try discriminate.
    destruct (pred_loop_sub _ R _ _ _ _ _ E) as [Hi1 Hs1]. destruct (IH _ _ _ _ H) as [Hi2 Hs2]. split.
    + intros x Hx. apply Hi1, Hi2, Hx.
    + intros HS. apply Hs2, Hs1, HS.
Qed.

(** the only node-set a function returns is the empty one *)
Lemma fn_names_text which vs n v : fn_names doc which vs n = Ok v -> exists s, v = XText s.
Proof.
  unfold fn_names. destruct (name_arg vs n) as [l| | |]; cbn [bind]; try discriminate.
  destruct l as [|x ?]; [inversion 1; eauto|]. destruct (name_of doc x) as [| |lo pr u]; try discriminate; [inversion 1; eauto|].
  destruct (which =? 0); [inversion 1; eauto|]. destruct (which =? 1); [inversion 1; eauto|].
  destruct pr as [p|]; [destruct (str_eqb p s_xmlns)|]; inversion 1; eauto.
Qed.

Definition no_nodes (v : xvalue) : Prop := match v with XNodes l => l = [] | _ => True end.

Lemma exec_fn_no_nodes local vs n c v c' : exec_fn doc local vs n c = (Ok v, c') -> no_nodes v.
Proof.
  intros H. unfold exec_fn in H.
  destruct (str_eqb local fn_last); [inversion H; subst; exact I|].
  destruct (str_eqb local fn_position); [inversion H; subst; exact I|].
  destruct (str_eqb local fn_count); [destruct vs as [|[] ?]; inversion H; subst; exact I|].
  destruct (str_eqb local fn_id).
  { destruct (root_of doc n) as [|d ?]; [inversion H; subst; reflexivity|].
    destruct (has_doctype doc d); inversion H; subst. reflexivity. }
  destruct (str_eqb local fn_local_name).
  { inversion H as [[E Ec]]. destruct (fn_names_text _ _ _ _ E) as [s ->]. exact I. }
  destruct (str_eqb local fn_namespace_uri).
  { inversion H as [[E Ec]]. destruct (fn_names_text _ _ _ _ E) as [s ->]. exact I. }
  destruct (str_eqb local fn_name).
  { inversion H as [[E Ec]]. destruct (fn_names_text _ _ _ _ E) as [s ->]. exact I. }
  destruct (str_eqb local fn_lang).
  { destruct vs as [|a ?]; [discriminate|]. destruct (val_to_string doc a); cbn [bind] in H; try discriminate.
    destruct (lang_fuel doc _ _ _); cbn [bind] in H; inversion H; subst; exact I. }
  destruct (str_eqb local fn_sum).
  { destruct vs as [|[] ?]; try discriminate. destruct (sum_nodes doc f64_zero l); cbn [bind] in H; inversion H; subst; exact I. }
  destruct (to_scalars doc _ vs); cbn [bind] in H; try discriminate.
  match type of H with (bind ?r _, _) = _ => destruct r end; cbn [bind] in H; try discriminate.
  match type of H with (match ?r with _ => _ end, _) = _ => destruct r as [w|[]| |] end; inversion H; subst.
  destruct w; cbn [of_scalar no_nodes]; try exact I. reflexivity.
Qed.

Lemma exec_fn_kan local vs n : kan (exec_fn doc local vs n).
Proof.
  intros c v c' H. apply exec_fn_no_nodes in H. destruct v; try exact I. cbn [no_nodes] in H. subst. constructor.
Qed.

(** ** small facts *)
Lemma abs_axis_cases (s : str) :
  (s = [64] /\ abs_axis (AxisAbbreviated s) = AAt) \/
  (str_eqb s s_at = false /\ abs_axis (AxisAbbreviated s) = AOmit).
Proof.
  destruct s as [|c [|d t]].
  - right. split; reflexivity.
  - destruct (N.eq_dec c 64) as [->|Hc]; [left; split; reflexivity|right]. split.
    + unfold s_at. cbn [str_eqb]. apply N.eqb_neq in Hc. rewrite Hc. reflexivity.
    + destruct c as [|p]; [reflexivity|]. cbn [abs_axis].
      repeat (destruct p as [p|p|]; try reflexivity). exfalso. apply Hc. reflexivity.
  - right. split.
    + unfold s_at. cbn [str_eqb]. destruct (c =? 64); reflexivity.
    + cbn [abs_axis]. destruct c as [|p]; [reflexivity|]. repeat (destruct p as [p|p|]; try reflexivity).
Qed.

(** an abbreviated axis specifier that is not [@] is read as the child axis whatever its text *)
Lemma step_sem_abbrev (s : str) test evs n : str_eqb s s_at = false ->
  step_sem doc (AxisAbbreviated s) test evs n ≡ step_sem doc (AxisAbbreviated []) test evs n.
Proof.
  intros E c. unfold step_sem.
  assert (E1 : axis_nodes doc (AxisAbbreviated s) n = axis_nodes doc (AxisAbbreviated []) n).
  { unfold axis_nodes. rewrite E. reflexivity. }
  assert (E2 : forall i, eval_node_test doc (c_ns c) (AxisAbbreviated s) test i = eval_node_test doc (c_ns c) (AxisAbbreviated []) test i).
  { intros i. unfold eval_node_test, is_principal_node_type, is_attribute_axis. rewrite E. reflexivity. }
  rewrite E1. destruct (axis_nodes doc (AxisAbbreviated []) n) as [l| | |]; cbn [bind]; try reflexivity.
  assert (E3 : filter_res (eval_node_test doc (c_ns c) (AxisAbbreviated s) test) l = filter_res (eval_node_test doc (c_ns c) (AxisAbbreviated []) test) l).
  { clear E1. induction l as [|x t IH]; cbn [filter_res]; [reflexivity|]. rewrite E2, IH. reflexivity. }
  rewrite E3. reflexivity.
Qed.

Lemma len_map {A B} (f : A -> B) l : len (map f l) = len l.
Proof. rewrite !len_length, map_length. reflexivity. Qed.

Lemma len_abs_exprs l : len (abs_exprs l) = expr_list_len l.
Proof. induction l as [|e t IH]; cbn [abs_exprs len expr_list_len]; [reflexivity|]. now rewrite IH. Qed.

Lemma neg_times_snoc k : forall v, bind (neg_times doc k v) (neg_value doc) = bind (neg_value doc v) (neg_times doc k).
Proof.
  induction k as [|k IH]; intros v; cbn [neg_times bind].
  - destruct (neg_value doc v); reflexivity.
  - destruct (neg_value doc v) as [w| | |]; cbn [bind]; try reflexivity. apply IH.
Qed.

Lemma xeval_iter_neg k : forall a n,
  xeval doc (Nat.iter k XNeg a) n ≡ (v <- xeval doc a n ;; lift (neg_times doc k v)).
Proof.
  induction k as [|k IH]; intros a n.
  - cbn [Nat.iter nat_rect neg_times]. apply meq_sym. apply (bind_ret_r (xeval doc a n)).
  - change (Nat.iter (S k) XNeg a) with (XNeg (Nat.iter k XNeg a)). cbn [xeval].
    eapply meq_trans; [apply bind_cong_l, IH|]. eapply meq_trans; [apply bind_assoc|].
    apply bind_cong_r. intros v c. unfold bindM, lift. cbn [neg_times].
    rewrite <- neg_times_snoc. destruct (neg_times doc k v); reflexivity.
Qed.

(** ** unions: the Rust code concatenates the raw operands and finishes once *)
Definition union_step (mraw mp : M xvalue) : M xvalue :=
  v <- mraw ;;
  match v with
  | XNodes acc =>
      w <- mp ;;
      match w with
      | XNodes l' => ret (XNodes (acc ++ l'))
      | _ => lift (Err XErrInvalidType)
      end
  | _ => lift (Err XErrInvalidType)
  end.

Lemma xunion_fin (mraw mp : M xvalue) :
  xbinop doc BUnion (v <- mraw ;; ret (fin v)) (w <- mp ;; ret (fin w)) ≡ (v <- union_step mraw mp ;; ret (fin v)).
Proof.
  intros c. unfold xbinop, union_step, bindM, ret, lift.
  destruct (mraw c) as [[v|e| |] c1]; try reflexivity. destruct v as [b|acc|x|s]; try reflexivity. cbn [fin].
  destruct (mp c1) as [[w|e| |] c2]; try reflexivity. destruct w as [b|l'|x|s]; try reflexivity. cbn [fin].
  rewrite uf_app_l, uf_app_r. reflexivity.
Qed.

(** ** the statements, one per syntactic category *)
Definition relpath_sem (e : rel_path) : sem_step :=
  match e with ERelPath s ops => fun x => ns <- xstepf doc (abs_step s) x ;; xstepops doc (xrest doc (abs_stepops ops)) ns end.

Definition A_or (e : or_expr) := sh_or e = true -> forall n, eval_or_expr doc e n ≡ xeval doc (abs_or e) n.
Definition A_and_list (l : and_list) := sh_ands l = true -> forall accx n,
  (v <- xeval doc accx n ;; eval_or_rest doc l v n) ≡ xeval doc (abs_ands accx l) n.
Definition A_and (e : and_expr) := sh_and e = true -> forall n, eval_and_expr doc e n ≡ xeval doc (abs_and e) n.
Definition A_eq_list (l : eq_list) := sh_eqs l = true -> forall accx n,
  (v <- xeval doc accx n ;; eval_and_rest doc l v n) ≡ xeval doc (abs_eqs accx l) n.
Definition A_eq (e : eq_expr) := sh_eq e = true -> forall n, eval_eq_expr doc e n ≡ xeval doc (abs_eq e) n.
Definition A_eqop_list (l : eqop_list) := sh_eqops l = true -> forall accx n,
  (v <- xeval doc accx n ;; eval_eq_ops doc l v n) ≡ xeval doc (abs_eqops accx l) n.
Definition A_rel (e : rel_expr) := sh_rel e = true -> forall n, eval_rel_expr doc e n ≡ xeval doc (abs_rel e) n.
Definition A_relop_list (l : relop_list) := sh_relops l = true -> forall accx n,
  (v <- xeval doc accx n ;; eval_rel_ops doc l v n) ≡ xeval doc (abs_relops accx l) n.
Definition A_add (e : add_expr) := sh_add e = true -> forall n, eval_add_expr doc e n ≡ xeval doc (abs_add e) n.
Definition A_addop_list (l : addop_list) := sh_addops l = true -> forall accx n,
  (v <- xeval doc accx n ;; eval_add_ops doc l v n) ≡ xeval doc (abs_addops accx l) n.
Definition A_mul (e : mul_expr) := sh_mul e = true -> forall n, eval_mul_expr doc e n ≡ xeval doc (abs_mul e) n.
Definition A_mulop_list (l : mulop_list) := sh_mulops l = true -> forall accx n,
  (v <- xeval doc accx n ;; eval_mul_ops doc l v n) ≡ xeval doc (abs_mulops accx l) n.
Definition A_unary (e : unary_expr) := sh_unary e = true -> forall n, eval_unary_expr doc e n ≡ xeval doc (abs_unary e) n.
Definition A_union (e : union_expr) := sh_union e = true -> forall n, eval_union_expr doc e n ≡ xeval doc (abs_union e) n.
Definition A_path (e : path_expr) := sh_path e = true -> forall n,
  (v <- eval_path_expr doc e n ;; ret (fin v)) ≡ xeval doc (abs_path e) n.
Definition A_path_list (l : path_list) := sh_paths l = true ->
  (forall accx n (mraw : M xvalue), xeval doc accx n ≡ (v <- mraw ;; ret (fin v)) -> l <> PathNil ->
     (v <- mraw ;; match v with XNodes acc => eval_union_rest doc l acc n | _ => lift (Err XErrInvalidType) end)
     ≡ xeval doc (abs_paths accx l) n) /\
  (l <> PathNil -> forall n, eval_union_expr doc (EUnion l) n ≡ xeval doc (abs_union (EUnion l)) n).
Definition A_filter (e : filter_expr) := sh_filter e = true ->
  (forall n, eval_filter_expr doc e n ≡ xeval doc (abs_filter e) n) /\ (forall n, kan (eval_filter_expr doc e n)).
Definition A_primary (e : primary_expr) := sh_primary e = true ->
  (forall n, eval_primary_expr doc e n ≡ xeval doc (abs_primary e) n) /\ (forall n, kan (eval_primary_expr doc e n)).
Definition A_expr_list (l : expr_list) := sh_exprs l = true ->
  (forall nodes, eval_predicates doc l nodes ≡ xpreds (map (xeval doc) (abs_exprs l)) nodes) /\
  (forall n, eval_args doc l n ≡ xargs (map (fun a => xeval doc a n) (abs_exprs l))).
Definition A_rel_path (e : rel_path) := sh_relpath e = true -> forall n, eval_rel_path doc e n ≡ relpath_sem e n.
Definition A_stepop_list (l : stepop_list) := sh_stepops l = true -> forall nodes,
  eval_stepops doc l nodes ≡ xstepops doc (xrest doc (abs_stepops l)) nodes.
Definition A_step (s : step) := sh_step s = true -> forall n, eval_step doc s n ≡ xstepf doc (abs_step s) n.


(** ** congruences *)
Lemma xbinop_cong o (ma ma' mb mb' : M xvalue) : ma ≡ ma' -> mb ≡ mb' -> xbinop doc o ma mb ≡ xbinop doc o ma' mb'.
Proof.
  intros Ha Hb c. destruct o; cbn [xbinop]; unfold bindM; rewrite Ha; destruct (ma' c) as [[v|e| |] c1]; try reflexivity;
    try (rewrite Hb; reflexivity).
  - destruct (val_to_bool v); [reflexivity|]. rewrite Hb. reflexivity.
  - destruct (negb (val_to_bool v)); [reflexivity|]. rewrite Hb. reflexivity.
  - destruct v; try reflexivity. rewrite Hb. reflexivity.
Qed.

Lemma predicate_of_cong (ev ev' : node -> M xvalue) x : ev x ≡ ev' x -> predicate_of ev x ≡ predicate_of ev' x.
Proof. intros H. unfold predicate_of. apply bind_cong_l, H. Qed.

Lemma pred_loop_cong (f g : node -> M bool) : (forall x, f x ≡ g x) -> forall nodes pos, pred_loop f nodes pos ≡ pred_loop g nodes pos.
Proof.
  intros H nodes. induction nodes as [|n t IH]; intros pos c; cbn [pred_loop]; [reflexivity|].
  rewrite H. destruct (g n (push_position pos c)) as [[keep|e| |] c1]; try reflexivity. rewrite IH. reflexivity.
Qed.

Lemma root_of_small n : (length (root_of doc n) <= 1)%nat.
Proof. unfold root_of. destruct (kind doc n); cbn [length]; try lia; destruct (owner_document doc n); cbn [opt_list length]; lia. Qed.

Lemma path_fin (start : M (list node)) (f : node -> M (list node)) first rest :
  (forall x, f x ≡ (fun x => ns <- first x ;; xstepops doc rest ns) x) ->
  (v <- (nodes <- start ;; collected <- flat_map_m f nodes ;; ret (XNodes (sort_by_key doc collected))) ;; ret (fin v))
  ≡ path_sem doc start first rest.
Proof.
  intros H c. unfold path_sem. set (g := fun x => ns <- first x ;; xstepops doc rest ns) in *. unfold bindM.
  destruct (start c) as [[nodes|e| |] c1]; try reflexivity.
  rewrite (flat_map_m_cong f g nodes H c1).
  destruct (flat_map_m g nodes c1) as [[coll|e| |] c2]; reflexivity.
Qed.

Lemma or_rest_true t n : eval_or_rest doc t (XBool true) n ≡ ret (XBool true).
Proof. destruct t; [rewrite eval_or_rest_nil|rewrite eval_or_rest_cons]; apply meq_refl. Qed.

Lemma and_rest_false t n : eval_and_rest doc t (XBool false) n ≡ ret (XBool false).
Proof. destruct t; [rewrite eval_and_rest_nil|rewrite eval_and_rest_cons]; apply meq_refl. Qed.

Ltac split_sh H H1 H2 := apply andb_prop in H; destruct H as [H1 H2].

(** ** the induction *)
Theorem eval_abs_all :
  (forall e, A_or e) /\ (forall l, A_and_list l) /\ (forall e, A_and e) /\ (forall l, A_eq_list l) /\
  (forall e, A_eq e) /\ (forall l, A_eqop_list l) /\ (forall e, A_rel e) /\ (forall l, A_relop_list l) /\
  (forall e, A_add e) /\ (forall l, A_addop_list l) /\ (forall e, A_mul e) /\ (forall l, A_mulop_list l) /\
  (forall e, A_unary e) /\ (forall e, A_union e) /\ (forall l, A_path_list l) /\ (forall e, A_path e) /\
  (forall e, A_filter e) /\ (forall e, A_primary e) /\ (forall l, A_expr_list l) /\ (forall e, A_rel_path e) /\
  (forall l, A_stepop_list l) /\ (forall s, A_step s).
Proof.
  apply ast_mutind.
  - (* EOr *) intros f Hf r Hr Hs n c. cbn [sh_or] in Hs. split_sh Hs H1 H2.
    rewrite eval_or_expr_eq. cbn [abs_or]. rewrite <- (Hr H2 (abs_and f) n c). unfold bindM. rewrite (Hf H1 n c). reflexivity.
  - (* AndNil *) intros _ accx n c. cbn [abs_ands]. unfold bindM.
    destruct (xeval doc accx n c) as [[v|e| |] c1]; try reflexivity.
  - (* AndCons *) intros a Ha t Ht Hs accx n c. cbn [sh_ands] in Hs. split_sh Hs H1 H2. cbn [abs_ands].
    rewrite <- (Ht H2 (XBin BOr accx (abs_and a)) n c). cbn [xeval xbinop]. unfold bindM.
    destruct (xeval doc accx n c) as [[v|e| |] c1]; try reflexivity. rewrite eval_or_rest_cons.
    destruct (val_to_bool v).
    + unfold ret at 2. cbv beta iota. rewrite (or_rest_true t n c1). reflexivity.
    + unfold bindM. rewrite (Ha H1 n c1). destruct (xeval doc (abs_and a) n c1) as [[w|e| |] c2]; reflexivity.
  - (* EAnd *) intros f Hf r Hr Hs n c. cbn [sh_and] in Hs. split_sh Hs H1 H2.
    rewrite eval_and_expr_eq. cbn [abs_and]. rewrite <- (Hr H2 (abs_eq f) n c). unfold bindM. rewrite (Hf H1 n c). reflexivity.
  - (* EqNil *) intros _ accx n c. cbn [abs_eqs]. unfold bindM.
    destruct (xeval doc accx n c) as [[v|e| |] c1]; try reflexivity.
  - (* EqCons *) intros a Ha t Ht Hs accx n c. cbn [sh_eqs] in Hs. split_sh Hs H1 H2. cbn [abs_eqs].
    rewrite <- (Ht H2 (XBin BAnd accx (abs_eq a)) n c). cbn [xeval xbinop]. unfold bindM.
    destruct (xeval doc accx n c) as [[v|e| |] c1]; try reflexivity. rewrite eval_and_rest_cons.
    destruct (negb (val_to_bool v)).
    + unfold ret at 2. cbv beta iota. rewrite (and_rest_false t n c1). reflexivity.
    + unfold bindM. rewrite (Ha H1 n c1). destruct (xeval doc (abs_eq a) n c1) as [[w|e| |] c2]; reflexivity.
  - (* EEq *) intros f Hf r Hr Hs n c. cbn [sh_eq] in Hs. split_sh Hs H1 H2.
    rewrite eval_eq_expr_eq. cbn [abs_eq]. rewrite <- (Hr H2 (abs_rel f) n c). unfold bindM. rewrite (Hf H1 n c). reflexivity.
  - (* EqopNil *) intros _ accx n c. cbn [abs_eqops]. unfold bindM.
    destruct (xeval doc accx n c) as [[v|e| |] c1]; try reflexivity.
  - (* EqopCons *) intros op e He t Ht Hs accx n c. cbn [sh_eqops] in Hs. split_sh Hs H1 H2. cbn [abs_eqops].
    rewrite <- (Ht H2 (XBin (abs_eq_op op) accx (abs_rel e)) n c). cbn [xeval].
    destruct op; cbn [abs_eq_op xbinop]; unfold bindM;
      (destruct (xeval doc accx n c) as [[v|e0| |] c1]; try reflexivity); rewrite eval_eq_ops_cons; unfold bindM;
      rewrite (He H1 n c1); (destruct (xeval doc (abs_rel e) n c1) as [[w|e0| |] c2]; try reflexivity);
      unfold lift; destruct (eq_value doc _ v w); reflexivity.
  - (* ERel *) intros f Hf r Hr Hs n c. cbn [sh_rel] in Hs. split_sh Hs H1 H2.
    rewrite eval_rel_expr_eq. cbn [abs_rel]. rewrite <- (Hr H2 (abs_add f) n c). unfold bindM. rewrite (Hf H1 n c). reflexivity.
  - (* RelopNil *) intros _ accx n c. cbn [abs_relops]. unfold bindM.
    destruct (xeval doc accx n c) as [[v|e| |] c1]; try reflexivity.
  - (* RelopCons *) intros op e He t Ht Hs accx n c. cbn [sh_relops] in Hs. split_sh Hs H1 H2. cbn [abs_relops].
    rewrite <- (Ht H2 (XBin (abs_rel_op op) accx (abs_add e)) n c). cbn [xeval].
    destruct op; cbn [abs_rel_op xbinop]; unfold bindM;
      (destruct (xeval doc accx n c) as [[v|e0| |] c1]; try reflexivity); rewrite eval_rel_ops_cons; unfold bindM;
      rewrite (He H1 n c1); (destruct (xeval doc (abs_add e) n c1) as [[w|e0| |] c2]; try reflexivity);
      unfold lift; destruct (rel_value doc _ v w); reflexivity.
  - (* EAdd *) intros f Hf r Hr Hs n c. cbn [sh_add] in Hs. split_sh Hs H1 H2.
    rewrite eval_add_expr_eq. cbn [abs_add]. rewrite <- (Hr H2 (abs_mul f) n c). unfold bindM. rewrite (Hf H1 n c). reflexivity.
  - (* AddopNil *) intros _ accx n c. cbn [abs_addops]. unfold bindM.
    destruct (xeval doc accx n c) as [[v|e| |] c1]; try reflexivity.
  - (* AddopCons *) intros op e He t Ht Hs accx n c. cbn [sh_addops] in Hs. split_sh Hs H1 H2. cbn [abs_addops].
    rewrite <- (Ht H2 (XBin (abs_add_op op) accx (abs_mul e)) n c). cbn [xeval].
    destruct op; cbn [abs_add_op xbinop]; unfold bindM;
      (destruct (xeval doc accx n c) as [[v|e0| |] c1]; try reflexivity); rewrite eval_add_ops_cons; unfold bindM;
      rewrite (He H1 n c1); (destruct (xeval doc (abs_mul e) n c1) as [[w|e0| |] c2]; try reflexivity);
      unfold lift; destruct (arith doc _ v w); reflexivity.
  - (* EMul *) intros f Hf r Hr Hs n c. cbn [sh_mul] in Hs. split_sh Hs H1 H2.
    rewrite eval_mul_expr_eq. cbn [abs_mul]. rewrite <- (Hr H2 (abs_unary f) n c). unfold bindM. rewrite (Hf H1 n c). reflexivity.
  - (* MulopNil *) intros _ accx n c. cbn [abs_mulops]. unfold bindM.
    destruct (xeval doc accx n c) as [[v|e| |] c1]; try reflexivity.
  - (* MulopCons *) intros op e He t Ht Hs accx n c. cbn [sh_mulops] in Hs. split_sh Hs H1 H2. cbn [abs_mulops].
    rewrite <- (Ht H2 (XBin (abs_mul_op op) accx (abs_unary e)) n c). cbn [xeval].
    destruct op; cbn [abs_mul_op xbinop]; unfold bindM;
      (destruct (xeval doc accx n c) as [[v|e0| |] c1]; try reflexivity); rewrite eval_mul_ops_cons; unfold bindM;
      rewrite (He H1 n c1); (destruct (xeval doc (abs_unary e) n c1) as [[w|e0| |] c2]; try reflexivity);
      unfold lift; destruct (arith doc _ v w); reflexivity.
  - (* EUnary *) intros inv u Hu Hs n c. cbn [sh_unary] in Hs. rewrite eval_unary_expr_eq. cbn [abs_unary].
    rewrite N2Nat.inj_iter. rewrite (xeval_iter_neg (N.to_nat inv) (abs_union u) n c). unfold bindM. rewrite (Hu Hs n c). reflexivity.
  - (* EUnion *) intros l Hl Hs n. cbn [sh_union] in Hs. split_sh Hs H1 H2. destruct (Hl H2) as [_ HB]. apply HB.
    intros ->. discriminate.
  - (* PathNil *) intros _. split; [intros accx n mraw _ Hne; contradiction|intros Hne; contradiction].
  - (* PathCons *) intros p Hp t Ht Hs. cbn [sh_paths] in Hs. split_sh Hs H1 H2. specialize (Hp H1). destruct (Ht H2) as [HA HB].
    assert (A : forall accx n mraw, xeval doc accx n ≡ (v <- mraw ;; ret (fin v)) ->
              (v <- mraw ;; match v with XNodes acc => eval_union_rest doc (PathCons p t) acc n | _ => lift (Err XErrInvalidType) end)
              ≡ xeval doc (abs_paths accx (PathCons p t)) n).
    { intros accx n mraw Hacc. cbn [abs_paths].
      assert (Hacc' : xeval doc (XBin BUnion accx (abs_path p)) n ≡ (v <- union_step mraw (eval_path_expr doc p n) ;; ret (fin v))).
      { cbn [xeval]. eapply meq_trans; [|apply xunion_fin]. apply xbinop_cong; [exact Hacc|apply meq_sym, Hp]. }
      destruct t as [|p2 t2].
      - cbn [abs_paths]. eapply meq_trans; [|apply meq_sym, Hacc']. intros c. unfold union_step, bindM.
        destruct (mraw c) as [[v|e| |] c1]; try reflexivity. destruct v; try reflexivity.
        rewrite eval_union_rest_cons. unfold bindM. destruct (eval_path_expr doc p n c1) as [[w|e| |] c2]; try reflexivity.
        destruct w; try reflexivity.
      - eapply meq_trans; [|apply (HA _ n _ Hacc'); discriminate]. intros c. unfold union_step, bindM.
        destruct (mraw c) as [[v|e| |] c1]; try reflexivity. destruct v; try reflexivity.
        rewrite eval_union_rest_cons. unfold bindM. destruct (eval_path_expr doc p n c1) as [[w|e| |] c2]; try reflexivity.
        destruct w; reflexivity. }
    split; [intros accx n mraw Hacc _; apply A; exact Hacc|]. intros _ n. destruct t as [|p2 t2].
    + rewrite eval_union_expr_one. cbn [abs_union abs_paths]. eapply meq_trans; [|apply Hp].
      apply bind_cong_r. intros v. destruct v; apply meq_refl.
    + rewrite eval_union_expr_many. cbn [abs_union]. apply (HA (abs_path p) n (eval_path_expr doc p n)); [apply meq_sym, Hp|discriminate].
  - (* PRoot *) intros _ n c. rewrite eval_path_expr_root. cbn [abs_path xeval]. unfold bindM, ret. cbn [fin].
    rewrite uf_small; [reflexivity|apply root_of_small].
  - (* PFilter *) intros f Hf Hs n. cbn [sh_path] in Hs. destruct (Hf Hs) as [F1 F2]. rewrite eval_path_expr_filter.
    cbn [abs_path]. eapply meq_trans; [apply bind_fin, F2|apply F1].
  - (* PRel *) intros l Hl Hs n. cbn [sh_path] in Hs. destruct l as [s ops]. rewrite eval_path_expr_rel. cbn [abs_path xeval].
    eapply meq_trans; [|apply (path_fin (ret [n]) (eval_rel_path doc (ERelPath s ops))); exact (Hl Hs)].
    intros c. reflexivity.
  - (* PAbs *) intros op l Hl Hs n. cbn [sh_path] in Hs. destruct l as [s ops]. rewrite eval_path_expr_abs. cbn [abs_path xeval].
    destruct op; apply (path_fin _ (eval_rel_path doc (ERelPath s ops))); exact (Hl Hs).
  - (* PFilterPath *) intros f Hf op l Hl Hs n. cbn [sh_path] in Hs. split_sh Hs H1 H2. destruct (Hf H1) as [F1 F2].
    destruct l as [s ops]. rewrite eval_path_expr_filterpath. cbn [abs_path xeval].
    eapply meq_trans; [apply bind_assoc|]. apply bind_cong; [apply F1|]. intros v.
    destruct v; try (intros c; reflexivity).
    destruct op; apply (path_fin _ (eval_rel_path doc (ERelPath s ops))); exact (Hl H2).
  - (* EFilter *) intros p Hp preds Hps Hs. cbn [sh_filter] in Hs. split_sh Hs H1 H2.
    destruct (Hp H1) as [P1 P2]. destruct (Hps H2) as [Q1 Q2]. destruct preds as [|q t].
    + split; intros n; rewrite eval_filter_expr_nopred; [cbn [abs_filter]; apply P1|apply P2].
    + split; intros n.
      * rewrite eval_filter_expr_preds. cbn [abs_filter abs_exprs xeval]. apply bind_cong; [apply P1|]. intros v.
        destruct v; try apply meq_refl. apply bind_cong_l. apply (Q1 l).
      * intros c v c' H. rewrite eval_filter_expr_preds in H. apply bindM_ok_inv in H. destruct H as [v1 [c1 [E1 E2]]].
        destruct v1 as [b|l|x|s]; try (unfold lift in E2; discriminate).
        apply bindM_ok_inv in E2. destruct E2 as [r [c2 [E3 E4]]]. apply ret_ok_inv in E4. destruct E4 as [-> _].
        cbn [canon]. rewrite (Q1 l c1) in E3. eapply (xpreds_sub (key_lt doc)) in E3. apply E3.
        apply (P2 n c (XNodes l) c1 E1).
  - (* PrimVariable *) intros q _. split; intros n.
    + rewrite eval_primary_expr_variable. cbn [abs_primary xeval]. rewrite conc_abs_qname. intros c. reflexivity.
    + intros c v c' H. rewrite eval_primary_expr_variable in H.
      destruct (expanded_name (c_ns c) q) as [[[? ?] ?]| | |]; discriminate.
  - (* PrimExpr *) intros x Hx Hs. cbn [sh_primary] in Hs. split; intros n; rewrite eval_primary_expr_expr.
    + cbn [abs_primary xeval]. apply Hx, Hs.
    + intros c v c' H. destruct (value_key_sorted_all doc) as [K _]. eapply K, H.
  - (* PrimLiteral *) intros s _. split; intros n; rewrite eval_primary_expr_literal.
    + apply meq_refl.
    + intros c v c' H. inversion H; subst. exact I.
  - (* PrimNumber *) intros s _. split; intros n; rewrite eval_primary_expr_number.
    + apply meq_refl.
    + intros c v c' H. destruct (rust_parse_f64 s); inversion H; subst. exact I.
  - (* PrimFunction *) intros name args Ha Hs. cbn [sh_primary] in Hs. destruct (Ha Hs) as [_ Q2]. split; intros n; rewrite eval_primary_expr_function.
    + cbn [abs_primary xeval]. rewrite conc_abs_qname. intros c. unfold xcall. rewrite len_map, len_abs_exprs.
      destruct (resolve_fn (c_ns c) name (expr_list_len args)); try reflexivity. unfold bindM. rewrite (Q2 n c). reflexivity.
    + intros c v c' H. destruct (resolve_fn (c_ns c) name (expr_list_len args)); try discriminate.
      apply bindM_ok_inv in H. destruct H as [vs [c1 [_ E]]]. eapply exec_fn_kan, E.
  - (* ExprNil *) intros _. split; [intros nodes; rewrite eval_predicates_nil|intros n; rewrite eval_args_nil]; apply meq_refl.
  - (* ExprCons *) intros e He t Ht Hs. cbn [sh_exprs] in Hs. split_sh Hs H1 H2. destruct (Ht H2) as [Q1 Q2]. split.
    + intros nodes c. rewrite eval_predicates_cons. cbn [abs_exprs map xpreds].
      rewrite (pred_loop_cong (predicate_of (eval_or_expr doc e)) (predicate_of (xeval doc (abs_or e)))).
      * destruct (pred_loop (predicate_of (xeval doc (abs_or e))) nodes 1 (push_size (len nodes) c)) as [[fl|e0| |] c1]; try reflexivity.
        apply Q1.
      * intros x. apply predicate_of_cong, He, H1.
    + intros n. rewrite eval_args_cons. cbn [abs_exprs map xargs]. apply bind_cong; [apply He, H1|]. intros v. apply bind_cong_l, Q2.
  - (* ERelPath *) intros s Hs0 ops Hops Hs n. cbn [sh_relpath] in Hs. split_sh Hs H1 H2. rewrite eval_rel_path_eq. cbn [relpath_sem].
    apply bind_cong; [apply Hs0, H1|]. intros ns. apply Hops, H2.
  - (* StepopNil *) intros _ nodes. rewrite eval_stepops_nil. apply meq_refl.
  - (* StepopCons *) intros op s Hs0 t Ht Hs nodes. cbn [sh_stepops] in Hs. split_sh Hs H1 H2. rewrite eval_stepops_cons.
    cbn [abs_stepops xrest map xstepops].
    destruct op; (apply bind_cong_r; intros from; apply bind_cong; [apply flat_map_m_cong, Hs0, H1|intros coll; apply Ht, H2]).
  - (* StepTest *) intros axis test preds Hps Hs n. cbn [sh_step] in Hs. destruct (Hps Hs) as [Q1 _]. rewrite eval_step_test.
    cbn [abs_step]. unfold xstepf. cbn [xstep_with]. rewrite conc_abs_test. destruct axis as [a|s].
    + cbn [abs_axis conc_axis]. rewrite conc_abs_axis_name. intros c. unfold step_sem.
      destruct (bind (axis_nodes doc (AxisName a) n) (filter_res (eval_node_test doc (c_ns c) (AxisName a) test))); try reflexivity. apply Q1.
    + destruct (abs_axis_cases s) as [[-> E]|[E1 E2]].
      * rewrite E. cbn [conc_axis]. intros c. unfold step_sem.
        destruct (bind (axis_nodes doc (AxisAbbreviated [64]) n) (filter_res (eval_node_test doc (c_ns c) (AxisAbbreviated [64]) test))); try reflexivity. apply Q1.
      * rewrite E2. cbn [conc_axis]. eapply meq_trans; [|apply step_sem_abbrev, E1]. intros c. unfold step_sem.
        destruct (bind (axis_nodes doc (AxisAbbreviated s) n) (filter_res (eval_node_test doc (c_ns c) (AxisAbbreviated s) test))); try reflexivity. apply Q1.
  - (* StepCurrent *) intros _ n. rewrite eval_step_current. apply meq_refl.
  - (* StepParent *) intros _ n. rewrite eval_step_parent. apply meq_refl.
Qed.

Theorem eval_abs (e : expr) (n : node) (c : ctx) : sh_or e = true -> eval_expr doc e n c = xeval doc (abs_or e) n c.
Proof. intros H. destruct eval_abs_all as [Hor _]. apply (Hor e H n c). Qed.

End Bridge.
