(** * [split(' ') / filter / join(" ")] of the Rust code is the space normalization of XML 1.0 3.3.3,
    and sanity lemmas about the specification function [tokenized] itself. *)
From Coq Require Import List NArith Bool Lia.
From XmlRs Require Import Base.CPred Spec.AttrNorm Model.AttrModel.
Import ListNotations.
Open Scope N_scope.

Definition starts_sp (s : str) : bool := match s with c :: _ => c =? 32 | [] => false end.
Definition words (s : str) : list str := filter nonempty (split_sp s).

Lemma split_cons (s : str) : exists w ws, split_sp s = w :: ws.
Proof.
  induction s as [|c r IH]; cbn [split_sp]; [eauto|].
  destruct (c =? 32); [eauto|]. destruct IH as (w & ws & ->). eauto.
Qed.

Lemma words_sp (r : str) : words (32 :: r) = words r.
Proof. unfold words. cbn [split_sp]. rewrite N.eqb_refl. reflexivity. Qed.

Lemma words_nonsp (c : char) (r : str) : (c =? 32) = false ->
  exists w ws, split_sp r = w :: ws /\ words (c :: r) = (c :: w) :: filter nonempty ws.
Proof.
  intros Hc. destruct (split_cons r) as (w & ws & E). exists w, ws. split; [exact E|].
  unfold words. cbn [split_sp]. rewrite Hc, E. reflexivity.
Qed.

Lemma join_cons_char (c : char) (w : str) (F : list str) : join_sp ((c :: w) :: F) = c :: join_sp (w :: F).
Proof. destruct F; reflexivity. Qed.

Definition pre (s : str) (ws : list str) : str :=
  if starts_sp s then match ws with [] => [] | _ => 32 :: join_sp ws end else join_sp ws.

Lemma collapse_words (s : str) : collapse s = pre s (words s).
Proof.
  induction s as [|c r IH]; [reflexivity|].
  destruct (c =? 32) eqn:Hc.
  - apply N.eqb_eq in Hc. subst c. rewrite words_sp. unfold pre at 1. cbn [starts_sp collapse].
    rewrite N.eqb_refl. destruct r as [|d r'].
    + reflexivity.
    + destruct (d =? 32) eqn:Hd.
      * rewrite IH. unfold pre. cbn [starts_sp]. rewrite Hd. reflexivity.
      * rewrite IH. unfold pre. cbn [starts_sp]. rewrite Hd.
        destruct (words_nonsp d r' Hd) as (w & ws & _ & ->). reflexivity.
  - unfold pre at 1. cbn [starts_sp collapse]. rewrite Hc.
    destruct (words_nonsp c r Hc) as (w & ws & E & ->).
    rewrite join_cons_char. f_equal. rewrite IH. unfold pre, words. rewrite E.
    destruct r as [|d r']; [cbn [split_sp] in E; injection E as <- <-; reflexivity|].
    cbn [starts_sp]. cbn [split_sp] in E. destruct (d =? 32) eqn:Hd.
    + injection E as <- <-. cbn [filter nonempty]. destruct (filter nonempty (split_sp r')); reflexivity.
    + destruct (split_sp r') as [|w' ws']; injection E as <- <-; reflexivity.
Qed.

Lemma words_strip (s : str) : words (strip_leading s) = words s.
Proof.
  induction s as [|c r IH]; [reflexivity|]. cbn [strip_leading].
  destruct (c =? 32) eqn:Hc; [|reflexivity]. apply N.eqb_eq in Hc. subst c.
  rewrite words_sp. exact IH.
Qed.

Lemma strip_starts (s : str) : starts_sp (strip_leading s) = false.
Proof.
  induction s as [|c r IH]; [reflexivity|]. cbn [strip_leading].
  destruct (c =? 32) eqn:Hc; [exact IH|]. cbn [starts_sp]. exact Hc.
Qed.

(** the model's tokenization is the specification's *)
Theorem split_filter_join_tokenized (s : str) : split_filter_join s = tokenized s.
Proof.
  unfold split_filter_join, tokenized. rewrite collapse_words. unfold pre.
  rewrite strip_starts, words_strip. reflexivity.
Qed.

(** ** the specification function does what 3.3.3 says *)

(** no leading space, no trailing space, no two adjacent spaces *)
Fixpoint no_double (s : str) : bool :=
  match s with
  | a :: (b :: _) as t => negb ((a =? 32) && (b =? 32)) && no_double t
  | _ => true
  end.

Lemma collapse_head_sp (s : str) : starts_sp (collapse s) = true ->
  exists r, collapse s = 32 :: r /\ starts_sp r = false /\ r <> [].
Proof.
  induction s as [|c r IH]; cbn [collapse starts_sp]; [discriminate|].
  destruct (c =? 32) eqn:Hc.
  - destruct r as [|d r']; [cbn; discriminate|]. destruct (d =? 32) eqn:Hd; [exact IH|].
    intros _. eexists; split; [reflexivity|]. cbn [collapse]. rewrite Hd. cbn [starts_sp].
    split; [exact Hd|discriminate].
  - cbn [starts_sp]. rewrite Hc. discriminate.
Qed.

Lemma collapse_no_double (s : str) : no_double (collapse s) = true.
Proof.
  induction s as [|c r IH]; [reflexivity|]. cbn [collapse].
  destruct (c =? 32) eqn:Hc.
  - destruct r as [|d r']; [reflexivity|]. destruct (d =? 32) eqn:Hd; [exact IH|].
    cbn [collapse] in *. rewrite Hd in *.
    change (no_double (32 :: d :: collapse r')) with
      (negb ((32 =? 32) && (d =? 32)) && no_double (d :: collapse r')).
    rewrite Hd, IH. reflexivity.
  - destruct (collapse r) as [|x t] eqn:E; [reflexivity|].
    change (no_double (c :: x :: t)) with (negb ((c =? 32) && (x =? 32)) && no_double (x :: t)).
    rewrite Hc, IH. reflexivity.
Qed.

Lemma collapse_last (s : str) : forall x : char, x <> 32 -> last (collapse s) x <> 32.
Proof.
  induction s as [|c r IH]; intros x Hx; [exact Hx|]. cbn [collapse].
  destruct (c =? 32) eqn:Hc.
  - destruct r as [|d r']; [exact Hx|]. destruct (d =? 32) eqn:Hd; [exact (IH x Hx)|].
    specialize (IH x Hx). cbn [collapse] in *. rewrite Hd in *.
    change (last (32 :: d :: collapse r') x) with (last (d :: collapse r') x). exact IH.
  - destruct (collapse r) as [|y t] eqn:E2.
    + cbn [last]. apply N.eqb_neq. exact Hc.
    + change (last (c :: y :: t) x) with (last (y :: t) x). exact (IH x Hx).
Qed.

Theorem tokenized_no_leading (s : str) : starts_sp (tokenized s) = false.
Proof.
  unfold tokenized. destruct (starts_sp (collapse (strip_leading s))) eqn:E; [|reflexivity].
  exfalso. rewrite collapse_words in E. unfold pre in E. rewrite strip_starts in E.
  rewrite words_strip in E. unfold words in E.
  assert (H : forall l, Forall (fun w => nonempty w = true /\ forallb (fun c => negb (c =? 32)) w = true) l ->
                        starts_sp (join_sp l) = false).
  { intros l Hl. destruct Hl as [|w l' [Hw Hw'] Hl']; [reflexivity|].
    destruct w as [|c w]; [discriminate|]. cbn [forallb] in Hw'. apply andb_prop in Hw' as [Hc _].
    destruct l'; cbn [join_sp app starts_sp]; destruct (c =? 32); auto; discriminate. }
  rewrite H in E; [discriminate|].
  clear. induction s as [|c r IH]; cbn [split_sp filter nonempty]; [constructor|].
  destruct (c =? 32) eqn:Hc; [exact IH|].
  destruct (split_cons r) as (w & ws & Es). rewrite Es in *. cbn [filter nonempty].
  destruct w as [|d w]; cbn [filter nonempty] in *.
  - constructor; [|exact IH]. cbn [forallb]. rewrite Hc. auto.
  - inversion IH as [|? ? [_ Hw] Hl]; subst. constructor; [|exact Hl].
    split; [reflexivity|]. cbn [forallb] in *. rewrite Hc. exact Hw.
Qed.

Theorem tokenized_no_trailing (s : str) : forall x, x <> 32 -> last (tokenized s) x <> 32.
Proof.
  intros x Hx. apply collapse_last. exact Hx.
Qed.

Theorem tokenized_no_double (s : str) : no_double (tokenized s) = true.
Proof. apply collapse_no_double. Qed.

(** the non-space runs are untouched *)
Theorem tokenized_words (s : str) : words (tokenized s) = words s.
Proof.
  rewrite <- split_filter_join_tokenized. change (split_filter_join s) with (join_sp (words s)).
  assert (H : forall l, Forall (fun w => nonempty w = true /\ forallb (fun c => negb (c =? 32)) w = true) l ->
                        words (join_sp l) = l).
  { induction l as [|w l IH]; intros Hl; [reflexivity|].
    inversion Hl as [|? ? [Hw Hw'] Hl']; subst. specialize (IH Hl').
    assert (G : forall u rest, forallb (fun c => negb (c =? 32)) u = true ->
                 split_sp (u ++ 32 :: rest) = u :: split_sp rest).
    { induction u as [|c u IHu]; intros rest Hu; cbn [app split_sp]; [rewrite N.eqb_refl; reflexivity|].
      cbn [forallb] in Hu. apply andb_prop in Hu as [Hc Hu]. apply negb_true_iff in Hc. rewrite Hc.
      rewrite (IHu rest Hu). reflexivity. }
    assert (G0 : forall u, forallb (fun c => negb (c =? 32)) u = true -> split_sp u = [u]).
    { induction u as [|c u IHu]; intros Hu; cbn [split_sp]; [reflexivity|].
      cbn [forallb] in Hu. apply andb_prop in Hu as [Hc Hu]. apply negb_true_iff in Hc. rewrite Hc.
      rewrite (IHu Hu). reflexivity. }
    destruct l as [|w2 l2].
    - cbn [join_sp]. unfold words. rewrite (G0 w Hw'). cbn [filter]. rewrite Hw. reflexivity.
    - change (join_sp (w :: w2 :: l2)) with (w ++ 32 :: join_sp (w2 :: l2)).
      unfold words in *. rewrite (G w _ Hw'). cbn [filter]. rewrite Hw. f_equal. exact IH. }
  apply H. unfold words. clear.
  induction s as [|c r IH]; cbn [split_sp filter nonempty]; [constructor|].
  destruct (c =? 32) eqn:Hc; [exact IH|].
  destruct (split_cons r) as (w & ws & Es). rewrite Es in *. cbn [filter nonempty].
  destruct w as [|d w]; cbn [filter nonempty] in *.
  - constructor; [|exact IH]. cbn [forallb]. rewrite Hc. auto.
  - inversion IH as [|? ? [_ Hw] Hl]; subst. constructor; [|exact Hl].
    split; [reflexivity|]. cbn [forallb] in *. rewrite Hc. exact Hw.
Qed.

Theorem tokenized_idempotent (s : str) : tokenized (tokenized s) = tokenized s.
Proof.
  rewrite <- (split_filter_join_tokenized (tokenized s)).
  change (split_filter_join (tokenized s)) with (join_sp (words (tokenized s))).
  rewrite tokenized_words. exact (split_filter_join_tokenized s).
Qed.
