//! One grammar production on one string: `<grammar> <production> <string>` ->
//! `ok <chars consumed>` | `err` | `unknown`.
use crate::util::dec;

pub fn case(line: &str) -> String {
    let mut it = line.split(' ');
    let grammar = it.next().unwrap_or("");
    let name = it.next().unwrap_or("");
    let s = match dec(it.next().unwrap_or("-")) {
        Some(s) => s,
        None => return "badinput".to_string(),
    };
    let r = match grammar {
        "xml" => xml_nom::verif_production(name, &s).or_else(|| xml_parser::verif_production(name, &s)),
        "xpath" => xml_nom::verif_production(name, &s).or_else(|| xml_xpath::expr::verif_production(name, &s)),
        _ => None,
    };
    match r {
        None => "unknown".to_string(),
        Some(Err(())) => "err".to_string(),
        Some(Ok(n)) => format!("ok {}", s[..n].chars().count()),
    }
}
