"""C06 (evaluation half) -- XPath evaluation is total.  Stand-alone driver of
xpath_common.eval_totality; checks/C06.py (parser termination + this) calls the same function."""
from . import lib
from . import xpath_common as X

def check(run):
    run.prop = 'C06'
    run.trusted = ['Coq 8.16.1 kernel + VM', 'Model/XPathEval.v (Panic and OutOfFuel are values), tied by the xpath correspondence',
                   'harness: catch_unwind per query, isolated process with a 10 s limit for cases the model predicts to hang']
    proved, _ = lib.proof_step(run, 'C06eval', [])
    okr, mok, _ = lib.build_binaries(run, model_areas=['xpath'])
    if okr and mok.get('xpath'):
        X.eval_totality(run, n_random=300 if run.tier == 'quick' else 4000, isolate_limit=2 if run.tier == 'quick' else 8)
    run.prop = 'C06eval'
    return run.finish(level='proof',
        rule='cases = queries; non-trivial = distinct (document, expression) accepted by the expression parser; streams: unsupported construct x syntactic position, context-node kind x axis, garbage, generated with injected failures',
        assumptions=['native stack depth and wall clock are outside the model'])

def replay(path):
    return X.replay(path)
