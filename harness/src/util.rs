/// "65,66" -> "AB"; "-" -> "".  Returns None when a code point is not a scalar value.
pub fn dec(s: &str) -> Option<String> {
    if s == "-" {
        return Some(String::new());
    }
    let mut out = String::new();
    for p in s.split(',') {
        let n: u32 = p.parse().ok()?;
        out.push(char::from_u32(n)?);
    }
    Some(out)
}

pub fn enc(s: &str) -> String {
    if s.is_empty() {
        return "-".to_string();
    }
    s.chars()
        .map(|c| (c as u32).to_string())
        .collect::<Vec<_>>()
        .join(",")
}
