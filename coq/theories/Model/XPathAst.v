(** * The abstract syntax of xpath/src/expr/model.rs as Coq inductives.

    One inductive per Rust struct/enum.  Every [Vec<T>] of the Rust types becomes its own
    list-like inductive ([and_list], [eqop_list], ...) instead of [list T]: the evaluator is
    then an ordinary mutual [Fixpoint] (one function per Rust function, one per [for] loop)
    and [Scheme]/[Combined Scheme] give the mutual induction principle the proofs use.

    [OrExpr.operands] and [AndExpr.operands] are never empty ([separated_list1] in the
    parser; the evaluator does [first().unwrap()]): they are represented as first operand +
    rest, so the harness cannot even dump an empty one (the OCaml reader answers [badast]).
    [UnionExpr.operands] stays a plain list because the evaluator handles the empty case.

    Strings are [str = list N] (code points).  The harness prints the parsed
    [xml_xpath::expr::model::Expr] structurally (harness/src/domains/xpath.rs, [dump_ast]);
    ocaml/domains/xpath/xpath.ml reads that text back into these types. *)
From Coq Require Import List NArith.
From XmlRs Require Import Base.CPred.
Import ListNotations.

(** xml_nom::model::QName *)
Inductive qname :=
| QPrefixed (prefix local : str)
| QUnprefixed (local : str).

Inductive eq_op := OpEqual | OpNotEqual.
Inductive rel_op := OpLessThan | OpGreaterThan | OpLessEqual | OpGreaterEqual.
Inductive add_op := OpAdd | OpSub.
Inductive mul_op := OpMul | OpDiv | OpMod.

(** LocationPathOperator: [/] and [//] *)
Inductive lp_op := LpCurrent | LpDescendantOrSelfNode.

Inductive axis_name :=
| AxAncestor | AxAncestorOrSelf | AxAttribute | AxChild | AxDescendant | AxDescendantOrSelf
| AxFollowing | AxFollowingSibling | AxNamespace | AxParent | AxPreceding | AxPrecedingSibling
| AxCurrent.

(** AxisSpecifier: a named axis, or the abbreviated form with the text the parser kept
    (["@"] for the attribute axis, anything else -- in practice [""] -- for child) *)
Inductive axis_spec :=
| AxisName (a : axis_name)
| AxisAbbreviated (s : str).

Inductive node_type := NtComment | NtText | NtPI | NtNode.

Inductive name_test :=
| NameAll                         (* [*] *)
| NameNamespace (prefix : str)    (* [p:*] *)
| NameQName (q : qname).

Inductive node_test :=
| TestName (t : name_test)
| TestType (t : node_type)
| TestPI (target : str).          (* processing-instruction('target') *)

Inductive or_expr :=                                   (* = Expr, PredicateExpr, Argument *)
| EOr (first : and_expr) (rest : and_list)
with and_list :=
| AndNil | AndCons (a : and_expr) (l : and_list)
with and_expr :=
| EAnd (first : eq_expr) (rest : eq_list)
with eq_list :=
| EqNil | EqCons (e : eq_expr) (l : eq_list)
with eq_expr :=
| EEq (operand : rel_expr) (operations : eqop_list)
with eqop_list :=
| EqopNil | EqopCons (op : eq_op) (e : rel_expr) (l : eqop_list)
with rel_expr :=
| ERel (operand : add_expr) (operations : relop_list)
with relop_list :=
| RelopNil | RelopCons (op : rel_op) (e : add_expr) (l : relop_list)
with add_expr :=
| EAdd (operand : mul_expr) (operations : addop_list)
with addop_list :=
| AddopNil | AddopCons (op : add_op) (e : mul_expr) (l : addop_list)
with mul_expr :=
| EMul (operand : unary_expr) (operations : mulop_list)
with mulop_list :=
| MulopNil | MulopCons (op : mul_op) (e : unary_expr) (l : mulop_list)
with unary_expr :=
| EUnary (inv : N) (value : union_expr)                (* inv = number of '-' signs *)
with union_expr :=
| EUnion (operands : path_list)
with path_list :=
| PathNil | PathCons (p : path_expr) (l : path_list)
with path_expr :=
| PRoot                                                (* [/] *)
| PFilter (f : filter_expr)                            (* Filter(f) *)
| PRel (l : rel_path)                                  (* Path(None, l) *)
| PAbs (op : lp_op) (l : rel_path)                     (* Path(Some((None, op)), l) *)
| PFilterPath (f : filter_expr) (op : lp_op) (l : rel_path)   (* Path(Some((Some(f), op)), l) *)
with filter_expr :=
| EFilter (primary : primary_expr) (predicates : expr_list)
with primary_expr :=
| PrimVariable (q : qname)
| PrimExpr (e : or_expr)
| PrimLiteral (s : str)
| PrimNumber (s : str)
| PrimFunction (name : qname) (args : expr_list)
with expr_list :=
| ExprNil | ExprCons (e : or_expr) (l : expr_list)
with rel_path :=                                       (* RelativeLocationPath *)
| ERelPath (operand : step) (operations : stepop_list)
with stepop_list :=
| StepopNil | StepopCons (op : lp_op) (s : step) (l : stepop_list)
with step :=
| StepTest (axis : axis_spec) (test : node_test) (predicates : expr_list)
| StepCurrent                                          (* [.] *)
| StepParent.                                          (* [..] *)

Definition expr := or_expr.

Scheme or_expr_mut := Induction for or_expr Sort Prop
with and_list_mut := Induction for and_list Sort Prop
with and_expr_mut := Induction for and_expr Sort Prop
with eq_list_mut := Induction for eq_list Sort Prop
with eq_expr_mut := Induction for eq_expr Sort Prop
with eqop_list_mut := Induction for eqop_list Sort Prop
with rel_expr_mut := Induction for rel_expr Sort Prop
with relop_list_mut := Induction for relop_list Sort Prop
with add_expr_mut := Induction for add_expr Sort Prop
with addop_list_mut := Induction for addop_list Sort Prop
with mul_expr_mut := Induction for mul_expr Sort Prop
with mulop_list_mut := Induction for mulop_list Sort Prop
with unary_expr_mut := Induction for unary_expr Sort Prop
with union_expr_mut := Induction for union_expr Sort Prop
with path_list_mut := Induction for path_list Sort Prop
with path_expr_mut := Induction for path_expr Sort Prop
with filter_expr_mut := Induction for filter_expr Sort Prop
with primary_expr_mut := Induction for primary_expr Sort Prop
with expr_list_mut := Induction for expr_list Sort Prop
with rel_path_mut := Induction for rel_path Sort Prop
with stepop_list_mut := Induction for stepop_list Sort Prop
with step_mut := Induction for step Sort Prop.

Combined Scheme ast_mutind from
  or_expr_mut, and_list_mut, and_expr_mut, eq_list_mut, eq_expr_mut, eqop_list_mut,
  rel_expr_mut, relop_list_mut, add_expr_mut, addop_list_mut, mul_expr_mut, mulop_list_mut,
  unary_expr_mut, union_expr_mut, path_list_mut, path_expr_mut, filter_expr_mut,
  primary_expr_mut, expr_list_mut, rel_path_mut, stepop_list_mut, step_mut.

(** lengths of the list-like types (the Rust code asks [len()] of some of them) *)
Fixpoint expr_list_len (l : expr_list) : N :=
  match l with ExprNil => 0%N | ExprCons _ t => N.succ (expr_list_len t) end.

Fixpoint path_list_len (l : path_list) : N :=
  match l with PathNil => 0%N | PathCons _ t => N.succ (path_list_len t) end.
