(** * The parser model only produces ASTs in which every union has an operand (C08).

    [parse_shaped]: whenever [parse_expr s = POk e r], [sh_or e = true].
    1. A property of parse TREES: under every [TMap L_model_UnionExpr_from] sits a non-empty list
       ([tokb]).  Every tree that [Peg.denote] produces for a grammar in which that label is only
       applied to [separated_list1] has it ([denote_tok]; the condition on the grammar is the
       decidable [gok], checked on the regenerated [G_xpath] by computation).
    2. [act] turns such a tree into a value all of whose ASTs are shaped ([act_vsh]). *)
From Coq Require Import List NArith Arith Lia Bool.
From XmlRs Require Import Base.CPred Model.Peg Model.XPathAst Model.ParseActionsXPath
  Gen.GrammarXPathGen Proofs.XPathParseBase Proofs.XPathParseAct Proofs.XPathParseTotal Proofs.XPathAstShaped.
Import ListNotations.
Local Open Scope nat_scope.

(** ** trees *)
Definition union_arg_ok (a : tree) : bool := match a with TList (_ :: _) => true | _ => false end.

Fixpoint tokb (t : tree) : bool :=
  match t with
  | TStr _ | TNone => true
  | TPair a b => tokb a && tokb b
  | TList l => forallb tokb l
  | TSome a => tokb a
  | TMap lab a => (if N.eqb lab L_model_UnionExpr_from then union_arg_ok a else true) && tokb a
  end.

(** ** grammars *)
Fixpoint gok (e : pexpr) : bool :=
  match e with
  | Tag _ | Chars0 _ | Chars1 _ | NT _ | Recognize _ | TakeExcept _ _ => true
  | Seq a b | SeqL a b | SeqR a b | Alt a b | SepBy0 a b | SepBy1 a b => gok a && gok b
  | Many0 a | Opt a => gok a
  | Map lab a => (if N.eqb lab L_model_UnionExpr_from then match a with SepBy1 _ _ => true | _ => false end else true) && gok a
  | Many1 _ | TakeUntil _ _ | VerifyEq _ _ _ => false
  end.

Section Tok.
Variable G : list pexpr.
Hypothesis HG : forallb gok G = true.

Lemma gok_body n : gok (body G n) = true.
Proof.
  unfold body. destruct (Nat.lt_ge_cases n (length G)) as [Hlt|Hge].
  - rewrite forallb_forall in HG. apply HG. apply nth_In. exact Hlt.
  - rewrite nth_overflow by exact Hge. reflexivity.
Qed.

Lemma produced_tok f p l : (forall s t r, denote G f p s = Ok (t, r) -> tokb t = true) ->
  Forall (produced G f p) l -> forallb tokb l = true.
Proof.
  intros H Hall. induction Hall as [|x l (s & r & Hx) _ IH]; [reflexivity|]. cbn [forallb].
  rewrite (H _ _ _ Hx). exact IH.
Qed.

Lemma denote_tok_e f :
  (forall n s t r, denote G f (NT n) s = Ok (t, r) -> tokb t = true) ->
  forall e s t r, gok e = true -> denote G f e s = Ok (t, r) -> tokb t = true.
Proof.
  intros HNT.
  induction e as [a|p|p|a IHa b IHb|a IHa b IHb|a IHa b IHb|a IHa b IHb|a IHa|a IHa|a IHa|a IHa b IHb|a IHa b IHb|a IHa|lab a IHa|a IHa pat|a IHa pat|p1 p2 a IHa|n];
    intros s t r Hg H; cbn [gok] in Hg.
  - apply inv_tag in H. subst. reflexivity.
  - apply inv_chars0 in H. destruct H as [x ->]. reflexivity.
  - apply inv_chars1 in H. destruct H as [x ->]. reflexivity.
  - apply andb_prop in Hg. destruct Hg as [Hg1 Hg2].
    apply inv_seq in H. destruct H as (ta & r1 & tb & Ha & Hb & ->). cbn [tokb]. rewrite (IHa _ _ _ Hg1 Ha), (IHb _ _ _ Hg2 Hb). reflexivity.
  - apply andb_prop in Hg. destruct Hg as [Hg1 Hg2].
    apply inv_seql in H. destruct H as (r1 & tb & Ha & Hb). apply (IHa _ _ _ Hg1 Ha).
  - apply andb_prop in Hg. destruct Hg as [Hg1 Hg2].
    apply inv_seqr in H. destruct H as (ta & r1 & Ha & Hb). apply (IHb _ _ _ Hg2 Hb).
  - apply andb_prop in Hg. destruct Hg as [Hg1 Hg2].
    apply inv_alt in H. destruct H as [H|H]; [apply (IHa _ _ _ Hg1 H)|apply (IHb _ _ _ Hg2 H)].
  - apply inv_many0 in H. destruct H as (l & -> & Hall). cbn [tokb]. apply (produced_tok f a); [|exact Hall].
    intros s' t' r' H'. apply (IHa _ _ _ Hg H').
  - discriminate.
  - apply inv_opt in H. destruct H as [->|(t' & -> & H)]; [reflexivity|]. cbn [tokb]. apply (IHa _ _ _ Hg H).
  - apply andb_prop in Hg. destruct Hg as [Hg1 Hg2].
    apply inv_sepby0 in H. destruct H as (l & -> & Hall). cbn [tokb]. apply (produced_tok f b); [|exact Hall].
    intros s' t' r' H'. apply (IHb _ _ _ Hg2 H').
  - apply andb_prop in Hg. destruct Hg as [Hg1 Hg2].
    apply inv_sepby1 in H. destruct H as (x & l & -> & Hall). cbn [tokb]. apply (produced_tok f b); [|exact Hall].
    intros s' t' r' H'. apply (IHb _ _ _ Hg2 H').
  - apply inv_recognize in H. destruct H as [x ->]. reflexivity.
  - apply andb_prop in Hg. destruct Hg as [Hg1 Hg2].
    apply inv_map in H. destruct H as (t' & H & ->). cbn [tokb]. rewrite (IHa _ _ _ Hg2 H), andb_true_r.
    destruct (N.eqb lab L_model_UnionExpr_from); [|reflexivity].
    destruct a; try discriminate. apply inv_sepby1 in H. destruct H as (x & l & -> & _). reflexivity.
  - discriminate.
  - apply inv_take_except in H. destruct H as [x ->]. reflexivity.
  - discriminate.
  - apply (HNT _ _ _ _ H).
Qed.

Lemma denote_tok : forall f e s t r, gok e = true -> denote G f e s = Ok (t, r) -> tokb t = true.
Proof.
  induction f as [|f IHf]; apply denote_tok_e.
  - intros n s t r H. exfalso. eapply inv_nt0. exact H.
  - intros n s t r H. apply inv_nt in H. apply (IHf _ _ _ _ (gok_body n) H).
Qed.
End Tok.

(** ** values *)
Fixpoint vsh (v : val) : bool :=
  match v with
  | VPair a b => vsh a && vsh b
  | VList l => forallb vsh l
  | VSome a => vsh a
  | VStep s => sh_step s
  | VRelPath p => sh_relpath p
  | VPrimary p => sh_primary p
  | VCall _ args => sh_exprs args
  | VFilter f => sh_filter f
  | VPath p => sh_path p
  | VUnion u => sh_union u
  | VUnary u => sh_unary u
  | VMul m => sh_mul m
  | VAdd a => sh_add a
  | VRel r => sh_rel r
  | VEq e => sh_eq e
  | VAnd a => sh_and a
  | VOr o => sh_or o
  | _ => true
  end.

Lemma to_exprs_sh l : forall es, forallb vsh l = true -> to_exprs l = Some es -> sh_exprs es = true.
Proof.
  induction l as [|v l IH]; intros es Hl H; cbn [to_exprs] in H; [injection H as <-; reflexivity|].
  destruct v; try discriminate. destruct (to_exprs l) as [r|]; [|discriminate]. injection H as <-.
  cbn [forallb vsh] in Hl. apply andb_prop in Hl. destruct Hl as [H1 H2]. cbn [sh_exprs]. rewrite H1, (IH r H2 eq_refl). reflexivity.
Qed.
Lemma to_paths_sh l : forall es, forallb vsh l = true -> to_paths l = Some es -> sh_paths es = true.
Proof.
  induction l as [|v l IH]; intros es Hl H; cbn [to_paths] in H; [injection H as <-; reflexivity|].
  destruct v; try discriminate. destruct (to_paths l) as [r|]; [|discriminate]. injection H as <-.
  cbn [forallb vsh] in Hl. apply andb_prop in Hl. destruct Hl as [H1 H2]. cbn [sh_paths]. rewrite H1, (IH r H2 eq_refl). reflexivity.
Qed.
Lemma to_ands_sh l : forall es, forallb vsh l = true -> to_ands l = Some es -> sh_ands es = true.
Proof.
  induction l as [|v l IH]; intros es Hl H; cbn [to_ands] in H; [injection H as <-; reflexivity|].
  destruct v; try discriminate. destruct (to_ands l) as [r|]; [|discriminate]. injection H as <-.
  cbn [forallb vsh] in Hl. apply andb_prop in Hl. destruct Hl as [H1 H2]. cbn [sh_ands]. rewrite H1, (IH r H2 eq_refl). reflexivity.
Qed.
Lemma to_eqs_sh l : forall es, forallb vsh l = true -> to_eqs l = Some es -> sh_eqs es = true.
Proof.
  induction l as [|v l IH]; intros es Hl H; cbn [to_eqs] in H; [injection H as <-; reflexivity|].
  destruct v; try discriminate. destruct (to_eqs l) as [r|]; [|discriminate]. injection H as <-.
  cbn [forallb vsh] in Hl. apply andb_prop in Hl. destruct Hl as [H1 H2]. cbn [sh_eqs]. rewrite H1, (IH r H2 eq_refl). reflexivity.
Qed.
Lemma to_stepops_sh l : forall es, forallb vsh l = true -> to_stepops l = Some es -> sh_stepops es = true.
Proof.
  induction l as [|v l IH]; intros es Hl H; cbn [to_stepops] in H; [injection H as <-; reflexivity|].
  destruct v as [| a b| | | | | | | | | | | | | | | | | | | | | | | | | | | | | | |]; try discriminate. destruct a; try discriminate. destruct b; try discriminate.
  destruct (to_stepops l) as [rs|]; [|discriminate]. injection H as <-.
  cbn [forallb vsh andb] in Hl. apply andb_prop in Hl. destruct Hl as [H1 H2]. cbn [sh_stepops]. rewrite H1, (IH rs H2 eq_refl). reflexivity.
Qed.
Lemma to_eqops_sh l : forall es, forallb vsh l = true -> to_eqops l = Some es -> sh_eqops es = true.
Proof.
  induction l as [|v l IH]; intros es Hl H; cbn [to_eqops] in H; [injection H as <-; reflexivity|].
  destruct v as [| a b| | | | | | | | | | | | | | | | | | | | | | | | | | | | | | |]; try discriminate. destruct a; try discriminate. destruct b; try discriminate.
  destruct (to_eqops l) as [rs|]; [|discriminate]. injection H as <-.
  cbn [forallb vsh andb] in Hl. apply andb_prop in Hl. destruct Hl as [H1 H2]. cbn [sh_eqops]. rewrite H1, (IH rs H2 eq_refl). reflexivity.
Qed.
Lemma to_relops_sh l : forall es, forallb vsh l = true -> to_relops l = Some es -> sh_relops es = true.
Proof.
  induction l as [|v l IH]; intros es Hl H; cbn [to_relops] in H; [injection H as <-; reflexivity|].
  destruct v as [| a b| | | | | | | | | | | | | | | | | | | | | | | | | | | | | | |]; try discriminate. destruct a; try discriminate. destruct b; try discriminate.
  destruct (to_relops l) as [rs|]; [|discriminate]. injection H as <-.
  cbn [forallb vsh andb] in Hl. apply andb_prop in Hl. destruct Hl as [H1 H2]. cbn [sh_relops]. rewrite H1, (IH rs H2 eq_refl). reflexivity.
Qed.
Lemma to_addops_sh l : forall es, forallb vsh l = true -> to_addops l = Some es -> sh_addops es = true.
Proof.
  induction l as [|v l IH]; intros es Hl H; cbn [to_addops] in H; [injection H as <-; reflexivity|].
  destruct v as [| a b| | | | | | | | | | | | | | | | | | | | | | | | | | | | | | |]; try discriminate. destruct a; try discriminate. destruct b; try discriminate.
  destruct (to_addops l) as [rs|]; [|discriminate]. injection H as <-.
  cbn [forallb vsh andb] in Hl. apply andb_prop in Hl. destruct Hl as [H1 H2]. cbn [sh_addops]. rewrite H1, (IH rs H2 eq_refl). reflexivity.
Qed.
Lemma to_mulops_sh l : forall es, forallb vsh l = true -> to_mulops l = Some es -> sh_mulops es = true.
Proof.
  induction l as [|v l IH]; intros es Hl H; cbn [to_mulops] in H; [injection H as <-; reflexivity|].
  destruct v as [| a b| | | | | | | | | | | | | | | | | | | | | | | | | | | | | | |]; try discriminate. destruct a; try discriminate. destruct b; try discriminate.
  destruct (to_mulops l) as [rs|]; [|discriminate]. injection H as <-.
  cbn [forallb vsh andb] in Hl. apply andb_prop in Hl. destruct Hl as [H1 H2]. cbn [sh_mulops]. rewrite H1, (IH rs H2 eq_refl). reflexivity.
Qed.

(** ** the functions given to [map] preserve shapedness *)
Lemma poisoned_vsh v p : poisoned v = Some p -> vsh p = true.
Proof. destruct v; cbn [poisoned]; intros H; inversion H; reflexivity. Qed.

Lemma poisoned_cases v p : poisoned v = Some p -> p = VPanic \/ p = VBad.
Proof. destruct v; cbn [poisoned]; intros H; inversion H; auto. Qed.

Lemma first_poison_cases l p : first_poison l = Some p -> p = VPanic \/ p = VBad.
Proof.
  induction l as [|v l IH]; cbn [first_poison]; [discriminate|].
  destruct (poisoned v) eqn:E; [intros H; injection H as <-; eapply poisoned_cases, E|exact IH].
Qed.

Ltac dv v := destruct v; try reflexivity.

Lemma f_rel_path_from_sh v : vsh v = true -> vsh (f_rel_path_from v) = true.
Proof.
  unfold f_rel_path_from. intros H. dv v. dv v1. dv v2. cbn [vsh] in H. apply andb_prop in H. destruct H as [H1 H2].
  destruct (to_stepops l) eqn:E; [|reflexivity]. cbn [opt_val vsh sh_relpath]. rewrite H1, (to_stepops_sh _ _ H2 E). reflexivity.
Qed.

Lemma f_step_from_sh v : vsh v = true -> vsh (f_step_from v) = true.
Proof.
  unfold f_step_from. intros H. dv v. dv v1. dv v2. dv v2_1. dv v2_2. cbn [vsh andb] in H.
  destruct (to_exprs l) eqn:E; [|reflexivity]. cbn [opt_val vsh sh_step]. apply (to_exprs_sh _ _ H E).
Qed.

Lemma f_primary_from_sh v : vsh v = true -> vsh (f_primary_from v) = true.
Proof. unfold f_primary_from. intros H. dv v; exact H. Qed.

Lemma f_function_call_from_sh v : vsh v = true -> vsh (f_function_call_from v) = true.
Proof.
  unfold f_function_call_from. intros H. dv v. dv v1. dv v2. cbn [vsh andb] in H.
  destruct (to_exprs l) eqn:E; [|reflexivity]. cbn [opt_val vsh]. apply (to_exprs_sh _ _ H E).
Qed.

Definition union_val_ok (v : val) : Prop := v = VPanic \/ v = VBad \/ exists x xs, v = VList (x :: xs).

Lemma f_union_from_sh v : vsh v = true -> union_val_ok v -> vsh (f_union_from v) = true.
Proof.
  unfold f_union_from. intros H [->|[->|(x & xs & ->)]]; try reflexivity.
  destruct (to_paths (x :: xs)) as [ps|] eqn:E; [|reflexivity]. cbn [opt_val vsh sh_union].
  rewrite (to_paths_sh _ _ H E), andb_true_r. cbn [to_paths] in E. destruct x; try discriminate.
  destruct (to_paths xs); [|discriminate]. injection E as <-. reflexivity.
Qed.

Lemma f_path_filter_sh v : vsh v = true -> vsh (f_path_filter v) = true.
Proof.
  unfold f_path_filter. intros H. dv v. dv v1. dv v2.
  - cbn [vsh] in H. rewrite andb_true_r in H. exact H.
  - dv v2. dv v2_1. dv v2_2. cbn [vsh andb] in H. exact H.
Qed.

Lemma f_path_from_sh v : vsh v = true -> vsh (f_path_from v) = true.
Proof. unfold f_path_from. intros H. dv v; exact H. Qed.

Lemma f_path_abs_sh v : vsh v = true -> vsh (f_path_abs v) = true.
Proof. unfold f_path_abs. intros H. dv v. dv v1. dv v2. cbn [vsh andb] in H. exact H. Qed.

Lemma f_filter_from_sh v : vsh v = true -> vsh (f_filter_from v) = true.
Proof.
  unfold f_filter_from. intros H. dv v. dv v1. dv v2. cbn [vsh] in H. apply andb_prop in H. destruct H as [H1 H2].
  destruct (to_exprs l) eqn:E; [|reflexivity]. cbn [opt_val vsh sh_filter]. rewrite H1, (to_exprs_sh _ _ H2 E). reflexivity.
Qed.

Lemma f_or_from_sh v : vsh v = true -> vsh (f_or_from v) = true.
Proof.
  unfold f_or_from. intros H. dv v. dv l. dv v. cbn [vsh forallb] in H. apply andb_prop in H. destruct H as [H1 H2].
  destruct (to_ands l) eqn:E; [|reflexivity]. cbn [opt_val vsh sh_or]. rewrite H1, (to_ands_sh _ _ H2 E). reflexivity.
Qed.

Lemma f_and_from_sh v : vsh v = true -> vsh (f_and_from v) = true.
Proof.
  unfold f_and_from. intros H. dv v. dv l. dv v. cbn [vsh forallb] in H. apply andb_prop in H. destruct H as [H1 H2].
  destruct (to_eqs l) eqn:E; [|reflexivity]. cbn [opt_val vsh sh_and]. rewrite H1, (to_eqs_sh _ _ H2 E). reflexivity.
Qed.

Lemma f_eq_from_sh v : vsh v = true -> vsh (f_eq_from v) = true.
Proof.
  unfold f_eq_from. intros H. dv v. dv v1. dv v2. cbn [vsh] in H. apply andb_prop in H. destruct H as [H1 H2].
  destruct (to_eqops l) eqn:E; [|reflexivity]. cbn [opt_val vsh sh_eq]. rewrite H1, (to_eqops_sh _ _ H2 E). reflexivity.
Qed.

Lemma f_rel_from_sh v : vsh v = true -> vsh (f_rel_from v) = true.
Proof.
  unfold f_rel_from. intros H. dv v. dv v1. dv v2. cbn [vsh] in H. apply andb_prop in H. destruct H as [H1 H2].
  destruct (to_relops l) eqn:E; [|reflexivity]. cbn [opt_val vsh sh_rel]. rewrite H1, (to_relops_sh _ _ H2 E). reflexivity.
Qed.

Lemma f_add_from_sh v : vsh v = true -> vsh (f_add_from v) = true.
Proof.
  unfold f_add_from. intros H. dv v. dv v1. dv v2. cbn [vsh] in H. apply andb_prop in H. destruct H as [H1 H2].
  destruct (to_addops l) eqn:E; [|reflexivity]. cbn [opt_val vsh sh_add]. rewrite H1, (to_addops_sh _ _ H2 E). reflexivity.
Qed.

Lemma f_mul_from_sh v : vsh v = true -> vsh (f_mul_from v) = true.
Proof.
  unfold f_mul_from. intros H. dv v. dv v1. dv v2. cbn [vsh] in H. apply andb_prop in H. destruct H as [H1 H2].
  destruct (to_mulops l) eqn:E; [|reflexivity]. cbn [opt_val vsh sh_mul]. rewrite H1, (to_mulops_sh _ _ H2 E). reflexivity.
Qed.

Lemma f_unary_from_sh v : vsh v = true -> vsh (f_unary_from v) = true.
Proof. unfold f_unary_from. intros H. dv v. dv v1. dv v2. cbn [vsh] in H. apply andb_prop in H. apply H. Qed.

(** the remaining functions build no expression *)
Ltac ifs := repeat match goal with |- context [if ?b then _ else _] => destruct b; try reflexivity end.

Lemma f_qname_from_sh v : vsh (f_qname_from v) = true. Proof. unfold f_qname_from. dv v. Qed.
Lemma f_prefixed_name_from_sh v : vsh (f_prefixed_name_from v) = true. Proof. unfold f_prefixed_name_from. dv v. dv v1. dv v2. Qed.
Lemma f_lp_op_from_sh v : vsh (f_lp_op_from v) = true. Proof. unfold f_lp_op_from, lp_op_from. dv v. ifs. Qed.
Lemma f_axis_spec_from_sh v : vsh (f_axis_spec_from v) = true. Proof. unfold f_axis_spec_from. dv v. Qed.
Lemma f_axis_abbrev_sh v : vsh (f_axis_abbrev v) = true. Proof. unfold f_axis_abbrev. dv v. dv v. Qed.
Lemma f_axis_name_from_sh v : vsh (f_axis_name_from v) = true. Proof. unfold f_axis_name_from, axis_name_from. dv v. ifs. Qed.
Lemma f_node_test_from_sh v : vsh (f_node_test_from v) = true. Proof. unfold f_node_test_from. dv v. Qed.
Lemma f_primary_number_sh v : vsh (f_primary_number v) = true. Proof. unfold f_primary_number. dv v. Qed.
Lemma f_eq_op_from_sh v : vsh (f_eq_op_from v) = true. Proof. unfold f_eq_op_from, eq_op_from. dv v. ifs. Qed.
Lemma f_rel_op_from_sh v : vsh (f_rel_op_from v) = true. Proof. unfold f_rel_op_from, rel_op_from. dv v. ifs. Qed.
Lemma f_add_op_from_sh v : vsh (f_add_op_from v) = true. Proof. unfold f_add_op_from, add_op_from. dv v. ifs. Qed.
Lemma f_mul_op_from_sh v : vsh (f_mul_op_from v) = true. Proof. unfold f_mul_op_from, mul_op_from. dv v. ifs. Qed.
Lemma f_name_test_from_sh v : vsh (f_name_test_from v) = true. Proof. unfold f_name_test_from. dv v. Qed.
Lemma f_node_type_from_sh v : vsh (f_node_type_from v) = true. Proof. unfold f_node_type_from, node_type_from. dv v. ifs. Qed.

Lemma apply_label_vsh lab v : vsh v = true ->
  (N.eqb lab L_model_UnionExpr_from = true -> union_val_ok v) -> vsh (apply_label lab v) = true.
Proof.
  intros H Hu. unfold apply_label. destruct (poisoned v) eqn:P; [eapply poisoned_vsh, P|].
  repeat match goal with
  | |- vsh (if ?b then _ else _) = true => destruct b eqn:?
  end;
  first [ apply f_union_from_sh; [exact H|apply Hu; first [assumption|reflexivity]]
        | reflexivity
        | apply f_qname_from_sh | apply f_prefixed_name_from_sh | apply f_lp_op_from_sh | apply f_axis_spec_from_sh
        | apply f_axis_abbrev_sh | apply f_axis_name_from_sh | apply f_node_test_from_sh | apply f_primary_number_sh
        | apply f_eq_op_from_sh | apply f_rel_op_from_sh | apply f_add_op_from_sh | apply f_mul_op_from_sh
        | apply f_name_test_from_sh | apply f_node_type_from_sh
        | apply f_rel_path_from_sh, H | apply f_step_from_sh, H | apply f_primary_from_sh, H
        | apply f_function_call_from_sh, H | apply f_path_filter_sh, H | apply f_path_from_sh, H | apply f_path_abs_sh, H
        | apply f_filter_from_sh, H | apply f_or_from_sh, H | apply f_and_from_sh, H | apply f_eq_from_sh, H
        | apply f_rel_from_sh, H | apply f_add_from_sh, H | apply f_mul_from_sh, H | apply f_unary_from_sh, H ].
Qed.

Lemma act_vsh : forall t, tokb t = true -> vsh (act t) = true.
Proof.
  fix IH 1. intros t. destruct t as [s|a b|l| |a|lab a]; intros H; cbn [tokb] in H.
  - reflexivity.
  - apply andb_prop in H. destruct H as [Ha Hb]. cbn [act].
    destruct (poisoned (act a)) eqn:Pa; [eapply poisoned_vsh, Pa|].
    destruct (poisoned (act b)) eqn:Pb; [eapply poisoned_vsh, Pb|].
    cbn [vsh]. rewrite (IH a Ha), (IH b Hb). reflexivity.
  - cbn [act].
    assert (Hl : forallb vsh (map act l) = true).
    { induction l as [|x l IHl]; [reflexivity|]. cbn [forallb] in H. apply andb_prop in H. destruct H as [Hx Hl].
      cbn [map forallb]. rewrite (IH x Hx). apply IHl, Hl. }
    destruct (first_poison (map act l)) eqn:E; [|exact Hl].
    destruct (first_poison_cases _ _ E) as [-> | ->]; reflexivity.
  - reflexivity.
  - cbn [act]. destruct (poisoned (act a)) eqn:Pa; [eapply poisoned_vsh, Pa|]. cbn [vsh]. apply IH, H.
  - apply andb_prop in H. destruct H as [H1 H2]. cbn [act]. apply apply_label_vsh; [apply IH, H2|].
    intros E. rewrite E in H1. destruct a as [s|a b|l| |a|lab' a]; try discriminate. destruct l as [|x l]; [discriminate|].
    cbn [act]. destruct (first_poison (map act (x :: l))) eqn:E2.
    + destruct (first_poison_cases _ _ E2) as [-> | ->]; [left|right; left]; reflexivity.
    + right. right. eexists _, _. cbn [map]. reflexivity.
Qed.

(** ** the parser *)
Lemma G_xpath_gok : forallb gok G_xpath = true.
Proof. vm_compute. reflexivity. Qed.

Theorem parse_shaped (s : str) e r : parse_expr s = POk e r -> sh_or e = true.
Proof.
  unfold parse_expr, run_expr, run. destruct (denote G_xpath (fuel_bound G_xpath_R s) (NT nt_expr) s) as [[t r']| |] eqn:E; try discriminate.
  pose proof (denote_tok G_xpath G_xpath_gok _ (NT nt_expr) _ _ _ eq_refl E) as Ht. pose proof (act_vsh t Ht) as Hv.
  destruct (act t); try discriminate. intros H. injection H as <- _. exact Hv.
Qed.
