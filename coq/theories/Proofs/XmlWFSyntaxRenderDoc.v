(** * C01, the document rung for documents without DOCTYPE: [render_wf_nodoctype] -- the rendering of
    every valid abstract document without a document type declaration, with ANY oracle, is a
    namespace-well-formed document ([wf (render d c) = true]); with the converse of C02
    (Proofs/XmlWFSyntaxConvCheck.v) it is accepted by the model of from_raw, completely. *)
From Coq Require Import List NArith Arith Lia Bool Permutation.
From XmlRs Require Import Base.CPred Spec.XmlChars Spec.XmlWF Spec.Infoset Proofs.XmlWFRender
  Proofs.XmlWFSyntaxRenderNode Proofs.XmlWFSyntaxRenderCheck.
From XmlRs Require Model.Info Proofs.XmlWFSyntaxCheck Proofs.XmlWFSyntaxConvCheck.
Import ListNotations.
Local Open Scope nat_scope.

Definition nonS (T : str) : Prop := match T with [] => True | x :: _ => isS x = false end.

(** ** [23] XMLDecl *)
Lemma strip_inv (p : str) : forall s r, strip p s = Some r -> s = p ++ r.
Proof.
  induction p as [|x p IH]; intros s r H; [cbn [strip] in H; injection H as ->; reflexivity|].
  destruct s as [|y s]; cbn [strip] in H; [discriminate|]. destruct (N.eqb_spec x y) as [->|]; [|discriminate].
  cbn [app]. f_equal. apply IH. exact H.
Qed.

Lemma p_S_none T : nonS T -> p_S T = None.
Proof. unfold p_S. destruct T as [|x T]; [reflexivity|]. cbn [nonS span]. intros ->. reflexivity. Qed.

Lemma S0_cases c p : S0 c p = [] \/ S0 c p <> [].
Proof. destruct (S0 c p); [left; reflexivity|right; discriminate]. Qed.

Lemma pseudo_render c p1 p2 kw T : nonS kw -> kw <> [] -> nonS T ->
  p_pseudo kw (S1 c p1 ++ kw ++ Eq_ c p2 ++ T) = Some T.
Proof.
  intros Hk Hne HT. unfold p_pseudo.
  assert (E1 : p_S (S1 c p1 ++ kw ++ Eq_ c p2 ++ T) = Some (kw ++ Eq_ c p2 ++ T)).
  { apply p_S_run; [apply S1_ne|apply S1_S|]. destruct kw as [|x kw]; [now elim Hne|]. exact Hk. }
  rewrite E1. cbn [bind]. rewrite strip_app. cbn [bind]. apply p_Eq_render. exact HT.
Qed.

Lemma pseudo_fail_S1 c p kw Y : nonS Y -> strip kw Y = None -> p_pseudo kw (S1 c p ++ Y) = None.
Proof.
  intros HY Hs. unfold p_pseudo. rewrite (p_S_run (S1 c p) Y (S1_ne _ _) (S1_S _ _) HY). cbn [bind]. rewrite Hs. reflexivity.
Qed.

Lemma pseudo_fail_S0 c p kw Y : nonS Y -> strip kw Y = None -> p_pseudo kw (S0 c p ++ Y) = None.
Proof.
  intros HY Hs. unfold p_pseudo. destruct (S0 c p) as [|w ws] eqn:E.
  - cbn [app]. rewrite (p_S_none Y HY). reflexivity.
  - rewrite <- E. assert (Hne : S0 c p <> []) by (rewrite E; discriminate). rewrite (p_S_run (S0 c p) Y Hne (S0_S _ _) HY). cbn [bind]. rewrite Hs. reflexivity.
Qed.

Definition noquote (s : str) : Prop := forallb (fun x => negb (isQuote x)) s = true.

Lemma noquote_contains s : noquote s -> contains c_quot s = false /\ contains c_apos s = false.
Proof.
  unfold noquote, contains. induction s as [|x s IH]; [split; reflexivity|]. cbn [forallb existsb]. intros H. apply andb_true_iff in H. destruct H as [Hx Hs].
  destruct (IH Hs) as [H1 H2]. rewrite H1, H2. unfold isQuote in Hx. apply negb_true_iff in Hx. apply orb_false_iff in Hx. destruct Hx as [Hq Ha].
  rewrite (N.eqb_sym c_quot x), (N.eqb_sym c_apos x), Hq, Ha. split; reflexivity.
Qed.

Lemma quoted_read {A} c p body (P : str -> option (A * str)) a rest : noquote body ->
  (forall q R, isQuote q = true -> P (body ++ q :: R) = Some (a, q :: R)) ->
  p_quoted_by P (quoted c p body ++ rest) = Some (a, rest).
Proof.
  intros Hn HP. destruct (noquote_contains body Hn) as [H1 H2]. unfold quoted, pick_quote. rewrite H1, H2. cbv zeta.
  cbn [app]. unfold p_quoted_by. rewrite <- app_assoc. cbn [app].
  match goal with |- context [isQuote ?x] => remember x as q eqn:Eq end. assert (Hq : isQuote q = true) by (subst q; destruct (N.eqb _ _); reflexivity).
  rewrite Hq. rewrite (HP q rest Hq). cbn [bind]. rewrite N.eqb_refl. reflexivity.
Qed.

Lemma quoted_nonS c p body T : nonS (quoted c p body ++ T).
Proof.
  unfold quoted, pick_quote. cbv zeta. cbn [app nonS]. destruct (contains c_quot body); [reflexivity|]. destruct (contains c_apos body); [reflexivity|].
  destruct (N.eqb _ _); reflexivity.
Qed.

Lemma digit_noquote ds : forallb isDigit ds = true -> noquote ds.
Proof.
  unfold noquote. induction ds as [|x ds IH]; [reflexivity|]. cbn [forallb]. intros H. apply andb_true_iff in H. destruct H as [Hx Hs].
  rewrite (IH Hs), andb_true_r. unfold isDigit in Hx. apply andb_true_iff in Hx. destruct Hx as [H1 H2]. apply N.leb_le in H1. apply N.leb_le in H2.
  unfold isQuote, c_quot, c_apos. apply negb_true_iff. apply orb_false_iff. split; apply N.eqb_neq; lia.
Qed.

Lemma version_read v : version_ok v = true -> noquote v /\ forall q R, isQuote q = true -> p_VersionNum (v ++ q :: R) = Some (v, q :: R).
Proof.
  unfold version_ok. destruct (strip s_one_dot v) as [ds|] eqn:E; [|discriminate]. destruct ds as [|d ds]; [discriminate|]. intros Hd.
  apply strip_inv in E. subst v. split.
  - unfold noquote. unfold s_one_dot. cbn [app forallb]. apply (digit_noquote (d :: ds) Hd).
  - intros q R Hq. unfold p_VersionNum. rewrite <- app_assoc. rewrite strip_app. cbn [bind].
    assert (Hnq : isDigit q = false).
    { unfold isQuote in Hq. apply orb_true_iff in Hq. destruct Hq as [Hq|Hq]; apply N.eqb_eq in Hq; subst q; reflexivity. }
    rewrite (span_all_stop isDigit (d :: ds) q R Hd Hnq). reflexivity.
Qed.

Lemma encchar_noquote x : eval spec_EncNameChar x = true -> negb (isQuote x) = true.
Proof.
  intros H. apply negb_true_iff. unfold isQuote. apply orb_false_iff. split; apply N.eqb_neq; intros ->; vm_compute in H; discriminate.
Qed.

Lemma encstart_noquote x : eval spec_EncNameStart x = true -> negb (isQuote x) = true.
Proof.
  intros H. apply negb_true_iff. unfold isQuote. apply orb_false_iff. split; apply N.eqb_neq; intros ->; vm_compute in H; discriminate.
Qed.

Lemma encname_read e : encname_ok e = true -> noquote e /\ forall q R, isQuote q = true -> p_EncName (e ++ q :: R) = Some (e, q :: R).
Proof.
  unfold encname_ok. destruct e as [|c0 t]; [discriminate|]. intros H. apply andb_true_iff in H. destruct H as [H0 Ht]. split.
  - unfold noquote. cbn [forallb]. rewrite (encstart_noquote c0 H0). cbn [andb].
    rewrite forallb_forall in *. intros x Hx. apply encchar_noquote. apply Ht. exact Hx.
  - intros q R Hq. cbn [app p_EncName]. rewrite H0.
    assert (Hnq : eval spec_EncNameChar q = false).
    { unfold isQuote in Hq. apply orb_true_iff in Hq. destruct Hq as [Hq|Hq]; apply N.eqb_eq in Hq; subst q; reflexivity. }
    rewrite (span_all_stop _ t q R Ht Hnq). reflexivity.
Qed.

Lemma yesno_read (b : bool) : noquote (if b then s_yes else s_no) /\
  forall q R, isQuote q = true -> p_yesno ((if b then s_yes else s_no) ++ q :: R) = Some (b, q :: R).
Proof.
  split; [destruct b; reflexivity|]. intros q R Hq. destruct b; [reflexivity|].
  unfold p_yesno. unfold s_no, s_yes. cbn [app strip]. change (N.eqb 121 110) with false. cbv iota. rewrite !N.eqb_refl. reflexivity.
Qed.

Definition xmldecl_body (c : choices) (p : list N) (v : str) (e : option str) (sa : option bool) : str :=
  S1 c (0%N :: p) ++ s_version ++ Eq_ c (1%N :: p) ++ quoted c (2%N :: p) v
  ++ match e with Some x => S1 c (3%N :: p) ++ s_encoding ++ Eq_ c (4%N :: p) ++ quoted c (5%N :: p) x | None => [] end
  ++ match sa with
     | Some b => S1 c (6%N :: p) ++ s_standalone ++ Eq_ c (7%N :: p) ++ quoted c (8%N :: p) (if b then s_yes else s_no)
     | None => [] end
  ++ S0 c (9%N :: p) ++ s_pi_close.

Lemma render_xmldecl_eq c p v e sa : render_xmldecl c p v e sa = s_xmldecl_open ++ xmldecl_body c p v e sa.
Proof. reflexivity. Qed.

Lemma xmldecl_reads c p v e sa T : version_ok v = true -> match e with Some x => encname_ok x = true | None => True end ->
  p_xmldecl (xmldecl_body c p v e sa ++ T) = Some ({| xd_version := v; xd_encoding := e; xd_standalone := sa |}, T).
Proof.
  intros Hv He. unfold xmldecl_body, p_xmldecl. rewrite <- !app_assoc.
  destruct (version_read v Hv) as [Hvq HvP].
  rewrite (pseudo_render c (0%N :: p) (1%N :: p) s_version) by (try reflexivity; try discriminate; apply quoted_nonS).
  cbn [bind]. rewrite (quoted_read c (2%N :: p) v p_VersionNum v _ Hvq HvP). cbn [bind].
  set (SA := match sa with
     | Some b => S1 c (6%N :: p) ++ s_standalone ++ Eq_ c (7%N :: p) ++ quoted c (8%N :: p) (if b then s_yes else s_no)
     | None => [] end).
  (* what follows the optional encoding declaration *)
  assert (Hsa : forall (enc : option str),
            bind (match p_pseudo s_standalone (SA ++ S0 c (9%N :: p) ++ s_pi_close ++ T) with
                  | Some r' => bind (p_quoted_by p_yesno r') (fun '(b, r'') => Some (Some b, r''))
                  | None => Some (None, SA ++ S0 c (9%N :: p) ++ s_pi_close ++ T) end)
                 (fun '(sa0, r3) => bind (strip s_pi_close (skipS r3))
                    (fun r4 => Some ({| xd_version := v; xd_encoding := enc; xd_standalone := sa0 |}, r4)))
            = Some ({| xd_version := v; xd_encoding := enc; xd_standalone := sa |}, T)).
  { intros enc.
    assert (Hend : bind (strip s_pi_close (skipS (S0 c (9%N :: p) ++ s_pi_close ++ T)))
                     (fun r4 => Some ({| xd_version := v; xd_encoding := enc; xd_standalone := sa |}, r4))
                   = Some ({| xd_version := v; xd_encoding := enc; xd_standalone := sa |}, T)).
    { rewrite (skipS_run (S0 c (9%N :: p)) (s_pi_close ++ T) (S0_S _ _)) by reflexivity. rewrite strip_app. reflexivity. }
    unfold SA. destruct sa as [b|].
    - rewrite <- !app_assoc. rewrite (pseudo_render c (6%N :: p) (7%N :: p) s_standalone) by (try reflexivity; try discriminate; apply quoted_nonS).
      destruct (yesno_read b) as [Hbq HbP]. rewrite (quoted_read c (8%N :: p) _ p_yesno b _ Hbq HbP). cbn [bind].
      exact Hend.
    - cbn [app]. rewrite (pseudo_fail_S0 c (9%N :: p) s_standalone (s_pi_close ++ T)) by reflexivity.
      cbn [bind]. exact Hend. }
  destruct e as [x|].
  - rewrite <- !app_assoc. rewrite (pseudo_render c (3%N :: p) (4%N :: p) s_encoding) by (try reflexivity; try discriminate; apply quoted_nonS).
    destruct (encname_read x He) as [Hxq HxP]. rewrite (quoted_read c (5%N :: p) x p_EncName x _ Hxq HxP). cbn [bind].
    fold SA. exact (Hsa (Some x)).
  - cbn [app]. fold SA.
    assert (Hno : p_pseudo s_encoding (SA ++ S0 c (9%N :: p) ++ s_pi_close ++ T) = None).
    { unfold SA. destruct sa as [b|].
      - rewrite <- !app_assoc. apply pseudo_fail_S1; reflexivity.
      - cbn [app]. apply pseudo_fail_S0; reflexivity. }
    rewrite Hno. cbn [bind]. exact (Hsa None).
Qed.

(** ** [27] Misc* *)
Definition misc_stop (T : str) : Prop := nonS T /\ forall F, 1 <= F -> p_miscs F T = ([], T).

Lemma misc_stop_nil : misc_stop [].
Proof. split; [exact I|]. intros F HF. destruct F; [lia|]. reflexivity. Qed.

Lemma misc_stop_elem x t Y : eval spec_NameStartChar x = true -> misc_stop (c_lt :: (x :: t) ++ Y).
Proof.
  intros Hx. destruct (nsc_facts2 x Hx) as (Hb & Hq & _). split; [reflexivity|]. intros F HF. destruct F; [lia|]. cbn [p_miscs app].
  rewrite (p_S_none (c_lt :: x :: t ++ Y)) by reflexivity.
  unfold s_comment_open, s_pi_open. cbn [strip]. change (N.eqb 60 c_lt) with true. cbv iota.
  rewrite (N.eqb_sym 33 x), (N.eqb_sym 63 x). fold c_bang c_qm. rewrite Hb, Hq. reflexivity.
Qed.

Lemma miscs_skip c q Y b (R : list xcontent * str) : nonS Y -> (forall F, b <= F -> p_miscs F Y = R) ->
  forall F, S b <= F -> p_miscs F (S0 c q ++ Y) = R.
Proof.
  intros HY H F HF. destruct (S0 c q) as [|w ws] eqn:E.
  - cbn [app]. apply H. lia.
  - rewrite <- E. destruct F as [|F]; [lia|]. cbn [p_miscs].
    assert (Hne : S0 c q <> []) by (rewrite E; discriminate). rewrite (p_S_run (S0 c q) Y Hne (S0_S _ _) HY). apply H. lia.
Qed.

Lemma render_miscs_nonS c p : forall l i T, forallb misc_ok l = true -> nonS T -> nonS (render_miscs c p i l ++ T).
Proof.
  intros [|x l] i T Hok HT; [exact HT|]. cbn [render_miscs]. cbn [forallb] in Hok. apply andb_true_iff in Hok. destruct Hok as [Hx _].
  destruct x as [s|nm|s|t d|nm atts kids]; try discriminate Hx; reflexivity.
Qed.

Lemma miscs_read c p : forall l i T, forallb misc_ok l = true -> misc_stop T ->
  forall F, 2 * length l + 1 <= F -> p_miscs F (render_miscs c p i l ++ T) = (flat_map to_x l, T).
Proof.
  induction l as [|x l IH]; intros i T Hok [HT1 HT2] F HF.
  - cbn [render_miscs app flat_map]. apply HT2. lia.
  - cbn [forallb] in Hok. apply andb_true_iff in Hok. destruct Hok as [Hx Hl]. cbn [length] in HF.
    destruct F as [|F]; [lia|]. cbn [render_miscs flat_map]. rewrite <- !app_assoc.
    assert (Hrest : p_miscs F (S0 c (i :: 1%N :: p) ++ render_miscs c p (i + 1) l ++ T) = (flat_map to_x l, T)).
    { apply (miscs_skip c (i :: 1%N :: p) _ (2 * length l + 1)); [apply render_miscs_nonS; assumption| |lia].
      intros F' HF'. apply IH; [exact Hl|split; assumption|exact HF']. }
    destruct x as [s|nm|s|t d|nm atts kids]; try discriminate Hx; cbn [misc_ok node_ok] in Hx; cbn [render_node to_x].
    + (* comment *)
      unfold comment_ok in Hx.
      apply andb_true_iff in Hx. destruct Hx as [Hx He]. apply andb_true_iff in Hx. destruct Hx as [Hx Hd].
      apply andb_true_iff in Hx. destruct Hx as [Hc _]. apply negb_true_iff in Hd, He.
      pose proof (comment_body_render (length s) s (le_n _) Hc Hd He (S0 c (i :: 1%N :: p) ++ render_miscs c p (i + 1) l ++ T)) as Hb.
      unfold render_comment. rewrite <- !app_assoc. cbn [p_miscs].
      rewrite (p_S_none (s_comment_open ++ _)) by reflexivity. rewrite strip_app.
      unfold str, char in *. rewrite Hb, Hrest. reflexivity.
    + (* PI *)
      pose proof (pi_body_render c (i :: 0%N :: p) t d (S0 c (i :: 1%N :: p) ++ render_miscs c p (i + 1) l ++ T) Hx) as Hb.
      unfold render_pi. rewrite <- !app_assoc. cbn [p_miscs].
      rewrite (p_S_none (s_pi_open ++ _)) by reflexivity.
      change (strip s_comment_open (s_pi_open ++ ?X)) with (@None str). rewrite strip_app.
      unfold str, char in *. rewrite Hb, Hrest. reflexivity.
Qed.

Lemma render_miscs_len c p : forall l i, forallb misc_ok l = true -> 2 * length l <= length (render_miscs c p i l).
Proof.
  induction l as [|x l IH]; intros i Hok; [cbn; lia|]. cbn [forallb] in Hok. apply andb_true_iff in Hok. destruct Hok as [Hx Hl].
  cbn [render_miscs length]. rewrite !app_length. specialize (IH (i + 1)%N Hl).
  assert (2 <= length (render_node c (i :: 0%N :: p) x)).
  { destruct x as [s|nm|s|t d|nm atts kids]; try discriminate Hx; cbn [render_node]; unfold render_comment, render_pi, s_comment_open, s_pi_open; cbn [app length]; lia. }
  lia.
Qed.

(** ** no XML declaration is seen where there is none *)
Lemma pi_not_xmldecl t W : is_PITarget t = true -> (exists h r, W = h :: r /\ (isS h = true \/ h = 63%N)) ->
  match strip s_xmldecl_open (s_pi_open ++ t ++ W) with
  | Some r => match p_xmldecl r with Some (d, r') => Some (Some d, r') | None => Some (None, s_pi_open ++ t ++ W) end
  | None => Some (None, s_pi_open ++ t ++ W) end = Some (@None xmldecl, s_pi_open ++ t ++ W).
Proof.
  intros Ht (h & r & -> & Hh). unfold is_PITarget in Ht. apply andb_true_iff in Ht. destruct Ht as [Hn Hx]. apply negb_true_iff in Hx.
  assert (Hh109 : N.eqb 109 h = false) by (destruct Hh as [Hh| ->]; [|reflexivity]; destruct (isS_cases h Hh) as [-> | [-> | [-> | ->]]]; reflexivity).
  assert (Hh108 : N.eqb 108 h = false) by (destruct Hh as [Hh| ->]; [|reflexivity]; destruct (isS_cases h Hh) as [-> | [-> | [-> | ->]]]; reflexivity).
  unfold s_xmldecl_open, s_pi_open. cbn [app strip]. change (N.eqb 60 60) with true. change (N.eqb 63 63) with true. cbv iota.
  destruct t as [|a t]; [discriminate|]. cbn [app strip]. destruct (N.eqb 120 a) eqn:Ea; [|reflexivity].
  destruct t as [|b t]; cbn [app strip]; [rewrite Hh109; reflexivity|]. destruct (N.eqb 109 b) eqn:Eb; [|reflexivity].
  destruct t as [|c' t]; cbn [app strip]; [rewrite Hh108; reflexivity|]. destruct (N.eqb 108 c') eqn:Ec; [|reflexivity].
  apply N.eqb_eq in Ea. apply N.eqb_eq in Eb. apply N.eqb_eq in Ec. subst a b c'.
  destruct t as [|y t]; [cbn in Hx; discriminate|].
  assert (HyS : isS y = false).
  { cbn [is_Name forallb] in Hn. apply andb_true_iff in Hn. destruct Hn as [_ Hn]. do 2 (apply andb_true_iff in Hn; destruct Hn as [_ Hn]). apply andb_true_iff in Hn. destruct Hn as [Hn _].
    destruct (isS y) eqn:E; [|reflexivity]. apply isS_not_namechar in E. rewrite E in Hn. discriminate. }
  unfold p_xmldecl, p_pseudo. cbn [app]. rewrite (p_S_none (y :: t ++ h :: r)) by exact HyS. reflexivity.
Qed.

Lemma no_xmldecl c (m1 : list anode) x t Y :
  forallb misc_ok m1 = true -> eval spec_NameStartChar x = true ->
  let Z := S0 c [1%N] ++ render_miscs c [2%N] 0 m1 ++ c_lt :: (x :: t) ++ Y in
  match strip s_xmldecl_open Z with
  | Some r => match p_xmldecl r with Some (d, r') => Some (Some d, r') | None => Some (None, Z) end
  | None => Some (None, Z) end = Some (@None xmldecl, Z).
Proof.
  intros Hm Hx Z. unfold Z. destruct (S0 c [1%N]) as [|w ws] eqn:E.
  - cbn [app]. destruct m1 as [|m m1].
    + cbn [render_miscs app]. destruct (nsc_facts2 x Hx) as (_ & Hq & _). unfold s_xmldecl_open. cbn [strip]. change (N.eqb 60 c_lt) with true. cbv iota.
      rewrite (N.eqb_sym 63 x). fold c_qm. rewrite Hq. reflexivity.
    + cbn [forallb] in Hm. apply andb_true_iff in Hm. destruct Hm as [Hm _]. cbn [render_miscs].
      destruct m as [s|nm|s|t' d|nm atts kids]; try discriminate Hm; cbn [render_node].
      * reflexivity.
      * cbn [misc_ok node_ok] in Hm. unfold pi_ok in Hm. apply andb_true_iff in Hm. destruct Hm as [Hm _]. apply andb_true_iff in Hm. destruct Hm as [Ht _].
        unfold render_pi. rewrite <- !app_assoc. apply pi_not_xmldecl; [exact Ht|].
        destruct d as [dd|].
        -- pose proof (S1_ne c [0%N; 0%N; 2%N]) as Hne. pose proof (S1_S c [0%N; 0%N; 2%N]) as HS.
           destruct (S1 c [0%N; 0%N; 2%N]) as [|h r] eqn:E1; [now elim Hne|]. cbn [forallb] in HS. apply andb_true_iff in HS. destruct HS as [Hh _].
           rewrite <- !app_assoc. cbn [app]. eexists; eexists; split; [reflexivity|left; exact Hh].
        -- cbn [app]. unfold s_pi_close. cbn [app]. eexists; eexists; split; [reflexivity|right; reflexivity].
  - pose proof (S0_S c [1%N]) as HS. rewrite E in HS. cbn [forallb] in HS. apply andb_true_iff in HS. destruct HS as [Hw _].
    cbn [app]. unfold s_xmldecl_open. cbn [strip]. destruct (N.eqb 60 w) eqn:E60; [|reflexivity]. apply N.eqb_eq in E60. subst w. discriminate Hw.
Qed.

(** ** [1] document *)
Lemma parse_doc_assemble (s : str) F xd Y m1 R root T3 m3 : F = S (length s) ->
  match strip s_xmldecl_open s with
  | Some r => match p_xmldecl r with Some (d, r') => Some (Some d, r') | None => Some (None, s) end
  | None => Some (None, s) end = Some (xd, Y) ->
  p_miscs F Y = (m1, R) -> strip s_doctype R = None ->
  p_element F R = Some (root, T3) -> p_miscs F T3 = (m3, []) ->
  parse_document s = Some {| x_decl := xd; x_misc1 := m1; x_doctype := None; x_misc2 := []; x_root := root; x_misc3 := m3 |}.
Proof.
  intros -> H1 H2 H3 H4 H5. unfold parse_document. cbv zeta. rewrite H1. cbn [bind]. rewrite H2, H3. cbn [bind]. rewrite H4. cbn [bind]. rewrite H5. reflexivity.
Qed.

Theorem render_parse_nodoctype (d : adoc) (c : choices) : shape_ok d = true -> a_doctype d = None ->
  exists item, reads (a_root d) [item] /\
    parse_document (render d c) =
    Some {| x_decl := x_decl (to_xdoc d); x_misc1 := flat_map to_x (a_misc1 d); x_doctype := None; x_misc2 := [];
            x_root := item; x_misc3 := flat_map to_x (a_misc3 d) |}.
Proof.
  destruct d as [ver enc sa m1 dt m2 root m3]. cbn [a_doctype]. intros Hs ->. unfold shape_ok in Hs.
  cbn [a_version a_encoding a_standalone a_misc1 a_misc2 a_misc3 a_root a_doctype] in Hs.
  apply andb_true_iff in Hs. destruct Hs as [Hs _]. apply andb_true_iff in Hs. destruct Hs as [Hs Hroot].
  apply andb_true_iff in Hs. destruct Hs as [Hs Hm3]. apply andb_true_iff in Hs. destruct Hs as [Hs _].
  apply andb_true_iff in Hs. destruct Hs as [Hver Hm1].
  destruct root as [s|nm|s|t0 d0|nm atts kids]; try discriminate Hroot.
  destruct (valid_node_reads (AElem nm atts kids) Hroot c [6%N]) as (items & n & m & Hrd & Hn & _ & (item & -> & Hel)).
  exists item. split; [exact Hrd|].
  assert (Hnm : is_Name nm = true).
  { cbn [node_ok] in Hroot. do 3 (apply andb_true_iff in Hroot; destruct Hroot as [Hroot _]). now apply QName_Name. }
  destruct (name_head nm Hnm) as (x & t & -> & Hx).
  set (T3 := S0 c [7%N] ++ render_miscs c [8%N] 0 m3).
  set (RN := render_node c [6%N] (AElem (x :: t) atts kids)) in *.
  assert (ERN : exists Y0, RN = c_lt :: (x :: t) ++ Y0).
  { unfold RN. rewrite render_node_elem. unfold render_open. destruct kids; [destruct (N.eqb _ _)|]; cbn [app]; rewrite <- ?app_assoc; eexists; reflexivity. }
  destruct ERN as [Y0 ERN].
  set (R := RN ++ T3).
  set (Y := S0 c [1%N] ++ render_miscs c [2%N] 0 m1 ++ R).
  set (X := match ver with Some v => render_xmldecl c [0%N] v enc sa | None => [] end).
  assert (Es : render {| a_version := ver; a_encoding := enc; a_standalone := sa; a_misc1 := m1; a_doctype := None; a_misc2 := m2; a_root := AElem (x :: t) atts kids; a_misc3 := m3 |} c
               = X ++ Y).
  { unfold render, X, Y, R, T3, RN. cbn [a_version a_encoding a_standalone a_misc1 a_misc2 a_misc3 a_root a_doctype]. cbn [app]. rewrite <- ?app_assoc. reflexivity. }
  rewrite Es.
  assert (ER : R = c_lt :: (x :: t) ++ (Y0 ++ T3)) by (unfold R; rewrite ERN; cbn [app]; rewrite <- app_assoc; reflexivity).
  assert (Hlen : length RN + 2 * length m1 + 2 * length m3 <= length (X ++ Y)).
  { unfold Y, R, T3. rewrite !app_length. pose proof (render_miscs_len c [2%N] m1 0%N Hm1). pose proof (render_miscs_len c [8%N] m3 0%N Hm3). lia. }
  assert (HRN : 2 <= length RN) by (rewrite ERN; cbn [length app]; lia).
  remember (S (length (X ++ Y))) as F eqn:EF.
  assert (HF : length RN + 2 * length m1 + 2 * length m3 + 1 <= F) by (unfold str, char in *; lia). clear Hlen.
  apply (parse_doc_assemble (X ++ Y) F _ Y _ R item T3 _ EF).
  - (* the XML declaration *)
    unfold X. cbn [to_xdoc x_decl a_version a_encoding a_standalone]. destruct ver as [v|].
    + apply andb_true_iff in Hver. destruct Hver as [Hv He]. rewrite render_xmldecl_eq. rewrite <- app_assoc. rewrite strip_app.
      rewrite (xmldecl_reads c [0%N] v enc sa Y Hv) by (destruct enc; [exact He|exact I]). reflexivity.
    + cbn [app]. unfold Y. rewrite ER. exact (no_xmldecl c m1 x t (Y0 ++ T3) Hm1 Hx).
  - unfold Y. apply (miscs_skip c [1%N] _ (2 * length m1 + 1)).
    + apply render_miscs_nonS; [exact Hm1|]. rewrite ER. reflexivity.
    + intros F' HF'. apply miscs_read; [exact Hm1| |exact HF']. rewrite ER. apply misc_stop_elem. exact Hx.
    + unfold str, char in *; lia.
  - rewrite ER. destruct (nsc_facts2 x Hx) as (Hb & _ & _). unfold s_doctype. cbn [app strip]. change (N.eqb 60 c_lt) with true. cbv iota.
    rewrite (N.eqb_sym 33 x). fold c_bang. rewrite Hb. reflexivity.
  - unfold R. rewrite ERN. cbn [app p_element]. rewrite N.eqb_refl.
    specialize (Hel F T3 ltac:(unfold str, char in *; lia)). rewrite ERN in Hel. cbn [tl] in Hel. exact Hel.
  - unfold T3. apply (miscs_skip c [7%N] _ (2 * length m3 + 1)).
    + rewrite <- (app_nil_r (render_miscs c [8%N] 0 m3)). apply render_miscs_nonS; [exact Hm3|exact I].
    + intros F' HF'. rewrite <- (app_nil_r (render_miscs c [8%N] 0 m3)). apply miscs_read; [exact Hm3|apply misc_stop_nil|exact HF'].
    + unfold str, char in *; lia.
Qed.

(** ** render_wf for documents without DOCTYPE *)
Module C := XmlWFSyntaxCheck.
Module V := XmlWFSyntaxConvCheck.

Theorem render_wf_nodoctype (d : adoc) (c : choices) : valid d = true -> a_doctype d = None ->
  wf (render d c) = true /\ V.spec_nodoctype (render d c) = true.
Proof.
  intros Hv Hdt. unfold valid in Hv. apply andb_true_iff in Hv. destruct Hv as [Hs Hv].
  destruct (check_doc (to_xdoc d)) as [r|root0] eqn:Ec; [discriminate|]. apply andb_true_iff in Hv. destruct Hv as [_ Hv].
  destruct (ns_doc (to_xdoc d) root0) as [r|] eqn:En; [discriminate|]. clear Hv.
  destruct (render_parse_nodoctype d c Hs Hdt) as (item & Hrd & Hp).
  destruct d as [ver enc sa m1 dt m2 root m3]. cbn [a_doctype a_root a_misc1 a_misc3] in *. subst dt.
  pose proof Hs as Hs'. unfold shape_ok in Hs'. cbn [a_version a_encoding a_standalone a_misc1 a_misc2 a_misc3 a_root a_doctype] in Hs'.
  apply andb_true_iff in Hs'. destruct Hs' as [Hs' Hm2]. apply andb_true_iff in Hs'. destruct Hs' as [_ Hroot].
  destruct m2 as [|? ?]; [|discriminate Hm2]. destruct root as [s|nm|s|t0 d0|nm atts kids]; try discriminate Hroot.
  pose proof (node_ok_syn _ Hroot) as Hsyn.
  (* the canonical tree passes the checks *)
  unfold check_doc in Ec. unfold ns_doc in En. cbv zeta in Ec, En.
  cbn [to_xdoc x_doctype x_root x_misc1 x_misc2 x_misc3 a_doctype a_root a_misc1 a_misc2 a_misc3 subset_ok to_x flat_map] in Ec, En.
  change (doc_env _) with en0 in Ec, En. change (ent_fuel _) with 6 in Ec, En.
  fold (canon_atts atts) in Ec.
  set (rootc := XElem nm (canon_atts atts) (Some nm) (flat_map to_x kids)) in *.
  destruct (expand 6 en0 [] rootc) as [r|root0'] eqn:Eexp; [discriminate|]. destruct (tree_ok 6 en0 root0') eqn:Etree; [discriminate|].
  injection Ec as <-.
  apply V.andc_none in En. destruct En as [_ En]. apply V.andc_none in En. destruct En as [_ En]. apply V.andc_none in En. destruct En as [Nmisc Nroot].
  destruct (reads_checks _ Hsyn [item] Hrd [root0']) with (s0 := @nil (str * str)) (s' := @nil (str * str)) as (r' & E' & T' & N').
  { cbn [to_x mapM]. fold (canon_atts atts). fold rootc. rewrite Eexp. reflexivity. }
  { apply C.allc_cons; [exact Etree|reflexivity]. }
  { intros p. reflexivity. }
  { apply C.allc_cons; [exact Nroot|reflexivity]. }
  apply V.mapM_cons_inv in E'. destruct E' as (root' & ys & Er & Eys & ->). cbn [mapM] in Eys. injection Eys as <-.
  apply V.allc_cons_inv in T'. destruct T' as [T' _]. apply V.allc_cons_inv in N'. destruct N' as [N' _].
  cbn [to_xdoc x_decl a_version a_encoding a_standalone] in Hp.
  split.
  - unfold wf, verdict_ns. rewrite Hp. unfold unsupported. cbn [x_doctype].
    unfold check_doc. cbv zeta. cbn [x_doctype x_root subset_ok]. change (doc_env _) with en0. change (ent_fuel _) with 6.
    rewrite Er, T'. unfold ns_doc. cbv zeta. cbn [x_doctype x_root x_misc1 x_misc2 x_misc3]. change (doc_env _) with en0. change (ent_fuel _) with 6.
    rewrite Nmisc. unfold ok. cbv beta iota. rewrite N'. reflexivity.
  - unfold V.spec_nodoctype. rewrite Hp. reflexivity.
Qed.

(** with the converse of C02: every such rendering is accepted by the model of from_raw, completely *)
Theorem render_accepted_nodoctype (d : adoc) (c : choices) : valid d = true -> a_doctype d = None ->
  exists doc, Info.from_raw (render d c) = Info.OOk ([], doc).
Proof.
  intros Hv Hdt. destruct (render_wf_nodoctype d c Hv Hdt) as [Hwf Hnd].
  destruct (V.wf_nodoctype_accepted (render d c) Hwf Hnd) as (doc & Hdoc & _). eauto.
Qed.
