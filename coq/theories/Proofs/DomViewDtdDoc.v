(** * C01, the DOM view of a document WITH a document type declaration.

    [doctype_dump]: the dump of the built document type declaration (name, identifiers, notations and unparsed
    entities sorted by Rust's order on (name, token), the PIs of the internal subset) is the specification's
    [doctype_tokens], when entity names and notation names are distinct (first declaration binding, WF22) and
    every public identifier is in normalized form (WF17).
    [view_doctype_pd]: the whole document, for simple entity values (no markup in replacement text, D13), no
    external subset (WF24), no declaration of a predefined entity name, on trees without the attribute shape
    of Proofs/DomViewDtd.v ([attrs_okb]: D36). *)
From Coq Require Import List NArith Arith Lia Bool Permutation.
From XmlRs Require Import Base.CPred Spec.XmlChars Model.Peg Gen.XmlcharGen Gen.GrammarXmlGen Model.ParseActions Model.Info Model.DomView
     Proofs.PegLemmas Proofs.PegInv Proofs.Expansion Proofs.PipelineTotal Proofs.DisplayLex Proofs.DisplayDoc Proofs.DisplayDtd
     Proofs.ParseInv Proofs.ParseInvElem Proofs.ParseInvBuild Proofs.ParseInvDtd Proofs.ParseInvDoc
     Proofs.XmlWFSyntaxLex Proofs.XmlWFSyntaxElem Proofs.XmlWFSyntaxDoc Proofs.XmlWFSyntaxCheck
     Proofs.XmlWFSyntaxDtd Proofs.XmlWFSyntaxDtdElem Proofs.XmlWFSyntaxDtdDoc Proofs.XmlWFSyntaxDtdCheck Proofs.XmlWFSyntaxEntRec
     Proofs.XmlWFSyntaxDtdFull Proofs.XmlWFSyntaxEntMarkup Proofs.XmlWFSyntaxDtdMarkup
     Proofs.DomViewBase Proofs.DomViewElem Proofs.DomViewAttr Proofs.DomViewDoc Proofs.DomViewEnt Proofs.DomViewDtd.
From XmlRs Require Spec.XmlWF Spec.Infoset Proofs.XmlWFSyntaxRenderDtdCheck Proofs.XmlWFSyntaxRenderDtdWf Proofs.XmlWFSyntaxConvDtdCheck.
Import ListNotations.
Local Open Scope N_scope.

(** ** the declarations of the internal subset, built, against the specification's *)
Definition pub_ok (p : option str) : Prop := match p with Some x => Infoset.pub_norm x = x | None => True end.

(** every public identifier of the subset is in normalized form *)
Definition subset_pubs_ok (l : list int_subset) : Prop :=
  Forall (fun x => match x with
                   | IsMarkup (MkNotation d) => pub_ok (no_public (build_notation d))
                   | IsMarkup (MkEntity (DeGeneral n d)) => pub_ok (en_public (build_entity n d))
                   | _ => True end) l.

Definition notation_row (n : notation) : row :=
  (no_name n, KTok (Infoset.TNotation (no_name n) (no_public n) (no_system n))).
Definition unparsed_rows (e : entity) : list row :=
  match en_notation e with
  | Some nt => [(en_name e, KTok (Infoset.TUnparsed (en_name e) (en_public e) (match en_system e with Some s => s | None => [] end) nt))]
  | None => []
  end.

Definition s_nots (l : list W.decl) : list (str * Infoset.token) :=
  flat_map (fun d => match d with W.DNotation nm p s => [(nm, Infoset.TNotation nm (option_map Infoset.pub_norm p) s)] | _ => [] end) l.
Definition s_pub_sys (id : option W.extid) : option str * option str :=
  match id with
  | Some (W.SystemId s) => (None, Some s)
  | Some (W.PublicId p s) => (Some (Infoset.pub_norm p), Some s)
  | None => (None, None) end.
Definition s_unp (l : list W.decl) : list (str * Infoset.token) :=
  flat_map (fun d => match d with
                     | W.DEntity nm (W.EdExternal id (Some n)) =>
                       [(nm, Infoset.TUnparsed nm (fst (s_pub_sys (Some id))) (Infoset.opt_str (snd (s_pub_sys (Some id)))) n)]
                     | _ => [] end) l.
Definition s_pis (l : list W.decl) : list Infoset.token :=
  flat_map (fun d => match d with W.DPI t x => [Infoset.TPI t (Infoset.opt_str x)] | _ => [] end) l.
Definition is_dentity (d : W.decl) : bool := match d with W.DEntity _ _ => true | _ => false end.
Definition dentity_name (d : W.decl) : str := match d with W.DEntity nm _ => nm | _ => [] end.

Lemma subset_views ext : forall (l : list int_subset) acc r, build_subset false ext acc l = IOk r -> subset_pubs_ok l ->
  map notation_row (flat_map (fun c => match c with DtNotation n => [n] | _ => [] end) r) = map lift_row (s_nots (x_subset l))
  /\ flat_map unparsed_rows (flat_map (fun c => match c with DtEntity e => [e] | _ => [] end) r) = map lift_row (s_unp (filter is_dentity (x_subset l)))
  /\ map pi_token (flat_map (fun c => match c with DtPI p => [p] | _ => [] end) r) = map KTok (s_pis (x_subset l))
  /\ map dentity_name (filter is_dentity (x_subset l)) = map en_name (gents l)
  /\ map fst (s_nots (x_subset l)) = map no_name (flat_map (fun c => match c with DtNotation n => [n] | _ => [] end) r).
Proof.
  induction l as [|x l IH]; intros acc r Hb Hp.
  - cbn [build_subset] in Hb. injection Hb as <-. repeat split.
  - inversion Hp as [|? ? Hpx Hpl]; subst. cbn [build_subset] in Hb.
    change (x_subset (x :: l)) with (x_subset_item x ++ x_subset l).
    destruct x as [[d|d|[n d|n d]|d|p|s]|n|s]; try discriminate Hb; cbn [x_subset_item x_markup app gents flat_map filter is_dentity] in *; fold (gents l).
    + exact (IH _ _ Hb Hpl).
    + apply ibind_ok in Hb. destruct Hb as [a [_ Hb]]. apply ibind_ok in Hb. destruct Hb as [r' [Hr' Hb]]. injection Hb as <-.
      unfold x_attlist. cbn [flat_map app filter is_dentity]. exact (IH _ _ Hr' Hpl).
    + apply ibind_ok in Hb. destruct Hb as [[] [_ Hb]]. apply ibind_ok in Hb. destruct Hb as [r' [Hr' Hb]]. injection Hb as <-.
      destruct (IH _ _ Hr' Hpl) as (I1 & I2 & I3 & I4 & I5). cbn [flat_map app filter is_dentity map dentity_name s_nots s_unp s_pis].
      fold (s_nots (x_subset l)) (s_pis (x_subset l)). rewrite I4. split; [exact I1|]. split; [|split; [exact I3|split; [|exact I5]]].
      * fold (s_unp (filter is_dentity (x_subset l))). rewrite map_app, <- I2. f_equal.
        destruct d as [lv|xid [nd|]]; cbn [x_entdef build_entity unparsed_rows en_notation map]; try reflexivity.
        cbn [en_name en_public en_system s_pub_sys]. cbn [build_entity en_public] in Hpx.
        destruct xid as [sy|pb sy]; cbn [x_extid external_id_parts fst snd Infoset.opt_str lift_row] in *; [reflexivity|]. now rewrite Hpx.
      * destruct d; reflexivity.
    + apply ibind_ok in Hb. destruct Hb as [r' [Hr' Hb]]. injection Hb as <-. destruct (IH _ _ Hr' Hpl) as (I1 & I2 & I3 & I4 & I5).
      assert (Ex : x_notation d = W.DNotation (no_name (build_notation d)) (no_public (build_notation d)) (no_system (build_notation d))).
      { unfold x_notation, build_notation. destruct (dn_id d) as [[sy|pb sy]|pb]; reflexivity. }
      rewrite Ex. cbn [flat_map app filter is_dentity map s_nots s_unp s_pis]. fold (s_nots (x_subset l)) (s_pis (x_subset l)).
      split; [|split; [exact I2|split; [exact I3|split; [exact I4|cbn [fst]; now rewrite I5]]]].
      rewrite <- I1. f_equal. unfold notation_row, lift_row. cbn [fst snd]. cbn [pub_ok] in Hpx.
      destruct (no_public (build_notation d)) as [pb|]; cbn [option_map]; [now rewrite Hpx|reflexivity].
    + apply ibind_ok in Hb. destruct Hb as [r' [Hr' Hb]]. injection Hb as <-. destruct (IH _ _ Hr' Hpl) as (I1 & I2 & I3 & I4 & I5).
      cbn [flat_map app filter is_dentity map s_nots s_unp s_pis]. fold (s_nots (x_subset l)) (s_pis (x_subset l)).
      split; [exact I1|split; [exact I2|split; [|split; [exact I4|exact I5]]]]. rewrite <- I3. unfold pi_token, Infoset.opt_str. reflexivity.
    + exact (IH _ _ Hb Hpl).
    + exact (IH _ _ Hb Hpl).
Qed.

Lemma first_by_nodup {A} (key : A -> str) : forall (l : list A) seen, NoDup (map key l) -> (forall x, In x l -> W.mem (key x) seen = false) ->
  Infoset.first_by key seen l = l.
Proof.
  induction l as [|x l IH]; intros seen Hnd Hs; [reflexivity|]. inversion Hnd as [|? ? Hx Hnd']; subst. cbn [Infoset.first_by].
  rewrite (Hs x (or_introl eq_refl)). f_equal. apply IH; [exact Hnd'|]. intros y Hy. unfold W.mem. cbn [existsb]. fold (W.mem (key y) seen).
  rewrite (Hs y (or_intror Hy)), orb_false_r. apply Wstr_eqb_neq. intros E. apply Hx. rewrite <- E. apply in_map. exact Hy.
Qed.

Lemma s_unp_names (l : list W.decl) x : In x (map fst (s_unp l)) -> In x (map dentity_name l).
Proof.
  induction l as [|d l IH]; [intros []|]. cbn [s_unp flat_map]. fold (s_unp l). rewrite map_app. intros H. apply in_app_or in H. cbn [map].
  destruct H as [H|H]; [|right; exact (IH H)]. left.
  destruct d as [?|? ?|nm [v|id [n|]]|? ?|? ? ?|? ?|?|?]; cbn [map In fst] in H; try contradiction. destruct H as [H|[]]. exact H.
Qed.

Lemma s_unp_nodup (l : list W.decl) : NoDup (map dentity_name l) -> NoDup (map fst (s_unp l)).
Proof.
  induction l as [|d l IH]; intros H; [constructor|]. inversion H as [|? ? Hd Hl]; subst. cbn [s_unp flat_map]. fold (s_unp l). rewrite map_app.
  destruct d as [?|? ?|nm [v|id [n|]]|? ?|? ? ?|? ?|?|?]; cbn [map app]; try exact (IH Hl).
  constructor; [|exact (IH Hl)]. intros Hin. apply Hd. exact (s_unp_names l _ Hin).
Qed.

(** ** the dump of the document type declaration *)
Theorem doctype_dump dt0 merged (sa : option bool) (dd : decl_doc) (d : doctype) :
  p_decl_doc_ok dd -> build_doctype false sa dd = IOk d ->
  pub_ok (dt_public d) -> subset_pubs_ok (dd_internal_subset dd) ->
  NoDup (map en_name (gents (dd_internal_subset dd))) -> NoDup (map no_name (dt_notations d)) ->
  item_dump dt0 merged (ItDocType d) = map KTok (Infoset.doctype_tokens (x_doctype dd)).
Proof.
  intros [Hq _] Hb Hpub Hpubs Hne Hnn. unfold build_doctype in Hb. apply ibind_ok in Hb. destruct Hb as [ch [Hch Hb]]. injection Hb as <-.
  destruct (subset_views _ _ _ _ Hch Hpubs) as (I1 & I2 & I3 & I4 & I5).
  cbn [item_dump dt_local dt_prefix dt_public dt_system]. unfold dt_notations, dt_entities, dt_pis in *. cbn [dt_children] in *.
  unfold Infoset.doctype_tokens. cbv zeta. cbn [x_doctype W.dt_name W.dt_extid W.dt_subset map].
  rewrite qn_qname. f_equal.
  - f_equal. cbn [dt_public] in Hpub. destruct (dd_external_id dd) as [[sy|pb sy]|]; cbn [option_map x_extid external_id_parts fst snd] in *; try reflexivity.
    now rewrite Hpub.
  - rewrite !map_app. f_equal; [|f_equal; [|f_equal]].
    + apply (rows_sorted _ (s_nots (x_subset (dd_internal_subset dd)))).
      * rewrite <- I1. apply Permutation_refl.
      * rewrite I5. exact Hnn.
    + match goal with |- context [Infoset.first_by ?k ?s0 ?l0] => replace (Infoset.first_by k s0 l0) with (filter is_dentity (x_subset (dd_internal_subset dd)))
        by (symmetry; apply (first_by_nodup dentity_name); [rewrite I4; exact Hne|intros; reflexivity]) end.
      apply (rows_sorted _ (s_unp (filter is_dentity (x_subset (dd_internal_subset dd))))).
      * rewrite <- I2. apply Permutation_refl.
      * apply s_unp_nodup. rewrite I4. exact Hne.
    + exact I3.
Qed.

(** ** the attribute-list declarations of the internal subset, built, against the specification's *)
Lemma subset_attlists (ents : list entity) (en : W.env) (f : nat) :
  (forall acc rest, ents = acc ++ rest -> forall nm e, resolve_ref acc false true nm = IOk e ->
     exists v, expand_attr ents nm = IOk v /\ W.av_value (Datatypes.S f) en [W.AvEnt nm] = v) ->
  forall (l : list int_subset) acc r, build_subset false false acc l = IOk r -> Forall is_ok l -> ents = acc ++ gents l ->
  Forall2 (al_rel ents en f) (flat_map (fun c => match c with DtAttList a => [a] | _ => [] end) r) (s_attlists (x_subset l)).
Proof.
  intros Hpre. induction l as [|x l IH]; intros acc r Hb Hinv He.
  - cbn [build_subset] in Hb. injection Hb as <-. constructor.
  - apply Forall_cons_iff in Hinv. destruct Hinv as [Hx Hinv']. cbn [build_subset] in Hb.
    change (x_subset (x :: l)) with (x_subset_item x ++ x_subset l). unfold s_attlists. rewrite flat_map_app. fold (s_attlists (x_subset l)).
    destruct x as [[d|d|[n d|n d]|d|p|s]|n|s]; try discriminate Hb; cbn [x_subset_item x_markup flat_map app gents] in *; fold (gents l) in *.
    + exact (IH _ _ Hb Hinv' He).
    + apply ibind_ok in Hb. destruct Hb as [a [Ha Hb]]. apply ibind_ok in Hb. destruct Hb as [r' [Hr' Hb]]. injection Hb as <-.
      unfold x_attlist. cbn [flat_map app]. constructor; [|exact (IH _ _ Hr' Hinv' He)].
      unfold build_attlist in Ha. apply ibind_ok in Ha. destruct Ha as [atts [Hatts Ha]]. injection Ha as <-.
      cbn [is_ok markup_ok] in Hx. destruct Hx as [Hq Hdefs]. unfold al_rel. cbn [al_local al_prefix al_atts fst snd].
      split; [apply pair_good_qname; exact Hq|]. split; [symmetry; apply qn_qname|].
      clear - Hpre Hatts Hdefs He. revert atts Hatts. induction Hdefs as [|d0 ds Hd0 _ IHd]; intros atts Hatts; cbn [build_attdefs] in Hatts.
      * injection Hatts as <-. constructor.
      * apply ibind_ok in Hatts. destruct Hatts as [x0 [Hx0 Hatts]]. apply ibind_ok in Hatts. destruct Hatts as [r0 [Hr0 Hatts]]. injection Hatts as <-.
        cbn [map]. constructor; [|exact (IHd r0 Hr0)].
        exact (build_attdef_rel ents en f acc d0 x0 (Hpre acc (gents l) He) Hd0 Hx0).
    + apply ibind_ok in Hb. destruct Hb as [[] [_ Hb]]. apply ibind_ok in Hb. destruct Hb as [r' [Hr' Hb]]. injection Hb as <-.
      cbn [flat_map app]. apply (IH _ _ Hr' Hinv'). rewrite <- app_assoc. exact He.
    + apply ibind_ok in Hb. destruct Hb as [r' [Hr' Hb]]. injection Hb as <-. unfold x_notation. destruct (dn_id d); cbn [flat_map app]; exact (IH _ _ Hr' Hinv' He).
    + apply ibind_ok in Hb. destruct Hb as [r' [Hr' Hb]]. injection Hb as <-. cbn [flat_map app]. exact (IH _ _ Hr' Hinv' He).
    + exact (IH _ _ Hb Hinv' He).
    + exact (IH _ _ Hb Hinv' He).
Qed.

(** ** the document *)
Lemma ent_fuel_bound3 (xd : W.xdoc) : exists f1, W.ent_fuel xd = Datatypes.S (Datatypes.S (Datatypes.S f1)) /\
  (length (W.entities_of (match W.x_doctype xd with Some dt => W.dt_subset dt | None => [] end)) <= f1)%nat.
Proof.
  unfold W.ent_fuel, W.doc_env. cbn [W.e_ents]. unfold W.with_predefined. rewrite app_length. cbn [map length W.predefined].
  rewrite Nat.add_comm. cbn [Nat.add]. eexists. split; [reflexivity|]. lia.
Qed.

Lemma expand_elem_f f en nm atts et kids : W.expand (Datatypes.S f) en [] (W.XElem nm atts et kids) =
  match W.mapM (W.expand (Datatypes.S f) en []) kids with inl r => inl r | inr kids' => inr (W.XElem nm atts et kids') end.
Proof. reflexivity. Qed.

Lemma expand_leaf_f f en x : match x with W.XElem _ _ _ _ | W.XEntRef _ | W.XExp _ _ => False | _ => True end -> W.expand (Datatypes.S f) en [] x = inr x.
Proof. destruct x; intros H; try destruct H; reflexivity. Qed.

(** the hypotheses about the document type declaration that keep clear of the listed findings, on the tree the
    specification reads ([sub] = its internal subset) *)
Definition spec_pub_ok (d : W.decl) : Prop :=
  match d with
  | W.DNotation _ (Some p) _ => Infoset.pub_norm p = p
  | W.DEntity _ (W.EdExternal (W.PublicId p _) _) => Infoset.pub_norm p = p
  | _ => True
  end.

Record dtd_hyps (must : bool) (extid : option W.extid) (sub : list W.decl) : Prop := {
  dh_ext : must = true;                                                                          (* WF24 *)
  dh_simple : forallb Proofs.XmlWFSyntaxConvDtdCheck.spec_simple_decl sub = true;                (* D13, WF23 *)
  dh_nopredef : forall x, In x (W.entities_of sub) -> Proofs.XmlWFSyntaxRenderDtdWf.is_predef_b (fst x) = false;
  dh_ents : NoDup (map dentity_name (filter is_dentity sub));                                    (* WF22 *)
  dh_nots : NoDup (map fst (s_nots sub));
  dh_pub : match extid with Some (W.PublicId p _) => Infoset.pub_norm p = p | _ => True end;     (* WF17 *)
  dh_pubs : Forall spec_pub_ok sub }.

Lemma ents_names (l : list int_subset) : map dentity_name (filter is_dentity (x_subset l)) = map en_name (gents l).
Proof.
  induction l as [|x l IH]; [reflexivity|]. change (x_subset (x :: l)) with (x_subset_item x ++ x_subset l). rewrite filter_app, map_app, IH.
  cbn [gents flat_map]. fold (gents l). rewrite map_app. f_equal.
  destruct x as [[d|d|[n d|n d]|d|p|s]|n|s]; try reflexivity.
  - destruct d; reflexivity.
  - cbn [x_subset_item x_markup]. unfold x_notation. destruct (dn_id d); reflexivity.
Qed.

Lemma nots_names (l : list int_subset) :
  map fst (s_nots (x_subset l)) = map dn_name (flat_map (fun x => match x with IsMarkup (MkNotation d) => [d] | _ => [] end) l).
Proof.
  induction l as [|x l IH]; [reflexivity|]. change (x_subset (x :: l)) with (x_subset_item x ++ x_subset l). unfold s_nots. rewrite flat_map_app, map_app.
  fold (s_nots (x_subset l)). rewrite IH. cbn [flat_map]. rewrite map_app. f_equal.
  destruct x as [[d|d|[n d|n d]|d|p|s]|n|s]; try reflexivity.
  cbn [x_subset_item x_markup]. unfold x_notation. destruct (dn_id d); reflexivity.
Qed.

Lemma pubs_of_spec (l : list int_subset) : Forall spec_pub_ok (x_subset l) -> subset_pubs_ok l.
Proof.
  induction l as [|x l IH]; intros H; [constructor|]. change (x_subset (x :: l)) with (x_subset_item x ++ x_subset l) in H. apply Forall_app in H. destruct H as [Hx Hl].
  constructor; [|exact (IH Hl)].
  destruct x as [[d|d|[n d|n d]|d|p|s]|n|s]; try exact I; cbn [x_subset_item x_markup] in Hx; inversion Hx as [|? ? H1 _]; subst; clear Hx.
  - destruct d as [lv|[sy|pb sy] nd]; cbn [build_entity en_public external_id_parts snd pub_ok x_entdef x_extid spec_pub_ok] in *; try exact I. exact H1.
  - unfold x_notation, build_notation in *. destruct (dn_id d) as [[sy|pb sy]|pb]; cbn [no_public external_id_parts snd pub_ok ext_pub spec_pub_ok] in *; try exact I; exact H1.
Qed.

Lemma predef_b_none nm : Proofs.XmlWFSyntaxRenderDtdWf.is_predef_b nm = false -> Info.predefined nm = None.
Proof.
  intros H. destruct (Info.predefined nm) as [e|] eqn:P; [|reflexivity]. exfalso. apply predefined_cases in P.
  destruct P as [->|[->|[->|[->| ->]]]]; discriminate H.
Qed.

Lemma built_notation_names ext : forall (l : list int_subset) acc r, build_subset false ext acc l = IOk r ->
  map no_name (flat_map (fun c => match c with DtNotation n => [n] | _ => [] end) r)
  = map dn_name (flat_map (fun x => match x with IsMarkup (MkNotation d) => [d] | _ => [] end) l).
Proof.
  induction l as [|x l IH]; intros acc r Hb; cbn [build_subset] in Hb.
  - injection Hb as <-. reflexivity.
  - destruct x as [[d|d|[n d|n d]|d|p|s]|n|s]; try discriminate Hb; cbn [flat_map app].
    + exact (IH _ _ Hb).
    + apply ibind_ok in Hb. destruct Hb as [a [_ Hb]]. apply ibind_ok in Hb. destruct Hb as [r' [Hr' Hb]]. injection Hb as <-. exact (IH _ _ Hr').
    + apply ibind_ok in Hb. destruct Hb as [[] [_ Hb]]. apply ibind_ok in Hb. destruct Hb as [r' [Hr' Hb]]. injection Hb as <-. exact (IH _ _ Hr').
    + apply ibind_ok in Hb. destruct Hb as [r' [Hr' Hb]]. injection Hb as <-. cbn [flat_map app map]. rewrite (IH _ _ Hr').
      f_equal. unfold build_notation. destruct (dn_id d); reflexivity.
    + apply ibind_ok in Hb. destruct Hb as [r' [Hr' Hb]]. injection Hb as <-. exact (IH _ _ Hr').
    + exact (IH _ _ Hb).
    + exact (IH _ _ Hb).
Qed.

Lemma sorted_tokens_marks (l : list (str * Infoset.token)) : forallb (fun p => is_mark (KTok (snd p))) l = true ->
  forallb is_mark (map KTok (map snd (Infoset.sort_by fst l))) = true.
Proof.
  intros H. apply forallb_forall. intros t Ht. apply in_map_iff in Ht. destruct Ht as [t0 [<- Ht]]. apply in_map_iff in Ht. destruct Ht as [p [<- Hp]].
  apply (Permutation_in _ (RT.sort_perm fst l)) in Hp. rewrite forallb_forall in H. exact (H p Hp).
Qed.

Lemma doctype_tokens_marks (dt : W.doctype) : forallb is_mark (map KTok (Infoset.doctype_tokens dt)) = true.
Proof.
  unfold Infoset.doctype_tokens. cbv zeta. cbn [map forallb is_mark andb]. rewrite !map_app, !forallb_app. repeat (apply andb_true_iff; split).
  - apply sorted_tokens_marks. apply forallb_forall. intros p Hp. apply in_flat_map in Hp. destruct Hp as [d [_ Hp]].
    repeat match type of Hp with In _ (match ?x with _ => _ end) => destruct x end; try (destruct Hp as [<-|[]]; reflexivity); destruct Hp.
  - apply sorted_tokens_marks. apply forallb_forall. intros p Hp. apply in_flat_map in Hp. destruct Hp as [d [_ Hp]].
    repeat match type of Hp with In _ (match ?x with _ => _ end) => destruct x end; try (destruct Hp as [<-|[]]; reflexivity); destruct Hp.
  - apply forallb_forall. intros p Hp. apply in_map_iff in Hp. destruct Hp as [t [<- Hp]]. apply in_flat_map in Hp. destruct Hp as [d [_ Hp]].
    repeat match type of Hp with In _ (match ?x with _ => _ end) => destruct x end; try (destruct Hp as [<-|[]]; reflexivity); destruct Hp.
  - reflexivity.
  - reflexivity.
Qed.

Theorem view_doctype_pd (pd : pdoc) (doc : document) (dd : decl_doc) :
  p_doc_ok pd -> ok_doc pd = true -> build_document pd = IOk doc -> pr_declaration_doc (d_prolog pd) = Some dd ->
  dtd_hyps (W.e_must_declare (W.doc_env (x_doc pd))) (option_map x_extid (dd_external_id dd)) (x_subset (dd_internal_subset dd)) ->
  exists root, W.check_doc (x_doc pd) = inr root /\
    (tree_good (attrs_okb (x_subset (dd_internal_subset dd))) root = true ->
     dom_view false doc = Infoset.doc_tokens (x_doc pd) root /\ dom_view true doc = doc_tokens2 (x_doc pd) root).
Proof.
  intros [Hpro [Hel Hms]] Hok Hb Hdd [Hext0 Hsimple0 Hnp0 Hne0 Hnn0 Hpub0 Hpubs0]. unfold build_document, build_document_gen in Hb.
  assert (Hoks0 : ok_subset (dd_internal_subset dd) = true).
  { unfold ok_doc in Hok. rewrite Hdd in Hok. apply andb_prop in Hok. destruct Hok as [Hok _]. apply andb_prop in Hok. destruct Hok as [Hok _].
    apply andb_prop in Hok. destruct Hok as [Hok _]. apply andb_prop in Hok. tauto. }
  assert (Hext : external_subset (match pr_declaration_xml (d_prolog pd) with Some x => dx_standalone x | None => None end)
                                 (match dd_external_id dd with Some x => Some (fst (external_id_parts x)) | None => None end) = false).
  { revert Hext0. unfold W.doc_env, x_doc. cbn [W.x_doctype W.x_decl W.e_must_declare]. rewrite Hdd. cbn [option_map x_doctype W.dt_extid].
    unfold external_subset. destruct (pr_declaration_xml (d_prolog pd)) as [xd|]; cbn [option_map x_xmldecl W.xd_standalone];
      [destruct (dx_standalone xd) as [[|]|]|]; destruct (dd_external_id dd); cbn [is_some negb andb orb option_map]; intros E; try reflexivity; discriminate E. }
  assert (Hsimple : forallb simple_ent (gents (dd_internal_subset dd)) = true) by exact (Proofs.XmlWFSyntaxConvDtdCheck.gents_simple _ Hoks0 Hsimple0).
  assert (Hnp : forall e0, In e0 (gents (dd_internal_subset dd)) -> Info.predefined (en_name e0) = None).
  { intros e0 Hin. apply predef_b_none. apply (Hnp0 (en_name e0, x_entity e0)). rewrite (entities_of_subset _ Hoks0). unfold tbl.
    apply (in_map (fun e => (en_name e, x_entity e))). exact Hin. }
  assert (Hne : NoDup (map en_name (gents (dd_internal_subset dd)))) by (rewrite <- ents_names; exact Hne0).
  assert (Hnn : NoDup (map dn_name (flat_map (fun x => match x with IsMarkup (MkNotation d) => [d] | _ => [] end) (dd_internal_subset dd)))) by (rewrite <- nots_names; exact Hnn0).
  assert (Hpub : match dd_external_id dd with Some (ExPublic p _) => Infoset.pub_norm p = p | _ => True end).
  { destruct (dd_external_id dd) as [[sy|pb sy]|]; cbn [option_map x_extid] in Hpub0; try exact I. exact Hpub0. }
  assert (Hpubs : subset_pubs_ok (dd_internal_subset dd)) by exact (pubs_of_spec _ Hpubs0).
  set (sa := match pr_declaration_xml (d_prolog pd) with Some x => dx_standalone x | None => None end) in *.
  destruct (ent_fuel_bound3 (x_doc pd)) as [f1 [Ef Hf1]].
  rewrite Hdd in Hb.
  apply ibind_ok in Hb. destruct Hb as [dt [Hdt Hb]]. apply ibind_ok in Hdt. destruct Hdt as [dtb [Hx Hdt]]. injection Hdt as <-.
  apply ibind_ok in Hb. destruct Hb as [el [Hbe Hb]]. injection Hb as <-.
  pose proof Hx as Hx0. unfold build_doctype in Hx. apply ibind_ok in Hx. destruct Hx as [ch [Hch Hx]].
  rewrite Hext in Hch.
  assert (Edt : dt_entities dtb = gents (dd_internal_subset dd)).
  { injection Hx as <-. unfold dt_entities. cbn [dt_children]. exact (build_subset_entities _ _ _ _ Hch). }
  assert (Esys : dt_system dtb = match dd_external_id dd with Some x => Some (fst (external_id_parts x)) | None => None end) by (injection Hx as <-; reflexivity).
  rewrite Esys, Hext, Edt in Hbe.
  unfold ok_doc in Hok. rewrite Hdd in Hok.
  apply andb_prop in Hok. destruct Hok as [Hok _]. apply andb_prop in Hok. destruct Hok as [Hok _].
  apply andb_prop in Hok. destruct Hok as [Hok _]. apply andb_prop in Hok. destruct Hok as [_ Hoks].
  pose proof Hpro as [Hxd [_ [Hdoc _]]]. rewrite Hdd in Hdoc. pose proof Hdoc as [_ [_ Hinv]].
  set (ents := gents (dd_internal_subset dd)) in *. set (sub := x_subset (dd_internal_subset dd)) in *. set (en := W.doc_env (x_doc pd)) in *.
  assert (W.e_must_declare en = negb false) as Hmust.
  { unfold en, W.doc_env, x_doc. cbn [W.x_doctype W.x_decl W.e_must_declare]. rewrite Hdd. cbn [option_map x_doctype W.dt_extid].
    revert Hext. subst sa. unfold external_subset. destruct (pr_declaration_xml (d_prolog pd)) as [xd|]; cbn [option_map x_xmldecl W.xd_standalone];
      [destruct (dx_standalone xd) as [[|]|]|]; destruct (dd_external_id dd); cbn [is_some negb andb option_map]; intros E; try reflexivity; discriminate E. }
  assert (W.e_ents en = W.with_predefined (tbl ents)) as Hents.
  { unfold en, W.doc_env, x_doc. cbn [W.x_doctype W.e_ents]. rewrite Hdd. cbn [option_map x_doctype W.dt_subset]. rewrite (entities_of_subset _ Hoks). reflexivity. }
  assert (env_rel en ents false) as Hrel.
  { split; [|exact Hmust]. intros nm. rewrite Hents. apply assoc_with_predefined. }
  assert (match W.x_doctype (x_doc pd) with Some dt0 => W.dt_subset dt0 | None => [] end = sub) as Hsub.
  { unfold x_doc. cbn [W.x_doctype]. rewrite Hdd. reflexivity. }
  rewrite Hsub in Hf1. unfold sub in Hf1. rewrite (entities_of_subset _ Hoks) in Hf1. unfold tbl in Hf1. rewrite map_length in Hf1. fold ents in Hf1.
  assert (Hsys : forall e0, In e0 ents -> en_values e0 = None -> en_system e0 <> None) by apply gents_sys.
  assert (Hwf : forall e0, In e0 ents -> Forall piece_wf (values_of e0)) by exact (gents_wf false (dd_internal_subset dd) [] ch Hch Hinv).
  (* the specification's checks *)
  assert (Hsok : W.subset_ok (Datatypes.S (Datatypes.S (Datatypes.S f1))) true [] sub = None).
  { apply (s_subset_checked false (Datatypes.S f1) (dd_internal_subset dd) [] [] ch Hch Hoks Hinv Hsimple); [intros e0 []|cbn [app]; fold ents; lia|intros k; reflexivity]. }
  (* the element tree *)
  set (dt := Some dtb).
  assert (Eents : ents_of dt = ents) by exact Edt.
  assert (HattrV : forall nm e, resolve_ref (ents_of dt) false true nm = IOk e ->
            exists v, expand_attr (ents_of dt) nm = IOk v /\ W.av_value (Datatypes.S (Datatypes.S (Datatypes.S f1))) en [W.AvEnt nm] = v).
  { rewrite Eents. intros nm e He. exact (attr_simple ents en Hrel Hsimple Hsys Hwf f1 nm e Hf1 He). }
  assert (Hpre : forall acc rest, ents = acc ++ rest -> forall nm e, resolve_ref acc false true nm = IOk e ->
            exists v, expand_attr ents nm = IOk v /\ W.av_value (Datatypes.S (Datatypes.S (Datatypes.S f1))) en [W.AvEnt nm] = v).
  { intros acc rest He nm e Hr. exact (attr_prefix ents en Hrel Hsimple Hsys Hwf f1 acc rest nm e He Hnp Hf1 Hr). }
  assert (Hals : Forall2 (al_rel ents en (Datatypes.S (Datatypes.S f1))) (dt_attlists dtb) (s_attlists sub)).
  { injection Hx as <-. unfold dt_attlists. cbn [dt_children]. exact (subset_attlists ents en _ Hpre (dd_internal_subset dd) [] ch Hch Hinv eq_refl). }
  assert (Hdefs : forall local prefix, pair_good local prefix ->
            Forall2 (def_rel (ents_of dt) en (Datatypes.S (Datatypes.S f1))) (declaration_att_defs dt local prefix) (W.attdefs_of sub (qn local prefix))).
  { rewrite Eents. intros local prefix Hg. exact (defs_rel ents en _ dt sub local prefix Hals Hg). }
  destruct (element_viewed dt false en (Datatypes.S (Datatypes.S (Datatypes.S f1))) sub (attrs_okb sub)) with (e := d_element pd) (el := el) as (x' & Ex & Hxe & RMx).
  { rewrite Eents. intros nm e He. destruct (cont_simple ents en Hrel Hsimple Hwf (Datatypes.S f1) nm e ltac:(lia) He) as (x0 & E0 & P0).
    exists x0. split; [exact E0|]. intros Hn. destruct (P0 Hn) as (v & Ev & C1 & C2). exists v. split; [exact Ev|]. split; [apply C1|apply C2]. }
  { intros n attrs attrs' Hq Ha Hat Hokb.
    exact (rows_decl dt en (Datatypes.S f1) sub HattrV Hdefs n attrs attrs' Hq Ha Hat Hokb). }
  { intros. apply expand_elem_f. }
  { intros. apply expand_leaf_f. assumption. }
  { exact Hel. }
  { rewrite Eents. exact Hbe. }
  (* tree_ok: from the checked element *)
  destruct (s_element_checked ents false en (Datatypes.S f1)) with (e := d_element pd) (el := el) as [x'' [Ex' Ox]].
  { intros nm e He. exact (ref_attr_ok_s _ false _ Hrel Hsimple Hsys (Datatypes.S f1) nm e ltac:(lia) He). }
  { intros nm e He. exact (ref_content_ok_s _ false _ Hrel Hsimple (Datatypes.S f1) nm e ltac:(lia) He). }
  { exact Hel. }
  { exact Hbe. }
  rewrite Ex in Ex'. injection Ex' as <-.
  exists x'. split.
  { unfold W.check_doc. fold en. rewrite Ef, Hsub, Hmust. cbn [negb]. rewrite Hsok. change (W.x_root (x_doc pd)) with (x_elem (d_element pd)). rewrite Ex, Ox. reflexivity. }
  intros Hgood. destruct (RMx Hgood) as [Rx Mx].
  destruct (build_element_is_element _ _ _ _ Hbe) as (lo & pr & at' & ch0 & ->).
  (* the document type declaration *)
  assert (Hdump : forall b, item_dump dt b (ItDocType dtb) = map KTok (Infoset.doctype_tokens (x_doctype dd))).
  { intros b. apply (doctype_dump dt b sa dd dtb Hdoc Hx0).
    - injection Hx as <-. cbn [dt_public pub_ok]. destruct (dd_external_id dd) as [[sy|pb sy]|]; cbn [external_id_parts snd pub_ok]; try exact I. exact Hpub.
    - exact Hpubs.
    - exact Hne.
    - injection Hx as <-. unfold dt_notations. cbn [dt_children]. rewrite (built_notation_names _ _ _ _ Hch). exact Hnn. }
  assert (Hkids : forall b, flat_map (item_dump dt b) (misc_items (pr_heads (d_prolog pd)) ++ [ItDocType dtb] ++ misc_items (pr_tails (d_prolog pd)) ++ [ItElement lo pr at' ch0] ++ misc_items (d_miscs pd))
                 = map KTok (flat_map Infoset.misc_token (x_miscs (pr_heads (d_prolog pd)))) ++ map KTok (Infoset.doctype_tokens (x_doctype dd))
                   ++ map KTok (flat_map Infoset.misc_token (x_miscs (pr_tails (d_prolog pd)))) ++ item_dump dt b (ItElement lo pr at' ch0)
                   ++ map KTok (flat_map Infoset.misc_token (x_miscs (d_miscs pd)))).
  { intros b. rewrite !flat_map_app. cbn [flat_map]. rewrite !app_nil_r, !misc_dump, Hdump. reflexivity. }
  assert (Hdoc0 : Infoset.TDoc (match pr_declaration_xml (d_prolog pd) with Some x => Some (dx_version x) | None => None end)
                              (match (match pr_declaration_xml (d_prolog pd) with Some x => match dx_encoding x with Some e => e | None => [] end | None => [] end) with [] => None | e => Some e end)
                              sa
                 = match W.x_decl (x_doc pd) with
                   | Some xd => Infoset.TDoc (Some (W.xd_version xd)) (W.xd_encoding xd) (W.xd_standalone xd)
                   | None => Infoset.TDoc None None None end).
  { subst sa. cbn [x_doc W.x_decl]. destruct (pr_declaration_xml (d_prolog pd)) as [x|]; [|reflexivity].
    cbn [option_map x_xmldecl W.xd_version W.xd_encoding W.xd_standalone]. destruct Hxd as [_ Hen].
    destruct (dx_encoding x) as [e|]; [|reflexivity]. destruct e as [|c e]; [destruct Hen|reflexivity]. }
  assert (Hdd0 : forall d0, doc_doctype {| doc_children := misc_items (pr_heads (d_prolog pd)) ++ [ItDocType dtb] ++ misc_items (pr_tails (d_prolog pd)) ++ [ItElement lo pr at' ch0] ++ misc_items (d_miscs pd);
                                           doc_encoding := d0; doc_standalone := sa;
                                           doc_version := match pr_declaration_xml (d_prolog pd) with Some x => Some (dx_version x) | None => None end |} = dt).
  { intros d0. unfold doc_doctype. cbn [doc_children]. rewrite !flat_map_app, !misc_items_no_doctype. reflexivity. }
  assert (Esubd : match W.x_doctype (x_doc pd) with Some dt0 => Infoset.doctype_tokens dt0 | None => [] end = Infoset.doctype_tokens (x_doctype dd)).
  { unfold x_doc. cbn [W.x_doctype]. rewrite Hdd. reflexivity. }
  split.
  - unfold dom_view, dom_dump. rewrite Hdd0. cbn [doc_children doc_version doc_encoding doc_standalone]. rewrite Hkids.
    rewrite merge_raw_mark by reflexivity. rewrite merge_raw_app, (mr_marks _ (misc_marks _)), map_plain_KTok. cbn [fst snd].
    rewrite merge_raw_app, (mr_marks _ (doctype_tokens_marks _)), map_plain_KTok. cbn [fst snd].
    rewrite merge_raw_app, (mr_marks _ (misc_marks _)), map_plain_KTok. cbn [fst snd].
    rewrite merge_raw_app. destruct (Rx None) as (a1 & E1 & E2). cbn [kids_raw] in E1. rewrite app_nil_r in E1. cbn [ostr rev] in E1, E2. rewrite E1.
    cbn [fst snd]. rewrite (merge_raw_marks _ a1 (misc_marks _)), map_plain_KTok.
    cbn [items_tokens] in E2 |- *. destruct (Infoset.item_tokens (Datatypes.S (Datatypes.S (Datatypes.S f1))) en sub x' []) as [o a0] eqn:Eo. cbn [fst snd] in *. rewrite !app_nil_r in *. pose proof Eo as Eo'.
    assert (Ea : fl a1 = []).
    { rewrite <- flush_fl, <- E2. destruct x'; try destruct Hxe. rewrite item_tokens_elem in Eo. destruct (items_tokens _ en sub kids []). injection Eo as _ <-. reflexivity. }
    rewrite Ea. unfold Infoset.doc_tokens. cbv zeta. cbn [plain_token fl app]. rewrite Hdoc0, Esubd, Hsub. fold en. rewrite Ef, Eo'.
    cbn [x_doc W.x_misc1 W.x_misc2 W.x_misc3 fst app]. reflexivity.
  - unfold dom_view, dom_dump. rewrite Hdd0. cbn [doc_children doc_version doc_encoding doc_standalone]. rewrite Hkids.
    destruct (Mx false [] (fun _ => eq_refl)) as (E1 & _). change (run_of false []) with (@None (option str)) in E1.
    rewrite km_elem in E1. cbn [flush_run app items_tokens2] in E1. destruct (item_tokens2 (Datatypes.S (Datatypes.S (Datatypes.S f1))) en sub x' false []) as [o [s1 b1]] eqn:Eo. cbn [fst snd] in E1.
    rewrite !app_nil_r in E1. apply (f_equal fst) in E1. cbn [fst] in E1. rewrite E1. cbn [map plain_token]. rewrite Hdoc0, !map_app, !map_plain_KTok.
    unfold doc_tokens2. cbv zeta. rewrite Esubd, Hsub. fold en. rewrite Ef, Eo.
    cbn [x_doc W.x_misc1 W.x_misc2 W.x_misc3 fst app]. reflexivity.
Qed.
