(** C12 -- The DOM stays a tree: navigation views agree after any edit history.

    "After any sequence of DOM operations on a document, whether they succeeded or failed, the
    navigational views agree: every node listed in a parent's child_nodes reports that parent as
    parent_node; first_child, last_child, previous_sibling and next_sibling match the child list;
    no node occurs twice or beneath itself; a removed node has no parent; and the document has at
    most one document element and one document type."

    Model: Model/Store.v + Model/DomOps.v (the repaired code of branch agent-dom), tied to the
    crates by the [dom] correspondence domain.  [step] covers every DOM Level 1 mutator on every
    receiver kind with arbitrary arguments (self, ancestors, detached nodes, nodes of another
    document, ids that do not exist) and arbitrary string facts; [run w ops] folds it over a
    history, failed and panicking calls included.  This file only names the theorems. *)
From Coq Require Import List NArith Bool.
From XmlRs Require Import Base.CPred Model.Store Model.StoreCheck Model.DomOps
  Proofs.DomTree Proofs.DomOpsInv Proofs.DomNav Proofs.DomCheck Proofs.DomExample Proofs.DomC12.
Import ListNotations.
Open Scope N_scope.

Theorem C12_nav_agree : forall s, TreeInv s -> NavAgree s.
Proof. exact nav_agree. Qed.

Theorem C12_tree_inv_step : forall w o, WInv w -> WInv (fst (step w o)).
Proof. exact tree_inv_step. Qed.

Theorem C12_tree_inv_reachable : forall init ops, WInv init -> WInv (run init ops).
Proof. exact tree_inv_reachable. Qed.

Theorem C12_navigation_agrees_reachable :
  forall init ops k s, WInv init -> doc_at (run init ops) k = Some s -> NavAgree s.
Proof. exact navigation_agrees_reachable. Qed.

Theorem C12_tree_inv_checkable : forall l nx root decl, tree_inv_b l nx root = true -> TreeInv (store_of_list l nx decl root).
Proof. exact tree_inv_checkable. Qed.

Print Assumptions C12_nav_agree.
Print Assumptions C12_tree_inv_step.
Print Assumptions C12_tree_inv_reachable.
Print Assumptions C12_navigation_agrees_reachable.
Print Assumptions C12_tree_inv_checkable.

(** ** [Element::normalize] (fix 371cd5b; model: Model/DomNormalize.v, tied by the op [NZ] of the dom correspondence)

    The code performs [normalize] only through [append_data] on a Text node and [remove_child] on the
    element, so the model is a derived program over [step] and the world after it is reachable by a
    plain history ([C12_normalize_is_history]); [run_n] runs histories over [nop] = an operation or
    [Normalize merged r].  Every theorem above therefore holds for histories with [normalize] calls. *)
From XmlRs Require Import Model.DomNormalize Proofs.DomNormalizeHist Proofs.DomNormalizeC12.

Theorem C12_normalize_is_history : forall merged fuel w r,
  exists ops, normalize_run merged fuel w r = run w ops /\ Forall norm_op ops.
Proof. exact normalize_is_history. Qed.

Theorem C12_run_n_history : forall nops w,
  exists ops, run_n w nops = run w ops /\ Forall (fun o => norm_op o \/ In (Op o) nops) ops.
Proof. exact run_n_history. Qed.

Theorem C12_tree_inv_reachable_with_normalize : forall init nops, WInv init -> WInv (run_n init nops).
Proof. exact tree_inv_reachable_with_normalize. Qed.

Theorem C12_tree_inv_normalize : forall merged w r, WInv w -> WInv (fst (normalize merged w r)).
Proof. exact tree_inv_normalize. Qed.

Theorem C12_navigation_agrees_reachable_with_normalize :
  forall init nops k s, WInv init -> doc_at (run_n init nops) k = Some s -> NavAgree s.
Proof. exact navigation_agrees_reachable_with_normalize. Qed.

(** non-trivial instance: on <r><a x="1">t</a><b/></r>, t.split_text(0), Text nodes "]]" and ">" appended to a,
    r.normalize() (raw view), r.normalize() (merged view): a = ["" "t" "]]" ">"] becomes ["t]]" ">"] *)
Example C12_normalize_example :
  (children_of (store0 nz_before) 3, map (data_of (store0 nz_before)) [6; 8; 9; 10]) = ([6; 8; 9; 10], [[]; [116]; [93; 93]; [62]])
  /\ (children_of (store0 nz_final) 3, map (data_of (store0 nz_final)) [6; 8; 9; 10], map (parent_of (store0 nz_final)) [6; 8; 9; 10])
     = ([6; 10], [[116; 93; 93]; [116]; [93; 93]; [62]], [Some 3; None; None; Some 3])
  /\ WInv nz_final /\ NavAgree (store0 nz_final).
Proof. exact nz_example. Qed.

Print Assumptions C12_normalize_is_history.
Print Assumptions C12_run_n_history.
Print Assumptions C12_tree_inv_reachable_with_normalize.
Print Assumptions C12_tree_inv_normalize.
Print Assumptions C12_navigation_agrees_reachable_with_normalize.
Print Assumptions C12_normalize_example.

(** ** histories that contain calls on the read-only maps of a document type (Model/DomReadOnly.v; see Properties/C13.v)

    [DocumentType::entities()] / [notations()] return maps whose [set_named_item] / [remove_named_item] answer
    [NoModificationAllowedErr] and change nothing ([C12_readonly_world_unchanged]); a history [xop] that mixes them
    with the 27 operations and [normalize] ends in the world of the history without them ([C12_run_x_erase]), so the
    tree invariant and the navigation clauses hold along it. *)
From XmlRs Require Import Model.DomReadOnly Proofs.DomReadOnly.

Theorem C12_readonly_world_unchanged : forall w o, fst (step_ro w o) = w.
Proof. exact step_ro_world. Qed.

Theorem C12_run_x_erase : forall ops w, run_x w ops = run_n w (nops_of ops).
Proof. exact run_x_erase. Qed.

Theorem C12_tree_inv_reachable_with_readonly : forall init xs, WInv init -> WInv (run_x init xs).
Proof. exact tree_inv_reachable_with_readonly. Qed.

Theorem C12_navigation_agrees_reachable_with_readonly :
  forall init xs k s, WInv init -> doc_at (run_x init xs) k = Some s -> NavAgree s.
Proof. exact navigation_agrees_reachable_with_readonly. Qed.

(** non-trivial instance: a document whose document type declares two entities and a document without document type;
    ten calls (by name, by index, absent name, both maps, receiver = document / document type node, the document type
    removed in between) *)
Example C12_readonly_example :
  run_x ro_world ro_ops = fst (step ro_world (RemoveChild (0, 1) (0, 2)))
  /\ WInv (run_x ro_world ro_ops)
  /\ (forall s, doc_at (run_x ro_world ro_ops) 0 = Some s -> NavAgree s).
Proof. exact ro_example_world. Qed.

Print Assumptions C12_readonly_world_unchanged.
Print Assumptions C12_run_x_erase.
Print Assumptions C12_tree_inv_reachable_with_readonly.
Print Assumptions C12_navigation_agrees_reachable_with_readonly.
Print Assumptions C12_readonly_example.

(** ** Histories with insertions of a merged text node of the text-expanded view (Model/DomMergedArg.v, defect D68
    repaired by /repo aa36908): [append_child] / [insert_before] / [replace_child] whose new child is the node
    [child_nodes()] hands out for a run of Text / CDATA / reference children are refused (or cannot be written) and
    change nothing ([C12_merged_argument_world_unchanged]); a history [yop] that mixes them with the calls of the
    earlier sections ends in the world of the history without them ([C12_run_y_erase]), so the tree invariant and the
    navigation clauses hold along it. *)
From XmlRs Require Import Model.DomMergedArg Proofs.DomMergedArg.

Theorem C12_merged_argument_world_unchanged : forall w o, fst (step_mx w o) = w.
Proof. exact step_mx_world. Qed.

Theorem C12_run_y_erase : forall ops w, run_y w ops = run_x w (xops_of ops).
Proof. exact run_y_erase. Qed.

Theorem C12_tree_inv_reachable_with_merged_argument : forall init ys, WInv init -> WInv (run_y init ys).
Proof. exact tree_inv_reachable_with_merged_argument. Qed.

Theorem C12_navigation_agrees_reachable_with_merged_argument :
  forall init ys k s, WInv init -> doc_at (run_y init ys) k = Some s -> NavAgree s.
Proof. exact navigation_agrees_reachable_with_merged_argument. Qed.

(** non-trivial instance (Proofs/DomMergedArg.v: fourteen calls on two documents with text runs, one real edit) *)
Example C12_merged_argument_example :
  run_y mx_world mx_ops = fst (step mx_world (RemoveChild (0, 2) (0, 9)))
  /\ WInv (run_y mx_world mx_ops)
  /\ (forall s, doc_at (run_y mx_world mx_ops) 0 = Some s -> NavAgree s).
Proof. exact mx_example_world. Qed.

Print Assumptions C12_merged_argument_world_unchanged.
Print Assumptions C12_run_y_erase.
Print Assumptions C12_tree_inv_reachable_with_merged_argument.
Print Assumptions C12_navigation_agrees_reachable_with_merged_argument.
Print Assumptions C12_merged_argument_example.
