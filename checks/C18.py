"""C18 -- character classes and name syntax match XML 1.0 5th Ed. for every code point."""
import json
from . import lib

PREDS = ['is_char', 'is_name_start_char', 'is_name_char', 'is_pubid_char', 'is_enc_name']

def runs_from_thresholds(line):
    """'thr name t:v ...' -> (name, [(lo, hi)]) : maximal runs where the predicate is true"""
    parts = line.split()
    name = parts[1]
    pts = {}
    for tv in parts[2:]:
        t, v = tv.split(':')
        pts[int(t)] = int(v)
    ts = sorted(pts)
    runs = []
    for i, t in enumerate(ts):
        if pts[t]:
            hi = (ts[i + 1] - 1) if i + 1 < len(ts) else 0x10FFFF
            if runs and runs[-1][1] == t - 1:
                runs[-1] = (runs[-1][0], hi)
            else:
                runs.append((t, hi))
    return name, runs

def parse_rust(lines):
    res, counts = {}, {}
    for l in lines:
        p = l.split()
        if p and p[0] == 'runs':
            res[p[1]] = [tuple(int(x) for x in r.split('-')) for r in p[2:]]
        elif p and p[0] == 'count':
            counts[p[1]] = (int(p[2]), int(p[3]))
    return res, counts

def first_diff(a, b):
    """smallest code point on which two run lists differ"""
    def member(rs, c):
        return any(lo <= c <= hi for lo, hi in rs)
    cands = sorted({x for lo, hi in a + b for x in (lo, hi + 1)})
    for c in cands:
        if c <= 0x10FFFF and member(a, c) != member(b, c):
            return c
    return None

def check(run):
    run.trusted = ['Coq 8.16.1 kernel + VM (vm_compute)', 'translator T1 tools/rs2v/xmlchar.py (validated by the exhaustive sweep below)',
                   'Spec/XmlChars.v: transcription of XML 1.0 5th ed. productions [2] [4] [4a] [13] [81]',
                   'harness/src/chars.rs sweep over all scalar values', 'extraction (ExtrOcamlBasic only) + ocaml/driver.ml']
    proved, _ = lib.proof_step(run, 'C18', ['T1', 'T2'])
    okr, mok, sok = lib.build_binaries(run, model_areas=['chars', 'peg'], spec_areas=['chars'])
    okm = mok.get('chars', False)
    from . import names
    if okr:
        rc, rust_lines = lib.run_bin(lib.rust_bin(), ['chars'], timeout=300)
        rust, counts = parse_rust(rust_lines)
        rc2, spec_lines = lib.run_bin(lib.spec_bin('chars'), ['chars'], timeout=60)
        spec = dict(runs_from_thresholds(l) for l in spec_lines if l.startswith('thr '))
        model = {}
        if okm:
            rc3, model_lines = lib.run_bin(lib.model_bin('chars'), ['chars'], timeout=60)
            model = dict(runs_from_thresholds(l) for l in model_lines if l.startswith('thr '))
        for p in PREDS:
            if p not in rust:
                run.tie_breaks.append('harness did not report %s' % p); continue
            run.evaluations += counts[p][1]
            run.nontrivial.update((p, lo, hi) for lo, hi in rust[p])
            run.sample({'predicate': p, 'true_on': counts[p][0], 'of_scalars': counts[p][1], 'runs': rust[p][:6]})
            # failing-input search: implementation vs specification, every scalar value
            d = first_diff(rust[p], spec.get(p, []))
            if d is not None:
                run.failing_inputs.append({'property': 'C18', 'class': p, 'what': '%s(U+%04X) disagrees with XML 1.0 5th ed.' % (p, d),
                                           'code_point': d, 'rust_says': any(lo <= d <= hi for lo, hi in rust[p]),
                                           'replay': 'echo | harness/target/debug/xh chars  # runs of %s' % p})
            # correspondence: generated model vs implementation (validates T1), every scalar value
            if p in model:
                d2 = first_diff(rust[p], model[p])
                if d2 is not None:
                    run.tie_breaks.append('T1 model of %s differs from the implementation at U+%04X' % (p, d2))
            elif okm:
                run.tie_breaks.append('model has no predicate %s' % p)
        run.extra['exhaustive'] = True
        run.extra['scalar_values_swept'] = counts.get('is_char', (0, 0))[1]
    names.check_names(run, okr, mok.get('peg', False))
    return run.finish(level='proof',
        rule='classes: all 1,112,064 scalar values x 5 predicates, distinct = maximal runs; names: strings over class representatives, distinct by (production, string), non-trivial = non-empty',
        assumptions=['Rust char = Unicode scalar value', 'model of the nom combinators (Model/Nom.v) tied by the prod correspondence only'])

def replay(path):
    d = json.load(open(path))
    print(json.dumps(d, indent=1))
    if 'code_point' in d:
        rc, lines = lib.run_bin(lib.rust_bin(), ['chars'])
        rust, _ = parse_rust(lines)
        c = d['code_point']
        print('implementation: %s(U+%04X) = %s' % (d['class'], c, any(lo <= c <= hi for lo, hi in rust[d['class']])))
    if 'string' in d:
        from . import names
        names.replay_case(d)
    return 0
