//! `parse` domain: the parse -> infoset -> print pipeline on one document.
//!
//! case  := <flags> <document>            document = decimal code points joined by ',' ("-" = empty)
//!          flags: `d` default; `x` = expand entity references even when the reference graph
//!          is cyclic (only used in isolated mode: the real code overflows its stack, D09);
//!          `q` = timing-only (build, compact print, re-parse; no dump, no entity value is read);
//!          `n` = no pretty-printing (the line ends after `re=`; used for very deep documents,
//!          whose indented form is quadratic in the depth); `p` is read by the model only
//!          (behave like the pinned code: no repairs)
//! line  := "rest=-" " err:parse"                                    xml_parser::document failed
//!        | "rest=" N " err:" CLASS                                   XmlDocument::new failed
//!        | "rest=" N " " DOC "|ser=" STR "|re=" RE "|pretty=" STR "|pp=" RE
//!   N     = number of characters left unconsumed by the parser
//!   CLASS = variant of xml_info::error::Error, with ":" STR payload for the String variants
//!   STR   = decimal code points joined by ',' ("-" = empty);  OPT = "~" (None) | "S" STR
//!   DOC   = "D(ver=" OPT ";enc=" STR ";sa=" ("~"|"0"|"1") ";ch=[" ITEM* "];nots=" ("~" | "[" NOT* "]")
//!           ";unp=[" UNP* "])"
//!   ITEM  = "E(" OPT(prefix) ";" STR(local) ";ns=[" ATTR* "];a=[" ATTR* "];c=[" ITEM* "])"   element
//!         | "T(" STR ")" text | "C(" STR ")" CDATA | "R(" STR(char) ";" STR(digits) ";" radix ")" char ref
//!         | "M(" STR ")" comment | "P(" STR(target) ";" STR(content()) ")" PI
//!         | "U(" STR(name) ";" OPT(system) ";" OPT(public) ";" VAL ")" unexpanded entity reference
//!         | "Y(" OPT(prefix) ";" STR(local) ";" OPT(system) ";" OPT(public) ";al=[" ("L(" OPT ";" STR ")")* "]"
//!           ";en=[" ENT* "];no=[" NOT* "];pi=[" P-items "])"                                 doctype
//!   ATTR  = "A(" OPT(prefix) ";" STR(local) ";[" AV* "])"   ns= the specified ones of namespace_attributes(), a= the specified
//!           ones of attributes() (defaulted attributes belong to the `attr` domain), both in iteration order
//!   AV    = "t(" STR ")" | "r(" STR ";" STR ";" radix ")" | "u(" STR ";" OPT ";" OPT ";" VAL ")"
//!   ENT   = "N(" STR(name) ";" ("~" | "V[" EV* "]") ";" OPT(system) ";" OPT(public) ";" OPT(ndata) ")"
//!   EV    = "c(" STR ";" radix ")" | "e(" STR ")" | "p(" STR ")" | "t(" STR ")"
//!   NOT   = "O(" STR(name) ";" OPT(system) ";" OPT(public) ")"
//!   UNP   = "Q(" STR(name) ";" STR(system) ";" OPT(public) ";" STR(notation name) ")"
//!   VAL   = XmlUnexpandedEntityReference::value():  "k" STR | "x:" CLASS | "cyc" (not evaluated: some
//!           entity reachable from the name refers back to an entity on the path)
//!   RE    = re-parse of the serialisation with XmlDocument::from_raw:
//!           "rej:" ("parse" | CLASS) | "ok;rest=" N ";eq=" b ";fix=" b
//!           eq = the real `==` between the re-parsed and the first document, fix = serialising the
//!           re-parsed document gives the identical string.  `ser` is `to_string()` (compact), `pretty`
//!           is `PrettyPrint::pretty`.
//! Everything is read through public accessors of xml_info / xml_dom; the info-level document is
//! built with xml_parser::document + xml_info::XmlDocument::new, the very calls from_raw makes.
use crate::util::{dec, enc};
use std::rc::Rc;
use xml_dom::PrettyPrint;
use xml_info::{
    Character, Comment, Document, DocumentTypeDeclaration, Element, HasQName, Notation,
    ProcessingInstruction, UnexpandedEntityReference, UnparsedEntity, XmlAttributeValue,
    XmlEntityValue, XmlItem,
};

fn opt(v: Option<&str>) -> String {
    match v {
        None => "~".to_string(),
        Some(s) => format!("S{}", enc(s)),
    }
}

fn class(e: &xml_info::error::Error) -> String {
    use xml_info::error::Error::*;
    match e {
        IsolatedNode => "IsolatedNode".to_string(),
        InvalidData(s) => format!("InvalidData:{}", enc(s)),
        InvalidHierarchy => "InvalidHierarchy".to_string(),
        InvalidType => "InvalidType".to_string(),
        NotFoundDoumentElement => "NotFoundDoumentElement".to_string(),
        NotFoundReference(s) => format!("NotFoundReference:{}", enc(s)),
        OufOfIndex(n) => format!("OufOfIndex:{}", n),
        Parse(_) => "Parse".to_string(),
    }
}

struct Cx {
    doctype: Option<xml_info::XmlNode<xml_info::XmlDocumentTypeDeclaration>>,
    force: bool,
}

impl Cx {
    /// does the reference graph below `name` contain a name that refers back to the path?
    fn cyclic(&self, name: &str, path: &mut Vec<String>) -> bool {
        if path.iter().any(|p| p == name) {
            return true;
        }
        let ent = match &self.doctype {
            Some(d) => d.borrow().entities().into_iter().find(|e| e.borrow().name() == name),
            None => None,
        };
        let ent = match ent {
            Some(e) => e,
            None => return false,
        };
        path.push(name.to_string());
        let mut r = false;
        if let Some(vs) = ent.borrow().values() {
            for v in vs {
                if let XmlEntityValue::Entity(n) = v {
                    if self.cyclic(n, path) {
                        r = true;
                        break;
                    }
                }
            }
        }
        path.pop();
        r
    }

    fn val(&self, u: &xml_info::XmlUnexpandedEntityReference) -> String {
        if !self.force && self.cyclic(u.name(), &mut vec![]) {
            return "cyc".to_string();
        }
        match u.value() {
            Ok(s) => format!("k{}", enc(&s)),
            Err(e) => format!("x:{}", class(&e)),
        }
    }

    fn unexpanded(&self, tag: &str, u: &xml_info::XmlUnexpandedEntityReference) -> String {
        let sys = match u.system_identifier() {
            xml_info::Value::V(v) => opt(v),
            xml_info::Value::Unknown => "?".to_string(),
        };
        let pb = match u.public_identifier() {
            xml_info::Value::V(v) => opt(v),
            xml_info::Value::Unknown => "?".to_string(),
        };
        format!("{}({};{};{};{})", tag, enc(u.name()), sys, pb, self.val(u))
    }

    fn attr(&self, a: &xml_info::XmlAttribute) -> String {
        let mut s = format!("A({};{};[", opt(a.prefix()), enc(a.local_name()));
        for v in a.values().borrow().iter() {
            match v {
                XmlAttributeValue::Text(t) => {
                    let t = t.as_text().unwrap();
                    s.push_str(&format!("t({})", enc(t.borrow().character_code())));
                }
                XmlAttributeValue::Char(c) => {
                    let c = c.as_char_reference().unwrap();
                    let c = c.borrow();
                    s.push_str(&format!("r({};{};{})", enc(c.character_code()), enc(c.num()), c.radix()));
                }
                XmlAttributeValue::Entity(u) => {
                    let u = u.as_unexpanded().unwrap();
                    s.push_str(&self.unexpanded("u", &u.borrow()));
                }
            }
        }
        s.push_str("])");
        s
    }

    fn pi(&self, p: &xml_info::XmlProcessingInstruction) -> String {
        format!("P({};{})", enc(p.target()), enc(p.content()))
    }

    fn item(&self, it: &Rc<XmlItem>) -> String {
        match &**it {
            XmlItem::Element(e) => {
                let e = e.borrow();
                let mut s = format!("E({};{};ns=[", opt(e.prefix()), enc(e.local_name()));
                for a in e.namespace_attributes().iter() {
                    // since /repo bf629dc namespace_attributes() also answers declarations supplied by ATTLIST
                    // defaults: like defaulted attributes they belong to the `ns` / `attr` domains, not to the
                    // stored document this domain dumps
                    if xml_info::Attribute::specified(&*a.borrow()) {
                        s.push_str(&self.attr(&a.borrow()));
                    }
                }
                s.push_str("];a=[");
                for a in e.attributes().iter() {
                    if xml_info::Attribute::specified(&*a.borrow()) {
                        s.push_str(&self.attr(&a.borrow()));
                    }
                }
                s.push_str("];c=[");
                for c in e.children().iter() {
                    s.push_str(&self.item(&c));
                }
                s.push_str("])");
                s
            }
            XmlItem::Text(t) => format!("T({})", enc(t.borrow().character_code())),
            XmlItem::CData(t) => format!("C({})", enc(t.borrow().character_code())),
            XmlItem::CharReference(c) => {
                let c = c.borrow();
                format!("R({};{};{})", enc(c.character_code()), enc(c.num()), c.radix())
            }
            XmlItem::Comment(c) => format!("M({})", enc(c.borrow().comment())),
            XmlItem::PI(p) => self.pi(&p.borrow()),
            XmlItem::Unexpanded(u) => self.unexpanded("U", &u.borrow()),
            XmlItem::DocumentType(d) => {
                let d = d.borrow();
                let mut s = format!(
                    "Y({};{};{};{};al=[",
                    opt(d.prefix()),
                    enc(d.local_name()),
                    opt(d.system_identifier()),
                    opt(d.public_identifier())
                );
                for a in d.attributes() {
                    let a = a.borrow();
                    s.push_str(&format!("L({};{})", opt(a.prefix()), enc(a.local_name())));
                }
                s.push_str("];en=[");
                for e in d.entities() {
                    let e = e.borrow();
                    s.push_str(&format!("N({};", enc(e.name())));
                    match e.values() {
                        None => s.push('~'),
                        Some(vs) => {
                            s.push_str("V[");
                            for v in vs {
                                match v {
                                    XmlEntityValue::Character(n, r) => s.push_str(&format!("c({};{})", enc(n), r)),
                                    XmlEntityValue::Entity(n) => s.push_str(&format!("e({})", enc(n))),
                                    XmlEntityValue::Parameter(n) => s.push_str(&format!("p({})", enc(n))),
                                    XmlEntityValue::Text(n) => s.push_str(&format!("t({})", enc(n))),
                                }
                            }
                            s.push(']');
                        }
                    }
                    s.push_str(&format!(
                        ";{};{};{})",
                        opt(e.system_identifier()),
                        opt(e.public_identifier()),
                        opt(e.notation_name())
                    ));
                }
                s.push_str("];no=[");
                for n in d.notations() {
                    s.push_str(&notation(&n.borrow()));
                }
                s.push_str("];pi=[");
                for p in d.children().iter() {
                    s.push_str(&self.pi(&p.borrow()));
                }
                s.push_str("])");
                s
            }
            other => format!("?({:?})", other),
        }
    }
}

fn notation(n: &xml_info::XmlNotation) -> String {
    format!("O({};{};{})", enc(n.name()), opt(n.system_identifier()), opt(n.public_identifier()))
}

fn dump(doc: &xml_info::XmlDocument, force: bool) -> String {
    let cx = Cx { doctype: doc.document_declaration(), force };
    let mut s = format!(
        "D(ver={};enc={};sa={};ch=[",
        opt(doc.version()),
        enc(doc.character_encoding_scheme()),
        match doc.standalone() {
            None => "~",
            Some(false) => "0",
            Some(true) => "1",
        }
    );
    for c in doc.children().iter() {
        s.push_str(&cx.item(&c));
    }
    s.push_str("];nots=");
    match doc.notations() {
        None => s.push('~'),
        Some(ns) => {
            s.push('[');
            for n in ns.iter() {
                s.push_str(&notation(&n.borrow()));
            }
            s.push(']');
        }
    }
    s.push_str(";unp=[");
    for u in doc.unparsed_entities().iter() {
        let u = u.borrow();
        s.push_str(&format!(
            "Q({};{};{};{})",
            enc(u.name()),
            enc(u.system_identifier()),
            opt(u.public_identifier()),
            enc(u.notation_name())
        ));
    }
    s.push_str("])");
    s
}

fn reparse(first: &xml_dom::XmlDocument, text: &str, want_fix: bool) -> String {
    match xml_dom::XmlDocument::from_raw(text) {
        Err(xml_dom::error::Error::Parse(_)) => "rej:parse".to_string(),
        Err(xml_dom::error::Error::Info(e)) => format!("rej:{}", class(&e)),
        Err(e) => format!("rej:{:?}", e),
        Ok((rest, d2)) => {
            let eq = *first == d2;
            let mut s = format!("ok;rest={};eq={}", rest.chars().count(), eq as u8);
            if want_fix {
                s.push_str(&format!(";fix={}", (d2.to_string() == text) as u8));
            }
            s
        }
    }
}

pub fn case(line: &str) -> String {
    let mut it = line.split(' ');
    let flags = it.next().unwrap_or("");
    let text = match dec(it.next().unwrap_or("-")) {
        Some(s) => s,
        None => return "badinput".to_string(),
    };
    let force = flags.contains('x');
    let (rest, tree) = match xml_parser::document(&text) {
        Ok(v) => v,
        Err(_) => return "rest=- err:parse".to_string(),
    };
    let rest_n = rest.chars().count();
    let info = match xml_info::XmlDocument::new(&tree) {
        Ok(d) => d,
        Err(e) => return format!("rest={} err:{}", rest_n, class(&e)),
    };
    if flags.contains('q') {
        // timing-only run: build, print compactly and re-parse the print; no value of an entity
        // reference is read (their size may be exponential in the DTD by design of the input)
        let dom = match xml_dom::XmlDocument::from_raw(&text) {
            Ok((_, d)) => d,
            Err(e) => return format!("rest={} from_raw disagrees: {:?}", rest_n, e),
        };
        let ser = dom.to_string();
        let re = match xml_dom::XmlDocument::from_raw(&ser) {
            Ok((r, _)) => format!("ok;rest={}", r.chars().count()),
            Err(_) => "rej".to_string(),
        };
        return format!("rest={} built|serlen={}|re={}", rest_n, ser.chars().count(), re);
    }
    let mut out = format!("rest={} {}", rest_n, dump(&info.borrow(), force));
    // the path the tools take
    let dom = match xml_dom::XmlDocument::from_raw(&text) {
        Ok((_, d)) => d,
        Err(e) => return format!("{}|from_raw disagrees: {:?}", out, e),
    };
    let ser = dom.to_string();
    out.push_str(&format!("|ser={}|re={}", enc(&ser), reparse(&dom, &ser, true)));
    if flags.contains('n') {
        return out;
    }
    let mut buf: Vec<u8> = vec![];
    match dom.pretty(&mut buf) {
        Ok(()) => {
            let p = String::from_utf8(buf).unwrap_or_else(|_| "\u{fffd}".to_string());
            out.push_str(&format!("|pretty={}|pp={}", enc(&p), reparse(&dom, &p, false)));
        }
        Err(_) => out.push_str("|pretty=ioerr|pp=-"),
    }
    out
}
