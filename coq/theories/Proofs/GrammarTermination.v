(** Termination of the two parsers of xml-rs, for every input: instances of the generic
    theorem on the grammars REGENERATED from /repo.  The certificate emitted by the
    translator is checked here by computation; if a change to the Rust grammar introduces
    left recursion (a non-terminal reachable from itself without consuming input), this
    file stops compiling. *)
From Coq Require Import List NArith Arith.
From XmlRs Require Import Base.CPred Model.Peg Proofs.PegTermination Gen.GrammarXmlGen Gen.GrammarXPathGen.

Lemma G_xml_cert : cert_okb G_xml G_xml_nulls G_xml_ranks GrammarXmlGen.G_xml_R = true.
Proof. vm_compute. reflexivity. Qed.

Lemma G_xpath_cert : cert_okb G_xpath G_xpath_nulls G_xpath_ranks GrammarXPathGen.G_xpath_R = true.
Proof. vm_compute. reflexivity. Qed.

Theorem xml_grammar_terminates : forall (n : nat) (s : str), run G_xml GrammarXmlGen.G_xml_R n s <> Oof.
Proof. exact (certified_grammar_terminates _ _ _ _ G_xml_cert). Qed.

Theorem xpath_grammar_terminates : forall (n : nat) (s : str), run G_xpath GrammarXPathGen.G_xpath_R n s <> Oof.
Proof. exact (certified_grammar_terminates _ _ _ _ G_xpath_cert). Qed.
