(** C17 -- xe rewrites exactly the selected nodes; xq prints exactly the selection.

    Full statement (DESIGN 5.17):
      xe_effect : xe_model doc sel frag = Done d' -> replace_spec (ids sel) frag doc = Some d'
                  for selections of elements, attributes and the document node alike;
      xe_frame  : items outside the selected subtrees are unchanged;
      xq_output : xq prints the serialisations of the selected nodes, in order, one per line;
      cli_total : neither tool crashes.
    Proved here: xe_effect for every selection of ELEMENTS (any number, any order, nested or
    not) -- [C17_xe_effect_elements_partial]; the frame property of the specification for
    every selection -- [C17_xe_frame]; xq_output.  Missing: xe_effect for attribute and
    document targets (decided by the correspondence and the search only), and cli_total,
    which is about process behaviour the model cannot exhibit (observed on the real binaries
    by the check: exit status, panic message on stderr). *)
From Coq Require Import List NArith Bool Arith.
From XmlRs Require Import Base.CPred Spec.XeSpec Model.Cli Proofs.XeProofs.
Import ListNotations.

Theorem C17_xe_effect_elements_partial :
  forall (d : xdoc) (ids : list nat) (frag : list fnode) (new : list xn),
  conv_list frag = Some (Some new) -> ~ In 0%nat ids -> did d = 0%nat ->
  Forall (attr_free ids) (dchildren d) -> existsb is_elem (dchildren d) = true ->
  exists d', xe_model d (map (fun i => (i, KElem)) ids) frag = Done d' /\ replace_spec ids frag d = Some d'.
Proof. exact xe_effect_elements. Qed.

Theorem C17_xe_frame : forall (S : list nat) (frag : list fnode) (n : xn), untouched S n -> rs S frag n = Some n.
Proof. exact rs_frame. Qed.

Theorem C17_xq_output : forall lines : list str, xq_model lines = xq_spec lines.
Proof. exact xq_output. Qed.

Print Assumptions C17_xe_effect_elements_partial.
Print Assumptions C17_xe_frame.
Print Assumptions C17_xq_output.
