From Coq Require Import List NArith ZArith String Ascii Lia.
Import ListNotations.
Open Scope N_scope.

Definition char := N.
Definition str := list char.

Inductive tree :=
| TStr (s : str) | TList (l : list tree) | TNone | TSome (t : tree) | TMap (lbl : string) (t : tree) | TAlt (i : nat) (t : tree).

Inductive res :=
| Ok (t : tree) (rest : str) | Fail | Oof.

Inductive pexpr :=
| Tag (s : str)
| While0 (cls : nat) | While1 (cls : nat)
| Seq (l : list pexpr) | Alt (l : list pexpr)
| Many0 (p : pexpr) | Opt (p : pexpr)
| Recognize (p : pexpr) | Map (lbl : string) (p : pexpr)
| NT (n : nat).

Section Den.
Variable G : nat -> pexpr.
Variable cls : nat -> char -> bool.

Fixpoint prefix (a s : str) : option str :=
  match a, s with
  | [], _ => Some s
  | x :: a', y :: s' => if N.eqb x y then prefix a' s' else None
  | _, [] => None
  end.

Fixpoint span (f : char -> bool) (s : str) : str * str :=
  match s with
  | c :: s' => if f c then let (a, b) := span f s' in (c :: a, b) else ([], s)
  | [] => ([], [])
  end.

Fixpoint many_loop (fuel : nat) (p : str -> res) (s : str) : res :=
  match fuel with
  | O => Oof
  | S f =>
    match p s with
    | Ok t r => if Nat.eqb (List.length r) (List.length s) then Fail
                else match many_loop f p r with
                     | Ok (TList ts) r' => Ok (TList (t :: ts)) r'
                     | x => x end
    | Fail => Ok (TList []) s
    | Oof => Oof
    end
  end.

Fixpoint denote (fuel : nat) : pexpr -> str -> res :=
  fix go (e : pexpr) (s : str) {struct e} : res :=
  match e with
  | Tag a => match prefix a s with Some r => Ok (TStr a) r | None => Fail end
  | While0 c => let (a, b) := span (cls c) s in Ok (TStr a) b
  | While1 c => let (a, b) := span (cls c) s in match a with [] => Fail | _ => Ok (TStr a) b end
  | Seq l =>
    (fix seq (l : list pexpr) (s : str) : res :=
       match l with
       | [] => Ok (TList []) s
       | p :: l' => match go p s with
                    | Ok t r => match seq l' r with Ok (TList ts) r' => Ok (TList (t :: ts)) r' | x => x end
                    | x => x end
       end) l s
  | Alt l =>
    (fix alt (i : nat) (l : list pexpr) : res :=
       match l with
       | [] => Fail
       | p :: l' => match go p s with
                    | Ok t r => Ok (TAlt i t) r
                    | Fail => alt (S i) l'
                    | Oof => Oof end
       end) O l
  | Many0 p => many_loop (S (List.length s)) (go p) s
  | Opt p => match go p s with Ok t r => Ok (TSome t) r | Fail => Ok TNone s | Oof => Oof end
  | Recognize p => match go p s with
                   | Ok _ r => Ok (TStr (firstn (List.length s - List.length r) s)) r | x => x end
  | Map l p => match go p s with Ok t r => Ok (TMap l t) r | x => x end
  | NT n => match fuel with O => Oof | S f => denote f (G n) s end
  end.
End Den.

(* toy grammar: elem := '<' name '>' many0(elem) '</' name '>' *)
Definition lt := 60. Definition gt := 62. Definition sl := 47.
Definition G (n : nat) : pexpr :=
  match n with
  | O => Seq [Tag [lt]; While1 0; Tag [gt]; Many0 (NT 0); Tag [lt; sl]; While1 0; Tag [gt]]
  | _ => Alt []
  end.
Definition cls (n : nat) (c : char) : bool := (97 <=? c) && (c <=? 122).
Definition run s := denote G cls (S (List.length s)) (NT 0) s.
Eval vm_compute in run [60;97;62;60;98;62;60;47;98;62;60;47;97;62].
Lemma unfold_elem f s : denote G cls (S f) (NT 0) s = denote G cls f (G 0) s.
Proof. reflexivity. Qed.

From Coq Require Import Floats.SpecFloat.
Definition d1 := binary_normalize 53 1024 1 0 false.
Definition d3 := binary_normalize 53 1024 3 0 false.
Eval vm_compute in SFdiv 53 1024 d1 d3.
Eval vm_compute in SFadd 53 1024 d1 (SFdiv 53 1024 d1 d3).

Require Extraction. Require Import ExtrOcamlBasic.
Extraction "peg.ml" run.
