(** * XPath 1.0 evaluation as the recommendation prescribes it (sections 2 - 5).

    The oracle of C05 (and of the failing-input search of C07).  Independent of the evaluator of
    /repo: it reads the same document table as the model (the observation dump of the harness,
    [Model/XDoc.v] -- used here as plain data) but
    - identity and document order come from the POSITION of a node in the tree: a node is a row of
      the table ([Row i]) or the namespace node [NsOf e i] of element [e]; the table is in pre-order,
      namespace nodes of an element come right after it, then its attributes, then its children
      (section 5).  Order keys ([n_key]) and the dom's parent pointers ([n_parent]) are NOT read;
    - the data model is that of section 5: no document-type node; every element has its own
      namespace nodes; attribute and namespace nodes have their element as parent; text nodes are
      the character-data rows (the merged-text view is the one that groups character data as
      section 5.7 requires); the children of an attribute row (value items) are not nodes;
    - expanded names are computed from the namespace nodes (Namespaces in XML): an unprefixed
      element takes the default namespace, an unprefixed attribute none;
    - node-sets are lists in document order without duplicates; a location step orders the
      selected nodes along its axis (reverse axes in reverse document order) to number them for
      the predicates (2.4);
    - core functions and operators on scalars are [Spec/XPathCore.v] (property C09).
    Expressions are read in the layered syntax of the grammar ([OrExpr] ... [Step], transcribed by
    [Model/XPathAst.v]); [None] is a dynamic error (unknown function, wrong arity or argument
    type, undeclared prefix, unbound variable, [id()] which is outside the property). *)
From Coq Require Import List NArith ZArith Bool.
From Coq Require Import Floats.SpecFloat.
From XmlRs Require Import Base.CPred Base.Float64 Spec.XPathCore.
From XmlRs Require Import Model.XPathAst Model.XDoc.
Import ListNotations.
Open Scope N_scope.

(** ** nodes, document order *)
Inductive snode := Row (i : N) | NsOf (e i : N).

Fixpoint index_of (x : N) (l : list N) (k : N) : N :=
  match l with
  | [] => k
  | y :: t => if y =? x then k else index_of x t (k + 1)
  end.

Section Spec.
Variable doc : xdoc.

Definition nss_of (e : N) : list N := match n_nss (getd doc e) with Some l => l | None => [] end.

Definition ord (n : snode) : N * N :=
  match n with
  | Row i => (i, 0)
  | NsOf e i => (e, 1 + index_of i (nss_of e) 0)
  end.

Definition sn_ltb (a b : snode) : bool :=
  let '(a1, a2) := ord a in let '(b1, b2) := ord b in (a1 <? b1) || ((a1 =? b1) && (a2 <? b2)).
Definition sn_eqb (a b : snode) : bool :=
  let '(a1, a2) := ord a in let '(b1, b2) := ord b in (a1 =? b1) && (a2 =? b2).

Fixpoint sn_insert (x : snode) (l : list snode) : list snode :=
  match l with
  | [] => [x]
  | y :: t => if sn_eqb x y then l else if sn_ltb x y then x :: l else y :: sn_insert x t
  end.

(** a node-set: document order, no duplicates *)
Definition nodeset (l : list snode) : list snode := fold_right sn_insert [] l.

Definition sn_mem (x : snode) (l : list snode) : bool := existsb (sn_eqb x) l.

(** ** the tree *)
Definition is_text_kind (k : nkind) : bool :=
  match k with KText | KCData | KExpandedText | KEntityReference => true | _ => false end.

(** the children of a node in the data model: none for attributes and namespace nodes, no
    document-type node *)
Definition xchildren (i : N) : list N :=
  match kind doc i with
  | KDocument | KElement =>
      filter (fun c => negb (nkind_eqb (kind doc c) KDocumentType)) (child_nodes doc i)
  | _ => []
  end.

Definition fuel0 : nat := S (length doc).

Fixpoint desc_fuel (fuel : nat) (i : N) : list N :=
  match fuel with
  | O => []
  | S f => flat_map (fun c => c :: desc_fuel f c) (xchildren i)
  end.
Definition desc (i : N) : list N := desc_fuel fuel0 i.

(** all nodes of the subtree of row [i], in document order *)
Fixpoint walk_fuel (fuel : nat) (i : N) : list snode :=
  match fuel with
  | O => []
  | S f =>
      Row i
      :: (match kind doc i with
          | KElement => map (NsOf i) (nss_of i) ++ map Row (attributes doc i)
          | _ => []
          end)
      ++ flat_map (walk_fuel f) (xchildren i)
  end.
Definition all_nodes : list snode := walk_fuel fuel0 doc_root.

Definition rows_of (l : list snode) : list N :=
  flat_map (fun n => match n with Row i => [i] | NsOf _ _ => [] end) l.

(** parent (5.3 - 5.4: the element is the parent of its attribute and namespace nodes) *)
Definition s_parent (n : snode) : option snode :=
  match n with
  | NsOf e _ => Some (Row e)
  | Row i =>
      match find (fun j => existsb (N.eqb i) (xchildren j) ||
                           (nkind_eqb (kind doc j) KElement && existsb (N.eqb i) (attributes doc j)))
                 (rows_of all_nodes) with
      | Some j => Some (Row j)
      | None => None
      end
  end.

Fixpoint ancestors_fuel (fuel : nat) (n : snode) : list snode :=
  match fuel with
  | O => []
  | S f => match s_parent n with Some p => p :: ancestors_fuel f p | None => [] end
  end.
Definition ancestors (n : snode) : list snode := ancestors_fuel fuel0 n.

Definition is_attr_or_ns (n : snode) : bool :=
  match n with
  | NsOf _ _ => true
  | Row i => nkind_eqb (kind doc i) KAttribute
  end.

Definition s_descendants (n : snode) : list snode :=
  match n with Row i => map Row (desc i) | NsOf _ _ => [] end.

Fixpoint after (x : N) (l : list N) : list N :=
  match l with [] => [] | y :: t => if y =? x then t else after x t end.
Fixpoint before (x : N) (l : list N) : list N :=
  match l with [] => [] | y :: t => if y =? x then [] else y :: before x t end.

(** 2.2 the axes, each in document order *)
Definition s_axis (a : axis_name) (n : snode) : list snode :=
  match a with
  | AxChild => match n with Row i => map Row (xchildren i) | _ => [] end
  | AxDescendant => s_descendants n
  | AxDescendantOrSelf => n :: s_descendants n
  | AxParent => match s_parent n with Some p => [p] | None => [] end
  | AxAncestor => nodeset (ancestors n)
  | AxAncestorOrSelf => nodeset (n :: ancestors n)
  | AxFollowingSibling =>
      if is_attr_or_ns n then [] else
      match n, s_parent n with
      | Row i, Some (Row p) => map Row (after i (xchildren p))
      | _, _ => []
      end
  | AxPrecedingSibling =>
      if is_attr_or_ns n then [] else
      match n, s_parent n with
      | Row i, Some (Row p) => map Row (before i (xchildren p))
      | _, _ => []
      end
  | AxFollowing =>
      filter (fun m => sn_ltb n m && negb (sn_mem m (s_descendants n)) && negb (is_attr_or_ns m)) all_nodes
  | AxPreceding =>
      filter (fun m => sn_ltb m n && negb (sn_mem m (ancestors n)) && negb (is_attr_or_ns m)) all_nodes
  | AxAttribute =>
      match n with
      | Row i => if nkind_eqb (kind doc i) KElement then map Row (attributes doc i) else []
      | _ => []
      end
  | AxNamespace =>
      match n with
      | Row i => if nkind_eqb (kind doc i) KElement then map (NsOf i) (nss_of i) else []
      | _ => []
      end
  | AxCurrent => [n]
  end.

Definition is_reverse (a : axis_name) : bool :=
  match a with AxAncestor | AxAncestorOrSelf | AxPreceding | AxPrecedingSibling => true | _ => false end.

(** the axis of an axis specifier: [@] is attribute, an omitted axis is child *)
Definition axis_of (a : axis_spec) : axis_name :=
  match a with
  | AxisName x => x
  | AxisAbbreviated s => if str_eqb s [64] then AxAttribute else AxChild
  end.

(** ** names (5.2 - 5.4, Namespaces in XML) *)
Definition s_xmlns : str := [120;109;108;110;115].

Definition row_name (i : N) : option (str * option str) :=        (* local part, prefix *)
  match n_name (getd doc i) with
  | XName l p _ => Some (l, match p with Some q => if str_eqb q s_xmlns then None else Some q | None => None end)
  | _ => None
  end.

Definition row_data (i : N) : str := match n_data (getd doc i) with DataStr s => s | _ => [] end.

(** the namespace name bound to [prefix] ([None]: the default namespace) among the namespace nodes
    of element [e] *)
Definition ns_lookup_in (e : N) (prefix : option str) : option str :=
  let key := match prefix with Some p => p | None => s_xmlns end in
  match find (fun r => match n_name (getd doc r) with XName l _ _ => str_eqb l key | _ => false end) (nss_of e) with
  | Some r => Some (row_data r)
  | None => None
  end.

(** expanded name: (local part, prefix as written, namespace URI) *)
Definition s_name (n : snode) : option (str * option str * option str) :=
  match n with
  | NsOf _ i =>
      match row_name i with
      | Some (l, _) => Some ((if str_eqb l s_xmlns then [] else l), None, None)
      | None => None
      end
  | Row i =>
      match kind doc i, row_name i with
      | KElement, Some (l, p) => Some (l, p, ns_lookup_in i p)
      | KAttribute, Some (l, p) =>
          Some (l, p, match p, s_parent n with
                      | Some q, Some (Row e) => ns_lookup_in e (Some q)
                      | _, _ => None
                      end)
      | KPI, Some (l, _) => Some (l, None, None)
      | _, _ => None
      end
  end.

(** 5: string-values *)
Definition s_string_value (n : snode) : str :=
  match n with
  | NsOf _ i => row_data i
  | Row i =>
      match kind doc i with
      | KDocument | KElement =>
          concat (map row_data (filter (fun c => is_text_kind (kind doc c)) (desc i)))
      | _ => row_data i
      end
  end.

(** ** 2.3 node tests *)
Definition principal (a : axis_name) (n : snode) : bool :=
  match a, n with
  | AxAttribute, Row i => nkind_eqb (kind doc i) KAttribute
  | AxAttribute, _ => false
  | AxNamespace, NsOf _ _ => true
  | AxNamespace, _ => false
  | _, Row i => nkind_eqb (kind doc i) KElement
  | _, NsOf _ _ => false
  end.

Definition ostr_eq (a b : option str) : bool :=
  match a, b with
  | None, None => true
  | Some x, Some y => str_eqb x y
  | _, _ => false
  end.

Definition bindings := list (option str * str).

Definition bound (ns : bindings) (p : str) : option str :=
  match find (fun b => ostr_eq (fst b) (Some p)) ns with
  | Some b => Some (snd b)
  | None => None
  end.

Definition s_test (ns : bindings) (a : axis_name) (t : node_test) (n : snode) : option bool :=
  match t with
  | TestName NameAll => Some (principal a n)
  | TestName (NameNamespace p) =>
      match bound ns p with
      | None => None                                    (* undeclared prefix *)
      | Some u => Some (principal a n &&
                        match s_name n with Some (_, _, Some v) => str_eqb u v | _ => false end)
      end
  | TestName (NameQName (QUnprefixed l)) =>
      Some (principal a n && match s_name n with Some (m, _, None) => str_eqb l m | _ => false end)
  | TestName (NameQName (QPrefixed p l)) =>
      match bound ns p with
      | None => None
      | Some u => Some (principal a n &&
                        match s_name n with Some (m, _, Some v) => str_eqb l m && str_eqb u v | _ => false end)
      end
  | TestType NtNode => Some true
  | TestType NtText => Some (match n with Row i => is_text_kind (kind doc i) | _ => false end)
  | TestType NtComment => Some (match n with Row i => nkind_eqb (kind doc i) KComment | _ => false end)
  | TestType NtPI => Some (match n with Row i => nkind_eqb (kind doc i) KPI | _ => false end)
  | TestPI target =>
      Some (match n with
            | Row i => nkind_eqb (kind doc i) KPI &&
                       match row_name i with Some (l, _) => str_eqb l target | None => false end
            | _ => false
            end)
  end.

(** ** values *)
Inductive sval :=
| SBool (b : bool) | SNum (x : f64) | SStr (s : str) | SNodes (l : list snode).

Definition to_core (v : sval) : value :=
  match v with
  | SBool b => VBool b
  | SNum x => VNum x
  | SStr s => VStr s
  | SNodes l => VNodes (map s_string_value l)
  end.

Definition of_core (v : value) : sval :=
  match v with
  | VBool b => SBool b
  | VNum x => SNum x
  | VStr s => SStr s
  | VNodes _ => SNodes []
  end.

Definition s_boolean (v : sval) : bool := xp_boolean (to_core v).
Definition s_number (v : sval) : f64 := xp_number (to_core v).
Definition s_string (v : sval) : str := xp_string (to_core v).

(** 3.4 comparisons *)
Definition cmp_scalar (o : binop) (a b : value) : bool :=
  match spec_op o a b with ROk (VBool r) => r | _ => false end.

Definition is_eq_op (o : binop) : bool := match o with OEq | ONe => true | _ => false end.

Definition s_compare (o : binop) (a b : sval) : bool :=
  match a, b with
  | SNodes la, SNodes lb =>
      existsb (fun x => existsb (fun y =>
        if is_eq_op o then cmp_scalar o (VStr (s_string_value x)) (VStr (s_string_value y))
        else cmp_scalar o (VNum (xp_string_to_number (s_string_value x)))
                          (VNum (xp_string_to_number (s_string_value y)))) lb) la
  | SNodes la, SBool y => cmp_scalar o (VBool (s_boolean a)) (VBool y)
  | SBool x, SNodes lb => cmp_scalar o (VBool x) (VBool (s_boolean b))
  | SNodes la, SNum y => existsb (fun x => cmp_scalar o (VNum (xp_string_to_number (s_string_value x))) (VNum y)) la
  | SNum x, SNodes lb => existsb (fun y => cmp_scalar o (VNum x) (VNum (xp_string_to_number (s_string_value y)))) lb
  | SNodes la, SStr y =>
      existsb (fun x => if is_eq_op o then cmp_scalar o (VStr (s_string_value x)) (VStr y)
                        else cmp_scalar o (VNum (xp_string_to_number (s_string_value x))) (VStr y)) la
  | SStr x, SNodes lb =>
      existsb (fun y => if is_eq_op o then cmp_scalar o (VStr x) (VStr (s_string_value y))
                        else cmp_scalar o (VStr x) (VNum (xp_string_to_number (s_string_value y)))) lb
  | _, _ => cmp_scalar o (to_core a) (to_core b)
  end.

Definition s_arith (o : binop) (a b : sval) : option sval :=
  match spec_op o (VNum (s_number a)) (VNum (s_number b)) with
  | ROk v => Some (of_core v)
  | _ => None
  end.

(** ** 4 the functions that look at the document or at the context *)
Definition s_fn_last : str := [108;97;115;116].
Definition s_fn_position : str := [112;111;115;105;116;105;111;110].
Definition s_fn_count : str := [99;111;117;110;116].
Definition s_fn_id : str := [105;100].
Definition s_fn_local_name : str := [108;111;99;97;108;45;110;97;109;101].
Definition s_fn_namespace_uri : str := [110;97;109;101;115;112;97;99;101;45;117;114;105].
Definition s_fn_name : str := [110;97;109;101].
Definition s_fn_lang : str := [108;97;110;103].
Definition s_fn_sum : str := [115;117;109].
Definition s_lang : str := [108;97;110;103].
Definition s_xml : str := [120;109;108].

Definition lower (c : char) : char := if (65 <=? c) && (c <=? 90) then c + 32 else c.

(** 4.3 lang: the xml:lang of the nearest ancestor-or-self that has one equals the argument
    ignoring case, or begins with it followed by '-' *)
Definition lang_matches (attr arg : str) : bool :=
  let a := map lower attr in
  let b := map lower arg in
  str_eqb a b || prefixb (b ++ [45]) a.

Definition xml_lang_of (n : snode) : option str :=
  match n with
  | Row i =>
      if nkind_eqb (kind doc i) KElement then
        match find (fun a => match row_name a with
                             | Some (l, Some p) => str_eqb l s_lang && str_eqb p s_xml
                             | _ => false end) (attributes doc i) with
        | Some a => Some (row_data a)
        | None => None
        end
      else None
  | _ => None
  end.

Definition s_lang_fn (n : snode) (arg : str) : bool :=
  match flat_map (fun m => match xml_lang_of m with Some v => [v] | None => [] end) (n :: ancestors n) with
  | v :: _ => lang_matches v arg
  | [] => false
  end.

Definition first_node_or (args : list sval) (n : snode) : option (list snode) :=
  match args with
  | [] => Some [n]
  | [SNodes l] => Some l
  | _ => None
  end.

Definition s_call (name : str) (args : list sval) (n : snode) (pos size : N) : option sval :=
  if str_eqb name s_fn_last then match args with [] => Some (SNum (f64_of_N size)) | _ => None end
  else if str_eqb name s_fn_position then match args with [] => Some (SNum (f64_of_N pos)) | _ => None end
  else if str_eqb name s_fn_count then
    match args with [SNodes l] => Some (SNum (f64_of_N (N.of_nat (length l)))) | _ => None end
  else if str_eqb name s_fn_sum then
    match args with
    | [SNodes l] => Some (SNum (fold_left (fun s x => f64_add s (xp_string_to_number (s_string_value x))) l f64_zero))
    | _ => None end
  else if str_eqb name s_fn_id then None
  else if str_eqb name s_fn_local_name then
    match first_node_or args n with
    | Some (x :: _) => Some (SStr (match s_name x with Some (l, _, _) => l | None => [] end))
    | Some [] => Some (SStr [])
    | None => None end
  else if str_eqb name s_fn_namespace_uri then
    match first_node_or args n with
    | Some (x :: _) => Some (SStr (match s_name x with Some (_, _, Some u) => u | _ => [] end))
    | Some [] => Some (SStr [])
    | None => None end
  else if str_eqb name s_fn_name then
    match first_node_or args n with
    | Some (x :: _) => Some (SStr (match s_name x with
                                   | Some (l, Some p, _) => p ++ 58 :: l
                                   | Some (l, None, _) => l
                                   | None => [] end))
    | Some [] => Some (SStr [])
    | None => None end
  else if str_eqb name s_fn_lang then
    match args with [a] => Some (SBool (s_lang_fn n (s_string a))) | _ => None end
  else
    match spec_fn (s_string_value n) name (map to_core args) with
    | ROk v => Some (of_core v)
    | _ => None
    end.

(** ** evaluation *)

(** predicates number the candidate list in the order given (2.4) *)
Fixpoint pred_filter (f : snode -> N -> N -> option bool) (l : list snode) (pos size : N) : option (list snode) :=
  match l with
  | [] => Some []
  | x :: t =>
      match f x pos size, pred_filter f t (pos + 1) size with
      | Some b, Some r => Some (if b then x :: r else r)
      | _, _ => None
      end
  end.

Definition pred_truth (v : sval) (pos : N) : bool :=
  match v with
  | SNum x => f64_eqb x (f64_of_N pos)
  | _ => s_boolean v
  end.

Fixpoint opt_flat_map {A} (f : A -> option (list snode)) (l : list A) : option (list snode) :=
  match l with
  | [] => Some []
  | x :: t => match f x, opt_flat_map f t with
              | Some a, Some b => Some (a ++ b)
              | _, _ => None
              end
  end.

Fixpoint opt_filter (f : snode -> option bool) (l : list snode) : option (list snode) :=
  match l with
  | [] => Some []
  | x :: t => match f x, opt_filter f t with
              | Some b, Some r => Some (if b then x :: r else r)
              | _, _ => None
              end
  end.

Variable ns : bindings.

Fixpoint s_or (e : or_expr) (n : snode) (pos size : N) {struct e} : option sval :=
  match e with
  | EOr first rest =>
      match s_and first n pos size with
      | Some v => s_or_rest rest v n pos size
      | None => None
      end
  end
with s_or_rest (l : and_list) (acc : sval) (n : snode) (pos size : N) {struct l} : option sval :=
  match l with
  | AndNil => Some acc
  | AndCons a t =>
      if s_boolean acc then Some (SBool true)
      else match s_and a n pos size with
           | Some v => s_or_rest t (SBool (s_boolean v)) n pos size
           | None => None
           end
  end
with s_and (e : and_expr) (n : snode) (pos size : N) {struct e} : option sval :=
  match e with
  | EAnd first rest =>
      match s_eq first n pos size with
      | Some v => s_and_rest rest v n pos size
      | None => None
      end
  end
with s_and_rest (l : eq_list) (acc : sval) (n : snode) (pos size : N) {struct l} : option sval :=
  match l with
  | EqNil => Some acc
  | EqCons a t =>
      if negb (s_boolean acc) then Some (SBool false)
      else match s_eq a n pos size with
           | Some v => s_and_rest t (SBool (s_boolean v)) n pos size
           | None => None
           end
  end
with s_eq (e : eq_expr) (n : snode) (pos size : N) {struct e} : option sval :=
  match e with
  | EEq o ops => match s_rel o n pos size with Some v => s_eq_ops ops v n pos size | None => None end
  end
with s_eq_ops (l : eqop_list) (acc : sval) (n : snode) (pos size : N) {struct l} : option sval :=
  match l with
  | EqopNil => Some acc
  | EqopCons op e t =>
      match s_rel e n pos size with
      | Some v => s_eq_ops t (SBool (s_compare (match op with OpEqual => OEq | OpNotEqual => ONe end) acc v)) n pos size
      | None => None
      end
  end
with s_rel (e : rel_expr) (n : snode) (pos size : N) {struct e} : option sval :=
  match e with
  | ERel o ops => match s_add o n pos size with Some v => s_rel_ops ops v n pos size | None => None end
  end
with s_rel_ops (l : relop_list) (acc : sval) (n : snode) (pos size : N) {struct l} : option sval :=
  match l with
  | RelopNil => Some acc
  | RelopCons op e t =>
      match s_add e n pos size with
      | Some v =>
          s_rel_ops t (SBool (s_compare (match op with
                                         | OpLessThan => OLt | OpGreaterThan => OGt
                                         | OpLessEqual => OLe | OpGreaterEqual => OGe end) acc v)) n pos size
      | None => None
      end
  end
with s_add (e : add_expr) (n : snode) (pos size : N) {struct e} : option sval :=
  match e with
  | EAdd o ops => match s_mul o n pos size with Some v => s_add_ops ops v n pos size | None => None end
  end
with s_add_ops (l : addop_list) (acc : sval) (n : snode) (pos size : N) {struct l} : option sval :=
  match l with
  | AddopNil => Some acc
  | AddopCons op e t =>
      match s_mul e n pos size with
      | Some v => match s_arith (match op with OpAdd => OAdd | OpSub => OSub end) acc v with
                  | Some r => s_add_ops t r n pos size
                  | None => None
                  end
      | None => None
      end
  end
with s_mul (e : mul_expr) (n : snode) (pos size : N) {struct e} : option sval :=
  match e with
  | EMul o ops => match s_unary o n pos size with Some v => s_mul_ops ops v n pos size | None => None end
  end
with s_mul_ops (l : mulop_list) (acc : sval) (n : snode) (pos size : N) {struct l} : option sval :=
  match l with
  | MulopNil => Some acc
  | MulopCons op e t =>
      match s_unary e n pos size with
      | Some v => match s_arith (match op with OpMul => OMul | OpDiv => ODiv | OpMod => OMod end) acc v with
                  | Some r => s_mul_ops t r n pos size
                  | None => None
                  end
      | None => None
      end
  end
with s_unary (e : unary_expr) (n : snode) (pos size : N) {struct e} : option sval :=
  match e with
  | EUnary inv u =>
      match s_union u n pos size with
      | Some v => Some (N.iter inv (fun w => SNum (f64_neg (s_number w))) v)
      | None => None
      end
  end
with s_union (e : union_expr) (n : snode) (pos size : N) {struct e} : option sval :=
  match e with
  | EUnion PathNil => Some (SNodes [])
  | EUnion (PathCons first PathNil) => s_path first n pos size
  | EUnion (PathCons first rest) =>
      match s_path first n pos size with
      | Some (SNodes l) => s_union_rest rest l n pos size
      | _ => None
      end
  end
with s_union_rest (l : path_list) (acc : list snode) (n : snode) (pos size : N) {struct l} : option sval :=
  match l with
  | PathNil => Some (SNodes (nodeset acc))
  | PathCons p t =>
      match s_path p n pos size with
      | Some (SNodes l') => s_union_rest t (acc ++ l') n pos size
      | _ => None
      end
  end
with s_path (e : path_expr) (n : snode) (pos size : N) {struct e} : option sval :=
  match e with
  | PRoot => Some (SNodes [Row doc_root])
  | PFilter f => s_filter f n pos size
  | PRel l =>
      match s_rel_path l [n] with Some r => Some (SNodes r) | None => None end
  | PAbs op l =>
      let start := match op with
                   | LpCurrent => [Row doc_root]
                   | LpDescendantOrSelfNode => Row doc_root :: s_descendants (Row doc_root)
                   end in
      match s_rel_path l start with Some r => Some (SNodes r) | None => None end
  | PFilterPath f op l =>
      match s_filter f n pos size with
      | Some (SNodes fl) =>
          let start := match op with
                       | LpCurrent => fl
                       | LpDescendantOrSelfNode => nodeset (flat_map (fun x => x :: s_descendants x) fl)
                       end in
          match s_rel_path l start with Some r => Some (SNodes r) | None => None end
      | _ => None
      end
  end
with s_filter (e : filter_expr) (n : snode) (pos size : N) {struct e} : option sval :=
  match e with
  | EFilter p ExprNil => s_primary p n pos size
  | EFilter p preds =>
      match s_primary p n pos size with
      | Some (SNodes l) => match s_preds preds l with Some r => Some (SNodes r) | None => None end
      | _ => None
      end
  end
with s_primary (e : primary_expr) (n : snode) (pos size : N) {struct e} : option sval :=
  match e with
  | PrimVariable _ => None
  | PrimExpr x => s_or x n pos size
  | PrimLiteral s => Some (SStr s)
  | PrimNumber s => match spec_literal s with ROk v => Some (of_core v) | _ => None end
  | PrimFunction (QPrefixed _ _) _ => None
  | PrimFunction (QUnprefixed name) args =>
      match s_args args n pos size with
      | Some vs => s_call name vs n pos size
      | None => None
      end
  end
with s_args (l : expr_list) (n : snode) (pos size : N) {struct l} : option (list sval) :=
  match l with
  | ExprNil => Some []
  | ExprCons e t =>
      match s_or e n pos size, s_args t n pos size with
      | Some v, Some vs => Some (v :: vs)
      | _, _ => None
      end
  end
(** the predicates of a filter expression or of a step, applied in turn to the candidate list *)
with s_preds (l : expr_list) (cands : list snode) {struct l} : option (list snode) :=
  match l with
  | ExprNil => Some cands
  | ExprCons p t =>
      match pred_filter (fun x ps sz => match s_or p x ps sz with
                                        | Some v => Some (pred_truth v ps)
                                        | None => None end)
                        cands 1 (N.of_nat (length cands)) with
      | Some r => s_preds t r
      | None => None
      end
  end
with s_rel_path (e : rel_path) (start : list snode) {struct e} : option (list snode) :=
  match e with
  | ERelPath s ops =>
      match opt_flat_map (s_step s) start with
      | Some r => s_stepops ops (nodeset r)
      | None => None
      end
  end
with s_stepops (l : stepop_list) (cur : list snode) {struct l} : option (list snode) :=
  match l with
  | StepopNil => Some cur
  | StepopCons op s t =>
      let from := match op with
                  | LpCurrent => cur
                  | LpDescendantOrSelfNode => nodeset (flat_map (fun x => x :: s_descendants x) cur)
                  end in
      match opt_flat_map (s_step s) from with
      | Some r => s_stepops t (nodeset r)
      | None => None
      end
  end
with s_step (s : step) (n : snode) {struct s} : option (list snode) :=
  match s with
  | StepCurrent => Some [n]
  | StepParent => Some (match s_parent n with Some p => [p] | None => [] end)
  | StepTest a t preds =>
      let ax := axis_of a in
      match opt_filter (s_test ns ax t) (s_axis ax n) with
      | Some cands =>
          let ordered := if is_reverse ax then rev cands else cands in
          s_preds preds ordered
      | None => None
      end
  end.

End Spec.

(** the value of an expression for a document: the context node is the root; the context position
    and size are the host's to supply (1 - the API [xml_xpath::query] supplies none and
    [position()] / [last()] outside any predicate answer 0 there: the driver passes 0 0) *)
Definition spec_query (doc : xdoc) (ns : bindings) (pos size : N) (e : expr) : option sval :=
  match s_or doc ns e (Row doc_root) pos size with
  | Some (SNodes l) => Some (SNodes (nodeset doc l))
  | other => other
  end.
