(** Observation of the character predicates for the correspondence check: the value of each
    predicate (restricted to scalar values) at each of its thresholds.  By
    [CPred.eval_same] these finitely many values determine the predicate on every code
    point, so comparing them with the exhaustive sweep of the Rust functions (run-length
    encoded) is an exact comparison of the two functions. *)
From Coq Require Import List NArith Bool.
From XmlRs Require Import Base.CPred Spec.XmlChars Spec.CharsSpecObs Gen.XmlcharGen.
Import ListNotations.
Open Scope N_scope.

Definition scalarP := CharsSpecObs.scalarP.
Definition obs := CharsSpecObs.obs.

Definition chars_obs : list (list N * list (N * bool)) :=
  map (fun np => (fst np, obs (snd np))) xmlchar_predicates.
