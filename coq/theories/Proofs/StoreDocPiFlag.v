(** * C15 / C14: a processing instruction without content holds no data -- an invariant of every history

    [PiFlagOk s]: an item of kind PI whose flag says 'no content' (it prints as <?t?>) has empty data.
    The printer and the infoset document do not see the data of such an item, the evaluator's table
    does ([xdata_of]); the invariant is what makes [doc_of_store] determine the table
    (Proofs/StoreIsoDoc.v).  It needs no hypothesis on the facts of a call: [pi_set] stores the
    content with the flag set, or the empty string with the flag cleared; the factories likewise. *)
From Coq Require Import List NArith Bool Lia.
From XmlRs Require Import Base.CPred Model.Store Model.StoreCheck Model.DomOps.
From XmlRs Require Import Proofs.DomBase Proofs.DomOpsInv Proofs.DomCheck.
Import ListNotations.
Open Scope N_scope.

Definition pf_item (it : item) : Prop := ikind it = KPi -> iflag it = false -> idata it = [].
Definition PiFlagOk (s : store) : Prop := forall i it, get s i = Some it -> pf_item it.
Definition WPiFlag (w : world) : Prop := WP PiFlagOk w.

Definition pi_flag_b (l : list (id * item)) : bool :=
  forallb (fun b => match ikind (snd b) with
                    | KPi => iflag (snd b) || match idata (snd b) with [] => true | _ => false end
                    | _ => true
                    end) l.

(** ** frames: kind, data and flag of every item are kept *)
Definition feq (a b : item) : Prop := ikind a = ikind b /\ idata a = idata b /\ iflag a = iflag b.
Definition fframe (s s' : store) : Prop := forall i it', get s' i = Some it' -> exists it, get s i = Some it /\ feq it' it.

Lemma pf_feq a b : feq a b -> pf_item b -> pf_item a.
Proof. intros [H1 [H2 H3]] P. unfold pf_item. rewrite H1, H2, H3. exact P. Qed.

Lemma fframe_ok s s' : fframe s s' -> PiFlagOk s -> PiFlagOk s'.
Proof. intros F P i it' H. destruct (F i it' H) as [it [Hg E]]. eapply pf_feq; [exact E | exact (P i it Hg)]. Qed.

Lemma fframe_refl s : fframe s s.
Proof. intros i it H. exists it. split; [exact H | repeat split]. Qed.

Lemma fframe_trans a b c : fframe a b -> fframe b c -> fframe a c.
Proof.
  intros F G i it H. destruct (G i it H) as [it1 [H1 E1]]. destruct (F i it1 H1) as [it0 [H0 E0]].
  exists it0. split; [exact H0|]. destruct E1 as [? [? ?]], E0 as [? [? ?]]. repeat split; congruence.
Qed.

Lemma fframe_upd s i f : (forall it, feq (f it) it) -> fframe s (upd s i f).
Proof.
  intros Hf j it' H. rewrite get_upd in H. destruct (N.eqb_spec j i) as [->|].
  - destruct (get s i) as [it|]; [|discriminate]. cbn in H. inversion H; subst. exists it. split; [reflexivity | apply Hf].
  - exists it'. split; [exact H | repeat split].
Qed.

Lemma fframe_invalidate s : fframe s (invalidate s).
Proof. intros i it H. exists it. split; [exact H | repeat split]. Qed.

Lemma f_with_parent p it : feq (with_parent p it) it. Proof. repeat split. Qed.
Lemma f_with_children l it : feq (with_children l it) it. Proof. repeat split. Qed.
Lemma f_with_attrs l it : feq (with_attrs l it) it. Proof. repeat split. Qed.

Lemma fframe_delete_by_id s p x : fframe s (delete_by_id s p x).
Proof.
  unfold delete_by_id. destruct (mem x (children_of s p)); [|apply fframe_refl].
  eapply fframe_trans; apply fframe_upd; intros it; [apply f_with_children | apply f_with_parent].
Qed.

Lemma fframe_unlink s x : fframe s (unlink s x).
Proof.
  unfold unlink. destruct (parent_of s x); [|apply fframe_refl]. destruct (get s i); [|apply fframe_refl].
  destruct (container (ikind i0)); [apply fframe_delete_by_id | apply fframe_refl].
Qed.

Lemma fframe_link s r x ref : fframe s (link s r x ref).
Proof.
  unfold link. eapply fframe_trans; [apply fframe_unlink|].
  eapply fframe_trans; apply fframe_upd; intros it; [apply f_with_parent | apply f_with_children].
Qed.

Lemma fframe_info_append s r x : fframe s (fst (info_append s r x)).
Proof.
  unfold info_append. destruct (check_insert s r x); cbn [fst]; [apply fframe_refl|].
  eapply fframe_trans; [apply fframe_link | apply fframe_invalidate].
Qed.

Lemma fframe_info_insert_before s r x f : fframe s (fst (info_insert_before s r x f)).
Proof.
  unfold info_insert_before. destruct (mem f (children_of s r)); [|apply fframe_refl].
  destruct (check_insert s r x); cbn [fst]; [apply fframe_refl|].
  destruct (x =? f); cbn [fst]; [apply fframe_refl|].
  eapply fframe_trans; [apply fframe_link | apply fframe_invalidate].
Qed.

Lemma fframe_info_insert_after s r x f : fframe s (fst (info_insert_after s r x f)).
Proof.
  unfold info_insert_after. destruct (index_of f (children_of s r)); [|apply fframe_refl].
  destruct (nth_error (children_of s r) (S n)); [apply fframe_info_insert_before | apply fframe_info_append].
Qed.

Lemma fframe_info_delete s r x : fframe s (fst (info_delete s r x)).
Proof.
  unfold info_delete. destruct (mem x (children_of s r)); cbn [fst]; [|apply fframe_refl].
  eapply fframe_trans; [apply fframe_delete_by_id | apply fframe_invalidate].
Qed.

Lemma fframe_fold_unparent l : forall s, fframe s (fold_left (fun acc a => upd acc a (with_parent None)) l s).
Proof.
  induction l as [|a t IH]; intros s; cbn [fold_left]; [apply fframe_refl|].
  eapply fframe_trans; [|apply IH]. apply fframe_upd. intros it. apply f_with_parent.
Qed.

Lemma fframe_remove_attrs s e sel : fframe s (fst (remove_attrs s e sel)).
Proof.
  unfold remove_attrs. cbn [fst]. eapply fframe_trans; [|apply fframe_invalidate].
  eapply fframe_trans; [|apply fframe_fold_unparent]. apply fframe_upd. intros it. apply f_with_attrs.
Qed.

Lemma fframe_append_attribute s e a : fframe s (append_attribute s e a).
Proof.
  unfold append_attribute. eapply fframe_trans; [|apply fframe_invalidate].
  eapply fframe_trans; apply fframe_upd; intros it; [apply f_with_parent | apply f_with_attrs].
Qed.

Lemma fframe_dom_set_attribute_node w k s e a : fframe s (fst (dom_set_attribute_node w k s e a)).
Proof.
  unfold dom_set_attribute_node. destruct (negb (fst a =? k)); [apply fframe_refl|].
  destruct (parent_of s (snd a)); [apply fframe_refl|].
  destruct (get s (snd a)) as [ait|]; [|apply fframe_refl].
  destruct (kind_eqb (ikind ait) KAt && has_kind s KEl e); [|apply fframe_refl].
  pose proof (fframe_remove_attrs s e (qname_is s (iprefix ait) (ilocal ait))) as F.
  fold (remove_attribute_q s e (iprefix ait) (ilocal ait)) in F.
  destruct (remove_attribute_q s e (iprefix ait) (ilocal ait)) as [s1 old]. cbn [fst] in *.
  eapply fframe_trans; [exact F | apply fframe_append_attribute].
Qed.

Lemma fframe_detach_values s a : fframe s (detach_values s a).
Proof.
  unfold detach_values. eapply fframe_trans; [|apply fframe_fold_unparent].
  apply fframe_upd. intros it. apply f_with_children.
Qed.

(** ** creation and data *)
Lemma pf_create s it : PiFlagOk s -> pf_item it -> PiFlagOk (snd (create s it)).
Proof.
  intros P Hit i x H. unfold create, alloc in H. cbn in H. unfold get in H. cbn in H.
  destruct (N.eqb_spec i (next s)); [inversion H; subst; exact Hit | exact (P i x H)].
Qed.

Lemma pf_create_link s a it ref : PiFlagOk s -> pf_item it -> PiFlagOk (link (snd (create s it)) a (fst (create s it)) ref).
Proof. intros P Hit. eapply fframe_ok; [apply fframe_link | apply pf_create; assumption]. Qed.

Lemma pf_not_pi it : ikind it <> KPi -> pf_item it.
Proof. intros H K. contradiction. Qed.

Lemma pf_add_values l : forall s a s', PiFlagOk s -> add_values s a l = Some s' -> PiFlagOk s'.
Proof.
  induction l as [|v t IH]; intros s a s' P H; cbn [add_values] in H.
  - inversion H; subst. exact P.
  - destruct v as [tx|name ch|name].
    + destruct tx as [|c tx]; [eapply IH; eassumption|].
      pose proof (pf_create_link s a (new_item KTx None [] (c :: tx) false None) None P ltac:(intros K; discriminate K)) as P1.
      destruct (create s (new_item KTx None [] (c :: tx) false None)) as [i s1]. eapply IH; eassumption.
    + destruct ch as [ch|]; [|discriminate].
      pose proof (pf_create_link s a (new_item KCr None name ch false None) None P ltac:(intros K; discriminate K)) as P1.
      destruct (create s (new_item KCr None name ch false None)) as [i s1]. eapply IH; eassumption.
    + destruct (entity_known s name); [|discriminate].
      pose proof (pf_create_link s a (new_item KEr None name [] false None) None P ltac:(intros K; discriminate K)) as P1.
      destruct (create s (new_item KEr None name [] false None)) as [i s1]. eapply IH; eassumption.
Qed.

Lemma pf_set_values s a d : PiFlagOk s -> PiFlagOk (fst (set_values s a d)).
Proof.
  intros P. unfold set_values. destruct (d_attr d) as [l|] eqn:E; [|exact P].
  destruct (add_values (detach_values s a) a l) as [s1|] eqn:A; cbn [fst]; [|exact P].
  eapply fframe_ok; [apply fframe_invalidate|]. eapply pf_add_values; [|exact A].
  eapply fframe_ok; [apply fframe_detach_values | exact P].
Qed.

Lemma pf_upd_item s n f : PiFlagOk s -> (forall it, get s n = Some it -> pf_item (f it)) -> PiFlagOk (upd s n f).
Proof.
  intros P Hf i x H. rewrite get_upd in H. destruct (N.eqb_spec i n) as [->|]; [|exact (P i x H)].
  destruct (get s n) as [it|] eqn:E; [|discriminate]. cbn in H. inversion H; subst. apply Hf. reflexivity.
Qed.

Lemma pf_edit_data s n k off cnt x : PiFlagOk s -> kind_of s n = Some k -> chardata k = true -> PiFlagOk (fst (edit_data s n k off cnt x)).
Proof.
  intros P K C. unfold edit_data. destruct (len (data_of s n) <? off); [exact P|].
  destruct (valid_str k _) eqn:V; cbn [fst]; [|exact P].
  unfold set_str. apply pf_upd_item; [exact P|]. intros it Hit.
  unfold kind_of in K. rewrite Hit in K. cbn in K. inversion K as [Hk].
  apply pf_not_pi. cbn [ikind with_data]. rewrite Hk. destruct k; try discriminate C; discriminate.
Qed.

Lemma pf_delete_data s n off cnt : PiFlagOk s -> (forall k, kind_of s n = Some k -> chardata k = true) -> PiFlagOk (fst (delete_data s n off cnt)).
Proof.
  intros P C. unfold delete_data. destruct (kind_of s n) as [k|] eqn:K; [|exact P].
  apply pf_edit_data; [exact P | exact K | apply C; reflexivity].
Qed.

Lemma pf_pi_set s n d : PiFlagOk s -> PiFlagOk (fst (pi_set s n d)).
Proof.
  intros P. unfold pi_set. destruct (d_pi d) as [[c|]|]; cbn [fst]; try exact P.
  - apply pf_upd_item; [exact P|]. intros it _ _ Hf. cbn in Hf. discriminate.
  - apply pf_upd_item; [exact P|]. intros it _ _ _. reflexivity.
Qed.

Lemma pf_split_text k s n kd off : PiFlagOk s -> kind_of s n = Some kd -> PiFlagOk (fst (split_text k s n kd off)).
Proof.
  intros P K. unfold split_text. destruct (len (data_of s n) <? off); [exact P|].
  destruct (parent_of s n) as [p|]; [|exact P].
  destruct (kind_of s p) as [kp|]; [|exact P].
  match goal with |- PiFlagOk (fst (if ?c then _ else _)) => destruct c eqn:Hok end; [|exact P].
  assert (Hkd : kd = KTx \/ kd = KCd) by (destruct kd; try discriminate; tauto).
  set (m := N.to_nat (N.min off (len (data_of s n)))).
  assert (P1 : PiFlagOk (set_str s n (firstn m (data_of s n)))).
  { unfold set_str. apply pf_upd_item; [exact P|]. intros it Hit.
    unfold kind_of in K. rewrite Hit in K. cbn in K. inversion K as [Hk].
    apply pf_not_pi. cbn [ikind with_data]. rewrite Hk. destruct Hkd as [-> | ->]; discriminate. }
  assert (O2 : pf_item (new_item kd None [] (skipn m (data_of s n)) false None)).
  { apply pf_not_pi. cbn [ikind new_item]. destruct Hkd as [-> | ->]; discriminate. }
  pose proof (pf_create _ _ P1 O2) as P2.
  destruct (create (set_str s n (firstn m (data_of s n))) (new_item kd None [] (skipn m (data_of s n)) false None)) as [i s2].
  cbn [snd] in P2.
  pose proof (fframe_ok _ _ (fframe_info_insert_after s2 p i n) P2) as P3.
  destruct (info_insert_after s2 p i n) as [s3 [e|]]; cbn [fst] in P3.
  - destruct e; cbn [fst]; try exact P3.
    pose proof (fframe_ok _ _ (fframe_info_append s3 p i) P3) as P4.
    destruct (info_append s3 p i) as [s4 [e4|]]; exact P4.
  - exact P3.
Qed.

Lemma pf_factory k s it : PiFlagOk s -> pf_item it -> PiFlagOk (fst (factory k s it)).
Proof. intros P H. unfold factory. pose proof (pf_create s it P H) as P1. destruct (create s it). exact P1. Qed.

Theorem step_piflag w o : WPiFlag w -> WPiFlag (fst (step w o)).
Proof.
  intros Hw.
  assert (IB : forall s r x f, PiFlagOk s -> PiFlagOk (fst (info_insert_before s r x f)))
    by (intros; eapply fframe_ok; [apply fframe_info_insert_before | assumption]).
  assert (AP : forall s r x, PiFlagOk s -> PiFlagOk (fst (info_append s r x)))
    by (intros; eapply fframe_ok; [apply fframe_info_append | assumption]).
  assert (DL : forall s r x, PiFlagOk s -> PiFlagOk (fst (info_delete s r x)))
    by (intros; eapply fframe_ok; [apply fframe_info_delete | assumption]).
  assert (SAN : forall w k s e a, PiFlagOk s -> PiFlagOk (fst (dom_set_attribute_node w k s e a)))
    by (intros; eapply fframe_ok; [apply fframe_dom_set_attribute_node | assumption]).
  assert (RA : forall s e sel, PiFlagOk s -> PiFlagOk (fst (remove_attrs s e sel)))
    by (intros; eapply fframe_ok; [apply fframe_remove_attrs | assumption]).
  destruct o; cbn [step].
  - destruct (kind_in w r) as [k|]; [|exact Hw]. destruct (node_mut k); [|exact Hw].
    destruct (exists_in w n); [apply dom_insert_before_P; assumption | exact Hw].
  - destruct (kind_in w r) as [k|]; [|exact Hw]. destruct (node_mut k); [|exact Hw].
    destruct (exists_in w n && exists_in w f); [apply dom_insert_before_P; assumption | exact Hw].
  - destruct (kind_in w r) as [k|]; [|exact Hw]. destruct (node_mut k); [|exact Hw].
    destruct (exists_in w n && exists_in w o); [|exact Hw].
    pose proof (dom_insert_before_P PiFlagOk IB AP w r n (Some o) Hw) as H1.
    destruct (dom_insert_before w r n (Some o)) as [w1 oc]. cbn [fst] in H1.
    destruct oc; try exact H1. apply dom_remove_child_P; assumption.
  - destruct (kind_in w r) as [k|]; [|exact Hw]. destruct (node_mut k); [|exact Hw].
    destruct (exists_in w o); [apply dom_remove_child_P; assumption | exact Hw].
  - (* SetAttribute *)
    apply on_element_P; [exact Hw|]. intros s T _.
    destruct (n_attr name) as [[p l]|] eqn:En; [|exact T].
    pose proof (pf_create s (new_item KAt p l [] false None) T ltac:(intros K; discriminate K)) as T1.
    destruct (create s (new_item KAt p l [] false None)) as [a s1]. cbn [snd] in T1.
    destruct (attribute_q s1 (snd r) p l) as [present|].
    + pose proof (pf_set_values s1 present value T1) as T2.
      destruct (set_values s1 present value) as [s2 [|]]; exact T2.
    + pose proof (pf_set_values s1 a value T1) as T2.
      destruct (set_values s1 a value) as [s2 [|]]; cbn [fst] in *; [|exact T2].
      pose proof (SAN w (fst r) s2 (snd r) (fst r, a) T2) as T3.
      destruct (dom_set_attribute_node w (fst r) s2 (snd r) (fst r, a)) as [s3 oc]. cbn [fst] in T3.
      destruct oc; exact T3.
  - destruct (attr_local w a) as [nm|]; [|exact Hw]. apply on_element_P; [exact Hw|]. intros s T _. apply SAN. exact T.
  - apply on_element_P; [exact Hw|]. intros s T _. cbn [fst]. apply RA. exact T.
  - destruct (attr_q w a) as [[p l]|]; [|exact Hw]. apply on_element_P; [exact Hw|]. intros s T _.
    destruct (attribute_q s (snd r) p l) as [f|]; [|exact T].
    destruct ((f =? snd a) && (fst a =? fst r)); cbn [fst]; [apply RA; exact T | exact T].
  - destruct (attr_local w a) as [nm|]; [|exact Hw]. apply on_element_P; [exact Hw|]. intros s T _. apply SAN. exact T.
  - apply on_element_P; [exact Hw|]. intros s T _.
    destruct (get_attribute_node s (snd r) name); cbn [fst]; [apply RA; exact T | exact T].
  - (* CreateElement *)
    apply on_document_P; [exact Hw|]. intros s T.
    destruct (n_elem name) as [[p l]|] eqn:E; [|exact T]. apply pf_factory; [exact T | apply pf_not_pi; discriminate].
  - apply on_document_P; [exact Hw|]. intros s T.
    destruct (n_attr name) as [[p l]|] eqn:E; [|exact T]. apply pf_factory; [exact T | apply pf_not_pi; discriminate].
  - apply on_document_P; [exact Hw|]. intros s T. destruct (valid_str KTx (d_str data)) eqn:V; [|exact T].
    apply pf_factory; [exact T | apply pf_not_pi; discriminate].
  - apply on_document_P; [exact Hw|]. intros s T. destruct (valid_str KCm (d_str data)) eqn:V; [|exact T].
    apply pf_factory; [exact T | apply pf_not_pi; discriminate].
  - apply on_document_P; [exact Hw|]. intros s T. destruct (valid_str KCd (d_str data)) eqn:V; [|exact T].
    apply pf_factory; [exact T | apply pf_not_pi; discriminate].
  - (* CreateProcessingInstruction *)
    apply on_document_P; [exact Hw|]. intros s T.
    destruct (n_pi target) as [t|] eqn:Et; [|exact T]. destruct (d_pi data) as [[c|]|] eqn:Ed; try exact T.
    + apply pf_factory; [exact T|]. intros _ Hf. cbn in Hf. discriminate.
    + apply pf_factory; [exact T|]. intros _ _. reflexivity.
  - apply on_document_P; [exact Hw|]. intros s T.
    destruct (n_ref name) eqn:Er; [|exact T]. destruct (entity_declared s (n_str name)); [|exact T].
    apply pf_factory; [exact T | apply pf_not_pi; discriminate].
  - apply on_document_P; [exact Hw|]. intros s T. apply pf_factory; [exact T | apply pf_not_pi; discriminate].
  - (* SetNodeValue *)
    apply on_node_P; [exact Hw|]. intros s k T K. destruct k; try exact T.
    + pose proof (pf_set_values s (snd r) v T) as H. destruct (set_values s (snd r) v) as [s1 [|]]; exact H.
    + apply pf_edit_data; [assumption | assumption | reflexivity].
    + apply pf_edit_data; [assumption | assumption | reflexivity].
    + apply pf_pi_set; assumption.
    + apply pf_edit_data; [assumption | assumption | reflexivity].
  - apply on_node_P; [exact Hw|]. intros s k T K. destruct (chardata k) eqn:C; [apply pf_edit_data; assumption | exact T].
  - apply on_node_P; [exact Hw|]. intros s k T K. destruct (chardata k) eqn:C; [apply pf_edit_data; assumption | exact T].
  - apply on_node_P; [exact Hw|]. intros s k T K. destruct (chardata k) eqn:C; [apply pf_edit_data; assumption | exact T].
  - apply on_node_P; [exact Hw|]. intros s k T K. destruct (chardata k) eqn:C; [|exact T].
    apply pf_delete_data; [assumption|]. intros k' K'. congruence.
  - apply on_node_P; [exact Hw|]. intros s k T K. destruct (chardata k) eqn:C; [apply pf_edit_data; assumption | exact T].
  - apply on_node_P; [exact Hw|]. intros s k T K. destruct k; try exact T; apply pf_split_text; assumption.
  - apply on_node_P; [exact Hw|]. intros s k T K. destruct k; try exact T. apply pf_pi_set; assumption.
  - exact Hw.
Qed.


Theorem piflag_reachable : forall ops w, WPiFlag w -> WPiFlag (run w ops).
Proof. induction ops as [|o t IH]; intros w Hw; cbn; [exact Hw|]. apply IH. apply step_piflag. exact Hw. Qed.

Theorem pi_flag_b_sound : forall l nx decl root, pi_flag_b l = true -> PiFlagOk (store_of_list l nx decl root).
Proof.
  intros l nx decl root H i it G. unfold store_of_list, get in G. cbn [items] in G.
  destruct (lookup_in l i it G) as [j [_ [Hin _]]]. unfold pi_flag_b in H. rewrite forallb_forall in H.
  pose proof (H (j, it) Hin) as X. cbn [snd] in X. intros K Fl. rewrite K, Fl in X. cbn [orb] in X.
  destruct (idata it); [reflexivity | discriminate].
Qed.
