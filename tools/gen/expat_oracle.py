"""Independent oracle for Spec.XmlWF / Spec.Infoset: python's expat (xml.parsers.expat).

  verdict(text)  -> (xml10, ns): 'wf' | 'notwf:<expat error>' for XML 1.0 alone and with namespace
                    processing switched on
  infoset(text)  -> the canonical infoset dump of harness/src/domains/wfdoc.rs (merged-text view)
                    as expat reports it, or None when expat rejects the text
  known_difference(text, spec_is_wf, expat_is_wf) -> name of a KNOWN expat difference or None

Feature set: expat checks every well-formedness constraint of XML 1.0 that does not need an
external entity; it does NOT check the version number of the XML declaration, uses the
character tables of XML 1.0 4th edition for names (5th edition widened them), and does not
load external entities (references to them in content are skipped, as the specification
allows).  The encoding is forced to UTF-8 so that the encoding pseudo-attribute is not acted on."""
import re
import xml.parsers.expat as E

def enc(s):
    return ','.join(str(ord(c)) for c in s) if s else '-'

def oenc(s):
    return '~' if s is None else enc(s)

def _parse(text, ns, handlers=None):
    p = E.ParserCreate('utf-8', '\x01' if ns else None)
    p.buffer_text = False
    if handlers:
        handlers(p)
    try:
        p.Parse(text.encode('utf-8', 'surrogatepass'), True)
        return 'wf'
    except E.ExpatError as e:
        return 'notwf:' + E.ErrorString(e.code)
    except Exception as e:          # unencodable input etc.
        return 'skip:' + type(e).__name__

def verdict(text):
    return _parse(text, False), _parse(text, True)

VERSION = re.compile(r'^<\?xml\s+version\s*=\s*(["\'])(1\.[0-9]+)\1')

def known_difference(text, spec_wf, expat_wf):
    """explanations of spec-vs-expat disagreements that are expat's doing"""
    m = re.match(r'^<\?xml\s+version\s*=\s*(["\'])([^"\']*)\1', text)
    if m and m.group(2) != '1.0':
        if expat_wf and not spec_wf and not re.fullmatch(r'1\.[0-9]+', m.group(2)):
            return 'expat-does-not-check-VersionNum'
        if spec_wf and not expat_wf:
            return 'expat-accepts-version-1.0-only?'
    if spec_wf and not expat_wf and any(ord(c) > 127 for c in text):
        # names: 4th-edition tables; retry with every non-ASCII character replaced by a letter
        t2 = ''.join(c if ord(c) < 128 else 'y' for c in text)
        if _parse(t2, False) == 'wf':
            return 'expat-4th-edition-name-characters'
    if not spec_wf and expat_wf and any(ord(c) > 127 for c in text):
        return None
    return None

# ------------------------------------------------------------------ infoset
def _specified(text):
    """per start tag, in document order: the names of the attributes that were specified"""
    out = []
    def setup(p):
        p.ordered_attributes = True
        p.specified_attributes = True
        p.StartElementHandler = lambda name, attrs: out.append(set(attrs[0::2]))
        p.SetParamEntityParsing(E.XML_PARAM_ENTITY_PARSING_NEVER)
    _parse(text, False, setup)
    return out

def infoset(text, with_ns_attrs=True):
    toks = []
    spec = _specified(text)
    counter = [0]
    state = {'text': None, 'doctype': None, 'nots': [], 'unp': [], 'pis': [], 'in_dtd': False, 'decl': (None, None, None),
             'depth': 0}
    def flush():
        if state['text'] is not None:
            if state['text'] != '' and state['depth'] > 0:
                toks.append('t:' + enc(state['text']))
            state['text'] = None
    def xmldecl(version, encoding, standalone):
        state['decl'] = (version, encoding, standalone)
    def start(name, attrs):
        flush()
        state['depth'] += 1
        toks.append('E:' + enc(name))
        # attrs: ordered list [n1, v1, n2, v2 ...] with specified ones first
        pairs = [(attrs[i], attrs[i + 1]) for i in range(0, len(attrs), 2)]
        sp = spec[counter[0]] if counter[0] < len(spec) else set()
        counter[0] += 1
        rows = []
        for i, (n, v) in enumerate(pairs):
            rows.append((n, '%s:%s:%s' % ('a' if n in sp else 'b', enc(n), enc(v))))
        rows.sort(key=lambda r: [ord(c) for c in r[0]])
        toks.extend(r[1] for r in rows)
    def end(name):
        flush()
        state['depth'] -= 1
        toks.append('/E')
    def chars(data):
        state['text'] = (state['text'] or '') + data
    def comment(data):
        flush()
        if not state['in_dtd']:
            toks.append('c:' + enc(data))
    def pi(target, data):
        flush()
        t = 'p:%s:%s' % (enc(target), enc(data))
        if state['in_dtd']:
            state['pis'].append(t)
        else:
            toks.append(t)
    def start_doctype(name, sysid, pubid, has_internal):
        state['in_dtd'] = True
        state['doctype'] = (name, pubid, sysid)
    def end_doctype():
        state['in_dtd'] = False
        name, pubid, sysid = state['doctype']
        toks.append('T:%s:%s:%s' % (enc(name), oenc(pubid), oenc(sysid)))
        for _, t in sorted(state['nots'], key=lambda r: [ord(c) for c in r[0]]):
            toks.append(t)
        seen = set()
        unp = []
        for n, t in state['unp']:
            if n not in seen:
                seen.add(n); unp.append((n, t))
        for _, t in sorted(unp, key=lambda r: [ord(c) for c in r[0]]):
            toks.append(t)
        toks.extend(state['pis'])
        toks.append('/T')
    def notation(name, base, sysid, pubid):
        state['nots'].append((name, 'n:%s:%s:%s' % (enc(name), oenc(pubid), oenc(sysid))))
    def unparsed(name, base, sysid, pubid, notation_name):
        state['unp'].append((name, 'u:%s:%s:%s:%s' % (enc(name), oenc(pubid), enc(sysid), enc(notation_name))))
    def skipped(name, is_pe):
        flush()
        toks.append('x:' + enc(name))
    def setup(p):
        state['parser'] = p
        p.ordered_attributes = True
        p.specified_attributes = False
        p.XmlDeclHandler = xmldecl
        p.StartElementHandler = start
        p.EndElementHandler = end
        p.CharacterDataHandler = chars
        p.CommentHandler = comment
        p.ProcessingInstructionHandler = pi
        p.StartDoctypeDeclHandler = start_doctype
        p.EndDoctypeDeclHandler = end_doctype
        p.NotationDeclHandler = notation
        p.UnparsedEntityDeclHandler = unparsed
        p.SkippedEntityHandler = skipped
        p.SetParamEntityParsing(E.XML_PARAM_ENTITY_PARSING_NEVER)
    r = _parse(text, False, setup)
    if r != 'wf':
        return None
    version, encoding, standalone = state['decl']
    sa = '~' if standalone in (None, -1) else ('y' if standalone == 1 else 'n')
    head = 'D:%s:%s:%s' % (oenc(version), oenc(encoding), sa)
    return ' '.join([head] + toks)

if __name__ == '__main__':
    import sys
    for line in sys.stdin:
        t = line.rstrip('\n').encode().decode('unicode_escape')
        print(verdict(t), infoset(t))
