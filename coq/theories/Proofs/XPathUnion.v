(** * The algebra of unions and positional filters (C07). *)
From Coq Require Import List NArith Bool Lia Sorting.Sorted.
From XmlRs Require Import Base.CPred Base.NList Base.Float64.
From XmlRs Require Import Spec.XPathCore Model.XPathFuncs.
From XmlRs Require Import Model.XPathAst Model.XDoc Model.XPathScalar Model.XPathEval.
From XmlRs Require Import Proofs.XPathEvalEqs Proofs.XPathNav Proofs.XPathSort Proofs.XPathAstPred
  Proofs.XPathInv Proofs.XPathCtx Proofs.XPathCanon.
Import ListNotations.
Open Scope N_scope.

(** [A | B] as the parser builds it *)
Definition union2 (A B : path_expr) : union_expr := EUnion (PathCons A (PathCons B PathNil)).
Definition union1 (A : path_expr) : union_expr := EUnion (PathCons A PathNil).

(** a parenthesised union used as an operand: [(A | B)] *)
Definition expr_of_union (u : union_expr) : or_expr :=
  EOr (EAnd (EEq (ERel (EAdd (EMul (EUnary 0 u) MulopNil) AddopNil) RelopNil) EqopNil) EqNil) AndNil.
Definition paren (u : union_expr) : path_expr := PFilter (EFilter (PrimExpr (expr_of_union u)) ExprNil).

(** a path operand without the namespace axis *)
Definition path_no_ns (p : path_expr) : bool := ok_path not_ns_axis any_str any_str p.

Section Union.
Variable doc : xdoc.

Lemma bindM_ret_r {A} (m : M A) c : bindM m ret c = m c.
Proof. unfold bindM, ret. destruct (m c) as [[a|e| |] c1]; reflexivity. Qed.

Lemma bindM_ext {A B} (m : M A) (f g : A -> M B) c :
  (forall a c1, f a c1 = g a c1) -> bindM m f c = bindM m g c.
Proof. intros H. unfold bindM. destruct (m c) as [[a|e| |] c1]; try reflexivity. apply H. Qed.

Lemma eval_expr_of_union u n c : eval_or_expr doc (expr_of_union u) n c = eval_union_expr doc u n c.
Proof.
  unfold expr_of_union.
  rewrite eval_or_expr_eq.
  rewrite (bindM_ext _ _ ret) by (intros; rewrite eval_or_rest_nil; reflexivity). rewrite bindM_ret_r.
  rewrite eval_and_expr_eq.
  rewrite (bindM_ext _ _ ret) by (intros; rewrite eval_and_rest_nil; reflexivity). rewrite bindM_ret_r.
  rewrite eval_eq_expr_eq.
  rewrite (bindM_ext _ _ ret) by (intros; rewrite eval_eq_ops_nil; reflexivity). rewrite bindM_ret_r.
  rewrite eval_rel_expr_eq.
  rewrite (bindM_ext _ _ ret) by (intros; rewrite eval_rel_ops_nil; reflexivity). rewrite bindM_ret_r.
  rewrite eval_add_expr_eq.
  rewrite (bindM_ext _ _ ret) by (intros; rewrite eval_add_ops_nil; reflexivity). rewrite bindM_ret_r.
  rewrite eval_mul_expr_eq.
  rewrite (bindM_ext _ _ ret) by (intros; rewrite eval_mul_ops_nil; reflexivity). rewrite bindM_ret_r.
  rewrite eval_unary_expr_eq. apply bindM_ret_r.
Qed.

Lemma eval_paren u n c : eval_path_expr doc (paren u) n c = eval_union_expr doc u n c.
Proof.
  unfold paren. rewrite eval_path_expr_filter, eval_filter_expr_nopred, eval_primary_expr_expr.
  apply eval_expr_of_union.
Qed.

(** a path operand that ends with a value has restored the context *)
Lemma path_restores p n c v c' : eval_path_expr doc p n c = (Ok v, c') -> c' = c.
Proof.
  intros H. destruct (eval_restores_all doc) as (_&_&_&_&_&_&_&_&_&_&_&_&_&_&_&Hp&_).
  eapply (Hp p n); [exact H|exact I].
Qed.

(** the value of [A | B] from the values of [A] and [B] *)
Definition union_values (va vb : xvalue) : res xvalue :=
  match va, vb with
  | XNodes la, XNodes lb => Ok (XNodes (union_finish doc (la ++ lb)))
  | _, _ => Err XErrInvalidType
  end.

Lemma eval_union2 A B n c va vb :
  fst (eval_path_expr doc A n c) = Ok va -> fst (eval_path_expr doc B n c) = Ok vb ->
  eval_union_expr doc (union2 A B) n c = (union_values va vb, c).
Proof.
  intros HA HB. unfold union2.
  destruct (eval_path_expr doc A n c) as [ra ca] eqn:EA. cbn [fst] in HA. subst ra.
  destruct (eval_path_expr doc B n c) as [rb cb] eqn:EB. cbn [fst] in HB. subst rb.
  pose proof (path_restores _ _ _ _ _ EA). pose proof (path_restores _ _ _ _ _ EB). subst ca cb.
  rewrite eval_union_expr_many. unfold bindM. rewrite EA.
  destruct va as [b|la|x|s]; try reflexivity.
  rewrite eval_union_rest_cons. unfold bindM. rewrite EB.
  destruct vb as [b|lb|x|s]; try reflexivity.
Qed.

Lemma eval_union1 A n c l :
  fst (eval_path_expr doc A n c) = Ok (XNodes l) ->
  eval_union_expr doc (union1 A) n c = (Ok (XNodes (union_finish doc l)), c).
Proof.
  intros HA. unfold union1.
  destruct (eval_path_expr doc A n c) as [ra ca] eqn:EA. cbn [fst] in HA. subst ra.
  pose proof (path_restores _ _ _ _ _ EA). subst ca.
  rewrite eval_union_expr_one. unfold bindM. rewrite EA. reflexivity.
Qed.

(** ** idempotence and the cardinality bound need no hypothesis on the document *)
Theorem union_idem_lemma A n c l :
  fst (eval_path_expr doc A n c) = Ok (XNodes l) ->
  eval_union_expr doc (union2 A A) n c = eval_union_expr doc (union1 A) n c.
Proof.
  intros HA. rewrite (eval_union2 A A n c _ _ HA HA), (eval_union1 A n c l HA).
  cbn [union_values]. rewrite union_finish_idem_app. reflexivity.
Qed.

Theorem union_count_lemma A B n c la lb :
  fst (eval_path_expr doc A n c) = Ok (XNodes la) -> fst (eval_path_expr doc B n c) = Ok (XNodes lb) ->
  exists l, fst (eval_union_expr doc (union2 A B) n c) = Ok (XNodes l) /\
            (length l <= length la + length lb)%nat.
Proof.
  intros HA HB. rewrite (eval_union2 A B n c _ _ HA HB). cbn [union_values fst].
  eexists. split; [reflexivity|].
  pose proof (union_finish_length doc (la ++ lb)) as H. rewrite app_length in H. exact H.
Qed.

(** ** commutativity and associativity: keys must identify nodes *)
Hypothesis Hinv : DocInv doc.

Lemma path_nodes_good p n c l :
  path_no_ns p = true -> good doc n ->
  fst (eval_path_expr doc p n c) = Ok (XNodes l) -> Forall (good doc) l.
Proof.
  intros Hok Gn H.
  pose proof (eval_inv_all doc (inv_wf doc Hinv) (good doc) (good_valid doc) (good_children doc Hinv)
                (good_parent doc Hinv) (good_root doc Hinv)
                not_ns_axis any_str any_str False (good_axis doc Hinv)) as Hall.
  destruct Hall as (_&_&_&_&_&_&_&_&_&_&_&_&_&_&_&Hp&_).
  - intros F; destruct F.
  - intros F; destruct F.
  - intros F; destruct F.
  - specialize (Hp p Hok n Gn c). rewrite H in Hp. exact Hp.
Qed.

Lemma union_finish_good l : Forall (good doc) l -> Forall (good doc) (union_finish doc l).
Proof.
  intros H. apply Forall_forall. intros x Hx. rewrite Forall_forall in H. apply H.
  eapply union_finish_incl; eauto.
Qed.

Theorem union_comm_lemma A B n c va vb :
  path_no_ns A = true -> path_no_ns B = true -> good doc n ->
  fst (eval_path_expr doc A n c) = Ok va -> fst (eval_path_expr doc B n c) = Ok vb ->
  eval_union_expr doc (union2 A B) n c = eval_union_expr doc (union2 B A) n c.
Proof.
  intros HokA HokB Gn HA HB.
  rewrite (eval_union2 A B n c _ _ HA HB), (eval_union2 B A n c _ _ HB HA).
  destruct va as [b|la|x|s], vb as [b'|lb|x'|s']; try reflexivity.
  cbn [union_values]. f_equal. f_equal. f_equal.
  pose proof (path_nodes_good A n c la HokA Gn HA) as Ga.
  pose proof (path_nodes_good B n c lb HokB Gn HB) as Gb.
  apply union_finish_same_elements.
  - apply (good_key_inj doc Hinv). apply Forall_app. split; assumption.
  - apply (good_key_inj doc Hinv). apply Forall_app. split; assumption.
  - intros x. rewrite !in_app_iff. tauto.
Qed.

Theorem union_assoc_lemma A B C n c la lb lc :
  path_no_ns A = true -> path_no_ns B = true -> path_no_ns C = true -> good doc n ->
  fst (eval_path_expr doc A n c) = Ok (XNodes la) -> fst (eval_path_expr doc B n c) = Ok (XNodes lb) ->
  fst (eval_path_expr doc C n c) = Ok (XNodes lc) ->
  eval_union_expr doc (union2 (paren (union2 A B)) C) n c =
  eval_union_expr doc (union2 A (paren (union2 B C))) n c.
Proof.
  intros HokA HokB HokC Gn HA HB HC.
  pose proof (path_nodes_good A n c la HokA Gn HA) as Ga.
  pose proof (path_nodes_good B n c lb HokB Gn HB) as Gb.
  pose proof (path_nodes_good C n c lc HokC Gn HC) as Gc.
  assert (HAB : fst (eval_path_expr doc (paren (union2 A B)) n c) = Ok (XNodes (union_finish doc (la ++ lb)))).
  { rewrite eval_paren, (eval_union2 A B n c _ _ HA HB). reflexivity. }
  assert (HBC : fst (eval_path_expr doc (paren (union2 B C)) n c) = Ok (XNodes (union_finish doc (lb ++ lc)))).
  { rewrite eval_paren, (eval_union2 B C n c _ _ HB HC). reflexivity. }
  rewrite (eval_union2 _ C n c _ _ HAB HC), (eval_union2 A _ n c _ _ HA HBC).
  cbn [union_values]. f_equal. f_equal. f_equal.
  apply union_finish_same_elements.
  - apply (good_key_inj doc Hinv). apply Forall_app. split; [apply union_finish_good; apply Forall_app; split|]; assumption.
  - apply (good_key_inj doc Hinv). apply Forall_app. split; [|apply union_finish_good; apply Forall_app; split]; assumption.
  - intros x. rewrite !in_app_iff. split.
    + intros [H|H]; [apply union_finish_incl in H; rewrite in_app_iff in H; destruct H|].
      * left; assumption.
      * right. apply union_finish_in; [apply (good_key_inj doc Hinv); apply Forall_app; split; assumption|].
        apply in_or_app; left; assumption.
      * right. apply union_finish_in; [apply (good_key_inj doc Hinv); apply Forall_app; split; assumption|].
        apply in_or_app; right; assumption.
    + intros [H|H]; [|apply union_finish_incl in H; rewrite in_app_iff in H; destruct H].
      * left. apply union_finish_in; [apply (good_key_inj doc Hinv); apply Forall_app; split; assumption|].
        apply in_or_app; left; assumption.
      * left. apply union_finish_in; [apply (good_key_inj doc Hinv); apply Forall_app; split; assumption|].
        apply in_or_app; right; assumption.
      * right; assumption.
Qed.

End Union.

(** ** positional filters: [(E)[p]] numbers the nodes of [E] in the order of its result, which is
    document order by [nodeset_canonical] *)
Section Filter.
Variable doc : xdoc.

(** the specification of one predicate applied to a list: node [k] (1-based) is kept when the
    test says so at position [k] *)
Fixpoint positional (test : N -> node -> res bool) (l : list node) (pos : N) : res (list node) :=
  match l with
  | [] => Ok []
  | x :: t =>
      bind (test pos x) (fun b =>
      bind (positional test t (pos + 1)) (fun r => Ok (if b then x :: r else r)))
  end.

Lemma pred_loop_positional (f : node -> M bool) :
  (forall n, restores (f n)) ->
  forall l pos c0,
    fst (pred_loop f l pos c0) = positional (fun k x => fst (f x (push_position k c0))) l pos.
Proof.
  intros Hf l. induction l as [|x t IH]; intros pos c0; cbn [pred_loop positional]; [reflexivity|].
  destruct (f x (push_position pos c0)) as [[keep|e| |] c1] eqn:E; cbn [fst bind]; try reflexivity.
  assert (c1 = push_position pos c0) by (eapply Hf; [exact E|exact I]). subst c1.
  rewrite pop_push_position. specialize (IH (pos + 1) c0).
  destruct (pred_loop f t (pos + 1) c0) as [[r|e| |] c2]; cbn [fst] in IH; rewrite <- IH; reflexivity.
Qed.

(** the truth of predicate [p] for node [x] at position [k] of [size] nodes *)
Definition predicate_at (p : expr) (c : ctx) (size k : N) (x : node) : res bool :=
  fst (predicate_of (eval_or_expr doc p) x (push_position k (push_size size c))).

Theorem filter_position_lemma (E p : expr) n c l :
  eval_expr doc E n c = (Ok (XNodes l), c) ->
  fst (eval_filter_expr doc (EFilter (PrimExpr E) (ExprCons p ExprNil)) n c) =
  bind (positional (predicate_at p c (len l)) l 1) (fun r => Ok (XNodes r)).
Proof.
  intros HE. rewrite eval_filter_expr_preds. unfold bindM. rewrite eval_primary_expr_expr.
  unfold eval_expr in HE. rewrite HE. rewrite eval_predicates_cons.
  pose proof (pred_loop_positional (predicate_of (eval_or_expr doc p))) as Hpl.
  assert (Hr : forall x, restores (predicate_of (eval_or_expr doc p) x)).
  { intros x. apply restores_predicate_of. destruct (eval_restores_all doc) as [Hor _]. apply Hor. }
  specialize (Hpl Hr l 1 (push_size (len l) c)).
  unfold predicate_at.
  destruct (pred_loop (predicate_of (eval_or_expr doc p)) l 1 (push_size (len l) c)) as [[filtered|e| |] c1] eqn:El;
    cbn [fst] in Hpl; rewrite <- Hpl; cbn [bind]; try reflexivity.
Qed.

End Filter.
