(** * C15: the document a store denotes satisfies the invariant of the print -> parse direction
    of C04 ([printable], Proofs/DisplayFull.v), outside the listed position / neighbour findings

    Hypotheses: the tree invariant (C12), the lexical invariant [Lex15] (Proofs/StoreDocInv.v),
    pairwise different qualified attribute names per element ([UniqQ], C13), the header texts are
    prints ([hdr_ok]) and [Known15 s = false] (Model/StoreDoc.v: no document element, element
    before the document type, adjacent / empty Text items, a Text child holding the CDATA end mark,
    both quotation marks in one attribute value, an entity reference that does not resolve at its
    position).  Conclusion: [printable (doc_of_store s)], hence with C04:
    [from_raw (show_doc s) = OOk ([], doc_of_store s)]. *)
From Coq Require Import List NArith Bool Lia.
From XmlRs Require Import Base.CPred Spec.XmlChars Model.Peg Model.ParseActions Model.Info Model.Display.
From XmlRs Require Import Proofs.PegLemmas Proofs.DisplayLex Proofs.DisplayElem Proofs.DisplayDoc Proofs.DisplayDtd Proofs.DisplayFull
  Proofs.ParseInvDoc Proofs.StoreDocLex.
From XmlRs Require Import Model.Store Model.PrintableCheck Model.DomOps Model.StoreDoc.
From XmlRs Require Import Proofs.DomBase Proofs.DomTree Proofs.DomAnc Proofs.DomOrder Proofs.DomPrintable Proofs.DomL1RefineInv
  Proofs.StoreDocInv Proofs.StoreDocShow.
From XmlRs Require Model.CharData.
Import ListNotations.
Open Scope N_scope.

(** ** lists *)
Lemma existsb_false {A} (f : A -> bool) l x : existsb f l = false -> In x l -> f x = false.
Proof.
  intros H Hin. destruct (f x) eqn:E; [|reflexivity]. exfalso.
  assert (existsb f l = true) as X; [|congruence]. apply existsb_exists. exists x. split; assumption.
Qed.

Lemma Forall_flat_map {A B} (P : B -> Prop) (f : A -> list B) l : (forall x, In x l -> Forall P (f x)) -> Forall P (flat_map f l).
Proof.
  induction l as [|x l IH]; intros H; cbn [flat_map]; [constructor|]. apply Forall_app. split.
  - apply H. left. reflexivity.
  - apply IH. intros y Hy. apply H. right. exact Hy.
Qed.

Lemma nodup_app_disjoint {A} (a b : list A) x : NoDup (a ++ b) -> In x a -> In x b -> False.
Proof.
  induction a as [|y a IH]; intros ND Ha Hb; [destruct Ha|]. cbn [app] in ND. inversion ND as [|? ? Hn ND']; subst.
  destruct Ha as [->|Ha]; [apply Hn; apply in_or_app; right; exact Hb | exact (IH ND' Ha Hb)].
Qed.

(** ** attribute names *)
Lemma qname_eqb_eq a b : qname_eqb a b = true -> a = b.
Proof.
  destruct a, b; cbn [qname_eqb]; try discriminate; intros H.
  - apply andb_prop in H. destruct H as [H1 H2]. apply peg_str_eqb_eq in H1. apply peg_str_eqb_eq in H2. congruence.
  - apply peg_str_eqb_eq in H. congruence.
Qed.

Lemma att_name_eqb_eq a b : att_name_eqb a b = true -> a = b.
Proof.
  destruct a, b; cbn [att_name_eqb]; try discriminate; intros H; try reflexivity.
  - apply peg_str_eqb_eq in H. congruence.
  - apply qname_eqb_eq in H. congruence.
Qed.

Lemma attrs_nodup_names : forall l before, NoDup (map at_name before ++ map at_name l) -> attrs_nodup before l.
Proof.
  induction l as [|a l IH]; intros before H; cbn [attrs_nodup]; [exact I|]. cbn [map] in H. split.
  - apply NoDup_remove_2 in H. destruct (existsb _ before) eqn:E; [|reflexivity]. exfalso.
    apply existsb_exists in E. destruct E as [v [Hv Hn]]. apply att_name_eqb_eq in Hn. apply H.
    apply in_or_app. left. rewrite <- Hn. apply in_map. exact Hv.
  - apply IH. rewrite map_app. cbn [map]. rewrite <- app_assoc. exact H.
Qed.

Lemma un_attr_name_inj a b : un_attr_name a = un_attr_name b -> xa_local a = xa_local b /\ xa_prefix a = xa_prefix b.
Proof.
  intros E. pose proof (attribute_name_un a) as Ha. pose proof (attribute_name_un b) as Hb. rewrite E in Ha. rewrite Ha in Hb.
  inversion Hb. split; reflexivity.
Qed.

(** ** entities *)
Lemma resolve_entity_of ents ext a name e : resolve_ref ents ext a name = IOk e -> entity_of ents name = e.
Proof.
  unfold resolve_ref, entity_of. destruct (lookup_entity2 ents name) as [[e0 d]| | |]; cbn [ibind]; try discriminate.
  destruct (check_entity_ref _ _ _ _ _ _ _); cbn [ibind fst]; try discriminate. intros H. inversion H. reflexivity.
Qed.

(** ** the header *)
Lemma header_wf decl dt h : header_of decl dt = Some h ->
  match h_version h with
  | Some v => version_ok v /\ (h_encoding h = [] \/ enc_ok (h_encoding h))
  | None => h_encoding h = [] /\ h_standalone h = None
  end
  /\ (forall x, h_doctype h = Some x -> doctype_wf (h_standalone h) x).
Proof.
  unfold header_of. destruct (from_raw (decl ++ dt ++ s_stub)) as [[r d]| | | |] eqn:F; try discriminate.
  pose proof (accepted_printable _ _ _ F) as P.
  destruct r as [|? ?]; [|discriminate]. destruct d as [ch enc sa ver].
  destruct P as [p [H1 [H2 [H3 [H4 [H5 [H6 [H7 [H8 H9]]]]]]]]]. cbn [doc_children doc_version doc_encoding doc_standalone] in *.
  destruct ch as [|i1 ch]; [discriminate|].
  destruct i1 as [l1 p1 a1 c1| | | | | | |x]; try discriminate.
  - (* no document type *)
    destruct ch as [|? ?]; [|discriminate]. intros E. inversion E; subst h. cbn [h_version h_encoding h_standalone h_doctype].
    split; [exact H8|]. intros x Hx. discriminate.
  - destruct ch as [|i2 ch]; [discriminate|]. destruct i2 as [l2 p2 a2 c2| | | | | | |]; try discriminate.
    destruct ch as [|? ?]; [|discriminate]. intros E. inversion E; subst h. cbn [h_version h_encoding h_standalone h_doctype].
    split; [exact H8|]. intros x' Hx. inversion Hx; subst x'. apply H9.
    unfold parts_children in H1. destruct (dp_pre p) as [|i pre].
    + cbn [app] in H1. destruct (dp_dt p) as [x'|].
      * cbn [app] in H1. inversion H1. reflexivity.
      * cbn [app] in H1. inversion H1 as [[E1 E2]]. rewrite <- E1 in H6. discriminate.
    + cbn [app] in H1. inversion H1 as [[E1 E2]]. inversion H3 as [|? ? Hm _]; subst. cbn in Hm. contradiction.
Qed.

Section Wf.
  Variable s : store.
  Hypothesis T : TreeInv s.
  Hypothesis L : Lex15 s.
  Hypothesis U : UniqQ s.
  Hypothesis H : hdr_ok s = true.
  Hypothesis K : Known15 s = false.
  Let h := hdr s.
  Let ents := ents_of h.
  Let ext := ext_of h.

  (** ** what the exclusions say about an attached node *)
  Lemma attached_any_false f x : attached_any s f = false -> attached s x -> f x = false.
  Proof. intros E A. eapply existsb_false; [exact E|]. apply (preorder_attached s T). exact A. Qed.

  Lemma on_kind_false k f x it : on_kind s k f x = false -> get s x = Some it -> ikind it = k -> f (ichildren it) = false.
  Proof. unfold on_kind. intros E Hx Hk. rewrite Hx, Hk in E. rewrite kind_eqb_refl in E. exact E. Qed.

  Lemma known_parts :
    K_noroot s = false /\ K_el_before_dt s = false /\ K_adjacent_text s = false /\ K_empty_text s = false
    /\ K_text_cdend s = false /\ K_both_quotes s = false /\ K_unresolved s = false.
  Proof.
    pose proof K as K0. unfold Known15 in K0.
    apply orb_false_iff in K0. destruct K0 as [K0 K7]. apply orb_false_iff in K0. destruct K0 as [K0 K6].
    apply orb_false_iff in K0. destruct K0 as [K0 K5]. apply orb_false_iff in K0. destruct K0 as [K0 K4].
    apply orb_false_iff in K0. destruct K0 as [K0 K3]. apply orb_false_iff in K0. destruct K0 as [K1 K2].
    repeat split; assumption.
  Qed.

  Lemma known_el x it : attached s x -> get s x = Some it -> ikind it = KEl ->
    adjacent_text s false (ichildren it) = false /\ empty_text s (ichildren it) = false
    /\ cdend_text s (ichildren it) = false /\ unresolved s h false (ichildren it) = false.
  Proof.
    intros A Hx Hk. destruct known_parts as [_ [_ [K3 [K4 [K5 [_ K7]]]]]].
    pose proof (attached_any_false _ x K3 A) as E3. pose proof (attached_any_false _ x K4 A) as E4.
    pose proof (attached_any_false _ x K5 A) as E5. pose proof (attached_any_false _ x K7 A) as E7. cbn beta in *.
    apply orb_false_iff in E3. apply orb_false_iff in E4. apply orb_false_iff in E7.
    repeat split; eapply on_kind_false; try eassumption; tauto.
  Qed.

  Lemma known_at x it : attached s x -> get s x = Some it -> ikind it = KAt ->
    adjacent_text s false (ichildren it) = false /\ empty_text s (ichildren it) = false
    /\ both_quotes s h (ichildren it) = false /\ unresolved s h true (ichildren it) = false.
  Proof.
    intros A Hx Hk. destruct known_parts as [_ [_ [K3 [K4 [_ [K6 K7]]]]]].
    pose proof (attached_any_false _ x K3 A) as E3. pose proof (attached_any_false _ x K4 A) as E4.
    pose proof (attached_any_false _ x K6 A) as E6. pose proof (attached_any_false _ x K7 A) as E7. cbn beta in *.
    apply orb_false_iff in E3. apply orb_false_iff in E4. apply orb_false_iff in E7.
    repeat split; eapply on_kind_false; try eassumption; tauto.
  Qed.

  Lemma attached_child n c : attached s n -> par s c n -> attached s c.
  Proof. intros [->|A] P; right; [apply anc1; exact P | eapply ancS; eassumption]. Qed.

  Lemma item_ok_of i it : get s i = Some it -> item_ok it = true /\ extra15 (sdecl s) it = true.
  Proof. intros G. pose proof (lex15_item s i it L G) as X. unfold item_ok15 in X. apply andb_prop in X. exact X. Qed.

  (** ** attribute values *)
  Definition value_live (v : id) : Prop := exists vit, get s v = Some vit /\ child_ok KAt (ikind vit) = true.

  Lemma values_no_adjacent : forall vs prev, (forall v, In v vs -> value_live v) ->
    adjacent_text s prev vs = false -> no_adjacent_text prev (flat_map (avalue_of s ents) vs).
  Proof.
    induction vs as [|v vs IH]; intros prev Hl A; cbn [flat_map]; [exact I|].
    destruct (Hl v (or_introl eq_refl)) as [vit [Hv Hk]]. cbn [adjacent_text] in A. apply orb_false_iff in A. destruct A as [A1 A2].
    unfold is_text_item, has_kind in A1, A2. rewrite Hv in A1, A2.
    assert (IH' : forall b, adjacent_text s b vs = false -> no_adjacent_text b (flat_map (avalue_of s ents) vs))
      by (intros b Hb; apply IH; [intros v' Hv'; apply Hl; right; exact Hv' | exact Hb]).
    unfold avalue_of at 1. rewrite Hv. destruct (ikind vit); try discriminate; cbn [app no_adjacent_text kind_eqb] in *.
    - split; [destruct prev; [discriminate | reflexivity]|]. apply IH'. exact A2.
    - apply IH'. exact A2.
    - apply IH'. exact A2.
  Qed.

  Lemma values_wf_each q : q = 34 \/ q = 39 -> forall vs, (forall v, In v vs -> value_live v) ->
    empty_text s vs = false -> unresolved s h true vs = false ->
    existsb (N.eqb q) (d_avalues (flat_map (avalue_of s ents) vs)) = false ->
    Forall (avalue_wf ents ext q) (flat_map (avalue_of s ents) vs).
  Proof.
    intros Hq. induction vs as [|v vs IH]; intros Hl E R Q; cbn [flat_map]; [constructor|].
    destruct (Hl v (or_introl eq_refl)) as [vit [Hv Hk]].
    cbn [empty_text existsb] in E. apply orb_false_iff in E. destruct E as [E1 E2].
    cbn [unresolved existsb] in R. apply orb_false_iff in R. destruct R as [R1 R2].
    cbn [flat_map] in Q. unfold d_avalues in Q. rewrite flat_map_app in Q. rewrite existsb_app in Q.
    apply orb_false_iff in Q. destruct Q as [Q1 Q2].
    rewrite Hv in E1, R1. destruct (item_ok_of v vit Hv) as [Ho Hx]. unfold item_ok in Ho. unfold extra15 in Hx.
    apply Forall_app. split; [|apply IH; [intros v' Hv'; apply Hl; right; exact Hv' | exact E2 | exact R2 | exact Q2]].
    unfold avalue_of in *. rewrite Hv in *. destruct (ikind vit) eqn:Kv; try discriminate; cbn [kind_eqb andb negb] in *.
    - (* text *) constructor; [|constructor]. cbn [avalue_wf]. split.
      + destruct (idata vit); [discriminate | discriminate].
      + cbn [flat_map d_avalue] in Q1. rewrite app_nil_r in Q1. apply text_lex_chars_q; assumption.
    - (* character reference *) constructor; [|constructor]. cbn [avalue_wf].
      destruct (charref_ok_ref _ _ Hx) as [A [B _]]. split; assumption.
    - (* entity reference *) constructor; [|constructor]. cbn [avalue_wf]. rewrite entity_of_name. split.
      + apply is_Name_ok. exact Ho.
      + fold h ents ext in R1. destruct (resolve_ref ents ext true (ilocal vit)) as [e| | |] eqn:RR; try discriminate.
        rewrite (resolve_entity_of _ _ _ _ _ RR). reflexivity.
  Qed.

  Lemma quote_free (l : list avalue) :
    existsb (N.eqb 34) (d_avalues l) && existsb (N.eqb 39) (d_avalues l) = false ->
    existsb (N.eqb (quote_of l)) (d_avalues l) = false.
  Proof.
    unfold quote_of. destruct (existsb (N.eqb 34) (d_avalues l)) eqn:E; cbn [andb]; intros X; [exact X | exact E].
  Qed.

  (** ** attributes *)
  Lemma attr_wf_of a ait : get s a = Some ait -> ikind ait = KAt -> attached s a ->
    exists x, attr_of s ents a = [x] /\ attr_wf ents ext x /\ xa_local x = ilocal ait /\ xa_prefix x = iprefix ait.
  Proof.
    intros Ha Hk A. unfold attr_of. rewrite Ha, Hk. eexists. split; [reflexivity|]. split; [|split; reflexivity].
    destruct (item_ok_of a ait Ha) as [Ho _]. unfold item_ok in Ho. rewrite Hk in Ho. apply qname_ok_ok in Ho.
    destruct (known_at a ait A Ha Hk) as [K1 [K2 [K3 K4]]].
    assert (Hl : forall v, In v (ichildren ait) -> value_live v).
    { intros v Hv. destruct (child_live s T a ait v Ha Hv) as [vit [Hg Hc]]. rewrite Hk in Hc. exists vit. split; assumption. }
    split.
    - unfold attr_name_wf. cbn [xa_prefix xa_local]. destruct (iprefix ait) as [p|].
      + destruct Ho as [Hp Hl']. destruct (Peg.str_eqb p Info.s_xmlns); [exact Hl' | split; assumption].
      + destruct (Peg.str_eqb (ilocal ait) Info.s_xmlns); [exact I | exact Ho].
    - cbn [xa_values]. split.
      + apply values_no_adjacent; assumption.
      + apply values_wf_each; try assumption; [apply quote_of_cases|]. apply quote_free. exact K3.
  Qed.

  Lemma attrs_wf_of n it : get s n = Some it -> ikind it = KEl -> attached s n ->
    Forall (attr_wf ents ext) (flat_map (attr_of s ents) (iattrs it))
    /\ attrs_nodup [] (map un_attr (flat_map (attr_of s ents) (iattrs it))).
  Proof.
    intros Hn Hk A.
    assert (Hat : forall a, In a (iattrs it) -> exists ait, get s a = Some ait /\ ikind ait = KAt /\ attached s a).
    { intros a Ha. pose proof (attr_par s T n it a Hn Ha) as P. destruct P as [ait [Hg Hp]].
      destruct (ti_attr_kind s T n it a ait Hn Ha Hg) as [_ Hkat]. exists ait. split; [exact Hg|]. split; [exact Hkat|].
      eapply attached_child; [exact A | exists ait; split; assumption]. }
    split.
    - apply Forall_flat_map. intros a Ha. destruct (Hat a Ha) as [ait [Hg [Hka Aa]]].
      destruct (attr_wf_of a ait Hg Hka Aa) as [x [E [W _]]]. rewrite E. constructor; [exact W | constructor].
    - apply attrs_nodup_names. cbn [map app]. rewrite map_map.
      assert (E : forall a, at_name (un_attr a) = un_attr_name a) by reflexivity.
      rewrite (map_ext _ _ E).
      pose proof (ti_nodup_a s T n it Hn) as ND.
      assert (G : forall l, NoDup l -> (forall a, In a l -> In a (iattrs it)) ->
                  NoDup (map un_attr_name (flat_map (attr_of s ents) l))); [|apply G; [exact ND | auto]].
      clear ND. intros l. induction l as [|a l IH]; intros ND Hsub; cbn [flat_map map]; [constructor|].
      inversion ND as [|? ? Hnin ND']; subst.
      destruct (Hat a (Hsub a (or_introl eq_refl))) as [ait [Hg [Hka Aa]]].
      destruct (attr_wf_of a ait Hg Hka Aa) as [x [Ex [_ [Xl Xp]]]]. rewrite Ex. cbn [app map]. constructor.
      + intros Hin. apply in_map_iff in Hin. destruct Hin as [y [Ey Hy]]. apply in_flat_map in Hy. destruct Hy as [b [Hb Hyb]].
        destruct (Hat b (Hsub b (or_intror Hb))) as [bit [Hgb [Hkb Ab]]].
        destruct (attr_wf_of b bit Hgb Hkb Ab) as [y' [Eb [_ [Yl Yp]]]]. rewrite Eb in Hyb. destruct Hyb as [<-|[]].
        apply un_attr_name_inj in Ey. destruct Ey as [El Ep].
        assert (a = b) as ->.
        { eapply (U n it a b ait bit Hn (Hsub a (or_introl eq_refl)) (Hsub b (or_intror Hb)) Hg Hgb); congruence. }
        contradiction.
      + apply IH; [exact ND'|]. intros b Hb. apply Hsub. right. exact Hb.
  Qed.

  (** ** element content *)
  Definition el_child (f : nat) (c : id) : Prop :=
    exists cit, get s c = Some cit /\ child_ok KEl (ikind cit) = true /\ attached s c /\ deep s c f.

  Definition node_goal (f : nat) (c : id) (cit : Store.item) : Prop :=
    exists i, item_fuel f s h c = [i] /\ item_wf ents ext i /\ is_text i = false /\ (ikind cit = KEl -> is_element i = true).

  Lemma children_wf_of f (Hf : (0 < f)%nat)
    (Hrec : forall c cit, get s c = Some cit -> child_ok KEl (ikind cit) = true -> ikind cit <> KTx -> attached s c -> deep s c f ->
            (ikind cit = KEr -> exists e, resolve_ref ents ext false (ilocal cit) = IOk e) -> node_goal f c cit) :
    forall l prev, (forall c, In c l -> el_child f c) ->
      adjacent_text s prev l = false -> empty_text s l = false -> cdend_text s l = false -> unresolved s h false l = false ->
      children_wf (item_wf ents ext) prev (flat_map (item_fuel f s h) l).
  Proof.
    induction l as [|c l IH]; intros prev Hl A E C R; cbn [flat_map]; [exact I|].
    destruct (Hl c (or_introl eq_refl)) as [cit [Hc [Hk [Ac Dc]]]].
    cbn [adjacent_text] in A. apply orb_false_iff in A. destruct A as [A1 A2].
    cbn [empty_text existsb] in E. apply orb_false_iff in E. destruct E as [E1 E2].
    cbn [cdend_text existsb] in C. apply orb_false_iff in C. destruct C as [C1 C2].
    cbn [unresolved existsb] in R. apply orb_false_iff in R. destruct R as [R1 R2].
    unfold is_text_item, has_kind in A1, A2. rewrite Hc in A1, A2, E1, C1, R1.
    assert (IH' : forall b, adjacent_text s b l = false -> children_wf (item_wf ents ext) b (flat_map (item_fuel f s h) l)).
    { intros b Hb. apply IH; try assumption. intros c' Hc'. apply Hl. right. exact Hc'. }
    destruct (kind_eqb (ikind cit) KTx) eqn:KT.
    - (* a Text child *)
      destruct (kind_eqb_spec (ikind cit) KTx) as [Kt|]; [|discriminate].
      destruct f as [|f']; [lia|]. cbn [item_fuel]. rewrite Hc, Kt. cbn [app children_wf].
      destruct (item_ok_of c cit Hc) as [Ho _]. unfold item_ok in Ho. rewrite Kt in Ho.
      cbn [andb] in E1, C1. split; [destruct prev; [discriminate | reflexivity]|]. split; [destruct (idata cit); discriminate|].
      split; [|apply IH'; exact A2]. split; [apply text_lex_chars; exact Ho|].
      apply has_sub_find. exact C1.
    - destruct (kind_eqb_spec (ikind cit) KTx) as [|Kt]; [discriminate|].
      assert (Rr : ikind cit = KEr -> exists e, resolve_ref ents ext false (ilocal cit) = IOk e).
      { intros Ke. rewrite Ke in R1. cbn [kind_eqb andb] in R1. fold h ents ext in R1.
        destruct (resolve_ref ents ext false (ilocal cit)) as [e| | |]; try discriminate. eauto. }
      destruct (Hrec c cit Hc Hk Kt Ac Dc Rr) as [i [Ei [Wi [Ti _]]]]. rewrite Ei. cbn [app].
      destruct i; try discriminate Ti; cbn [children_wf]; (split; [exact Wi | apply IH'; exact A2]).
  Qed.

  Lemma node_wf : forall f n it, get s n = Some it -> child_ok KEl (ikind it) = true -> ikind it <> KTx ->
    attached s n -> deep s n f -> (0 < f)%nat ->
    (ikind it = KEr -> exists e, resolve_ref ents ext false (ilocal it) = IOk e) -> node_goal f n it.
  Proof.
    induction f as [|f IH]; intros n it Hn Hk Nt A D Hf Rr; [lia|]. unfold node_goal.
    cbn [item_fuel]. rewrite Hn. destruct (item_ok_of n it Hn) as [Ho Hx]. unfold item_ok in Ho. unfold extra15 in Hx.
    destruct (ikind it) eqn:Kd; try discriminate; try (exfalso; apply Nt; reflexivity);
      (eexists; split; [reflexivity|]; split; [|split; [reflexivity | intros X; try discriminate X; reflexivity]]).
    - (* element *)
      cbn [item_wf]. apply qname_ok_ok in Ho.
      destruct (attrs_wf_of n it Hn Kd A) as [W1 W2]. destruct (known_el n it A Hn Kd) as [K1 [K2 [K3 K4]]].
      split; [|split; [exact W1|split; [exact W2|]]].
      + unfold mk_qname. destruct (iprefix it); exact Ho.
      + destruct (ichildren it) as [|c0 cs] eqn:EL; [exact I|]. rewrite <- EL in *.
        assert (Hpos : (0 < f)%nat).
        { assert (Hin : In c0 (ichildren it)) by (rewrite EL; left; reflexivity).
          destruct (deep_child s n c0 f D (child_par s T n it c0 Hn Hin)) as [_ X]. exact X. }
        apply children_wf_of; try assumption.
        * intros c cit Hc Hkc Ntc Ac Dc Rc. apply IH; assumption.
        * intros c Hc. destruct (child_live s T n it c Hn Hc) as [cit [Hg Hok]]. rewrite Kd in Hok.
          pose proof (child_par s T n it c Hn Hc) as P.
          exists cit. split; [exact Hg|]. split; [exact Hok|]. split; [eapply attached_child; eassumption|].
          apply (deep_child s n c f D P).
    - (* CDATA *) cbn [item_wf leaf_wf]. apply check_cdata_ok. exact Ho.
    - (* character reference *) cbn [item_wf leaf_wf]. destruct (charref_ok_ref _ _ Hx) as [X [Y _]]. split; assumption.
    - (* entity reference *)
      cbn [item_wf leaf_wf]. rewrite entity_of_name. split; [apply is_Name_ok; exact Ho|].
      destruct (Rr eq_refl) as [e RR]. rewrite RR. f_equal. symmetry. eapply resolve_entity_of. exact RR.
    - (* PI *)
      cbn [item_wf leaf_wf]. apply andb_prop in Ho. destruct Ho as [Hn' Hd]. apply andb_prop in Hx. destruct Hx as [Hx1 Hx2].
      unfold DisplayLex.pi_ok. cbn [pi_target pi_value]. split.
      * split; [apply is_Name_ok; exact Hn' | apply not_xml_ci; apply negb_true_iff; exact Hx1].
      * destruct (iflag it); [|exact I]. apply pi_data_ok_of; assumption.
    - (* comment *) cbn [item_wf leaf_wf]. apply check_comment_ok. exact Ho.
  Qed.

  (** ** the children of the document *)
  Lemma find_split {A} (f : A -> bool) l x : find f l = Some x ->
    exists l1 l2, l = l1 ++ x :: l2 /\ f x = true /\ (forall y, In y l1 -> f y = false).
  Proof.
    induction l as [|a l IH]; cbn [find]; [discriminate|]. destruct (f a) eqn:E.
    - intros X. inversion X; subst. exists [], l. split; [reflexivity|]. split; [exact E | intros y []].
    - intros X. destruct (IH X) as [l1 [l2 [-> [Hx Hn]]]]. exists (a :: l1), l2. split; [reflexivity|]. split; [exact Hx|].
      intros y [<-|Hy]; [exact E | apply Hn; exact Hy].
  Qed.

  Lemma find_skip {A} (f : A -> bool) l1 x l2 : (forall y, In y l1 -> f y = false) -> f x = true -> find f (l1 ++ x :: l2) = Some x.
  Proof.
    induction l1 as [|a l1 IH]; intros Hn Hx; cbn [app find]; [rewrite Hx; reflexivity|].
    rewrite (Hn a (or_introl eq_refl)). apply IH; [|exact Hx]. intros y Hy. apply Hn. right. exact Hy.
  Qed.

  Lemma hdr_some : exists h0, header_of (sdecl s) (dt_text s) = Some h0 /\ hdr s = h0.
  Proof.
    unfold hdr_ok in H. unfold hdr. destruct (header_of (sdecl s) (dt_text s)) as [h0|]; [|discriminate]. eauto.
  Qed.

  Theorem store_doc_printable : printable (doc_of_store s).
  Proof.
    destruct (ti_root s T) as [rit [Hr Hkr]].
    assert (Hpos : (0 < N.to_nat (next s))%nat) by (pose proof (ti_bound s T _ _ Hr); lia).
    destruct (N.to_nat (next s)) as [|f] eqn:EN; [lia|].
    set (g := item_fuel f s h).
    assert (Hitems : doc_items s = flat_map g (ichildren rit)).
    { unfold doc_items. rewrite EN. unfold children_of. rewrite Hr. reflexivity. }
    assert (Droot : deep s (sroot s) (S f)).
    { intros d k Hk'. rewrite <- EN. eapply ancn_strict; eassumption. }
    assert (Hch : forall c, In c (ichildren rit) ->
              exists cit, get s c = Some cit /\ child_ok KDoc (ikind cit) = true /\ attached s c /\ deep s c f /\ (0 < f)%nat).
    { intros c Hc. destruct (child_live s T (sroot s) rit c Hr Hc) as [cit [Hg Hok]]. rewrite Hkr in Hok.
      pose proof (child_par s T (sroot s) rit c Hr Hc) as P.
      exists cit. split; [exact Hg|]. split; [exact Hok|]. split; [right; apply anc1; exact P|].
      apply (deep_child s (sroot s) c f Droot P). }
    pose proof (ti_nodup_c s T _ _ Hr) as ND.
    (* a child that is neither the element nor the document type *)
    assert (Hmisc : forall c, In c (ichildren rit) -> has_kind s KEl c = false -> has_kind s KDt c = false -> Forall misc_wf (g c)).
    { intros c Hc NE NDt. destruct (Hch c Hc) as [cit [Hg [Hok [Ac [Dc Hf]]]]].
      unfold has_kind in NE, NDt. rewrite Hg in NE, NDt.
      destruct (item_ok_of c cit Hg) as [Ho Hx]. unfold item_ok in Ho. unfold extra15 in Hx.
      unfold g. destruct f as [|f']; [lia|]. cbn [item_fuel]. rewrite Hg.
      destruct (ikind cit) eqn:Kc; try discriminate; (constructor; [|constructor]); cbn [misc_wf].
      - apply andb_prop in Ho. destruct Ho as [Hn' Hd]. apply andb_prop in Hx. destruct Hx as [Hx1 Hx2].
        unfold DisplayLex.pi_ok. cbn [pi_target pi_value]. split.
        + split; [apply is_Name_ok; exact Hn' | apply not_xml_ci; apply negb_true_iff; exact Hx1].
        + destruct (iflag cit); [|exact I]. apply pi_data_ok_of; assumption.
      - apply check_comment_ok. exact Ho. }
    destruct known_parts as [K1 [K2 _]].
    (* the document element *)
    unfold K_noroot in K1. destruct (doc_element s) as [e|] eqn:DE; [|discriminate].
    unfold doc_element, children_of in DE. rewrite Hr in DE.
    destruct (find_split _ _ _ DE) as [l1 [l2 [EL [He Hl1]]]].
    assert (Hl2 : forall y, In y l2 -> has_kind s KEl y = false).
    { intros y Hy. destruct (has_kind s KEl y) eqn:E; [|reflexivity]. exfalso.
      assert (y = e).
      { eapply (ti_one_el s T rit y e Hr); try assumption; rewrite EL; apply in_or_app; right; [right; exact Hy | left; reflexivity]. }
      subst y. rewrite EL in ND. apply NoDup_remove_2 in ND. apply ND. apply in_or_app. right. exact Hy. }
    assert (Hine : In e (ichildren rit)) by (rewrite EL; apply in_or_app; right; left; reflexivity).
    destruct (Hch e Hine) as [eit [Hge [_ [Ae [De Hf]]]]].
    assert (Hke : ikind eit = KEl).
    { unfold has_kind in He. rewrite Hge in He. destruct (kind_eqb_spec (ikind eit) KEl); [assumption | discriminate]. }
    assert (Hroot : node_goal f e eit).
    { apply node_wf; try assumption; rewrite Hke; try reflexivity; discriminate. }
    destruct Hroot as [root [Eroot [Wroot [_ Iroot]]]]. specialize (Iroot Hke).
    destruct hdr_some as [h0 [Hh0 Eh0]]. destruct (header_wf _ _ _ Hh0) as [Hver Hdt]. rewrite <- Eh0 in Hver, Hdt. fold h in Hver, Hdt.
    destruct (doc_decl s) as [d|] eqn:DD.
    - (* with a document type *)
      destruct (hdr_doctype s H d DD) as [x [Hx _]]. fold h in Hx.
      pose proof DD as DD'. unfold doc_decl, children_of in DD'. rewrite Hr in DD'.
      destruct (find_split _ _ _ DD') as [m1 [m2 [EM [Hd Hm1]]]].
      assert (Hind : In d (ichildren rit)) by (rewrite EM; apply in_or_app; right; left; reflexivity).
      assert (Hde : d <> e).
      { intros ->. unfold has_kind in Hd, He. rewrite Hge in Hd, He. rewrite Hke in Hd. discriminate. }
      assert (Hone : forall y, In y (ichildren rit) -> has_kind s KDt y = true -> y = d).
      { intros y Hy Ky. eapply (ti_one_dt s T rit y d Hr); assumption. }
      assert (Hdl1 : In d l1).
      { rewrite EL in Hind. apply in_app_or in Hind. destruct Hind as [X|[X|X]]; [exact X | congruence|]. exfalso.
        assert (Hnd1 : forall y, In y l1 -> has_kind s KDt y = false).
        { intros y Hy. destruct (has_kind s KDt y) eqn:E; [|reflexivity]. exfalso.
          assert (y = d) by (apply Hone; [rewrite EL; apply in_or_app; left; exact Hy | exact E]). subst y.
          rewrite EL in ND. apply (nodup_app_disjoint _ _ d ND Hy). right. exact X. }
        unfold K_el_before_dt in K2. rewrite DD in K2. unfold children_of in K2. rewrite Hr in K2.
        rewrite EL in K2. rewrite (find_skip _ l1 e l2) in K2; [congruence| |rewrite He; reflexivity].
        intros y Hy. rewrite (Hl1 y Hy), (Hnd1 y Hy). reflexivity. }
      apply in_split in Hdl1. destruct Hdl1 as [la [lb Ela]].
      assert (EL' : ichildren rit = la ++ d :: lb ++ e :: l2) by (rewrite EL, Ela, <- app_assoc; reflexivity).
      assert (Hnd : forall y, In y (la ++ lb ++ l2) -> has_kind s KDt y = false).
      { intros y Hy. destruct (has_kind s KDt y) eqn:E; [|reflexivity]. exfalso.
        assert (y = d).
        { apply Hone; [|exact E]. rewrite EL'. apply in_app_or in Hy. apply in_or_app. destruct Hy as [Hy|Hy]; [left; exact Hy|].
          right. right. apply in_app_or in Hy. apply in_or_app. destruct Hy as [Hy|Hy]; [left; exact Hy | right; right; exact Hy]. }
        subst y. rewrite EL' in ND. apply NoDup_remove_2 in ND. apply ND.
        apply in_app_or in Hy. apply in_or_app. destruct Hy as [Hy|Hy]; [left; exact Hy|]. right.
        apply in_app_or in Hy. apply in_or_app. destruct Hy as [Hy|Hy]; [left; exact Hy | right; right; exact Hy]. }
      assert (Hne1 : forall y, In y (la ++ lb) -> has_kind s KEl y = false).
      { intros y Hy. apply Hl1. rewrite Ela. apply in_app_or in Hy. apply in_or_app. destruct Hy; [left | right; right]; assumption. }
      destruct (Hch d Hind) as [dit [Hgd [_ [_ [_ _]]]]].
      assert (Hkd : ikind dit = KDt).
      { unfold has_kind in Hd. rewrite Hgd in Hd. destruct (kind_eqb_spec (ikind dit) KDt); [assumption | discriminate]. }
      assert (Egd : g d = [ItDocType x]).
      { unfold g. destruct f as [|f']; [lia|]. cbn [item_fuel]. rewrite Hgd, Hkd, Hx. reflexivity. }
      exists (Parts (flat_map g la) (Some x) (flat_map g lb) root (flat_map g l2)).
      cbn [dp_pre dp_dt dp_mid dp_root dp_post doc_children doc_version doc_encoding doc_standalone doc_of_store].
      split; [|split; [discriminate|split; [|split; [|split; [|split; [exact Iroot|split; [|split; [exact Hver|]]]]]]]].
      + rewrite Hitems, EL'. unfold parts_children. cbn [dp_pre dp_dt dp_mid dp_root dp_post].
        rewrite flat_map_app. cbn [flat_map]. rewrite Egd. rewrite flat_map_app. cbn [flat_map]. fold g in Eroot. rewrite Eroot.
        cbn [app]. rewrite <- ?app_assoc. reflexivity.
      + apply Forall_flat_map. intros c Hc. apply Hmisc.
        * rewrite EL'. apply in_or_app. left. exact Hc.
        * apply Hne1. apply in_or_app. left. exact Hc.
        * apply Hnd. apply in_or_app. left. exact Hc.
      + apply Forall_flat_map. intros c Hc. apply Hmisc.
        * rewrite EL'. apply in_or_app. right. right. apply in_or_app. left. exact Hc.
        * apply Hne1. apply in_or_app. right. exact Hc.
        * apply Hnd. apply in_or_app. right. apply in_or_app. left. exact Hc.
      + apply Forall_flat_map. intros c Hc. apply Hmisc.
        * rewrite EL'. apply in_or_app. right. right. apply in_or_app. right. right. exact Hc.
        * apply Hl2. exact Hc.
        * apply Hnd. apply in_or_app. right. apply in_or_app. right. exact Hc.
      + unfold ents, ext, ents_of, ext_of in Wroot. rewrite Hx in Wroot. exact Wroot.
      + intros x' Hx'. inversion Hx'; subst x'. apply Hdt. exact Hx.
    - (* without *)
      pose proof (hdr_no_doctype s H DD) as Hx. fold h in Hx.
      pose proof DD as DD'. unfold doc_decl, children_of in DD'. rewrite Hr in DD'.
      assert (Hnd : forall y, In y (ichildren rit) -> has_kind s KDt y = false) by (intros y Hy; apply (find_none _ _ DD' y Hy)).
      exists (Parts (flat_map g l1) None [] root (flat_map g l2)).
      cbn [dp_pre dp_dt dp_mid dp_root dp_post doc_children doc_version doc_encoding doc_standalone doc_of_store].
      split; [|split; [reflexivity|split; [|split; [constructor|split; [|split; [exact Iroot|split; [|split; [exact Hver|]]]]]]]].
      + rewrite Hitems, EL. unfold parts_children. cbn [dp_pre dp_dt dp_mid dp_root dp_post].
        rewrite flat_map_app. cbn [flat_map]. fold g in Eroot. rewrite Eroot. reflexivity.
      + apply Forall_flat_map. intros c Hc. apply Hmisc.
        * rewrite EL. apply in_or_app. left. exact Hc.
        * apply Hl1. exact Hc.
        * apply Hnd. rewrite EL. apply in_or_app. left. exact Hc.
      + apply Forall_flat_map. intros c Hc. apply Hmisc.
        * rewrite EL. apply in_or_app. right. right. exact Hc.
        * apply Hl2. exact Hc.
        * apply Hnd. rewrite EL. apply in_or_app. right. right. exact Hc.
      + unfold ents, ext, ents_of, ext_of in Wroot. rewrite Hx in Wroot. exact Wroot.
      + intros x' Hx'. discriminate.
  Qed.

  (** with the print -> parse direction of C04 *)
  Theorem store_roundtrip : from_raw (show_doc s) = OOk ([], doc_of_store s).
  Proof.
    rewrite <- (display_show_doc s T L H). apply print_parse_printable. exact store_doc_printable.
  Qed.
End Wf.
