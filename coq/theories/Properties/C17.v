(** C17 -- xe rewrites exactly the selected nodes; xq prints exactly the selection.

    Full statement (DESIGN 5.17):
      xe_effect : xe_model doc sel frag = Done d' -> replace_spec (ids sel) frag doc = Some d'
                  for selections of elements, attributes and the document node alike;
      xe_frame  : items outside the selected subtrees are unchanged;
      xq_output : xq prints the serialisations of the selected nodes, in order, one per line;
      cli_total : neither tool crashes.
    Proved here, for all documents, selections and replacements: xe_effect for every selection
    of elements and attributes, any number, any order, nested or not
    ([C17_xe_effect_elements_attributes]) and for the document node as the selected node
    ([C17_xe_effect_document]); the frame property of the specification for every selection
    ([C17_xe_frame]); xq_output.  xe_effect at full strength -- EVERY selection: the document node
    anywhere among elements and attributes, any number, any order, duplicates, identifiers that
    do not occur -- is [C17_xe_effect_any] (Proofs/XeAny.v); [C17_xe_outcome_cases] is the total
    case analysis of Done / Refused / Unmodelled, [C17_xe_done_iff], [C17_xe_refused_reasons],
    [C17_xe_unmodelled_reason], [C17_xe_done_excludes_reasons] say it without the loop, and
    [C17_xe_complete] is the converse direction (where replace_spec is defined the tool answers
    that document, or refuses for a listed reason, or is unmodelled).
    [C17_xe_refused_where_spec_defined] keeps the three shapes on which replace_spec is defined
    and the tool refuses although the replacement has nothing unsupported (the specification
    does not look at selected attributes below a replaced node, and does not see empty
    character data): no violation of xe_effect (which speaks about exit 0), recorded for the
    failing-input search, which counts "spec defined, tool refuses" as a failure.
    [C17_xe_done_iff_strict]: against the stricter reading [replace_spec_strict] (Spec/XeStrict.v:
    replace_spec plus "every selected attribute ANYWHERE in the document can hold the replacement"
    and "the document node holds the replacement as parsed") the tool answers a document exactly
    when the specification does, and the same one ([C17_xe_effect_strict], [C17_xe_strict_complete];
    [C17_strict_refines]: the strict reading only refuses more); [C17_xe_attr_needs_text]: markup
    for a selected attribute is never Done, wherever the attribute lies.
    Partial: cli_total is about process behaviour the model cannot exhibit (exit status, panic
    message on stderr: observed on the real binaries by the check). *)
From Coq Require Import List NArith Bool Arith.
From XmlRs Require Import Base.CPred Spec.XeSpec Spec.XeStrict Model.Cli Proofs.XeProofs Proofs.XeAny.
Import ListNotations.

Theorem C17_xe_effect_elements_partial :
  forall (d : xdoc) (ids : list nat) (frag : list fnode) (new : list xn),
  conv_list frag = Some (Some new) -> ~ In 0%nat ids -> did d = 0%nat ->
  Forall (attr_free ids) (dchildren d) -> existsb is_elem (dchildren d) = true ->
  exists d', xe_model d (map (fun i => (i, KElem)) ids) frag = Done d' /\ replace_spec ids frag d = Some d'.
Proof. exact xe_effect_elements. Qed.

Theorem C17_xe_effect_elements_attributes :
  forall (d : xdoc) (sel : list (nat * kind)) (frag : list fnode) (d' : xdoc),
  no_doc_other sel -> ~ In 0%nat (map fst sel) -> did d = 0%nat ->
  Forall (kinds_ok (rev (elems_of sel)) (rev (attrs_of sel))) (dchildren d) ->
  existsb is_elem (dchildren d) = true ->
  xe_model d sel frag = Done d' -> replace_spec (map fst sel) frag d = Some d'.
Proof. exact xe_effect_mixed. Qed.

Theorem C17_xe_effect_document :
  forall (d : xdoc) (frag : list fnode) (d' : xdoc),
  did d = 0%nat -> xe_model d [(0%nat, KDoc)] frag = Done d' -> replace_spec [0%nat] frag d = Some d'.
Proof. exact xe_effect_document. Qed.

Theorem C17_xe_frame : forall (S : list nat) (frag : list fnode) (n : xn), untouched S n -> rs S frag n = Some n.
Proof. exact rs_frame. Qed.

Theorem C17_xq_output : forall lines : list str, xq_model lines = xq_spec lines.
Proof. exact xq_output. Qed.

(** ** every selection (document node together with elements and attributes) *)
Theorem C17_xe_effect_any :
  forall (d : xdoc) (sel : list (nat * kind)) (frag : list fnode) (d' : xdoc),
  did d = 0%nat -> sel_wf sel ->
  (has_doc sel = false -> Forall (kinds_ok (rev (elems_of sel)) (rev (attrs_of sel))) (dchildren d)) ->
  xe_model d sel frag = Done d' -> replace_spec (map fst sel) frag d = Some d'.
Proof. exact xe_effect_any. Qed.

Theorem C17_xe_outcome_cases :
  forall (d : xdoc) (sel : list (nat * kind)) (frag : list fnode),
  match first_stop (map snd sel) frag with
  | Some SUnmodelled => xe_model d sel frag = Unmodelled
  | Some SRefused => xe_model d sel frag = Refused
  | None => if root_after d sel frag
            then exists d', xe_model d sel frag = Done d' /\ did d' = did d
            else xe_model d sel frag = Refused
  end.
Proof. exact xe_outcome_cases. Qed.

Theorem C17_xe_done_iff :
  forall (d : xdoc) (sel : list (nat * kind)) (frag : list fnode),
  (exists d', xe_model d sel frag = Done d') <->
  forallb (fun p => accepts (snd p) frag) sel = true /\ root_after d sel frag = true.
Proof. exact xe_done_iff. Qed.

Theorem C17_xe_refused_reasons :
  forall (d : xdoc) (sel : list (nat * kind)) (frag : list fnode),
  xe_model d sel frag = Refused ->
     has_other sel = true
  \/ ((has_elem sel || has_doc sel) = true /\ existsb unsupported frag = true)
  \/ (has_attr sel = true /\ frag_text frag = None)
  \/ (has_doc sel = true /\ forallb convertible frag = true /\ doc_children_ok (map conv frag) = false)
  \/ (has_doc sel = false /\ existsb is_elem (dchildren d) = false).
Proof. exact xe_refused_reasons. Qed.

Theorem C17_xe_unmodelled_reason :
  forall (d : xdoc) (sel : list (nat * kind)) (frag : list fnode),
  xe_model d sel frag = Unmodelled ->
  (has_elem sel || has_doc sel) = true /\ existsb prefixed frag = true.
Proof. exact xe_unmodelled_reason. Qed.

Theorem C17_xe_done_excludes_reasons :
  forall (d : xdoc) (sel : list (nat * kind)) (frag : list fnode) (d' : xdoc),
  xe_model d sel frag = Done d' ->
  has_other sel = false /\
  ((has_elem sel || has_doc sel) = true -> forallb convertible frag = true /\ existsb unsupported frag = false
                                           /\ existsb prefixed frag = false) /\
  (has_attr sel = true -> frag_text frag <> None) /\
  (has_doc sel = true -> doc_children_ok (map conv frag) = true) /\
  (has_doc sel = false -> existsb is_elem (dchildren d) = true).
Proof. exact xe_done_excludes_reasons. Qed.

Theorem C17_xe_complete :
  forall (d : xdoc) (sel : list (nat * kind)) (frag : list fnode) (d' : xdoc),
  did d = 0%nat -> sel_wf sel ->
  (has_doc sel = false -> Forall (kinds_ok (rev (elems_of sel)) (rev (attrs_of sel))) (dchildren d)) ->
  replace_spec (map fst sel) frag d = Some d' ->
  xe_model d sel frag = Done d' \/ xe_model d sel frag = Refused \/ xe_model d sel frag = Unmodelled.
Proof. exact xe_complete. Qed.

(** replace_spec defined, tool refuses, nothing unsupported in the replacement: the three shapes
    (`//a|//b/@p` with `<k/>` on `<r><a><b p="1"/></a></r>`; `/|//@p` with `<k/>` on `<r p="1"/>`;
    `/` with `<![CDATA[]]><k/>` on `<r/>`) *)
Theorem C17_xe_refused_where_spec_defined :
  (exists d sel frag d', did d = 0%nat /\ sel_wf sel /\
     Forall (kinds_ok (rev (elems_of sel)) (rev (attrs_of sel))) (dchildren d) /\
     has_doc sel = false /\ existsb unsupported frag = false /\
     xe_model d sel frag = Refused /\ replace_spec (map fst sel) frag d = Some d') /\
  (exists d sel frag d', did d = 0%nat /\ sel_wf sel /\ has_doc sel = true /\ has_attr sel = true /\
     existsb unsupported frag = false /\
     xe_model d sel frag = Refused /\ replace_spec (map fst sel) frag d = Some d') /\
  (exists d frag d', did d = 0%nat /\ existsb unsupported frag = false /\
     xe_model d [(0%nat, KDoc)] frag = Refused /\ replace_spec [0%nat] frag d = Some d').
Proof. exact xe_refused_where_spec_defined. Qed.

(** ** the stricter specification: Done exactly when it is defined *)
Theorem C17_strict_refines :
  forall (sel : list nat) (frag : list fnode) (d d' : xdoc),
  replace_spec_strict sel frag d = Some d' -> replace_spec sel frag d = Some d'.
Proof. exact strict_refines. Qed.

Theorem C17_xe_attr_needs_text :
  forall (d : xdoc) (sel : list (nat * kind)) (frag : list fnode) (d' : xdoc),
  has_attr sel = true -> frag_text frag = None -> xe_model d sel frag <> Done d'.
Proof. exact xe_attr_needs_text. Qed.

Theorem C17_xe_effect_strict :
  forall (d : xdoc) (sel : list (nat * kind)) (frag : list fnode) (d' : xdoc),
  dump_ok d sel ->
  xe_model d sel frag = Done d' -> replace_spec_strict (map fst sel) frag d = Some d'.
Proof. exact xe_effect_strict. Qed.

Theorem C17_xe_strict_complete :
  forall (d : xdoc) (sel : list (nat * kind)) (frag : list fnode) (d' : xdoc),
  did d = 0%nat -> sel_wf sel ->
  has_other sel = false ->
  ((has_elem sel || has_doc sel) = true -> forallb convertible frag = true) ->
  (has_attr sel = true -> existsb (attr_sel (map fst sel)) (dchildren d) = true) ->
  (has_doc sel = false -> existsb is_elem (dchildren d) = true) ->
  replace_spec_strict (map fst sel) frag d = Some d' ->
  exists d'', xe_model d sel frag = Done d''.
Proof. exact xe_strict_complete. Qed.

Theorem C17_xe_done_iff_strict :
  forall (d : xdoc) (sel : list (nat * kind)) (frag : list fnode) (d' : xdoc),
  dump_ok d sel ->
  has_other sel = false ->
  ((has_elem sel || has_doc sel) = true -> forallb convertible frag = true) ->
  (has_attr sel = true -> existsb (attr_sel (map fst sel)) (dchildren d) = true) ->
  (has_doc sel = false -> existsb is_elem (dchildren d) = true) ->
  (xe_model d sel frag = Done d' <-> replace_spec_strict (map fst sel) frag d = Some d').
Proof. exact xe_done_iff_strict. Qed.

Print Assumptions C17_xe_effect_elements_partial.
Print Assumptions C17_xe_effect_elements_attributes.
Print Assumptions C17_xe_effect_document.
Print Assumptions C17_xe_frame.
Print Assumptions C17_xq_output.
Print Assumptions C17_xe_effect_any.
Print Assumptions C17_xe_outcome_cases.
Print Assumptions C17_xe_done_iff.
Print Assumptions C17_xe_refused_reasons.
Print Assumptions C17_xe_unmodelled_reason.
Print Assumptions C17_xe_done_excludes_reasons.
Print Assumptions C17_xe_complete.
Print Assumptions C17_xe_refused_where_spec_defined.
Print Assumptions C17_strict_refines.
Print Assumptions C17_xe_attr_needs_text.
Print Assumptions C17_xe_effect_strict.
Print Assumptions C17_xe_strict_complete.
Print Assumptions C17_xe_done_iff_strict.
