(** * C01 -- well-formed documents are accepted and yield the infoset they denote.

    Full statements (DESIGN 5.1) over the model of the implementation:
      [parse_render : forall d c, valid d = true -> ok_choices d c = true ->
                        merged (from_raw_model (render d c)) = Ok ([], denote d)].
    [denote] does not take the choice oracle: independence of the result from the surface
    choices holds by construction, the content of the property is that the implementation
    agrees with [denote] on every rendering. *)
From Coq Require Import List NArith Bool.
From XmlRs Require Import Base.CPred Spec.XmlChars Spec.XmlWF Spec.Infoset.
Import ListNotations.

(** every oracle is an admissible choice of surface forms *)
Theorem all_choices_ok : forall d c, ok_choices d c = true.
Proof. reflexivity. Qed.
Print Assumptions all_choices_ok.
