(** * C01, [parse_render] on the side of the MODEL: the information set that the DOM accessors expose for the
    rendering of a valid abstract document is the one the document denotes.

    Rung (i), documents without a document type declaration: [dom_view_render_nodoctype]. *)
From Coq Require Import List NArith Arith Lia Bool.
From XmlRs Require Import Base.CPred Model.Peg Model.ParseActions Model.Info Model.DomView
  Proofs.XmlWFSyntaxLex Proofs.XmlWFSyntaxCheck Proofs.DomViewBase Proofs.DomViewDoc.
From XmlRs Require Spec.XmlWF Spec.Infoset Proofs.XmlWFSyntaxConvCheck Proofs.XmlWFSyntaxRenderDoc Proofs.XmlWFSyntaxRenderTokens Proofs.DomViewRender
  Proofs.XmlWFSyntaxDtd Proofs.XmlWFSyntaxDtdDoc Proofs.XmlWFSyntaxDtdCheck Proofs.XmlWFSyntaxConvDtdDoc Proofs.XmlWFSyntaxConvDtdCheck
  Proofs.XmlWFSyntaxRenderDtdDoc Proofs.XmlWFSyntaxRenderDtdWf Proofs.DomViewDtdDoc Proofs.DomViewRenderDtd.
Import ListNotations.
Local Open Scope N_scope.

Module R := Proofs.DomViewRender.

Lemma denote2_same (d : Infoset.adoc) : forallb nonempty_text (R.denote2 d) = true -> R.denote2 d = Infoset.denote d.
Proof.
  unfold R.denote2, Infoset.denote. destruct (W.check_doc (Infoset.to_xdoc d)) as [r|root]; [reflexivity|]. apply doc_tokens2_same.
Qed.

(** ** rung (i) *)
Theorem dom_view_render_nodoctype (d : Infoset.adoc) (c : Infoset.choices) (doc : document) :
  Infoset.valid d = true -> Infoset.a_doctype d = None -> from_raw (Infoset.render d c) = OOk ([], doc) ->
  dom_view false doc = Infoset.denote d
  /\ (R.has_empty_text (Infoset.a_root d) = false -> dom_view true doc = R.denote2 d)
  /\ (R.Known_WF14 d = false -> dom_view true doc = Infoset.denote d).
Proof.
  intros Hv Hdt H.
  destruct (Proofs.XmlWFSyntaxRenderDoc.render_wf_nodoctype d c Hv Hdt) as [Hwf Hnd].
  destruct (Proofs.XmlWFSyntaxConvCheck.wf_nodoctype_accepted _ Hwf Hnd) as (doc0 & Hdoc0 & Hn & Hk).
  destruct (dom_view_nodoctype _ doc H Hn Hk) as (xd & root & Hp & Hu & Hc & Hraw & Hmer).
  assert (Hm2 : R.has_empty_text (Infoset.a_root d) = false -> dom_view true doc = R.denote2 d).
  { intros Hne. destruct (R.render_infoset2_nodoctype d c Hv Hdt Hne) as (xd' & root' & Hp' & _ & Hc' & Ht').
    rewrite Hp in Hp'. injection Hp' as <-. rewrite Hc in Hc'. injection Hc' as <-. rewrite Hmer. exact Ht'. }
  split; [|split].
  - destruct (Proofs.XmlWFSyntaxRenderTokens.render_infoset_nodoctype d c Hv Hdt) as (xd' & root' & Hp' & _ & Hc' & Ht').
    rewrite Hp in Hp'. injection Hp' as <-. rewrite Hc in Hc'. injection Hc' as <-. rewrite Hraw. exact Ht'.
  - exact Hm2.
  - intros Hkn. unfold R.Known_WF14 in Hkn. apply orb_false_iff in Hkn. destruct Hkn as [Hne Hkn]. apply negb_false_iff in Hkn.
    rewrite (Hm2 Hne). apply denote2_same. exact Hkn.
Qed.

(** ** rungs (ii), (iii): with a document type declaration *)
Module RD := Proofs.DomViewRenderDtd.
Module DD := Proofs.DomViewDtdDoc.

Definition Known_C01 (d : Infoset.adoc) : bool := R.Known_WF14 d || RD.Known_ATTR d.

Theorem dom_view_render_dtd (d : Infoset.adoc) (c : Infoset.choices) dt (doc : document) :
  Infoset.valid d = true -> Infoset.a_doctype d = Some dt ->
  Proofs.XmlWFSyntaxRenderDtdWf.no_predef_decl (Infoset.opt_list (Infoset.ad_subset dt)) = true ->
  Proofs.XmlWFSyntaxRenderDtdWf.no_cdend (Infoset.opt_list (Infoset.ad_subset dt)) = true ->
  W.e_must_declare (W.doc_env (Infoset.to_xdoc d)) = true ->
  from_raw (Infoset.render d c) = OOk ([], doc) -> RD.Known_ATTR d = false ->
  dom_view false doc = Infoset.denote d
  /\ (R.has_empty_text (Infoset.a_root d) = false -> dom_view true doc = R.denote2 d)
  /\ (R.Known_WF14 d = false -> dom_view true doc = Infoset.denote d).
Proof.
  intros Hv Hdt Hnp Hcd Hmust H Hka.
  destruct (Proofs.XmlWFSyntaxRenderDtdWf.render_wf_dtd d c dt Hv Hdt Hnp) as [Hwf Hstrict].
  pose proof Hv as Hv0. unfold Infoset.valid in Hv0. apply andb_true_iff in Hv0. destruct Hv0 as [Hs _].
  destruct (Proofs.XmlWFSyntaxRenderDtdDoc.render_parse_dtd d c dt Hs Hdt) as (item & l' & Hrd & Hl' & Hq).
  pose proof (Proofs.XmlWFSyntaxConvDtdDoc.q_parse_document_spec _ _ Hq) as Hp.
  assert (Hdecls : forallb Infoset.decl_ok (Infoset.opt_list (Infoset.ad_subset dt)) = true).
  { pose proof Hs as Hs'. unfold Infoset.shape_ok in Hs'. rewrite Hdt in Hs'. apply andb_true_iff in Hs'. destruct Hs' as [_ Hs'].
    do 2 (apply andb_true_iff in Hs'; destruct Hs' as [Hs' _]). apply andb_true_iff in Hs'. tauto. }
  assert (Hconv : Proofs.XmlWFSyntaxConvDtdCheck.conv_hyps (Infoset.render d c) = true).
  { destruct (Proofs.XmlWFSyntaxRenderDtdWf.conv_hyps_read _ _ Hl' Hdecls Hcd) as [H1 H2].
    unfold Proofs.XmlWFSyntaxConvDtdCheck.conv_hyps. rewrite Hp. cbn [W.x_doctype W.dt_subset]. rewrite H1, H2, !andb_true_r.
    destruct d as [ver enc sa m1 dt0 m2 root m3]. cbn [Infoset.a_doctype] in Hdt. subst dt0. exact Hmust. }
  destruct (Proofs.XmlWFSyntaxConvDtdCheck.wf_accepted_side _ Hwf Hstrict Hconv) as [Hk _].
  destruct (Proofs.XmlWFSyntaxDtdCheck.accepted_syntax _ doc H Hk) as [pd [Hpp [Hb Hsyn]]].
  unfold Proofs.XmlWFSyntaxDtdCheck.KnownD04_doc in Hk. rewrite Hpp in Hk. apply negb_false_iff in Hk.
  pose proof (Proofs.XmlWFSyntaxDtdCheck.build_document_ok pd doc Hb Hk) as Hok.
  rewrite Hp in Hsyn. apply (f_equal (fun o => match o with Some x => x | None => Proofs.XmlWFSyntaxDtdDoc.x_doc pd end)) in Hsyn. cbv beta iota in Hsyn. rename Hsyn into Hxd.
  (* the typed document has the document type declaration that was read back *)
  destruct (pr_declaration_doc (d_prolog pd)) as [dd|] eqn:Hdd; [|pose proof (f_equal W.x_doctype Hxd) as E; unfold Proofs.XmlWFSyntaxDtdDoc.x_doc in E; cbn [W.x_doctype] in E; rewrite Hdd in E; discriminate E].
  assert (Hxdt : Proofs.XmlWFSyntaxDtdDoc.x_doctype dd = {| W.dt_name := Infoset.ad_name dt; W.dt_extid := W.extid_of (Infoset.ad_pub dt) (Infoset.ad_sys dt); W.dt_subset := l' |}).
  { pose proof (f_equal W.x_doctype Hxd) as E. unfold Proofs.XmlWFSyntaxDtdDoc.x_doc in E. cbn [W.x_doctype] in E. rewrite Hdd in E. cbn [option_map] in E.
    apply (f_equal (fun o => match o with Some x => x | None => Proofs.XmlWFSyntaxDtdDoc.x_doctype dd end)) in E. cbv beta iota in E. symmetry. exact E. }
  assert (Eext : option_map Proofs.XmlWFSyntaxDtd.x_extid (dd_external_id dd) = W.extid_of (Infoset.ad_pub dt) (Infoset.ad_sys dt)) by (apply (f_equal W.dt_extid) in Hxdt; exact Hxdt).
  assert (Esub : Proofs.XmlWFSyntaxDtdDoc.x_subset (dd_internal_subset dd) = l') by (apply (f_equal W.dt_subset) in Hxdt; exact Hxdt).
  assert (Emust : W.e_must_declare (W.doc_env (Proofs.XmlWFSyntaxDtdDoc.x_doc pd)) = true).
  { rewrite <- Hxd. destruct d as [ver enc sa m1 dt0 m2 root m3]. cbn [Infoset.a_doctype] in Hdt. subst dt0. exact Hmust. }
  assert (Hhyps : DD.dtd_hyps (W.e_must_declare (W.doc_env (Proofs.XmlWFSyntaxDtdDoc.x_doc pd))) (option_map Proofs.XmlWFSyntaxDtd.x_extid (dd_external_id dd))
                               (Proofs.XmlWFSyntaxDtdDoc.x_subset (dd_internal_subset dd))).
  { destruct (RD.hyps_read d dt l' Hs Hdt Hnp Hcd Hmust Hl') as [_ G2 G3 G4 G5 G6 G7]. rewrite Eext, Esub. constructor; assumption. }
  destruct (DD.view_doctype_pd pd doc dd (parsed_doc_ok _ _ _ Hpp) Hok Hb Hdd Hhyps) as (root & Hc & Hviews).
  (* the tree is good *)
  destruct (RD.render_good_dtd d c dt Hv Hdt Hnp Hka) as (xd1 & root1 & Hp1 & Hc1 & Hg1).
  assert (Exd1 : xd1 = Proofs.XmlWFSyntaxDtdDoc.x_doc pd) by (rewrite Hp in Hp1; apply (f_equal (fun o => match o with Some x => x | None => xd1 end)) in Hp1; cbv beta iota in Hp1; rewrite <- Hp1; exact Hxd).
  subst xd1. rewrite Hc in Hc1. injection Hc1 as <-.
  unfold Proofs.XmlWFSyntaxDtdDoc.x_doc in Hg1. cbn [W.x_doctype] in Hg1. rewrite Hdd in Hg1. cbn [option_map Proofs.XmlWFSyntaxDtdDoc.x_doctype W.dt_subset] in Hg1.
  destruct (Hviews Hg1) as [Hraw Hmer].
  assert (Hm2 : R.has_empty_text (Infoset.a_root d) = false -> dom_view true doc = R.denote2 d).
  { intros Hne. destruct (R.render_infoset2_dtd d c dt Hv Hdt Hnp Hne) as (xd2 & root2 & Hp2 & _ & Hc2 & Ht2).
    assert (Exd2 : xd2 = Proofs.XmlWFSyntaxDtdDoc.x_doc pd) by (rewrite Hp in Hp2; apply (f_equal (fun o => match o with Some x => x | None => xd2 end)) in Hp2; cbv beta iota in Hp2; rewrite <- Hp2; exact Hxd).
    subst xd2. rewrite Hc in Hc2. injection Hc2 as <-. rewrite Hmer. exact Ht2. }
  split; [|split].
  - destruct (Proofs.XmlWFSyntaxRenderTokens.render_infoset_dtd d c dt Hv Hdt Hnp) as (xd2 & root2 & Hp2 & _ & Hc2 & Ht2).
    assert (Exd2 : xd2 = Proofs.XmlWFSyntaxDtdDoc.x_doc pd) by (rewrite Hp in Hp2; apply (f_equal (fun o => match o with Some x => x | None => xd2 end)) in Hp2; cbv beta iota in Hp2; rewrite <- Hp2; exact Hxd).
    subst xd2. rewrite Hc in Hc2. injection Hc2 as <-. rewrite Hraw. exact Ht2.
  - exact Hm2.
  - intros Hkn. unfold R.Known_WF14 in Hkn. apply orb_false_iff in Hkn. destruct Hkn as [Hne Hkn]. apply negb_false_iff in Hkn.
    rewrite (Hm2 Hne). apply denote2_same. exact Hkn.
Qed.
