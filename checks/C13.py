"""C13 -- DOM mutators: DOM Level 1 effect, specified exceptions, atomic failure, no panic."""
import json
from . import lib, domlib as D, dom13 as S

TRUSTED = ['Coq 8.16.1 kernel + VM', 'Spec/DomL1.v: hand transcription of DOM Level 1 Core (readings R1-R6 in its header), extracted (ExtrOcamlBasic) into ocaml/specdomains/dom/dom.ml; Element.normalize: dom_normalize of the same file (reading R7) decides every NZ call, in the merged-text view the driver keeps its result class and expects the raw tree unchanged (C13_normalize_merged_view); the python reading spec_normalize of checks/dom13.py is a second oracle that must agree',
           'Model/Store.v + Model/DomOps.v: hand-written model of the repaired code, tied by the dom correspondence (campaign of C12/C14, re-used here)',
           'harness/src/domains/dom.rs (dump through the public DOM API, `+x` extension: owner document, qualified names)',
           'Model/DomFacts.v (string facts of a call computed by the parser model: extracted, ocaml/domains/domfacts/domfacts.ml) is compared with the `digest` of the harness on hand-picked, generator and random strings (checks/dom13.py facts_tie)',
           'python: checks/dom13.py rebuilds the abstract state from the dump (canon), compares with the spec driver']

def check(run):
    run.trusted = TRUSTED
    proved, _ = lib.proof_step(run, 'C13', ['-'])
    okr, mok, sok = lib.build_binaries(run, model_areas=['dom', 'domfacts'], spec_areas=['dom'])
    if okr and sok.get('dom'):
        s = S.campaign(run)
        run.evaluations = s['ops']
        run.hist = s['hist']
        run.samples = s['samples']
        run.nontrivial = set(range(s['nontrivial']))
        run.extra.update({'cases': s['cases'], 'campaign_cached': s.get('cached'), 'campaign_seconds': s['times'],
                          'deviating_calls_by_class': s['n13']})
        for c in s['crashes'][:3]:
            run.tie_breaks.append('harness produced no records: %s' % c['line'])
        # Element.normalize: every NZ call is decided by the extracted dom_normalize (Spec/DomL1.v, reading R7); the python
        # oracle spec_normalize of checks/dom13.py is evaluated on the same calls and must agree
        H = s['hist']
        run.extra['normalize_oracles'] = {'NZ_calls': H.get('normalize:calls', 0),
                                          'decided_by_extracted_dom_normalize': H.get('normalize:decided-by-extracted-dom_normalize', 0),
                                          'raw_view': H.get('normalize:view-r', 0), 'merged_view_expected_unchanged': H.get('normalize:view-m', 0),
                                          'python_oracle_agrees': H.get('normalize:oracles-agree', 0),
                                          'python_oracle_disagrees': H.get('normalize:oracles-disagree', 0)}
        for d in s.get('oracle_disagree', [])[:3]:
            run.tie_breaks.append('normalize oracles: %s on %s in view %s; history on %s: %s'
                                  % (d['detail'][:400], D.show_op(tuple(d['op'])), d['view'], d['docs'], ' ; '.join(D.show_op(tuple(o)) for o in d['ops'])))
        hits = {}
        for f in s['c13']:
            fid = S.classify13(f)
            if fid:
                if fid[0] not in hits:
                    g = S.shrink(f, 'c13')
                    hits[fid[0]] = fid[1] + '; e.g. ' + S.describe(g)
                continue
            g = S.shrink(f, 'c13')
            if S.classify13(g):
                continue
            run.failing_inputs.append(dict(g, property='C13', **{'class': '%s/%s/%s/%s' % (g['clause'], g['op'][0], g['impl'].split(':')[0], g['spec'].split(':')[0]),
                                                                  'what': S.describe(g)}))
        for k, v in hits.items():
            run.known_hits[k] = (v, s['n13'].get(k, 1))
        # model vs implementation (the tie of the theorems): the C12/C14 campaign
        if mok.get('dom'):
            t = D.campaign(run)
            run.extra['correspondence'] = {'cases': t['cases'], 'ops': t['ops'], 'mismatches': len(t['mismatches']), 'cached': t.get('cached')}
            for m in t['mismatches'][:2]:
                g = D.shrink_mismatch(m)
                p = run.write_replay('tie', dict(g, property='C13', what='model and implementation differ'))
                run.tie_breaks.append('dom correspondence: model and implementation differ after %s (replay %s)' % (D.describe_failure(g), p))
    # tie of Model/DomFacts.v (the string facts of the *_model_facts theorems, computed by the model of the parser)
    # with the facts the harness computes with the real parser
    if okr and mok.get('domfacts'):
        ft = S.facts_tie(run)
        run.extra['facts_tie'] = {'strings': ft['strings'], 'mismatches': len(ft['mismatches'])}
    return run.finish(level='proof',
        rule='calls executed on the implementation; for each, dom_step of the extracted Spec/DomL1.v is applied to the abstract state rebuilt from the previous dump and compared '
             '(result class, tree, attributes, data); failed calls: full dump before = after; distinct non-trivial = distinct (state, op) pairs whose result is not `na`',
        assumptions=['readings R1-R6 of Spec/DomL1.v (where DOM Level 1 is silent, order of exceptions, QNames, refusal of unstorable strings, document type cardinality, methods the Rust API does not offer)',
                     'documents without DTD-defaulted attributes', 'the handle table keeps every node alive'])

def replay(path):
    return S.replay_file(path, 'c13')
