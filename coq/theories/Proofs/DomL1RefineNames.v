(** * C13: refinement rungs "factories that take names", "processing instruction data",
    "set_node_value"

    The model does not parse: a name travels with the facts the implementation's parser derives
    from it ([n_elem], [n_attr], [n_pi], [n_ref]), the data of a processing instruction with the
    content the parser stores ([d_pi]).  The theorems assume that those facts are what the grammar
    of the specification says ([elem_name_agrees], [attr_name_agrees], [pi_target_agrees],
    [ref_name_agrees], [pi_data_agrees], together [op_facts_agree]) -- the agreement itself is the
    business of C02 / C18 and of the [dom] correspondence; the listed finding D04 (a name that
    starts with a NameChar that is no NameStartChar is accepted by create_processing_instruction /
    create_entity_reference) is a case in which the facts do NOT agree and is therefore outside
    these theorems.  Under the hypotheses:
    - create_element / create_attribute: a QName gives a new node with that nodeName, anything else
      INVALID_CHARACTER_ERR;
    - create_processing_instruction: a PITarget and data without the closing delimiter give a new
      node (white space before the data is a separator), anything else INVALID_CHARACTER_ERR;
    - create_entity_reference: INVALID_CHARACTER_ERR for a string that is no Name, refused for a
      name that is not declared, a new node otherwise;
    - set_data of a processing instruction; set_node_value on every node type (NO_DATA_ALLOWED_ERR on
      Document / Element, the value of an Attr, the data of Text / Comment / CDATASection / PI). *)
From Coq Require Import List NArith Bool Lia PeanoNat.
From XmlRs Require Import Base.CPred Base.NList Spec.XmlChars Model.Store Model.PrintableCheck Model.DomOps Proofs.DomBase Proofs.DomTree
  Proofs.DomOpsInv Proofs.CharDataProofs Proofs.DomL1Abs Proofs.DomL1Atomic Proofs.DomL1Refine Proofs.DomL1RefineInsert
  Proofs.DomL1RefineAttr Proofs.DomL1RefineValue Proofs.DomL1Frame Proofs.DomL1RefineSetAttr.
From XmlRs Require Spec.DomCharData Spec.DomL1.
Import ListNotations.
Open Scope N_scope.

(** ** the facts of the string arguments *)
Definition elem_name_agrees (n : name_info) : Prop := name_agrees (n_elem n) (n_str n).

Definition pi_target_agrees (n : name_info) : Prop :=
  match n_pi n with
  | Some t => t = n_str n /\ is_PITarget (n_str n) = true
  | None => is_PITarget (n_str n) = false
  end.

Definition ref_name_agrees (n : name_info) : Prop := n_ref n = is_Name (n_str n).

Definition pi_data_agrees (d : data_info) : Prop :=
  match d_pi d with
  | Some (Some c) => DomL1.storable_pi (d_str d) = true /\ c = DomL1.skip_space (d_str d)
  | Some None => DomL1.storable_pi (d_str d) = true /\ DomL1.skip_space (d_str d) = []
  | None => DomL1.storable_pi (d_str d) = false
  end.

Definition op_facts_agree (o : op) : Prop :=
  match o with
  | SetAttribute _ n v => attr_name_agrees n /\ value_facts_agree v
  | CreateElement _ n => elem_name_agrees n
  | CreateAttribute _ n => attr_name_agrees n
  | CreateProcessingInstruction _ t v => pi_target_agrees t /\ pi_data_agrees v
  | CreateEntityReference _ n => ref_name_agrees n
  | SetNodeValue _ v => value_facts_agree v /\ pi_data_agrees v
  | PISetData _ v => pi_data_agrees v
  | _ => True
  end.

(** ** entities that are declared at all *)
Lemma declared_some name : no_zero name -> forall ents,
  match option_map snd (find (fun e => DomL1.str_eqb (fst e) name) (map abs_ent ents)) with Some _ => true | None => false end
  = existsb (Store.str_eqb name) ents || existsb (Store.str_eqb (0 :: name)) ents.
Proof.
  intros Hn. induction ents as [|e t IH]; [reflexivity|].
  cbn [map find existsb].
  assert (Hcase : DomL1.str_eqb (fst (abs_ent e)) name = Store.str_eqb name e || Store.str_eqb (0 :: name) e).
  { apply eq_iff_eq_true. rewrite orb_true_iff, astr_eqb_eq, !DomBase.str_eqb_eq.
    destruct e as [|c e']; [cbn; split; [intros <-; left; reflexivity | intros [<-|X]; [reflexivity | discriminate]]|].
    destruct c as [|p]; cbn [abs_ent fst].
    - split; [intros <-; right; reflexivity | intros [X|X]; [exfalso; exact (Hn e' X) | inversion X; reflexivity]].
    - split; [intros <-; left; reflexivity | intros [X|X]; [symmetry; exact X | discriminate]]. }
  rewrite Hcase. destruct (Store.str_eqb name e) eqn:E1; destruct (Store.str_eqb (0 :: name) e) eqn:E2; cbn [orb option_map].
  1-3: destruct (existsb (Store.str_eqb name) t), (existsb (Store.str_eqb (0 :: name)) t); reflexivity.
  exact IH.
Qed.

Lemma entity_declared_abs s name : TreeInv s -> no_zero name ->
  DomL1.entity_declared (abs_store s) name = Store.entity_declared s name.
Proof.
  intros T Hn. unfold DomL1.entity_declared, Store.entity_declared, entity_known, DomL1.declared. rewrite (doctype_of_abs s T).
  change (existsb (DomL1.str_eqb name) DomL1.predefined_entities) with (existsb (Store.str_eqb name) predefined).
  unfold decl_ents.
  destruct (doc_decl s) as [d|]; [|cbn [existsb]; rewrite !orb_false_r; reflexivity].
  destruct (get s d) as [it|]; [|cbn [existsb option_map]; rewrite !orb_false_r; reflexivity].
  cbn [option_map abs_item DomL1.n_entities]. rewrite (declared_some name Hn).
  destruct (existsb (Store.str_eqb name) (ients it)), (existsb (Store.str_eqb name) predefined), (existsb (Store.str_eqb (0 :: name)) (ients it)); reflexivity.
Qed.

(** ** factories *)
Lemma named_factory_refines w (d : nref) facts (nm : str) k t :
  WInv w -> name_agrees facts nm -> (k = KEl \/ k = KAt) -> t = abs_type k ->
  let f := fun s => match facts with
                    | Some (p, l) => factory (fst d) s (new_item k p l [] false None)
                    | None => (s, Failed InvalidCharacterErr)
                    end in
  let g := fun dd => if is_QName nm then DomL1.make (abs w) (fst d) dd (DomL1.fresh_node t nm [])
                     else DomL1.raise (abs w) DomCharData.InvalidCharacterErr in
  abs (fst (on_document w d f)) = fst (DomL1.on_document (abs w) d g)
  /\ outcome_class (snd (on_document w d f)) = snd (DomL1.on_document (abs w) d g).
Proof.
  intros Hw Fn Hk Ht. cbn zeta. apply on_document_refines; [exact Hw|]. intros s D.
  unfold name_agrees in Fn. destruct facts as [[p l]|].
  - destruct Fn as [Fq Hq]. rewrite <- Fq, (is_QName_qn p l Hq).
    assert (E : DomL1.fresh_node t (qn p l) [] = abs_item (new_item k p l [] false None)) by (subst t; destruct Hk as [-> | ->]; reflexivity).
    rewrite E. apply (factory_refines w d s (new_item k p l [] false None) Hw D).
  - rewrite Fn. cbn [fst snd]. rewrite (set_doc_same w (fst d) s D). split; reflexivity.
Qed.

Theorem step_refines_partial_create_element : forall w d name,
  WInv w -> elem_name_agrees name -> refines_on w (CreateElement d name) (DomL1.ACreateElement d (n_str name)).
Proof.
  intros w d name Hw F. unfold refines_on. cbn [step DomL1.dom_step]. unfold DomL1.is_elem_name.
  apply (named_factory_refines w d (n_elem name) (n_str name) KEl DomL1.TElement Hw F (or_introl eq_refl) eq_refl).
Qed.

Theorem step_refines_partial_create_attribute : forall w d name,
  WInv w -> attr_name_agrees name -> refines_on w (CreateAttribute d name) (DomL1.ACreateAttribute d (n_str name)).
Proof.
  intros w d name Hw F. unfold refines_on. cbn [step DomL1.dom_step]. unfold DomL1.is_attr_name.
  apply (named_factory_refines w d (n_attr name) (n_str name) KAt DomL1.TAttr Hw F (or_intror eq_refl) eq_refl).
Qed.

Theorem step_refines_partial_create_pi : forall w d target data,
  WInv w -> pi_target_agrees target -> pi_data_agrees data ->
  refines_on w (CreateProcessingInstruction d target data) (DomL1.ACreateProcessingInstruction d (n_str target) (d_str data)).
Proof.
  intros w d target data Hw Ft Fd. unfold refines_on. cbn [step DomL1.dom_step].
  apply on_document_refines; [exact Hw|]. intros s D.
  unfold pi_target_agrees in Ft. unfold pi_data_agrees in Fd.
  destruct (n_pi target) as [t|].
  - destruct Ft as [-> Ft]. rewrite Ft. cbn [andb].
    destruct (d_pi data) as [[c|]|].
    + destruct Fd as [Fs ->]. rewrite Fs.
      apply (factory_refines w d s (new_item KPi None (n_str target) (DomL1.skip_space (d_str data)) true None) Hw D).
    + destruct Fd as [Fs Fe]. rewrite Fs, Fe.
      apply (factory_refines w d s (new_item KPi None (n_str target) [] false None) Hw D).
    + rewrite Fd. cbn [fst snd]. rewrite (set_doc_same w (fst d) s D). split; reflexivity.
  - rewrite Ft. cbn [andb fst snd]. rewrite (set_doc_same w (fst d) s D). split; reflexivity.
Qed.

Theorem step_refines_partial_create_entity_reference : forall w d name,
  WInv w -> ref_name_agrees name ->
  refines_on w (CreateEntityReference d name) (DomL1.ACreateEntityReference d (n_str name)).
Proof.
  intros w d name Hw F. unfold refines_on. cbn [step DomL1.dom_step].
  apply on_document_refines; [exact Hw|]. intros s D.
  pose proof (doc_at_P TreeInv w _ s Hw D) as T.
  unfold ref_name_agrees in F. rewrite F.
  destruct (is_Name (n_str name)) eqn:Nm; cbn [negb].
  - rewrite (entity_declared_abs s (n_str name) T (is_Name_no_zero _ Nm)).
    destruct (Store.entity_declared s (n_str name)).
    + apply (factory_refines w d s (new_item KEr None (n_str name) [] false None) Hw D).
    + cbn [fst snd]. rewrite (set_doc_same w (fst d) s D). split; reflexivity.
  - cbn [fst snd]. rewrite (set_doc_same w (fst d) s D). split; reflexivity.
Qed.

(** ** the data of a processing instruction *)
Lemma upd_node_some d i f n : DomL1.node d i = Some n -> DomL1.upd_node d i f = DomL1.set_node d i (f n).
Proof. intros H. unfold DomL1.upd_node. rewrite H. reflexivity. Qed.

Lemma pi_set_refines w (r : nref) s it v :
  WInv w -> doc_at w (fst r) = Some s -> get s (snd r) = Some it -> ikind it = KPi -> pi_data_agrees v ->
  let m := pi_set s (snd r) v in
  let a := DomL1.pi_set_data (abs w) r (abs_store s) (abs_item it) (d_str v) in
  abs (set_doc w (fst r) (fst m)) = fst a /\ outcome_class (snd m) = snd a.
Proof.
  intros Hw D Hit K F. cbn zeta. pose proof (doc_at_P TreeInv w _ s Hw D) as T.
  unfold pi_set, DomL1.pi_set_data. unfold pi_data_agrees in F.
  assert (G : forall c fl, abs_store (upd s (snd r) (with_data c fl)) = DomL1.set_node (abs_store s) (snd r) (DomL1.set_value c (abs_item it))).
  { intros c fl. rewrite <- (upd_node_some (abs_store s) (snd r) (DomL1.set_value c) (abs_item it)) by (rewrite (node_abs s _ T), Hit; reflexivity).
    apply abs_store_upd; [apply bounded_of_inv; exact T|]. intros it0 H0. rewrite Hit in H0. inversion H0; subst it0.
    unfold abs_item, abs_name, abs_value, DomL1.set_value. cbn. rewrite K. reflexivity. }
  destruct (d_pi v) as [[c|]|].
  - destruct F as [Fs ->]. rewrite Fs. cbn [fst snd]. split; [|reflexivity]. rewrite abs_set_doc. f_equal. apply G.
  - destruct F as [Fs Fe]. rewrite Fs, Fe. cbn [fst snd]. split; [|reflexivity]. rewrite abs_set_doc. f_equal. apply G.
  - rewrite F. cbn [fst snd]. rewrite (set_doc_same w (fst r) s D). split; reflexivity.
Qed.

Theorem step_refines_partial_pi_set_data : forall w (r : nref) v,
  WInv w -> pi_data_agrees v -> refines_on w (PISetData r v) (DomL1.APISetData r (d_str v)).
Proof.
  intros w r v Hw F. unfold refines_on. cbn [step DomL1.dom_step]. unfold on_node.
  rewrite doc_of_abs. change (@fst N N r) with (@fst N id r).
  destruct (doc_at w (fst r)) as [s|] eqn:D; cbn [option_map]; [|split; reflexivity].
  rewrite (aget_abs w r s Hw D). unfold kind_of. change (@snd N N r) with (@snd N id r).
  destruct (get s (snd r)) as [it|] eqn:Hit; cbn [option_map]; [|split; reflexivity].
  change (DomL1.n_type (abs_item it)) with (abs_type (ikind it)).
  destruct (kind_eqb_spec (ikind it) KPi) as [K|K].
  - rewrite K. cbn [abs_type].
    pose proof (pi_set_refines w r s it v Hw D Hit K F) as H. cbn zeta in H.
    destruct (pi_set s (snd r) v) as [s1 o]. exact H.
  - destruct (ikind it); try contradiction; cbn [abs_type fst snd]; rewrite (set_doc_same w (fst r) s D); split; reflexivity.
Qed.

(** ** set_node_value *)
Theorem step_refines_partial_set_node_value : forall w (r : nref) v,
  WInv w -> WEnts w -> value_facts_agree v -> pi_data_agrees v ->
  refines_on w (SetNodeValue r v) (DomL1.ASetNodeValue r (d_str v)).
Proof.
  intros w r v Hw He Fv Fp. unfold refines_on. cbn [step DomL1.dom_step]. unfold DomL1.set_node_value, on_node.
  rewrite doc_of_abs. change (@fst N N r) with (@fst N id r).
  destruct (doc_at w (fst r)) as [s|] eqn:D; cbn [option_map]; [|split; reflexivity].
  pose proof (doc_at_P TreeInv w _ s Hw D) as T. pose proof (doc_at_P EntsOK w _ s He D) as E.
  rewrite (aget_abs w r s Hw D). unfold kind_of. change (@snd N N r) with (@snd N id r).
  destruct (get s (snd r)) as [it|] eqn:Hit; cbn [option_map]; [|split; reflexivity].
  change (DomL1.n_type (abs_item it)) with (abs_type (ikind it)).
  assert (Hdata : chardata (ikind it) = true ->
            let m := replace_data s (snd r) (ikind it) 0 (DomOps.len (data_of s (snd r))) v in
            abs (set_doc w (fst r) (fst m)) = fst (DomL1.store_data (abs w) r (abs_store s) (abs_item it) (Some (d_str v)))
            /\ outcome_class (snd m) = snd (DomL1.store_data (abs w) r (abs_store s) (abs_item it) (Some (d_str v)))).
  { intros Hk. cbn zeta. unfold replace_data.
    assert (Hd : data_of s (snd r) = idata it) by (unfold data_of; rewrite Hit; reflexivity). rewrite Hd, mlen_len.
    pose proof (edit_refines w r s it 0 (NList.len (idata it)) (d_str v) Hw D Hit Hk) as H. cbn zeta in H.
    rewrite dom_replace_all in H. exact H. }
  destruct (ikind it) eqn:K; cbn [abs_type].
  - cbn [fst snd]. rewrite (set_doc_same w (fst r) s D). split; reflexivity.
  - cbn [fst snd]. rewrite (set_doc_same w (fst r) s D). split; reflexivity.
  - (* Attr *)
    assert (Ka : has_kind s KAt (snd r) = true) by (unfold has_kind; rewrite Hit, K; reflexivity).
    pose proof (set_values_refines s (snd r) v T E Ka Fv) as SV.
    destruct (DomL1.set_attr_value (abs_store s) (snd r) (d_str v)) as [d1|].
    + destruct SV as [s2 [SV1 SV2]]. rewrite SV1. cbn [fst snd]. split; [|reflexivity]. rewrite abs_set_doc, SV2. reflexivity.
    + rewrite SV. cbn [fst snd]. rewrite (set_doc_same w (fst r) s D). split; reflexivity.
  - specialize (Hdata eq_refl). cbn zeta in Hdata. destruct (replace_data s (snd r) KTx 0 (DomOps.len (data_of s (snd r))) v). exact Hdata.
  - specialize (Hdata eq_refl). cbn zeta in Hdata. destruct (replace_data s (snd r) KCd 0 (DomOps.len (data_of s (snd r))) v). exact Hdata.
  - cbn [fst snd]. rewrite (set_doc_same w (fst r) s D). split; reflexivity.
  - cbn [fst snd]. rewrite (set_doc_same w (fst r) s D). split; reflexivity.
  - pose proof (pi_set_refines w r s it v Hw D Hit K Fp) as H. cbn zeta in H.
    destruct (pi_set s (snd r) v) as [s1 o]. exact H.
  - specialize (Hdata eq_refl). cbn zeta in Hdata. destruct (replace_data s (snd r) KCm 0 (DomOps.len (data_of s (snd r))) v). exact Hdata.
  - cbn [fst snd]. rewrite (set_doc_same w (fst r) s D). split; reflexivity.
  - cbn [fst snd]. rewrite (set_doc_same w (fst r) s D). split; reflexivity.
Qed.
