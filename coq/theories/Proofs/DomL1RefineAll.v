(** * C13: the refinement theorem over all operations

    [step_refines_all]: for every world that satisfies the invariants, every mutator with every
    argument conforms to [DomL1.dom_step] -- outside the union [Known13] of the listed finding
    classes, and under the agreement of the string facts with the grammar ([op_facts_agree]).
    The state is compared from [pre_world w o]: [w] itself for every operation but [SetAttribute],
    for which it may hold the one unattached node that the implementation builds first
    ([Garbage], Proofs/DomL1RefineSetAttr.v); the outcome is the specification's outcome for [abs w].
    [step_refines_reachable]: the same in every world reachable from an initial one. *)
From Coq Require Import List NArith Bool Lia.
From XmlRs Require Import Base.CPred Model.Store Model.DomOps Proofs.DomBase Proofs.DomTree
  Proofs.DomOpsInv Proofs.DomPrintable Proofs.DomL1Abs Proofs.DomL1Atomic Proofs.DomL1NoPanic Proofs.DomL1Refine Proofs.DomL1RefineInsert
  Proofs.DomL1RefineAttr Proofs.DomL1RefineValue Proofs.DomL1Frame Proofs.DomL1RefineSetAttr Proofs.DomL1RefineInv
  Proofs.DomL1RefineSplit Proofs.DomL1RefineDoc Proofs.DomL1RefineNames.
From XmlRs Require Spec.DomCharData Spec.DomL1.
Import ListNotations.
Open Scope N_scope.

(** the union of the listed finding classes *)
Definition Known13 (w : world) (o : op) : bool :=
  Known42 o
  || match o with
     | AppendChild r n | InsertBefore r n _ => KnownDocMove w r n
     | ReplaceChild r n x => KnownDocMove w r n || KnownDocSwap w r n x
     | RemoveChild _ _ => KnownLeafRm w o
     | RemoveNamedItem r name => KnownNsHidden w r name
     | _ => false
     end.

Definition pre_world (w : world) (o : op) : world :=
  match o with
  | SetAttribute r name value => set_attribute_pre w r name value
  | _ => w
  end.

Lemma refines_conforms before ao after got :
  after = fst (DomL1.dom_step before ao) -> got = snd (DomL1.dom_step before ao) -> DomL1.conforms before ao after got.
Proof.
  intros H1 H2. unfold DomL1.conforms. destruct (snd (DomL1.dom_step before ao)) eqn:E; subst; try (split; reflexivity).
  split; [discriminate | right; reflexivity].
Qed.

Definition conforms_from (w : world) (o : op) (ao : DomL1.aop) : Prop :=
  Garbage w (pre_world w o)
  /\ DomL1.conforms (abs (pre_world w o)) ao (abs (fst (step w o))) (outcome_class (snd (step w o)))
  /\ snd (DomL1.dom_step (abs (pre_world w o)) ao) = snd (DomL1.dom_step (abs w) ao).

Lemma conforms_from_plain w o ao :
  pre_world w o = w -> DomL1.conforms (abs w) ao (abs (fst (step w o))) (outcome_class (snd (step w o))) -> conforms_from w o ao.
Proof. intros E H. unfold conforms_from. rewrite E. split; [left; reflexivity|]. split; [exact H | reflexivity]. Qed.

Lemma conforms_from_refines w o ao : pre_world w o = w -> refines_on w o ao -> conforms_from w o ao.
Proof. intros E [H1 H2]. apply conforms_from_plain; [exact E|]. apply refines_conforms; assumption. Qed.

Theorem step_refines_all : forall w o ao,
  WInv2 w -> WPrintable w -> op_facts_agree o -> Known13 w o = false -> abs_op o = Some ao -> conforms_from w o ao.
Proof.
  intros w o ao H2 Hp F Hk Ha. destruct (winv2_split w H2) as [Hw [Hu He]].
  unfold Known13 in Hk. apply orb_false_iff in Hk. destruct Hk as [K42 Hk].
  destruct o; cbn [abs_op] in Ha; inversion Ha; subst ao; clear Ha; cbn [op_facts_agree] in F.
  - apply conforms_from_plain; [reflexivity|]. apply step_refines_partial_append; assumption.
  - apply conforms_from_plain; [reflexivity|]. apply step_refines_partial_insert; assumption.
  - apply orb_false_iff in Hk. destruct Hk as [K1 K2].
    apply conforms_from_plain; [reflexivity|]. apply step_refines_partial_replace_any; assumption.
  - apply conforms_from_refines; [reflexivity|]. apply step_refines_partial_remove; assumption.
  - destruct F as [Fn Fv]. destruct (set_attribute_refines w r name value Hw Hp He Fn Fv) as [G [S1 [S2 S3]]]. cbn zeta in *.
    unfold conforms_from. cbn [pre_world]. split; [exact G|]. split; [apply refines_conforms; assumption | exact S3].
  - apply conforms_from_plain; [reflexivity|]. apply step_refines_partial_set_attribute_node; assumption.
  - apply conforms_from_plain; [reflexivity|]. apply step_refines_partial_remove_attribute; assumption.
  - apply conforms_from_refines; [reflexivity|]. apply step_refines_partial_remove_attribute_node; assumption.
  - apply conforms_from_plain; [reflexivity|]. apply step_refines_partial_set_named_item; assumption.
  - apply conforms_from_plain; [reflexivity|]. apply step_refines_partial_remove_named_item; assumption.
  - apply conforms_from_refines; [reflexivity|]. apply step_refines_partial_create_element; assumption.
  - apply conforms_from_refines; [reflexivity|]. apply step_refines_partial_create_attribute; assumption.
  - apply conforms_from_refines; [reflexivity|]. apply step_refines_partial_factories; try assumption; reflexivity.
  - apply conforms_from_refines; [reflexivity|]. apply step_refines_partial_factories; try assumption; reflexivity.
  - apply conforms_from_refines; [reflexivity|]. apply step_refines_partial_factories; try assumption; reflexivity.
  - destruct F as [Ft Fd]. apply conforms_from_refines; [reflexivity|]. apply step_refines_partial_create_pi; assumption.
  - apply conforms_from_refines; [reflexivity|]. apply step_refines_partial_create_entity_reference; assumption.
  - apply conforms_from_refines; [reflexivity|]. apply step_refines_partial_factories; try assumption; reflexivity.
  - destruct F as [Fv Fp]. apply conforms_from_refines; [reflexivity|]. apply step_refines_partial_set_node_value; assumption.
  - apply conforms_from_refines; [reflexivity|]. apply step_refines_partial_data; try assumption; reflexivity.
  - apply conforms_from_refines; [reflexivity|]. apply step_refines_partial_data; try assumption; reflexivity.
  - apply conforms_from_refines; [reflexivity|]. apply step_refines_partial_data; try assumption; reflexivity.
  - apply conforms_from_refines; [reflexivity|]. apply step_refines_partial_data; try assumption; reflexivity.
  - apply conforms_from_refines; [reflexivity|]. apply step_refines_partial_data; try assumption; reflexivity.
  - apply conforms_from_plain; [reflexivity|]. apply step_refines_partial_split_text; assumption.
  - apply conforms_from_refines; [reflexivity|]. apply step_refines_partial_pi_set_data; assumption.
Qed.

(** every reachable world: the invariants hold there (C12 and [run_inv2]; [WPrintable] is C15's
    invariant and needs C15's hypothesis on the facts of the history) *)
Theorem step_refines_reachable : forall init ops o ao,
  WInv2 init -> WPrintable init -> Forall op_facts_ok ops ->
  op_facts_agree o -> Known13 (run init ops) o = false -> abs_op o = Some ao ->
  conforms_from (run init ops) o ao.
Proof.
  intros init ops o ao H2 Hp Fh F Hk Ha. apply step_refines_all; try assumption.
  - apply run_inv2. exact H2.
  - apply printable_reachable; assumption.
Qed.

(** histories that carry no string facts at all (tree edits, attribute nodes, character data, text
    factories, split_text): no hypothesis about facts *)
Definition fact_free (o : op) : bool :=
  match o with
  | SetAttribute _ _ _ | CreateElement _ _ | CreateAttribute _ _ | CreateProcessingInstruction _ _ _
  | CreateEntityReference _ _ | SetNodeValue _ _ | PISetData _ _ => false
  | _ => true
  end.

Lemma fact_free_agree o : fact_free o = true -> op_facts_agree o.
Proof. destruct o; try discriminate; intros _; exact I. Qed.

Lemma fact_free_ok o : fact_free o = true -> op_facts_ok o.
Proof. destruct o; try discriminate; intros _; exact I. Qed.

Theorem step_refines_reachable_fact_free : forall init ops o ao,
  WInv2 init -> WPrintable init -> forallb fact_free ops = true -> fact_free o = true ->
  Known13 (run init ops) o = false -> abs_op o = Some ao ->
  DomL1.conforms (abs (run init ops)) ao (abs (fst (step (run init ops) o))) (outcome_class (snd (step (run init ops) o))).
Proof.
  intros init ops o ao H2 Hp Fh Fo Hk Ha.
  assert (Fh' : Forall op_facts_ok ops).
  { apply Forall_forall. intros x Hx. rewrite forallb_forall in Fh. apply fact_free_ok. apply Fh. exact Hx. }
  destruct (step_refines_reachable init ops o ao H2 Hp Fh' (fact_free_agree o Fo) Hk Ha) as [_ [C _]].
  assert (E : pre_world (run init ops) o = run init ops) by (destruct o; try discriminate; reflexivity).
  rewrite E in C. exact C.
Qed.
