(** * One induction over the evaluator for two invariants.

    Fix a well-formed table, a predicate [G] on nodes closed under navigation, conditions
    [pa] / [pn] / [pf] on axes, number literals and function names, and a proposition [Total].
    [inv GA m]: for every context, if [m] ends with a value the value satisfies [GA]; if it
    ends in [Panic] or [OutOfFuel] then [Total] is false.

    Instances (Proofs/XPathTotal.v, Proofs/XPathCanon.v):
    - [G := valid], [Total := True], number literals parse, no [substring]: the evaluator never
      panics and never runs out of fuel (C06);
    - [G := good] (valid and not a namespace node), no namespace axis, [Total := False]: every
      node of every node-set result is a good node (C07 needs it to turn key order into
      document order). *)
From Coq Require Import List NArith Bool Lia.
From XmlRs Require Import Base.CPred Base.NList Base.Float64.
From XmlRs Require Import Spec.XPathCore Model.XPathFuncs.
From XmlRs Require Import Model.XPathAst Model.XDoc Model.XPathScalar Model.XPathEval.
From XmlRs Require Import Proofs.XPathEvalEqs Proofs.XPathNav Proofs.XPathSort Proofs.XPathAstPred.
Import ListNotations.
Open Scope N_scope.

Lemma str_eqb_eq (a : str) : forall b, str_eqb a b = true -> a = b.
Proof.
  induction a as [|x a IH]; intros [|y b] H; cbn [str_eqb] in H; try discriminate; [reflexivity|].
  apply andb_prop in H. destruct H as [H1 H2]. apply N.eqb_eq in H1. subst. f_equal. apply IH. exact H2.
Qed.

Section Inv.
Variable doc : xdoc.
Hypothesis Hwf : DocWf doc.

Variable G : node -> Prop.
Hypothesis G_valid : forall i, G i -> valid doc i.
Hypothesis G_children : forall i c, G i -> In c (child_nodes doc i) -> G c.
Hypothesis G_attrs : forall i a, G i -> In a (attributes doc i) -> G a.
Hypothesis G_parent : forall i p, G i -> parent_node doc i = Some p -> G p.
Hypothesis G_root : G doc_root.

Variable pa : axis_spec -> bool.
Variable pn : str -> bool.
Variable pf : str -> bool.
Variable Total : Prop.

Hypothesis H_axis : forall a i, pa a = true -> G i -> is_ok (axis_nodes doc a i) (Forall G).
Hypothesis H_num : Total -> forall s, pn s = true -> rust_parse_f64 s <> None.
Hypothesis H_fn : Total -> forall sv local sargs mn mx,
  pf local = true -> find_func local = Some (mn, mx) -> mn <= len sargs ->
  scalar_fn sv local sargs <> RPanic.
Hypothesis H_fn_node : Total -> forall sv local sargs, scalar_fn sv local sargs <> RNeedsNode.

(** ** the invariant *)
Definition rinv {A} (GA : A -> Prop) (r : res A) : Prop :=
  match r with
  | Ok a => GA a
  | Err _ => True
  | Panic | OutOfFuel => ~ Total
  end.

Definition inv {A} (GA : A -> Prop) (m : M A) : Prop := forall c, rinv GA (fst (m c)).

Definition GV (v : xvalue) : Prop := match v with XNodes l => Forall G l | _ => True end.
Definition Any {A} (a : A) : Prop := True.

Lemma rinv_weaken {A} (P Q : A -> Prop) r : (forall a, P a -> Q a) -> rinv P r -> rinv Q r.
Proof. destruct r; cbn [rinv]; auto. Qed.

Lemma rinv_of_ok {A} (P : A -> Prop) r : is_ok r P -> rinv P r.
Proof. intros [a [-> Pa]]. exact Pa. Qed.

Lemma rinv_bind {A B} (r : res A) (f : A -> res B) (P : A -> Prop) (Q : B -> Prop) :
  rinv P r -> (forall a, P a -> rinv Q (f a)) -> rinv Q (bind r f).
Proof. destruct r; cbn [rinv bind]; auto. Qed.

Lemma inv_ret {A} (GA : A -> Prop) a : GA a -> inv GA (ret a).
Proof. intros H c. exact H. Qed.

Lemma inv_lift {A} (GA : A -> Prop) r : rinv GA r -> inv GA (lift r).
Proof. intros H c. exact H. Qed.

Lemma inv_bind {A B} (GA : A -> Prop) (GB : B -> Prop) (m : M A) (f : A -> M B) :
  inv GA m -> (forall a, GA a -> inv GB (f a)) -> inv GB (bindM m f).
Proof.
  intros Hm Hf c. unfold bindM. specialize (Hm c). destruct (m c) as [[a|e| |] c1]; cbn [fst rinv] in *.
  - apply Hf. exact Hm.
  - exact I.
  - exact Hm.
  - exact Hm.
Qed.

Lemma inv_weaken {A} (P Q : A -> Prop) (m : M A) : (forall a, P a -> Q a) -> inv P m -> inv Q m.
Proof. intros H Hm c. eapply rinv_weaken; [exact H|apply Hm]. Qed.

(** ** list plumbing *)
Lemma Forall_sort l : Forall G l -> Forall G (sort_by_key doc l).
Proof.
  intros H. apply Forall_forall. intros x Hx. rewrite Forall_forall in H. apply H.
  apply (proj1 (sort_in doc x l)). exact Hx.
Qed.

Lemma Forall_union_finish l : Forall G l -> Forall G (union_finish doc l).
Proof.
  intros H. apply Forall_forall. intros x Hx. rewrite Forall_forall in H. apply H.
  apply (union_finish_incl doc l x). exact Hx.
Qed.

Lemma Forall_axis_sort a l : Forall G l -> Forall G (axis_sort doc a l).
Proof.
  intros H. unfold axis_sort. destruct (is_reverse_axis a); [apply Forall_rev|]; apply Forall_sort; exact H.
Qed.

Lemma filter_res_incl (p : node -> res bool) l : forall r, filter_res p l = Ok r -> incl r l.
Proof.
  induction l as [|x t IH]; intros r H; cbn [filter_res] in H.
  - inversion H. apply incl_refl.
  - destruct (p x) as [b| | |]; cbn [bind] in H; try discriminate.
    destruct (filter_res p t) as [r'| | |]; cbn [bind] in H; try discriminate.
    inversion H; subst. specialize (IH r' eq_refl). destruct b.
    + intros y [->|Hy]; [left; reflexivity|right; apply IH; exact Hy].
    + intros y Hy. right. apply IH. exact Hy.
Qed.

Lemma filter_res_settled (p : node -> res bool) l :
  (forall x, p x <> Panic /\ p x <> OutOfFuel) ->
  filter_res p l <> Panic /\ filter_res p l <> OutOfFuel.
Proof.
  intros Hp. induction l as [|x t [IH1 IH2]]; cbn [filter_res]; [split; discriminate|].
  destruct (Hp x) as [H1 H2]. destruct (p x); cbn [bind]; try congruence; [|split; discriminate].
  destruct (filter_res p t); cbn [bind]; try congruence; split; discriminate.
Qed.

Lemma node_test_settled ns a t i :
  eval_node_test doc ns a t i <> Panic /\ eval_node_test doc ns a t i <> OutOfFuel.
Proof.
  unfold eval_node_test. destruct t as [nt|ty|target].
  - destruct (negb (is_principal_node_type doc a i)); [split; discriminate|].
    destruct nt as [|p|q].
    + split; discriminate.
    + destruct (ns_lookup ns (Some p)); [|split; discriminate].
      destruct (name_of doc i); split; discriminate.
    + destruct (name_of doc i); try (split; discriminate).
      unfold expanded_name. destruct q as [p l|u].
      * destruct (ns_lookup ns (Some p)); cbn [bind]; split; discriminate.
      * cbn [bind]. split; discriminate.
  - destruct ty; split; discriminate.
  - split; discriminate.
Qed.

(** ** the loops *)
Lemma pred_loop_inv (f : node -> M bool) :
  (forall n, G n -> inv Any (f n)) ->
  forall nodes pos, Forall G nodes -> inv (Forall G) (pred_loop f nodes pos).
Proof.
  intros Hf nodes. induction nodes as [|n t IH]; intros pos Hn c; cbn [pred_loop].
  - constructor.
  - inversion Hn as [|n' t' Gn Gt]; subst.
    pose proof (Hf n Gn (push_position pos c)) as H1.
    destruct (f n (push_position pos c)) as [[keep|e| |] c1]; cbn [fst rinv] in *; try exact H1.
    pose proof (IH (pos + 1) Gt (pop_position c1)) as H2.
    destruct (pred_loop f t (pos + 1) (pop_position c1)) as [[r|e| |] c2]; cbn [fst rinv] in *; try exact H2.
    destruct keep; [constructor; assumption|exact H2].
Qed.

Lemma flat_map_m_inv (f : node -> M (list node)) :
  (forall n, G n -> inv (Forall G) (f n)) ->
  forall l, Forall G l -> inv (Forall G) (flat_map_m f l).
Proof.
  intros Hf l. induction l as [|n t IH]; intros Hl; cbn [flat_map_m].
  - apply inv_ret. constructor.
  - inversion Hl as [|n' t' Gn Gt]; subst.
    apply (inv_bind (Forall G)); [apply Hf; exact Gn|]. intros a Ha.
    apply (inv_bind (Forall G)); [apply IH; exact Gt|]. intros b Hb.
    apply inv_ret. apply Forall_app. split; assumption.
Qed.

Lemma predicate_of_inv (ev : node -> M xvalue) n : inv GV (ev n) -> inv Any (predicate_of ev n).
Proof.
  intros H. unfold predicate_of. apply (inv_bind GV); [exact H|].
  intros v _ c. destruct v; exact I.
Qed.

(** ** conversions and comparisons never panic on nodes of the table *)
Lemma string_value_rinv i : G i -> rinv Any (string_value doc i).
Proof.
  intros Gi. destruct (string_value_ok doc Hwf i (G_valid i Gi)) as [s ->]. exact I.
Qed.

Lemma val_to_string_rinv v : GV v -> rinv Any (val_to_string doc v).
Proof.
  intros Hv. destruct v as [b|l|x|s]; cbn [val_to_string]; try exact I.
  destruct l as [|n t]; [exact I|]. inversion Hv; subst. apply string_value_rinv. assumption.
Qed.

Lemma val_to_string_ok v : GV v -> exists s, val_to_string doc v = Ok s.
Proof.
  intros Hv. destruct v as [b|l|x|s]; cbn [val_to_string]; try (eexists; reflexivity).
  destruct l as [|n t]; [eexists; reflexivity|]. inversion Hv; subst.
  apply (string_value_ok doc Hwf). apply G_valid. assumption.
Qed.

Lemma val_to_number_ok v : GV v -> exists x, val_to_number doc v = Ok x.
Proof.
  intros Hv. destruct v as [b|l|x|s]; cbn [val_to_number]; try (eexists; reflexivity).
  destruct (val_to_string_ok (XNodes l) Hv) as [s ->]. cbn [bind]. eexists; reflexivity.
Qed.

Lemma arith_rinv f a b : GV a -> GV b -> rinv GV (arith doc f a b).
Proof.
  intros Ha Hb. unfold arith.
  destruct (val_to_number_ok a Ha) as [x ->], (val_to_number_ok b Hb) as [y ->]. exact I.
Qed.

Lemma neg_value_rinv a : GV a -> rinv GV (neg_value doc a).
Proof. intros Ha. unfold neg_value. destruct (val_to_number_ok a Ha) as [x ->]. exact I. Qed.

Lemma neg_times_rinv k : forall a, GV a -> rinv GV (neg_times doc k a).
Proof.
  induction k as [|k IH]; intros a Ha; cbn [neg_times]; [exact Ha|].
  eapply rinv_bind; [apply neg_value_rinv; exact Ha|]. intros b Hb. apply IH. exact Hb.
Qed.

Lemma exists_sv_rinv p l : Forall G l -> rinv Any (exists_sv doc p l).
Proof.
  induction l as [|i t IH]; intros H; cbn [exists_sv]; [exact I|].
  inversion H as [|i' t' Gi Gt]; subst.
  destruct (string_value_ok doc Hwf i (G_valid i Gi)) as [s ->]. cbn [bind].
  destruct (p s); [exact I|apply IH; exact Gt].
Qed.

Lemma exists_sv2_rinv p b vs : Forall G b -> Forall G vs -> rinv Any (exists_sv2 doc p b vs).
Proof.
  intros Hb Hvs. induction b as [|i t IH]; cbn [exists_sv2]; [exact I|].
  inversion Hb as [|i' t' Gi Gt]; subst.
  destruct (string_value_ok doc Hwf i (G_valid i Gi)) as [si ->].
  match goal with |- rinv _ (bind ?inner _) => assert (Hin : rinv Any inner) end.
  { clear IH. induction vs as [|j vt IHv]; [exact I|]. inversion Hvs as [|j' vt' Gj Gvt]; subst.
    destruct (string_value_ok doc Hwf j (G_valid j Gj)) as [sj ->]. cbn [bind].
    destruct (p sj si); [exact I|apply IHv; exact Gvt]. }
  eapply rinv_bind; [exact Hin|]. intros r _. destruct r; [exact I|apply IH; exact Gt].
Qed.

Lemma eq_node_rinv neq a b : GV a -> Forall G b -> rinv Any (eq_node doc neq a b).
Proof.
  intros Ha Hb. destruct a as [x|vs|x|s]; cbn [eq_node]; try exact I.
  - apply exists_sv2_rinv; assumption.
  - apply exists_sv_rinv; assumption.
  - apply exists_sv_rinv; assumption.
Qed.

Lemma eq_value_rinv neq a b : GV a -> GV b -> rinv Any (eq_value doc neq a b).
Proof.
  intros Ha Hb. unfold eq_value.
  destruct a as [x|la|x|s]; try (apply eq_node_rinv; assumption);
    destruct b as [y|lb|y|t]; try (apply eq_node_rinv; assumption); cbn; exact I.
Qed.

Lemma rel_node_rinv op a b : GV a -> Forall G b -> rinv Any (rel_node doc op a b).
Proof.
  intros Ha Hb. destruct a as [x|vs|x|s]; cbn [rel_node]; try exact I.
  - apply exists_sv2_rinv; assumption.
  - apply exists_sv_rinv; assumption.
  - apply exists_sv_rinv; assumption.
Qed.

Lemma rel_value_rinv op a b : GV a -> GV b -> rinv Any (rel_value doc op a b).
Proof.
  intros Ha Hb. unfold rel_value.
  destruct b as [y|lb|y|t]; try (apply rel_node_rinv; assumption);
    destruct a as [x|la|x|s]; try (apply rel_node_rinv; assumption); cbn; exact I.
Qed.

(** ** function calls *)
Lemma sum_nodes_rinv l : forall acc, Forall G l -> rinv Any (sum_nodes doc acc l).
Proof.
  induction l as [|x t IH]; intros acc H; cbn [sum_nodes]; [exact I|].
  inversion H as [|x' t' Gx Gt]; subst.
  destruct (string_value_ok doc Hwf x (G_valid x Gx)) as [s ->]. cbn [bind]. apply IH. exact Gt.
Qed.

Lemma to_scalars_ok need vs : Forall GV vs -> exists l, to_scalars doc need vs = Ok l /\ len l = len vs.
Proof.
  induction vs as [|v t IH]; intros H; cbn [to_scalars]; [exists []; split; reflexivity|].
  inversion H as [|v' t' Hv0 Ht0]; subst. destruct (IH Ht0) as [l [El Hl]].
  assert (Hv : exists a, to_scalar doc need v = Ok a).
  { destruct v as [b|ns|x|s]; cbn [to_scalar]; try (eexists; reflexivity).
    destruct ns as [|n ns']; [eexists; reflexivity|]. destruct need; [|eexists; reflexivity].
    inversion Hv0 as [|n' ns'' Gn Gns]; subst. destruct (string_value_ok doc Hwf n (G_valid n Gn)) as [s ->].
    cbn [bind]. eexists; reflexivity. }
  destruct Hv as [a ->]. rewrite El. cbn [bind]. exists (a :: l). split; [reflexivity|].
  cbn [len]. rewrite Hl. reflexivity.
Qed.

Lemma fn_names_rinv which vs n : G n -> rinv GV (fn_names doc which vs n).
Proof.
  intros Gn. unfold fn_names.
  destruct (name_arg vs n) as [l|e| |] eqn:E; cbn [bind].
  - destruct l as [|x t]; [exact I|]. destruct (name_of doc x) as [| |local prefix uri]; try exact I.
    destruct (which =? 0); [exact I|]. destruct (which =? 1); [exact I|].
    destruct prefix as [p|]; [|exact I]. destruct (str_eqb p s_xmlns); exact I.
  - exact I.
  - unfold name_arg in E. destruct vs as [|[] ?]; discriminate.
  - unfold name_arg in E. destruct vs as [|[] ?]; discriminate.
Qed.

Lemma resolve_fn_arity ns name nargs local :
  resolve_fn ns name nargs = Ok local ->
  local = qname_local name /\
  exists mn mx, find_func local = Some (mn, mx) /\ mn <= nargs.
Proof.
  unfold resolve_fn, fn_key, expanded_name. intros H.
  assert (Hcore : forall (l : str) (uri : option str),
    match uri, find_func l with
    | None, Some (mn, mx) =>
        if (nargs <? mn) || match mx with Some m => m <? nargs | None => false end
        then Err (XErrInvalidArgumentCount l) else Ok l
    | _, _ => Err (XErrNotFoundFunction l)
    end = Ok local -> local = l /\ exists mn mx, find_func local = Some (mn, mx) /\ mn <= nargs).
  { intros l uri E. destruct uri; [discriminate|]. destruct (find_func l) as [[mn mx]|] eqn:Ef; [|discriminate].
    destruct (N.ltb_spec nargs mn) as [Hlt|Hge]; cbn [orb] in E; [discriminate|].
    destruct (match mx with Some m => m <? nargs | None => false end); [discriminate|].
    inversion E; subst. split; [reflexivity|]. exists mn, mx. split; [exact Ef|exact Hge]. }
  destruct name as [p l|u]; cbn [qname_local].
  - destruct (ns_lookup ns (Some p)); cbn [bind] in H; [|discriminate]. apply (Hcore l (Some s)). exact H.
  - cbn [bind] in H. apply (Hcore u None). exact H.
Qed.

Lemma exec_fn_inv local vs n mn mx :
  G n -> Forall GV vs -> pf local = true -> find_func local = Some (mn, mx) -> mn <= len vs ->
  inv GV (exec_fn doc local vs n).
Proof.
  intros Gn Hvs Hpf Hfind Harity c. unfold exec_fn.
  destruct (str_eqb local fn_last) eqn:E1; [exact I|].
  destruct (str_eqb local fn_position) eqn:E2; [exact I|].
  destruct (str_eqb local fn_count) eqn:E3.
  { apply str_eqb_eq in E3. subst local. vm_compute in Hfind. inversion Hfind; subst mn mx.
    destruct vs as [|v t]; [cbn [len] in Harity; lia|]. destruct v; exact I. }
  destruct (str_eqb local fn_id) eqn:E4.
  { cbn [fst]. destruct (root_of doc n); [constructor|]. destruct (has_doctype doc n0); [exact I|constructor]. }
  destruct (str_eqb local fn_local_name) eqn:E5; [apply fn_names_rinv; exact Gn|].
  destruct (str_eqb local fn_namespace_uri) eqn:E6; [apply fn_names_rinv; exact Gn|].
  destruct (str_eqb local fn_name) eqn:E7; [apply fn_names_rinv; exact Gn|].
  destruct (str_eqb local fn_lang) eqn:E8.
  { apply str_eqb_eq in E8. subst local. vm_compute in Hfind. inversion Hfind; subst mn mx.
    destruct vs as [|v t]; [cbn [len] in Harity; lia|]. inversion Hvs as [|v' t' Hv Ht]; subst. cbn [fst].
    destruct (val_to_string_ok v Hv) as [s ->]. cbn [bind].
    destruct (lang_fuel_ok doc Hwf (map ascii_lower s) (nav_fuel doc) n (G_valid n Gn)) as [b ->]; [|exact I].
    unfold nav_fuel. pose proof (G_valid n Gn) as V. unfold valid in V. lia. }
  destruct (str_eqb local fn_sum) eqn:E9.
  { apply str_eqb_eq in E9. subst local. vm_compute in Hfind. inversion Hfind; subst mn mx.
    destruct vs as [|v t]; [cbn [len] in Harity; lia|]. inversion Hvs as [|v' t' Hv Ht]; subst. cbn [fst].
    destruct v; try exact I. eapply rinv_bind; [apply sum_nodes_rinv; exact Hv|]. intros; exact I. }
  cbn [fst].
  destruct (to_scalars_ok (negb (str_eqb local fn_boolean || str_eqb local fn_not)) vs Hvs) as [sargs [-> Hlen]].
  cbn [bind].
  match goal with |- rinv _ (bind ?r _) => assert (Hsv : exists s, r = Ok s) end.
  { destruct vs; [|eexists; reflexivity].
    destruct (uses_ctx_sv local); [|eexists; reflexivity].
    apply (string_value_ok doc Hwf). apply G_valid. exact Gn. }
  destruct Hsv as [sv ->]. cbn [bind].
  destruct (scalar_fn sv local sargs) as [v|e| |] eqn:Es; cbn [rinv]; try exact I.
  - destruct v; cbn [of_scalar GV]; try exact I. constructor.
  - destruct e; exact I.
  - intros HT. eapply (H_fn HT sv local sargs mn mx); try eassumption. rewrite Hlen. exact Harity.
  - intros HT. eapply (H_fn_node HT sv local sargs); eassumption.
Qed.

(** ** the induction *)
Notation okx f := (f pa pn pf).

Definition Q_or (e : or_expr) := okx ok_or e = true -> forall n, G n -> inv GV (eval_or_expr doc e n).
Definition Q_and_list (l : and_list) := okx ok_and_list l = true ->
  forall op1 n, GV op1 -> G n -> inv GV (eval_or_rest doc l op1 n).
Definition Q_and (e : and_expr) := okx ok_and e = true -> forall n, G n -> inv GV (eval_and_expr doc e n).
Definition Q_eq_list (l : eq_list) := okx ok_eq_list l = true ->
  forall op1 n, GV op1 -> G n -> inv GV (eval_and_rest doc l op1 n).
Definition Q_eq (e : eq_expr) := okx ok_eq e = true -> forall n, G n -> inv GV (eval_eq_expr doc e n).
Definition Q_eqop_list (l : eqop_list) := okx ok_eqop_list l = true ->
  forall op1 n, GV op1 -> G n -> inv GV (eval_eq_ops doc l op1 n).
Definition Q_rel (e : rel_expr) := okx ok_rel e = true -> forall n, G n -> inv GV (eval_rel_expr doc e n).
Definition Q_relop_list (l : relop_list) := okx ok_relop_list l = true ->
  forall op1 n, GV op1 -> G n -> inv GV (eval_rel_ops doc l op1 n).
Definition Q_add (e : add_expr) := okx ok_add e = true -> forall n, G n -> inv GV (eval_add_expr doc e n).
Definition Q_addop_list (l : addop_list) := okx ok_addop_list l = true ->
  forall op1 n, GV op1 -> G n -> inv GV (eval_add_ops doc l op1 n).
Definition Q_mul (e : mul_expr) := okx ok_mul e = true -> forall n, G n -> inv GV (eval_mul_expr doc e n).
Definition Q_mulop_list (l : mulop_list) := okx ok_mulop_list l = true ->
  forall op1 n, GV op1 -> G n -> inv GV (eval_mul_ops doc l op1 n).
Definition Q_unary (e : unary_expr) := okx ok_unary e = true -> forall n, G n -> inv GV (eval_unary_expr doc e n).
Definition Q_union (e : union_expr) := okx ok_union e = true -> forall n, G n -> inv GV (eval_union_expr doc e n).
Definition Q_path_list (l : path_list) := okx ok_path_list l = true ->
  (forall acc n, Forall G acc -> G n -> inv GV (eval_union_rest doc l acc n)) /\
  (forall n, G n -> inv GV (eval_union_expr doc (EUnion l) n)).
Definition Q_path (e : path_expr) := okx ok_path e = true -> forall n, G n -> inv GV (eval_path_expr doc e n).
Definition Q_filter (e : filter_expr) := okx ok_filter e = true -> forall n, G n -> inv GV (eval_filter_expr doc e n).
Definition Q_primary (e : primary_expr) := okx ok_primary e = true -> forall n, G n -> inv GV (eval_primary_expr doc e n).
Definition Q_expr_list (l : expr_list) := okx ok_expr_list l = true ->
  (forall n, G n -> inv (fun vs => Forall GV vs /\ len vs = expr_list_len l) (eval_args doc l n)) /\
  (forall nodes, Forall G nodes -> inv (Forall G) (eval_predicates doc l nodes)).
Definition Q_rel_path (e : rel_path) := okx ok_rel_path e = true -> forall n, G n -> inv (Forall G) (eval_rel_path doc e n).
Definition Q_stepop_list (l : stepop_list) := okx ok_stepop_list l = true ->
  forall nodes, Forall G nodes -> inv (Forall G) (eval_stepops doc l nodes).
Definition Q_step (s : step) := okx ok_step s = true -> forall n, G n -> inv (Forall G) (eval_step doc s n).

Lemma inv_match_nodes {A} (GA : A -> Prop) (v : xvalue) (f : list node -> M A) (g : M A) :
  GV v -> (forall l, Forall G l -> inv GA (f l)) -> inv GA g ->
  inv GA (match v with XNodes l => f l | _ => g end).
Proof. intros Hv Hf Hg. destruct v; auto. Qed.

Lemma inv_err {A} (GA : A -> Prop) e : inv GA (lift (Err e)).
Proof. intros c. exact I. Qed.

Lemma desc_lift_inv (op : lp_op) (l : list node) : Forall G l ->
  inv (Forall G) (lift (match op with
                        | LpCurrent => Ok l
                        | LpDescendantOrSelfNode => flat_map_res (descendant_and_self doc) l
                        end)).
Proof.
  intros Hl. apply inv_lift. destruct op; [exact Hl|].
  apply rinv_of_ok. apply (descendant_and_self_all_ok doc Hwf G); assumption.
Qed.

Ltac split_ok H :=
  cbn [ok_or ok_and_list ok_and ok_eq_list ok_eq ok_eqop_list ok_rel ok_relop_list ok_add
       ok_addop_list ok_mul ok_mulop_list ok_unary ok_union ok_path_list ok_path ok_filter
       ok_primary ok_expr_list ok_rel_path ok_stepop_list ok_step] in H;
  repeat match type of H with
         | _ && _ = true => let H1 := fresh "Hok" in apply andb_prop in H; destruct H as [H1 H]
         end.

Theorem eval_inv_all :
  (forall e, Q_or e) /\ (forall l, Q_and_list l) /\ (forall e, Q_and e) /\ (forall l, Q_eq_list l) /\
  (forall e, Q_eq e) /\ (forall l, Q_eqop_list l) /\ (forall e, Q_rel e) /\ (forall l, Q_relop_list l) /\
  (forall e, Q_add e) /\ (forall l, Q_addop_list l) /\ (forall e, Q_mul e) /\ (forall l, Q_mulop_list l) /\
  (forall e, Q_unary e) /\ (forall e, Q_union e) /\ (forall l, Q_path_list l) /\ (forall e, Q_path e) /\
  (forall e, Q_filter e) /\ (forall e, Q_primary e) /\ (forall l, Q_expr_list l) /\
  (forall e, Q_rel_path e) /\ (forall l, Q_stepop_list l) /\ (forall s, Q_step s).
Proof.
  apply ast_mutind;
    unfold Q_or, Q_and_list, Q_and, Q_eq_list, Q_eq, Q_eqop_list, Q_rel, Q_relop_list, Q_add,
      Q_addop_list, Q_mul, Q_mulop_list, Q_unary, Q_union, Q_path_list, Q_path, Q_filter,
      Q_primary, Q_expr_list, Q_rel_path, Q_stepop_list, Q_step.
  - (* EOr *) intros f Hf r Hr Hok n Gn. split_ok Hok. rewrite eval_or_expr_eq.
    apply (inv_bind GV); [apply Hf; assumption|]. intros op1 H1. apply Hr; assumption.
  - intros _ op1 n H1 Gn. rewrite eval_or_rest_nil. apply inv_ret. exact H1.
  - intros a Ha t Ht Hok op1 n H1 Gn. split_ok Hok. rewrite eval_or_rest_cons.
    destruct (val_to_bool op1); [apply inv_ret; exact I|].
    apply (inv_bind GV); [apply Ha; assumption|]. intros v Hv. apply Ht; [assumption|exact I|assumption].
  - (* EAnd *) intros f Hf r Hr Hok n Gn. split_ok Hok. rewrite eval_and_expr_eq.
    apply (inv_bind GV); [apply Hf; assumption|]. intros op1 H1. apply Hr; assumption.
  - intros _ op1 n H1 Gn. rewrite eval_and_rest_nil. apply inv_ret. exact H1.
  - intros a Ha t Ht Hok op1 n H1 Gn. split_ok Hok. rewrite eval_and_rest_cons.
    destruct (negb (val_to_bool op1)); [apply inv_ret; exact I|].
    apply (inv_bind GV); [apply Ha; assumption|]. intros v Hv. apply Ht; [assumption|exact I|assumption].
  - (* EEq *) intros o Ho ops Hops Hok n Gn. split_ok Hok. rewrite eval_eq_expr_eq.
    apply (inv_bind GV); [apply Ho; assumption|]. intros op1 H1. apply Hops; assumption.
  - intros _ op1 n H1 Gn. rewrite eval_eq_ops_nil. apply inv_ret. exact H1.
  - intros op e He t Ht Hok op1 n H1 Gn. split_ok Hok. rewrite eval_eq_ops_cons.
    apply (inv_bind GV); [apply He; assumption|]. intros op2 H2.
    apply (inv_bind Any); [apply inv_lift; apply eq_value_rinv; assumption|]. intros r _.
    apply Ht; [assumption|exact I|assumption].
  - (* ERel *) intros o Ho ops Hops Hok n Gn. split_ok Hok. rewrite eval_rel_expr_eq.
    apply (inv_bind GV); [apply Ho; assumption|]. intros op1 H1. apply Hops; assumption.
  - intros _ op1 n H1 Gn. rewrite eval_rel_ops_nil. apply inv_ret. exact H1.
  - intros op e He t Ht Hok op1 n H1 Gn. split_ok Hok. rewrite eval_rel_ops_cons.
    apply (inv_bind GV); [apply He; assumption|]. intros op2 H2.
    apply (inv_bind Any); [apply inv_lift; apply rel_value_rinv; assumption|]. intros r _.
    apply Ht; [assumption|exact I|assumption].
  - (* EAdd *) intros o Ho ops Hops Hok n Gn. split_ok Hok. rewrite eval_add_expr_eq.
    apply (inv_bind GV); [apply Ho; assumption|]. intros op1 H1. apply Hops; assumption.
  - intros _ op1 n H1 Gn. rewrite eval_add_ops_nil. apply inv_ret. exact H1.
  - intros op e He t Ht Hok op1 n H1 Gn. split_ok Hok. rewrite eval_add_ops_cons.
    apply (inv_bind GV); [apply He; assumption|]. intros op2 H2.
    apply (inv_bind GV); [apply inv_lift; apply arith_rinv; assumption|]. intros r Hr.
    apply Ht; assumption.
  - (* EMul *) intros o Ho ops Hops Hok n Gn. split_ok Hok. rewrite eval_mul_expr_eq.
    apply (inv_bind GV); [apply Ho; assumption|]. intros op1 H1. apply Hops; assumption.
  - intros _ op1 n H1 Gn. rewrite eval_mul_ops_nil. apply inv_ret. exact H1.
  - intros op e He t Ht Hok op1 n H1 Gn. split_ok Hok. rewrite eval_mul_ops_cons.
    apply (inv_bind GV); [apply He; assumption|]. intros op2 H2.
    apply (inv_bind GV); [apply inv_lift; apply arith_rinv; assumption|]. intros r Hr.
    apply Ht; assumption.
  - (* EUnary *) intros inv_ u Hu Hok n Gn. split_ok Hok. rewrite eval_unary_expr_eq.
    apply (inv_bind GV); [apply Hu; assumption|]. intros v Hv.
    apply inv_lift. apply neg_times_rinv. exact Hv.
  - (* EUnion *) intros l Hl Hok n Gn. split_ok Hok. apply Hl; assumption.
  - (* PathNil *) intros _. split.
    + intros acc n Hacc Gn. rewrite eval_union_rest_nil. apply inv_ret. apply Forall_union_finish. exact Hacc.
    + intros n Gn. rewrite eval_union_expr_nil. apply inv_ret. constructor.
  - (* PathCons *) intros p Hp t Ht Hok. split_ok Hok. destruct (Ht Hok) as [Ht1 _]. split.
    + intros acc n Hacc Gn. rewrite eval_union_rest_cons.
      apply (inv_bind GV); [apply Hp; assumption|]. intros v Hv.
      apply inv_match_nodes; [exact Hv| |apply inv_err].
      intros l' Hl'. apply Ht1; [apply Forall_app; split; assumption|assumption].
    + intros n Gn. destruct t as [|p2 t2].
      * rewrite eval_union_expr_one. apply (inv_bind GV); [apply Hp; assumption|]. intros v Hv.
        destruct v; try (apply inv_ret; exact I). apply inv_ret. apply Forall_union_finish. exact Hv.
      * rewrite eval_union_expr_many. apply (inv_bind GV); [apply Hp; assumption|]. intros v Hv.
        apply inv_match_nodes; [exact Hv| |apply inv_err].
        intros l' Hl'. apply Ht1; assumption.
  - (* PRoot *) intros _ n Gn. rewrite eval_path_expr_root. apply inv_ret.
    apply (root_of_G doc G G_root). exact Gn.
  - (* PFilter *) intros f Hf Hok n Gn. split_ok Hok. rewrite eval_path_expr_filter. apply Hf; assumption.
  - (* PRel *) intros l Hl Hok n Gn. split_ok Hok. rewrite eval_path_expr_rel.
    apply (inv_bind (Forall G)).
    + apply flat_map_m_inv; [intros; apply Hl; assumption|constructor; [exact Gn|constructor]].
    + intros collected Hc. apply inv_ret. apply Forall_sort. exact Hc.
  - (* PAbs *) intros op l Hl Hok n Gn. split_ok Hok. rewrite eval_path_expr_abs.
    apply (inv_bind (Forall G)); [apply desc_lift_inv; apply (root_of_G doc G G_root); exact Gn|].
    intros nodes Hn. apply (inv_bind (Forall G)).
    + apply flat_map_m_inv; [intros; apply Hl; assumption|exact Hn].
    + intros collected Hc. apply inv_ret. apply Forall_sort. exact Hc.
  - (* PFilterPath *) intros f Hf op l Hl Hok n Gn. split_ok Hok. rewrite eval_path_expr_filterpath.
    apply (inv_bind GV); [apply Hf; assumption|]. intros v Hv.
    apply inv_match_nodes; [exact Hv| |apply inv_err]. intros fl Hfl.
    apply (inv_bind (Forall G)); [apply desc_lift_inv; exact Hfl|].
    intros nodes Hn. apply (inv_bind (Forall G)).
    + apply flat_map_m_inv; [intros; apply Hl; assumption|exact Hn].
    + intros collected Hc. apply inv_ret. apply Forall_sort. exact Hc.
  - (* EFilter *) intros primary Hp preds Hpreds Hok n Gn. split_ok Hok.
    destruct (Hpreds Hok) as [_ Hpr]. destruct preds as [|p t].
    + rewrite eval_filter_expr_nopred. apply Hp; assumption.
    + rewrite eval_filter_expr_preds. apply (inv_bind GV); [apply Hp; assumption|]. intros v Hv.
      apply inv_match_nodes; [exact Hv| |apply inv_err]. intros l Hl.
      apply (inv_bind (Forall G)); [apply Hpr; exact Hl|]. intros r Hr. apply inv_ret. exact Hr.
  - (* PrimVariable *) intros q _ n Gn. rewrite eval_primary_expr_variable. intros c.
    destruct (expanded_name (c_ns c) q) as [[[? ?] ?]|e| |] eqn:E; cbn [fst rinv]; try exact I;
      unfold expanded_name in E; destruct q; try discriminate;
      destruct (ns_lookup (c_ns c) (Some prefix)); discriminate.
  - (* PrimExpr *) intros e He Hok n Gn. split_ok Hok. rewrite eval_primary_expr_expr. apply He; assumption.
  - (* PrimLiteral *) intros s _ n Gn. rewrite eval_primary_expr_literal. apply inv_ret. exact I.
  - (* PrimNumber *) intros s Hok n Gn. cbn [ok_primary] in Hok. rewrite eval_primary_expr_number.
    destruct (rust_parse_f64 s) eqn:E; [apply inv_ret; exact I|].
    apply inv_lift. cbn [rinv]. intros HT. apply (H_num HT s Hok). exact E.
  - (* PrimFunction *) intros name args Hargs Hok n Gn. split_ok Hok.
    destruct (Hargs Hok) as [Ha _]. rewrite eval_primary_expr_function. intros c.
    destruct (resolve_fn (c_ns c) name (expr_list_len args)) as [local|e| |] eqn:Er; cbn [fst rinv]; try exact I.
    + destruct (resolve_fn_arity _ _ _ _ Er) as [El [mn [mx [Hfind Hmn]]]].
      apply (inv_bind (fun vs => Forall GV vs /\ len vs = expr_list_len args)); [apply Ha; exact Gn|].
      intros vs [Hvs Hlen]. apply (exec_fn_inv local vs n mn mx); try assumption.
      * rewrite El. exact Hok0.
      * rewrite Hlen. exact Hmn.
    + exfalso. clear -Er. unfold resolve_fn, fn_key, expanded_name in Er.
      destruct name; [destruct (ns_lookup (c_ns c) (Some prefix))|]; cbn [bind] in Er; try discriminate;
        repeat match type of Er with
               | context [match ?x with _ => _ end] => destruct x; try discriminate
               end.
    + exfalso. clear -Er. unfold resolve_fn, fn_key, expanded_name in Er.
      destruct name; [destruct (ns_lookup (c_ns c) (Some prefix))|]; cbn [bind] in Er; try discriminate;
        repeat match type of Er with
               | context [match ?x with _ => _ end] => destruct x; try discriminate
               end.
  - (* ExprNil *) intros _. split.
    + intros n Gn. rewrite eval_args_nil. apply inv_ret. split; [constructor|reflexivity].
    + intros nodes Hn. rewrite eval_predicates_nil. apply inv_ret. exact Hn.
  - (* ExprCons *) intros e He t Ht Hok. split_ok Hok. destruct (Ht Hok) as [Hta Htp]. split.
    + intros n Gn. rewrite eval_args_cons.
      apply (inv_bind GV); [apply He; assumption|]. intros v Hv.
      apply (inv_bind (fun vs => Forall GV vs /\ len vs = expr_list_len t)); [apply Hta; exact Gn|].
      intros vs [Hvs Hlen]. apply inv_ret. split; [constructor; assumption|].
      cbn [len expr_list_len]. rewrite Hlen. reflexivity.
    + intros nodes Hn. rewrite eval_predicates_cons. intros c.
      pose proof (pred_loop_inv (predicate_of (eval_or_expr doc e))
                    (fun n Gn => predicate_of_inv _ n (He Hok0 n Gn)) nodes 1 Hn
                    (push_size (len nodes) c)) as Hl.
      destruct (pred_loop (predicate_of (eval_or_expr doc e)) nodes 1 (push_size (len nodes) c))
        as [[filtered|er| |] c1]; cbn [fst rinv] in *; try exact Hl.
      apply Htp. exact Hl.
  - (* ERelPath *) intros s Hs ops Hops Hok n Gn. split_ok Hok. rewrite eval_rel_path_eq.
    apply (inv_bind (Forall G)); [apply Hs; assumption|]. intros nodes Hn. apply Hops; assumption.
  - (* StepopNil *) intros _ nodes Hn. rewrite eval_stepops_nil. apply inv_ret. exact Hn.
  - (* StepopCons *) intros op s Hs t Ht Hok nodes Hn. split_ok Hok. rewrite eval_stepops_cons.
    apply (inv_bind (Forall G)); [apply desc_lift_inv; exact Hn|]. intros from Hfrom.
    apply (inv_bind (Forall G)).
    + apply flat_map_m_inv; [intros; apply Hs; assumption|exact Hfrom].
    + intros collected Hc. apply Ht; [assumption|].
      apply Forall_forall. intros x Hx. rewrite Forall_forall in Hc. apply Hc.
      apply (step_dedup_incl doc collected [] x Hx).
  - (* StepTest *) intros axis test preds Hpreds Hok n Gn. split_ok Hok.
    destruct (Hpreds Hok) as [_ Hpr]. rewrite eval_step_test. intros c.
    destruct (H_axis axis n Hok0 Gn) as [nodes [-> Hnodes]]. cbn [bind].
    destruct (filter_res (eval_node_test doc (c_ns c) axis test) nodes) as [tested|e| |] eqn:Ef;
      cbn [fst rinv]; try exact I.
    + apply Hpr. apply Forall_axis_sort. apply Forall_forall. intros x Hx.
      rewrite Forall_forall in Hnodes. apply Hnodes. eapply filter_res_incl; eauto.
    + exfalso. eapply (proj1 (filter_res_settled _ nodes (node_test_settled (c_ns c) axis test))); eauto.
    + exfalso. eapply (proj2 (filter_res_settled _ nodes (node_test_settled (c_ns c) axis test))); eauto.
  - (* StepCurrent *) intros _ n Gn. rewrite eval_step_current. apply inv_ret. constructor; [exact Gn|constructor].
  - (* StepParent *) intros _ n Gn. rewrite eval_step_parent. apply inv_ret.
    destruct (parent_node doc n) as [p|] eqn:Ep; cbn [opt_list]; [|constructor].
    constructor; [eapply G_parent; eauto|constructor].
Qed.

End Inv.
