"""Shared by C13 / C15: the DOM Level 1 oracle (extracted Spec/DomL1.v, driver ocaml/specdomains/dom/dom.ml)
evaluated call by call on the implementation's own states, failure atomicity, no-panic, and the
re-parse oracle of C15.  Builds on checks/domlib.py (case builder, generators, shrinking).

The implementation is run with the view suffix `+x` (harness/src/domains/dom.rs): every dump then also
carries the owner document and qualified name of every handle (`X` words) and, per document, the
result of re-parsing its serialisation (`R` words).  For every call of a history the abstract state
BEFORE the call is rebuilt from the implementation's previous dump, `dom_step` is applied to it once,
and the result class and the abstract state are compared with what the implementation reports after
the call -- this is the statement `step_refines` of Properties/C13.v, checked on reachable states of
the real code; a deviation does not derail the rest of the history."""
import hashlib, json, os, random, time
from . import lib, domlib as D

enc, dec = lib.enc, lib.dec
CHARDATA = ('tx', 'cd', 'cm', 'pi')

class Rec2(D.Rec):
    """a record of an extended dump: the plain part is parsed by domlib.Rec"""
    def __init__(self, text):
        head, sep, d = text.partition(' # ')
        plain, self.x, self.r = [], {}, {}
        for w in d.split(' ') if d else []:
            if w and w[0] == 'X' and '=' in w:
                k, _, v = w.partition('=')
                dd, _, q = v.partition('/')
                self.x[int(k[1:])] = (int(dd), None if q == '~' else dec(q))
            elif w and w[0] == 'R' and '=' in w:
                k, _, v = w.partition('=')
                self.r[int(k[1:])] = v
            else:
                plain.append(w)
        self.plain_dump = ' '.join(plain)
        D.Rec.__init__(self, head + sep + self.plain_dump)
        self.ext_dump = d

def canon(rec):
    """the abstract state of a dump, in the format of the spec driver"""
    out = []
    for h in sorted(rec.nodes):
        n = rec.nodes[h]
        k = n.kind
        if k in ('el', 'at'):
            q = rec.x.get(h, (0, None))[1]
            name = enc(q) if q is not None else n.name
        elif k in ('pi', 'er', 'dt'):
            name = n.name
        elif k == 'cr':
            s = dec(n.name)
            name = enc(s[1:-1])
        else:
            name = '-'
        data = (n.data if n.data not in ('~', '!') else '-') if k in CHARDATA else '~'
        def hs(x):
            if x is None: return '~'
            if isinstance(x, tuple): return '*%d' % x[1]
            return str(x)
        p = '~' if k == 'at' else hs(n.p)
        c = '.'.join(hs(x) for x in n.c) if n.c else '-'
        a = sorted((n.a or []) + (n.n or [])) if k == 'el' else []
        a = '.'.join(str(x) for x in a) if a else '-'
        ow = hs(n.ow) if k == 'at' else '~'
        out.append('%d=%s/%s/%s/p=%s/c=%s/a=%s/ow=%s' % (h, k, name, data, p, c, a, ow))
    return ' '.join(out)

def ent_words(line):
    """E words for the spec driver from the description in record 0: entities of every document type"""
    out = []
    for w in D.init_desc(line).split(' '):
        if w.startswith('I'):
            f = w.split(':')
            if f[2] == 'dt' and f[9] != '~':
                items = []
                for e in f[9].split('.'):
                    s = dec(e)
                    items.append('%s:%d' % ((enc(s[1:]), 0) if s.startswith('\0') else (e, 1)))
                out.append('E%s=%s' % (f[0][1:], ';'.join(items)))
    return out

def norm_result(res):
    """implementation result class in the vocabulary of the spec driver"""
    if res in ('err:info', 'err:parse'):
        return 'err:refused'
    return res

def spec_steps(triples, shards=None):
    """triples: list of (ext dump before, op string, E words) -> list of (result, canonical state)"""
    lines = ['%s %s %s' % (op, dump, ' '.join(ew)) for dump, op, ew in triples]
    rc, out = lib.run_bin(lib.spec_bin('dom'), ['domspec'], lines, timeout=1200, shards=shards or min(lib.NPROC, 16))
    res = []
    for l in out:
        head, _, st = l.partition(' # ')
        res.append((head.strip(), st.strip()))
    while len(res) < len(lines):
        res.append(('crash', ''))
    return res

def compare_step(prev, rec, spec_res, spec_state):
    """-> None when the implementation conforms on this call, else (clause, detail)"""
    got = norm_result(rec.result)
    if got == 'panic':
        return ('panic', 'the call panicked (specification: %s)' % spec_res)
    after = canon(rec)
    if spec_res == 'unspecified':
        if after == canon(prev) or after == spec_state:
            return None
        return ('unspecified-state', 'DOM Level 1 is silent on this call; the state is neither unchanged nor the applied one')
    if spec_res == 'crash':
        return ('spec-crash', 'specification driver produced no answer')
    if got != spec_res:
        return ('result', 'implementation answers %s, DOM Level 1 specifies %s' % (rec.result, spec_res))
    if after != spec_state:
        a, b = after.split(' '), spec_state.split(' ')
        diff = [(x, y) for x, y in zip(a, b) if x != y][:3]
        if len(a) != len(b): diff.append(('%d nodes' % len(a), '%d nodes' % len(b)))
        return ('state', 'result %s as specified, but the tree differs: %s' % (got, '; '.join('impl %s / spec %s' % d for d in diff)))
    return None

def atomicity(prev, rec):
    """a failed call leaves everything the dump shows unchanged (plain dump: tree, navigation, data, order ranks, serialisation)"""
    if rec.result.startswith('err:') and rec.plain_dump != prev.plain_dump:
        a, b = prev.plain_dump.split(' '), rec.plain_dump.split(' ')
        diff = [(x, y) for x, y in zip(a, b) if x != y][:2]
        if len(a) != len(b): diff.append(('%d words' % len(a), '%d words' % len(b)))
        def short(w): return w if len(w) < 90 else w[:87] + '...'
        return ('not-atomic', 'the call failed with %s and changed the document: %s' % (rec.result, '; '.join('%s -> %s' % (short(x), short(y)) for x, y in diff)))
    return None

def reparse_violation(rec):
    """C15: after a successful call the serialisation of every document parses and denotes the same content"""
    out = []
    for k, v in sorted(rec.r.items()):
        if v == 'ok:eq':
            continue
        if v.startswith('ok:ne:'):
            _, _, a, b = v.split(':')
            out.append(('content', 'document %d: the DOM reports %s but its serialisation %s parses to %s'
                        % (k, dec(a), dec(rec.serial.get(k, '-')), dec(b))))
        else:
            out.append((v, 'document %d: the parser answers `%s` on the serialisation %r' % (k, v, dec(rec.serial.get(k, '-')))))
    return out

def run_ext(cases, shards=None):
    """cases: list of (docs, ops, view) -> implementation lines with extended dumps"""
    return D.run_impl([D.mkcase(d, o, v + '+x') for d, o, v in cases], shards)
