(* cdata: C16 character-data histories on the extracted specification (Spec/DomCharData.v:
   DOM Level 1 CharacterData / Text on lists of characters).  Protocol: see
   harness/src/domains/cdata.rs; `unspecified` ends a history whose argument cannot be held
   by the node kind in any XML document. *)
exception Bad

let cd_num (w : string) : n =
  if w = "M" then big_minus N0
  else if String.length w > 2 && String.sub w 0 2 = "M-" then
    big_minus (n_of_int (int_of_string (String.sub w 2 (String.length w - 2))))
  else n_of_int (int_of_string w)

let cd_kind = function
  | "text" -> KText | "comment" -> KComment | "cdata" -> KCData | "expanded" -> KExpanded
  | _ -> raise Bad

let cd_call (ws : string list) : call =
  match ws with
  | ["len"] -> Length
  | ["sub"; o; c] -> Substring (cd_num o, cd_num c)
  | ["app"; s] -> Append (dec s)
  | ["ins"; o; s] -> Insert (cd_num o, dec s)
  | ["del"; o; c] -> Delete (cd_num o, cd_num c)
  | ["rep"; o; c; s] -> Replace (cd_num o, cd_num c, dec s)
  | ["set"; s] -> SetData (dec s)
  | ["split"; o] -> Split (cd_num o)
  | _ -> raise Bad

let rec cd_groups (ws : string list) : string list list =
  let rec go cur acc = function
    | [] -> List.rev (List.rev cur :: acc)
    | ";" :: t -> go [] (List.rev cur :: acc) t
    | w :: t -> go (w :: cur) acc t in
  go [] [] ws

let cd_exc = function
  | IndexSizeErr -> "IndexSizeErr" | DomStringSizeErr -> "DomStringSizeErr"
  | HierarchyRequestErr -> "HierarchyRequestErr" | WrongDocumentErr -> "WrongDocumentErr"
  | InvalidCharacterErr -> "InvalidCharacterErr" | NoDataAllowedErr -> "NoDataAllowedErr"
  | NoModificationAllowedErr -> "NoModificationAllowedErr" | NotFoundErr -> "NotFoundErr"
  | NotSupportedErr -> "NotSupportErr" | InuseAttributeErr -> "InuseAttributeErr"

let cd_value = function
  | VUnit -> "ok"
  | VNum x -> "ok=#" ^ string_of_int (int_of_n x)
  | VStr s -> "ok=" ^ enc s
  | VNode (d, adj) -> "ok=" ^ (if adj then "@" else "!") ^ enc d

let cd_state (st : cdstate) : string =
  enc st.data ^ " " ^ (if st.following = [] then "." else String.concat "/" (List.map enc st.following))

let cd_outcome = function
  | Some (Done (v, st)) -> cd_value v ^ " " ^ cd_state st
  | Some (Raised (e, st)) -> cd_exc e ^ " " ^ cd_state st
  | Some (NotOffered st) -> "n/a " ^ cd_state st
  | None -> "unspecified"

let () = register "cdata" (fun words ->
  try
    match words with
    | k :: init :: rest when rest <> [] ->
      let calls = List.map cd_call (cd_groups rest) in
      let rs = spec_run (cd_kind k) { data = dec init; following = [] } calls in
      String.concat " ; " (List.map cd_outcome rs)
    | _ -> "badinput"
  with Bad | Failure _ -> "badinput")
