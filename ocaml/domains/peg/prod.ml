(* prod: `<grammar> <production> <string>` -> `ok <chars consumed>` | `err` | `unknown` | `oof` *)
let () = register "prod" (fun words ->
  match words with
  | [g; name; s] ->
    let name = List.map (fun c -> n_of_int (Char.code c)) (List.init (String.length name) (String.get name)) in
    let r = (match g with
        | "xml" -> xml_prod name (dec s)
        | "xpath" -> xpath_prod name (dec s)
        | _ -> ObsUnknown) in
    (match r with
     | ObsOk n -> "ok " ^ string_of_int (int_of_n n)
     | ObsErr -> "err"
     | ObsOof -> "oof"
     | ObsUnknown -> "unknown")
  | _ -> "badinput")
