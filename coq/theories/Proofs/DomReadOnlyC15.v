(** * C15 for histories that contain calls on the read-only maps of a document type (Model/DomReadOnly.v):
    such a call changes nothing and carries no string that is stored, so the lexical invariants and the round trip
    hold under the same hypotheses about the OTHER calls ([plain_ops (nops_of xs)]) *)
From Coq Require Import List NArith Bool Lia.
From XmlRs Require Import Base.CPred Spec.XmlChars Model.Peg Model.ParseActions Model.Info Model.Display.
From XmlRs Require Import Proofs.DisplayEq Proofs.DisplayFull Proofs.StoreDocLex.
From XmlRs Require Import Model.Store Model.StoreCheck Model.PrintableCheck Model.DomOps Model.StoreDoc Model.StoreDocMerged.
From XmlRs Require Import Proofs.DomBase Proofs.DomTree Proofs.DomOpsInv Proofs.DomCheck Proofs.DomPrintable
  Proofs.DomL1RefineValue Proofs.DomL1RefineInv Proofs.DomL1RefineInvCheck
  Proofs.StoreDocInv Proofs.StoreDocShow Proofs.StoreDocWf Proofs.StoreDocReach Proofs.StoreDocMerged
  Proofs.StoreDocMergedReach Proofs.StoreDocPiFlag.
From XmlRs Require Import Model.DomNormalize Model.DomReadOnly Proofs.DomNormalizeHist Proofs.DomNormalizeC15 Proofs.DomReadOnly.
Import ListNotations.
Open Scope N_scope.

Theorem printable_reachable_with_readonly : forall xs w,
  WPrintable w -> Forall op_facts_ok (plain_ops (nops_of xs)) -> WPrintable (run_x w xs).
Proof. intros xs w Hw F. rewrite run_x_erase. apply printable_reachable_with_normalize; assumption. Qed.

Theorem printable_readonly : forall w o, WPrintable w -> WPrintable (fst (step_ro w o)).
Proof. intros w o H. rewrite step_ro_world. exact H. Qed.

Theorem lex15_reachable_with_readonly : forall xs w,
  WLex15 w -> Forall op_facts_ok (plain_ops (nops_of xs)) -> Forall op_facts_ok15 (plain_ops (nops_of xs)) -> WLex15 (run_x w xs).
Proof. intros xs w Hw F1 F2. rewrite run_x_erase. apply lex15_reachable_with_normalize; assumption. Qed.

Theorem piflag_reachable_with_readonly : forall xs w, WPiFlag w -> WPiFlag (run_x w xs).
Proof. intros xs w. apply (run_x_invariant WPiFlag). intros nops w'. apply piflag_reachable_with_normalize. Qed.

Theorem edited_roundtrip_reachable_with_readonly : forall init xs k s,
  WInv2 init -> WLex15 init -> Forall op_facts_ok (plain_ops (nops_of xs)) -> Forall op_facts_ok15 (plain_ops (nops_of xs)) ->
  doc_at (run_x init xs) k = Some s -> Known15 s = false ->
  display (doc_of_store s) = show_doc s /\ from_raw (show_doc s) = OOk ([], doc_of_store s).
Proof.
  intros init xs k s I2 L F1 F2 D K. rewrite run_x_erase in D.
  exact (edited_roundtrip_reachable_with_normalize init (nops_of xs) k s I2 L F1 F2 D K).
Qed.

Theorem edited_roundtrip_m_reachable_with_readonly : forall init xs k s,
  WInv2 init -> WLex15 init -> Forall op_facts_ok (plain_ops (nops_of xs)) -> Forall op_facts_ok15 (plain_ops (nops_of xs)) ->
  doc_at (run_x init xs) k = Some s -> Known15m s = false ->
  from_raw (show_doc s) = OOk ([], norm_doc (doc_of_store s)).
Proof.
  intros init xs k s I2 L F1 F2 D K. rewrite run_x_erase in D.
  exact (edited_roundtrip_m_reachable_with_normalize init (nops_of xs) k s I2 L F1 F2 D K).
Qed.

(** the example world and history of Proofs/DomReadOnly.v *)
Example ro_world_printable : WPrintable ro_world.
Proof. constructor; [|constructor; [|constructor]]; apply printable_b_sound; vm_compute; reflexivity. Qed.

Example ro_example15 : WPrintable (run_x ro_world ro_ops).
Proof. apply printable_reachable_with_readonly; [exact ro_world_printable | repeat constructor]. Qed.
