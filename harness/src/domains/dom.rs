//! DOM edit histories on the real crates (properties C12, C13, C14, C15).
//!
//! Case line:  `<view> <ndocs> <doc text>{ndocs} <op>*`   (strings = decimal code points, see util)
//!   view    `r` | `m`: value of `text_expanded` while the *operations* run (navigation used by the
//!           mutators themselves does not depend on it; both views are always dumped);
//!           optional suffixes: `!k` = no dumps before record k; `+x` = extended dump (C13 / C15):
//!           after the `S<k>` words every dump carries `X<h>=<owner document>/<qualified name>` per
//!           handle and, per document, `R<k>=` the result of re-parsing its serialisation:
//!           `ok:eq` | `ok:ne:<content of the edited document>:<content of the re-parse>` |
//!           `noparse` | `rest` | `panic` (content = canonical form in the merged-text view, text
//!           nodes without characters ignored).  Without `+x` the output is unchanged.
//!   op      fields joined by ':' -- handles are indices into the handle table
//!     AC:r:n  append_child        IB:r:n:f insert_before      RC:r:n:o replace_child   RM:r:o remove_child
//!     SA:r:name:value set_attribute   SAN:r:a set_attribute_node   RA:r:name remove_attribute
//!     RAN:r:a remove_attribute_node   NS:r:a attributes().set_named_item   NR:r:name remove_named_item
//!     CE:d:name CA:d:name CT:d:data CC:d:data CD:d:data CP:d:target:data CR:d:name CF:d   factories
//!     SV:r:value set_node_value   SD:r:data set_data   AD:r:data append_data   ID:r:off:data insert_data
//!     DD:r:off:cnt delete_data    RD:r:off:cnt:data replace_data   ST:r:off split_text   PD:r:data PI set_data
//!     NZ:r  Element::normalize (in the view of the case: adjacent Text children are merged in the raw view only)
//!     a merged text node of the text-expanded view as the ARGUMENT of an insertion (the node `child_nodes()` hands out for a run
//!     of Text / CDATA / reference items; it stands for several items and is refused with NOT_SUPPORTED_ERR, /repo aa36908):
//!     ACX:r:c:k        it = entry k of c.child_nodes() taken in the merged view; r.append_child(it)
//!     IBX:r:c:k:f      r.insert_before(it, f)          IBXX:r:c:k:c2:k2   the reference child is a merged text node too
//!     RCX:r:c:k:o      r.replace_child(it, o)          RCXX:r:c:k:c2:k2   the old child is a merged text node too
//!                    (`na`: r is no NodeMut, a handle does not exist, or the entry is no merged text node -- the call cannot
//!                    be written; the node is fetched in the merged view, the call runs in the view of the case)
//!     Q:d:expr   XPath node-set query on document d, edited tree vs re-parse of its serialisation
//!     read-only maps of a DocumentType (r, src = handle of a Document -- its `doc_type()` is taken -- or of a DocumentType node):
//!     ES:r:src:name  r.entities().set_named_item(src.entities().get_named_item(name))    ESI:r:src:i  ... (src.entities().item(i))
//!     ER:r:name      r.entities().remove_named_item(name)
//!     TS:r:src:name / TSI:r:src:i / TR:r:name   the same on notations()
//!                    (`na`: no document type, or the argument does not exist -- the call cannot be written)
//!     X:d:v      the XPath evaluator's document table of the CURRENT (edited) document d in view v
//!                (0 raw, 1 merged text), built by the table builder of the `xpath` domain
//!                (`super::xpath::Table::build`): result `x:<v>:<facts>:<n>+<row>+<row>...`, rows in the
//!                line format of the `xpath` domain (`kind;id;key;parent;children;attrs;nss;name;data`,
//!                references = table positions) with id = handle index (`~` for id 0, `?` unknown) and
//!                key = rank among the distinct non-zero keys of the table; `x:<v>:<facts>:panic` when
//!                the builder unwinds.  facts = the string facts of Model/StoreView.v the store does not
//!                hold, read through the info / dom item (NOT through the table): `a<h>=<normalized_value>`
//!                per attribute handle of d, `r<h>=<XmlEntityReference::value>` per entity-reference
//!                handle of d (`E` when the call fails), joined by `^` (`-` when there are none).
//!                A private harness (bin/agent-env) that links this file must also link xpath.rs.
//!
//! Output: ONE line, records joined by " | ".  Record 0 = `init` + description of the parsed
//! documents (what the model driver needs to build the same store) + dump; record i = result class
//! of op i + dump.  Dump = every live handle with what the public DOM API reports for it.
//!
//! Handle table: the nodes of the documents in pre-order (document; element, its namespace
//! attributes, its other attributes, each followed by its value items, then its children), then
//! every node created or discovered later, in order of appearance.  After each op the table is
//! re-scanned (handles in index order: namespace attributes, attributes, children) and nodes not yet
//! known are appended, so ids in the output are handle indices = "renumbered by first appearance".
//! A panic inside an op is an outcome (`panic`), the case goes on with whatever state is left.
//! A state in which a node is beneath itself is dumped in degraded form (navigation only, keys 0, no
//! serialisation, word `cycle=<h>` at the end) and ends the case: every walk here is bounded.
use crate::util::{dec, enc};
use std::collections::HashMap;
use std::panic::{catch_unwind, AssertUnwindSafe};
use std::rc::Rc;
use xml_dom as dom;
use xml_dom::{
    AsNode, CharacterDataMut, Document as _, DocumentMut, DocumentType as _, ElementMut,
    NamedNodeMap as _, NamedNodeMapMut, Node, NodeList, NodeMut, ProcessingInstructionMut, TextMut, XmlNode,
};
use xml_info as info;
use xml_info::{
    Document as _, Element as _, HasContext as _, HasQName as _,
    ProcessingInstruction as _,
};

struct Doc {
    info: Option<info::XmlNode<info::XmlDocument>>,
    dom: Option<dom::XmlDocument>,
}

struct St {
    docs: Vec<Doc>,
    hs: Vec<(usize, XmlNode)>,
    index: HashMap<(usize, usize), usize>,
    /// `+x`: extended dump
    ext: bool,
    /// document index of a fragment -> index of the document that created it
    frag_owner: HashMap<usize, usize>,
    /// one XPath evaluation context per case, re-used by every `Q` op across the edits (a caller
    /// may keep its Context): its answers must be those of a fresh context
    xctx: xml_xpath::eval::model::Context,
    /// view of the case (`m`): value of text_expanded while the operations run
    case_merged: bool,
}

fn item_of(n: &XmlNode) -> Option<Rc<info::XmlItem>> {
    match n {
        XmlNode::ExpandedText(_) => None,
        _ => Rc::<info::XmlItem>::try_from(n.clone()).ok(),
    }
}

fn attr_node(a: info::XmlNode<info::XmlAttribute>) -> XmlNode {
    XmlNode::from(Rc::new(info::XmlItem::from(a)))
}

fn value_item(v: &info::XmlAttributeValue) -> Rc<info::XmlItem> {
    match v {
        info::XmlAttributeValue::Char(v) => v.clone(),
        info::XmlAttributeValue::Entity(v) => v.clone(),
        info::XmlAttributeValue::Text(v) => v.clone(),
    }
}

/// namespace attributes, other specified attributes (id 0 = materialised default, skipped), raw children
fn parts(n: &XmlNode) -> (Vec<XmlNode>, Vec<XmlNode>, Vec<XmlNode>) {
    let mut ns = vec![];
    let mut at = vec![];
    let mut ch = vec![];
    if let Some(item) = item_of(n) {
        match &*item {
            info::XmlItem::Element(e) => {
                for a in e.borrow().namespace_attributes().iter() {
                    ns.push(attr_node(a));
                }
                for a in e.borrow().attributes().iter() {
                    if a.borrow().id() != 0 {
                        at.push(attr_node(a));
                    }
                }
                for c in e.borrow().children().iter() {
                    ch.push(XmlNode::from(c));
                }
            }
            info::XmlItem::Attribute(a) => {
                for v in a.borrow().values().borrow().iter() {
                    ch.push(XmlNode::from(value_item(v)));
                }
            }
            info::XmlItem::Document(d) => {
                if !matches!(n, XmlNode::DocumentFragment(_)) {
                    for c in d.borrow().children().iter() {
                        ch.push(XmlNode::from(c));
                    }
                }
            }
            _ => {}
        }
    }
    (ns, at, ch)
}

impl St {
    fn find(&self, doc: usize, n: &XmlNode) -> Option<usize> {
        if let XmlNode::ExpandedText(_) = n {
            return None;
        }
        self.index.get(&(doc, n.id())).copied()
    }
    fn intern(&mut self, doc: usize, n: XmlNode) -> usize {
        if let Some(h) = self.find(doc, &n) {
            return h;
        }
        let h = self.hs.len();
        self.index.insert((doc, n.id()), h);
        self.hs.push((doc, n));
        h
    }
    fn scan(&mut self) {
        let mut i = 0;
        while i < self.hs.len() {
            let (d, n) = (self.hs[i].0, self.hs[i].1.clone());
            let (ns, at, ch) = parts(&n);
            for x in ns.into_iter().chain(at).chain(ch) {
                self.intern(d, x);
            }
            i += 1;
        }
    }
    /// pre-order interning of a fresh document (see module comment)
    fn walk(&mut self, d: usize, n: XmlNode) {
        self.intern(d, n.clone());
        let (ns, at, ch) = parts(&n);
        for a in ns.into_iter().chain(at) {
            self.walk(d, a);
        }
        for c in ch {
            self.walk(d, c);
        }
    }
    fn set_view(&self, merged: bool) {
        for d in &self.docs {
            if let Some(i) = &d.info {
                i.borrow_mut().context_mut().set_text_expanded(merged);
            }
        }
    }
}

fn kind(n: &XmlNode) -> &'static str {
    match n {
        XmlNode::Element(_) => "el",
        XmlNode::Attribute(_) => "at",
        XmlNode::Text(_) => "tx",
        XmlNode::CData(_) => "cd",
        XmlNode::EntityReference(_) => {
            if n.node_name().starts_with("&#") {
                "cr"
            } else {
                "er"
            }
        }
        XmlNode::Entity(_) => "en",
        XmlNode::PI(_) => "pi",
        XmlNode::Comment(_) => "cm",
        XmlNode::Document(_) => "doc",
        XmlNode::DocumentType(_) => "dt",
        XmlNode::DocumentFragment(_) => "fr",
        XmlNode::Notation(_) => "no",
        XmlNode::Namespace(_) => "ns",
        XmlNode::ExpandedText(_) => "xt",
    }
}

fn hopt(st: &St, d: usize, n: Option<XmlNode>) -> String {
    match n {
        None => "~".to_string(),
        Some(XmlNode::ExpandedText(x)) => match st.index.get(&(d, x.as_node().id())) {
            Some(h) => format!("*{}", h),
            None => "*?".to_string(),
        },
        Some(n) => match st.find(d, &n) {
            Some(h) => h.to_string(),
            None => "?".to_string(),
        },
    }
}

fn hlist(st: &St, d: usize, ns: &[XmlNode]) -> String {
    if ns.is_empty() {
        return "-".to_string();
    }
    ns.iter()
        .map(|n| hopt(st, d, Some(n.clone())))
        .collect::<Vec<_>>()
        .join(".")
}

fn child_list(n: &XmlNode) -> Vec<XmlNode> {
    let l = n.child_nodes();
    (0..l.length()).filter_map(|i| l.item(i)).collect()
}

fn data_of(n: &XmlNode) -> String {
    match n {
        XmlNode::Attribute(_) | XmlNode::EntityReference(_) => "~".to_string(),
        _ => match n.node_value() {
            Ok(None) => "~".to_string(),
            Ok(Some(s)) => enc(&s),
            Err(_) => "!".to_string(),
        },
    }
}

/// A node that is beneath itself (a defect of the tree invariant, C12): the handle where a walk of the
/// child / attribute lists meets a node that is already on the path.  The walk is iterative and bounded
/// by the number of handles, so it terminates on any structure.
fn find_cycle(st: &St) -> Option<usize> {
    let n = st.hs.len();
    let mut adj: Vec<Vec<usize>> = Vec::with_capacity(n);
    for (d, node) in st.hs.iter() {
        let (ns, at, ch) = parts(node);
        adj.push(
            ns.iter()
                .chain(at.iter())
                .chain(ch.iter())
                .filter_map(|x| st.find(*d, x))
                .collect(),
        );
    }
    // 0 = unseen, 1 = on the path, 2 = done
    let mut color = vec![0u8; n];
    for root in 0..n {
        if color[root] != 0 {
            continue;
        }
        let mut stack: Vec<(usize, usize)> = vec![(root, 0)];
        color[root] = 1;
        while let Some((h, i)) = stack.pop() {
            if i < adj[h].len() {
                stack.push((h, i + 1));
                let c = adj[h][i];
                if color[c] == 1 {
                    return Some(c);
                }
                if color[c] == 0 {
                    color[c] = 1;
                    stack.push((c, 0));
                }
            } else {
                color[h] = 2;
            }
        }
    }
    None
}

fn dump(st: &St) -> String {
    let mut out: Vec<String> = vec![];
    // Serialisation, order keys and the content walks recurse along the child lists (in the library
    // and here): on a cyclic structure they would not terminate.  Such a state is reported with a
    // degraded dump -- navigation only, keys 0, no serialisation -- and the word `cycle=<h>`.
    let cycle = find_cycle(st);
    // order keys -> ranks per document
    let keys: Vec<usize> = st
        .hs
        .iter()
        .map(|(_, n)| if cycle.is_some() { 0 } else { n.order() })
        .collect();
    let mut per_doc: HashMap<usize, Vec<usize>> = HashMap::new();
    for (i, (d, _)) in st.hs.iter().enumerate() {
        if keys[i] != 0 {
            per_doc.entry(*d).or_default().push(keys[i]);
        }
    }
    for v in per_doc.values_mut() {
        v.sort();
        v.dedup();
    }
    st.set_view(false);
    let mut raw: Vec<String> = vec![];
    for (i, (d, n)) in st.hs.iter().enumerate() {
        let k = if keys[i] == 0 {
            "0".to_string()
        } else {
            (per_doc[d].binary_search(&keys[i]).unwrap() + 1).to_string()
        };
        let ch = child_list(n);
        let mut s = format!(
            "{}={}/{}/{}/p={}/c={}/f={}/l={}/pv={}/nx={}/k={}",
            i,
            kind(n),
            enc(&n.node_name()),
            data_of(n),
            hopt(st, *d, n.parent_node()),
            hlist(st, *d, &ch),
            hopt(st, *d, n.first_child()),
            hopt(st, *d, n.last_child()),
            hopt(st, *d, n.previous_sibling()),
            hopt(st, *d, n.next_sibling()),
            k
        );
        match n {
            XmlNode::Element(_) => {
                let (ns, at, _) = parts(n);
                s.push_str(&format!("/a={}/n={}", hlist(st, *d, &at), hlist(st, *d, &ns)));
            }
            XmlNode::Attribute(_) => {
                // owner element as the infoset sees it (DOM Level 1 has no ownerElement)
                let ow = item_of(n)
                    .and_then(|i| i.as_attribute())
                    .and_then(|a| xml_info::Attribute::owner_element(&*a.borrow()).ok())
                    .map(|e| XmlNode::from(Rc::new(info::XmlItem::from(e))));
                s.push_str(&format!("/ow={}", hopt(st, *d, ow)));
            }
            _ => {}
        }
        raw.push(s);
    }
    // merged-text view of every element
    st.set_view(true);
    for (i, (d, n)) in st.hs.iter().enumerate() {
        if let XmlNode::Element(_) = n {
            let ch = child_list(n);
            let items: Vec<String> = ch
                .iter()
                .map(|c| {
                    format!(
                        "{}:{}:{}:{}",
                        hopt(st, *d, Some(c.clone())),
                        hopt(st, *d, c.parent_node()),
                        hopt(st, *d, c.previous_sibling()),
                        hopt(st, *d, c.next_sibling())
                    )
                })
                .collect();
            raw[i].push_str(&format!(
                "/m={}",
                if items.is_empty() { "-".to_string() } else { items.join(";") }
            ));
            // first_child / last_child in the merged-text view (must be the ends of the merged child list)
            raw[i].push_str(&format!(
                "/mf={}:{}",
                hopt(st, *d, n.first_child()),
                hopt(st, *d, n.last_child())
            ));
        }
    }
    st.set_view(false);
    out.append(&mut raw);
    if let Some(h) = cycle {
        out.push(format!("cycle={}", h));
        return out.join(" ");
    }
    for (k, d) in st.docs.iter().enumerate() {
        if let Some(dm) = &d.dom {
            out.push(format!("S{}={}", k, enc(&dm.to_string())));
        }
    }
    if st.ext {
        for (i, (d, n)) in st.hs.iter().enumerate() {
            let owner = st.frag_owner.get(d).copied().unwrap_or(*d);
            out.push(format!("X{}={}/{}", i, owner, qualified(n).map(|q| enc(&q)).unwrap_or("~".to_string())));
        }
        for (k, d) in st.docs.iter().enumerate() {
            if let Some(dm) = &d.dom {
                let r = catch_unwind(AssertUnwindSafe(|| reparse(st, dm)))
                    .unwrap_or_else(|_| "panic".to_string());
                out.push(format!("R{}={}", k, r));
            }
        }
    }
    out.join(" ")
}

/// qualified name of an element / attribute as it is serialised
fn qualified(n: &XmlNode) -> Option<String> {
    let item = item_of(n)?;
    match &*item {
        info::XmlItem::Element(e) => {
            let e = e.borrow();
            Some(match e.prefix() {
                Some(p) => format!("{}:{}", p, e.local_name()),
                None => e.local_name().to_string(),
            })
        }
        info::XmlItem::Attribute(a) => {
            let a = a.borrow();
            Some(match a.prefix() {
                Some(p) => format!("{}:{}", p, a.local_name()),
                None => a.local_name().to_string(),
            })
        }
        _ => None,
    }
}

/// canonical content of a (sub)tree through the DOM API, merged-text view must be on
fn canon(n: &XmlNode, out: &mut String) {
    match n {
        XmlNode::Document(_) => {
            out.push_str("D[");
            for c in child_list(n) {
                canon(&c, out);
            }
            out.push(']');
        }
        XmlNode::Element(_) => {
            out.push_str("E(");
            out.push_str(&qualified(n).unwrap_or_default());
            let (ns, at, _) = parts(n);
            let mut l: Vec<(String, String)> = ns
                .iter()
                .chain(at.iter())
                .map(|a| {
                    (
                        qualified(a).unwrap_or_default(),
                        a.node_value().ok().flatten().unwrap_or("!".to_string()),
                    )
                })
                .collect();
            l.sort();
            for (k, v) in l {
                out.push_str(&format!(" {}={:?}", k, v));
            }
            out.push_str(")[");
            for c in child_list(n) {
                canon(&c, out);
            }
            out.push(']');
        }
        XmlNode::ExpandedText(t) => {
            let d = dom::CharacterData::data(t).unwrap_or("!".to_string());
            if !d.is_empty() {
                out.push_str(&format!("T({:?})", d));
            }
        }
        XmlNode::Text(_) | XmlNode::CData(_) | XmlNode::EntityReference(_) => {
            // only outside elements (merged view is on): attribute values are compared by value
            out.push_str(&format!("t({:?})", n.to_string()));
        }
        XmlNode::Comment(_) => out.push_str(&format!("C({:?})", n.node_value().ok().flatten().unwrap_or_default())),
        XmlNode::PI(_) => out.push_str(&format!(
            "P({} {:?})",
            n.node_name(),
            n.node_value().ok().flatten().unwrap_or_default()
        )),
        XmlNode::DocumentType(_) => out.push_str(&format!("Y({:?})", n.to_string())),
        _ => out.push_str("?"),
    }
}

/// re-parse the serialisation of a document and compare contents (see the module comment)
fn reparse(st: &St, dm: &dom::XmlDocument) -> String {
    let text = dm.to_string();
    st.set_view(true);
    let mut a = String::new();
    canon(&dm.as_node(), &mut a);
    st.set_view(false);
    match dom::XmlDocument::from_raw_with_context(&text, dom::Context::from_text_expanded(true)) {
        Ok(("", d2)) => {
            let mut b = String::new();
            canon(&d2.as_node(), &mut b);
            if a == b {
                "ok:eq".to_string()
            } else {
                format!("ok:ne:{}:{}", enc(&a), enc(&b))
            }
        }
        Ok(_) => "rest".to_string(),
        Err(_) => "noparse".to_string(),
    }
}

/// description of the freshly parsed documents for the model driver:
/// `D<k>:<decl>` then per handle `I<h>:<doc>:<kind>:<prefix>:<local>:<data>:<flag>:<parent>:<children>:<attrs in stored order>`
fn describe(st: &St) -> String {
    let mut out = vec![];
    for (k, d) in st.docs.iter().enumerate() {
        let dm = d.dom.as_ref().unwrap();
        let all = dm.to_string();
        let kids: String = child_list(&dm.as_node()).iter().map(|c| c.to_string()).collect();
        let decl = all.strip_suffix(kids.as_str()).unwrap_or("");
        out.push(format!("D{}:{}", k, enc(decl)));
    }
    for (h, (d, n)) in st.hs.iter().enumerate() {
        let item = item_of(n).unwrap();
        let (mut prefix, mut local, mut data, mut flag) =
            ("~".to_string(), "-".to_string(), "-".to_string(), 0);
        match &*item {
            info::XmlItem::Element(e) => {
                prefix = e.borrow().prefix().map(enc).unwrap_or("~".to_string());
                local = enc(e.borrow().local_name());
            }
            info::XmlItem::Attribute(a) => {
                prefix = a.borrow().prefix().map(enc).unwrap_or("~".to_string());
                local = enc(a.borrow().local_name());
            }
            info::XmlItem::PI(p) => {
                local = enc(p.borrow().target());
                data = enc(p.borrow().content());
                // `<?t?>` (no content) and `<?t ?>` (empty content) print differently
                flag = if n.to_string().contains(' ') { 1 } else { 0 };
            }
            info::XmlItem::CharReference(c) => {
                let s = n.to_string();
                local = enc(&s[1..s.len() - 1]);
                data = enc(xml_info::Character::character_code(&*c.borrow()));
            }
            info::XmlItem::Unexpanded(_) => {
                local = enc(&n.node_name());
            }
            info::XmlItem::DocumentType(_) => {
                local = enc(&n.node_name());
                data = enc(&n.to_string());
            }
            info::XmlItem::Document(_) => {}
            _ => {
                data = match n.node_value() {
                    Ok(Some(s)) => enc(&s),
                    _ => "-".to_string(),
                };
            }
        }
        let (ns, at, ch) = parts(n);
        // stored order of the attributes of a freshly parsed element = order of their ids
        let mut attrs: Vec<XmlNode> = ns.into_iter().chain(at).collect();
        attrs.sort_by_key(|a| a.id());
        // the info-level parent: the handle that lists this node
        let ents = match n {
            XmlNode::DocumentType(t) => {
                // a declared entity that is refused in attribute values is listed as "\0name"
                let scratch = st.docs[*d].dom.as_ref().unwrap().create_attribute("zz").ok();
                let l: Vec<String> = dom::DocumentType::entities(t)
                    .iter()
                    .map(|e| {
                        let name = e.node_name();
                        let usable = scratch
                            .as_ref()
                            .map(|a| dom::AttrMut::set_value(a, &format!("&{};", name)).is_ok())
                            .unwrap_or(true);
                        if usable {
                            enc(&name)
                        } else {
                            enc(&format!("\0{}", name))
                        }
                    })
                    .collect();
                if l.is_empty() {
                    "~".to_string()
                } else {
                    l.join(".")
                }
            }
            _ => "~".to_string(),
        };
        out.push(format!(
            "I{}:{}:{}:{}:{}:{}:{}:{}:{}:{}",
            h,
            d,
            kind(n),
            prefix,
            local,
            data,
            flag,
            hlist(st, *d, &ch),
            hlist(st, *d, &attrs),
            ents
        ));
        // the names in `notations()` of a document type (not part of the store: a fact the model driver passes
        // with the TS / TSI ops, see Model/DomReadOnly.v)
        if let XmlNode::DocumentType(t) = n {
            let l: Vec<String> = dom::DocumentType::notations(t).iter().map(|x| enc(&x.node_name())).collect();
            out.push(format!("T{}:{}", h, if l.is_empty() { "~".to_string() } else { l.join(".") }));
        }
    }
    out.join(" ")
}

/// facts the implementation derives from a string argument (the model takes them as given):
/// `e<element name>/a<attribute name>/p<pi target>/r<reference?>/t<text ok>/c<comment ok>/d<cdata ok>/P<pi content>/A<attribute value items>`
fn digest(s: &str) -> String {
    fn qn(q: &xml_nom::model::QName) -> String {
        match q {
            xml_nom::model::QName::Prefixed(p) => format!("{}_{}", enc(p.prefix), enc(p.local_part)),
            xml_nom::model::QName::Unprefixed(l) => format!("~_{}", enc(l)),
        }
    }
    // (fix 4acc79c: the string must be one QName / the whole PI target)
    let is_qname = matches!(xml_nom::qname(s), Ok(("", _)));
    let e = match xml_parser::element(&format!("<{} />", s)) {
        Ok(("", t)) if is_qname => qn(&t.name),
        _ => "~".to_string(),
    };
    let a = match xml_parser::attribute(&format!("{}=''", s)) {
        Ok(("", t)) if is_qname => match &t.name {
            xml_parser::model::AttributeName::DefaultNamespace => format!("~_{}", enc("xmlns")),
            xml_parser::model::AttributeName::Namespace(v) => format!("{}_{}", enc("xmlns"), enc(v)),
            xml_parser::model::AttributeName::QName(q) => qn(q),
        },
        _ => "~".to_string(),
    };
    let p = match xml_parser::pi(&format!("<?{}?>", s)) {
        Ok(("", t)) if t.target == s && t.value.is_none() => enc(t.target),
        _ => "~".to_string(),
    };
    // as create_entity_reference reads it: the whole string is one reference to a general entity of that name
    let r = match xml_parser::reference(&format!("&{};", s)) {
        Ok(("", xml_parser::model::Reference::Entity(v))) if v == s => 1,
        _ => 0,
    };
    let t = match xml_parser::content(s) {
        Ok((rest, c)) => rest.is_empty() && c.children.is_empty(),
        Err(_) => false,
    };
    let c = matches!(xml_parser::comment(&format!("<!--{}-->", s)), Ok(("", _)));
    let d = matches!(xml_parser::cdsect(&format!("<![CDATA[{}]]>", s)), Ok(("", _)));
    let pc = match xml_parser::pi(&format!("<?t {}?>", s)) {
        Ok(("", t)) => match t.value {
            Some(v) => format!("s{}", enc(v)),
            None => "n".to_string(),
        },
        _ => "~".to_string(),
    };
    let quoted = if s.contains('"') { format!("'{}'", s) } else { format!("\"{}\"", s) };
    let av = match xml_parser::attribute(&format!("a={}", quoted)) {
        Ok(("", t)) => {
            let items: Vec<String> = t
                .value
                .iter()
                .map(|v| match v {
                    xml_parser::model::AttributeValue::Text(x) => format!("t{}", enc(x)),
                    xml_parser::model::AttributeValue::Reference(
                        xml_parser::model::Reference::Character(n, radix),
                    ) => {
                        let ch = u32::from_str_radix(n, *radix)
                            .ok()
                            .and_then(char::from_u32)
                            .filter(|c| xml_nom::xmlchar::is_char(*c));
                        format!(
                            "c{}_{}",
                            enc(&format!("#{}{}", if *radix == 16 { "x" } else { "" }, n)),
                            ch.map(|c| enc(&c.to_string())).unwrap_or("~".to_string())
                        )
                    }
                    xml_parser::model::AttributeValue::Reference(
                        xml_parser::model::Reference::Entity(n),
                    ) => format!("e{}", enc(n)),
                })
                .collect();
            if items.is_empty() {
                ".".to_string()
            } else {
                items.join("^")
            }
        }
        _ => "~".to_string(),
    };
    format!(
        "e{}/a{}/p{}/r{}/t{}/c{}/d{}/P{}/A{}",
        e, a, p, r, t as u8, c as u8, d as u8, pc, av
    )
}

fn op_digests(ops: &[&str]) -> String {
    let mut out = vec![];
    for (i, op) in ops.iter().enumerate() {
        let f: Vec<&str> = op.split(':').collect();
        if matches!(
            f[0],
            "SA" | "CE" | "CA" | "CT" | "CC" | "CD" | "CP" | "CR" | "SV" | "SD" | "AD" | "ID" | "RD" | "PD"
        ) {
            let ds: Vec<String> = f
                .iter()
                .skip(2)
                .map(|x| dec(x).map(|s| digest(&s)).unwrap_or("~".to_string()))
                .collect();
            out.push(format!("O{}:{}", i, ds.join("+")));
        }
    }
    out.join(" ")
}

fn exc(e: &dom::error::Error) -> String {
    match e {
        dom::error::Error::Dom(x) => format!("err:{:?}", x),
        dom::error::Error::Info(_) => "err:info".to_string(),
        dom::error::Error::Parse(_) => "err:parse".to_string(),
    }
}

fn as_nodemut(n: &XmlNode) -> Option<&dyn NodeMut> {
    match n {
        XmlNode::Element(v) => Some(v),
        XmlNode::Attribute(v) => Some(v),
        XmlNode::Text(v) => Some(v),
        XmlNode::CData(v) => Some(v),
        XmlNode::PI(v) => Some(v),
        XmlNode::Comment(v) => Some(v),
        XmlNode::Document(v) => Some(v),
        _ => None,
    }
}

fn as_chardata(n: &XmlNode) -> Option<&dyn CharacterDataMut> {
    match n {
        XmlNode::Text(v) => Some(v),
        XmlNode::CData(v) => Some(v),
        XmlNode::Comment(v) => Some(v),
        _ => None,
    }
}

enum Res {
    Na,
    Unit(dom::error::Result<()>),
    Node(dom::error::Result<XmlNode>),
    Opt(dom::error::Result<Option<XmlNode>>),
    New(usize, XmlNode),
    Query(String),
    Table(String),
}

fn num(s: &str) -> usize {
    if s == "max" {
        usize::MAX
    } else {
        s.parse().unwrap_or(0)
    }
}

fn empty_text(n: &XmlNode) -> bool {
    match n {
        XmlNode::ExpandedText(t) => dom::CharacterData::length(t) == 0,
        _ => false,
    }
}

/// pre-order ranks (merged view) of the nodes of a document, keyed by (kind, id);
/// `skip_empty`: merged text nodes without characters get no rank (they do not survive printing)
fn ranks(doc: &dom::XmlDocument, skip_empty: bool) -> HashMap<(String, usize), usize> {
    fn go(n: &XmlNode, m: &mut HashMap<(String, usize), usize>, skip_empty: bool) {
        if skip_empty && empty_text(n) {
            return;
        }
        let r = m.len();
        m.insert((kind(n).to_string(), n.id()), r);
        if let Some(attrs) = n.attributes() {
            for a in attrs.iter() {
                let an = a.as_node();
                let r = m.len();
                m.insert((kind(&an).to_string(), an.id()), r);
            }
        }
        for c in child_list(n) {
            go(&c, m, skip_empty);
        }
    }
    let mut m = HashMap::new();
    go(&doc.as_node(), &mut m, skip_empty);
    m
}

/// (ranks of the selected nodes, the same ignoring empty merged text nodes)
/// the namespace bindings every query context of this domain carries (the campaign documents use the
/// namespace names u1, u2 and d)
fn bound_context() -> xml_xpath::eval::model::Context {
    let mut ctx = xml_xpath::eval::model::Context::default();
    ctx.add_ns(Some("n1"), "u1");
    ctx.add_ns(Some("n2"), "u2");
    ctx.add_ns(Some("nd"), "d");
    ctx
}

fn query_ranks(doc: &dom::XmlDocument, expr: &str) -> (String, String) {
    let mut ctx = bound_context();
    query_ranks_ctx(doc, expr, &mut ctx)
}

fn query_ranks_ctx(doc: &dom::XmlDocument, expr: &str, ctx: &mut xml_xpath::eval::model::Context) -> (String, String) {
    let r = catch_unwind(AssertUnwindSafe(|| {
        match xml_xpath::query(doc.clone(), expr, ctx) {
            Ok(xml_xpath::eval::model::Value::Node(ns)) => {
                let show = |skip: bool| {
                    let m = ranks(doc, skip);
                    let l: Vec<String> = ns
                        .iter()
                        .filter(|n| !(skip && empty_text(n)))
                        .map(|n| match m.get(&(kind(n).to_string(), n.id())) {
                            Some(r) => r.to_string(),
                            None => "?".to_string(),
                        })
                        .collect();
                    if l.is_empty() {
                        "-".to_string()
                    } else {
                        l.join(".")
                    }
                };
                (show(false), show(true))
            }
            Ok(_) => ("scalar".to_string(), "scalar".to_string()),
            Err(_) => ("err".to_string(), "err".to_string()),
        }
    }));
    r.unwrap_or_else(|_| ("panic".to_string(), "panic".to_string()))
}

/// the document type a read-only-map op works on: `doc_type()` of a Document handle, or the DocumentType node itself
fn doctype_of(n: &XmlNode) -> Option<dom::XmlDocumentType> {
    match n {
        XmlNode::Document(d) => d.doc_type(),
        XmlNode::DocumentType(t) => Some(t.clone()),
        _ => None,
    }
}

/// ES / ESI / ER / TS / TSI / TR: the mutators of the maps `DocumentType::entities()` / `notations()`
/// (`f` = fields of the op, `r` = receiver handle, `src` = handle the argument is taken from)
fn run_ro_op(f: &[&str], r: &XmlNode, src: Option<XmlNode>) -> Res {
    fn class<T>(x: dom::error::Result<Option<T>>) -> Res {
        match x {
            Ok(None) => Res::Opt(Ok(None)),
            Ok(Some(_)) => Res::Query("ok:item".to_string()),
            Err(e) => Res::Opt(Err(e)),
        }
    }
    let t = match doctype_of(r) {
        Some(t) => t,
        None => return Res::Na,
    };
    let name = || -> String { f.get(3).and_then(|x| dec(x)).unwrap_or_default() };
    let idx = || -> usize { f.get(3).and_then(|x| x.parse::<usize>().ok()).unwrap_or(usize::MAX) };
    match f[0] {
        "ER" => class(t.entities().remove_named_item(&f.get(2).and_then(|x| dec(x)).unwrap_or_default()).map(Some)),
        "TR" => class(t.notations().remove_named_item(&f.get(2).and_then(|x| dec(x)).unwrap_or_default()).map(Some)),
        _ => {
            let s = match src.as_ref().and_then(doctype_of) {
                Some(s) => s,
                None => return Res::Na,
            };
            match f[0] {
                "ES" | "ESI" => {
                    let arg = if f[0] == "ES" { s.entities().get_named_item(&name()) } else { s.entities().item(idx()) };
                    match arg {
                        Some(e) => class(t.entities().set_named_item(e)),
                        None => Res::Na,
                    }
                }
                _ => {
                    let arg = if f[0] == "TS" { s.notations().get_named_item(&name()) } else { s.notations().item(idx()) };
                    match arg {
                        Some(e) => class(t.notations().set_named_item(e)),
                        None => Res::Na,
                    }
                }
            }
        }
    }
}

/// ACX / IBX / IBXX / RCX / RCXX: a merged text node of the text-expanded view as new_child (see the module comment)
fn run_mx_op(st: &St, f: &[&str], r: &XmlNode) -> Res {
    let h = |i: usize| -> Option<XmlNode> {
        f.get(i).and_then(|s| s.parse::<usize>().ok()).and_then(|k| st.hs.get(k).map(|x| x.1.clone()))
    };
    // entry k of the child list of handle c as the merged view shows it, if it is a merged text node
    let merged_entry = |ci: usize, ki: usize| -> Option<XmlNode> {
        let c = h(ci)?;
        let k = f.get(ki).and_then(|s| s.parse::<usize>().ok())?;
        st.set_view(true);
        let it = c.child_nodes().item(k);
        st.set_view(st.case_merged);
        match it {
            Some(XmlNode::ExpandedText(t)) => Some(XmlNode::ExpandedText(t)),
            _ => None,
        }
    };
    let m = match as_nodemut(r) {
        Some(m) => m,
        None => return Res::Na,
    };
    let it = match merged_entry(2, 3) {
        Some(x) => x,
        None => return Res::Na,
    };
    match f[0] {
        "ACX" => Res::Node(m.append_child(it)),
        "IBX" | "RCX" => {
            let b = match h(4) {
                Some(x) => x,
                None => return Res::Na,
            };
            if f[0] == "IBX" {
                Res::Node(m.insert_before(it, Some(&b)))
            } else {
                Res::Node(m.replace_child(it, &b))
            }
        }
        _ => {
            let b = match merged_entry(4, 5) {
                Some(x) => x,
                None => return Res::Na,
            };
            if f[0] == "IBXX" {
                Res::Node(m.insert_before(it, Some(&b)))
            } else {
                Res::Node(m.replace_child(it, &b))
            }
        }
    }
}

fn run_op(st: &mut St, op: &str) -> Res {
    let f: Vec<&str> = op.split(':').collect();
    let h = |i: usize| -> Option<(usize, XmlNode)> {
        f.get(i)
            .and_then(|s| s.parse::<usize>().ok())
            .and_then(|k| st.hs.get(k).cloned())
    };
    let s = |i: usize| -> String { f.get(i).and_then(|x| dec(x)).unwrap_or_default() };
    let (rd, r) = match h(1) {
        Some(x) => x,
        None => return Res::Na,
    };
    match f[0] {
        "AC" | "IB" | "RC" | "RM" => {
            let m = match as_nodemut(&r) {
                Some(m) => m,
                None => return Res::Na,
            };
            let a = match h(2) {
                Some(x) => x.1,
                None => return Res::Na,
            };
            match f[0] {
                "AC" => Res::Node(m.append_child(a)),
                "RM" => Res::Node(m.remove_child(&a)),
                _ => {
                    let b = match h(3) {
                        Some(x) => x.1,
                        None => return Res::Na,
                    };
                    if f[0] == "IB" {
                        Res::Node(m.insert_before(a, Some(&b)))
                    } else {
                        Res::Node(m.replace_child(a, &b))
                    }
                }
            }
        }
        "SA" | "RA" | "SAN" | "RAN" | "NS" | "NR" => {
            let e = match &r {
                XmlNode::Element(e) => e.clone(),
                _ => return Res::Na,
            };
            match f[0] {
                "SA" => Res::Unit(e.set_attribute(&s(2), &s(3))),
                "RA" => Res::Unit(e.remove_attribute(&s(2))),
                "NR" => Res::Node(
                    e.attributes().unwrap().remove_named_item(&s(2)).map(|a| a.as_node()),
                ),
                _ => {
                    let a = match h(2) {
                        Some((_, XmlNode::Attribute(a))) => a,
                        _ => return Res::Na,
                    };
                    match f[0] {
                        "SAN" => Res::Opt(e.set_attribute_node(a).map(|o| o.map(|a| a.as_node()))),
                        "RAN" => Res::Node(e.remove_attribute_node(a).map(|a| a.as_node())),
                        _ => Res::Opt(
                            e.attributes()
                                .unwrap()
                                .set_named_item(a)
                                .map(|o| o.map(|a| a.as_node())),
                        ),
                    }
                }
            }
        }
        "CE" | "CA" | "CT" | "CC" | "CD" | "CP" | "CR" | "CF" => {
            let d = match &r {
                XmlNode::Document(d) => d.clone(),
                _ => return Res::Na,
            };
            match f[0] {
                "CE" => Res::Node(d.create_element(&s(2)).map(|x| x.as_node())),
                "CA" => Res::Node(d.create_attribute(&s(2)).map(|x| x.as_node())),
                "CT" => Res::Node(Ok(d.create_text_node(&s(2)).as_node())),
                "CC" => Res::Node(Ok(d.create_comment(&s(2)).as_node())),
                "CD" => Res::Node(Ok(d.create_cdata_section(&s(2)).as_node())),
                "CP" => Res::Node(d.create_processing_instruction(&s(2), &s(3)).map(|x| x.as_node())),
                "CR" => Res::Node(d.create_entity_reference(&s(2)).map(|x| x.as_node())),
                _ => {
                    let fr = d.create_document_fragment().as_node();
                    st.docs.push(Doc { info: None, dom: None });
                    st.frag_owner.insert(st.docs.len() - 1, rd);
                    Res::New(st.docs.len() - 1, fr)
                }
            }
        }
        "SV" => match as_nodemut(&r) {
            Some(m) => Res::Unit(m.set_node_value(&s(2))),
            None => Res::Na,
        },
        "SD" | "AD" | "ID" | "DD" | "RD" => match as_chardata(&r) {
            Some(c) => Res::Unit(match f[0] {
                "SD" => c.set_data(&s(2)),
                "AD" => c.append_data(&s(2)),
                "ID" => c.insert_data(num(f.get(2).unwrap_or(&"0")), &s(3)),
                "DD" => c.delete_data(num(f.get(2).unwrap_or(&"0")), num(f.get(3).unwrap_or(&"0"))),
                _ => c.replace_data(
                    num(f.get(2).unwrap_or(&"0")),
                    num(f.get(3).unwrap_or(&"0")),
                    &s(4),
                ),
            }),
            None => Res::Na,
        },
        "ST" => {
            let off = num(f.get(2).unwrap_or(&"0"));
            match &r {
                XmlNode::Text(t) => Res::Node(t.split_text(off).map(|x| x.as_node())),
                XmlNode::CData(t) => Res::Node(t.split_text(off).map(|x| x.as_node())),
                _ => Res::Na,
            }
        }
        "PD" => match &r {
            XmlNode::PI(p) => Res::Unit(p.set_data(&s(2))),
            _ => Res::Na,
        },
        "X" => {
            let d = match &r {
                XmlNode::Document(d) => d.clone(),
                _ => return Res::Na,
            };
            let merged = f.get(2) == Some(&"1");
            // string facts of the model's view (sf_attr / sf_ref), straight from the items
            let mut facts: Vec<String> = vec![];
            for (h, (hd, n)) in st.hs.iter().enumerate() {
                if *hd != rd {
                    continue;
                }
                match n {
                    XmlNode::Attribute(_) => {
                        let v = item_of(n)
                            .and_then(|i| i.as_attribute())
                            .map(|a| xml_info::Attribute::normalized_value(&*a.borrow()));
                        facts.push(format!(
                            "a{}={}",
                            h,
                            match v {
                                Some(Ok(s)) => enc(&s),
                                _ => "E".to_string(),
                            }
                        ));
                    }
                    XmlNode::EntityReference(e) if kind(n) == "er" => {
                        facts.push(format!(
                            "r{}={}",
                            h,
                            match e.value() {
                                Ok(s) => enc(&s),
                                Err(_) => "E".to_string(),
                            }
                        ));
                    }
                    _ => {}
                }
            }
            let facts = if facts.is_empty() { "-".to_string() } else { facts.join("^") };
            st.set_view(merged);
            let t = catch_unwind(AssertUnwindSafe(|| {
                super::xpath::Table::build(&d).dump_canonical(&|n: &XmlNode| {
                    if n.id() == 0 {
                        "~".to_string()
                    } else {
                        match st.index.get(&(rd, n.id())) {
                            Some(h) => h.to_string(),
                            None => "?".to_string(),
                        }
                    }
                })
            }))
            .unwrap_or_else(|_| "panic".to_string());
            st.set_view(false);
            Res::Table(format!("x:{}:{}:{}", merged as u8, facts, t))
        }
        // Element::normalize (returns (): the result class is always ok; a panic is caught by the caller)
        "NZ" => match &r {
            XmlNode::Element(e) => {
                e.normalize();
                Res::Unit(Ok(()))
            }
            _ => Res::Na,
        },
        "ES" | "ESI" | "ER" | "TS" | "TSI" | "TR" => run_ro_op(&f, &r, h(2).map(|x| x.1)),
        "ACX" | "IBX" | "IBXX" | "RCX" | "RCXX" => run_mx_op(st, &f, &r),
        "Q" => {
            let d = match &r {
                XmlNode::Document(d) => d.clone(),
                _ => return Res::Na,
            };
            let expr = s(2);
            st.set_view(true);
            let a = query_ranks(&d, &expr);
            // the same query with the context that earlier Q ops of this case have used
            let mut shared = std::mem::take(&mut st.xctx);
            let sc = query_ranks_ctx(&d, &expr, &mut shared);
            st.xctx = shared;
            // and in the raw view (adjacent text items are separate nodes): only its order is judged
            st.set_view(false);
            let raw = query_ranks(&d, &expr);
            st.set_view(true);
            let text = d.to_string();
            st.set_view(false);
            let b = match dom::XmlDocument::from_raw_with_context(
                &text,
                dom::Context::from_text_expanded(true),
            ) {
                Ok(("", d2)) => query_ranks(&d2, &expr),
                _ => ("noparse".to_string(), "noparse".to_string()),
            };
            let _ = rd;
            // does the edited document hold a merged text node without characters?
            st.set_view(true);
            let has_empty = ranks(&d, false).len() != ranks(&d, true).len();
            st.set_view(false);
            Res::Query(format!(
                "q:{}/{};{}/{};e{};s{};r{}",
                a.0, b.0, a.1, b.1, has_empty as u8, sc.0, raw.0
            ))
        }
        _ => Res::Na,
    }
}

pub fn case(line: &str) -> String {
    let w: Vec<&str> = line.split(' ').filter(|x| !x.is_empty()).collect();
    if w.len() < 2 {
        return "badinput".to_string();
    }
    // "r" | "m", optionally followed by "!k": records before k carry no dump ("-"), and by "+x"
    let (w0, ext) = match w[0].split_once('+') {
        Some((a, b)) => (a, b.contains('x')),
        None => (w[0], false),
    };
    let mut vw = w0.split('!');
    let merged = vw.next() == Some("m");
    let from: usize = vw.next().and_then(|x| x.parse().ok()).unwrap_or(0);
    let nd: usize = w[1].parse().unwrap_or(0);
    if w.len() < 2 + nd {
        return "badinput".to_string();
    }
    let mut st = St { docs: vec![], hs: vec![], index: HashMap::new(), ext, frag_owner: HashMap::new(), xctx: bound_context(), case_merged: merged };
    for k in 0..nd {
        let text = match dec(w[2 + k]) {
            Some(t) => t,
            None => return "badinput".to_string(),
        };
        let tree = match xml_parser::document(&text) {
            Ok(("", t)) => t,
            _ => return "noparse".to_string(),
        };
        let idoc = match info::XmlDocument::new(&tree) {
            Ok(d) => d,
            Err(_) => return "noparse".to_string(),
        };
        let ddoc = dom::XmlDocument::from(idoc.clone());
        st.docs.push(Doc { info: Some(idoc), dom: Some(ddoc.clone()) });
        st.walk(k, ddoc.as_node());
    }
    let mut recs = vec![format!(
        "init {} {} # {}",
        describe(&st),
        op_digests(&w[2 + nd..]),
        if from == 0 { dump(&st) } else { "-".to_string() }
    )];
    for (i, op) in w[2 + nd..].iter().enumerate() {
        st.set_view(merged);
        let r = catch_unwind(AssertUnwindSafe(|| run_op(&mut st, op)));
        st.set_view(false);
        let res = match r {
            Err(_) => "panic".to_string(),
            Ok(Res::Na) => "na".to_string(),
            Ok(Res::Unit(Ok(()))) => "ok".to_string(),
            Ok(Res::Unit(Err(e))) => exc(&e),
            Ok(Res::Query(q)) => q,
            Ok(Res::Table(t)) => t,
            Ok(Res::New(d, n)) => format!("ok:{}", st.intern(d, n)),
            Ok(Res::Opt(Ok(None))) => "ok:~".to_string(),
            Ok(Res::Opt(Err(e))) | Ok(Res::Node(Err(e))) => exc(&e),
            Ok(Res::Opt(Ok(Some(n)))) | Ok(Res::Node(Ok(n))) => {
                let d = op
                    .split(':')
                    .nth(1)
                    .and_then(|s| s.parse::<usize>().ok())
                    .and_then(|k| st.hs.get(k).map(|x| x.0))
                    .unwrap_or(0);
                format!("ok:{}", st.intern(d, n))
            }
        };
        st.scan();
        let d = if i + 1 < from {
            "-".to_string()
        } else {
            catch_unwind(AssertUnwindSafe(|| dump(&st))).unwrap_or_else(|_| "dump-panic".to_string())
        };
        let cyclic = d.contains(" cycle=");
        recs.push(format!("{} # {}", res, d));
        if cyclic || find_cycle(&st).is_some() {
            // navigation and serialisation inside later calls may not terminate: the case ends here
            break;
        }
    }
    recs.join(" | ")
}
